(* C20 — lemmas about the network model: the evaluator decides the formulas, the checkers are sound
   (and complete), lookup returns elements of the network, network equivalence is equality, the
   two-pass lookup returns the first exact container in priority order, the cache decision. *)
From Coq Require Import List Bool PArith NArith ZArith FMapPositive Lia.
From Scenic Require Import C20.Network.
Import ListNotations.

(* ------------------------------------------------------------------------ boolean tools decide *)
Lemma opos_eqb_eq a b : opos_eqb a b = true <-> a = b.
Proof.
  destruct a, b; cbn; try (split; congruence).
  rewrite Pos.eqb_eq. split; congruence.
Qed.

Lemma lpos_eqb_eq : forall a b, lpos_eqb a b = true <-> a = b.
Proof.
  induction a; destruct b; cbn; try (split; congruence).
  rewrite andb_true_iff, Pos.eqb_eq, IHa. split; [intros [-> ->]; reflexivity | intros H; inversion H; auto].
Qed.

Lemma memb_In u : forall l, memb u l = true <-> In u l.
Proof.
  induction l; cbn; [split; [discriminate | tauto]|].
  rewrite orb_true_iff, Pos.eqb_eq, IHl. split; intros [H|H]; auto.
Qed.

Lemma nodupb_NoDup : forall l, nodupb l = true <-> NoDup l.
Proof.
  induction l; cbn; [split; [constructor | reflexivity]|].
  rewrite andb_true_iff, negb_true_iff, IHl. split.
  - intros [H1 H2]. constructor; auto. intros Hin. apply memb_In in Hin. congruence.
  - intros H. inversion H; subst. split; auto.
    destruct (memb a l) eqn:E; auto. apply memb_In in E. contradiction.
Qed.

Lemma kind_eqb_eq a b : kind_eqb a b = true <-> a = b.
Proof.
  unfold kind_eqb. rewrite N.eqb_eq. split; [|intros ->; reflexivity].
  destruct a, b; cbn; intros H; try reflexivity; discriminate.
Qed.

(* ------------------------------------------------------------------- the evaluator is a decision *)
Lemma evalb_iff m : forall f, evalb m f = true <-> holds m f.
Proof.
  induction f; cbn [evalb holds].
  - split; auto.
  - split; [discriminate | tauto].
  - rewrite andb_true_iff, IHf1, IHf2. tauto.
  - rewrite orb_true_iff, IHf1, IHf2. tauto.
  - split.
    + intros Hi H1. apply IHf1 in H1. rewrite H1 in Hi. cbn in Hi. apply IHf2. exact Hi.
    + intros Hi. destruct (evalb m f1) eqn:E1; cbn; [|reflexivity]. apply IHf2, Hi, IHf1. reflexivity.
  - rewrite negb_true_iff. split.
    + intros E Hh. apply IHf in Hh. congruence.
    + intros Hn. destruct (evalb m f) eqn:E; auto. exfalso. apply Hn, IHf. reflexivity.
  - apply opos_eqb_eq.
  - apply Bool.eqb_true_iff.
  - apply N.eqb_eq.
  - apply Z.eqb_eq.
  - apply kind_eqb_eq.
  - apply lpos_eqb_eq.
  - apply memb_In.
  - apply nodupb_NoDup.
  - destruct o as [u|]; [|tauto]. destruct (PositiveMap.find u m); [apply H|]. split; [discriminate | tauto].
  - destruct o as [u|]; [|split; [discriminate | tauto]].
    destruct (PositiveMap.find u m); [apply H|]. split; [discriminate | tauto].
  - induction l as [|u t IHt]; [tauto|].
    rewrite andb_true_iff, IHt. destruct (PositiveMap.find u m); [rewrite H; tauto|].
    split; [intros [? _]; discriminate | tauto].
  - induction l as [|u t IHt]; [split; [discriminate | tauto]|].
    rewrite orb_true_iff, IHt. destruct (PositiveMap.find u m); [rewrite H; tauto|].
    split; [intros [?|?]; [discriminate | tauto] | tauto].
Qed.

Lemma holds_FAnd m a b : holds m (FAnd a b) = (holds m a /\ holds m b).
Proof. reflexivity. Qed.
Lemma holds_FOr m a b : holds m (FOr a b) = (holds m a \/ holds m b).
Proof. reflexivity. Qed.

(* readable forms of the quantifier formulas *)
Lemma holds_FAll m l g : holds m (FAll l g) <->
  forall u, In u l -> exists e, PositiveMap.find u m = Some e /\ holds m (g e).
Proof.
  cbn [holds]. induction l as [|a t IH]; [split; [intros _ u [] | auto]|].
  rewrite IH. split.
  - intros [Ha Ht] u [<-|Hin]; auto.
    destruct (PositiveMap.find a m); [eauto | tauto].
  - intros Hall. split; [|intros u Hu; apply Hall; right; auto].
    destruct (Hall a (or_introl eq_refl)) as [e [-> He]]. exact He.
Qed.

Lemma holds_FEx m l g : holds m (FEx l g) <->
  exists u e, In u l /\ PositiveMap.find u m = Some e /\ holds m (g e).
Proof.
  cbn [holds]. induction l as [|a t IH]; [split; [tauto | intros [u [e [[] _]]]]|].
  rewrite IH. split.
  - intros [Ha|[u [e [Hin He]]]].
    + destruct (PositiveMap.find a m) eqn:E; [|tauto]. exists a, e. cbn. auto.
    + exists u, e. cbn. tauto.
  - intros [u [e [[<-|Hin] [Hf He]]]].
    + left. rewrite Hf. exact He.
    + right. eauto.
Qed.

Lemma holds_FRes m o g : holds m (FRes o g) <->
  forall u, o = Some u -> exists e, PositiveMap.find u m = Some e /\ holds m (g e).
Proof.
  cbn [holds]. destruct o as [u|]; [|split; [intros _ u; discriminate | auto]].
  split.
  - intros H u' Hu. inversion Hu; subst. destruct (PositiveMap.find u' m); [eauto | tauto].
  - intros H. destruct (H u eq_refl) as [e [-> He]]. exact He.
Qed.

Lemma holds_FDef m o g : holds m (FDef o g) <->
  exists u e, o = Some u /\ PositiveMap.find u m = Some e /\ holds m (g e).
Proof.
  cbn [holds]. destruct o as [u|]; [|split; [tauto | intros [u [e [H _]]]; discriminate]].
  split.
  - intros H. destruct (PositiveMap.find u m) eqn:E; [|tauto]. exists u, e. auto.
  - intros [u' [e [Hu [Hf He]]]]. inversion Hu; subst. rewrite Hf. exact He.
Qed.

Lemma holds_FAnds m : forall l, holds m (FAnds l) <-> forall f, In f l -> holds m f.
Proof.
  induction l as [|a t IH]; cbn; [split; [intros _ f [] | auto]|].
  fold (FAnds t). rewrite IH. split.
  - intros [Ha Ht] f [<-|Hin]; auto.
  - intros H. split; auto.
Qed.

(* ------------------------------------------------------------------------------------- lookup *)
Lemma index_sound : forall es m0 u e,
  PositiveMap.find u (fold_left (fun m e => PositiveMap.add (uid e) e m) es m0) = Some e ->
  (In e es /\ uid e = u) \/ PositiveMap.find u m0 = Some e.
Proof.
  induction es as [|a t IH]; cbn; intros m0 u e H; [auto|].
  apply IH in H. destruct H as [[Hin Hu]|H]; [left; auto|].
  destruct (Pos.eq_dec u (uid a)) as [->|Hne].
  - rewrite PositiveMap.gss in H. inversion H; subst. left; auto.
  - rewrite PositiveMap.gso in H by exact Hne. right; exact H.
Qed.

Lemma lookup_sound nt u e : lookup nt u = Some e -> In e (elems nt) /\ uid e = u.
Proof.
  unfold lookup, index. intros H. apply index_sound in H. destruct H as [H|H]; [exact H|].
  rewrite PositiveMap.gempty in H. discriminate.
Qed.

Lemma index_complete : forall es m0 e,
  NoDup (map uid es) -> In e es ->
  PositiveMap.find (uid e) (fold_left (fun m e => PositiveMap.add (uid e) e m) es m0) = Some e.
Proof.
  induction es as [|a t IH]; cbn; intros m0 e Hnd Hin; [tauto|].
  inversion Hnd as [|x l Hnotin Hnd']; subst.
  destruct Hin as [->|Hin]; [|apply IH; auto].
  clear IH Hnd. revert m0.
  assert (G : forall t m0, ~ In (uid e) (map uid t) -> PositiveMap.find (uid e) m0 = Some e ->
            PositiveMap.find (uid e) (fold_left (fun m e => PositiveMap.add (uid e) e m) t m0) = Some e).
  { induction t0 as [|b t0 IHt]; cbn; intros m0 Hn Hf; [exact Hf|].
    apply IHt; [tauto|]. rewrite PositiveMap.gso; [exact Hf|]. intros Heq. apply Hn. left. congruence. }
  intros m0. apply G; [exact Hnotin|]. apply PositiveMap.gss.
Qed.

Lemma lookup_complete nt e : NoDup (map uid (elems nt)) -> In e (elems nt) -> lookup nt (uid e) = Some e.
Proof. intros. unfold lookup, index. apply index_complete; auto. Qed.

(* ------------------------------------------------------------------------- checkers are sound *)
Definition RulesExcept (rules : elem -> list (N * fm)) (nt : net) (bad : list (positive * N)) : Prop :=
  forall e, In e (elems nt) -> forall r f, In (r, f) (rules e) -> ~ In (uid e, r) bad ->
  holds (index (elems nt)) f.

Definition ReciprocalExcept (nt : net) := RulesExcept (rules_links nt) nt.
Definition HierarchyExcept (nt : net) (bad : list (positive * N)) : Prop :=
  RulesExcept (rules_hier nt) nt bad /\
  forall r f, In (r, f) (rules_net nt (index (elems nt))) -> ~ In (1%positive, r) bad -> holds (index (elems nt)) f.

Lemma failing_complete m rs r f : In (r, f) rs -> ~ In r (failing m rs) -> holds m f.
Proof.
  intros Hin Hn. destruct (evalb m f) eqn:E; [apply evalb_iff; exact E|].
  exfalso. apply Hn. unfold failing. apply in_map_iff. exists (r, f). split; [reflexivity|].
  apply filter_In. split; [exact Hin|]. cbn. rewrite E. reflexivity.
Qed.

Lemma elems_bad_sound rules nt bad : elems_bad rules nt = bad -> RulesExcept rules nt bad.
Proof.
  intros <- e He r f Hrf Hn. eapply failing_complete; [exact Hrf|].
  intros Hf. apply Hn. unfold elems_bad. apply in_flat_map. exists e. split; [exact He|].
  apply in_map_iff. exists r. auto.
Qed.

Lemma elems_bad_sound_incl rules nt bad : incl (elems_bad rules nt) bad -> RulesExcept rules nt bad.
Proof.
  intros Hincl e He r f Hrf Hn. eapply (elems_bad_sound rules nt _ eq_refl); eauto.
Qed.

Lemma links_bad_sound nt bad : links_bad nt = bad -> ReciprocalExcept nt bad.
Proof. apply elems_bad_sound. Qed.

Lemma hierarchy_bad_sound nt bad : hierarchy_bad nt = bad -> HierarchyExcept nt bad.
Proof.
  intros <-. unfold hierarchy_bad. split.
  - apply elems_bad_sound_incl. apply incl_appr, incl_refl.
  - intros r f Hrf Hn. eapply failing_complete; [exact Hrf|].
    intros Hf. apply Hn. apply in_or_app. left. apply in_map_iff. exists r. auto.
Qed.

Lemma nilb_nil {A} (l : list A) : nilb l = true -> l = [].
Proof. destruct l; [reflexivity | discriminate]. Qed.

Lemma links_ok_rules nt : links_ok nt = true -> ReciprocalExcept nt [].
Proof. intros H. apply links_bad_sound, nilb_nil, H. Qed.

Lemma hierarchy_ok_rules nt : hierarchy_ok nt = true -> HierarchyExcept nt [].
Proof. intros H. apply hierarchy_bad_sound, nilb_nil, H. Qed.

(* completeness: a rule that holds is not reported *)
Lemma failing_sound m rs r : In r (failing m rs) -> exists f, In (r, f) rs /\ ~ holds m f.
Proof.
  unfold failing. intros H. apply in_map_iff in H. destruct H as [[r' f] [<- H]].
  apply filter_In in H. destruct H as [Hin Hb]. exists f. split; [exact Hin|].
  intros Hh. apply evalb_iff in Hh. cbn in Hb. rewrite Hh in Hb. discriminate.
Qed.

Lemma links_bad_complete nt u r : In (u, r) (links_bad nt) ->
  exists e f, In e (elems nt) /\ uid e = u /\ In (r, f) (rules_links nt e) /\ ~ holds (index (elems nt)) f.
Proof.
  unfold links_bad, elems_bad. intros H. apply in_flat_map in H. destruct H as [e [He H]].
  apply in_map_iff in H. destruct H as [r' [Heq Hr]]. inversion Heq; subst.
  apply failing_sound in Hr. destruct Hr as [f [Hin Hn]]. exists e, f. auto.
Qed.

(* ------------------------------------------------------ the specification, as the user reads it *)
(* [Reciprocal]: links between elements are reciprocal. Every clause is about elements of the network
   ([In a (elems nt)]) and dereferences links through [lookup]. *)
Definition deref (nt : net) (o : option positive) : option elem :=
  match o with Some u => lookup nt u | None => None end.

Record Reciprocal (nt : net) : Prop := {
  (* successor / predecessor: the element a lane (section) names as successor exists, is of the same class, and
     either names the lane back, or names a predecessor which also flows into it (merge), or names none *)
  rc_succ : forall a ub, In a (elems nt) -> kind_of a = KLane \/ kind_of a = KLaneSec -> succ a = Some ub ->
     exists b, lookup nt ub = Some b /\ kind_of b = kind_of a /\
       (pred b = Some (uid a) \/ pred b = None \/ exists p, deref nt (pred b) = Some p /\ succ p = Some ub);
  rc_pred : forall a ub, In a (elems nt) -> kind_of a = KLane \/ kind_of a = KLaneSec -> pred a = Some ub ->
     exists b, lookup nt ub = Some b /\ kind_of b = kind_of a /\
       (succ b = Some (uid a) \/ succ b = None \/ exists s, deref nt (succ b) = Some s /\ pred s = Some ub);
  (* between lanes (lane sections) of ordinary roads a successor always names a predecessor back *)
  rc_succ_ordinary : forall a ub b ra rb, In a (elems nt) -> kind_of a = KLane \/ kind_of a = KLaneSec ->
     succ a = Some ub -> lookup nt ub = Some b -> road a = Some ra -> road b = Some rb ->
     In ra (n_roads nt) -> In rb (n_roads nt) -> pred b <> None;
  rc_pred_ordinary : forall a ub b ra rb, In a (elems nt) -> kind_of a = KLane \/ kind_of a = KLaneSec ->
     pred a = Some ub -> lookup nt ub = Some b -> road a = Some ra -> road b = Some rb ->
     In ra (n_roads nt) -> In rb (n_roads nt) -> succ b <> None;
  (* adjacent lanes are mutual *)
  rc_adjacent : forall a ub, In a (elems nt) -> kind_of a = KLane \/ kind_of a = KLaneSec -> In ub (adjacent a) ->
     exists b, lookup nt ub = Some b /\ kind_of b = kind_of a /\ In (uid a) (adjacent b);
  (* laneToLeft / laneToRight are mirrored *)
  rc_left : forall s ul, In s (elems nt) -> kind_of s = KLaneSec -> left s = Some ul ->
     exists l, lookup nt ul = Some l /\ kind_of l = KLaneSec /\ left s <> right s /\
       (isfwd l = isfwd s -> right l = Some (uid s)) /\ (isfwd l <> isfwd s -> left l = Some (uid s));
  rc_right : forall s ur, In s (elems nt) -> kind_of s = KLaneSec -> right s = Some ur ->
     exists r, lookup nt ur = Some r /\ kind_of r = KLaneSec /\ right s <> left s /\
       (isfwd r = isfwd s -> left r = Some (uid s)) /\ (isfwd r <> isfwd s -> right r = Some (uid s));
  (* opposite lane groups are mutual *)
  rc_opposite : forall g uh, In g (elems nt) -> kind_of g = KGroup -> opposite g = Some uh ->
     exists h, lookup nt uh = Some h /\ kind_of h = KGroup /\ opposite h = Some (uid g) /\ road h = road g;
  (* maneuvers: listed by their start lane; a lane's maneuvers start there *)
  rc_man_start : forall m, In m (elems nt) -> kind_of m = KMan ->
     exists l, deref nt (mstart m) = Some l /\ kind_of l = KLane /\ In (uid m) (mans l);
  rc_lane_mans : forall l um, In l (elems nt) -> kind_of l = KLane -> In um (mans l) ->
     exists m, lookup nt um = Some m /\ kind_of m = KMan /\ mstart m = Some (uid l);
  (* connecting lane: predecessor = start lane, successor = end lane *)
  rc_connecting : forall m uc, In m (elems nt) -> kind_of m = KMan -> mconn m = Some uc ->
     exists c, lookup nt uc = Some c /\ kind_of c = KLane /\ succ c = mend m /\ pred c = mstart m;
  (* maneuvers through an intersection are listed there, from an incoming to an outgoing lane *)
  rc_man_inter : forall m ui, In m (elems nt) -> kind_of m = KMan -> minter m = Some ui ->
     exists i sl el, lookup nt ui = Some i /\ kind_of i = KInter /\ In (uid m) (mans i) /\
       mstart m = Some sl /\ In sl (incoming i) /\ mend m = Some el /\ In el (outgoing i);
  rc_inter_mans : forall i um, In i (elems nt) -> kind_of i = KInter -> In um (mans i) ->
     exists m, lookup nt um = Some m /\ kind_of m = KMan /\ minter m = Some (uid i) /\ mconn m <> None;
  (* every maneuver of an incoming lane belongs to the intersection *)
  rc_incoming : forall i ul um, In i (elems nt) -> kind_of i = KInter -> In ul (incoming i) ->
     exists l, lookup nt ul = Some l /\ kind_of l = KLane /\ (In um (mans l) -> In um (mans i));
  (* an incoming lane names a successor; if that successor itself leads on, a maneuver of the intersection passes
     through it (a connecting lane without successor cannot carry a maneuver: rc_connecting needs an end lane) *)
  rc_incoming_succ : forall i ul, In i (elems nt) -> kind_of i = KInter -> In ul (incoming i) ->
     exists l uc c, lookup nt ul = Some l /\ succ l = Some uc /\ lookup nt uc = Some c /\
       (succ c = None \/ exists um m, In um (mans i) /\ lookup nt um = Some m /\ mconn m = Some uc)
}.

Ltac use_rule H e He r :=
  let R := fresh "R" in
  pose proof (H e He r) as R; unfold rules_links in R.

Ltac pick Hk := unfold rules_links, rules_hier; rewrite Hk; repeat (first [left; reflexivity | right]).
Ltac pickn := unfold rules_net; repeat (first [left; reflexivity | right]).

Lemma holds_rule nt bad e r f :
  ReciprocalExcept nt bad -> In e (elems nt) -> In (r, f) (rules_links nt e) -> ~ In (uid e, r) bad ->
  holds (index (elems nt)) f.
Proof. intros H He Hr Hn. exact (H e He r f Hr Hn). Qed.

Lemma kind_cases a : kind_of a = KLane \/ kind_of a = KLaneSec -> forall P : kind -> Prop, P KLane -> P KLaneSec -> P (kind_of a).
Proof. intros [->| ->]; auto. Qed.

Lemma succ_rule_spec nt k a : holds (index (elems nt)) (succ_rule k a) -> forall ub, succ a = Some ub ->
  exists b, lookup nt ub = Some b /\ kind_of b = k /\
    (pred b = Some (uid a) \/ pred b = None \/ exists p, deref nt (pred b) = Some p /\ succ p = Some ub).
Proof.
  unfold succ_rule. rewrite holds_FRes. intros H ub Hs. destruct (H ub Hs) as [b [Hb Hh]].
  exists b. split; [exact Hb|]. rewrite holds_FAnd, holds_FOr in Hh. destruct Hh as [Hk [Hp|Hp]]; split; auto.
  rewrite holds_FRes in Hp. destruct (pred b) as [up|] eqn:Ep; [|auto].
  right; right. destruct (Hp up eq_refl) as [p [Hfp Hsp]]. exists p. cbn in Hsp. split; [exact Hfp | congruence].
Qed.

Lemma pred_rule_spec nt k a : holds (index (elems nt)) (pred_rule k a) -> forall ub, pred a = Some ub ->
  exists b, lookup nt ub = Some b /\ kind_of b = k /\
    (succ b = Some (uid a) \/ succ b = None \/ exists s, deref nt (succ b) = Some s /\ pred s = Some ub).
Proof.
  unfold pred_rule. rewrite holds_FRes. intros H ub Hs. destruct (H ub Hs) as [b [Hb Hh]].
  exists b. split; [exact Hb|]. rewrite holds_FAnd, holds_FOr in Hh. destruct Hh as [Hk [Hp|Hp]]; split; auto.
  rewrite holds_FRes in Hp. destruct (succ b) as [up|] eqn:Ep; [|auto].
  right; right. destruct (Hp up eq_refl) as [p [Hfp Hsp]]. exists p. cbn in Hsp. split; [exact Hfp | congruence].
Qed.

Lemma on_ordinary_spec nt e r m : road e = Some r -> In r (n_roads nt) -> holds m (on_ordinary nt e).
Proof. intros Hr Hin. unfold on_ordinary. rewrite Hr. exact Hin. Qed.

Lemma succ_strict_spec nt a : holds (index (elems nt)) (succ_strict nt a) -> forall ub b ra rb,
  succ a = Some ub -> lookup nt ub = Some b -> road a = Some ra -> road b = Some rb ->
  In ra (n_roads nt) -> In rb (n_roads nt) -> pred b <> None.
Proof.
  unfold succ_strict. rewrite holds_FRes. intros H ub b ra rb Hs Hb Hra Hrb Ia Ib.
  destruct (H ub Hs) as [b' [Hb' Hh]]. unfold lookup in Hb. rewrite Hb in Hb'. inversion Hb'; subst b'.
  cbn [holds FNeO] in Hh. apply Hh. split; eapply on_ordinary_spec; eauto.
Qed.

Lemma pred_strict_spec nt a : holds (index (elems nt)) (pred_strict nt a) -> forall ub b ra rb,
  pred a = Some ub -> lookup nt ub = Some b -> road a = Some ra -> road b = Some rb ->
  In ra (n_roads nt) -> In rb (n_roads nt) -> succ b <> None.
Proof.
  unfold pred_strict. rewrite holds_FRes. intros H ub b ra rb Hs Hb Hra Hrb Ia Ib.
  destruct (H ub Hs) as [b' [Hb' Hh]]. unfold lookup in Hb. rewrite Hb in Hb'. inversion Hb'; subst b'.
  cbn [holds FNeO] in Hh. apply Hh. split; eapply on_ordinary_spec; eauto.
Qed.

Lemma side_rule_spec nt s mine other : holds (index (elems nt)) (side_rule s mine other) -> forall ul,
  mine s = Some ul ->
  exists l, lookup nt ul = Some l /\ kind_of l = KLaneSec /\ mine s <> other s /\
     (isfwd l = isfwd s -> other l = Some (uid s)) /\ (isfwd l <> isfwd s -> mine l = Some (uid s)).
Proof.
  unfold side_rule. rewrite holds_FRes. intros H ul Hm. destruct (H ul Hm) as [l [Hl Hh]].
  exists l. split; [exact Hl|]. cbn [holds FAnds fold_right FK FNeO] in Hh.
  destruct Hh as [Hk [Hne [Hsame [Hdiff _]]]]. repeat split; auto.
  intros E. apply Hsame in E. tauto.
Qed.

Theorem links_ok_sound_lemma nt : links_ok nt = true -> Reciprocal nt.
Proof.
  intros Hok. pose proof (links_ok_rules nt Hok) as H.
  assert (R : forall e r f, In e (elems nt) -> In (r, f) (rules_links nt e) -> holds (index (elems nt)) f).
  { intros e r f He Hr. eapply holds_rule; eauto. }
  clear H Hok. constructor.
  - (* rc_succ *) intros a ub Ha Hk Hs.
    assert (Hr : holds (index (elems nt)) (succ_rule (kind_of a) a)).
    { destruct Hk as [Hk|Hk]; eapply (R a 1%N); auto; pick Hk. }
    exact (succ_rule_spec nt _ a Hr ub Hs).
  - intros a ub Ha Hk Hs.
    assert (Hr : holds (index (elems nt)) (pred_rule (kind_of a) a)).
    { destruct Hk as [Hk|Hk]; eapply (R a 2%N); auto; pick Hk. }
    exact (pred_rule_spec nt _ a Hr ub Hs).
  - intros a ub b ra rb Ha Hk.
    assert (Hr : holds (index (elems nt)) (succ_strict nt a)).
    { destruct Hk as [Hk|Hk]; eapply (R a 5%N); auto; pick Hk. }
    exact (succ_strict_spec nt a Hr ub b ra rb).
  - intros a ub b ra rb Ha Hk.
    assert (Hr : holds (index (elems nt)) (pred_strict nt a)).
    { destruct Hk as [Hk|Hk]; eapply (R a 6%N); auto; pick Hk. }
    exact (pred_strict_spec nt a Hr ub b ra rb).
  - (* adjacent *) intros a ub Ha Hk Hin. destruct Hk as [Hk|Hk].
    + assert (Hr := R a 3%N _ Ha ltac:(pick Hk)).
      rewrite holds_FAll in Hr. destruct (Hr ub Hin) as [b [Hb Hh]]. exists b. split; [exact Hb|].
      cbn [holds FAnds fold_right FK] in Hh. rewrite Hk. tauto.
    + assert (Hr := R a 3%N _ Ha ltac:(pick Hk)).
      rewrite holds_FAnd in Hr. destruct Hr as [_ Hr].
      rewrite holds_FAll in Hr. destruct (Hr ub Hin) as [b [Hb Hh]]. exists b. split; [exact Hb|].
      cbn [holds FK] in Hh. rewrite Hk. tauto.
  - (* left *) intros s ul Hs Hk Hl.
    assert (Hr := R s 7%N _ Hs ltac:(pick Hk)).
    exact (side_rule_spec nt s left right Hr ul Hl).
  - intros s ul Hs Hk Hl.
    assert (Hr := R s 8%N _ Hs ltac:(pick Hk)).
    exact (side_rule_spec nt s right left Hr ul Hl).
  - (* opposite *) intros g uh Hg Hk Ho.
    assert (Hr := R g 10%N _ Hg ltac:(pick Hk)).
    rewrite holds_FRes in Hr. destruct (Hr uh Ho) as [h [Hh Hc]]. exists h. split; [exact Hh|].
    cbn [holds FAnds fold_right FK] in Hc. tauto.
  - (* man start *) intros m Hm Hk.
    assert (Hr := R m 11%N _ Hm ltac:(pick Hk)).
    rewrite holds_FDef in Hr. destruct Hr as [u [l [Hu [Hl Hc]]]]. exists l. rewrite Hu. cbn [deref].
    split; [exact Hl|]. cbn [holds FK] in Hc. tauto.
  - (* lane mans *) intros l um Hl Hk Hin.
    assert (Hr := R l 4%N _ Hl ltac:(pick Hk)).
    rewrite holds_FAll in Hr. destruct (Hr um Hin) as [m [Hm Hc]]. exists m. split; [exact Hm|].
    cbn [holds FK] in Hc. tauto.
  - (* connecting *) intros m uc Hm Hk Hc.
    assert (Hr := R m 13%N _ Hm ltac:(pick Hk)).
    rewrite holds_FRes in Hr. destruct (Hr uc Hc) as [c [Hfc Hh]]. exists c. split; [exact Hfc|].
    cbn [holds FAnds fold_right FK] in Hh. tauto.
  - (* man inter *) intros m ui Hm Hk Hi.
    assert (Hr := R m 14%N _ Hm ltac:(pick Hk)).
    rewrite holds_FRes in Hr. destruct (Hr ui Hi) as [i [Hfi Hh]].
    cbn [holds FAnds fold_right FK] in Hh. destruct Hh as [Hki [Hin [Hs [He _]]]].
    unfold FInO in Hs, He. destruct (mstart m) as [sl|]; [|contradiction]. destruct (mend m) as [el|]; [|contradiction].
    exists i, sl, el. cbn in Hs, He. auto 10.
  - (* inter mans *) intros i um Hi Hk Hin.
    assert (Hr := R i 16%N _ Hi ltac:(pick Hk)).
    rewrite holds_FAll in Hr. destruct (Hr um Hin) as [m [Hm Hc]]. exists m. split; [exact Hm|].
    cbn [holds FAnds fold_right FK FNeO] in Hc. tauto.
  - (* incoming *) intros i ul um Hi Hk Hin.
    assert (Hr := R i 17%N _ Hi ltac:(pick Hk)).
    rewrite holds_FAll in Hr. destruct (Hr ul Hin) as [l [Hl Hc]]. exists l. split; [exact Hl|].
    cbv beta in Hc; rewrite holds_FAnds in Hc. split.
    + apply (Hc (FK l KLane)). cbn; auto.
    + intros Hum.
      assert (Hall := Hc (FAll (mans l) (fun m => FIn (uid m) (mans i))) ltac:(cbn; auto 10)).
      rewrite holds_FAll in Hall. destruct (Hall um Hum) as [m [Hfm Hinm]].
      cbn in Hinm. apply index_sound in Hfm. destruct Hfm as [[_ Hu]|Hf]; [congruence|].
      rewrite PositiveMap.gempty in Hf. discriminate.
  - (* incoming: successor *) intros i ul Hi Hk Hin.
    assert (Hr := R i 17%N _ Hi ltac:(pick Hk)).
    rewrite holds_FAll in Hr. destruct (Hr ul Hin) as [l [Hl Hc]].
    cbv beta in Hc; rewrite holds_FAnds in Hc.
    assert (Hs := Hc (FDef (succ l) (fun c => FOr (FEqO (succ c) None) (FEx (mans i) (fun m => FEqO (mconn m) (succ l)))))
                     ltac:(cbn; auto 10)).
    rewrite holds_FDef in Hs. destruct Hs as [uc [c [Huc [Hfc Hor]]]].
    exists l, uc, c. split; [exact Hl|]. split; [exact Huc|]. split; [exact Hfc|].
    cbn [holds] in Hor. destruct Hor as [Hn|Hex]; [left; exact Hn|right].
    change (holds (index (elems nt)) (FEx (mans i) (fun m => FEqO (mconn m) (succ l)))) in Hex.
    rewrite holds_FEx in Hex. destruct Hex as [um [m [Hum [Hfm Hm]]]].
    exists um, m. split; [exact Hum|]. split; [exact Hfm|]. cbn [holds] in Hm. congruence.
Qed.

(* ---------------------------------------------------------------- hierarchy: ownership both ways *)
Record Hierarchy (nt : net) : Prop := {
  (* lane in group.lanes <-> lane.group = group *)
  h_lane_group : forall l ug, In l (elems nt) -> kind_of l = KLane -> group l = Some ug ->
     exists g, lookup nt ug = Some g /\ kind_of g = KGroup /\ In (uid l) (lanes g) /\ road g = road l;
  h_group_lanes : forall g ul, In g (elems nt) -> kind_of g = KGroup -> In ul (lanes g) ->
     exists l, lookup nt ul = Some l /\ kind_of l = KLane /\ group l = Some (uid g) /\ road l = road g;
  h_lane_has_group : forall l, In l (elems nt) -> kind_of l = KLane -> group l <> None /\ road l <> None;
  (* section in lane.sections <-> section.lane = lane, and group / road are inherited *)
  h_section_lane : forall s ul, In s (elems nt) -> kind_of s = KLaneSec -> lane s = Some ul ->
     exists l, lookup nt ul = Some l /\ kind_of l = KLane /\ In (uid s) (sections l) /\
               group l = group s /\ road l = road s;
  h_lane_sections : forall l us, In l (elems nt) -> kind_of l = KLane -> In us (sections l) ->
     exists s, lookup nt us = Some s /\ kind_of s = KLaneSec /\ lane s = Some (uid l) /\
               group s = group l /\ road s = road l;
  (* a group is the forward or the backward group of its road, and the other one is its opposite *)
  h_group_road : forall g, In g (elems nt) -> kind_of g = KGroup ->
     exists r, deref nt (road g) = Some r /\ kind_of r = KRoad /\ In (uid g) (groups r) /\
       ((fwd r = Some (uid g) /\ opposite g = bwd r) \/ (bwd r = Some (uid g) /\ opposite g = fwd r));
  (* a lane section is forward exactly when its group is the road's forward group *)
  h_section_dir : forall s, In s (elems nt) -> kind_of s = KLaneSec ->
     exists r, deref nt (road s) = Some r /\ kind_of r = KRoad /\
       (isfwd s = true -> fwd r = group s) /\ (isfwd s = false -> bwd r = group s);
  (* road sections and lanes of a road point back to it *)
  h_road_sections : forall r us, In r (elems nt) -> kind_of r = KRoad -> In us (sections r) ->
     exists s, lookup nt us = Some s /\ kind_of s = KRoadSec /\ road s = Some (uid r);
  h_road_lanes : forall r ul, In r (elems nt) -> kind_of r = KRoad -> In ul (lanes r) ->
     exists l, lookup nt ul = Some l /\ kind_of l = KLane /\ road l = Some (uid r);
  h_lane_road : forall l, In l (elems nt) -> kind_of l = KLane ->
     exists r, deref nt (road l) = Some r /\ kind_of r = KRoad /\ In (uid l) (lanes r);
  h_road_has_group : forall r, In r (elems nt) -> kind_of r = KRoad -> fwd r <> None \/ bwd r <> None;
  (* the network's lists are complete and well-kinded *)
  h_listed : forall e, In e (elems nt) ->
     (kind_of e = KRoad -> In (uid e) (n_allroads nt)) /\ (kind_of e = KLane -> In (uid e) (n_lanes nt)) /\
     (kind_of e = KGroup -> In (uid e) (n_groups nt)) /\ (kind_of e = KLaneSec -> In (uid e) (n_lanesecs nt)) /\
     (kind_of e = KInter -> In (uid e) (n_inters nt)) /\ (kind_of e = KSidewalk -> In (uid e) (n_sidewalks nt)) /\
     (kind_of e = KShoulder -> In (uid e) (n_shoulders nt));
  h_uids : NoDup (map uid (elems nt));
  h_allroads : n_allroads nt = n_roads nt ++ n_conn nt
}.

Theorem hierarchy_ok_sound_lemma nt : hierarchy_ok nt = true -> Hierarchy nt.
Proof.
  intros Hok. destruct (hierarchy_ok_rules nt Hok) as [H HN].
  assert (R : forall e r f, In e (elems nt) -> In (r, f) (rules_hier nt e) -> holds (index (elems nt)) f).
  { intros e r f He Hr. exact (H e He r f Hr (fun x => x)). }
  assert (RN : forall r f, In (r, f) (rules_net nt (index (elems nt))) -> holds (index (elems nt)) f).
  { intros r f Hr. exact (HN r f Hr (fun x => x)). }
  clear H HN Hok. constructor.
  - intros l ug Hl Hk Hg.
    assert (Hr := R l 31%N _ Hl ltac:(pick Hk)).
    rewrite holds_FDef in Hr. destruct Hr as [u [g [Hu [Hfg Hc]]]]. rewrite Hg in Hu. inversion Hu; subst u.
    exists g. split; [exact Hfg|]. cbn [holds FAnds fold_right FK] in Hc. tauto.
  - intros g ul Hg Hk Hin.
    assert (Hr := R g 37%N _ Hg ltac:(pick Hk)).
    rewrite holds_FAnd in Hr. destruct Hr as [_ Hr].
    rewrite holds_FAll in Hr. destruct (Hr ul Hin) as [l [Hfl Hc]]. exists l. split; [exact Hfl|].
    cbn [holds FAnds fold_right FK] in Hc. tauto.
  - intros l Hl Hk. split.
    + assert (Hr := R l 31%N _ Hl ltac:(pick Hk)).
      rewrite holds_FDef in Hr. destruct Hr as [u [g [Hu _]]]. congruence.
    + assert (Hr := R l 32%N _ Hl ltac:(pick Hk)).
      rewrite holds_FDef in Hr. destruct Hr as [u [g [Hu _]]]. congruence.
  - intros s ul Hs Hk Hl.
    assert (Hr := R s 42%N _ Hs ltac:(pick Hk)).
    rewrite holds_FDef in Hr. destruct Hr as [u [l [Hu [Hfl Hc]]]]. rewrite Hl in Hu. inversion Hu; subst u.
    exists l. split; [exact Hfl|]. cbn [holds FAnds fold_right FK] in Hc. tauto.
  - intros l us Hl Hk Hin.
    assert (Hr := R l 33%N _ Hl ltac:(pick Hk)).
    rewrite holds_FAll in Hr. destruct (Hr us Hin) as [s [Hfs Hc]]. exists s. split; [exact Hfs|].
    cbn [holds FAnds fold_right FK] in Hc. tauto.
  - intros g Hg Hk.
    assert (Hr := R g 36%N _ Hg ltac:(pick Hk)).
    rewrite holds_FDef in Hr. destruct Hr as [u [r [Hu [Hfr Hc]]]]. exists r. rewrite Hu. cbn [deref].
    split; [exact Hfr|]. cbn [holds FAnds fold_right FK] in Hc. tauto.
  - intros s Hs Hk.
    assert (Hr := R s 43%N _ Hs ltac:(pick Hk)).
    rewrite holds_FDef in Hr. destruct Hr as [u [r [Hu [Hfr Hc]]]]. exists r. rewrite Hu. cbn [deref].
    split; [exact Hfr|]. cbv beta in Hc; rewrite holds_FAnds in Hc.
    assert (H1 := Hc (FK r KRoad) ltac:(cbn; auto)).
    assert (H2 := Hc (FImp (FEqB (isfwd s) true) (FEqO (fwd r) (group s))) ltac:(cbn; auto)).
    assert (H3 := Hc (FImp (FEqB (isfwd s) false) (FEqO (bwd r) (group s))) ltac:(cbn; auto)).
    cbn in H1, H2, H3. auto.
  - intros r us Hr0 Hk Hin.
    assert (Hr := R r 55%N _ Hr0 ltac:(pick Hk)).
    cbv beta in Hr; rewrite holds_FAnds in Hr.
    assert (Ha := Hr (FAll (sections r) (fun s => FAnd (FK s KRoadSec) (FEqO (road s) (Some (uid r))))) ltac:(cbn; auto)).
    rewrite holds_FAll in Ha. destruct (Ha us Hin) as [s [Hfs Hc]]. exists s. split; [exact Hfs|].
    cbn [holds FK] in Hc. tauto.
  - intros r ul Hr0 Hk Hin.
    assert (Hr := R r 54%N _ Hr0 ltac:(pick Hk)).
    rewrite holds_FAnd in Hr. destruct Hr as [_ Hr].
    rewrite holds_FAll in Hr. destruct (Hr ul Hin) as [l [Hfl Hc]]. exists l. split; [exact Hfl|].
    cbn [holds FK] in Hc. tauto.
  - intros l Hl Hk.
    assert (Hr := R l 32%N _ Hl ltac:(pick Hk)).
    rewrite holds_FDef in Hr. destruct Hr as [u [r [Hu [Hfr Hc]]]]. exists r. rewrite Hu. cbn [deref].
    split; [exact Hfr|]. cbn [holds FK] in Hc. tauto.
  - intros r Hr0 Hk.
    assert (Hr := R r 51%N _ Hr0 ltac:(pick Hk)).
    cbn [holds FNeO] in Hr. exact Hr.
  - intros e He. repeat split; intros Hk.
    + exact (R e 57%N _ He ltac:(pick Hk)).
    + exact (R e 35%N _ He ltac:(pick Hk)).
    + exact (R e 41%N _ He ltac:(pick Hk)).
    + exact (R e 46%N _ He ltac:(pick Hk)).
    + exact (R e 60%N _ He ltac:(pick Hk)).
    + assert (Hr := R e 58%N _ He ltac:(pick Hk)). cbn [holds] in Hr. tauto.
    + assert (Hr := R e 59%N _ He ltac:(pick Hk)).
      cbv beta in Hr; rewrite holds_FAnds in Hr. exact (Hr (FIn (uid e) (n_shoulders nt)) ltac:(cbn; auto)).
  - exact (RN 71%N _ ltac:(pickn)).
  - exact (RN 73%N _ ltac:(pickn)).
Qed.

(* --------------------------------------------------------------------- equivalence is equality *)
Lemma list_eqb_eq {A} (eqb : A -> A -> bool) (Heq : forall x y, eqb x y = true -> x = y) :
  forall a b, list_eqb eqb a b = true -> a = b.
Proof.
  induction a; destruct b; cbn; try congruence.
  intros H. apply andb_true_iff in H. destruct H as [H1 H2]. f_equal; auto.
Qed.

Lemma zp_eqb_eq a b : zp_eqb a b = true -> a = b.
Proof.
  destruct a, b. unfold zp_eqb. cbn. rewrite andb_true_iff, Z.eqb_eq, Pos.eqb_eq. intros [-> ->]. reflexivity.
Qed.

Lemma elem_eqb_eq a b : elem_eqb a b = true -> a = b.
Proof.
  destruct a, b. unfold elem_eqb. cbn. rewrite !andb_true_iff.
  intros [[[[[[[[H1 H2] H3] H4] H5] H6] H7] H8] H9].
  apply Pos.eqb_eq in H1. apply kind_eqb_eq in H2. apply N.eqb_eq in H3. apply Z.eqb_eq in H4.
  apply Bool.eqb_prop in H5. apply N.eqb_eq in H6.
  apply (list_eqb_eq _ (fun x y => proj1 (opos_eqb_eq x y))) in H7.
  apply (list_eqb_eq _ (fun x y => proj1 (lpos_eqb_eq x y))) in H8.
  apply (list_eqb_eq _ zp_eqb_eq) in H9. subst. reflexivity.
Qed.

Lemma net_equiv_eq a b : net_equiv a b = true -> a = b.
Proof.
  destruct a, b. unfold net_equiv. cbn. rewrite !andb_true_iff.
  intros [[[[[[[[[[[[[[H1 H2] H3] H4] H5] H6] H7] H8] H9] H10] H11] H12] H13] H14] H15].
  apply (list_eqb_eq _ elem_eqb_eq) in H1.
  apply lpos_eqb_eq in H2, H3, H4, H5, H6, H7, H8, H9, H10, H11, H12, H13.
  apply Bool.eqb_prop in H14. apply N.eqb_eq in H15. subst. reflexivity.
Qed.

(* ----------------------------------------------------------------------------- find_point_in *)
(* [first_such p l u]: u is the first element of l satisfying p *)
Definition first_such (p : positive -> bool) (l : list positive) (u : positive) : Prop :=
  exists pre post, l = pre ++ u :: post /\ p u = true /\ forall x, In x pre -> p x = false.

Lemma find_first p : forall l u, find p l = Some u <-> first_such p l u.
Proof.
  induction l as [|a t IH]; intros u; cbn.
  - split; [discriminate|]. intros [pre [post [H _]]]. destruct pre; discriminate.
  - destruct (p a) eqn:E.
    + split.
      * intros H. inversion H; subst. exists [], t. cbn. split; [reflexivity|]. split; [exact E|]. intros x [].
      * intros [pre [post [Hl [Hp Hpre]]]]. destruct pre as [|b pre]; cbn in Hl; inversion Hl; subst; auto.
        rewrite (Hpre b (or_introl eq_refl)) in E. discriminate.
    + rewrite IH. split.
      * intros [pre [post [-> [Hp Hpre]]]]. exists (a :: pre), post. cbn. split; [reflexivity|]. split; [exact Hp|].
        intros x [<-|Hin]; auto.
      * intros [pre [post [Hl [Hp Hpre]]]]. destruct pre as [|b pre]; cbn in Hl; inversion Hl; subst.
        -- congruence.
        -- exists pre, post. split; [reflexivity|]. split; [exact Hp|]. intros x Hin. apply Hpre. right; exact Hin.
Qed.

Lemma find_none (p : positive -> bool) : forall l, find p l = None <-> forall x, In x l -> p x = false.
Proof.
  induction l as [|a t IH]; cbn; [split; [intros _ x [] | auto]|].
  destruct (p a) eqn:E.
  - split; [discriminate|]. intros H. rewrite (H a (or_introl eq_refl)) in E. discriminate.
  - rewrite IH. split; [intros H x [<-|Hin]; auto | intros H x Hin; apply H; right; exact Hin].
Qed.

Lemma find_point_in_spec exact within tolpos l r :
  find_point_in exact within tolpos l = r <->
  (exists u, r = Some u /\ first_such exact l u) \/
  ((forall x, In x l -> exact x = false) /\ tolpos = true /\ exists u, r = Some u /\ first_such within l u) \/
  ((forall x, In x l -> exact x = false) /\ r = None /\ (tolpos = false \/ forall x, In x l -> within x = false)).
Proof.
  unfold find_point_in. destruct (find exact l) as [u|] eqn:E.
  - apply find_first in E. split.
    + intros <-. left. eauto.
    + intros [[u' [-> Hf]]|[[Hn _]|[Hn _]]].
      * apply find_first in Hf. apply find_first in E. congruence.
      * destruct E as [pre [post [-> [Hp _]]]]. rewrite Hn in Hp; [discriminate | apply in_elt].
      * destruct E as [pre [post [-> [Hp _]]]]. rewrite Hn in Hp; [discriminate | apply in_elt].
  - pose proof (proj1 (find_none exact l) E) as Hn. destruct tolpos.
    + destruct (find within l) as [w|] eqn:W.
      * apply find_first in W. split.
        -- intros <-. right; left. eauto.
        -- intros [[u' [-> [pre [post [-> [Hp _]]]]]]|[[_ [_ [u' [-> Hf]]]]|[_ [-> [Hd|Hw]]]]].
           ++ rewrite Hn in Hp; [discriminate | apply in_elt].
           ++ apply find_first in Hf. apply find_first in W. congruence.
           ++ discriminate.
           ++ destruct W as [pre [post [-> [Hp _]]]]. rewrite Hw in Hp; [discriminate | apply in_elt].
      * pose proof (proj1 (find_none within l) W) as Hw. split.
        -- intros <-. right; right. auto.
        -- intros [[u' [-> [pre [post [-> [Hp _]]]]]]|[[_ [_ [u' [-> [pre [post [-> [Hp _]]]]]]]]|[_ [-> _]]]].
           ++ rewrite Hn in Hp; [discriminate | apply in_elt].
           ++ rewrite Hw in Hp; [discriminate | apply in_elt].
           ++ reflexivity.
    + split.
      * intros <-. right; right. auto.
      * intros [[u' [-> [pre [post [-> [Hp _]]]]]]|[[_ [Hd _]]|[_ [-> _]]]].
        -- rewrite Hn in Hp; [discriminate | apply in_elt].
        -- discriminate.
        -- reflexivity.
Qed.

(* the reported element is listed and answers the pass that found it *)
Lemma find_point_in_member exact within tolpos l u :
  find_point_in exact within tolpos l = Some u -> In u l /\ (exact u = true \/ (tolpos = true /\ within u = true)).
Proof.
  intros H. apply find_point_in_spec in H.
  destruct H as [[u' [Hu [pre [post [-> [Hp _]]]]]]|[[_ [Ht [u' [Hu [pre [post [-> [Hp _]]]]]]]]|[_ [Hd _]]]].
  - inversion Hu; subst. split; [apply in_elt | auto].
  - inversion Hu; subst. split; [apply in_elt | auto].
  - discriminate.
Qed.

(* ------------------------------------------------------------------------------ cache protocol *)
Lemma bytes_eqb_eq : forall a b, bytes_eqb a b = true <-> a = b.
Proof.
  induction a; destruct b; cbn; try (split; congruence).
  rewrite andb_true_iff, N.eqb_eq, IHa. split; [intros [-> ->]; reflexivity | intros H; inversion H; auto].
Qed.

Definition header_of (file : list byte) := (le_decode (firstn 4 file), firstn 64 (skipn 4 file), firstn 8 (skipn 68 file)).

Lemma from_pickle_loaded cur d o file ok : d <> [] -> o <> [] ->
  from_pickle cur (Some d) (Some o) file ok = Loaded <->
  (length (firstn 4 file) = 4%nat /\ length (firstn 8 (skipn 68 file)) = 8%nat /\
   le_decode (firstn 4 file) = cur /\ firstn 64 (skipn 4 file) = d /\ firstn 8 (skipn 68 file) = o /\
   length d = 64%nat /\ ok = true).
Proof.
  intros Hd Ho. unfold from_pickle.
  assert (Td : truthy (Some d) = Some d) by (destruct d; [congruence | reflexivity]).
  assert (To : truthy (Some o) = Some o) by (destruct o; [congruence | reflexivity]).
  rewrite Td, To. clear Td To.
  destruct (Nat.eqb (length (firstn 4 file)) 4) eqn:E1; cbn [negb].
  2:{ apply Nat.eqb_neq in E1. split; [discriminate | tauto]. }
  apply Nat.eqb_eq in E1.
  destruct (N.eqb (le_decode (firstn 4 file)) cur) eqn:E2; cbn [negb].
  2:{ apply N.eqb_neq in E2. split; [discriminate | tauto]. }
  apply N.eqb_eq in E2.
  destruct (Nat.eqb (length (firstn 64 (skipn 4 file))) 64) eqn:E3; cbn [negb].
  2:{ apply Nat.eqb_neq in E3. split; [discriminate|]. intros [_ [_ [_ [H4 [_ [H6 _]]]]]]. rewrite H4 in E3. tauto. }
  apply Nat.eqb_eq in E3.
  destruct (bytes_eqb d (firstn 64 (skipn 4 file))) eqn:E4; cbn [negb].
  2:{ split; [discriminate|]. intros [_ [_ [_ [H4 _]]]]. rewrite H4 in E4.
      assert (bytes_eqb d d = true) by (apply bytes_eqb_eq; reflexivity). congruence. }
  apply bytes_eqb_eq in E4.
  destruct (Nat.eqb (length (firstn 8 (skipn 68 file))) 8) eqn:E5; cbn [negb].
  2:{ apply Nat.eqb_neq in E5. split; [discriminate | tauto]. }
  apply Nat.eqb_eq in E5.
  destruct (bytes_eqb o (firstn 8 (skipn 68 file))) eqn:E6; cbn [negb].
  2:{ split; [discriminate|]. intros [_ [_ [_ [_ [H5 _]]]]]. rewrite H5 in E6.
      assert (bytes_eqb o o = true) by (apply bytes_eqb_eq; reflexivity). congruence. }
  apply bytes_eqb_eq in E6.
  destruct ok; split; try discriminate.
  - intros _. subst d o. auto 10.
  - reflexivity.
  - intros [_ [_ [_ [_ [_ [_ H]]]]]]. discriminate.
Qed.

Lemma cache_used_iff_lemma useCache cur d o snet ok : d <> [] -> o <> [] ->
  from_file useCache cur d o snet ok = FromCache <->
  (useCache = true /\ exists file, snet = Some file /\
   length (firstn 4 file) = 4%nat /\ length (firstn 8 (skipn 68 file)) = 8%nat /\
   le_decode (firstn 4 file) = cur /\ firstn 64 (skipn 4 file) = d /\ firstn 8 (skipn 68 file) = o /\
   length d = 64%nat /\ ok = true).
Proof.
  intros Hd Ho. unfold from_file. destruct useCache.
  2:{ split; [discriminate | intros [H _]; discriminate]. }
  destruct snet as [file|].
  2:{ split; [discriminate | intros [_ [f [H _]]]; discriminate]. }
  destruct (from_pickle cur (Some d) (Some o) file ok) eqn:E.
  - apply from_pickle_loaded in E; auto. split; [intros _; split; [reflexivity|]; exists file; tauto | reflexivity].
  - split; [discriminate|]. intros [_ [f [Hf H]]]. inversion Hf; subst f.
    apply (from_pickle_loaded cur d o file ok Hd Ho) in H. congruence.
  - split; [discriminate|]. intros [_ [f [Hf H]]]. inversion Hf; subst f.
    apply (from_pickle_loaded cur d o file ok Hd Ho) in H. congruence.
Qed.

(* a cache written by dumpPickle for (version, digest, options digest) is used exactly for that triple *)
Lemma le_decode_encode : forall n v, (v < 256 ^ N.of_nat n)%N -> le_decode (le_encode n v) = v.
Proof.
  induction n; intros v Hv.
  - cbn in *. lia.
  - cbn [le_encode le_decode]. rewrite IHn.
    + pose proof (N.div_mod v 256 ltac:(lia)). lia.
    + rewrite Nat2N.inj_succ, N.pow_succ_r' in Hv. apply N.div_lt_upper_bound; lia.
Qed.

Lemma length_le_encode : forall n v, length (le_encode n v) = n.
Proof. induction n; intros; cbn; auto. Qed.

Lemma firstn_app_exact {A} (a b : list A) n : length a = n -> firstn n (a ++ b) = a.
Proof. intros <-. rewrite firstn_app, Nat.sub_diag, firstn_all. cbn. apply app_nil_r. Qed.

Lemma skipn_app_exact {A} (a b : list A) n : length a = n -> skipn n (a ++ b) = b.
Proof. intros <-. rewrite skipn_app, Nat.sub_diag, skipn_all. reflexivity. Qed.

Lemma dumped_cache_roundtrip cur d o payload cur' d' o' :
  (cur < 256 ^ 4)%N -> length d = 64%nat -> length o = 8%nat -> d' <> [] -> o' <> [] ->
  from_file true cur' d' o' (Some (dump_header cur d o ++ payload)) true = FromCache <->
  (cur = cur' /\ d = d' /\ o = o').
Proof.
  intros Hc Hd Ho Hd' Ho'. rewrite cache_used_iff_lemma by assumption.
  unfold dump_header.
  assert (L4 : length (le_encode 4 cur) = 4%nat) by apply length_le_encode.
  assert (F4 : firstn 4 ((le_encode 4 cur ++ d ++ o) ++ payload) = le_encode 4 cur).
  { rewrite <- !app_assoc. apply firstn_app_exact, L4. }
  assert (S4 : skipn 4 ((le_encode 4 cur ++ d ++ o) ++ payload) = d ++ o ++ payload).
  { rewrite <- !app_assoc. apply skipn_app_exact, L4. }
  assert (S68 : skipn 68 ((le_encode 4 cur ++ d ++ o) ++ payload) = o ++ payload).
  { rewrite <- !app_assoc. rewrite (app_assoc (le_encode 4 cur) d). apply skipn_app_exact.
    rewrite app_length, L4, Hd. reflexivity. }
  assert (F64 : firstn 64 (d ++ o ++ payload) = d) by (apply firstn_app_exact, Hd).
  assert (F8 : firstn 8 (o ++ payload) = o) by (apply firstn_app_exact, Ho).
  assert (Dec : le_decode (le_encode 4 cur) = cur) by (apply le_decode_encode; exact Hc).
  split.
  - intros [_ [file [Hf H]]].
    assert (Hfile : file = (le_encode 4 cur ++ d ++ o) ++ payload) by congruence. subst file.
    destruct H as [_ [_ [Hv [Hdd [Hoo _]]]]].
    rewrite F4, Dec in Hv. rewrite S4, F64 in Hdd. rewrite S68, F8 in Hoo. auto.
  - intros [<- [<- <-]]. split; [reflexivity|]. eexists. split; [reflexivity|].
    rewrite F4, S4, S68, F64, F8, Dec, L4, Ho. auto 10.
Qed.
