(* C20, round 2: lookup_consistent (laneAt vs roadAt) and reconnect_inverse (pickle placeholder protocol). *)
From Coq Require Import List Bool PArith NArith ZArith FMapPositive Lia.
From Scenic Require Import C20.Network C20.NetworkProofs C20.Pickle.
Import ListNotations.

(* ------------------------------------------------------------------ find over a flattened hierarchy *)
Lemma find_app {A} (P : A -> bool) : forall a b,
  find P (a ++ b) = match find P a with Some x => Some x | None => find P b end.
Proof. induction a as [|x a IH]; intros b; cbn; [reflexivity|]. destruct (P x); [reflexivity | apply IH]. Qed.

Lemma existsb_find {A} (P : A -> bool) : forall l, existsb P l = match find P l with Some _ => true | None => false end.
Proof. induction l as [|x l IH]; cbn; [reflexivity|]. destruct (P x); cbn; [reflexivity | exact IH]. Qed.

Lemma find_flat_map {A B} (P : B -> bool) (f : A -> list B) : forall rs,
  find P (flat_map f rs) =
  match find (fun r => existsb P (f r)) rs with Some r => find P (f r) | None => None end.
Proof.
  induction rs as [|r rs IH]; cbn; [reflexivity|].
  rewrite find_app, existsb_find. destruct (find P (f r)) eqn:E; cbn; [symmetry; exact E | exact IH].
Qed.

Lemma find_ext_in {A} (P Q : A -> bool) : forall l, (forall x, In x l -> P x = Q x) -> find P l = find Q l.
Proof.
  induction l as [|x l IH]; intros H; cbn; [reflexivity|].
  rewrite (H x (or_introl eq_refl)). destruct (Q x); [reflexivity|]. apply IH. intros y Hy. apply H. right. exact Hy.
Qed.

Lemma find_some_in {A} (P : A -> bool) l x : find P l = Some x -> In x l /\ P x = true.
Proof. apply find_some. Qed.

(* the two-pass lookup commutes with flattening when parents answer exactly like the union of their children *)
Lemma fpi_flat (E W : positive -> bool) tolpos (f : positive -> list positive) rs :
  (forall r, In r rs -> E r = existsb E (f r)) -> (forall r, In r rs -> W r = existsb W (f r)) ->
  match find_point_in E W tolpos (flat_map f rs) with
  | Some l => exists r, find_point_in E W tolpos rs = Some r /\ In l (f r)
  | None => find_point_in E W tolpos rs = None
  end.
Proof.
  intros HE HW. unfold find_point_in. rewrite !find_flat_map.
  rewrite (find_ext_in (fun r => existsb E (f r)) E rs) by (intros; symmetry; apply HE; assumption).
  rewrite (find_ext_in (fun r => existsb W (f r)) W rs) by (intros; symmetry; apply HW; assumption).
  destruct (find E rs) as [r|] eqn:FE.
  - destruct (find_some_in _ _ _ FE) as [Hin Hr]. rewrite (HE r Hin), existsb_find in Hr.
    destruct (find E (f r)) as [l|] eqn:FL; [|discriminate].
    exists r. split; [reflexivity|]. apply (find_some_in _ _ _ FL).
  - destruct tolpos; [|reflexivity].
    destruct (find W rs) as [r|] eqn:FW; [|reflexivity].
    destruct (find_some_in _ _ _ FW) as [Hin Hr]. rewrite (HW r Hin), existsb_find in Hr.
    destruct (find W (f r)) as [l|] eqn:FL; [|discriminate].
    exists r. split; [reflexivity|]. apply (find_some_in _ _ _ FL).
Qed.

Lemma cover_at_spec nt m ex wi : cover_at nt m ex wi = true ->
  forall r, In r (n_allroads nt) ->
    memb r ex = existsb (fun l => memb l ex) (of_elem m lanes r) /\
    memb r wi = existsb (fun l => memb l wi) (of_elem m lanes r).
Proof.
  unfold cover_at. rewrite forallb_forall. intros H r Hr. specialize (H r Hr).
  apply andb_true_iff in H. destruct H as [H1 H2]. apply eqb_prop in H1. apply eqb_prop in H2. auto.
Qed.

(* lookup_consistent.  On a network that passes the hierarchy checker, at a point where every road answers
   like the union of its lanes: the lane reported by laneAt belongs to the road reported by roadAt, and roadAt
   reports a road exactly when laneAt reports a lane (model_lookup tags: 2 = laneAt, 1 = roadAt). *)
Theorem lookup_consistent nt tolpos ex wi :
  hierarchy_ok nt = true -> cover_at nt (index (elems nt)) ex wi = true ->
  match model_lookup nt (index (elems nt)) tolpos 2 ex wi None with
  | Some l => exists le r, lookup nt l = Some le /\ kind_of le = KLane /\ road le = Some r /\
                model_lookup nt (index (elems nt)) tolpos 1 ex wi None = Some r
  | None => model_lookup nt (index (elems nt)) tolpos 1 ex wi None = None
  end.
Proof.
  intros Hok Hc. pose proof (hierarchy_ok_sound_lemma nt Hok) as Hh.
  destruct (hierarchy_ok_rules nt Hok) as [_ HN0].
  assert (HN : forall r f, In (r, f) (rules_net nt (index (elems nt))) -> holds (index (elems nt)) f).
  { intros r f Hr. exact (HN0 r f Hr (fun x => x)). }
  clear HN0.
  set (m := index (elems nt)) in *.
  assert (R75 : n_lanes nt = flat_map (of_elem m lanes) (n_allroads nt)).
  { assert (H : holds m (FEqL (n_lanes nt) (flat_lookup m (n_allroads nt) lanes))).
    { apply (HN 75%N). unfold rules_net. do 4 right. left. reflexivity. }
    cbn [holds] in H. exact H. }
  assert (R74 : forall r, In r (n_allroads nt) -> exists e, PositiveMap.find r m = Some e /\ kind_of e = KRoad).
  { assert (H : holds m (FAnds [FAll (n_allroads nt) (fun r => FK r KRoad); FAll (n_groups nt) (fun g => FK g KGroup);
                FAll (n_lanes nt) (fun l => FK l KLane); FAll (n_inters nt) (fun i => FK i KInter);
                FAll (n_crossings nt) (fun c => FK c KCrossing); FAll (n_sidewalks nt) (fun s => FK s KSidewalk);
                FAll (n_shoulders nt) (fun s => FK s KShoulder)])).
    { apply (HN 74%N). unfold rules_net. do 3 right. left. reflexivity. }
    rewrite holds_FAnds in H.
    specialize (H _ (or_introl eq_refl)). rewrite holds_FAll in H. intros r Hr.
    destruct (H r Hr) as [e [He Hk]]. exists e. split; [exact He | exact Hk]. }
  pose proof (cover_at_spec nt m ex wi Hc) as CS.
  unfold model_lookup. cbn beta iota zeta.
  rewrite R75.
  pose proof (fpi_flat (fun u => memb u ex) (fun u => memb u wi) tolpos (of_elem m lanes) (n_allroads nt)
                (fun r Hr => proj1 (CS r Hr)) (fun r Hr => proj2 (CS r Hr))) as F.
  destruct (find_point_in (fun u => memb u ex) (fun u => memb u wi) tolpos (flat_map (of_elem m lanes) (n_allroads nt))) as [l|].
  - destruct F as [r [Fr Hl]].
    destruct (find_point_in_member _ _ _ _ _ Fr) as [Hr _].
    destruct (R74 r Hr) as [re [Hre Hk]]. unfold of_elem in Hl. rewrite Hre in Hl.
    destruct (lookup_sound nt r re Hre) as [Hin Hu].
    destruct (h_road_lanes nt Hh re l Hin Hk Hl) as [le [Hle [Hkl Hrl]]].
    exists le, r. rewrite Hu in Hrl. auto.
  - exact F.
Qed.

(* ------------------------------------------------------------------ pickling *)
Lemma map_none_agree {B} (f g : positive -> B) : forall (l : list (option positive)),
  existsb (fun l => match l with Some _ => true | None => false end) l = false ->
  map (option_map f) l = map (option_map g) l.
Proof.
  induction l as [|[u|] l IH]; cbn; intros H; [reflexivity | discriminate|]. rewrite IH by exact H. reflexivity.
Qed.

Lemma reconnect_links_ok keys : forall l,
  forallb (fun l => match l with Some u => memb u keys | None => true end) l = true ->
  reconnect_links keys (map (option_map LPlace) l) = Some (map (option_map LDirect) l).
Proof.
  induction l as [|[u|] l IH]; cbn; intros H; [reflexivity| |].
  - apply andb_true_iff in H. destruct H as [H1 H2]. rewrite H1, (IH H2). reflexivity.
  - rewrite (IH H). reflexivity.
Qed.

Lemma reconnect_links_restored keys : forall l r,
  reconnect_links keys (map (option_map LPlace) l) = Some r -> r = map (option_map LDirect) l /\
  forallb (fun l => match l with Some u => memb u keys | None => true end) l = true.
Proof.
  induction l as [|[u|] l IH]; cbn; intros r H.
  - inversion H. auto.
  - destruct (memb u keys) eqn:M; [|discriminate].
    destruct (reconnect_links keys (map (option_map LPlace) l)) as [t|] eqn:E; [|discriminate].
    inversion H; subst. destruct (IH t eq_refl) as [-> F]. rewrite F. auto.
  - destruct (reconnect_links keys (map (option_map LPlace) l)) as [t|] eqn:E; [|discriminate].
    inversion H; subst. destruct (IH t eq_refl) as [-> F]. auto.
Qed.

Lemma place_ne_direct : forall l, map (option_map LPlace) l = map (option_map LDirect) l ->
  existsb (fun l => match l with Some _ => true | None => false end) l = false.
Proof.
  induction l as [|[u|] l IH]; cbn; intros H; [reflexivity | inversion H | inversion H; auto].
Qed.

Lemma setstate_obj_iff nt m e :
  setstate_obj nt m (getstate e) = Some (direct e) <-> pickle_ok_elem nt m e = true.
Proof.
  unfold setstate_obj, pickle_ok_elem, getstate, direct, has_link, links_in. cbn [po_elem po_links].
  destruct (in_scope nt m e).
  - split.
    + intros H. destruct (reconnect_links (n_elements nt) (map (option_map LPlace) (sl e))) as [r|] eqn:E; [|discriminate].
      destruct (reconnect_links_restored _ _ _ E) as [_ F]. rewrite F. cbn. apply orb_true_r.
    + intros H. apply orb_true_iff in H. destruct H as [H|H].
      * apply negb_true_iff in H. rewrite reconnect_links_ok; [reflexivity|].
        clear -H. induction (sl e) as [|[u|] l IH]; cbn in *; [reflexivity | discriminate | auto].
      * cbn in H. rewrite reconnect_links_ok by exact H. reflexivity.
  - cbn [andb]. rewrite orb_false_r. split.
    + intros H. inversion H as [H1]. apply negb_true_iff. apply place_ne_direct. exact H1.
    + intros H. apply negb_true_iff in H. f_equal. f_equal. apply map_none_agree. exact H.
Qed.

(* reconnect_inverse: dumping and loading restores every inter-element reference exactly when the network passes
   [pickle_ok] (every object holding a link is visited by __setstate__ and links only to keys of Network.elements);
   otherwise loading fails (KeyError) or leaves a placeholder behind. *)
Theorem reconnect_inverse_gen nt m : forall es,
  setstate nt m (map getstate es) = Some (map direct es) <-> forallb (pickle_ok_elem nt m) es = true.
Proof.
  induction es as [|e es IH]; cbn [map setstate forallb]; [tauto|].
  rewrite andb_true_iff, <- IH, <- setstate_obj_iff.
  destruct (setstate_obj nt m (getstate e)) as [p|]; destruct (setstate nt m (map getstate es)) as [t|]; split;
    try (intros H; discriminate H); try (intros [H1 H2]; discriminate).
  - intros H. inversion H; subst. auto.
  - intros [H1 H2]. inversion H1; inversion H2; subst. reflexivity.
Qed.

Theorem reconnect_inverse nt :
  setstate nt (index (elems nt)) (map getstate (elems nt)) = Some (map direct (elems nt)) <-> pickle_ok nt = true.
Proof. apply reconnect_inverse_gen. Qed.

Lemma pickle_bad_nil nt : pickle_bad nt = [] <-> pickle_ok nt = true.
Proof.
  unfold pickle_bad, pickle_ok. generalize (index (elems nt)). intros m.
  induction (elems nt) as [|e es IH]; cbn; [tauto|].
  destruct (pickle_ok_elem nt m e); cbn; [exact IH | split; discriminate].
Qed.

(* every maneuver of a network that passes the link and hierarchy checkers is reached by __setstate__ *)
Theorem maneuvers_in_scope nt e :
  links_ok nt = true -> hierarchy_ok nt = true -> In e (elems nt) -> kind_of e = KMan ->
  in_scope nt (index (elems nt)) e = true.
Proof.
  intros Hl Hh He Hk. pose proof (links_ok_sound_lemma nt Hl) as R. pose proof (hierarchy_ok_sound_lemma nt Hh) as H.
  destruct (rc_man_start nt R e He Hk) as [l [Hd [Hkl Hin]]].
  unfold in_scope, is_man. rewrite Hk. cbn [kind_eqb kind_code N.eqb Pos.eqb].
  apply existsb_exists. unfold deref in Hd. destruct (mstart e) as [ul|]; [|discriminate].
  destruct (lookup_sound nt ul l Hd) as [Hinl Hu].
  exists ul. split.
  - apply in_or_app. left. rewrite <- Hu. apply (h_listed nt H l Hinl). exact Hkl.
  - unfold of_elem. unfold lookup in Hd. rewrite Hd. apply memb_In. exact Hin.
Qed.
