(* C20 round 3 — entry paths of Network.fromFile: which candidate file is tried first and which checks it gets.
   Proofs by case analysis over the entry kind, the directory state and the cache decision. *)
From Coq Require Import List Bool NArith Arith Lia.
From Scenic Require Import C20.Network C20.NetworkProofs.
Import ListNotations.

Definition map_entry (e : entry) : Prop := e = ENoExt \/ e = EXodr.

(* what "verified against the current map and options" means for the cache file [file] *)
Definition verified (cur : N) (d o : list byte) (file : list byte) (ok : bool) : Prop :=
  length (firstn 4 file) = 4%nat /\ length (firstn 8 (skipn 68 file)) = 8%nat /\
  le_decode (firstn 4 file) = cur /\ firstn 64 (skipn 4 file) = d /\ firstn 8 (skipn 68 file) = o /\
  length d = 64%nat /\ ok = true.

(* with the map present, the extension-less entry resolves to the map, whatever the cache state *)
Lemma resolve_noext_map d snet : resolve handlers ENoExt (Some d) snet = RHandler HXodr.
Proof. reflexivity. Qed.

Lemma path_noext_is_xodr u w cur d o snet ok :
  from_path handlers ENoExt u w cur (Some d) o snet ok = from_path handlers EXodr u w cur (Some d) o snet ok.
Proof. reflexivity. Qed.

Lemma path_map_entry_is_from_file e u w cur d o snet ok : map_entry e ->
  from_path handlers e u w cur (Some d) o snet ok =
  match from_file u cur d o snet ok with FromCache => PCache | FromParser => PParsed w end.
Proof. intros [-> | ->]; reflexivity. Qed.

(* MAIN: through a map path (extension-less or .xodr) with the map present, a pickle is never returned as it is,
   and a cache is returned only after version, map digest and options digest were all verified against the
   CURRENT map and the CURRENT options *)
Lemma path_cache_verified e u w cur d o snet ok : map_entry e -> d <> [] -> o <> [] ->
  from_path handlers e u w cur (Some d) o snet ok <> PPickleAsIs /\
  (from_path handlers e u w cur (Some d) o snet ok = PCache <->
   u = true /\ exists file, snet = Some file /\ verified cur d o file ok).
Proof.
  intros He Hd Ho. rewrite (path_map_entry_is_from_file e u w cur d o snet ok He).
  pose proof (cache_used_iff_lemma u cur d o snet ok Hd Ho) as H. unfold verified.
  destruct (from_file u cur d o snet ok).
  - split; [discriminate|]. split; [intros _; apply H; reflexivity | reflexivity].
  - split; [discriminate|]. split; [discriminate|]. intros H'. apply H in H'. discriminate.
Qed.

(* a pickle is returned without digest checks only when the caller named the .snet file, or gave no extension
   and there is no map file next to it *)
Lemma path_pickle_as_is_only_without_map hs e u w cur mapd o snet ok :
  from_path hs e u w cur mapd o snet ok = PPickleAsIs ->
  e = ESnet \/ (e = ENoExt /\ find (h_exists mapd snet) hs = Some HSnet).
Proof.
  unfold from_path, resolve. destruct e.
  - destruct mapd; [destruct (from_file u cur l o snet ok)|]; discriminate.
  - auto.
  - destruct (find (h_exists mapd snet) hs) as [[|]|] eqn:E; try discriminate.
    + destruct mapd; [destruct (from_file u cur l o snet ok)|]; discriminate.
    + auto.
  - discriminate.
Qed.

Lemma path_pickle_as_is_no_map e u w cur mapd o snet ok :
  from_path handlers e u w cur mapd o snet ok = PPickleAsIs -> e = ESnet \/ (e = ENoExt /\ mapd = None).
Proof.
  intros H. apply path_pickle_as_is_only_without_map in H. destruct H as [H | [He H]]; [auto|].
  right. split; [assumption|]. destruct mapd; [cbn in H; discriminate | reflexivity].
Qed.

(* the order of the table matters: with the pickled format first, an extension-less load returns a cache written
   for another map and other options (stale header) without any check *)
Definition stale_file : list byte := le_encode 4 7 ++ repeat 1%N 64 ++ repeat 2%N 8.
Lemma path_order_matters :
  from_path [HSnet; HXodr] ENoExt true false 7 (Some (repeat 9%N 64)) (repeat 3%N 8) (Some stale_file) true = PPickleAsIs /\
  from_path handlers ENoExt true false 7 (Some (repeat 9%N 64)) (repeat 3%N 8) (Some stale_file) true = PParsed false.
Proof. split; vm_compute; reflexivity. Qed.

(* more generally: any table that lists the pickled format before the map format returns an existing pickle as it is *)
Lemma path_snet_first_unverified hs u w cur d o file ok :
  from_pickle cur None None file ok = Loaded ->
  from_path (HSnet :: hs) ENoExt u w cur (Some d) o (Some file) ok = PPickleAsIs.
Proof. intros H. unfold from_path, resolve. cbn. rewrite H. reflexivity. Qed.

(* writing: the cache file changes exactly when the parser ran with writeCache, and then carries the header of
   the current map and options; a load from a pickle and a failed call leave it alone *)
Lemma path_written e u w cur mapd o snet ok payload :
  snet_after handlers e u w cur mapd o snet ok payload =
  match from_path handlers e u w cur mapd o snet ok, mapd with
  | PParsed true, Some d => Some (dump_header cur d o ++ payload)
  | _, _ => snet
  end.
Proof. reflexivity. Qed.

Lemma path_parsed_only_map_entry e u w cur mapd o snet ok b :
  from_path handlers e u w cur mapd o snet ok = PParsed b -> map_entry e /\ b = w /\ exists d, mapd = Some d.
Proof.
  unfold from_path, resolve, map_entry. destruct e.
  - destruct mapd as [d|]; [|discriminate]. destruct (from_file u cur d o snet ok); [discriminate|].
    intros H. inversion H. eauto.
  - destruct snet; [destruct (from_pickle cur None None l ok)|]; discriminate.
  - destruct mapd as [d|]; cbn.
    + destruct (from_file u cur d o snet ok); [discriminate|]. intros H. inversion H. eauto.
    + destruct snet as [f|]; cbn; [destruct (from_pickle cur None None f ok)|]; discriminate.
  - discriminate.
Qed.

(* write then read: the file written by a load is used by a later load through ANY map path exactly for the same
   version, map and options *)
Lemma path_dump_roundtrip e cur d o payload cur' d' o' w : map_entry e ->
  (cur < 256 ^ 4)%N -> length d = 64%nat -> length o = 8%nat -> d' <> [] -> o' <> [] ->
  from_path handlers e true w cur' (Some d') o' (Some (dump_header cur d o ++ payload)) true = PCache <->
  (cur = cur' /\ d = d' /\ o = o').
Proof.
  intros He Hc Hd Ho Hd' Ho'. rewrite (path_map_entry_is_from_file _ _ _ _ _ _ _ _ He).
  rewrite <- (dumped_cache_roundtrip cur d o payload cur' d' o' Hc Hd Ho Hd' Ho').
  destruct (from_file true cur' d' o' (Some (dump_header cur d o ++ payload)) true); split; congruence.
Qed.

(* histories: whatever happened in the directory before (loads through any entry, map replaced, cache file replaced
   or removed), every load through a map path with the map present that returns a cache has verified it against
   the map and the options of THAT load, and never returns a pickle as it is *)
Definition obs_ok (cur : N) (okf : list byte -> bool) (ob : load_obs) : Prop :=
  map_entry (o_entry ob) -> forall d, o_mapd ob = Some d -> d <> [] -> o_optd ob <> [] ->
  o_res ob <> PPickleAsIs /\
  (o_res ob = PCache -> o_use ob = true /\ exists file, o_snet ob = Some file /\ verified cur d (o_optd ob) file (okf file)).

Lemma history_cache_verified cur okf payload : forall ops mapd snet,
  Forall (obs_ok cur okf) (run handlers cur okf payload ops mapd snet).
Proof.
  induction ops as [|[e u w o | m | s] t IH]; intros mapd snet; cbn [run].
  - constructor.
  - constructor; [|apply IH].
    unfold obs_ok. cbn [o_entry o_mapd o_optd o_res o_use o_snet]. intros He d -> Hd Ho.
    destruct (path_cache_verified e u w cur d o snet (match snet with Some f => okf f | None => false end) He Hd Ho) as [H1 H2].
    split; [exact H1|]. intros Hc. apply H2 in Hc. destruct Hc as [Hu [file [-> Hv]]]. split; [exact Hu|].
    exists file. split; [reflexivity | exact Hv].
  - apply IH.
  - apply IH.
Qed.

(* non-vacuity of the history statement: load (parse + write), options change, map change — the second and fourth
   loads use the cache, the third and fifth do not *)
Definition dA := repeat 9%N 64.  Definition dB := repeat 8%N 64.
Definition oA := repeat 3%N 8.   Definition oB := repeat 4%N 8.
Example history_example :
  map o_res (run handlers 7 (fun _ => true) []
    [OpLoad ENoExt true true oA; OpLoad ENoExt true true oA; OpLoad ENoExt true false oB; OpLoad EXodr true true oA;
     OpSetMap (Some dB); OpLoad ENoExt true true oA; OpLoad ENoExt true true oA; OpLoad ESnet true true oB;
     OpSetMap None; OpLoad ENoExt true true oB; OpLoad EXodr true true oB; OpSetSnet None; OpLoad ENoExt true true oA;
     OpLoad EOther true true oA] (Some dA) None)
  = [PParsed true; PCache; PParsed false; PCache; PParsed true; PCache; PPickleAsIs; PPickleAsIs; PNotFound; PNotFound; PUnknownFormat].
Proof. vm_compute. reflexivity. Qed.
