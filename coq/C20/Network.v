(* C20 — road networks: model (definitions only).

   (1) A network as Gallina data, as exported from the objects the implementation built
       (scenic.domains.driving.roads: Network / NetworkElement subclasses / Maneuver).
   (2) A small formula language [fm] with a Prop semantics [holds] and a boolean evaluator [evalb];
       the linkage / hierarchy rules are formulas, the certified checkers [links_bad], [hierarchy_bad]
       evaluate them on every element.
   (3) [find_point_in]: the two-pass priority-ordered lookup of Network.findPointIn.
   (4) The cache protocol of Network.fromFile / fromPickle / dumpPickle and the framing of
       serialization.deterministicHash. *)
From Coq Require Import List Bool PArith NArith ZArith FMapPositive.
Import ListNotations.

(* ------------------------------------------------------------------------------------------ data *)
Inductive kind := KRoad | KGroup | KLane | KRoadSec | KLaneSec | KSidewalk | KCrossing | KShoulder
                | KInter | KMan.

Definition kind_code (k : kind) : N :=
  match k with KRoad => 0 | KGroup => 1 | KLane => 2 | KRoadSec => 3 | KLaneSec => 4 | KSidewalk => 5
             | KCrossing => 6 | KShoulder => 7 | KInter => 8 | KMan => 9 end%N.
Definition kind_eqb (a b : kind) : bool := N.eqb (kind_code a) (kind_code b).

(* One record for every element class and for maneuvers; links are uids.  Single links and list links
   are stored positionally ([sl], [ll]) and read through the named accessors below. *)
Record elem := mkElem {
  uid : positive; kind_of : kind;
  geo : N;            (* digest of polygon, centreline, edges, curb, name, id, speed limit, tags, signals *)
  odid : Z;           (* LaneSection.openDriveID *)
  isfwd : bool;       (* LaneSection.isForward *)
  mtype : N;          (* Maneuver.type: 1 STRAIGHT 2 LEFT_TURN 3 RIGHT_TURN 4 U_TURN *)
  sl : list (option positive);
  ll : list (list positive);
  byid : list (Z * positive)  (* RoadSection.lanesByOpenDriveID *)
}.

Definition sget (i : nat) (e : elem) : option positive := nth i (sl e) None.
Definition lget (i : nat) (e : elem) : list positive := nth i (ll e) [].

Definition road := sget 0.        (* .road ; PedestrianCrossing.parent *)
Definition group := sget 1.       (* .group *)
Definition lane := sget 2.        (* LaneSection.lane *)
Definition succ := sget 3.        (* ._successor *)
Definition pred := sget 4.        (* ._predecessor *)
Definition fwd := sget 5.         (* Road.forwardLanes *)
Definition bwd := sget 6.         (* Road.backwardLanes *)
Definition sidewalk := sget 7.    (* LaneGroup._sidewalk *)
Definition bikelane := sget 8.    (* LaneGroup._bikeLane *)
Definition shoulder := sget 9.    (* LaneGroup._shoulder *)
Definition opposite := sget 10.   (* LaneGroup._opposite *)
Definition left := sget 11.       (* LaneSection._laneToLeft *)
Definition right := sget 12.      (* LaneSection._laneToRight *)
Definition faster := sget 13.     (* LaneSection._fasterLane *)
Definition slower := sget 14.     (* LaneSection._slowerLane *)
Definition startsw := sget 15.    (* PedestrianCrossing.startSidewalk *)
Definition endsw := sget 16.      (* PedestrianCrossing.endSidewalk *)
Definition mstart := sget 17.     (* Maneuver.startLane *)
Definition mend := sget 18.       (* Maneuver.endLane *)
Definition mconn := sget 19.      (* Maneuver.connectingLane *)
Definition minter := sget 20.     (* Maneuver.intersection *)

Definition lanes := lget 0.       (* Road.lanes, LaneGroup.lanes, RoadSection.lanes *)
Definition fwdl := lget 1.        (* RoadSection.forwardLanes *)
Definition bwdl := lget 2.        (* RoadSection.backwardLanes *)
Definition groups := lget 3.      (* Road.laneGroups *)
Definition sections := lget 4.    (* Road.sections, Lane.sections *)
Definition crossings := lget 5.   (* Road/Sidewalk/Intersection.crossings *)
Definition sidewalks := lget 6.   (* Road.sidewalks *)
Definition adjacent := lget 7.    (* Lane.adjacentLanes, LaneSection.adjacentLanes *)
Definition mans := lget 8.        (* Lane.maneuvers, Intersection.maneuvers *)
Definition iroads := lget 9.      (* Intersection.roads *)
Definition incoming := lget 10.   (* Intersection.incomingLanes *)
Definition outgoing := lget 11.   (* Intersection.outgoingLanes *)

Record net := mkNet {
  elems : list elem;              (* every element, then every maneuver *)
  n_elements : list positive;     (* keys of Network.elements, in order *)
  n_roads : list positive; n_conn : list positive; n_allroads : list positive;
  n_groups : list positive; n_lanes : list positive; n_inters : list positive;
  n_crossings : list positive; n_sidewalks : list positive; n_shoulders : list positive;
  n_roadsecs : list positive; n_lanesecs : list positive;
  n_left : bool;                  (* driveOnLeft *)
  n_tol : N                       (* digest of the tolerance *)
}.

(* smart constructors used by the exporter (one per class; arguments in the order of the class' links) *)
Definition N_ : option positive := None.
Definition mkRoad u g sc pr f b ls gs secs cr sws :=
  mkElem u KRoad g 0 false 0 [N_; N_; N_; sc; pr; f; b] [ls; []; []; gs; secs; cr; sws] [].
Definition mkGroup u g sc pr r ls sw bk sh op :=
  mkElem u KGroup g 0 false 0 [r; N_; N_; sc; pr; N_; N_; sw; bk; sh; op] [ls] [].
Definition mkLane u g sc pr gr r secs adj ms :=
  mkElem u KLane g 0 false 0 [r; gr; N_; sc; pr] [[]; []; []; []; secs; []; []; adj; ms] [].
Definition mkRoadSec u g sc pr r ls fl bl ids :=
  mkElem u KRoadSec g 0 false 0 [r; N_; N_; sc; pr] [ls; fl; bl] ids.
Definition mkLaneSec u g sc pr l gr r id fw adj lf rt fa slo :=
  mkElem u KLaneSec g id fw 0 [r; gr; l; sc; pr; N_; N_; N_; N_; N_; N_; lf; rt; fa; slo]
         [[]; []; []; []; []; []; []; adj] [].
Definition mkSidewalk u g sc pr r cr :=
  mkElem u KSidewalk g 0 false 0 [r; N_; N_; sc; pr] [[]; []; []; []; []; cr] [].
Definition mkCrossing u g sc pr par ssw esw :=
  mkElem u KCrossing g 0 false 0 [par; N_; N_; sc; pr; N_; N_; N_; N_; N_; N_; N_; N_; N_; N_; ssw; esw] [] [].
Definition mkShoulder u g sc pr r gr :=
  mkElem u KShoulder g 0 false 0 [r; gr; N_; sc; pr] [] [].
Definition mkInter u g rs inc out ms cr :=
  mkElem u KInter g 0 false 0 [] [[]; []; []; []; []; cr; []; []; ms; rs; inc; out] [].
Definition mkMan u ty st en co it :=
  mkElem u KMan 0 0 false ty
         [N_; N_; N_; N_; N_; N_; N_; N_; N_; N_; N_; N_; N_; N_; N_; N_; N_; st; en; co; it] [] [].

(* ------------------------------------------------------------------------------------- lookup *)
Definition imap := PositiveMap.t elem.
Definition index (es : list elem) : imap :=
  fold_left (fun m e => PositiveMap.add (uid e) e m) es (PositiveMap.empty elem).
Definition lookup (nt : net) (u : positive) : option elem := PositiveMap.find u (index (elems nt)).

(* --------------------------------------------------------------------------- small boolean tools *)
Definition opos_eqb (a b : option positive) : bool :=
  match a, b with Some x, Some y => Pos.eqb x y | None, None => true | _, _ => false end.
Fixpoint lpos_eqb (a b : list positive) : bool :=
  match a, b with [] , [] => true | x :: a', y :: b' => Pos.eqb x y && lpos_eqb a' b' | _, _ => false end.
Fixpoint memb (u : positive) (l : list positive) : bool :=
  match l with [] => false | x :: t => Pos.eqb u x || memb u t end.
Fixpoint nodupb (l : list positive) : bool :=
  match l with [] => true | x :: t => negb (memb x t) && nodupb t end.
Definition optl (o : option positive) : list positive := match o with Some u => [u] | None => [] end.

(* --------------------------------------------------------------------------------- formulas *)
Inductive fm :=
| FT | FF
| FAnd (a b : fm) | FOr (a b : fm) | FImp (a b : fm) | FNot (a : fm)
| FEqO (x y : option positive) | FEqB (x y : bool) | FEqN (x y : N) | FEqZ (x y : Z) | FEqK (x y : kind)
| FEqL (x y : list positive)
| FIn (u : positive) (l : list positive)
| FNoDup (l : list positive)
| FRes (o : option positive) (f : elem -> fm)   (* link absent, or it resolves to e and (f e) *)
| FDef (o : option positive) (f : elem -> fm)   (* link present, resolves to e, and (f e) *)
| FAll (l : list positive) (f : elem -> fm)     (* every uid resolves to e with (f e) *)
| FEx (l : list positive) (f : elem -> fm).     (* some uid resolves to e with (f e) *)

Fixpoint holds (m : imap) (f : fm) : Prop :=
  match f with
  | FT => True | FF => False
  | FAnd a b => holds m a /\ holds m b
  | FOr a b => holds m a \/ holds m b
  | FImp a b => holds m a -> holds m b
  | FNot a => ~ holds m a
  | FEqO x y => x = y | FEqB x y => x = y | FEqN x y => x = y | FEqZ x y => x = y | FEqK x y => x = y
  | FEqL x y => x = y
  | FIn u l => In u l
  | FNoDup l => NoDup l
  | FRes o g => match o with None => True
                | Some u => match PositiveMap.find u m with Some e => holds m (g e) | None => False end end
  | FDef o g => match o with None => False
                | Some u => match PositiveMap.find u m with Some e => holds m (g e) | None => False end end
  | FAll l g => (fix go (l : list positive) : Prop :=
                   match l with [] => True
                   | u :: t => match PositiveMap.find u m with Some e => holds m (g e) | None => False end /\ go t
                   end) l
  | FEx l g => (fix go (l : list positive) : Prop :=
                   match l with [] => False
                   | u :: t => match PositiveMap.find u m with Some e => holds m (g e) | None => False end \/ go t
                   end) l
  end.

Fixpoint evalb (m : imap) (f : fm) : bool :=
  match f with
  | FT => true | FF => false
  | FAnd a b => evalb m a && evalb m b
  | FOr a b => evalb m a || evalb m b
  | FImp a b => implb (evalb m a) (evalb m b)
  | FNot a => negb (evalb m a)
  | FEqO x y => opos_eqb x y | FEqB x y => Bool.eqb x y | FEqN x y => N.eqb x y | FEqZ x y => Z.eqb x y
  | FEqK x y => kind_eqb x y
  | FEqL x y => lpos_eqb x y
  | FIn u l => memb u l
  | FNoDup l => nodupb l
  | FRes o g => match o with None => true
                | Some u => match PositiveMap.find u m with Some e => evalb m (g e) | None => false end end
  | FDef o g => match o with None => false
                | Some u => match PositiveMap.find u m with Some e => evalb m (g e) | None => false end end
  | FAll l g => (fix go (l : list positive) : bool :=
                   match l with [] => true
                   | u :: t => match PositiveMap.find u m with Some e => evalb m (g e) | None => false end && go t
                   end) l
  | FEx l g => (fix go (l : list positive) : bool :=
                   match l with [] => false
                   | u :: t => match PositiveMap.find u m with Some e => evalb m (g e) | None => false end || go t
                   end) l
  end.

(* derived formulas *)
Definition FNeO x y := FNot (FEqO x y).
Definition FK (e : elem) (k : kind) := FEqK (kind_of e) k.
Definition FInO (o : option positive) (l : list positive) : fm :=
  match o with Some u => FIn u l | None => FF end.
Definition FAnds (l : list fm) : fm := fold_right FAnd FT l.
(* consecutive elements of a list are each other's successor / predecessor *)
Fixpoint chain_fm (l : list positive) : fm :=
  match l with
  | a :: (b :: _) as t =>
      FAnd (FDef (Some a) (fun x => FEqO (succ x) (Some b)))
           (FAnd (FDef (Some b) (fun y => FEqO (pred y) (Some a))) (chain_fm t))
  | _ => FT
  end.

(* ------------------------------------------------------------------------------ linkage rules *)
Local Open Scope N_scope.
(* weak reciprocity of successor / predecessor (a lane can have several successors – splits – and
   several predecessors – merges – of which the link names one): whoever b names as its predecessor
   does flow into b, or is the element itself. *)
Definition succ_rule (k : kind) (a : elem) : fm :=
  FRes (succ a) (fun b => FAnd (FK b k)
     (FOr (FEqO (pred b) (Some (uid a))) (FRes (pred b) (fun p => FEqO (succ p) (succ a))))).
Definition pred_rule (k : kind) (a : elem) : fm :=
  FRes (pred a) (fun b => FAnd (FK b k)
     (FOr (FEqO (succ b) (Some (uid a))) (FRes (succ b) (fun s => FEqO (pred s) (pred a))))).
(* strict form between elements of ORDINARY roads: the target names some element back *)
Definition on_ordinary (nt : net) (e : elem) : fm := FInO (road e) (n_roads nt).
Definition succ_strict (nt : net) (a : elem) : fm :=
  FRes (succ a) (fun b => FImp (FAnd (on_ordinary nt a) (on_ordinary nt b)) (FNeO (pred b) None)).
Definition pred_strict (nt : net) (a : elem) : fm :=
  FRes (pred a) (fun b => FImp (FAnd (on_ordinary nt a) (on_ordinary nt b)) (FNeO (succ b) None)).

Definition side_rule (s : elem) (mine other : elem -> option positive) : fm :=
  FRes (mine s) (fun l => FAnds [
     FK l KLaneSec; FNeO (mine s) (other s);
     FImp (FEqB (isfwd l) (isfwd s))
          (FAnd (FEqO (other l) (Some (uid s)))
                (FOr (FAnd (FEqO (faster s) (mine s)) (FNeO (slower s) (mine s)))
                     (FAnd (FNeO (faster s) (mine s)) (FEqO (slower s) (mine s)))));
     FImp (FNot (FEqB (isfwd l) (isfwd s))) (FEqO (mine l) (Some (uid s))) ]).

Definition rules_links (nt : net) (e : elem) : list (N * fm) :=
  match kind_of e with
  | KLane =>
    [ (1, succ_rule KLane e); (2, pred_rule KLane e);
      (3, FAll (adjacent e) (fun a => FAnds [FK a KLane; FIn (uid e) (adjacent a); FEqO (road a) (road e)]));
      (4, FAll (mans e) (fun m => FAnd (FK m KMan) (FEqO (mstart m) (Some (uid e)))));
      (5, succ_strict nt e); (6, pred_strict nt e) ]
  | KLaneSec =>
    [ (1, succ_rule KLaneSec e); (2, pred_rule KLaneSec e);
      (3, FAnd (FEqL (adjacent e) (optl (left e) ++ optl (right e)))
               (FAll (adjacent e) (fun a => FAnd (FK a KLaneSec) (FIn (uid e) (adjacent a)))));
      (5, succ_strict nt e); (6, pred_strict nt e);
      (7, side_rule e left right); (8, side_rule e right left);
      (9, FAnd (FOr (FEqO (faster e) None) (FOr (FEqO (faster e) (left e)) (FEqO (faster e) (right e))))
               (FOr (FEqO (slower e) None) (FOr (FEqO (slower e) (left e)) (FEqO (slower e) (right e))))) ]
  | KGroup =>
    [ (10, FRes (opposite e) (fun h => FAnds [FK h KGroup; FEqO (opposite h) (Some (uid e)); FEqO (road h) (road e)])) ]
  | KMan =>
    [ (11, FDef (mstart e) (fun l => FAnd (FK l KLane) (FIn (uid e) (mans l))));
      (12, FDef (mend e) (fun l => FK l KLane));
      (13, FRes (mconn e) (fun c => FAnds [FK c KLane; FEqO (succ c) (mend e); FEqO (pred c) (mstart e);
                                           FDef (road c) (fun r => FIn (uid r) (n_conn nt))]));
      (14, FRes (minter e) (fun i => FAnds [FK i KInter; FIn (uid e) (mans i); FInO (mstart e) (incoming i);
                                            FInO (mend e) (outgoing i)]));
      (15, FAnd (FImp (FEqO (mconn e) None)
                      (FAnds [FEqO (minter e) None; FEqN (mtype e) 1;
                              FDef (mstart e) (fun l => FEqO (succ l) (mend e))]))
                (FImp (FEqO (minter e) None) (FEqO (mconn e) None))) ]
  | KInter =>
    [ (16, FAll (mans e) (fun m => FAnds [FK m KMan; FEqO (minter m) (Some (uid e)); FNeO (mconn m) None]));
      (17, FAll (incoming e) (fun l => FAnds [FK l KLane; FInO (road l) (iroads e);
               (* the lane has a successor c; when c leads on (succ c <> None: a maneuver needs an end lane, rules 12/13),
                  some maneuver of the intersection passes through c.  A connecting lane the map leaves without a
                  successor carries no maneuver (the parser warns and skips it): nothing to reciprocate there. *)
               FDef (succ l) (fun c => FOr (FEqO (succ c) None) (FEx (mans e) (fun m => FEqO (mconn m) (succ l))));
               FAll (mans l) (fun m => FIn (uid m) (mans e))]));
      (18, FAll (outgoing e) (fun l => FAnd (FK l KLane) (FInO (road l) (iroads e))));
      (19, FAll (iroads e) (fun r => FK r KRoad)) ]
  | KSidewalk =>
    [ (20, FAll (crossings e) (fun c => FAnds [FK c KCrossing; FEqO (road c) (road e);
               FOr (FEqO (startsw c) (Some (uid e))) (FEqO (endsw c) (Some (uid e)))])) ]
  | KCrossing =>
    [ (21, FAnd (FDef (startsw e) (fun s => FAnd (FK s KSidewalk) (FIn (uid e) (crossings s))))
                (FDef (endsw e) (fun s => FAnd (FK s KSidewalk) (FIn (uid e) (crossings s))))) ]
  | _ => []
  end.

(* ---------------------------------------------------------------------------- hierarchy rules *)
Definition byid_fm (rs : elem) : fm :=
  fold_right (fun iu acc => FAnd (FDef (Some (snd iu)) (fun s => FAnd (FEqZ (odid s) (fst iu)) (FIn (snd iu) (lanes rs)))) acc)
             FT (byid rs).

Definition rules_hier (nt : net) (e : elem) : list (N * fm) :=
  match kind_of e with
  | KLane =>
    [ (31, FDef (group e) (fun g => FAnds [FK g KGroup; FIn (uid e) (lanes g); FEqO (road g) (road e)]));
      (32, FDef (road e) (fun r => FAnd (FK r KRoad) (FIn (uid e) (lanes r))));
      (33, FAll (sections e) (fun s => FAnds [FK s KLaneSec; FEqO (lane s) (Some (uid e));
                                              FEqO (group s) (group e); FEqO (road s) (road e)]));
      (34, FAnd (FNoDup (sections e)) (chain_fm (sections e)));
      (35, FIn (uid e) (n_lanes nt)) ]
  | KGroup =>
    [ (36, FDef (road e) (fun r => FAnds [FK r KRoad; FIn (uid e) (groups r);
              FOr (FAnd (FEqO (fwd r) (Some (uid e))) (FEqO (opposite e) (bwd r)))
                  (FAnd (FEqO (bwd r) (Some (uid e))) (FEqO (opposite e) (fwd r)))]));
      (37, FAnd (FNoDup (lanes e))
                (FAll (lanes e) (fun l => FAnds [FK l KLane; FEqO (group l) (Some (uid e)); FEqO (road l) (road e)])));
      (38, FRes (sidewalk e) (fun s => FAnds [FK s KSidewalk; FEqO (road s) (road e);
                                              FDef (road e) (fun r => FIn (uid s) (sidewalks r))]));
      (39, FRes (shoulder e) (fun s => FAnds [FK s KShoulder; FEqO (road s) (road e); FEqO (group s) (Some (uid e))]));
      (40, FRes (bikelane e) (fun b => FAnd (FK b KLane) (FEqO (road b) (road e))));
      (41, FIn (uid e) (n_groups nt)) ]
  | KLaneSec =>
    [ (42, FDef (lane e) (fun l => FAnds [FK l KLane; FIn (uid e) (sections l); FEqO (group l) (group e);
                                          FEqO (road l) (road e)]));
      (43, FDef (road e) (fun r => FAnds [FK r KRoad;
              FImp (FEqB (isfwd e) true) (FEqO (fwd r) (group e));
              FImp (FEqB (isfwd e) false) (FEqO (bwd r) (group e));
              FEx (sections r) (fun rs => FIn (uid e) (lanes rs))]));
      (44, FDef (group e) (fun g => FK g KGroup));
      (45, FEqB (isfwd e) (Z.ltb (odid e) 0));
      (46, FIn (uid e) (n_lanesecs nt)) ]
  | KRoadSec =>
    [ (47, FDef (road e) (fun r => FAnd (FK r KRoad) (FIn (uid e) (sections r))));
      (48, FAnd (FEqL (lanes e) (fwdl e ++ bwdl e)) (FNoDup (lanes e)));
      (49, FAnd (FAll (fwdl e) (fun s => FAnds [FK s KLaneSec; FEqB (isfwd s) true; FEqO (road s) (road e)]))
                (FAll (bwdl e) (fun s => FAnds [FK s KLaneSec; FEqB (isfwd s) false; FEqO (road s) (road e)])));
      (50, FAnd (FEqN (N.of_nat (length (byid e))) (N.of_nat (length (lanes e)))) (byid_fm e)) ]
  | KRoad =>
    [ (51, FOr (FNeO (fwd e) None) (FNeO (bwd e) None));
      (52, FAnd (FEqL (groups e) (optl (fwd e) ++ optl (bwd e))) (FNeO (fwd e) (bwd e)));
      (53, FAll (groups e) (fun g => FAnd (FK g KGroup) (FEqO (road g) (Some (uid e)))));
      (54, FAnd (FNoDup (lanes e)) (FAll (lanes e) (fun l => FAnd (FK l KLane) (FEqO (road l) (Some (uid e))))));
      (55, FAnds [FNoDup (sections e); chain_fm (sections e);
                  FAll (sections e) (fun s => FAnd (FK s KRoadSec) (FEqO (road s) (Some (uid e))))]);
      (56, FAll (sidewalks e) (fun s => FAnd (FK s KSidewalk) (FEqO (road s) (Some (uid e)))));
      (57, FIn (uid e) (n_allroads nt)) ]
  | KSidewalk => [ (58, FAnd (FDef (road e) (fun r => FK r KRoad)) (FIn (uid e) (n_sidewalks nt))) ]
  | KShoulder =>
    [ (59, FAnds [FDef (road e) (fun r => FK r KRoad); FIn (uid e) (n_shoulders nt);
                  FDef (group e) (fun g => FAnd (FK g KGroup) (FEqO (shoulder g) (Some (uid e))))]) ]
  | KInter => [ (60, FIn (uid e) (n_inters nt)) ]
  | KCrossing => [ (61, FIn (uid e) (n_crossings nt)) ]
  | KMan => []
  end.

(* network-level lists *)
Definition flat_lookup (m : imap) (l : list positive) (f : elem -> list positive) : list positive :=
  flat_map (fun u => match PositiveMap.find u m with Some e => f e | None => [] end) l.
Definition is_man (e : elem) : bool := kind_eqb (kind_of e) KMan.

Definition rules_net (nt : net) (m : imap) : list (N * fm) :=
  [ (71, FNoDup (map uid (elems nt)));
    (72, FEqL (n_elements nt) (map uid (filter (fun e => negb (is_man e)) (elems nt))));
    (73, FEqL (n_allroads nt) (n_roads nt ++ n_conn nt));
    (74, FAnds [FAll (n_allroads nt) (fun r => FK r KRoad); FAll (n_groups nt) (fun g => FK g KGroup);
                FAll (n_lanes nt) (fun l => FK l KLane); FAll (n_inters nt) (fun i => FK i KInter);
                FAll (n_crossings nt) (fun c => FK c KCrossing); FAll (n_sidewalks nt) (fun s => FK s KSidewalk);
                FAll (n_shoulders nt) (fun s => FK s KShoulder)]);
    (75, FEqL (n_lanes nt) (flat_lookup m (n_allroads nt) lanes));
    (76, FEqL (n_roadsecs nt) (flat_lookup m (n_roads nt) sections));
    (77, FEqL (n_lanesecs nt) (flat_lookup m (n_lanes nt) sections));
    (78, FAnds [FNoDup (n_allroads nt); FNoDup (n_groups nt); FNoDup (n_lanes nt); FNoDup (n_inters nt);
                FNoDup (n_sidewalks nt); FNoDup (n_shoulders nt)]) ].

Local Close Scope N_scope.
(* -------------------------------------------------------------------------------- the checkers *)
Definition failing (m : imap) (rs : list (N * fm)) : list N :=
  map fst (filter (fun r => negb (evalb m (snd r))) rs).

Definition elems_bad (rules : elem -> list (N * fm)) (nt : net) : list (positive * N) :=
  let m := index (elems nt) in
  flat_map (fun e => map (fun r => (uid e, r)) (failing m (rules e))) (elems nt).

Definition links_bad (nt : net) : list (positive * N) := elems_bad (rules_links nt) nt.
Definition hierarchy_bad (nt : net) : list (positive * N) :=
  let m := index (elems nt) in
  map (fun r => (1%positive, r)) (failing m (rules_net nt m)) ++ elems_bad (rules_hier nt) nt.

Definition nilb {A} (l : list A) : bool := match l with [] => true | _ => false end.
Definition links_ok (nt : net) : bool := nilb (links_bad nt).
Definition hierarchy_ok (nt : net) : bool := nilb (hierarchy_bad nt).

(* ------------------------------------------------------------------------- network equivalence *)
Fixpoint list_eqb {A} (eqb : A -> A -> bool) (a b : list A) : bool :=
  match a, b with [], [] => true | x :: a', y :: b' => eqb x y && list_eqb eqb a' b' | _, _ => false end.
Definition zp_eqb (a b : Z * positive) : bool := Z.eqb (fst a) (fst b) && Pos.eqb (snd a) (snd b).
Definition elem_eqb (a b : elem) : bool :=
  Pos.eqb (uid a) (uid b) && kind_eqb (kind_of a) (kind_of b) && N.eqb (geo a) (geo b) && Z.eqb (odid a) (odid b)
  && Bool.eqb (isfwd a) (isfwd b) && N.eqb (mtype a) (mtype b) && list_eqb opos_eqb (sl a) (sl b)
  && list_eqb lpos_eqb (ll a) (ll b) && list_eqb zp_eqb (byid a) (byid b).
Definition net_equiv (a b : net) : bool :=
  list_eqb elem_eqb (elems a) (elems b) && lpos_eqb (n_elements a) (n_elements b)
  && lpos_eqb (n_roads a) (n_roads b) && lpos_eqb (n_conn a) (n_conn b) && lpos_eqb (n_allroads a) (n_allroads b)
  && lpos_eqb (n_groups a) (n_groups b) && lpos_eqb (n_lanes a) (n_lanes b) && lpos_eqb (n_inters a) (n_inters b)
  && lpos_eqb (n_crossings a) (n_crossings b) && lpos_eqb (n_sidewalks a) (n_sidewalks b)
  && lpos_eqb (n_shoulders a) (n_shoulders b) && lpos_eqb (n_roadsecs a) (n_roadsecs b)
  && lpos_eqb (n_lanesecs a) (n_lanesecs b) && Bool.eqb (n_left a) (n_left b) && N.eqb (n_tol a) (n_tol b).

(* ------------------------------------------------------------------ point lookup (findPointIn) *)
(* [exact u] : the R-tree query with the point itself returns u (u's polygon intersects the point);
   [within u]: the query with the point buffered by the tolerance returns u. [tolpos]: tolerance > 0.
   The element list is scanned in its given (priority) order in each pass. *)
Definition find_point_in (exact within : positive -> bool) (tolpos : bool) (elems : list positive)
  : option positive :=
  match find exact elems with
  | Some u => Some u
  | None => if tolpos then find within elems else None
  end.

(* Network.elementAt: priority Intersection -> Road -> Shoulder -> Sidewalk *)
Definition top_level (nt : net) : list positive :=
  n_inters nt ++ n_roads nt ++ n_shoulders nt ++ n_sidewalks nt.
Definition nominal_dir_elems (nt : net) : list positive := n_inters nt ++ n_roads nt ++ n_shoulders nt.
(* laneSectionAt = laneAt then lane.sectionAt ; laneGroupAt = roadAt then road.laneGroupAt *)
Definition nested_lookup (exact within : positive -> bool) (tolpos : bool) (outer : list positive)
           (inner : positive -> list positive) : option positive :=
  match find_point_in exact within tolpos outer with
  | Some u => find_point_in exact within tolpos (inner u)
  | None => None
  end.


(* the public lookups, by tag (the harness feeds each with the elements' own containsPoint / distanceTo
   answers as the [exact] / [within] sets and compares with what the implementation returned):
   0 elementAt  1 roadAt  2 laneAt  3 intersectionAt  4 sidewalkAt  5 shoulderAt  6 laneSectionAt
   7 laneGroupAt  8 road.laneAt  9 road.sectionAt  10 lane.sectionAt  11 group.laneAt
   12 the element giving nominalDirectionsAt / roadDirection  13 road.laneGroupAt *)
Definition of_elem (m : imap) (f : elem -> list positive) (u : positive) : list positive :=
  match PositiveMap.find u m with Some e => f e | None => [] end.
Definition model_lookup (nt : net) (m : imap) (tolpos : bool) (tag : N) (ex wi : list positive)
           (arg : option positive) : option positive :=
  let E := fun u => memb u ex in
  let W := fun u => memb u wi in
  let fp := find_point_in E W tolpos in
  let inner f := match arg with Some u => fp (of_elem m f u) | None => None end in
  match tag with
  | 0 => fp (top_level nt) | 1 => fp (n_allroads nt) | 2 => fp (n_lanes nt) | 3 => fp (n_inters nt)
  | 4 => fp (n_sidewalks nt) | 5 => fp (n_shoulders nt)
  | 6 => nested_lookup E W tolpos (n_lanes nt) (of_elem m sections)
  | 7 => nested_lookup E W tolpos (n_allroads nt) (of_elem m groups)
  | 8 => inner lanes | 9 => inner sections | 10 => inner sections | 11 => inner lanes
  | 12 => fp (nominal_dir_elems nt) | 13 => inner groups
  | _ => None
  end%N.
(* one sampled point: the exact / within answer sets, then the lookups made at it (tag, argument, result) *)
Definition pt_case := (list positive * list positive * list (N * option positive * option positive))%type.
Definition pt_ok (nt : net) (m : imap) (tolpos : bool) (c : pt_case) : bool :=
  match c with (ex, wi, looks) =>
    forallb (fun l => match l with (tag, arg, expected) =>
               opos_eqb (model_lookup nt m tolpos tag ex wi arg) expected end) looks end.
Fixpoint failing_idx {A} (ok : A -> bool) (l : list A) (i : N) : list N :=
  match l with [] => [] | x :: t => (if ok x then [] else [i]) ++ failing_idx ok t (N.succ i) end.
Definition pts_bad (nt : net) (tolpos : bool) (cs : list pt_case) : list N :=
  let m := index (elems nt) in failing_idx (pt_ok nt m tolpos) cs 0%N.

(* (cache protocol definitions follow) *)
(* ------------------------------------------------------------------------------ cache protocol *)
Definition byte := N.
Fixpoint le_decode (bs : list byte) : N :=
  match bs with [] => 0 | b :: t => b + 256 * le_decode t end%N.
Fixpoint bytes_eqb (a b : list byte) : bool :=
  match a, b with [], [] => true | x :: a', y :: b' => N.eqb x y && bytes_eqb a' b' | _, _ => false end.

Inductive load_result := Loaded | Unpickling | Mismatch.

(* Network.fromPickle on a file with content [file]; [payload_ok]: the gzip'd pickle after the 76-byte
   header loads; [orig]/[optd]: the expected digests when given (None or an empty digest = not checked,
   as in `if originalDigest and originalDigest != digest`). *)
Definition truthy (o : option (list byte)) : option (list byte) :=
  match o with Some ((_ :: _) as d) => Some d | _ => None end.
Definition from_pickle (cur : N) (orig optd : option (list byte)) (file : list byte) (payload_ok : bool)
  : load_result :=
  let v := firstn 4 file in
  if negb (Nat.eqb (length v) 4) then Unpickling else
  if negb (N.eqb (le_decode v) cur) then Unpickling else
  let d := firstn 64 (skipn 4 file) in
  if negb (Nat.eqb (length d) 64) then Unpickling else
  if match truthy orig with Some o => negb (bytes_eqb o d) | None => false end then Mismatch else
  let od := firstn 8 (skipn 68 file) in
  if negb (Nat.eqb (length od) 8) then Unpickling else
  if match truthy optd with Some o => negb (bytes_eqb o od) | None => false end then Mismatch else
  if payload_ok then Loaded else Unpickling.

Inductive source := FromCache | FromParser.
(* Network.fromFile for a map with an original file: [snet] = content of the .snet file if it exists *)
Definition from_file (useCache : bool) (cur : N) (digest optdigest : list byte) (snet : option (list byte))
           (payload_ok : bool) : source :=
  match useCache, snet with
  | true, Some file =>
      match from_pickle cur (Some digest) (Some optdigest) file payload_ok with
      | Loaded => FromCache
      | _ => FromParser
      end
  | _, _ => FromParser
  end.

(* dumpPickle: the header written in front of the payload *)
Fixpoint le_encode (n : nat) (v : N) : list byte :=
  match n with O => [] | S k => (v mod 256)%N :: le_encode k (v / 256)%N end.
Definition dump_header (cur : N) (digest optdigest : list byte) : list byte :=
  le_encode 4 cur ++ digest ++ optdigest.

(* ------------------------------------------------------------------------------ entry paths of Network.fromFile
   The path handed to fromFile: its extension as pathlib's suffix of the LAST component sees it (a directory
   name with dots does not count; the comparison with the handler table is exact, so `.XODR` is an unknown format). *)
Inductive entry := EXodr | ESnet | ENoExt | EOther.
Inductive handler := HXodr | HSnet.
(* the handler table in its iteration order ("in order of decreasing priority": original maps first, the pickled
   representation last) *)
Definition handlers : list handler := [HXodr; HSnet].

Inductive path_result :=
  | PCache                    (* the pickle, after version, map digest and options digest were compared *)
  | PPickleAsIs               (* the pickle through fromPickle(path): format version only, options dropped *)
  | PParsed (wrote : bool)    (* the parser ran on the map with the caller's options; a cache was (not) written *)
  | PNotFound | PUnknownFormat | PUnpickling.

(* directory state: [mapd] = digest of base.xodr when that file exists, [snet] = content of base.snet when it exists *)
Definition is_some {A} (o : option A) : bool := match o with Some _ => true | None => false end.
Definition h_exists (mapd snet : option (list byte)) (h : handler) : bool :=
  match h with HXodr => is_some mapd | HSnet => is_some snet end.
Inductive resolution := RHandler (h : handler) | RNotFound | RUnknown.
(* which candidate is tried: an explicit extension selects its handler without looking at the file system; without
   an extension the FIRST handler of the table whose file exists is taken *)
Definition resolve (hs : list handler) (e : entry) (mapd snet : option (list byte)) : resolution :=
  match e with
  | EOther => RUnknown
  | EXodr => RHandler HXodr
  | ESnet => RHandler HSnet
  | ENoExt => match find (h_exists mapd snet) hs with Some h => RHandler h | None => RNotFound end
  end.
(* ... and which checks it gets: a .snet candidate is loaded as it is (no digests), a map candidate goes through
   [from_file] (both digests computed from the CURRENT map file and the caller's options) *)
Definition from_path (hs : list handler) (e : entry) (useCache writeCache : bool) (cur : N)
           (mapd : option (list byte)) (optd : list byte) (snet : option (list byte)) (payload_ok : bool) : path_result :=
  match resolve hs e mapd snet with
  | RUnknown => PUnknownFormat
  | RNotFound => PNotFound
  | RHandler HSnet =>
      match snet with
      | None => PNotFound
      | Some file => match from_pickle cur None None file payload_ok with Loaded => PPickleAsIs | _ => PUnpickling end
      end
  | RHandler HXodr =>
      match mapd with
      | None => PNotFound
      | Some d => match from_file useCache cur d optd snet payload_ok with
                  | FromCache => PCache
                  | FromParser => PParsed writeCache
                  end
      end
  end.
(* base.snet after the call: rewritten (header of the current map and options, then [payload]) exactly when the
   parser ran with writeCache; never touched when the network came from a pickle or the call failed *)
Definition snet_after (hs : list handler) (e : entry) (useCache writeCache : bool) (cur : N)
           (mapd : option (list byte)) (optd : list byte) (snet : option (list byte)) (payload_ok : bool)
           (payload : list byte) : option (list byte) :=
  match from_path hs e useCache writeCache cur mapd optd snet payload_ok, mapd with
  | PParsed true, Some d => Some (dump_header cur d optd ++ payload)
  | _, _ => snet
  end.

(* histories on one directory: loads through any entry path interleaved with changes of the map file and of
   the cache file; [okf] says which cache contents have a payload that loads *)
Inductive op :=
  | OpLoad (e : entry) (useCache writeCache : bool) (optd : list byte)
  | OpSetMap (mapd : option (list byte))
  | OpSetSnet (snet : option (list byte)).
Record load_obs := mkObs { o_entry : entry; o_use : bool; o_mapd : option (list byte); o_optd : list byte;
                           o_snet : option (list byte); o_res : path_result }.
Fixpoint run (hs : list handler) (cur : N) (okf : list byte -> bool) (payload : list byte) (ops : list op)
             (mapd snet : option (list byte)) : list load_obs :=
  match ops with
  | [] => []
  | OpSetMap m :: t => run hs cur okf payload t m snet
  | OpSetSnet s :: t => run hs cur okf payload t mapd s
  | OpLoad e u w o :: t =>
      let ok := match snet with Some f => okf f | None => false end in
      mkObs e u mapd o snet (from_path hs e u w cur mapd o snet ok)
      :: run hs cur okf payload t mapd (snet_after hs e u w cur mapd o snet ok payload)
  end.

(* path cases for the kernel: (entry, useCache, writeCache, current version, map digest if the map exists, options
   digest, first 76 bytes of base.snet if it exists, payload loads, observed outcome code, observed first 76 bytes of
   base.snet after the call).  Codes: 0 a pickle was returned, 1 parsed (nothing written), 2 parsed and cache written,
   3 FileNotFoundError, 4 ValueError, 5 UnpicklingError *)
Definition path_code (r : path_result) : N :=
  match r with PCache | PPickleAsIs => 0 | PParsed false => 1 | PParsed true => 2
             | PNotFound => 3 | PUnknownFormat => 4 | PUnpickling => 5 end%N.
Definition obytes_eqb (a b : option (list byte)) : bool :=
  match a, b with None, None => true | Some x, Some y => bytes_eqb x y | _, _ => false end.
Definition path_case := (entry * bool * bool * N * option (list byte) * list byte * option (list byte) * bool
                         * N * option (list byte))%type.
Definition path_ok (c : path_case) : bool :=
  match c with (e, u, w, cur, mapd, o, snet, ok, code, after) =>
    N.eqb (path_code (from_path handlers e u w cur mapd o snet ok)) code &&
    obytes_eqb (option_map (firstn 76) (snet_after handlers e u w cur mapd o snet ok [])) after end.

(* deterministicHash framing: for every key (sorted by str(key)) "\0K" str(key) "\0V" then str(value)
   for int/float/str/bool values, a single NUL for any other value. *)
Definition frame_value (v : option (list byte)) : list byte := match v with Some s => s | None => [0%N] end.
Fixpoint frame (kvs : list (list byte * option (list byte))) : list byte :=
  match kvs with
  | [] => []
  | (k, v) :: t => [0; 75]%N ++ k ++ [0; 86]%N ++ frame_value v ++ frame t
  end.

(* cache cases: (useCache, current version, map digest, options digest, .snet content if any, payload loads,
   expected: true = cache used) *)
Definition cache_case := (bool * N * list byte * list byte * option (list byte) * bool * bool)%type.
Definition cache_ok (c : cache_case) : bool :=
  match c with (use, cur, d, o, snet, ok, expected) =>
    Bool.eqb (match from_file use cur d o snet ok with FromCache => true | FromParser => false end) expected end.
Definition frame_ok (c : list (list byte * option (list byte)) * list byte) : bool :=
  bytes_eqb (frame (fst c)) (snd c).

