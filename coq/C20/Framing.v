(* C20 — the key/value framing of serialization.deterministicHash is injective on option maps whose
   keys and int/float/str/bool values (as strings) contain no NUL byte. *)
From Coq Require Import List NArith Lia.
From Scenic Require Import C20.Network.
Import ListNotations.

Definition nul_free (s : list byte) : Prop := Forall (fun b => b <> 0%N) s.
Definition value_ok (v : option (list byte)) : Prop := match v with Some s => nul_free s | None => True end.
Definition kvs_ok (kvs : list (list byte * option (list byte))) : Prop :=
  Forall (fun kv => nul_free (fst kv) /\ value_ok (snd kv)) kvs.

Lemma split_nul : forall a b r r', nul_free a -> nul_free b -> a ++ 0%N :: r = b ++ 0%N :: r' -> a = b /\ r = r'.
Proof.
  induction a as [|x a IH]; destruct b as [|y b]; cbn; intros r r' Ha Hb H.
  - inversion H; auto.
  - inversion H; subst. inversion Hb; subst. congruence.
  - inversion H; subst. inversion Ha; subst. congruence.
  - inversion H; subst. inversion Ha; inversion Hb; subst.
    destruct (IH b r r') as [-> ->]; auto.
Qed.

Lemma frame_head : forall t, frame t = [] \/ exists r, frame t = 0%N :: 75%N :: r.
Proof. destruct t as [|[k v] t]; cbn; eauto. Qed.

Lemma nul_free_app_nul a r : nul_free (a ++ 0%N :: r) -> False.
Proof.
  unfold nul_free. rewrite Forall_app. intros [_ H]. inversion H; subst. congruence.
Qed.

Theorem frame_injective : forall k1 k2, kvs_ok k1 -> kvs_ok k2 -> frame k1 = frame k2 -> k1 = k2.
Proof.
  induction k1 as [|[ka va] t1 IH]; destruct k2 as [|[kb vb] t2]; intros H1 H2 E.
  - reflexivity.
  - cbn in E. discriminate.
  - cbn in E. discriminate.
  - inversion H1 as [|? ? [Hka Hva] Ht1]; inversion H2 as [|? ? [Hkb Hvb] Ht2]; subst. cbn in Hka, Hva, Hkb, Hvb.
    cbn [frame app] in E. inversion E as [E'].
    apply split_nul in E'; auto. destruct E' as [-> E']. inversion E' as [E''].
    assert (G : va = vb /\ frame t1 = frame t2).
    { destruct va as [s1|], vb as [s2|]; cbn [frame_value] in E''.
      - destruct (frame_head t1) as [F1|[r1 F1]], (frame_head t2) as [F2|[r2 F2]]; rewrite F1, F2 in *.
        + rewrite !app_nil_r in E''. subst. auto.
        + rewrite app_nil_r in E''. subst s1. exfalso. eapply nul_free_app_nul; eauto.
        + rewrite app_nil_r in E''. subst s2. exfalso. eapply nul_free_app_nul; eauto.
        + apply split_nul in E''; auto. destruct E'' as [-> E'']. rewrite E''. auto.
      - exfalso. destruct s1 as [|c s1].
        + cbn in E''. destruct (frame_head t1) as [F1|[r1 F1]]; rewrite F1 in E''; [discriminate|].
          inversion E'' as [E3]. destruct (frame_head t2) as [F2|[r2 F2]]; rewrite F2 in E3; discriminate.
        + cbn in E''. inversion E''; subst. inversion Hva; subst. congruence.
      - exfalso. destruct s2 as [|c s2].
        + cbn in E''. destruct (frame_head t2) as [F2|[r2 F2]]; rewrite F2 in E''; [discriminate|].
          inversion E'' as [E3]. destruct (frame_head t1) as [F1|[r1 F1]]; rewrite F1 in E3; discriminate.
        + cbn in E''. inversion E''; subst. inversion Hvb; subst. congruence.
      - cbn in E''. inversion E''. auto. }
    destruct G as [-> G]. f_equal. apply IH; auto.
Qed.

(* the framing does NOT distinguish a str value from an int/float/bool with the same text
   (both contribute str(value)): e.g. {"tolerance": 1} and {"tolerance": "1"} collide *before* hashing.
   In the model both are the same (key, Some "1") pair – the type of the value is not part of the pre-image. *)
