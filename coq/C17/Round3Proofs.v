(* C17, round 3 -- lemmas: view-angle truncation; order-independence of the occlusion filter. *)
From Coq Require Import QArith Qminmax List Bool Permutation Lia Lqa.
From Scenic Require Import C17.Vec C17.Visibility C17.VisibilityProofs C17.Angles.
Import ListNotations.
Open Scope Q_scope.

(* ------------------------------------------------------------------ truncation *)
Lemma Qmin_l_eq : forall x y, x <= y -> Qmin x y = x.
Proof.
  intros x y H. unfold Qmin, GenericMinMax.gmin.
  destruct (x ?= y) eqn:E; auto. apply Qle_alt in H. contradiction.
Qed.

Lemma over_limit_false : forall TAU PI a,
  over_limit TAU PI a = false <-> fst a <= TAU /\ snd a <= PI.
Proof.
  intros. unfold over_limit. rewrite orb_false_iff, !Qltb_false. tauto.
Qed.

Theorem truncate_angles_is_spec : forall TAU PI a,
  truncate_angles TAU PI a = truncate_spec TAU PI a.
Proof.
  intros TAU PI [h v]. unfold truncate_angles, truncate_spec.
  destruct (over_limit TAU PI (h, v)) eqn:E; [reflexivity|].
  apply over_limit_false in E. cbn [fst snd] in *. destruct E as [E1 E2].
  rewrite (Qmin_l_eq _ _ E1), (Qmin_l_eq _ _ E2). reflexivity.
Qed.

Theorem truncate_within_limits : forall TAU PI a,
  fst (truncate_angles TAU PI a) <= TAU /\ snd (truncate_angles TAU PI a) <= PI.
Proof.
  intros. rewrite truncate_angles_is_spec. unfold truncate_spec. cbn [fst snd].
  split; apply Q.le_min_r.
Qed.

Theorem truncate_never_widens : forall TAU PI a,
  fst (truncate_angles TAU PI a) <= fst a /\ snd (truncate_angles TAU PI a) <= snd a.
Proof.
  intros. rewrite truncate_angles_is_spec. unfold truncate_spec. cbn [fst snd].
  split; apply Q.le_min_l.
Qed.

Theorem truncate_identity : forall TAU PI a,
  fst a <= TAU -> snd a <= PI -> truncate_angles TAU PI a = a.
Proof.
  intros TAU PI a H1 H2. unfold truncate_angles.
  assert (E : over_limit TAU PI a = false) by (apply over_limit_false; tauto).
  rewrite E. reflexivity.
Qed.

Theorem truncate_idempotent : forall TAU PI a,
  truncate_angles TAU PI (truncate_angles TAU PI a) = truncate_angles TAU PI a.
Proof.
  intros. destruct (truncate_within_limits TAU PI a). apply truncate_identity; assumption.
Qed.

(* each component is truncated on its own: a legal vertical angle is kept whatever the horizontal
   one is (what `max` for `min` in the vertical component breaks), and symmetrically *)
Theorem truncate_vertical_kept : forall TAU PI h v,
  v <= PI -> snd (truncate_angles TAU PI (h, v)) = v.
Proof.
  intros. rewrite truncate_angles_is_spec. unfold truncate_spec. cbn [fst snd].
  apply Qmin_l_eq. assumption.
Qed.

Theorem truncate_horizontal_kept : forall TAU PI h v,
  h <= TAU -> fst (truncate_angles TAU PI (h, v)) = h.
Proof.
  intros. rewrite truncate_angles_is_spec. unfold truncate_spec. cbn [fst snd].
  apply Qmin_l_eq. assumption.
Qed.

Theorem truncate_over_limit_clamped : forall TAU PI h v,
  (TAU < h -> fst (truncate_angles TAU PI (h, v)) == TAU) /\
  (PI < v -> snd (truncate_angles TAU PI (h, v)) == PI).
Proof.
  intros. rewrite truncate_angles_is_spec. unfold truncate_spec. cbn [fst snd].
  split; intro; apply Q.min_r; apply Qlt_le_weak; assumption.
Qed.

(* Truncation does not change what a point viewer sees: with TAU = 2 PI the azimuth test is
   vacuous from h = TAU on (the wrapped azimuth lies in [-PI, PI)), and if asin ranges over
   [-PI/2, PI/2] the altitude test is vacuous from v = PI on. *)
Section TruncationView.
  Variable PI : Q.
  Variable atan2 : Q -> Q -> Q.
  Variable asin : Q -> Q.
  Variable norm : vec -> Q.
  Variable O : Type.
  Variable odist : O -> Q.
  Variable hit : O -> vec -> list Q.
  Hypothesis PI_pos : 0 < PI.
  Hypothesis asin_range : forall z, - (PI / 2) <= asin z /\ asin z <= PI / 2.

  Lemma in_window_az_trunc : forall a h,
    in_window (wrap_az PI a) (Qmin h (2 * PI) / 2) = in_window (wrap_az PI a) (h / 2).
  Proof.
    intros a h.
    destruct (wrap_az_wrapped PI PI_pos a) as [W1 [W2 _]].
    destruct (Qlt_le_dec (2 * PI) h) as [L|L].
    - assert (E : Qmin h (2 * PI) / 2 == PI)
        by (rewrite (Q.min_r h (2 * PI)) by (apply Qlt_le_weak; exact L); field).
      assert (Hh : PI < h / 2) by (apply Qlt_shift_div_l; lra).
      assert (A : in_window (wrap_az PI a) (Qmin h (2 * PI) / 2) = true)
        by (apply in_window_iff; rewrite E; split; lra).
      assert (B : in_window (wrap_az PI a) (h / 2) = true)
        by (apply in_window_iff; split; lra).
      rewrite A, B. reflexivity.
    - rewrite (Qmin_l_eq _ _ L). reflexivity.
  Qed.

  Lemma in_window_alt_trunc : forall z v,
    in_window (asin z) (Qmin v PI / 2) = in_window (asin z) (v / 2).
  Proof.
    intros z v. destruct (asin_range z) as [A1 A2].
    destruct (Qlt_le_dec PI v) as [L|L].
    - assert (E : Qmin v PI / 2 == PI / 2)
        by (rewrite (Q.min_r v PI) by (apply Qlt_le_weak; exact L); reflexivity).
      assert (Hp : PI / 2 == PI * (1 # 2)) by field.
      assert (Hv : PI / 2 < v / 2) by (apply Qlt_shift_div_l; [lra | rewrite Hp; lra]).
      assert (A : in_window (asin z) (Qmin v PI / 2) = true)
        by (apply in_window_iff; rewrite E; split; lra).
      assert (B : in_window (asin z) (v / 2) = true)
        by (apply in_window_iff; split; lra).
      rewrite A, B. reflexivity.
    - rewrite (Qmin_l_eq _ _ L). reflexivity.
  Qed.

  Theorem point_visible_truncation_invariant : forall x c R d h v p occs,
    point_visible PI atan2 asin norm O odist hit x c R d
                  (fst (truncate_angles (2 * PI) PI (h, v))) (snd (truncate_angles (2 * PI) PI (h, v))) p occs =
    point_visible PI atan2 asin norm O odist hit x c R d h v p occs.
  Proof.
    intros. rewrite truncate_angles_is_spec. unfold truncate_spec. cbn [fst snd].
    unfold point_visible, point_az, point_alt.
    rewrite in_window_az_trunc, in_window_alt_trunc. reflexivity.
  Qed.
End TruncationView.

(* ------------------------------------------------------------------ occlusion filter *)
Section OcclusionOrder.
  Variable Ray : Type.
  Variable O : Type.
  Variable target_hits : Ray -> list Q.
  Variable occ_hits : O -> Ray -> list Q.
  Variable d : Q.

  Notation cands := (candidates Ray target_hits d).
  Notation blocked := (blocked_by Ray O occ_hits).
  Notation survivors := (batch_survivors Ray O target_hits occ_hits d).
  Notation visible := (rays_visible Ray O target_hits occ_hits d).
  Notation clear_of := (unblocked_by_all Ray O occ_hits).

  Lemma filter_all : forall (A : Type) (l : list A), filter (fun _ => true) l = l.
  Proof. induction l as [|a l IH]; cbn [filter]; [reflexivity | rewrite IH; reflexivity]. Qed.

  Lemma filter_twice : forall (A : Type) (p q : A -> bool) (l : list A),
    filter q (filter p l) = filter (fun x => p x && q x) l.
  Proof.
    induction l as [|a l IH]; cbn [filter]; [reflexivity|].
    destruct (p a) eqn:Ep; cbn [filter andb]; [destruct (q a)|]; rewrite IH; reflexivity.
  Qed.

  Lemma fold_filter_forallb : forall (occs : list O) (cs : list (Ray * Q)),
    fold_left (fun cs o => filter (fun c => negb (blocked o c)) cs) occs cs = filter (clear_of occs) cs.
  Proof.
    induction occs as [|o occs IH]; intro cs; cbn [fold_left].
    - unfold unblocked_by_all. cbn [forallb]. symmetry. apply filter_all.
    - rewrite IH, filter_twice. apply filter_ext. intro c. unfold unblocked_by_all. reflexivity.
  Qed.

  (* the sequential one-occluder-at-a-time loop IS the single filter "blocked by none of them" *)
  Theorem survivors_filter : forall batch occs,
    survivors batch occs = survivors_spec_list Ray O target_hits occ_hits d batch occs.
  Proof. intros. unfold batch_survivors, survivors_spec_list. apply fold_filter_forallb. Qed.

  Lemma forallb_perm : forall (A : Type) (f : A -> bool) (l l' : list A),
    Permutation l l' -> forallb f l = forallb f l'.
  Proof.
    intros A f l l' H. induction H; cbn [forallb].
    - reflexivity.
    - rewrite IHPermutation. reflexivity.
    - destruct (f x), (f y); reflexivity.
    - rewrite IHPermutation1. assumption.
  Qed.

  Theorem survivors_perm : forall batch occs occs',
    Permutation occs occs' -> survivors batch occs = survivors batch occs'.
  Proof.
    intros batch occs occs' H. rewrite !survivors_filter. unfold survivors_spec_list.
    apply filter_ext. intro c. unfold unblocked_by_all. apply forallb_perm. assumption.
  Qed.

  Theorem rays_visible_perm : forall batches occs occs',
    Permutation occs occs' -> visible batches occs = visible batches occs'.
  Proof.
    intros batches occs occs' H. unfold rays_visible.
    induction batches as [|b bs IH]; cbn [existsb]; [reflexivity|].
    rewrite (survivors_perm b occs occs' H), IH. reflexivity.
  Qed.

  (* the survivors of a list of occluders are the intersection of the per-occluder survivor sets *)
  Theorem survivors_intersection : forall batch occs c,
    In c (survivors batch occs) <->
    In c (cands batch) /\ forall o, In o occs -> In c (survivors batch [o]).
  Proof.
    intros batch occs c. rewrite survivors_filter. unfold survivors_spec_list.
    rewrite filter_In. unfold unblocked_by_all at 1. rewrite forallb_forall. split.
    - intros [Hc Hall]. split; [assumption|]. intros o Ho.
      rewrite survivors_filter. unfold survivors_spec_list, unblocked_by_all.
      apply filter_In. split; [assumption|]. cbn [forallb]. rewrite (Hall o Ho). reflexivity.
    - intros [Hc Hall]. split; [assumption|]. intros o Ho.
      specialize (Hall o Ho). rewrite survivors_filter in Hall.
      unfold survivors_spec_list, unblocked_by_all in Hall. apply filter_In in Hall.
      destruct Hall as [_ Hb]. cbn [forallb] in Hb. rewrite andb_true_r in Hb. assumption.
  Qed.

  (* duplicates and repetitions of occluders do not matter either *)
  Theorem rays_visible_same_set : forall batches occs occs',
    incl occs occs' -> incl occs' occs -> visible batches occs = visible batches occs'.
  Proof.
    intros batches occs occs' H1 H2.
    destruct (visible batches occs) eqn:E1, (visible batches occs') eqn:E2; try reflexivity.
    - rewrite <- E2. symmetry. apply (occlusion_monotone Ray O target_hits occ_hits d batches occs' occs H2 E1).
    - rewrite <- E1. apply (occlusion_monotone Ray O target_hits occ_hits d batches occs occs' H1 E2).
  Qed.
End OcclusionOrder.

(* two staggered half-walls: jointly they block everything, each alone does not, in both orders;
   the "last occluder only" and "first occluder only" disciplines get it wrong *)
Example two_partial_occluders :
  rays_visible nat nat toy_target_hits toy_occ_hits 10 [[0%nat; 1%nat]] [0%nat; 1%nat] = false /\
  rays_visible nat nat toy_target_hits toy_occ_hits 10 [[0%nat; 1%nat]] [1%nat; 0%nat] = false /\
  rays_visible nat nat toy_target_hits toy_occ_hits 10 [[0%nat; 1%nat]] [0%nat] = true /\
  rays_visible nat nat toy_target_hits toy_occ_hits 10 [[0%nat; 1%nat]] [1%nat] = true.
Proof. vm_compute. repeat split; reflexivity. Qed.

Theorem last_only_refuted : exists (batch : list nat) (occs : list nat),
  batch_survivors nat nat toy_target_hits toy_occ_hits 10 batch occs = [] /\
  survivors_last_only nat nat toy_target_hits toy_occ_hits 10 batch occs <> [].
Proof. exists [0%nat; 1%nat], [0%nat; 1%nat]. vm_compute. split; [reflexivity | discriminate]. Qed.

Theorem first_only_refuted : exists (batch : list nat) (occs : list nat),
  batch_survivors nat nat toy_target_hits toy_occ_hits 10 batch occs = [] /\
  survivors_first_only nat nat toy_target_hits toy_occ_hits 10 batch occs <> [].
Proof. exists [0%nat; 1%nat], [0%nat; 1%nat]. vm_compute. split; [reflexivity | discriminate]. Qed.
