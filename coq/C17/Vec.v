(* Minimal exact 3-vectors and 3x3 matrices over Q for the C17 visibility model.
   Definitions and the few algebraic facts the visibility proofs need (axiom-free). *)
From Coq Require Import QArith Lqa.
Open Scope Q_scope.

Record vec := V3 { vx : Q; vy : Q; vz : Q }.

Definition vsub (a b : vec) : vec := V3 (vx a - vx b) (vy a - vy b) (vz a - vz b).
Definition vadd (a b : vec) : vec := V3 (vx a + vx b) (vy a + vy b) (vz a + vz b).
Definition vscale (k : Q) (a : vec) : vec := V3 (k * vx a) (k * vy a) (k * vz a).
Definition dot (a b : vec) : Q := vx a * vx b + vy a * vy b + vz a * vz b.
Definition veq (a b : vec) : Prop := vx a == vx b /\ vy a == vy b /\ vz a == vz b.
Definition vzero : vec := V3 0 0 0.

(* rotation matrices by rows; [mapply m v] = m . v *)
Record mat := M3 { r0 : vec; r1 : vec; r2 : vec }.
Definition mapply (m : mat) (v : vec) : vec := V3 (dot (r0 m) v) (dot (r1 m) v) (dot (r2 m) v).
Definition mT (m : mat) : mat :=
  M3 (V3 (vx (r0 m)) (vx (r1 m)) (vx (r2 m)))
     (V3 (vy (r0 m)) (vy (r1 m)) (vy (r2 m)))
     (V3 (vz (r0 m)) (vz (r1 m)) (vz (r2 m))).

(* rows orthonormal: m . m^T = I *)
Definition orthogonal (m : mat) : Prop :=
  dot (r0 m) (r0 m) == 1 /\ dot (r1 m) (r1 m) == 1 /\ dot (r2 m) (r2 m) == 1 /\
  dot (r0 m) (r1 m) == 0 /\ dot (r0 m) (r2 m) == 0 /\ dot (r1 m) (r2 m) == 0.

Lemma veq_refl : forall a, veq a a.
Proof. intros; repeat split; reflexivity. Qed.

Lemma veq_sym : forall a b, veq a b -> veq b a.
Proof. intros a b (H1 & H2 & H3); repeat split; symmetry; assumption. Qed.

Lemma veq_trans : forall a b c, veq a b -> veq b c -> veq a c.
Proof.
  intros a b c (H1 & H2 & H3) (G1 & G2 & G3); repeat split;
    [rewrite H1 | rewrite H2 | rewrite H3]; assumption.
Qed.

Lemma dot_veq : forall a a' b b', veq a a' -> veq b b' -> dot a b == dot a' b'.
Proof.
  intros a a' b b' (H1 & H2 & H3) (G1 & G2 & G3). unfold dot.
  rewrite H1, H2, H3, G1, G2, G3. reflexivity.
Qed.

(* |m^T w|^2 = |w|^2 for an orthogonal m *)
Lemma mT_preserves_dot : forall m w, orthogonal m ->
  dot (mapply (mT m) w) (mapply (mT m) w) == dot w w.
Proof.
  intros [[a b c] [d e f] [g h i]] [x y z] (H1 & H2 & H3 & H4 & H5 & H6).
  unfold dot, mapply, mT in *; cbn [vx vy vz r0 r1 r2] in *.
  assert (E : (a*x+d*y+g*z)*(a*x+d*y+g*z) + (b*x+e*y+h*z)*(b*x+e*y+h*z) + (c*x+f*y+i*z)*(c*x+f*y+i*z)
     == x*x*(a*a+b*b+c*c) + y*y*(d*d+e*e+f*f) + z*z*(g*g+h*h+i*i)
        + 2*x*y*(a*d+b*e+c*f) + 2*x*z*(a*g+b*h+c*i) + 2*y*z*(d*g+e*h+f*i)) by ring.
  rewrite E, H1, H2, H3, H4, H5, H6. ring.
Qed.

(* m (m^T w) = w for an orthogonal m *)
Lemma m_mT_cancel : forall m w, orthogonal m -> veq (mapply m (mapply (mT m) w)) w.
Proof.
  intros [[a b c] [d e f] [g h i]] [x y z] (H1 & H2 & H3 & H4 & H5 & H6).
  unfold veq, dot, mapply, mT in *; cbn [vx vy vz r0 r1 r2] in *.
  repeat split.
  - assert (E : a*(a*x+d*y+g*z) + b*(b*x+e*y+h*z) + c*(c*x+f*y+i*z)
      == x*(a*a+b*b+c*c) + y*(a*d+b*e+c*f) + z*(a*g+b*h+c*i)) by ring.
    rewrite E, H1, H4, H5. ring.
  - assert (E : d*(a*x+d*y+g*z) + e*(b*x+e*y+h*z) + f*(c*x+f*y+i*z)
      == x*(a*d+b*e+c*f) + y*(d*d+e*e+f*f) + z*(d*g+e*h+f*i)) by ring.
    rewrite E, H2, H4, H6. ring.
  - assert (E : g*(a*x+d*y+g*z) + h*(b*x+e*y+h*z) + i*(c*x+f*y+i*z)
      == x*(a*g+b*h+c*i) + y*(d*g+e*h+f*i) + z*(g*g+h*h+i*i)) by ring.
    rewrite E, H3, H5, H6. ring.
Qed.

Lemma mapply_scale : forall m k w, veq (mapply m (vscale k w)) (vscale k (mapply m w)).
Proof.
  intros [[a b c] [d e f] [g h i]] k [x y z]. unfold veq, mapply, vscale, dot; cbn [vx vy vz r0 r1 r2].
  repeat split; ring.
Qed.

Lemma mapply_veq : forall m a b, veq a b -> veq (mapply m a) (mapply m b).
Proof.
  intros m a b H. unfold mapply. repeat split; cbn [vx vy vz]; apply dot_veq; auto using veq_refl.
Qed.

Lemma vscale_veq : forall k a b, veq a b -> veq (vscale k a) (vscale k b).
Proof.
  intros k a b (H1 & H2 & H3). unfold vscale; repeat split; cbn [vx vy vz];
    [rewrite H1 | rewrite H2 | rewrite H3]; reflexivity.
Qed.
