(* C17 — second part of the model of src/scenic/core/visibility.py `canSee` (object targets) and of the 2D
   fast path `_canSee2D` (object_types.py Point2D / OrientedPoint2D / Object2D, regions.py SectorRegion /
   CircularRegion, geometry.py viewAngleToPoint / normalizeAngle).
   DEFINITIONS ONLY (total, computable Gallina over Q); lemmas are in GridProofs.v.
     (a) vertex augmentation (altitude optimum on every mesh edge), spherical angles of the augmented
         vertices, `crosses` flags, and the windows computed from them  (`object_windows`);
     (c) the ray grid: rayDensity -> ray counts, np.linspace, altitude scaling of the azimuth count
         (`window_rays`, `object_rays`);
     (b) the 2D sector test (`can_see_2d`).
   atan2 / asin / norm / cos are oracle parameters as in Visibility.v. *)
From Coq Require Import QArith Qround Qabs Qminmax List Bool ZArith.
From Scenic Require Import C17.Vec C17.Visibility.
Import ListNotations.
Open Scope Q_scope.

(* ================================================================== (a) augmentation, flags, windows *)
Definition lerp (a b : vec) (t : Q) : vec := vadd a (vscale t (vsub b a)).

(* visibility.py: D, N, M of an edge (vec_1, vec_2); t = N / (N + M) is the only parameter at which the
   altitude along the edge can have a local optimum *)
Definition alt_D (a b : vec) : Q := vx a * vx b + vy a * vy b.
(* [Qred2] / [Qred] (x == Qred2 x == Qred x) only keep the fractions of the extracted model small: Qred2 cancels the
   common power of two of numerator and denominator in linear time (the inputs are binary floats) *)
Fixpoint strip2 (n d : positive) : positive * positive :=
  match n, d with
  | xO n', xO d' => strip2 n' d'
  | _, _ => (n, d)
  end.
Definition Qred2 (q : Q) : Q :=
  match Qnum q with
  | Z0 => 0
  | Zpos n => let (a, b) := strip2 n (Qden q) in Zpos a # b
  | Zneg n => let (a, b) := strip2 n (Qden q) in Zneg a # b
  end.
Definition alt_N (a b : vec) : Q :=
  Qred2 (Qred2 (vx a * vx a + vy a * vy a) * vz b - Qred2 (alt_D a b) * vz a).
Definition alt_M (a b : vec) : Q :=
  Qred2 (Qred2 (vx b * vx b + vy b * vy b) * vz a - Qred2 (alt_D a b) * vz b).

Definition edge_t (e : vec * vec) : option Q :=
  let (a, b) := e in
  let s := Qred2 (alt_N a b + alt_M a b) in
  if Qeq_bool s 0 then None                       (* inf / nan: both comparisons of the mask are False *)
  else let t := alt_N a b / s in
       if Qltb 0 t && Qltb t 1 then Some (Qred t) else None.

Definition edge_extra (e : vec * vec) : option vec :=
  match edge_t e with Some t => Some (lerp (fst e) (snd e) t) | None => None end.

Definition extras (edges : list (vec * vec)) : list vec :=
  fold_right (fun e acc => match edge_extra e with Some p => p :: acc | None => acc end) [] edges.

(* np.concatenate((target_vertices, interpolated_points)) *)
Definition augment (verts : list vec) (edges : list (vec * vec)) : list vec := verts ++ extras edges.

Section ObjectWindows.
  Variable PI : Q.
  Variable atan2 : Q -> Q -> Q.
  Variable asin : Q -> Q.
  Variable norm : vec -> Q.

  (* (azimuth relative to +y, altitude), both normalised with np.mod(. + pi, 2 pi) - pi *)
  Definition sph (w : vec) : Q * Q :=
    (Qred (wrap_az PI (atan2 (vy w) (vx w))),
     Qred (qmod (asin (vz w / norm w) + PI) (2 * PI) - PI)).

  (* [verts]/[edges]: the target's mesh vertices / edges already in the viewer frame *)
  Definition object_angles (verts : list vec) (edges : list (vec * vec)) : list (Q * Q) :=
    map sph (augment verts edges).

  Definition windows_of_angles (h v : Q) (edges : list (vec * vec)) (angs : list (Q * Q))
    : option (list window) :=
    let fl := crosses edges in
    match angs with
    | [] => None
    | a0 :: rest => view_windows PI h v (fst fl) (snd fl) a0 rest
    end.

  Definition object_windows (h v : Q) (verts : list vec) (edges : list (vec * vec))
    : option (list window) :=
    windows_of_angles h v edges (object_angles verts edges).
End ObjectWindows.

(* ================================================================== (c) the ray grid *)
(* np.linspace(lo, hi, n) *)
Definition linspace (lo hi : Q) (n : nat) : list Q :=
  match n with
  | O => []
  | S O => [lo]
  | S m => let lo' := Qred lo in
           let step := Qred ((hi - lo) / inject_Z (Z.of_nat m)) in
           map (fun i => lo' + inject_Z (Z.of_nat i) * step) (seq 0 n)
  end.

Definition ceil_nat (x : Q) : nat := Z.to_nat (Qceiling x).

(* rayCount is None: (degrees(h) * rayDensity, degrees(v) * rayDensity), times the distance to the target
   when distanceScaling is set ([dscale] = that distance, or 1) *)
Definition density_counts (PI h v dens dscale : Q) : Q * Q :=
  (h * 180 / PI * dens * dscale, v * 180 / PI * dens * dscale).

Section Grid.
  Variable cos : Q -> Q.
  Variable h v : Q.                (* viewAngles *)
  Variable rch rcv : Q.            (* rayCount *)
  Variable altscale : bool.        (* altitudeScaling: rayCount was None *)

  (* (azimuth, altitude) of every ray cast in one window; None = an `assert ..._size > 0` fails *)
  Definition window_rays (w : window) : option (list (Q * Q)) :=
    let hs := Qred (h_hi w - h_lo w) in
    let vs := Qred (v_hi w - v_lo w) in
    if negb (Qltb 0 hs) || negb (Qltb 0 vs) then None else
    let valts := linspace (v_lo w) (v_hi w) (ceil_nat (vs / v * rcv)) in
    Some (if altscale
          then flat_map (fun a =>
                  let nh := Z.to_nat (Z.max (Qceiling (cos a * hs / h * rch)) 1) in
                  map (fun az => (az, a)) (linspace (h_lo w) (h_hi w) nh)) valts
          else flat_map (fun az => map (fun a => (az, a)) valts)
                        (linspace (h_lo w) (h_hi w) (ceil_nat (hs / h * rch)))).

  Fixpoint object_rays (ws : list window) : option (list (Q * Q)) :=
    match ws with
    | [] => Some []
    | w :: rest => match window_rays w, object_rays rest with
                   | Some a, Some b => Some (a ++ b)
                   | _, _ => None
                   end
    end.
End Grid.

(* ================================================================== (b) 2D visibility *)
Section TwoD.
  Variable PI : Q.
  Variable atan2 : Q -> Q -> Q.
  Variable norm : vec -> Q.

  (* geometry.normalizeAngle: `while a > pi: a -= tau; while a < -pi: a += tau` *)
  Definition normalize_angle (a : Q) : Q :=
    if Qltb PI a then a - 2 * PI * inject_Z (Qceiling ((a - PI) / (2 * PI)))
    else if Qltb a (- PI) then a + 2 * PI * inject_Z (Qceiling ((- PI - a) / (2 * PI)))
    else a.

  (* geometry.viewAngleToPoint *)
  Definition view_angle_to_point (p base : vec) (heading : Q) : Q :=
    normalize_angle (atan2 (vy p - vy base) (vx p - vx base) - (heading + PI / 2)).

  (* SectorRegion.containsPoint (OrientedPoint2D / Object2D viewers; [c] = camera) *)
  Definition sector_contains (c : vec) (r heading angle : Q) (p : vec) : bool :=
    Qeq_bool (vz p) (vz c) &&
    Qle_bool (Qabs (view_angle_to_point p c heading)) (angle / 2) &&
    Qle_bool (norm (vsub p c)) r.

  (* CircularRegion.containsPoint (Point2D viewers) *)
  Definition disc_contains (c : vec) (r : Q) (p : vec) : bool :=
    Qeq_bool (vz p) (vz c) && Qle_bool (norm (vsub p c)) r.

  (* _canSee2D on a Vector / Point2D target *)
  Definition can_see_2d (oriented : bool) (c : vec) (r heading angle : Q) (p : vec) : bool :=
    if oriented then sector_contains c r heading angle p else disc_contains c r p.

  (* specification: same plane, within the radius, and the bearing of p seen from c is within angle/2 of
     the heading (angles modulo a full turn) *)
  Definition in_sector (c : vec) (r heading angle : Q) (p : vec) : Prop :=
    vz p == vz c /\
    dot (vsub p c) (vsub p c) <= r * r /\
    exists k : Z, Qabs (atan2 (vy p - vy c) (vx p - vx c) - (heading + PI / 2) + 2 * PI * inject_Z k) <= angle / 2.

  Definition in_disc (c : vec) (r : Q) (p : vec) : Prop :=
    vz p == vz c /\ dot (vsub p c) (vsub p c) <= r * r.

  (* signed margin to the sector's boundary (harness: skip cases within tolerance) *)
  Definition sector_margin (oriented : bool) (c : vec) (r heading angle : Q) (p : vec) : Q :=
    let dm := r - norm (vsub p c) in
    if oriented then Qmin dm (angle / 2 - Qabs (view_angle_to_point p c heading)) else dm.
End TwoD.
