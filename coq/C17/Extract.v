(* Extraction of the C17 model to OCaml (volume path of the correspondence check).
   Directives: ExtrOcamlBasic only; Z, positive, Q, nat stay the extracted inductive types.
   The oracles (atan2, asin, sqrt, ray/mesh hits) are function parameters supplied by the driver. *)
From Coq Require Import QArith List.
From Coq Require Extraction.
From Coq Require Import ExtrOcamlBasic.
From Scenic Require Import C17.Vec C17.Visibility C17.Grid C17.Angles.
Extraction Language OCaml.
Extraction "model.ml" point_visible point_margin point_az point_alt view_windows crosses rays_visible
  req_occluders op_occluders default_visibility_reqs
  augment sph edge_cross object_angles windows_of_angles object_windows object_rays density_counts can_see_2d sector_margin view_angle_to_point
  truncate_angles
  Qle_bool Qplus Qmult Qminus Qdiv Qred.
