(* C17 — model of Scenic's visibility test (src/scenic/core/visibility.py `canSee`, the wrappers in
   object_types.py, the occluder plumbing of requirements.py / veneer.py / scenarios.py).
   DEFINITIONS ONLY (total, computable Gallina over Q); lemmas are in VisibilityProofs.v.

   Transcendental functions never appear: the values of atan2 / asin / sqrt(hypot) enter as ORACLE
   functions (section variables; the extracted driver supplies libm's, the theorems state what they
   need of them as named hypotheses at the points used).  Ray/mesh intersection (trimesh) is an
   oracle too: a function from occluder and ray to the list of hit distances. *)
From Coq Require Import QArith Qround Qabs Qminmax List Bool ZArith.
From Scenic Require Import C17.Vec.
Import ListNotations.
Open Scope Q_scope.

(* ------------------------------------------------------------------ small helpers *)
Definition Qltb (a b : Q) : bool := negb (Qle_bool b a).
Definition qmod (x m : Q) : Q := x - m * inject_Z (Qfloor (x / m)).      (* np.mod for m > 0 *)
Definition clip (x lo hi : Q) : Q := Qmin (Qmax x lo) hi.                 (* np.clip *)
Definition in_window (a half : Q) : bool := Qle_bool (- half) a && Qle_bool a half.
Definition qmin_list (x : Q) (l : list Q) : Q := fold_right Qmin x l.
Definition qmax_list (x : Q) (l : list Q) : Q := fold_right Qmax x l.

(* ================================================================== (1) point visibility *)
Inductive xform := Old | Fixed.
(* Old   = visibility.py before the repair: the target's ABSOLUTE position is rotated into the viewer
           frame and the (unrotated) viewer position subtracted afterwards;
   Fixed = the repaired code (branch fix-C17-point-visibility-transform): the DIFFERENCE is rotated. *)

Definition local_vec (x : xform) (R : option mat) (c p : vec) : vec :=
  match R with
  | None => vsub p c
  | Some m => match x with
              | Old => vsub (mapply (mT m) p) c
              | Fixed => mapply (mT m) (vsub p c)
              end
  end.

Definition world_ray (R : option mat) (ray : vec) : vec :=
  match R with None => ray | Some m => mapply m ray end.

Section PointModel.
  Variable PI : Q.
  Variable atan2 : Q -> Q -> Q.        (* atan2 y x *)
  Variable asin : Q -> Q.
  Variable norm : vec -> Q.            (* hypot / np.linalg.norm *)
  Variable O : Type.                   (* occluding objects *)
  Variable odist : O -> Q.             (* position.distanceTo(obj) *)
  Variable hit : O -> vec -> list Q.   (* distances at which the world-frame ray from the viewer hits obj *)

  (* azimuth relative to the viewer's forward (+y) axis, normalised to [-pi, pi) as coded *)
  Definition wrap_az (a : Q) : Q := qmod (a - PI / 2 + PI) (2 * PI) - PI.

  Definition near_occluders (d : Q) (occs : list O) : list O :=
    filter (fun o => Qle_bool (odist o) d) occs.

  (* the single candidate ray in the viewer frame *)
  Definition point_ray (x : xform) (R : option mat) (c p : vec) : vec :=
    let tv := local_vec x R c p in vscale (/ norm tv) tv.

  Definition point_az (x : xform) (R : option mat) (c p : vec) : Q :=
    let ray := point_ray x R c p in wrap_az (atan2 (vy ray) (vx ray)).
  Definition point_alt (x : xform) (R : option mat) (c p : vec) : Q :=
    asin (vz (point_ray x R c p)).

  Definition ray_unblocked (td : Q) (wray : vec) (occs : list O) : bool :=
    forallb (fun o => forallb (fun hd => negb (Qle_bool hd td)) (hit o wray)) occs.

  Definition point_visible (x : xform) (c : vec) (R : option mat) (d h v : Q) (p : vec)
             (occs : list O) : bool :=
    let td := norm (vsub p c) in
    if negb (Qle_bool td d) then false else
    let az := point_az x R c p in
    let alt := point_alt x R c p in
    if negb (in_window az (h / 2)) || negb (in_window alt (v / 2)) then false else
    ray_unblocked td (world_ray R (point_ray x R c p)) (near_occluders d occs).

  (* signed margin to the boundary of the view volume (harness: skip cases within tolerance) *)
  Definition point_margin (x : xform) (c : vec) (R : option mat) (d h v : Q) (p : vec) : Q :=
    Qmin (d - norm (vsub p c))
         (Qmin (h / 2 - Qabs (point_az x R c p)) (v / 2 - Qabs (point_alt x R c p))).

  (* ---------------- specification: the view volume *)
  Definition is_norm (n : Q) (w : vec) : Prop := 0 <= n /\ n * n == dot w w.
  (* r is THE representative of angle a in [-pi, pi) *)
  Definition wrapped (a r : Q) : Prop :=
    - PI <= r /\ r < PI /\ exists k : Z, r == a + 2 * PI * inject_Z k.

  Definition view_local (R : option mat) (c p : vec) : vec :=
    match R with None => vsub p c | Some m => mapply (mT m) (vsub p c) end.

  Definition in_volume (c : vec) (R : option mat) (d h v : Q) (p : vec) : Prop :=
    let w := view_local R c p in
    dot (vsub p c) (vsub p c) <= d * d /\
    (exists az, wrapped (atan2 (vy w) (vx w) - PI / 2) az /\ - (h / 2) <= az /\ az <= h / 2) /\
    (exists n, 0 < n /\ is_norm n w /\ - (v / 2) <= asin (/ n * vz w) /\ asin (/ n * vz w) <= v / 2).

  (* line of sight: no occluder is hit at or before the target along the ray towards it *)
  Definition sight_clear (td : Q) (wray : vec) (occs : list O) : Prop :=
    forall o, In o occs -> forall hd, In hd (hit o wray) -> td < hd.
End PointModel.

(* ================================================================== (2) angular windows for objects *)
Record window := Win { h_lo : Q; h_hi : Q; v_lo : Q; v_hi : Q }.

Section Windows.
  Variable PI : Q.

  (* [angs] = (azimuth, altitude) of every (augmented) target vertex in the viewer frame, azimuth
     already relative to +y and normalised to [-pi,pi) as the code does; [ahead]/[behind] = the
     target's silhouette crosses the viewer's y axis ahead / behind.  None = "return False". *)
  Definition to_back (a : Q) : Q := if Qle_bool 0 a then a - PI else a + PI.

  Definition view_windows (h v : Q) (ahead behind : bool) (a0 : Q * Q) (angs : list (Q * Q))
    : option (list window) :=
    let azs := map fst angs in
    let alts := map snd angs in
    let vmin := qmin_list (snd a0) alts in
    let vmax := qmax_list (snd a0) alts in
    if Qltb (v / 2) vmin || Qltb vmax (- (v / 2)) then None else
    if ahead && behind then Some [Win (- (h / 2)) (h / 2) (- (v / 2)) (v / 2)]
    else if behind then
      let smin := qmin_list (to_back (fst a0)) (map to_back azs) in
      let smax := qmax_list (to_back (fst a0)) (map to_back azs) in
      let ov_lo := clip vmin (- (v / 2)) (v / 2) in
      let ov_hi := clip vmax (- (v / 2)) (v / 2) in
      let w1 := if Qltb PI (Qabs (- (h / 2)) + Qabs smax)
                then [Win (- (h / 2)) (- PI + smax) ov_lo ov_hi] else [] in
      let w2 := if Qltb PI (Qabs (h / 2) + Qabs smin)
                then [Win (PI + smin) (h / 2) ov_lo ov_hi] else [] in
      match w1 ++ w2 with [] => None | ws => Some ws end
    else
      let hmin := qmin_list (fst a0) azs in
      let hmax := qmax_list (fst a0) azs in
      if Qltb hmax (- (h / 2)) || Qltb (h / 2) hmin then None else
      Some [Win (clip hmin (- (h / 2)) (h / 2)) (clip hmax (- (h / 2)) (h / 2))
                (clip vmin (- (v / 2)) (v / 2)) (clip vmax (- (v / 2)) (v / 2))].

  Definition in_win (w : window) (az alt : Q) : Prop :=
    h_lo w <= az /\ az <= h_hi w /\ v_lo w <= alt /\ alt <= v_hi w.

  (* does an edge (in the viewer frame) cross the viewer's y axis, and where *)
  Definition edge_cross (e : vec * vec) : option Q :=
    let (a, b) := e in
    if Qeq_bool (vx b) 0 then None
    else if Qltb (vx a / vx b) 0
    then let t := (- vx a) / (vx b - vx a) in Some (t * (vy b - vy a) + vy a)
    else None.
  Definition crosses (edges : list (vec * vec)) : bool * bool :=
    let ys := fold_right (fun e acc => match edge_cross e with Some y => y :: acc | None => acc end) [] edges in
    (existsb (fun y => Qle_bool 0 y) ys, existsb (fun y => Qle_bool y 0) ys).
End Windows.

(* ================================================================== (3) rays and occlusion *)
Section Occlusion.
  Variable Ray : Type.
  Variable O : Type.
  Variable target_hits : Ray -> list Q.     (* distances at which the ray hits the target *)
  Variable occ_hits : O -> Ray -> list Q.   (* ... an occluder *)
  Variable d : Q.                           (* visibleDistance *)

  (* closest hit of the target within the visible distance *)
  Definition closest_within (hs : list Q) : option Q :=
    fold_left (fun acc hd => if negb (Qle_bool hd d) then acc else
                 match acc with None => Some hd
                           | Some m => if Qltb hd m then Some hd else Some m end) hs None.

  Definition candidates (batch : list Ray) : list (Ray * Q) :=
    fold_right (fun r acc => match closest_within (target_hits r) with
                             | Some td => (r, td) :: acc | None => acc end) [] batch.

  Definition blocked_by (o : O) (c : Ray * Q) : bool :=
    existsb (fun hd => Qle_bool hd (snd c)) (occ_hits o (fst c)).

  (* as coded: for each occluder in turn, remove the candidate rays it blocks *)
  Definition batch_survivors (batch : list Ray) (occs : list O) : list (Ray * Q) :=
    fold_left (fun cs o => filter (fun c => negb (blocked_by o c)) cs) occs (candidates batch).

  Definition rays_visible (batches : list (list Ray)) (occs : list O) : bool :=
    existsb (fun b => match batch_survivors b occs with [] => false | _ => true end) batches.

  (* specification *)
  Definition ray_clear (r : Ray) (occs : list O) : Prop :=
    exists td, closest_within (target_hits r) = Some td /\
               forall o, In o occs -> forall hd, In hd (occ_hits o r) -> td < hd.
End Occlusion.

(* ================================================================== (4) plumbing of occluder lists *)
Record sobj := SObj { oid : nat; occluding : bool }.

(* requirements.py VisibilityRequirement: __init__ drops source and target, falsifiedByInner keeps
   the occluding ones *)
Definition req_potential (objects : list sobj) (src tgt : nat) : list sobj :=
  filter (fun o => negb (Nat.eqb (oid o) src) && negb (Nat.eqb (oid o) tgt)) objects.
Definition req_occluders (objects : list sobj) (src tgt : nat) : list sobj :=
  filter occluding (req_potential objects src tgt).

(* veneer.py CanSee *)
Definition op_occluders (objects : list sobj) (x y : option nat) : list sobj :=
  let isnt (k : option nat) (o : sobj) := match k with Some n => negb (Nat.eqb (oid o) n) | None => true end in
  filter (fun o => occluding o && isnt x o && isnt y o) objects.

(* scenarios.py generateDefaultRequirements.  [iter_one_shot = true] is the code as it is: the
   `filter` iterator `possible_occluders` is shared, so only the first (non)visibility requirement
   built from it receives any object (F3, tracked under C02); false = materialised tuple. *)
Inductive vkind := MustSee | MustNotSee.
Record vreq := VReq { rk : vkind; rsrc : nat; rtgt : nat; rocc : list sobj }.

Fixpoint observer_reqs (one_shot : bool) (it : list sobj) (pairs : list (vkind * nat * nat)) : list vreq :=
  match pairs with
  | [] => []
  | (k, s, t) :: rest =>
      VReq k s t (req_occluders it s t) :: observer_reqs one_shot (if one_shot then [] else it) rest
  end.

Definition default_visibility_reqs (one_shot : bool) (objects : list sobj)
           (observing nonobserving : list (nat * nat)) (ego : nat) (require_visible : list nat) : list vreq :=
  observer_reqs one_shot (filter occluding objects)
     (map (fun st => (MustSee, fst st, snd st)) observing ++
      map (fun st => (MustNotSee, fst st, snd st)) nonobserving)
  ++ map (fun t => VReq MustSee ego t (req_occluders objects ego t)) require_visible.

(* ================================================================== concrete toy oracles
   (rational, scale-invariant stand-ins for atan2/asin; exact norms at the witness vectors) used only
   for the vm_compute witnesses and non-vacuity examples *)
Definition toyPI : Q := 4.
Definition toy_atan2 (y x : Q) : Q :=      (* "diamond angle" scaled so that a full turn is 8 = 2*toyPI *)
  if Qeq_bool x 0 && Qeq_bool y 0 then 0 else
  let s := Qabs x + Qabs y in
  if Qle_bool 0 y then (if Qle_bool 0 x then 2 * (y / s) else 2 + 2 * ((- x) / s))
  else (if Qle_bool 0 x then - (2 * ((- y) / s)) else - (2 + 2 * ((- x) / s))).
Definition toy_asin (z : Q) : Q := 2 * z.
Definition toy_norm (w : vec) : Q :=
  let s := dot w w in
  if Qeq_bool s 1 then 1 else if Qeq_bool s 25 then 5 else if Qeq_bool s 0 then 0 else s.
