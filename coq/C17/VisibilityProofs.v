(* C17 — lemmas about the visibility model (coq/C17/Visibility.v). *)
From Coq Require Import QArith Qround Qabs Qminmax List Bool ZArith Lia Lqa.
From Scenic Require Import C17.Vec C17.Visibility.
Import ListNotations.
Open Scope Q_scope.

(* ------------------------------------------------------------------ booleans <-> propositions *)
Lemma Qltb_true : forall a b, Qltb a b = true <-> a < b.
Proof.
  intros a b. unfold Qltb. rewrite negb_true_iff. split; intro H.
  - apply Qnot_le_lt. intro L. apply Qle_bool_iff in L. congruence.
  - destruct (Qle_bool b a) eqn:E; auto. apply Qle_bool_iff in E. exfalso. apply (Qlt_not_le _ _ H E).
Qed.

Lemma Qltb_false : forall a b, Qltb a b = false <-> b <= a.
Proof.
  intros a b. unfold Qltb. rewrite negb_false_iff. apply Qle_bool_iff.
Qed.

Lemma Qle_bool_false : forall a b, Qle_bool a b = false <-> b < a.
Proof.
  intros a b. split; intro H.
  - apply Qnot_le_lt. intro L. apply Qle_bool_iff in L. congruence.
  - destruct (Qle_bool a b) eqn:E; auto. apply Qle_bool_iff in E. exfalso. apply (Qlt_not_le _ _ H E).
Qed.

Lemma in_window_iff : forall a half, in_window a half = true <-> - half <= a /\ a <= half.
Proof.
  intros. unfold in_window. rewrite andb_true_iff, !Qle_bool_iff. tauto.
Qed.

(* ------------------------------------------------------------------ min / max / clip *)
Lemma qmin_list_le_default : forall l x, qmin_list x l <= x.
Proof.
  induction l as [|a l IH]; intro x; cbn [qmin_list fold_right].
  - apply Qle_refl.
  - eapply Qle_trans; [apply Q.le_min_r | apply IH].
Qed.

Lemma qmin_list_le : forall l x y, In y l -> qmin_list x l <= y.
Proof.
  induction l as [|a l IH]; intros x y H; [contradiction|].
  cbn [qmin_list fold_right]. destruct H as [->|H].
  - apply Q.le_min_l.
  - eapply Qle_trans; [apply Q.le_min_r | apply IH; exact H].
Qed.

Lemma qmax_list_ge_default : forall l x, x <= qmax_list x l.
Proof.
  induction l as [|a l IH]; intro x; cbn [qmax_list fold_right].
  - apply Qle_refl.
  - eapply Qle_trans; [apply IH | apply Q.le_max_r].
Qed.

Lemma qmax_list_ge : forall l x y, In y l -> y <= qmax_list x l.
Proof.
  induction l as [|a l IH]; intros x y H; [contradiction|].
  cbn [qmax_list fold_right]. destruct H as [->|H].
  - apply Q.le_max_l.
  - eapply Qle_trans; [apply IH; exact H | apply Q.le_max_r].
Qed.

Lemma clip_lo_le : forall m x lo hi, m <= x -> lo <= x -> clip m lo hi <= x.
Proof.
  intros. unfold clip. eapply Qle_trans; [apply Q.le_min_l|]. apply Q.max_lub; assumption.
Qed.

Lemma clip_hi_ge : forall M x lo hi, x <= M -> x <= hi -> x <= clip M lo hi.
Proof.
  intros M x lo hi H H0. unfold clip. apply Q.min_glb; [|exact H0].
  eapply Qle_trans; [exact H | apply Q.le_max_l].
Qed.

(* ================================================================== (3) occlusion as a filter *)
Section OcclusionProofs.
  Variables (Ray O : Type) (target_hits : Ray -> list Q) (occ_hits : O -> Ray -> list Q) (d : Q).

  Notation closest := (closest_within d).
  Notation cands := (candidates Ray target_hits d).
  Notation blocked := (blocked_by Ray O occ_hits).
  Notation survivors := (batch_survivors Ray O target_hits occ_hits d).
  Notation visible := (rays_visible Ray O target_hits occ_hits d).
  Notation clear := (ray_clear Ray O target_hits occ_hits d).

  Lemma filter_filter : forall (A : Type) (p q : A -> bool) l,
    filter p (filter q l) = filter (fun x => q x && p x) l.
  Proof.
    induction l as [|a l IH]; cbn; [reflexivity|].
    destruct (q a); cbn; [destruct (p a); cbn; rewrite IH; reflexivity | exact IH].
  Qed.

  Lemma fold_filter : forall (A B : Type) (f : B -> A -> bool) (os : list B) (cs : list A),
    fold_left (fun cs o => filter (f o) cs) os cs = filter (fun c => forallb (fun o => f o c) os) cs.
  Proof.
    induction os as [|o os IH]; intro cs; cbn [fold_left forallb].
    - induction cs as [|c cs IHc]; cbn; [reflexivity | f_equal; exact IHc].
    - rewrite IH. apply filter_filter.
  Qed.

  (* hit_within_distance: the recorded target distance is one of the hits and is within range *)
  Lemma closest_within_inv : forall hs acc td,
    fold_left (fun acc hd => if negb (Qle_bool hd d) then acc else
                 match acc with None => Some hd
                           | Some m => if Qltb hd m then Some hd else Some m end) hs acc = Some td ->
    acc = Some td \/ (In td hs /\ td <= d).
  Proof.
    induction hs as [|a hs IH]; intros acc td H; cbn [fold_left] in H.
    - left; exact H.
    - apply IH in H. destruct H as [H | [H1 H2]]; [| right; split; [right|]; assumption].
      destruct (Qle_bool a d) eqn:E; cbn [negb] in H; [| left; exact H].
      apply Qle_bool_iff in E.
      destruct acc as [m|].
      + destruct (Qltb a m); [inversion H; subst; right; split; [left; reflexivity | exact E] | left; exact H].
      + inversion H; subst. right; split; [left; reflexivity | exact E].
  Qed.

  Lemma hit_within_distance : forall hs td, closest hs = Some td -> In td hs /\ td <= d.
  Proof.
    intros hs td H. unfold closest_within in H. apply closest_within_inv in H.
    destruct H as [H|H]; [discriminate | exact H].
  Qed.

  Lemma candidates_spec : forall batch r td,
    In (r, td) (cands batch) <-> In r batch /\ closest (target_hits r) = Some td.
  Proof.
    induction batch as [|a batch IH]; intros r td; cbn [candidates fold_right].
    - split; [contradiction | intros [[] _]].
    - fold (cands batch). destruct (closest (target_hits a)) eqn:E.
      + cbn [In]. rewrite IH. split.
        * intros [H | [H1 H2]]; [inversion H; subst; split; [left; reflexivity | exact E] | split; [right|]; assumption].
        * intros [[->|H1] H2]; [left; congruence | right; split; assumption].
      + rewrite IH. split.
        * intros [H1 H2]; split; [right|]; assumption.
        * intros [[->|H1] H2]; [congruence | split; assumption].
  Qed.

  Lemma blocked_false : forall o r td,
    blocked o (r, td) = false <-> forall hd, In hd (occ_hits o r) -> td < hd.
  Proof.
    intros o r td. unfold blocked_by; cbn [fst snd]. split.
    - intros H hd Hin. apply Qle_bool_false.
      destruct (Qle_bool hd td) eqn:E; auto.
      assert (X : existsb (fun hd0 => Qle_bool hd0 td) (occ_hits o r) = true)
        by (apply existsb_exists; exists hd; split; assumption).
      congruence.
    - intro H. destruct (existsb _ _) eqn:E; auto.
      apply existsb_exists in E. destruct E as [hd [Hin L]]. apply Qle_bool_iff in L.
      exfalso. apply (Qlt_not_le _ _ (H hd Hin) L).
  Qed.

  Lemma survivors_spec : forall batch occs r td,
    In (r, td) (survivors batch occs) <->
    In r batch /\ closest (target_hits r) = Some td /\
    forall o, In o occs -> forall hd, In hd (occ_hits o r) -> td < hd.
  Proof.
    intros. unfold batch_survivors.
    rewrite (fold_filter _ _ (fun o c => negb (blocked o c))).
    rewrite filter_In, candidates_spec, forallb_forall. split.
    - intros [[H1 H2] H3]; repeat split; auto. intros o Ho. apply blocked_false.
      apply negb_true_iff. apply H3; exact Ho.
    - intros [H1 [H2 H3]]; repeat split; auto. intros o Ho. apply negb_true_iff.
      apply blocked_false. apply H3; exact Ho.
  Qed.

  (* the batched, one-occluder-at-a-time filtering decides exactly "some ray is clear" *)
  Theorem rays_visible_iff : forall batches occs,
    visible batches occs = true <-> exists b r, In b batches /\ In r b /\ clear r occs.
  Proof.
    intros. unfold rays_visible. rewrite existsb_exists. split.
    - intros [b [Hb H]]. destruct (survivors b occs) as [|[r td] rest] eqn:E; [discriminate|].
      assert (Hin : In (r, td) (survivors b occs)) by (rewrite E; left; reflexivity).
      apply survivors_spec in Hin. destruct Hin as [H1 [H2 H3]].
      exists b, r. repeat split; auto. exists td; split; assumption.
    - intros [b [r [Hb [Hr [td [H1 H2]]]]]]. exists b; split; [exact Hb|].
      assert (Hin : In (r, td) (survivors b occs)) by (apply survivors_spec; repeat split; assumption).
      destruct (survivors b occs); [contradiction | reflexivity].
  Qed.

  Theorem occlusion_monotone : forall batches occs occs',
    incl occs occs' -> visible batches occs' = true -> visible batches occs = true.
  Proof.
    intros batches occs occs' Hincl H. apply rays_visible_iff in H. apply rays_visible_iff.
    destruct H as [b [r [Hb [Hr [td [H1 H2]]]]]]. exists b, r. repeat split; auto.
    exists td; split; auto. intros o Ho. apply H2. apply Hincl; exact Ho.
  Qed.

  Theorem occluded_all_rays_not_visible : forall batches occs,
    (forall b r td, In b batches -> In r b -> closest (target_hits r) = Some td ->
        exists o hd, In o occs /\ In hd (occ_hits o r) /\ hd <= td) ->
    visible batches occs = false.
  Proof.
    intros batches occs H. destruct (visible batches occs) eqn:E; auto.
    apply rays_visible_iff in E. destruct E as [b [r [Hb [Hr [td [H1 H2]]]]]].
    destruct (H b r td Hb Hr H1) as [o [hd [Ho [Hhd L]]]].
    exfalso. apply (Qlt_not_le _ _ (H2 o Ho hd Hhd) L).
  Qed.

  (* nothing is seen unless some ray hits the target within the visible distance *)
  Theorem visible_needs_hit_in_range : forall batches occs,
    visible batches occs = true ->
    exists b r td, In b batches /\ In r b /\ In td (target_hits r) /\ td <= d.
  Proof.
    intros batches occs H. apply rays_visible_iff in H.
    destruct H as [b [r [Hb [Hr [td [H1 _]]]]]]. apply hit_within_distance in H1.
    exists b, r, td. tauto.
  Qed.
End OcclusionProofs.

(* ================================================================== (4) plumbing *)
Theorem req_occluders_exact : forall objects src tgt o,
  In o (req_occluders objects src tgt) <->
  In o objects /\ occluding o = true /\ oid o <> src /\ oid o <> tgt.
Proof.
  intros. unfold req_occluders, req_potential. rewrite !filter_In, andb_true_iff, !negb_true_iff, !Nat.eqb_neq.
  tauto.
Qed.

Theorem requirement_occluders_complete : forall objects src tgt o,
  In o objects -> occluding o = true -> oid o <> src -> oid o <> tgt ->
  In o (req_occluders objects src tgt).
Proof. intros. apply req_occluders_exact. tauto. Qed.

Theorem op_occluders_exact : forall objects x y o,
  In o (op_occluders objects x y) <->
  In o objects /\ occluding o = true /\ x <> Some (oid o) /\ y <> Some (oid o).
Proof.
  intros. unfold op_occluders. rewrite filter_In, !andb_true_iff.
  assert (A : forall k, (match k with Some n => negb (Nat.eqb (oid o) n) | None => true end) = true
                        <-> k <> Some (oid o)).
  { intros [n|]; [|split; [discriminate | reflexivity]].
    rewrite negb_true_iff, Nat.eqb_neq. split; [intros H E; inversion E; auto | intros H E; apply H; subst; reflexivity]. }
  rewrite !A. tauto.
Qed.

Lemma observer_reqs_complete : forall pairs it r o,
  In r (observer_reqs false it pairs) ->
  In o it -> occluding o = true -> oid o <> rsrc r -> oid o <> rtgt r -> In o (rocc r).
Proof.
  induction pairs as [|[[k s] t] rest IH]; intros it r o Hr Ho Hocc Hs Ht; [contradiction|].
  cbn [observer_reqs] in Hr. destruct Hr as [<-|Hr].
  - cbn [rocc rsrc rtgt] in *. apply req_occluders_exact. tauto.
  - eapply IH; eassumption.
Qed.

(* with a materialised occluder tuple every default (non)visibility requirement gets every occluding
   object other than its source and target *)
Theorem default_requirements_occluders_complete :
  forall objects observing nonobserving ego reqvis r o,
  In r (default_visibility_reqs false objects observing nonobserving ego reqvis) ->
  In o objects -> occluding o = true -> oid o <> rsrc r -> oid o <> rtgt r -> In o (rocc r).
Proof.
  intros until o. intros Hr Ho Hocc Hs Ht. unfold default_visibility_reqs in Hr.
  apply in_app_or in Hr. destruct Hr as [Hr|Hr].
  - eapply observer_reqs_complete; try eassumption. apply filter_In; split; assumption.
  - apply in_map_iff in Hr. destruct Hr as [t [<- _]]. cbn [rocc rsrc rtgt] in *.
    apply req_occluders_exact. tauto.
Qed.

(* F3 (tracked under C02): with the shared one-shot iterator the second requirement gets nothing *)
Theorem default_requirements_occluders_refuted :
  exists objects observing r o,
    In r (default_visibility_reqs true objects observing [] 0%nat []) /\
    In o objects /\ occluding o = true /\ oid o <> rsrc r /\ oid o <> rtgt r /\ ~ In o (rocc r).
Proof.
  exists [SObj 0 true; SObj 1 true; SObj 2 true; SObj 3 true], [(0, 1); (0, 2)]%nat,
         (VReq MustSee 0 2 []), (SObj 3 true).
  split; [cbn; right; left; reflexivity|].
  split; [cbn; tauto|]. split; [reflexivity|].
  split; [cbn; lia|]. split; [cbn; lia|]. cbn. tauto.
Qed.

(* ================================================================== (2) angular windows *)
Section WindowProofs.
  Variable PI : Q.
  Hypothesis PI_pos : 0 < PI.

  Lemma to_back_nonneg : forall a, 0 <= a -> to_back PI a == a - PI.
  Proof. intros a H. unfold to_back. apply Qle_bool_iff in H. rewrite H. reflexivity. Qed.
  Lemma to_back_neg : forall a, a < 0 -> to_back PI a == a + PI.
  Proof. intros a H. unfold to_back. apply Qle_bool_false in H. rewrite H. reflexivity. Qed.

  (* The window optimisation never discards a target vertex lying strictly inside the view cone:
     the function does not answer "not visible", and one of its windows contains the vertex. *)
  Theorem windows_cover : forall h v ahead behind a0 angs az alt,
    0 <= h / 2 -> h / 2 <= PI -> 0 <= v / 2 ->
    In (az, alt) (a0 :: angs) ->
    - (h / 2) < az -> az < h / 2 -> - (v / 2) <= alt -> alt <= v / 2 ->
    exists ws, view_windows PI h v ahead behind a0 angs = Some ws /\
               exists w, In w ws /\ in_win w az alt.
  Proof.
    intros h v ahead behind a0 angs az alt Hh0 HhPI Hv0 Hin Haz1 Haz2 Halt1 Halt2.
    set (hh := h / 2) in *. set (vh := v / 2) in *.
    assert (Hvmin : qmin_list (snd a0) (map snd angs) <= alt).
    { destruct Hin as [->|Hin]; [apply qmin_list_le_default|].
      apply qmin_list_le. change alt with (snd (az, alt)). apply in_map; exact Hin. }
    assert (Hvmax : alt <= qmax_list (snd a0) (map snd angs)).
    { destruct Hin as [->|Hin]; [apply qmax_list_ge_default|].
      apply qmax_list_ge. change alt with (snd (az, alt)). apply in_map; exact Hin. }
    assert (Hhmin : qmin_list (fst a0) (map fst angs) <= az).
    { destruct Hin as [->|Hin]; [apply qmin_list_le_default|].
      apply qmin_list_le. change az with (fst (az, alt)). apply in_map; exact Hin. }
    assert (Hhmax : az <= qmax_list (fst a0) (map fst angs)).
    { destruct Hin as [->|Hin]; [apply qmax_list_ge_default|].
      apply qmax_list_ge. change az with (fst (az, alt)). apply in_map; exact Hin. }
    assert (Hbmin : qmin_list (to_back PI (fst a0)) (map (to_back PI) (map fst angs)) <= to_back PI az).
    { destruct Hin as [->|Hin]; [apply qmin_list_le_default|].
      apply qmin_list_le. apply in_map. change az with (fst (az, alt)). apply in_map; exact Hin. }
    assert (Hbmax : to_back PI az <= qmax_list (to_back PI (fst a0)) (map (to_back PI) (map fst angs))).
    { destruct Hin as [->|Hin]; [apply qmax_list_ge_default|].
      apply qmax_list_ge. apply in_map. change az with (fst (az, alt)). apply in_map; exact Hin. }
    unfold view_windows. fold hh vh.
    set (vmin := qmin_list (snd a0) (map snd angs)) in *.
    set (vmax := qmax_list (snd a0) (map snd angs)) in *.
    set (hmin := qmin_list (fst a0) (map fst angs)) in *.
    set (hmax := qmax_list (fst a0) (map fst angs)) in *.
    set (smin := qmin_list (to_back PI (fst a0)) (map (to_back PI) (map fst angs))) in *.
    set (smax := qmax_list (to_back PI (fst a0)) (map (to_back PI) (map fst angs))) in *.
    assert (P1 : Qltb vh vmin = false) by (apply Qltb_false; lra).
    assert (P2 : Qltb vmax (- vh) = false) by (apply Qltb_false; lra).
    rewrite P1, P2. cbn [orb].
    assert (Vlo : clip vmin (- vh) vh <= alt) by (apply clip_lo_le; lra).
    assert (Vhi : alt <= clip vmax (- vh) vh) by (apply clip_hi_ge; lra).
    destruct (ahead && behind) eqn:Eab.
    { eexists; split; [reflexivity|]. eexists; split; [left; reflexivity|].
      unfold in_win; cbn [h_lo h_hi v_lo v_hi]. lra. }
    destruct behind.
    - (* behind only *)
      destruct (Qlt_le_dec az 0) as [Hneg|Hpos].
      + (* vertex on the right: first window *)
        pose proof (to_back_neg az Hneg) as Etb.
        assert (Hs : az + PI <= smax) by lra.
        assert (C1 : Qltb PI (Qabs (- hh) + Qabs smax) = true).
        { apply Qltb_true. rewrite (Qabs_neg (- hh)) by lra. rewrite (Qabs_pos smax) by lra. lra. }
        rewrite C1. cbn [app].
        eexists; split; [reflexivity|]. eexists; split; [left; reflexivity|].
        unfold in_win; cbn [h_lo h_hi v_lo v_hi]. lra.
      + (* vertex on the left: second window *)
        pose proof (to_back_nonneg az Hpos) as Etb.
        assert (Hs : smin <= az - PI) by lra.
        assert (C2 : Qltb PI (Qabs hh + Qabs smin) = true).
        { apply Qltb_true. rewrite (Qabs_pos hh) by lra. rewrite (Qabs_neg smin) by lra. lra. }
        rewrite C2.
        destruct (Qltb PI (Qabs (- hh) + Qabs smax)); cbn [app].
        * eexists; split; [reflexivity|]. eexists; split; [right; left; reflexivity|].
          unfold in_win; cbn [h_lo h_hi v_lo v_hi]. lra.
        * eexists; split; [reflexivity|]. eexists; split; [left; reflexivity|].
          unfold in_win; cbn [h_lo h_hi v_lo v_hi]. lra.
    - (* neither *)
      assert (Q1 : Qltb hmax (- hh) = false) by (apply Qltb_false; lra).
      assert (Q2 : Qltb hh hmin = false) by (apply Qltb_false; lra).
      rewrite Q1, Q2. cbn [orb].
      assert (Hlo : clip hmin (- hh) hh <= az) by (apply clip_lo_le; lra).
      assert (Hhi : az <= clip hmax (- hh) hh) by (apply clip_hi_ge; lra).
      eexists; split; [reflexivity|]. eexists; split; [left; reflexivity|].
      unfold in_win; cbn [h_lo h_hi v_lo v_hi]. lra.
  Qed.

  (* hence: when the window computation says "cannot be visible", no vertex is strictly inside *)
  Corollary windows_none_sound : forall h v ahead behind a0 angs,
    0 <= h / 2 -> h / 2 <= PI -> 0 <= v / 2 ->
    view_windows PI h v ahead behind a0 angs = None ->
    forall az alt, In (az, alt) (a0 :: angs) ->
      ~ (- (h / 2) < az /\ az < h / 2 /\ - (v / 2) <= alt /\ alt <= v / 2).
  Proof.
    intros h v ahead behind a0 angs H1 H2 H3 HN az alt Hin (A & B & C & D).
    destruct (windows_cover h v ahead behind a0 angs az alt H1 H2 H3 Hin A B C D) as [ws [E _]].
    congruence.
  Qed.

  (* every window lies inside the viewer's angular range: rays are only cast inside the view cone *)
  Theorem windows_inside_view : forall h v ahead behind a0 angs ws w,
    0 <= h / 2 -> 0 <= v / 2 ->
    view_windows PI h v ahead behind a0 angs = Some ws -> In w ws ->
    - (h / 2) <= h_lo w /\ h_hi w <= h / 2 /\ - (v / 2) <= v_lo w /\ v_hi w <= v / 2 \/
    (* behind-only windows are clipped on the outer side only; their inner bound is where the
       silhouette ends *)
    (behind = true /\ ahead = false /\ - (v / 2) <= v_lo w /\ v_hi w <= v / 2 /\
     (h_lo w == - (h / 2) \/ h_hi w == h / 2)).
  Proof.
    intros h v ahead behind a0 angs ws w Hh Hv E Hin. unfold view_windows in E.
    set (hh := h / 2) in *. set (vh := v / 2) in *.
    destruct (Qltb vh _ || Qltb _ (- vh)); [discriminate|].
    assert (CL : forall x, - vh <= clip x (- vh) vh /\ clip x (- vh) vh <= vh).
    { intro x. unfold clip. split; [apply Q.min_glb; [eapply Qle_trans; [|apply Q.le_max_r]; lra | lra] | apply Q.le_min_r]. }
    assert (CH : forall x, - hh <= clip x (- hh) hh /\ clip x (- hh) hh <= hh).
    { intro x. unfold clip. split; [apply Q.min_glb; [eapply Qle_trans; [|apply Q.le_max_r]; lra | lra] | apply Q.le_min_r]. }
    destruct (ahead && behind) eqn:Eab.
    { inversion E; subst. destruct Hin as [<-|[]]. left; cbn [h_lo h_hi v_lo v_hi]. lra. }
    destruct behind.
    - right. destruct ahead; [discriminate|].
      split; [reflexivity|]. split; [reflexivity|].
      destruct (Qltb PI (Qabs (- hh) + Qabs _)); destruct (Qltb PI (Qabs hh + Qabs _)); cbn [app] in E;
        try discriminate; inversion E; subst; cbn [In] in Hin;
        repeat (destruct Hin as [<-|Hin]; [cbn [h_lo h_hi v_lo v_hi];
          pose proof (CL (qmin_list (snd a0) (map snd angs)));
          pose proof (CL (qmax_list (snd a0) (map snd angs)));
          repeat split; try tauto; (left; reflexivity) || (right; reflexivity) |]); contradiction.
    - left. destruct (Qltb _ (- hh) || Qltb hh _); [discriminate|]. inversion E; subst.
      destruct Hin as [<-|[]]. cbn [h_lo h_hi v_lo v_hi].
      pose proof (CL (qmin_list (snd a0) (map snd angs))).
      pose proof (CL (qmax_list (snd a0) (map snd angs))).
      pose proof (CH (qmin_list (fst a0) (map fst angs))).
      pose proof (CH (qmax_list (fst a0) (map fst angs))). tauto.
  Qed.
End WindowProofs.

(* ================================================================== (1) point visibility *)
Lemma qmod_range : forall x m, 0 < m -> 0 <= qmod x m /\ qmod x m < m.
Proof.
  intros x m Hm. unfold qmod.
  pose proof (Qfloor_le (x / m)) as H1. pose proof (Qlt_floor (x / m)) as H2.
  rewrite inject_Z_plus in H2.
  set (f := inject_Z (Qfloor (x / m))) in *.
  assert (E : x == m * (x / m)) by (field; intro Z; rewrite Z in Hm; apply (Qlt_irrefl _ Hm)).
  set (q := x / m) in *.
  assert (A : 0 <= m * (q - f)) by (apply Qmult_le_0_compat; lra).
  assert (B : m * (q - f) < m * 1) by (apply Qmult_lt_l; [exact Hm | change (inject_Z 1) with 1 in H2; lra]).
  split; lra.
Qed.

Section PointProofs.
  Variable PI : Q.
  Variable atan2 : Q -> Q -> Q.
  Variable asin : Q -> Q.
  Variable norm : vec -> Q.
  Hypothesis PI_pos : 0 < PI.

  Notation wrap := (wrap_az PI).
  Notation wrapd := (wrapped PI).

  Lemma wrap_az_wrapped : forall a, wrapd (a - PI / 2) (wrap a).
  Proof.
    intro a. unfold wrapped, wrap_az.
    assert (M : 0 < 2 * PI) by lra.
    destruct (qmod_range (a - PI / 2 + PI) (2 * PI) M) as [R1 R2].
    repeat split; try lra.
    exists (- Qfloor ((a - PI / 2 + PI) / (2 * PI)))%Z. unfold qmod. rewrite inject_Z_opp. ring.
  Qed.

  Lemma wrapped_unique : forall a r1 r2, wrapd a r1 -> wrapd a r2 -> r1 == r2.
  Proof.
    intros a r1 r2 (A1 & A2 & k1 & E1) (B1 & B2 & k2 & E2).
    destruct (Z.lt_trichotomy k1 k2) as [L | [-> | L]].
    - exfalso. assert (L' : (k1 + 1 <= k2)%Z) by lia. rewrite Zle_Qle, inject_Z_plus in L'.
      change (inject_Z 1) with 1 in L'.
      assert (P : 0 <= (2 * PI) * (inject_Z k2 - inject_Z k1 - 1)) by (apply Qmult_le_0_compat; lra).
      lra.
    - rewrite E1, E2. reflexivity.
    - exfalso. assert (L' : (k2 + 1 <= k1)%Z) by lia. rewrite Zle_Qle, inject_Z_plus in L'.
      change (inject_Z 1) with 1 in L'.
      assert (P : 0 <= (2 * PI) * (inject_Z k1 - inject_Z k2 - 1)) by (apply Qmult_le_0_compat; lra).
      lra.
  Qed.

  Lemma wrapped_eq : forall a a' r, a == a' -> wrapd a r -> wrapd a' r.
  Proof.
    intros a a' r E (A & B & k & Ek). repeat split; auto. exists k. rewrite <- E. exact Ek.
  Qed.

  Lemma is_norm_unique : forall n n' w, 0 < n -> 0 < n' -> is_norm n w -> is_norm n' w -> n == n'.
  Proof.
    intros n n' w P P' [_ E] [_ E'].
    assert (Z : (n - n') * (n + n') == 0) by (ring_simplify; rewrite <- E' in E; lra).
    apply Qmult_integral in Z. destruct Z; lra.
  Qed.

  Lemma sq_le : forall a b, 0 <= a -> 0 <= b -> (a <= b <-> a * a <= b * b).
  Proof.
    intros a b Ha Hb. split; intro H.
    - nra.
    - apply Qnot_lt_le. intro L. nra.
  Qed.

  Variable O : Type.
  Variable odist : O -> Q.
  Variable hit : O -> vec -> list Q.

  Notation pvis := (point_visible PI atan2 asin norm O odist hit).
  Notation involume := (in_volume PI atan2 asin).

  Hypothesis atan2_scale : forall k y x, 0 < k -> atan2 (k * y) (k * x) == atan2 y x.
  Hypothesis asin_proper : forall a b, a == b -> asin a == asin b.

  Lemma local_fixed_is_view_local : forall R c p, local_vec Fixed R c p = view_local R c p.
  Proof. intros [m|] c p; reflexivity. Qed.

  (* With nothing occluding, the repaired point test decides exactly membership in the view volume.
     The sqrt oracle is assumed exact at the two vectors it is applied to, and the target distinct
     from the camera position. *)
  Theorem point_visible_iff_in_volume : forall c R d h v p,
    0 <= d ->
    is_norm (norm (vsub p c)) (vsub p c) ->
    is_norm (norm (view_local R c p)) (view_local R c p) -> 0 < norm (view_local R c p) ->
    (pvis Fixed c R d h v p [] = true <-> involume c R d h v p).
  Proof.
    intros c R d h v p Hd [N1 N1e] HN2 Npos.
    unfold point_visible, in_volume, point_az, point_alt, point_ray.
    rewrite local_fixed_is_view_local.
    set (w := view_local R c p) in *. set (n := norm w) in *.
    cbn [near_occluders filter ray_unblocked forallb vscale vx vy vz].
    assert (Kpos : 0 < / n) by (apply Qinv_lt_0_compat; exact Npos).
    pose proof (wrap_az_wrapped (atan2 (/ n * vy w) (/ n * vx w))) as W.
    apply (wrapped_eq _ (atan2 (vy w) (vx w) - PI / 2)) in W;
      [| rewrite (atan2_scale (/ n) (vy w) (vx w) Kpos); reflexivity].
    set (az := wrap (atan2 (/ n * vy w) (/ n * vx w))) in *.
    split.
    - intro H.
      destruct (Qle_bool (norm (vsub p c)) d) eqn:Ed; cbn [negb] in H; [|discriminate].
      apply Qle_bool_iff in Ed.
      destruct (in_window az (h / 2)) eqn:Ea; cbn [negb orb] in H; [|discriminate].
      destruct (in_window (asin (/ n * vz w)) (v / 2)) eqn:Eb; cbn [negb] in H; [|discriminate].
      apply in_window_iff in Ea. apply in_window_iff in Eb.
      split; [| split].
      + rewrite <- N1e. apply (proj1 (sq_le _ _ N1 Hd)). exact Ed.
      + exists az. tauto.
      + exists n. tauto.
    - intros [D [[az' [Waz [A1 A2]]] [n' [Pn' [Nn' [B1 B2]]]]]].
      assert (Ed : Qle_bool (norm (vsub p c)) d = true).
      { apply Qle_bool_iff. apply (proj2 (sq_le _ _ N1 Hd)). rewrite N1e. exact D. }
      rewrite Ed. cbn [negb].
      assert (Eaz : az == az') by (eapply wrapped_unique; eassumption).
      assert (Ea : in_window az (h / 2) = true) by (apply in_window_iff; rewrite Eaz; tauto).
      rewrite Ea. cbn [negb orb].
      assert (En : n == n') by (eapply is_norm_unique; eassumption).
      assert (Eas : asin (/ n * vz w) == asin (/ n' * vz w)) by (apply asin_proper; rewrite En; reflexivity).
      assert (Eb : in_window (asin (/ n * vz w)) (v / 2) = true) by (apply in_window_iff; rewrite Eas; tauto).
      rewrite Eb. reflexivity.
  Qed.

  (* the ray tested for occlusion points from the camera to the target (repaired code) *)
  Theorem fixed_ray_points_at_target : forall m c p, orthogonal m ->
    veq (world_ray (Some m) (point_ray norm Fixed (Some m) c p))
        (vscale (/ norm (view_local (Some m) c p)) (vsub p c)).
  Proof.
    intros m c p Ho. unfold world_ray, point_ray. rewrite local_fixed_is_view_local.
    cbn [view_local].
    eapply veq_trans; [apply mapply_scale|]. apply vscale_veq. apply m_mT_cancel; exact Ho.
  Qed.

  (* the rotation does not change the length: one sqrt value serves both tests *)
  Theorem local_norm_is_distance : forall m c p n, orthogonal m ->
    is_norm n (vsub p c) -> is_norm n (view_local (Some m) c p).
  Proof.
    intros m c p n Ho [A B]. split; [exact A|]. cbn [view_local].
    rewrite mT_preserves_dot; assumption.
  Qed.

  (* the old transform coincides with the repaired one exactly where the test-suite looks:
     unrotated viewers and viewers at the origin *)
  Theorem old_agrees_unrotated : forall c p, local_vec Old None c p = local_vec Fixed None c p.
  Proof. reflexivity. Qed.

  Theorem old_agrees_at_origin : forall R c p, veq c vzero ->
    veq (local_vec Old R c p) (local_vec Fixed R c p).
  Proof.
    intros [[[a b c0] [d e f] [g h i]]|] [cx cy cz] [x y z] (H1 & H2 & H3); [|apply veq_refl].
    unfold vzero, veq, local_vec, mapply, mT, vsub, dot in *; cbn [vx vy vz r0 r1 r2] in *.
    rewrite H1, H2, H3. repeat split; ring.
  Qed.

  (* ---------------- occlusion of the single ray *)
  Notation unblocked := (ray_unblocked O hit).
  Notation clear := (sight_clear O hit).

  Lemma ray_unblocked_iff : forall td wray occs, unblocked td wray occs = true <-> clear td wray occs.
  Proof.
    intros. unfold ray_unblocked, sight_clear. rewrite forallb_forall. split.
    - intros H o Ho hd Hhd. specialize (H o Ho). rewrite forallb_forall in H. specialize (H hd Hhd).
      apply negb_true_iff in H. apply Qle_bool_false in H. exact H.
    - intros H o Ho. apply forallb_forall. intros hd Hhd. apply negb_true_iff. apply Qle_bool_false.
      apply (H o Ho hd Hhd).
  Qed.

  Theorem point_visible_occluders : forall x c R d h v p occs,
    pvis x c R d h v p occs = true <->
    pvis x c R d h v p [] = true /\
    clear (norm (vsub p c)) (world_ray R (point_ray norm x R c p)) (near_occluders O odist d occs).
  Proof.
    intros. unfold point_visible.
    destruct (negb (Qle_bool (norm (vsub p c)) d)); [split; [discriminate | intros [? _]; discriminate]|].
    destruct (negb (in_window _ (h / 2)) || negb (in_window _ (v / 2))); [split; [discriminate | intros [? _]; discriminate]|].
    rewrite ray_unblocked_iff. cbn [near_occluders filter ray_unblocked forallb]. tauto.
  Qed.

  Theorem point_occlusion_monotone : forall x c R d h v p occs occs',
    incl occs occs' -> pvis x c R d h v p occs' = true -> pvis x c R d h v p occs = true.
  Proof.
    intros x c R d h v p occs occs' Hincl H. apply point_visible_occluders in H.
    apply point_visible_occluders. destruct H as [H1 H2]. split; [exact H1|].
    intros o Ho. apply H2. unfold near_occluders in *. apply filter_In in Ho. apply filter_In.
    destruct Ho; split; auto.
  Qed.

  Theorem point_blocked_not_visible : forall x c R d h v p occs o hd,
    In o occs -> odist o <= d ->
    In hd (hit o (world_ray R (point_ray norm x R c p))) -> hd <= norm (vsub p c) ->
    pvis x c R d h v p occs = false.
  Proof.
    intros x c R d h v p occs o hd Ho Hd Hhd L.
    destruct (pvis x c R d h v p occs) eqn:E; auto.
    apply point_visible_occluders in E. destruct E as [_ E].
    assert (Hn : In o (near_occluders O odist d occs)) by (apply filter_In; split; [exact Ho | apply Qle_bool_iff; exact Hd]).
    exfalso. apply (Qlt_not_le _ _ (E o Hn hd Hhd) L).
  Qed.

  (* dropping occluders farther away than the visible distance loses nothing, provided no object is
     hit closer than its own distance from the viewer (named hypothesis on the two oracles) *)
  Theorem far_occluders_irrelevant : forall td wray d occs,
    (forall o hd, In hd (hit o wray) -> odist o <= hd) -> td <= d ->
    (clear td wray (near_occluders O odist d occs) <-> clear td wray occs).
  Proof.
    intros td wray d occs Hh Htd. unfold sight_clear, near_occluders. split.
    - intros H o Ho hd Hhd. destruct (Qle_bool (odist o) d) eqn:E.
      + apply (H o); [apply filter_In; split; assumption | exact Hhd].
      + apply Qle_bool_false in E. specialize (Hh o hd Hhd). lra.
    - intros H o Ho. apply filter_In in Ho. apply H. tauto.
  Qed.
End PointProofs.

(* ================================================================== F14: the old transform is wrong *)
(* viewer at (4,0,0) facing 90 deg (yaw about z), target (3,0,0): straight ahead at distance 1.
   Any oracles that are right on these two vectors (norms 1 and 5; the forward direction has
   azimuth 0, altitude 0; direction (-4/5,-3/5,0) is outside a window of half-width < pi/2) give
   "visible" for the repaired transform and "not visible" for the old one. *)
Definition rotz90 : mat := M3 (V3 0 (-1) 0) (V3 1 0 0) (V3 0 0 1).
Definition f14_c : vec := V3 4 0 0.
Definition f14_p : vec := V3 3 0 0.

Theorem point_visible_old_refuted :
  exists c R d h v p,
    orthogonal R /\
    veq (local_vec Fixed (Some R) c p) (V3 0 1 0) /\     (* straight ahead, one unit away *)
    veq (local_vec Old (Some R) c p) (V3 (-4) (-3) 0) /\ (* what the old code looks at *)
    point_visible toyPI toy_atan2 toy_asin toy_norm unit (fun _ => 0) (fun _ _ => []) Fixed c (Some R) d h v p [] = true /\
    point_visible toyPI toy_atan2 toy_asin toy_norm unit (fun _ => 0) (fun _ _ => []) Old c (Some R) d h v p [] = false.
Proof.
  exists f14_c, rotz90, 50, (toyPI / 3), (toyPI / 3), f14_p.
  split; [|split; [|split; [|split]]].
  - unfold orthogonal, rotz90, dot; cbn [vx vy vz r0 r1 r2]. repeat split; reflexivity.
  - unfold veq; vm_compute. repeat split; reflexivity.
  - unfold veq; vm_compute. repeat split; reflexivity.
  - vm_compute. reflexivity.
  - vm_compute. reflexivity.
Qed.

(* the toy oracles satisfy the hypotheses of [point_visible_iff_in_volume] (non-vacuity) *)
Example toy_hypotheses_satisfiable :
  0 < toyPI /\
  is_norm (toy_norm (vsub f14_p f14_c)) (vsub f14_p f14_c) /\
  is_norm (toy_norm (view_local (Some rotz90) f14_c f14_p)) (view_local (Some rotz90) f14_c f14_p) /\
  0 < toy_norm (view_local (Some rotz90) f14_c f14_p) /\
  (forall a b, a == b -> toy_asin a == toy_asin b).
Proof.
  repeat split; try (vm_compute; congruence).
  intros a b E. unfold toy_asin. rewrite E. reflexivity.
Qed.
