(* C17 — lemmas about coq/C17/Grid.v: vertex augmentation and `crosses` flags, the ray grid, 2D visibility. *)
From Coq Require Import QArith Qround Qabs Qminmax List Bool ZArith Lia Lqa.
From Scenic Require Import C17.Vec C17.Visibility C17.VisibilityProofs C17.Grid.
Import ListNotations.
Open Scope Q_scope.

Lemma strip2_correct : forall n d n' d', strip2 n d = (n', d') -> (Zpos n * Zpos d' = Zpos n' * Zpos d)%Z.
Proof.
  induction n as [n IH|n IH|]; intros d n' d' H; cbn [strip2] in H; try (inversion H; subst; reflexivity).
  destruct d as [d|d|]; try (inversion H; subst; reflexivity).
  specialize (IH d n' d' H). rewrite (Pos2Z.inj_xO n), (Pos2Z.inj_xO d). nia.
Qed.

Lemma Qred2_correct : forall q, Qred2 q == q.
Proof.
  intros [[|n|n] d]; unfold Qred2; cbn [Qnum Qden].
  - reflexivity.
  - destruct (strip2 n d) as [a b] eqn:E. apply strip2_correct in E. unfold Qeq. cbn [Qnum Qden]. lia.
  - destruct (strip2 n d) as [a b] eqn:E. apply strip2_correct in E. unfold Qeq. cbn [Qnum Qden].
    rewrite <- !Pos2Z.opp_pos. lia.
Qed.

(* ================================================================== (a) crosses flags *)
(* the y coordinate at which the segment a->b meets the plane x = 0, as coded *)
Lemma edge_cross_some : forall a b,
  vx a * vx b < 0 ->
  edge_cross (a, b) = Some ((- vx a) / (vx b - vx a) * (vy b - vy a) + vy a).
Proof.
  intros a b H. unfold edge_cross.
  assert (Hb : ~ vx b == 0) by (intro E; rewrite E in H; lra).
  destruct (Qeq_bool (vx b) 0) eqn:E0; [apply Qeq_bool_iff in E0; contradiction|].
  assert (Hr : vx a / vx b < 0).
  { assert (Hsq : 0 < vx b * vx b) by nra.
    assert (Hinv : 0 < / (vx b * vx b)) by (apply Qinv_lt_0_compat; exact Hsq).
    assert (E : vx a / vx b == (vx a * vx b) * / (vx b * vx b)) by (field; exact Hb).
    rewrite E. nra. }
  apply Qltb_true in Hr. rewrite Hr. reflexivity.
Qed.

Lemma crosses_In : forall edges e y,
  In e edges -> edge_cross e = Some y ->
  (0 <= y -> fst (crosses edges) = true) /\ (y <= 0 -> snd (crosses edges) = true).
Proof.
  intros edges e y Hin He. unfold crosses. cbn [fst snd].
  set (ys := fold_right _ [] edges).
  assert (Hy : In y ys).
  { subst ys. induction edges as [|e' es IH]; [contradiction|].
    cbn [fold_right]. destruct Hin as [->|Hin].
    - rewrite He. left; reflexivity.
    - destruct (edge_cross e'); [right|]; apply IH; exact Hin. }
  split; intro H; apply existsb_exists; exists y; split; try exact Hy; apply Qle_bool_iff; exact H.
Qed.

(* soundness of the flags: if a point of an edge properly crossing the viewer's x = 0 plane has y <= 0
   (resp. y >= 0), i.e. the edge passes behind (ahead of) the viewer, the flag is set *)
Theorem crosses_flags_sound : forall edges a b t,
  In (a, b) edges -> vx a * vx b < 0 ->
  vx (lerp a b t) == 0 ->
  (vy (lerp a b t) <= 0 -> snd (crosses edges) = true) /\
  (0 <= vy (lerp a b t) -> fst (crosses edges) = true).
Proof.
  intros edges a b t Hin Hx H0.
  pose proof (edge_cross_some a b Hx) as Hc.
  destruct (crosses_In edges (a, b) _ Hin Hc) as [Ha Hb].
  assert (Hne : ~ vx b - vx a == 0) by (intro E; assert (vx b == vx a) by lra; nra).
  assert (Ht : t == (- vx a) / (vx b - vx a)).
  { unfold lerp in H0. cbn [vx vadd vscale vsub] in H0. field_simplify_eq; [|exact Hne]. lra. }
  assert (Hy : vy (lerp a b t) == (- vx a) / (vx b - vx a) * (vy b - vy a) + vy a).
  { unfold lerp. cbn [vy vadd vscale vsub]. rewrite Ht. ring. }
  split; intro H; [apply Hb | apply Ha]; rewrite <- Hy; exact H.
Qed.

(* ================================================================== (a) vertex augmentation *)
(* every interpolated point lies strictly inside one of the mesh edges, at the parameter of the code *)
Lemma edge_t_spec : forall a b t, edge_t (a, b) = Some t ->
  0 < t /\ t < 1 /\ ~ alt_N a b + alt_M a b == 0 /\ t == alt_N a b / (alt_N a b + alt_M a b).
Proof.
  intros a b t H. unfold edge_t in H.
  destruct (Qeq_bool (Qred2 (alt_N a b + alt_M a b)) 0) eqn:E0; [discriminate|].
  destruct (Qltb 0 _ && Qltb _ 1) eqn:E1; [|discriminate].
  assert (Ht : t = Qred (alt_N a b / Qred2 (alt_N a b + alt_M a b))) by congruence. clear H.
  apply andb_true_iff in E1 as [A B]. apply Qltb_true in A. apply Qltb_true in B.
  assert (Et : t == alt_N a b / (alt_N a b + alt_M a b)).
  { rewrite Ht, Qred_correct, Qred2_correct. reflexivity. }
  rewrite Qred2_correct in A, B. rewrite <- Et in A, B.
  split; [exact A|]. split; [exact B|]. split; [|exact Et].
  intro E. apply Qeq_bool_neq in E0. apply E0. rewrite Qred2_correct. exact E.
Qed.

Theorem extras_on_edges : forall edges p,
  In p (extras edges) ->
  exists a b t, In (a, b) edges /\ 0 < t /\ t < 1 /\ p = lerp a b t /\
                t * (alt_N a b + alt_M a b) == alt_N a b.
Proof.
  induction edges as [|[a b] es IH]; intros p Hin; [contradiction|].
  unfold extras in Hin. cbn [fold_right] in Hin. fold (extras es) in Hin.
  unfold edge_extra in Hin. destruct (edge_t (a, b)) as [t|] eqn:Et.
  - destruct Hin as [<-|Hin].
    + destruct (edge_t_spec a b t Et) as (A & B & C & D).
      exists a, b, t. repeat split; try assumption; [left; reflexivity|].
      rewrite D. field. exact C.
    + destruct (IH p Hin) as (a' & b' & t' & H1 & H2). exists a', b', t'. split; [right; exact H1|exact H2].
  - destruct (IH p Hin) as (a' & b' & t' & H1 & H2). exists a', b', t'. split; [right; exact H1|exact H2].
Qed.

(* the code's t = N / (N + M) is THE stationary point of the tangent of the altitude along the edge:
   with rho2(t) = x(t)^2 + y(t)^2, the numerator of d/dt [ z(t) / sqrt(rho2(t)) ], namely
   z'(t) rho2(t) - z(t) rho2'(t) / 2, equals N - (N + M) t identically. *)
Definition rho2 (w : vec) : Q := vx w * vx w + vy w * vy w.
Theorem altitude_stationary_numerator : forall a b t,
  (vz b - vz a) * rho2 (lerp a b t)
  - vz (lerp a b t) * ((vx b - vx a) * vx (lerp a b t) + (vy b - vy a) * vy (lerp a b t))
  == alt_N a b - (alt_N a b + alt_M a b) * t.
Proof.
  intros [x1 y1 z1] [x2 y2 z2] t. unfold rho2, lerp, alt_N, alt_M.
  repeat (setoid_rewrite Qred2_correct). unfold alt_D. cbn [vx vy vz vadd vscale vsub]. ring.
Qed.

(* an edge on which the code adds no point has no interior stationary point of the altitude *)
Corollary no_extra_no_stationary : forall a b t,
  edge_t (a, b) = None -> 0 < t -> t < 1 ->
  ~ (alt_N a b == 0 /\ alt_M a b == 0) ->
  ~ (vz b - vz a) * rho2 (lerp a b t)
    - vz (lerp a b t) * ((vx b - vx a) * vx (lerp a b t) + (vy b - vy a) * vy (lerp a b t)) == 0.
Proof.
  intros a b t H Ht0 Ht1 Hdeg E. rewrite altitude_stationary_numerator in E.
  unfold edge_t in H.
  destruct (Qeq_bool (Qred2 (alt_N a b + alt_M a b)) 0) eqn:E0.
  - apply Qeq_bool_iff in E0. rewrite Qred2_correct in E0. apply Hdeg. rewrite E0 in E. split; lra.
  - apply Qeq_bool_neq in E0. rewrite Qred2_correct in E0.
    assert (Et : t == alt_N a b / (alt_N a b + alt_M a b)) by (field_simplify_eq; [lra|exact E0]).
    destruct (Qltb 0 _ && Qltb _ 1) eqn:E1; [discriminate|].
    apply andb_false_iff in E1 as [A|A]; apply Qltb_false in A; rewrite Qred2_correct, <- Et in A; lra.
Qed.

(* the windows are computed from every mesh vertex AND every interpolated point *)
Lemma augment_In : forall verts edges p, In p (augment verts edges) <-> In p verts \/ In p (extras edges).
Proof. intros. unfold augment. apply in_app_iff. Qed.

Section ObjectWindowProofs.
  Variable PI : Q.
  Hypothesis PI_pos : 0 < PI.
  Variable atan2 : Q -> Q -> Q.
  Variable asin : Q -> Q.
  Variable norm : vec -> Q.

  Theorem object_windows_cover : forall h v verts edges p,
    0 <= h / 2 -> h / 2 <= PI -> 0 <= v / 2 ->
    In p (augment verts edges) ->
    let az := fst (sph PI atan2 asin norm p) in
    let alt := snd (sph PI atan2 asin norm p) in
    - (h / 2) < az -> az < h / 2 -> - (v / 2) <= alt -> alt <= v / 2 ->
    exists ws, object_windows PI atan2 asin norm h v verts edges = Some ws /\
               exists w, In w ws /\ in_win w az alt.
  Proof.
    intros h v verts edges p H1 H2 H3 Hin az alt A B C D.
    unfold object_windows, windows_of_angles, object_angles.
    assert (Hm : In (az, alt) (map (sph PI atan2 asin norm) (augment verts edges))).
    { replace (az, alt) with (sph PI atan2 asin norm p) by (subst az alt; destruct (sph PI atan2 asin norm p); reflexivity).
      apply in_map. exact Hin. }
    destruct (map (sph PI atan2 asin norm) (augment verts edges)) as [|a0 angs]; [contradiction|].
    apply (windows_cover PI h v _ _ a0 angs az alt H1 H2 H3 Hm A B C D).
  Qed.

  Lemma sph_az_range : forall w, - PI <= fst (sph PI atan2 asin norm w) /\ fst (sph PI atan2 asin norm w) < PI.
  Proof.
    intro w. unfold sph, wrap_az. cbn [fst]. rewrite Qred_correct.
    assert (H2 : 0 < 2 * PI) by lra.
    destruct (qmod_range (atan2 (vy w) (vx w) - PI / 2 + PI) (2 * PI) H2). lra.
  Qed.
End ObjectWindowProofs.

(* ================================================================== (c) the ray grid *)
Lemma linspace_length : forall lo hi n, length (linspace lo hi n) = n.
Proof.
  intros lo hi [|[|m]]; [reflexivity|reflexivity|].
  unfold linspace. rewrite map_length, seq_length. reflexivity.
Qed.

Lemma linspace_bounds : forall lo hi n x, lo <= hi -> In x (linspace lo hi n) -> lo <= x /\ x <= hi.
Proof.
  intros lo hi [|[|m]] x Hle Hin.
  - contradiction.
  - destruct Hin as [<-|[]]. split; [apply Qle_refl|exact Hle].
  - unfold linspace in Hin. apply in_map_iff in Hin as (i & <- & Hi). apply in_seq in Hi.
    rewrite !Qred_correct.
    set (k := inject_Z (Z.of_nat (S m))).
    set (iq := inject_Z (Z.of_nat i)).
    assert (Hk : 0 < k) by (subst k; change 0 with (inject_Z 0); rewrite <- Zlt_Qlt; lia).
    assert (Hi0 : 0 <= iq) by (subst iq; change 0 with (inject_Z 0); rewrite <- Zle_Qle; lia).
    assert (Hik : iq <= k) by (subst iq k; rewrite <- Zle_Qle; lia).
    set (u := (hi - lo) / k).
    assert (Hu : u * k == hi - lo) by (subst u; field; lra).
    assert (Hu0 : 0 <= u).
    { subst u. unfold Qdiv. apply Qmult_le_0_compat; [lra|]. apply Qlt_le_weak, Qinv_lt_0_compat; exact Hk. }
    assert (A : 0 <= iq * u) by (apply Qmult_le_0_compat; assumption).
    assert (B : iq * u <= k * u) by (apply Qmult_le_compat_r; assumption).
    split; lra.
Qed.

Lemma linspace_endpoints : forall lo hi n, (2 <= n)%nat ->
  (exists x, In x (linspace lo hi n) /\ x == lo) /\ (exists x, In x (linspace lo hi n) /\ x == hi).
Proof.
  intros lo hi [|[|m]] Hn; try lia.
  unfold linspace. split.
  - exists (Qred lo + inject_Z (Z.of_nat 0) * Qred ((hi - lo) / inject_Z (Z.of_nat (S m)))). split.
    + apply in_map_iff. exists 0%nat. split; [reflexivity|apply in_seq; lia].
    + rewrite !Qred_correct. change (inject_Z (Z.of_nat 0)) with 0. ring.
  - exists (Qred lo + inject_Z (Z.of_nat (S m)) * Qred ((hi - lo) / inject_Z (Z.of_nat (S m)))). split.
    + apply in_map_iff. exists (S m). split; [reflexivity|apply in_seq; lia].
    + assert (Hk : 0 < inject_Z (Z.of_nat (S m))) by (change 0 with (inject_Z 0); rewrite <- Zlt_Qlt; lia).
      rewrite !Qred_correct. field. lra.
Qed.

Lemma linspace_shape : forall (lo hi : Q) (n : nat),
  length (linspace lo hi n) = n /\
  (lo <= hi -> forall x, In x (linspace lo hi n) -> lo <= x /\ x <= hi) /\
  ((2 <= n)%nat -> (exists x, In x (linspace lo hi n) /\ x == lo) /\ (exists x, In x (linspace lo hi n) /\ x == hi)).
Proof.
  intros lo hi n. split; [exact (linspace_length lo hi n)|].
  split; [intros H x; exact (linspace_bounds lo hi n x H) | exact (linspace_endpoints lo hi n)].
Qed.

Section GridProofs.
  Variable cos : Q -> Q.
  Variable h v rch rcv : Q.
  Variable altscale : bool.

  Theorem window_rays_inside : forall w rays az alt,
    window_rays cos h v rch rcv altscale w = Some rays -> In (az, alt) rays -> in_win w az alt.
  Proof.
    intros w rays az alt E Hin. unfold window_rays in E.
    destruct (negb (Qltb 0 (Qred (h_hi w - h_lo w))) || negb (Qltb 0 (Qred (v_hi w - v_lo w)))) eqn:Es; [discriminate|].
    apply orb_false_iff in Es as [Eh Ev]. apply negb_false_iff in Eh, Ev.
    apply Qltb_true in Eh. apply Qltb_true in Ev. rewrite Qred_correct in Eh, Ev.
    assert (Hh : h_lo w <= h_hi w) by lra. assert (Hv : v_lo w <= v_hi w) by lra.
    inversion E; subst; clear E. unfold in_win.
    destruct altscale.
    - apply in_flat_map in Hin as (a & Ha & Hin). apply in_map_iff in Hin as (z & Hz & Hin).
      inversion Hz; subst.
      destruct (linspace_bounds _ _ _ _ Hv Ha). destruct (linspace_bounds _ _ _ _ Hh Hin). tauto.
    - apply in_flat_map in Hin as (z & Hz & Hin). apply in_map_iff in Hin as (a & Ha & Hin).
      inversion Ha; subst.
      destruct (linspace_bounds _ _ _ _ Hv Hin). destruct (linspace_bounds _ _ _ _ Hh Hz). tauto.
  Qed.

  Theorem object_rays_inside : forall ws rays az alt,
    object_rays cos h v rch rcv altscale ws = Some rays -> In (az, alt) rays ->
    exists w, In w ws /\ in_win w az alt.
  Proof.
    induction ws as [|w ws IH]; intros rays az alt E Hin; cbn [object_rays] in E.
    - inversion E; subst. contradiction.
    - destruct (window_rays cos h v rch rcv altscale w) as [ra|] eqn:Ew; [|discriminate].
      destruct (object_rays cos h v rch rcv altscale ws) as [rb|] eqn:Er; [|discriminate].
      inversion E; subst. apply in_app_iff in Hin as [Hin|Hin].
      + exists w. split; [left; reflexivity|]. eapply window_rays_inside; eassumption.
      + destruct (IH rb az alt eq_refl Hin) as (w' & A & B). exists w'. split; [right; exact A|exact B].
  Qed.

  (* every window in which rays are cast has positive size, and the first/last ray of each row sits on
     the window's edge as soon as the row has two rays *)
  Theorem window_rays_positive : forall w rays,
    window_rays cos h v rch rcv altscale w = Some rays -> h_lo w < h_hi w /\ v_lo w < v_hi w.
  Proof.
    intros w rays E. unfold window_rays in E.
    destruct (negb (Qltb 0 (Qred (h_hi w - h_lo w))) || negb (Qltb 0 (Qred (v_hi w - v_lo w)))) eqn:Es; [discriminate|].
    apply orb_false_iff in Es as [Eh Ev]. apply negb_false_iff in Eh, Ev.
    apply Qltb_true in Eh. apply Qltb_true in Ev. rewrite Qred_correct in Eh, Ev. lra.
  Qed.
End GridProofs.

(* the windows lie inside the viewer's angular range when the azimuths are normalised (as sph does) *)
Section InsideView.
  Variable PI : Q.
  Hypothesis PI_pos : 0 < PI.

  Lemma to_back_range : forall a, - PI <= a -> a <= PI -> - PI <= to_back PI a /\ to_back PI a <= PI.
  Proof.
    intros a A B. unfold to_back. destruct (Qle_bool 0 a) eqn:E.
    - apply Qle_bool_iff in E. lra.
    - apply Qle_bool_false in E. lra.
  Qed.

  Lemma qmax_list_bound : forall l x B, x <= B -> (forall y, In y l -> y <= B) -> qmax_list x l <= B.
  Proof.
    induction l as [|y l IH]; intros x B Hx Hl; cbn [qmax_list fold_right]; [exact Hx|].
    apply Q.max_lub; [apply Hl; left; reflexivity|]. apply IH; [exact Hx|]. intros; apply Hl; right; assumption.
  Qed.
  Lemma qmin_list_bound : forall l x B, B <= x -> (forall y, In y l -> B <= y) -> B <= qmin_list x l.
  Proof.
    induction l as [|y l IH]; intros x B Hx Hl; cbn [qmin_list fold_right]; [exact Hx|].
    apply Q.min_glb; [apply Hl; left; reflexivity|]. apply IH; [exact Hx|]. intros; apply Hl; right; assumption.
  Qed.

  Theorem windows_inside_view_normalised : forall h v ahead behind a0 angs ws w,
    0 <= h / 2 -> 0 <= v / 2 ->
    (forall a, In a (a0 :: angs) -> - PI <= fst a /\ fst a <= PI) ->
    view_windows PI h v ahead behind a0 angs = Some ws -> In w ws ->
    (h_lo w <= h_hi w -> - (h / 2) <= h_lo w /\ h_hi w <= h / 2) /\ - (v / 2) <= v_lo w /\ v_hi w <= v / 2.
  Proof.
    intros h v ahead behind a0 angs ws w Hh Hv Hr E Hin.
    destruct (windows_inside_view PI h v ahead behind a0 angs ws w Hh Hv E Hin) as [H|H].
    { split; [intros _|]; tauto. }
    destruct H as (-> & -> & Hv1 & Hv2 & Hside).
    split; [|tauto]. intro Hle.
    unfold view_windows in E. cbn [andb] in E.
    destruct (Qltb (v / 2) _ || Qltb _ (- (v / 2))); [discriminate|].
    set (smax := qmax_list (to_back PI (fst a0)) (map (to_back PI) (map fst angs))) in *.
    set (smin := qmin_list (to_back PI (fst a0)) (map (to_back PI) (map fst angs))) in *.
    assert (R0 : - PI <= to_back PI (fst a0) /\ to_back PI (fst a0) <= PI).
    { destruct (Hr a0 (or_introl eq_refl)). apply to_back_range; assumption. }
    assert (RL : forall y, In y (map (to_back PI) (map fst angs)) -> - PI <= y /\ y <= PI).
    { intros y Hy. apply in_map_iff in Hy as (a & <- & Ha). apply in_map_iff in Ha as (ab & <- & Hab).
      destruct (Hr ab (or_intror Hab)). apply to_back_range; assumption. }
    assert (Smax : smax <= PI).
    { subst smax. apply qmax_list_bound; [tauto|]. intros y Hy. apply RL in Hy. tauto. }
    assert (Smin : - PI <= smin).
    { subst smin. apply qmin_list_bound; [tauto|]. intros y Hy. apply RL in Hy. tauto. }
    destruct (Qltb PI (Qabs (- (h / 2)) + Qabs smax)); destruct (Qltb PI (Qabs (h / 2) + Qabs smin)); cbn [app] in E;
      try discriminate; inversion E; subst; cbn [In] in Hin;
      repeat (destruct Hin as [<-|Hin]; [cbn [h_lo h_hi v_lo v_hi] in *; lra|]); contradiction.
  Qed.
End InsideView.

(* rays_inside_view: every ray of the grid lies within the viewer's angular range *)
Theorem rays_inside_view :
  forall (PI : Q) (cos : Q -> Q) (h v rch rcv : Q) (altscale ahead behind : bool)
         (a0 : Q * Q) (angs : list (Q * Q)) (ws : list window) (rays : list (Q * Q)) (az alt : Q),
  0 < PI -> 0 <= h / 2 -> 0 <= v / 2 ->
  (forall a, In a (a0 :: angs) -> - PI <= fst a /\ fst a <= PI) ->
  view_windows PI h v ahead behind a0 angs = Some ws ->
  object_rays cos h v rch rcv altscale ws = Some rays ->
  In (az, alt) rays ->
  - (h / 2) <= az /\ az <= h / 2 /\ - (v / 2) <= alt /\ alt <= v / 2.
Proof.
  intros PI cos h v rch rcv altscale ahead behind a0 angs ws rays az alt HPI Hh Hv Hr Ew Er Hin.
  destruct (object_rays_inside cos h v rch rcv altscale ws rays az alt Er Hin) as (w & Hw & I).
  destruct I as (I1 & I2 & I3 & I4).
  destruct (windows_inside_view_normalised PI HPI h v ahead behind a0 angs ws w Hh Hv Hr Ew Hw) as (A & B & C).
  assert (Hle : h_lo w <= h_hi w) by lra. destruct (A Hle). lra.
Qed.

(* the whole object pipeline: vertices/edges -> augmented vertices -> flags -> windows -> rays *)
Theorem object_pipeline_rays_inside_view :
  forall (PI : Q) (atan2 : Q -> Q -> Q) (asin : Q -> Q) (norm : vec -> Q) (cos : Q -> Q)
         (h v rch rcv : Q) (altscale : bool) (verts : list vec) (edges : list (vec * vec))
         (ws : list window) (rays : list (Q * Q)) (az alt : Q),
  0 < PI -> 0 <= h / 2 -> 0 <= v / 2 ->
  object_windows PI atan2 asin norm h v verts edges = Some ws ->
  object_rays cos h v rch rcv altscale ws = Some rays ->
  In (az, alt) rays ->
  - (h / 2) <= az /\ az <= h / 2 /\ - (v / 2) <= alt /\ alt <= v / 2.
Proof.
  intros PI atan2 asin norm cos h v rch rcv altscale verts edges ws rays az alt HPI Hh Hv Ew Er Hin.
  unfold object_windows, windows_of_angles, object_angles in Ew.
  destruct (map (sph PI atan2 asin norm) (augment verts edges)) as [|a0 angs] eqn:Em; [discriminate|].
  eapply rays_inside_view; try eassumption.
  intros a Ha. rewrite <- Em in Ha. apply in_map_iff in Ha as (p & <- & _).
  destruct (sph_az_range PI HPI atan2 asin norm p). split; lra.
Qed.

(* ================================================================== (b) 2D visibility *)
Section TwoDProofs.
  Variable PI : Q.
  Hypothesis PI_pos : 0 < PI.

  Lemma normalize_angle_spec : forall a,
    - PI <= normalize_angle PI a /\ normalize_angle PI a <= PI /\
    exists k : Z, normalize_angle PI a == a + 2 * PI * inject_Z k.
  Proof.
    intro a. unfold normalize_angle.
    assert (H2 : 0 < 2 * PI) by lra.
    destruct (Qltb PI a) eqn:E1.
    - apply Qltb_true in E1.
      set (q := (a - PI) / (2 * PI)).
      pose proof (Qle_ceiling q) as Hc. pose proof (Qceiling_lt q) as Hl.
      assert (Eq : q * (2 * PI) == a - PI) by (subst q; field; lra).
      set (k := Qceiling q) in *.
      assert (A : q * (2 * PI) <= inject_Z k * (2 * PI)) by (apply Qmult_le_compat_r; lra).
      assert (B : (inject_Z k - 1) * (2 * PI) < q * (2 * PI)).
      { apply Qmult_lt_compat_r; [lra|]. replace (inject_Z k - 1) with (inject_Z (k - 1)); [exact Hl|].
        unfold Zminus. rewrite inject_Z_plus. reflexivity. }
      split; [|split]; [lra|lra|].
      exists (- k)%Z. rewrite inject_Z_opp. ring.
    - apply Qltb_false in E1. destruct (Qltb a (- PI)) eqn:E2.
      + apply Qltb_true in E2.
        set (q := (- PI - a) / (2 * PI)).
        pose proof (Qle_ceiling q) as Hc. pose proof (Qceiling_lt q) as Hl.
        assert (Eq : q * (2 * PI) == - PI - a) by (subst q; field; lra).
        set (k := Qceiling q) in *.
        assert (A : q * (2 * PI) <= inject_Z k * (2 * PI)) by (apply Qmult_le_compat_r; lra).
        assert (B : (inject_Z k - 1) * (2 * PI) < q * (2 * PI)).
        { apply Qmult_lt_compat_r; [lra|]. replace (inject_Z k - 1) with (inject_Z (k - 1)); [exact Hl|].
          unfold Zminus. rewrite inject_Z_plus. reflexivity. }
        split; [|split]; [lra|lra|].
        exists k. ring.
      + apply Qltb_false in E2. split; [|split]; [lra|lra|]. exists 0%Z. change (inject_Z 0) with 0. ring.
  Qed.

  (* |normalize a| <= half  <->  a is within half of a multiple of a full turn *)
  Lemma normalize_angle_abs : forall a half,
    Qabs (normalize_angle PI a) <= half <-> exists k : Z, Qabs (a + 2 * PI * inject_Z k) <= half.
  Proof.
    intros a half. destruct (normalize_angle_spec a) as (L & U & k0 & E0). split.
    - intro H. exists k0. rewrite <- E0. exact H.
    - intros [k H].
      destruct (Qlt_le_dec half PI) as [Hs|Hs].
      + (* both representatives are within (-pi, pi] resp. [-pi, pi]; they differ by a multiple of 2 pi *)
        apply Qabs_Qle_condition in H as [H1 H2].
        assert (D : normalize_angle PI a - (a + 2 * PI * inject_Z k) == 2 * PI * inject_Z (k0 - k)).
        { rewrite E0. unfold Zminus. rewrite inject_Z_plus, inject_Z_opp. ring. }
        assert (Hz : (k0 - k = 0)%Z).
        { assert (Hlt : inject_Z (k0 - k) < 1).
          { apply Qnot_le_lt. intro G.
            assert (2 * PI <= 2 * PI * inject_Z (k0 - k)) by nra. lra. }
          assert (Hgt : - (1) < inject_Z (k0 - k)).
          { apply Qnot_le_lt. intro G.
            assert (2 * PI * inject_Z (k0 - k) <= - (2 * PI)) by nra. lra. }
          change 1 with (inject_Z 1) in Hlt. change (- (1)) with (inject_Z (-1)) in Hgt.
          rewrite <- Zlt_Qlt in Hlt, Hgt. lia. }
        rewrite Hz in D. change (inject_Z 0) with 0 in D.
        apply Qabs_Qle_condition. split; lra.
      + apply Qabs_Qle_condition. split; lra.
  Qed.

  Variable atan2 : Q -> Q -> Q.
  Variable norm : vec -> Q.

  Lemma norm_le_iff : forall w r, 0 <= r -> is_norm (norm w) w -> (norm w <= r <-> dot w w <= r * r).
  Proof.
    intros w r Hr [Hn Hsq]. split; intro H.
    - rewrite <- Hsq. nra.
    - apply Qnot_lt_le. intro G. assert (r * r < norm w * norm w) by nra. lra.
  Qed.

  Theorem sector_contains_iff : forall c r heading angle p,
    0 <= r -> is_norm (norm (vsub p c)) (vsub p c) ->
    (sector_contains PI atan2 norm c r heading angle p = true <-> in_sector PI atan2 c r heading angle p).
  Proof.
    intros c r heading angle p Hr Hn. unfold sector_contains, in_sector, view_angle_to_point.
    rewrite !andb_true_iff, Qeq_bool_iff, !Qle_bool_iff.
    rewrite (norm_le_iff _ r Hr Hn), normalize_angle_abs. tauto.
  Qed.

  Theorem disc_contains_iff : forall c r p,
    0 <= r -> is_norm (norm (vsub p c)) (vsub p c) ->
    (disc_contains norm c r p = true <-> in_disc c r p).
  Proof.
    intros c r p Hr Hn. unfold disc_contains, in_disc.
    rewrite andb_true_iff, Qeq_bool_iff, Qle_bool_iff, (norm_le_iff _ r Hr Hn). tauto.
  Qed.

  Theorem can_see_2d_iff : forall oriented c r heading angle p,
    0 <= r -> is_norm (norm (vsub p c)) (vsub p c) ->
    (can_see_2d PI atan2 norm oriented c r heading angle p = true <->
     if oriented then in_sector PI atan2 c r heading angle p else in_disc c r p).
  Proof.
    intros [|] c r heading angle p Hr Hn; unfold can_see_2d;
      [apply sector_contains_iff | apply disc_contains_iff]; assumption.
  Qed.
End TwoDProofs.

(* non-vacuity witnesses (toy oracles of Visibility.v) *)
Example grid_example :
  object_rays (fun _ => 1) 2 2 4 4 true [Win (-(1#2)) (1#2) 0 1] =
  Some [(-1 # 2, 0); (1 # 2, 0); (-1 # 2, 1); (1 # 2, 1)].
Proof. vm_compute. reflexivity. Qed.

Example sector_example :
  sector_contains toyPI toy_atan2 toy_norm (V3 1 1 0) 5 0 2 (V3 1 6 0) = true /\
  sector_contains toyPI toy_atan2 toy_norm (V3 1 1 0) 5 0 2 (V3 6 1 0) = false.
Proof. split; vm_compute; reflexivity. Qed.
