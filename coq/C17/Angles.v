(* C17, round 3 -- definitions only.
   (a) object_types.py OrientedPoint.__init__: truncation of over-limit viewAngles;
   (b) the occlusion filter of visibility.py restated as ONE filter (spec form of batch_survivors). *)
From Coq Require Import QArith Qminmax List Bool.
From Scenic Require Import C17.Vec C17.Visibility.
Import ListNotations.
Open Scope Q_scope.

(* `if self.viewAngles[0] > math.tau or self.viewAngles[1] > math.pi:` *)
Definition over_limit (TAU PI : Q) (a : Q * Q) : bool := Qltb TAU (fst a) || Qltb PI (snd a).

(* as coded: only on the over-limit path are the two components replaced by their minima *)
Definition truncate_angles (TAU PI : Q) (a : Q * Q) : Q * Q :=
  if over_limit TAU PI a then (Qmin (fst a) TAU, Qmin (snd a) PI) else a.

(* the documented rule: "ViewAngles can not have values greater than (math.tau, math.pi)" *)
Definition truncate_spec (TAU PI : Q) (a : Q * Q) : Q * Q := (Qmin (fst a) TAU, Qmin (snd a) PI).

Section OcclusionSpec.
  Variable Ray : Type.
  Variable O : Type.
  Variable target_hits : Ray -> list Q.
  Variable occ_hits : O -> Ray -> list Q.
  Variable d : Q.

  (* a candidate survives iff NO occluder of the list blocks it: no order, no accumulation state *)
  Definition unblocked_by_all (occs : list O) (c : Ray * Q) : bool :=
    forallb (fun o => negb (blocked_by Ray O occ_hits o c)) occs.
  Definition survivors_spec_list (batch : list Ray) (occs : list O) : list (Ray * Q) :=
    filter (unblocked_by_all occs) (candidates Ray target_hits d batch).

  (* two WRONG accumulation disciplines (siblings of each other), refuted in Round3Proofs.v:
     only the last occluder that is consulted counts / only the first one does *)
  Definition survivors_last_only (batch : list Ray) (occs : list O) : list (Ray * Q) :=
    let cs := candidates Ray target_hits d batch in
    fold_left (fun _ o => filter (fun c => negb (blocked_by Ray O occ_hits o c)) cs) occs cs.
  Definition survivors_first_only (batch : list Ray) (occs : list O) : list (Ray * Q) :=
    let cs := candidates Ray target_hits d batch in
    match occs with [] => cs | o :: _ => filter (fun c => negb (blocked_by Ray O occ_hits o c)) cs end.
End OcclusionSpec.

(* toy instance for the non-vacuity examples: rays 0 and 1 both hit the target at distance 2;
   occluder i stands in front of ray i only (two staggered half-walls) *)
Definition toy_target_hits (r : nat) : list Q := [2].
Definition toy_occ_hits (o r : nat) : list Q := if Nat.eqb o r then [1] else [].
