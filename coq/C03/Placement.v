(* C03 - placement of a mesh region (MeshRegion.mesh / _transform in regions.py): the input mesh is optionally centred on its
   bounding-box centre, scaled per axis, rotated and translated.  Definitions only.  The rotation matrix enters as 9 rationals
   (cos / sin of the Euler angles are computed in binary64 by the harness). *)
From Coq Require Import QArith Qabs List Bool.
From Scenic Require Import C16.RegionAlg.
Import ListNotations.
Open Scope Q_scope.

Record mat := mkmat { m11 : Q; m12 : Q; m13 : Q; m21 : Q; m22 : Q; m23 : Q; m31 : Q; m32 : Q; m33 : Q }.

Definition padd (a b : pt) : pt := mkpt (px a + px b) (py a + py b) (pz a + pz b).
Definition psub (a b : pt) : pt := mkpt (px a - px b) (py a - py b) (pz a - pz b).
Definition pscale (s v : pt) : pt := mkpt (px s * px v) (py s * py v) (pz s * pz v).
Definition punscale (s v : pt) : pt := mkpt (px v / px s) (py v / py s) (pz v / pz s).
Definition mulv (M : mat) (v : pt) : pt :=
  mkpt (m11 M * px v + m12 M * py v + m13 M * pz v) (m21 M * px v + m22 M * py v + m23 M * pz v) (m31 M * px v + m32 M * py v + m33 M * pz v).
Definition transpose (M : mat) : mat := mkmat (m11 M) (m21 M) (m31 M) (m12 M) (m22 M) (m32 M) (m13 M) (m23 M) (m33 M).
Definition peq (a b : pt) : Prop := px a == px b /\ py a == py b /\ pz a == pz b.

(* M^T M = I (columns orthonormal) and M M^T = I (rows orthonormal) *)
Definition cols_orthonormal (M : mat) : Prop :=
  m11 M * m11 M + m21 M * m21 M + m31 M * m31 M == 1 /\ m12 M * m12 M + m22 M * m22 M + m32 M * m32 M == 1 /\
  m13 M * m13 M + m23 M * m23 M + m33 M * m33 M == 1 /\ m11 M * m12 M + m21 M * m22 M + m31 M * m32 M == 0 /\
  m11 M * m13 M + m21 M * m23 M + m31 M * m33 M == 0 /\ m12 M * m13 M + m22 M * m23 M + m32 M * m33 M == 0.
Definition rotation (M : mat) : Prop := cols_orthonormal M /\ cols_orthonormal (transpose M).

(* a vertex v of the input mesh ends up at place ... v:  centre (bounding-box centre cc) if centerMesh, scale, rotate, translate *)
Definition place (centre : bool) (cc s : pt) (M : mat) (t : pt) (v : pt) : pt :=
  padd (mulv M (pscale s (if centre then psub v cc else v))) t.
(* the canonical-frame coordinates of a world point (the frame change of the harness's membership oracle) *)
Definition unplace (centre : bool) (cc s : pt) (M : mat) (t : pt) (p : pt) : pt :=
  let w := punscale s (mulv (transpose M) (psub p t)) in if centre then padd w cc else w.

(* the region placed in the world: p belongs to it iff its canonical coordinates belong to the input region *)
Definition placed (mem : pt -> Prop) (centre : bool) (cc s : pt) (M : mat) (t : pt) (p : pt) : Prop :=
  mem (unplace centre cc s M t p).

Definition close_pt (a b : pt) (tol : Q) : bool :=
  Qle_bool (Qabs (px a - px b)) tol && Qle_bool (Qabs (py a - py b)) tol && Qle_bool (Qabs (pz a - pz b)) tol.
