(* C03 — samplers of regions.  (a) a finite measure algebra (atoms = Venn cells of the operands,
   each with a positive rational measure; a region = a duplicate-free list of atoms) and the
   generic samplers of scenic/core/regions.py as probability trees that follow the code literally;
   (b) the primitive samplers as formulas of their RNG draws over Q.  Definitions only. *)
From Coq Require Import QArith Qabs List Bool ZArith Arith.
From Scenic Require Import C16.RegionAlg.
Import ListNotations.
Open Scope Q_scope.

(* ---------------------------------------------------------------- probability trees *)
Inductive ptree :=
| Ret (a : nat)                       (* return the point (atom) a *)
| Rej                                 (* raise RejectionException *)
| Choice (bs : list (Q * ptree)).     (* one RNG call: branch i with probability fst *)

(* probability that the tree returns atom a *)
Fixpoint prob (t : ptree) (a : nat) : Q :=
  match t with
  | Ret b => if Nat.eqb a b then 1 else 0
  | Rej => 0
  | Choice bs => (fix go (l : list (Q * ptree)) : Q :=
                    match l with [] => 0 | (w, t') :: l' => w * prob t' a + go l' end) bs
  end.
(* probability of a rejection *)
Fixpoint prej (t : ptree) : Q :=
  match t with
  | Ret _ => 0
  | Rej => 1
  | Choice bs => (fix go (l : list (Q * ptree)) : Q :=
                    match l with [] => 0 | (w, t') :: l' => w * prej t' + go l' end) bs
  end.
(* follow one RNG path (branch indices) *)
Fixpoint runp (t : ptree) (path : list nat) : option (option nat) :=
  match t, path with
  | Ret a, _ => Some (Some a)
  | Rej, _ => Some None
  | Choice bs, i :: rest => match nth_error bs i with Some (_, t') => runp t' rest | None => None end
  | Choice _, [] => None
  end.

Definition region := list nat.
Definition memb (a : nat) (r : region) : bool := existsb (Nat.eqb a) r.

Section Measure.
  Variable mu : nat -> Q.

  Fixpoint size (r : region) : Q := match r with [] => 0 | a :: r' => mu a + size r' end.

  (* uniformPointInner of a primitive region, continued by k: atom b with probability mu b / size r *)
  Definition draw (r : region) (k : nat -> ptree) : ptree :=
    Choice (map (fun b => (mu b / size r, k b)) r).

  (* DifferenceRegion.genericSampler: sample A, reject if B contains the point *)
  Definition diff_tree (A B : region) : ptree :=
    draw A (fun b => if memb b B then Rej else Ret b).

  (* IntersectionRegion.genericSampler for two operands of the same dimension: try each operand in
     turn, return the point if all operands contain it; reject when none succeeded *)
  Definition inter_tree (A B : region) : ptree :=
    draw A (fun b => if memb b B then Ret b
                     else draw B (fun b' => if memb b' A then Ret b' else Rej)).
  (* n operands *)
  Fixpoint inter_tree_n (all todo : list region) : ptree :=
    match todo with
    | [] => Rej
    | r :: rest => draw r (fun b => if forallb (memb b) all then Ret b else inter_tree_n all rest)
    end.

  (* acceptance weight of the n-ary intersection sampler: P(return a) = mu a * inter_w for every a of the intersection *)
  Definition inall (all : list region) (b : nat) : bool := forallb (memb b) all.
  Fixpoint inter_w (all todo : list region) : Q :=
    match todo with
    | [] => 0
    | r :: rest => 1 / size r + size (filter (fun b => negb (inall all b)) r) / size r * inter_w all rest
    end.

  (* PolygonalRegion.uniformPointInner: a triangle by random.choices(cum_weights = cumulative triangle areas), then
     points of the triangle's bounding box until one lies in the triangle.  A triangle is given by its bounding box B
     (a region) and a predicate-region T: its atoms are those of B that belong to T.  [fuel] bounds the number of
     rounds of the loop; Rej stands for "still looping". *)
  Definition tri_atoms (B T : region) : region := filter (fun b => memb b T) B.
  Fixpoint retry_tree (fuel : nat) (B T : region) : ptree :=
    match fuel with
    | O => Rej
    | S f => draw B (fun b => if memb b T then Ret b else retry_tree f B T)
    end.
  Definition tri_total (tris : list (region * region)) : Q :=
    (fix go (l : list (region * region)) : Q := match l with [] => 0 | (B, T) :: l' => size (tri_atoms B T) + go l' end) tris.
  Definition poly_tree (fuel : nat) (tris : list (region * region)) : ptree :=
    Choice (map (fun bt => (size (tri_atoms (fst bt) (snd bt)) / tri_total tris, retry_tree fuel (fst bt) (snd bt))) tris).
  (* share of a bounding box outside its triangle; q^n = probability that the loop is still running after n rounds *)
  Definition miss (B T : region) : Q := size (filter (fun b => negb (memb b T)) B) / size B.

  (* UnionRegion.genericSampler: operand i with probability size_i / sum of sizes
     (random.choices(weights=sizes)), a point of it, then reject with probability 1 - 1/count
     where count = number of operands containing the point *)
  Definition count (regs : list region) (b : nat) : nat := length (filter (memb b) regs).
  Definition qnat (n : nat) : Q := inject_Z (Z.of_nat n).
  Fixpoint total (regs : list region) : Q := match regs with [] => 0 | r :: l => size r + total l end.
  Definition union_tree (regs : list region) : ptree :=
    Choice (map (fun r => (size r / total regs,
                           draw r (fun b => Choice [(1 - 1 / qnat (count regs b), Rej);
                                                    (1 / qnat (count regs b), Ret b)]))) regs).
End Measure.

Fixpoint qpow (q : Q) (n : nat) : Q := match n with O => 1 | S k => q * qpow q k end.
Fixpoint geom (q : Q) (n : nat) : Q := match n with O => 0 | S k => 1 + q * geom q k end.

(* PointSetRegion.intersect's sampler: candidates filtered by the other region, random.choice *)
Definition ps_inter_tree (P O : region) : ptree :=
  let cand := filter (fun b => memb b O) P in
  match cand with
  | [] => Rej
  | _ => Choice (map (fun b => (1 / qnat (length cand), Ret b)) cand)
  end.
(* PointSetRegion.uniformPointInner: randrange(len) *)
Definition ps_tree (P : region) : ptree := Choice (map (fun b => (1 / qnat (length P), Ret b)) P).

(* ---------------------------------------------------------------- primitive samplers over Q *)
(* random.uniform(a, b) = a + (b - a) * random() *)
Definition uniform (a b u : Q) : Q := a + (b - a) * u.

(* RectangularRegion.uniformPointInner: position.offsetRotated(heading, (rx, ry)) *)
Definition rect_sample (cx cy co si hw hl u1 u2 : Q) : Q * Q :=
  let rx := uniform (- hw) hw u1 in let ry := uniform (- hl) hl u2 in
  (cx + (co * rx - si * ry), cy + (si * rx + co * ry)).

(* CircularRegion.uniformPointInner: r = triangular(0, R, R) = R * sqrt(u) (CPython: low +
   (high-low)*sqrt(u*c) with c = 1), t = uniform(-pi, pi); [r], [ct] = cos t, [st] = sin t are arguments *)
Definition disc_sample (c : pt) (r ct st : Q) : pt := mkpt (px c + r * ct) (py c + r * st) (pz c).

(* PolylineRegion.uniformPointInner: averageVectors(a, b, weight) *)
Definition seg_sample (x1 y1 x2 y2 w : Q) : Q * Q := (x1 * (1 - w) + x2 * w, y1 * (1 - w) + y2 * w).

(* random.choices(cum_weights=cum) = population[bisect_right(cum, random() * total)] *)
Fixpoint bisect (cum : list Q) (x : Q) : nat :=
  match cum with
  | [] => O
  | c :: l => if Qlt_le_dec x c then O else S (bisect l x)
  end.
