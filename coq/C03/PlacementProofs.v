From Coq Require Import QArith Qabs List Bool Lqa Lia Field.
From Scenic Require Import C16.RegionAlg.
From Scenic Require Import C03.Placement.
Import ListNotations.
Open Scope Q_scope.

Lemma mulv_transpose_left : forall M v, cols_orthonormal M -> peq (mulv (transpose M) (mulv M v)) v.
Proof.
  intros [a b c d e f g h i] [x y z] (H1 & H2 & H3 & H4 & H5 & H6). unfold peq, mulv, transpose in *. cbn [px py pz m11 m12 m13 m21 m22 m23 m31 m32 m33] in *.
  repeat split.
  - transitivity ((a * a + d * d + g * g) * x + (a * b + d * e + g * h) * y + (a * c + d * f + g * i) * z); [ring|]. rewrite H1, H4, H5. ring.
  - transitivity ((a * b + d * e + g * h) * x + (b * b + e * e + h * h) * y + (b * c + e * f + h * i) * z); [ring|]. rewrite H2, H4, H6. ring.
  - transitivity ((a * c + d * f + g * i) * x + (b * c + e * f + h * i) * y + (c * c + f * f + i * i) * z); [ring|]. rewrite H3, H5, H6. ring.
Qed.

Lemma peq_refl : forall a, peq a a.
Proof. intros; unfold peq; repeat split; reflexivity. Qed.
Lemma peq_trans : forall a b c, peq a b -> peq b c -> peq a c.
Proof. unfold peq; intros a b c (H1 & H2 & H3) (K1 & K2 & K3); repeat split; etransitivity; eauto. Qed.
Lemma peq_sym : forall a b, peq a b -> peq b a.
Proof. unfold peq; intros a b (H1 & H2 & H3); repeat split; symmetry; assumption. Qed.

Lemma mulv_compat : forall M a b, peq a b -> peq (mulv M a) (mulv M b).
Proof. intros M a b (H1 & H2 & H3). unfold peq, mulv. cbn [px py pz]. rewrite H1, H2, H3. repeat split; reflexivity. Qed.
Lemma punscale_compat : forall s a b, peq a b -> peq (punscale s a) (punscale s b).
Proof. intros s a b (H1 & H2 & H3). unfold peq, punscale. cbn [px py pz]. rewrite H1, H2, H3. repeat split; reflexivity. Qed.
Lemma padd_compat : forall a b c, peq a b -> peq (padd a c) (padd b c).
Proof. intros a b c (H1 & H2 & H3). unfold peq, padd. cbn [px py pz]. rewrite H1, H2, H3. repeat split; reflexivity. Qed.

Definition nonzero (s : pt) : Prop := ~ px s == 0 /\ ~ py s == 0 /\ ~ pz s == 0.

Lemma punscale_pscale : forall s v, nonzero s -> peq (punscale s (pscale s v)) v.
Proof. intros s v (H1 & H2 & H3). unfold peq, punscale, pscale. cbn [px py pz]. repeat split; field; assumption. Qed.

Lemma psub_padd : forall a t, peq (psub (padd a t) t) a.
Proof. intros. unfold peq, psub, padd. cbn [px py pz]. repeat split; ring. Qed.

(* the oracle's frame change inverts the placement: a vertex v of the input mesh placed in the world has canonical coordinates v *)
Theorem unplace_place : forall centre cc s M t v,
  cols_orthonormal M -> nonzero s -> peq (unplace centre cc s M t (place centre cc s M t v)) v.
Proof.
  intros centre cc s M t v HM Hs. unfold unplace, place.
  set (u := if centre then psub v cc else v).
  assert (E : peq (punscale s (mulv (transpose M) (psub (padd (mulv M (pscale s u)) t) t))) u).
  { eapply peq_trans. { apply punscale_compat. apply mulv_compat. apply psub_padd. }
    eapply peq_trans. { apply punscale_compat. apply mulv_transpose_left. exact HM. }
    apply punscale_pscale. exact Hs. }
  destruct centre; [|exact E].
  eapply peq_trans. { apply padd_compat. exact E. }
  unfold u, peq, padd, psub. cbn [px py pz]. repeat split; ring.
Qed.

(* hence every placed vertex of the input region belongs to the placed region (mem respects ==) *)
Theorem placed_member : forall (mem : pt -> Prop) centre cc s M t v,
  (forall a b, peq a b -> mem a -> mem b) -> cols_orthonormal M -> nonzero s ->
  mem v -> placed mem centre cc s M t (place centre cc s M t v).
Proof.
  intros mem centre cc s M t v Hc HM Hs Hv. unfold placed.
  apply (Hc v); [|exact Hv]. apply peq_sym. apply unplace_place; assumption.
Qed.

(* what the centring option changes: the whole region is displaced by - M (S cc) *)
Theorem place_centre_shift : forall cc s M t v,
  peq (place true cc s M t v) (psub (place false cc s M t v) (mulv M (pscale s cc))).
Proof. intros. unfold peq, place, psub, padd, mulv, pscale. cbn [px py pz]. repeat split; ring. Qed.

(* concretising a region built with centerMesh=False as if it were centred (the slip of seeded C03-3) moves it: a sample
   drawn from the re-centred copy has canonical coordinates off by the bounding-box centre, so it leaves the region as soon
   as the region is smaller than that shift *)
Theorem unplace_recentred : forall cc s M t v,
  cols_orthonormal M -> nonzero s -> peq (unplace false cc s M t (place true cc s M t v)) (psub v cc).
Proof.
  intros cc s M t v HM Hs.
  eapply peq_trans; [|apply (unplace_place false cc s M t (psub v cc) HM Hs)].
  unfold place. apply peq_refl.
Qed.

Theorem recentring_refuted : exists (mem : pt -> Prop) cc s M t v,
  rotation M /\ nonzero s /\ mem v /\
  placed mem false cc s M t (place false cc s M t v) /\ ~ placed mem false cc s M t (place true cc s M t v).
Proof.
  (* the unit cube [4,5]x[0,1]x[0,1] (bounding-box centre (9/2,1/2,1/2)), identity pose *)
  exists (fun p => 4 <= px p <= 5 /\ 0 <= py p <= 1 /\ 0 <= pz p <= 1), (mkpt (9#2) (1#2) (1#2)), (mkpt 1 1 1),
         (mkmat 1 0 0 0 1 0 0 0 1), (mkpt 0 0 0), (mkpt 4 0 0).
  split; [|split; [|split; [|split]]].
  - unfold rotation, cols_orthonormal. cbn. repeat split; reflexivity.
  - unfold nonzero. cbn. repeat split; intro H; discriminate H.
  - cbn. repeat split; lra.
  - unfold placed, unplace, place, punscale, mulv, transpose, psub, padd, pscale. cbn [px py pz m11 m12 m13 m21 m22 m23 m31 m32 m33].
    repeat split; vm_compute; discriminate.
  - unfold placed, unplace, place, punscale, mulv, transpose, psub, padd, pscale. cbn [px py pz m11 m12 m13 m21 m22 m23 m31 m32 m33].
    intros ([H _] & _). vm_compute in H. apply H. reflexivity.
Qed.
