(* C03 — PolygonalRegion.uniformPointInner picks its triangle with
   random.choices(triangles, cum_weights = itertools.accumulate(areas)).  Tied to the CPython model of
   random.choices of C01 (binary bisect on u * total): triangle i is picked exactly when u * total lies in
   [area_0 + .. + area_(i-1), area_0 + .. + area_i), an interval of length area_i. *)
From Coq Require Import QArith ZArith List Bool Lia Lqa.
From Scenic Require Import C01.Prob C01.ProbProofs C01.ChoiceProofs.
Import ListNotations.
Open Scope Q_scope.

(* area_0 + .. + area_(k-1) *)
Definition psum (k : nat) (areas : list Q) : Q := qsum (firstn k areas).

(* the index of the triangle chosen for the draw u = random.random() *)
Definition triangle_index (areas : list Q) (u : Q) : nat := choices_index (accumulate 0 areas) u.

Lemma qsum_cons w r : qsum (w :: r) == w + qsum r.
Proof. unfold qsum. simpl. reflexivity. Qed.

Lemma nth_accumulate ws : forall acc j, (j < length ws)%nat ->
  nth j (accumulate acc ws) 0 == acc + psum (S j) ws.
Proof.
  induction ws as [|w r IH]; intros acc j Hj; [simpl in Hj; lia|].
  destruct j as [|j].
  - unfold psum. simpl. unfold qsum. simpl. ring.
  - simpl in Hj. cbn [accumulate nth]. rewrite IH by lia. unfold psum.
    change (firstn (S (S j)) (w :: r)) with (w :: firstn (S j) r). rewrite qsum_cons. ring.
Qed.

Lemma psum_mono areas : (forall a, In a areas -> 0 < a) -> forall i j, (i <= j)%nat -> psum i areas <= psum j areas.
Proof.
  unfold psum. induction areas as [|w r IH]; intros Hp i j Hij.
  - rewrite !firstn_nil. lra.
  - destruct i as [|i]; destruct j as [|j]; try lia.
    + simpl. unfold qsum at 1. simpl. apply Qle_refl.
    + change (firstn 0 (w :: r)) with (@nil Q). change (firstn (S j) (w :: r)) with (w :: firstn j r).
      rewrite qsum_cons. unfold qsum at 1. simpl.
      assert (0 <= qsum (firstn j r)).
      { specialize (IH (fun a Ha => Hp a (or_intror Ha)) 0%nat j ltac:(lia)). simpl in IH. unfold qsum at 1 in IH. simpl in IH. exact IH. }
      pose proof (Hp w (or_introl eq_refl)). lra.
    + change (firstn (S i) (w :: r)) with (w :: firstn i r). change (firstn (S j) (w :: r)) with (w :: firstn j r).
      rewrite !qsum_cons. specialize (IH (fun a Ha => Hp a (or_intror Ha)) i j ltac:(lia)). lra.
Qed.

Lemma accumulate_sorted areas : (forall a, In a areas -> 0 < a) -> sorted (accumulate 0 areas).
Proof.
  intros Hp i j Hij. rewrite accumulate_length in Hij.
  rewrite !nth_accumulate by lia. pose proof (psum_mono areas Hp (S i) (S j) ltac:(lia)). lra.
Qed.

Lemma psum_all areas : psum (length areas) areas == qsum areas.
Proof. unfold psum. rewrite firstn_all. reflexivity. Qed.

Lemma psum_step areas i : (i < length areas)%nat -> psum (S i) areas == psum i areas + nth i areas 0.
Proof.
  revert i. induction areas as [|w r IH]; intros i Hi; [simpl in Hi; lia|].
  destruct i as [|i].
  - unfold psum. simpl. unfold qsum. simpl. ring.
  - simpl in Hi. unfold psum in *. change (firstn (S (S i)) (w :: r)) with (w :: firstn (S i) r).
    change (firstn (S i) (w :: r)) with (w :: firstn i r). rewrite !qsum_cons. cbn [nth]. rewrite IH by lia. ring.
Qed.

(* the weight lemma: for positive areas and u in [0,1), the triangle index i is in range and u * total lies in the
   half-open interval [psum i, psum i + area_i): triangle i is chosen with probability area_i / total *)
Theorem triangle_choice_interval areas u : areas <> [] -> (forall a, In a areas -> 0 < a) -> 0 <= u -> u < 1 ->
  let i := triangle_index areas u in
  (i < length areas)%nat /\
  psum i areas <= u * qsum areas /\ u * qsum areas < psum i areas + nth i areas 0.
Proof.
  intros NE Hp U0 U1. unfold triangle_index.
  assert (NEc : accumulate 0 areas <> []) by (destruct areas; [congruence | simpl; discriminate]).
  assert (Hlast : last (accumulate 0 areas) 0 == qsum areas) by (rewrite last_accumulate by assumption; ring).
  assert (Tpos : 0 < qsum areas).
  { destruct areas as [|w r]; [congruence|]. rewrite qsum_cons. pose proof (Hp w (or_introl eq_refl)).
    pose proof (psum_mono r (fun a Ha => Hp a (or_intror Ha)) 0%nat (length r) ltac:(lia)) as M.
    rewrite psum_all in M. unfold psum in M. simpl in M. unfold qsum at 1 in M. simpl in M. lra. }
  destruct (choices_interval (accumulate 0 areas) u (accumulate_sorted areas Hp) NEc U0) as (I1 & I2 & I3).
  { rewrite Hlast. nra. }
  rewrite accumulate_length in I1. set (i := choices_index (accumulate 0 areas) u) in *.
  split; [exact I1|]. rewrite nth_accumulate in I2 by exact I1. rewrite Hlast in I2. split.
  - destruct i as [|k].
    + unfold psum. simpl. unfold qsum at 1. simpl. nra.
    + specialize (I3 k ltac:(lia)). rewrite nth_accumulate in I3 by lia. rewrite Hlast in I3. lra.
  - rewrite <- psum_step by exact I1. lra.
Qed.

(* the intervals of two different triangles do not overlap and together cover [0, total): a partition of the draws *)
Theorem triangle_choice_unique areas u j : areas <> [] -> (forall a, In a areas -> 0 < a) -> 0 <= u -> u < 1 ->
  (j < length areas)%nat -> psum j areas <= u * qsum areas -> u * qsum areas < psum j areas + nth j areas 0 ->
  triangle_index areas u = j.
Proof.
  intros NE Hp U0 U1 Hj L R. destruct (triangle_choice_interval areas u NE Hp U0 U1) as (I1 & I2 & I3).
  set (i := triangle_index areas u) in *.
  destruct (Nat.lt_trichotomy i j) as [C|[C|C]]; [|exact C|]; exfalso.
  - pose proof (psum_mono areas Hp (S i) j ltac:(lia)). rewrite psum_step in H by exact I1. lra.
  - pose proof (psum_mono areas Hp (S j) i ltac:(lia)). rewrite psum_step in H by exact Hj. lra.
Qed.
