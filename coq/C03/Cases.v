(* C03 — evaluators for generated correspondence cases (kernel path: gen/C03_*.v).  Definitions only. *)
From Coq Require Import QArith Qabs List Bool ZArith Arith.
From Scenic Require Import C16.RegionAlg C16.Cases C03.Sampler C03.Placement.
Import ListNotations.
Open Scope Q_scope.

Definition mu1 : nat -> Q := fun _ => 1.
Fixpoint assocq (a : nat) (l : list (nat * Q)) : Q :=
  match l with [] => 0 | (k, v) :: r => if Nat.eqb a k then v else assocq a r end.

Inductive scase :=
| SDist (t : ptree) (natoms : nat) (expect : list (nat * Q)) (rej tol : Q)
| SRect (cx cy co si hw hl u1 u2 x y tol : Q)
| SDisc (c : pt) (R u r ct st : Q) (p : pt) (tol : Q)
| SSector (c : pt) (R u r ct st half va : Q) (p : pt) (tol : Q)
| SSeg (cum : list Q) (ux : Q) (idx : nat) (x1 y1 x2 y2 w x y tol : Q)
| SPlace (centre : bool) (cc s : pt) (M : mat) (t v p : pt) (tol : Q).

Definition eval_scase (c : scase) : bool :=
  match c with
  | SDist t n e rej tol =>
      forallb (fun a => close (prob t a) (assocq a e) tol) (seq 0 n) && close (prej t) rej tol
  | SRect cx cy co si hw hl u1 u2 x y tol =>
      let '(mx, my) := rect_sample cx cy co si hw hl u1 u2 in
      close mx x tol && close my y tol && rect_member cx cy co si (hw + tol) (hl + tol) mx my
  | SDisc c R u r ct st p tol =>
      let m := disc_sample c r ct st in
      close (sq r) (sq R * u) tol && close (px m) (px p) tol && close (py m) (py p) tol && Qeq_bool (pz m) (pz p)
      && disc_member c (R + tol) m
  | SSector c R u r ct st half va p tol =>
      let m := disc_sample c r ct st in
      close (sq r) (sq R * u) tol && close (px m) (px p) tol && close (py m) (py p) tol && Qeq_bool (pz m) (pz p)
      && sector_member c (R + tol) half va m
  | SSeg cum ux idx x1 y1 x2 y2 w x y tol =>
      let '(mx, my) := seg_sample x1 y1 x2 y2 w in
      Nat.eqb (bisect cum ux) idx && close mx x tol && close my y tol
  (* a vertex of the placed mesh is centre -> scale -> rotate -> translate of the input vertex, and the oracle's frame change
     takes it back *)
  | SPlace centre cc s M t v p tol =>
      close_pt (place centre cc s M t v) p tol && close_pt (unplace centre cc s M t (place centre cc s M t v)) v tol
  end.

Fixpoint sfailing (i : N) (cs : list scase) : list N :=
  match cs with
  | [] => []
  | c :: rest => if eval_scase c then sfailing (N.succ i) rest else i :: sfailing (N.succ i) rest
  end.
