(* C03 — lemmas about the sampler model. *)
From Coq Require Import QArith Qabs List Bool ZArith Arith Lia Lqa Psatz Morphisms Setoid.
From Scenic Require Import C16.RegionAlg C16.RegionAlgProofs C03.Sampler.
Import ListNotations.
Open Scope Q_scope.

(* ---------------------------------------------------------------- sums *)
Fixpoint sumf {X} (l : list X) (f : X -> Q) : Q := match l with [] => 0 | x :: l' => f x + sumf l' f end.

Lemma sumf_ext {X} (l : list X) f g : (forall x, In x l -> f x == g x) -> sumf l f == sumf l g.
Proof. induction l; simpl; intros H; [reflexivity|]. rewrite (H a) by (left; reflexivity). rewrite IHl; [reflexivity|]. intros; apply H; right; assumption. Qed.

Lemma sumf_scale {X} (l : list X) f c : sumf l (fun x => c * f x) == c * sumf l f.
Proof. induction l; simpl; [ring|]. rewrite IHl. ring. Qed.

Lemma sumf_plus {X} (l : list X) f g : sumf l (fun x => f x + g x) == sumf l f + sumf l g.
Proof. induction l; simpl; [ring|]. rewrite IHl. ring. Qed.

Lemma sumf_zero {X} (l : list X) f : (forall x, In x l -> f x == 0) -> sumf l f == 0.
Proof. induction l; simpl; intros H; [reflexivity|]. rewrite (H a) by (left; reflexivity). rewrite IHl; [ring|]. intros; apply H; right; assumption. Qed.

Lemma prob_choice_map {X} (l : list X) (w : X -> Q) (t : X -> ptree) a :
  prob (Choice (map (fun x => (w x, t x)) l)) a == sumf l (fun x => w x * prob (t x) a).
Proof. induction l; simpl; [reflexivity|]. simpl in IHl. rewrite IHl. reflexivity. Qed.

Lemma memb_In a r : memb a r = true <-> In a r.
Proof. unfold memb. rewrite existsb_exists. split; [intros [x [H E]]; apply Nat.eqb_eq in E; subst; assumption | intros H; exists a; split; [assumption | apply Nat.eqb_refl]]. Qed.

(* picking the term of atom a out of a sum over a duplicate-free list *)
Lemma sumf_pick (l : list nat) (f : nat -> Q) a : NoDup l ->
  sumf l (fun b => if Nat.eqb a b then f b else 0) == if memb a l then f a else 0.
Proof.
  induction l as [|x l IH]; simpl; intros Hnd; [reflexivity|]. inversion Hnd; subst.
  destruct (Nat.eqb a x) eqn:E.
  - apply Nat.eqb_eq in E. subst x. simpl. rewrite sumf_zero; [ring|].
    intros y Hy. destruct (Nat.eqb a y) eqn:E2; [apply Nat.eqb_eq in E2; subst; contradiction | reflexivity].
  - simpl. rewrite IH by assumption. ring.
Qed.

Section Measure.
  Variable mu : nat -> Q.
  Hypothesis mu_pos : forall a, 0 < mu a.

  Lemma size_sumf r : size mu r == sumf r mu.
  Proof. induction r; simpl; [reflexivity|]. rewrite IHr. reflexivity. Qed.

  Lemma size_nonneg r : 0 <= size mu r.
  Proof. induction r; simpl; [lra|]. pose proof (mu_pos a). lra. Qed.

  Lemma size_pos r : r <> [] -> 0 < size mu r.
  Proof. destruct r; [congruence|]. intros _. simpl. pose proof (mu_pos n). pose proof (size_nonneg r). lra. Qed.

  Lemma prob_draw r k a : prob (draw mu r k) a == sumf r (fun b => mu b / size mu r * prob (k b) a).
  Proof. unfold draw. apply prob_choice_map. Qed.

  (* ---------------- difference *)
  Theorem diff_law A B a : NoDup A ->
    prob (diff_tree mu A B) a == if memb a A && negb (memb a B) then mu a / size mu A else 0.
  Proof.
    intros Hnd. unfold diff_tree. rewrite prob_draw.
    rewrite (sumf_ext A _ (fun b => if Nat.eqb a b then (if memb b B then 0 else mu b / size mu A) else 0)).
    - rewrite sumf_pick by assumption. destruct (memb a A), (memb a B); simpl; reflexivity.
    - intros b _. destruct (memb b B); simpl; destruct (Nat.eqb a b); ring.
  Qed.

  (* ---------------- point set x region *)
  (* ---------------- union *)
  Lemma count_filter regs a : sumf regs (fun r => if memb a r then 1 else 0) == qnat (count regs a).
  Proof.
    unfold count, qnat. induction regs as [|r l IH]; simpl; [reflexivity|].
    destruct (memb a r); simpl length; rewrite IH.
    - rewrite Nat2Z.inj_succ. unfold Z.succ. rewrite inject_Z_plus. ring.
    - ring.
  Qed.

  Lemma total_nonneg regs : 0 <= total mu regs.
  Proof. induction regs; simpl; [lra|]. pose proof (size_nonneg a). lra. Qed.
  Lemma total_pos regs : regs <> [] -> (forall r, In r regs -> r <> []) -> 0 < total mu regs.
  Proof.
    destruct regs as [|r l]; [congruence|]. intros _ H. simpl.
    pose proof (size_pos r (H r (or_introl eq_refl))). pose proof (total_nonneg l). lra.
  Qed.

  Theorem union_law regs a : (forall r, In r regs -> NoDup r /\ r <> []) -> regs <> [] ->
    prob (union_tree mu regs) a == if Nat.ltb 0 (count regs a) then mu a / total mu regs else 0.
  Proof.
    intros Hr Hne. unfold union_tree. rewrite prob_choice_map.
    set (T := total mu regs). set (c := qnat (count regs a)).
    rewrite (sumf_ext regs _ (fun r => (mu a / T) * (1 / c) * (if memb a r then 1 else 0))).
    - rewrite sumf_scale, count_filter. fold c.
      destruct (Nat.ltb 0 (count regs a)) eqn:E.
      + apply Nat.ltb_lt in E. assert (Hc0 : inject_Z 0 < c) by (unfold c, qnat; rewrite <- Zlt_Qlt; lia).
        assert (Hc : ~ c == 0) by (intros H0; rewrite H0 in Hc0; discriminate).
        assert (HT : 0 < T) by (apply total_pos; [assumption | intros r Hin; apply (Hr r Hin)]).
        field. split; [lra | exact Hc].
      + apply Nat.ltb_ge in E. assert (count regs a = 0)%nat by lia. unfold c. rewrite H. unfold qnat. simpl. ring.
    - intros r Hin. destruct (Hr r Hin) as [Hnd Hnn]. rewrite prob_draw.
      rewrite (sumf_ext r _ (fun b => if Nat.eqb a b then mu b / size mu r * (1 / qnat (count regs b)) else 0)).
      + rewrite sumf_pick by assumption. fold c. pose proof (size_pos r Hnn).
        destruct (memb a r); [unfold Qdiv; generalize (/ T); generalize (/ c); intros ic iT; field; lra | ring].
      + intros b _. simpl. destruct (Nat.eqb a b); ring.
  Qed.

  (* ---------------- intersection (two operands) *)
  Lemma sumf_filter_size (r : region) (c : nat -> bool) s :
    sumf r (fun b => if c b then 0 else mu b / s) == size mu (filter (fun b => negb (c b)) r) / s.
  Proof.
    induction r as [|x r IH]; simpl; [unfold Qdiv; ring|]. rewrite IH. destruct (c x); simpl; unfold Qdiv; ring.
  Qed.

  Theorem inter_law A B a : NoDup A -> NoDup B ->
    prob (inter_tree mu A B) a ==
    if memb a A && memb a B
    then mu a * (1 / size mu A + size mu (filter (fun b => negb (memb b B)) A) / size mu A * (1 / size mu B))
    else 0.
  Proof.
    intros HA HB. unfold inter_tree. rewrite prob_draw.
    assert (EPB : prob (draw mu B (fun b' => if memb b' A then Ret b' else Rej)) a
                  == if memb a B && memb a A then mu a / size mu B else 0).
    { rewrite prob_draw.
      rewrite (sumf_ext B _ (fun b => if Nat.eqb a b then (if memb b A then mu b / size mu B else 0) else 0)).
      - rewrite sumf_pick by assumption. destruct (memb a B), (memb a A); reflexivity.
      - intros b _. destruct (memb b A); simpl; destruct (Nat.eqb a b); ring. }
    remember (prob (draw mu B (fun b' => if memb b' A then Ret b' else Rej)) a) as PB eqn:HPB.
    rewrite (sumf_ext A _ (fun b => (if Nat.eqb a b then (if memb b B then mu b / size mu A else 0) else 0)
                                    + PB * (if memb b B then 0 else mu b / size mu A))).
    - rewrite sumf_plus, sumf_pick by assumption. rewrite sumf_scale, sumf_filter_size, EPB.
      destruct (memb a A), (memb a B); simpl; unfold Qdiv; ring.
    - intros b _. destruct (memb b B).
      + simpl. destruct (Nat.eqb a b); ring.
      + rewrite <- HPB. destruct (Nat.eqb a b); ring.
  Qed.

  Lemma memb_nonempty_early a r : memb a r = true -> r <> [].
  Proof. destruct r; [discriminate | congruence]. Qed.

  (* ---------------- intersection (n operands; the sampled operands [todo] are among [all]) *)
  Lemma inall_memb all a r : In r all -> inall all a = true -> memb a r = true.
  Proof. unfold inall. rewrite forallb_forall. intros Hin H. apply H. exact Hin. Qed.

  Theorem inter_n_law all todo a : (forall r, In r todo -> NoDup r /\ In r all) ->
    prob (inter_tree_n mu all todo) a == if inall all a then mu a * inter_w mu all todo else 0.
  Proof.
    induction todo as [|r rest IH]; intros H.
    - simpl. destruct (inall all a); ring.
    - destruct (H r (or_introl eq_refl)) as [Hnd Hin].
      assert (IH' := IH (fun r' Hr' => H r' (or_intror Hr'))). clear IH.
      cbn [inter_tree_n inter_w]. rewrite prob_draw.
      remember (prob (inter_tree_n mu all rest) a) as PR eqn:HPR.
      rewrite (sumf_ext r _ (fun b => (if Nat.eqb a b then (if inall all b then mu b / size mu r else 0) else 0)
                                      + PR * (if inall all b then 0 else mu b / size mu r))).
      + rewrite sumf_plus, sumf_pick by assumption. rewrite sumf_scale, sumf_filter_size, IH'.
        destruct (inall all a) eqn:E.
        * rewrite (inall_memb all a r Hin E). unfold Qdiv. ring.
        * destruct (memb a r); ring.
      + intros b _. fold (inall all b). destruct (inall all b).
        * simpl. destruct (Nat.eqb a b); ring.
        * rewrite <- HPR. destruct (Nat.eqb a b); ring.
  Qed.

  Lemma inter_w_nonneg all todo : 0 <= inter_w mu all todo.
  Proof.
    induction todo as [|r rest IH]; cbn [inter_w]; [lra|].
    pose proof (size_nonneg r) as SP.
    pose proof (size_nonneg (filter (fun b => negb (inall all b)) r)) as SF.
    assert (I : 0 <= / size mu r) by (apply Qinv_le_0_compat; exact SP).
    assert (0 <= 1 / size mu r) by (unfold Qdiv; apply Qmult_le_0_compat; [lra | exact I]).
    assert (0 <= size mu (filter (fun b => negb (inall all b)) r) / size mu r) by (unfold Qdiv; apply Qmult_le_0_compat; assumption).
    set (X := 1 / size mu r) in *. set (Y := size mu (filter (fun b => negb (inall all b)) r) / size mu r) in *.
    set (W := inter_w mu all rest) in *. assert (0 <= Y * W) by (apply Qmult_le_0_compat; lra). lra.
  Qed.

  Lemma inter_w_pos all r rest : r <> [] -> 0 < inter_w mu all (r :: rest).
  Proof.
    intros Hne. cbn [inter_w]. pose proof (size_pos r Hne) as SP. pose proof (inter_w_nonneg all rest) as WN.
    pose proof (size_nonneg (filter (fun b => negb (inall all b)) r)) as SF.
    assert (0 < 1 / size mu r) by (apply Qlt_shift_div_l; lra).
    assert (0 <= size mu (filter (fun b => negb (inall all b)) r) / size mu r) by (apply Qle_shift_div_l; lra).
    set (X := 1 / size mu r) in *. set (Y := size mu (filter (fun b => negb (inall all b)) r) / size mu r) in *.
    set (W := inter_w mu all rest) in *. assert (0 <= Y * W) by (apply Qmult_le_0_compat; lra). lra.
  Qed.

  Theorem inter_n_member all todo a : (forall r, In r todo -> NoDup r /\ In r all) ->
    ~ prob (inter_tree_n mu all todo) a == 0 -> forall r, In r all -> memb a r = true.
  Proof.
    intros H Hp r Hin. rewrite inter_n_law in Hp by assumption.
    destruct (inall all a) eqn:E; [apply (inall_memb all a r Hin E) | exfalso; apply Hp; reflexivity].
  Qed.

  Theorem inter_n_support all r rest a : (forall r', In r' (r :: rest) -> NoDup r' /\ In r' all) ->
    (forall r', In r' all -> memb a r' = true) -> 0 < prob (inter_tree_n mu all (r :: rest)) a.
  Proof.
    intros H Hall. rewrite inter_n_law by assumption.
    assert (E : inall all a = true) by (unfold inall; apply forallb_forall; exact Hall). rewrite E.
    destruct (H r (or_introl eq_refl)) as [_ Hin].
    pose proof (inter_w_pos all r rest (memb_nonempty_early a r (Hall r Hin))). pose proof (mu_pos a). nra.
  Qed.

  Theorem inter_n_uniform all todo a a' : (forall r, In r todo -> NoDup r /\ In r all) ->
    (forall r, In r all -> memb a r = true) -> (forall r, In r all -> memb a' r = true) ->
    prob (inter_tree_n mu all todo) a * mu a' == prob (inter_tree_n mu all todo) a' * mu a.
  Proof.
    intros H H1 H2. rewrite !inter_n_law by assumption.
    assert (E1 : inall all a = true) by (unfold inall; apply forallb_forall; exact H1).
    assert (E2 : inall all a' = true) by (unfold inall; apply forallb_forall; exact H2).
    rewrite E1, E2. ring.
  Qed.

  (* ---------------- polygon: triangle by cumulative areas, then bounding-box rejection *)
  Lemma size_split (r : region) (c : nat -> bool) :
    size mu r == size mu (filter c r) + size mu (filter (fun b => negb (c b)) r).
  Proof. induction r as [|x r IH]; simpl; [ring|]. destruct (c x); simpl; rewrite IH; ring. Qed.

  Theorem retry_law n B T a : NoDup B ->
    prob (retry_tree mu n B T) a == if memb a B && memb a T then mu a / size mu B * geom (miss mu B T) n else 0.
  Proof.
    intros Hnd. induction n as [|n IH].
    - simpl. destruct (memb a B && memb a T); ring.
    - cbn [retry_tree geom]. rewrite prob_draw.
      remember (prob (retry_tree mu n B T) a) as PR eqn:HPR.
      rewrite (sumf_ext B _ (fun b => (if Nat.eqb a b then (if memb b T then mu b / size mu B else 0) else 0)
                                      + PR * (if memb b T then 0 else mu b / size mu B))).
      + rewrite sumf_plus, sumf_pick by assumption. rewrite sumf_scale, sumf_filter_size, IH. unfold miss.
        destruct (memb a B), (memb a T); simpl; unfold Qdiv; ring.
      + intros b _. destruct (memb b T).
        * simpl. destruct (Nat.eqb a b); ring.
        * rewrite <- HPR. destruct (Nat.eqb a b); ring.
  Qed.

  Lemma geom_closed q n : (1 - q) * geom q n == 1 - qpow q n.
  Proof. induction n as [|n IH]; simpl; [ring|]. transitivity ((1 - q) + q * ((1 - q) * geom q n)); [ring|]. rewrite IH. ring. Qed.

  Lemma hit_share B T : B <> [] -> size mu (tri_atoms B T) == (1 - miss mu B T) * size mu B.
  Proof.
    intros Hne. unfold miss, tri_atoms. pose proof (size_pos B Hne) as SP.
    pose proof (size_split B (fun b => memb b T)) as S. cbv beta in S.
    assert (F : (1 - size mu (filter (fun b => negb (memb b T)) B) / size mu B) * size mu B
                == size mu B - size mu (filter (fun b => negb (memb b T)) B)) by (field; lra).
    rewrite F. lra.
  Qed.

  Lemma memb_tri a B T : memb a (tri_atoms B T) = memb a B && memb a T.
  Proof. apply eq_true_iff_eq. unfold tri_atoms. rewrite andb_true_iff, !memb_In, filter_In, memb_In. tauto. Qed.

  (* every atom of triangle (B, T) is returned with probability mu a / (total area) * (1 - q^n), q^n = the probability
     that the rejection loop of that triangle is still running after n rounds: uniform w.r.t. the area of the POLYGON *)
  Theorem poly_law n tris a : (forall bt, In bt tris -> NoDup (fst bt) /\ fst bt <> []) ->
    prob (poly_tree mu n tris) a ==
    sumf tris (fun bt => if memb a (tri_atoms (fst bt) (snd bt))
                         then mu a / tri_total mu tris * (1 - qpow (miss mu (fst bt) (snd bt)) n) else 0).
  Proof.
    intros H. unfold poly_tree. rewrite prob_choice_map. apply sumf_ext. intros [B T] Hin. cbn [fst snd].
    destruct (H (B, T) Hin) as [Hnd Hne]. cbn [fst snd] in Hnd, Hne.
    rewrite retry_law by assumption. rewrite memb_tri. destruct (memb a B && memb a T); [|ring].
    rewrite hit_share by assumption. pose proof (size_pos B Hne) as SP.
    rewrite <- geom_closed. unfold Qdiv. generalize (/ tri_total mu tris). intros iT. field. lra.
  Qed.

  (* ---------------- consequences: membership, support, uniformity *)
  Lemma memb_nonempty a r : memb a r = true -> r <> [].
  Proof. destruct r; [discriminate | congruence]. Qed.

  Theorem diff_member A B a : NoDup A -> ~ prob (diff_tree mu A B) a == 0 -> memb a A = true /\ memb a B = false.
  Proof. intros Hnd H. rewrite diff_law in H by assumption. destruct (memb a A), (memb a B); simpl in H; try (exfalso; apply H; reflexivity). split; reflexivity. Qed.

  Theorem diff_support A B a : NoDup A -> memb a A = true -> memb a B = false -> 0 < prob (diff_tree mu A B) a.
  Proof.
    intros Hnd HA HB. rewrite diff_law by assumption. rewrite HA, HB. simpl.
    pose proof (size_pos A (memb_nonempty _ _ HA)). pose proof (mu_pos a). apply Qlt_shift_div_l; lra.
  Qed.

  (* uniform w.r.t. mu on the result:  P(a) / P(a') = mu a / mu a'  *)
  Theorem diff_uniform A B a a' : NoDup A -> memb a A = true -> memb a B = false -> memb a' A = true -> memb a' B = false ->
    prob (diff_tree mu A B) a * mu a' == prob (diff_tree mu A B) a' * mu a.
  Proof. intros Hnd H1 H2 H3 H4. rewrite !diff_law by assumption. rewrite H1, H2, H3, H4. simpl. unfold Qdiv. ring. Qed.

  Theorem union_member regs a : (forall r, In r regs -> NoDup r /\ r <> []) -> regs <> [] ->
    ~ prob (union_tree mu regs) a == 0 -> exists r, In r regs /\ memb a r = true.
  Proof.
    intros Hr Hne H. rewrite union_law in H by assumption. destruct (Nat.ltb 0 (count regs a)) eqn:E; [|exfalso; apply H; reflexivity].
    apply Nat.ltb_lt in E. unfold count in E. destruct (filter (memb a) regs) as [|r l] eqn:F; [simpl in E; lia|].
    exists r. assert (In r (filter (memb a) regs)) by (rewrite F; left; reflexivity). apply filter_In in H0. exact H0.
  Qed.

  Lemma count_pos regs a r : In r regs -> memb a r = true -> (0 < count regs a)%nat.
  Proof.
    intros Hin Hm. unfold count. assert (In r (filter (memb a) regs)) by (apply filter_In; split; assumption).
    destruct (filter (memb a) regs); [contradiction | simpl; lia].
  Qed.

  Theorem union_support regs a r : (forall r, In r regs -> NoDup r /\ r <> []) -> In r regs -> memb a r = true ->
    0 < prob (union_tree mu regs) a.
  Proof.
    intros Hr Hin Hm. assert (Hne : regs <> []) by (destruct regs; [contradiction | congruence]).
    rewrite union_law by assumption. pose proof (count_pos _ _ _ Hin Hm) as Hc. apply Nat.ltb_lt in Hc. rewrite Hc.
    assert (0 < total mu regs) by (apply total_pos; [assumption | intros r' Hr'; apply (Hr r' Hr')]).
    pose proof (mu_pos a). apply Qlt_shift_div_l; lra.
  Qed.

  (* the union sampler weights by the measure of the UNION: every atom of the union has probability
     mu a / (sum of operand sizes), whatever the number of operands containing it *)
  Theorem union_uniform regs a a' r r' : (forall r, In r regs -> NoDup r /\ r <> []) ->
    In r regs -> memb a r = true -> In r' regs -> memb a' r' = true ->
    prob (union_tree mu regs) a * mu a' == prob (union_tree mu regs) a' * mu a.
  Proof.
    intros Hr Hin Hm Hin' Hm'. assert (Hne : regs <> []) by (destruct regs; [contradiction | congruence]).
    rewrite !union_law by assumption.
    pose proof (count_pos _ _ _ Hin Hm) as Hc. apply Nat.ltb_lt in Hc. rewrite Hc.
    pose proof (count_pos _ _ _ Hin' Hm') as Hc'. apply Nat.ltb_lt in Hc'. rewrite Hc'. unfold Qdiv. ring.
  Qed.

  Theorem inter_member A B a : NoDup A -> NoDup B -> ~ prob (inter_tree mu A B) a == 0 -> memb a A = true /\ memb a B = true.
  Proof. intros HA HB H. rewrite inter_law in H by assumption. destruct (memb a A), (memb a B); simpl in H; try (exfalso; apply H; reflexivity). split; reflexivity. Qed.

  Theorem inter_support A B a : NoDup A -> NoDup B -> memb a A = true -> memb a B = true -> 0 < prob (inter_tree mu A B) a.
  Proof.
    intros HA HB H1 H2. rewrite inter_law by assumption. rewrite H1, H2. simpl.
    pose proof (size_pos A (memb_nonempty _ _ H1)) as SA. pose proof (size_pos B (memb_nonempty _ _ H2)) as SB.
    pose proof (size_nonneg (filter (fun b => negb (memb b B)) A)) as SF. pose proof (mu_pos a).
    assert (0 < 1 / size mu A) by (apply Qlt_shift_div_l; lra).
    assert (0 <= size mu (filter (fun b => negb (memb b B)) A) / size mu A) by (apply Qle_shift_div_l; lra).
    assert (0 < 1 / size mu B) by (apply Qlt_shift_div_l; lra).
    set (X := 1 / size mu A) in *. set (Y := size mu (filter (fun b => negb (memb b B)) A) / size mu A) in *.
    set (Z := 1 / size mu B) in *. set (m := mu a) in *.
    assert (0 <= Y * Z) by (apply Qmult_le_0_compat; lra).
    clearbody X Y Z m. nra.
  Qed.

  Theorem inter_uniform A B a a' : NoDup A -> NoDup B ->
    memb a A = true -> memb a B = true -> memb a' A = true -> memb a' B = true ->
    prob (inter_tree mu A B) a * mu a' == prob (inter_tree mu A B) a' * mu a.
  Proof. intros HA HB H1 H2 H3 H4. rewrite !inter_law by assumption. rewrite H1, H2, H3, H4. simpl. ring. Qed.
End Measure.

(* ---------------- point sets *)
Theorem ps_law P a : NoDup P -> P <> [] ->
  prob (ps_tree P) a == if memb a P then 1 / qnat (length P) else 0.
Proof.
  intros Hnd Hne. unfold ps_tree. rewrite prob_choice_map.
  rewrite (sumf_ext P _ (fun b => if Nat.eqb a b then 1 / qnat (length P) else 0)).
  - apply sumf_pick. assumption.
  - intros b _. simpl. destruct (Nat.eqb a b); ring.
Qed.

Lemma filter_NoDup {X} (f : X -> bool) l : NoDup l -> NoDup (filter f l).
Proof. induction 1; simpl; [constructor|]. destruct (f x); [constructor; [rewrite filter_In; tauto | assumption] | assumption]. Qed.

Theorem ps_inter_law P O a : NoDup P ->
  prob (ps_inter_tree P O) a ==
  if memb a P && memb a O then 1 / qnat (length (filter (fun b => memb b O) P)) else 0.
Proof.
  intros Hnd. unfold ps_inter_tree. set (cand := filter (fun b => memb b O) P).
  assert (Hm : memb a cand = memb a P && memb a O).
  { apply eq_true_iff_eq. rewrite andb_true_iff, !memb_In. unfold cand. rewrite filter_In, memb_In. tauto. }
  assert (Hndc : NoDup cand) by (apply filter_NoDup; assumption).
  clearbody cand. destruct cand as [|x l].
  - simpl in Hm. rewrite <- Hm. reflexivity.
  - rewrite <- Hm. rewrite (prob_choice_map (x :: l) (fun _ => 1 / qnat (length (x :: l))) (fun b => Ret b)).
    rewrite (sumf_ext (x :: l) _ (fun b => if Nat.eqb a b then 1 / qnat (length (x :: l)) else 0)).
    + apply sumf_pick. assumption.
    + intros b _. simpl. destruct (Nat.eqb a b); ring.
Qed.

(* PointSetRegion x region: only common points, every common point, all equally likely; rejection iff none *)
Theorem ps_inter_member P O a : NoDup P -> ~ prob (ps_inter_tree P O) a == 0 -> memb a P = true /\ memb a O = true.
Proof.
  intros Hnd H. rewrite ps_inter_law in H by assumption.
  destruct (memb a P), (memb a O); simpl in H; try (exfalso; apply H; reflexivity). split; reflexivity.
Qed.

Theorem ps_inter_support P O a : NoDup P -> memb a P = true -> memb a O = true -> 0 < prob (ps_inter_tree P O) a.
Proof.
  intros Hnd H1 H2. rewrite ps_inter_law by assumption. rewrite H1, H2. simpl.
  assert (In a (filter (fun b => memb b O) P)) as Hin by (apply filter_In; split; [apply memb_In; assumption | assumption]).
  destruct (filter (fun b => memb b O) P) as [|x l]; [contradiction|].
  assert (0 < qnat (length (x :: l))) by (unfold qnat; change 0 with (inject_Z 0); rewrite <- Zlt_Qlt; simpl length; lia).
  apply Qlt_shift_div_l; lra.
Qed.

Theorem ps_inter_uniform P O a a' : NoDup P -> memb a P = true -> memb a O = true -> memb a' P = true -> memb a' O = true ->
  prob (ps_inter_tree P O) a == prob (ps_inter_tree P O) a'.
Proof. intros Hnd H1 H2 H3 H4. rewrite !ps_inter_law by assumption. rewrite H1, H2, H3, H4. reflexivity. Qed.

Theorem ps_inter_reject P O : prej (ps_inter_tree P O) == if existsb (fun b => memb b O) P then 0 else 1.
Proof.
  unfold ps_inter_tree. assert (E : existsb (fun b => memb b O) P = negb (match filter (fun b => memb b O) P with [] => true | _ => false end)).
  { induction P as [|x P IH]; simpl; [reflexivity|]. destruct (memb x O); simpl; [reflexivity | exact IH]. }
  rewrite E. destruct (filter (fun b => memb b O) P) as [|x l]; [reflexivity|]. simpl negb. cbv iota.
  generalize (1 / qnat (length (x :: l))). intros w. generalize (x :: l). intros c.
  induction c as [|y c IH]; [reflexivity|]. cbn [map prej] in *. rewrite IH. simpl. ring.
Qed.

(* ---------------------------------------------------------------- primitives *)
Lemma uniform_range a b u : a <= b -> 0 <= u <= 1 -> a <= uniform a b u <= b.
Proof. intros Hab [H0 H1]. unfold uniform. split; nra. Qed.

Theorem rect_sample_member cx cy co si hw hl u1 u2 :
  co * co + si * si == 1 -> 0 <= hw -> 0 <= hl -> 0 <= u1 <= 1 -> 0 <= u2 <= 1 ->
  let '(x, y) := rect_sample cx cy co si hw hl u1 u2 in rect_member cx cy co si hw hl x y = true.
Proof.
  intros Hcs Hw Hl Hu1 Hu2. unfold rect_sample, rect_member, rect_local.
  pose proof (uniform_range (- hw) hw u1 ltac:(lra) Hu1) as R1.
  pose proof (uniform_range (- hl) hl u2 ltac:(lra) Hu2) as R2.
  set (rx := uniform (- hw) hw u1) in *. set (ry := uniform (- hl) hl u2) in *.
  rewrite andb_true_iff, !Qle_bool_iff. split; apply Qabs_Qle_condition.
  - assert (E : co * (cx + (co * rx - si * ry) - cx) + si * (cy + (si * rx + co * ry) - cy) == (co * co + si * si) * rx) by ring.
    rewrite E, Hcs. lra.
  - assert (E : co * (cy + (si * rx + co * ry) - cy) - si * (cx + (co * rx - si * ry) - cx) == (co * co + si * si) * ry) by ring.
    rewrite E, Hcs. lra.
Qed.

Theorem disc_sample_member c R r ct st u :
  0 <= u <= 1 -> sq r == sq R * u -> ct * ct + st * st == 1 ->
  disc_member c R (disc_sample c r ct st) = true.
Proof.
  intros [H0 H1] Hr Hcs. unfold disc_member, disc_sample. simpl.
  rewrite andb_true_iff, Qeq_bool_iff, Qle_bool_iff. split; [reflexivity|].
  unfold d2sq. assert (E : sq (px c + r * ct - px c) + sq (py c + r * st - py c) == sq r * (ct * ct + st * st)) by (unfold sq; ring).
  rewrite E, Hcs, Hr. pose proof (sq_nonneg R). nra.
Qed.

Theorem sector_sample_member c R r ct st u half u2 :
  0 <= u <= 1 -> sq r == sq R * u -> ct * ct + st * st == 1 -> 0 <= half -> 0 <= u2 <= 1 ->
  sector_member c R half (uniform (- half) half u2) (disc_sample c r ct st) = true.
Proof.
  intros Hu Hr Hcs Hh Hu2. pose proof (disc_sample_member c R r ct st u Hu Hr Hcs) as D.
  unfold disc_member in D. unfold sector_member. rewrite andb_true_iff in D. destruct D as [D1 D2].
  rewrite D1, D2, andb_true_r, andb_true_l. apply Qle_bool_iff. apply Qabs_Qle_condition.
  pose proof (uniform_range (- half) half u2 ltac:(lra) Hu2). lra.
Qed.

(* the radial law: triangular(0, R, R) = R sqrt(u); the event {r <= rho} is the event
   {u <= rho^2 / R^2}, of probability rho^2 / R^2 under a uniform u: the area measure of the disc *)
Theorem disc_radial_law R r u rho :
  0 < R -> 0 <= r -> 0 <= rho -> sq r == sq R * u -> (r <= rho <-> u <= sq rho / sq R).
Proof.
  intros HR Hr Hrho E. assert (HR2 : 0 < sq R) by (unfold sq; nra).
  assert (Eu : u == sq r / sq R) by (rewrite E; field; lra).
  rewrite Eu. split; intros H.
  - apply Qmult_le_r with (z := sq R); [assumption|].
    assert (X1 : sq r / sq R * sq R == sq r) by (field; lra). assert (X2 : sq rho / sq R * sq R == sq rho) by (field; lra).
    rewrite X1, X2. unfold sq. nra.
  - assert (sq r <= sq rho).
    { apply Qmult_le_r with (z := sq R) in H; [|assumption].
      assert (X1 : sq r / sq R * sq R == sq r) by (field; lra). assert (X2 : sq rho / sq R * sq R == sq rho) by (field; lra).
      rewrite X1, X2 in H. exact H. }
    destruct (Qlt_le_dec rho r) as [C|C]; [|exact C]. exfalso. unfold sq in *. nra.
Qed.

(* polyline: the sampled point lies on the chosen segment *)
Theorem seg_sample_on_segment x1 y1 x2 y2 w : 0 <= w <= 1 ->
  let '(x, y) := seg_sample x1 y1 x2 y2 w in
  (x - x1) * (y2 - y1) == (y - y1) * (x2 - x1) /\
  (x - x1) * (x - x2) + (y - y1) * (y - y2) <= 0.
Proof.
  intros [H0 H1]. unfold seg_sample. split; [ring|].
  assert (E : (x1 * (1 - w) + x2 * w - x1) * (x1 * (1 - w) + x2 * w - x2) + (y1 * (1 - w) + y2 * w - y1) * (y1 * (1 - w) + y2 * w - y2)
              == - (w * (1 - w)) * (sq (x2 - x1) + sq (y2 - y1))) by (unfold sq; ring).
  rewrite E. pose proof (sq_nonneg (x2 - x1)). pose proof (sq_nonneg (y2 - y1)).
  assert (Hw : 0 <= w * (1 - w)) by nra. set (S := sq (x2 - x1) + sq (y2 - y1)) in *. assert (HS : 0 <= S) by (unfold S; lra).
  generalize dependent (w * (1 - w)). intros k _ Hk. nra.
Qed.

(* random.choices(cum_weights): index i is chosen exactly when cum[i-1] <= x < cum[i] *)
Theorem bisect_spec cum x i : bisect cum x = i ->
  (forall j c, (j < i)%nat -> nth_error cum j = Some c -> c <= x) /\
  (forall c, nth_error cum i = Some c -> x < c).
Proof.
  revert i. induction cum as [|c0 l IH]; simpl; intros i Hi.
  - subst i. split; [intros; lia | intros c H; discriminate].
  - destruct (Qlt_le_dec x c0) as [Hlt|Hle].
    + subst i. split; [intros; lia | intros c H; simpl in H; inversion H; subst; assumption].
    + destruct i as [|i]; [discriminate|]. injection Hi as Hi. destruct (IH i Hi) as [I1 I2]. split.
      * intros j c Hj Hn. destruct j; simpl in Hn; [inversion Hn; subst; assumption | apply (I1 j c); [lia | assumption]].
      * intros c Hn. simpl in Hn. apply I2. assumption.
Qed.
