(* C13 — lemmas about the try-interrupt scheduler and the guard call sites of DynCore
   (coq/C12/Dyn.v: run_body's FTry case = runTryInterrupt + InterruptBlock.step, compile_handlers = the
   compiler's reversal of conditions/handlers, FCheck/SCheck = checkInvariants call sites). *)
From Coq Require Import List Arith Bool QArith Lia.
From Scenic Require Import C12.Dyn C12.DynProofs.
Import ListNotations.
Local Open Scope nat_scope.

Definition hstate := (cond * list stmt * option kont)%type.
(* `interrupt.isEnabled or interrupt.isRunning` *)
Definition eligible (w : world) (t : nat) (h : hstate) : bool :=
  let '(c, _, hk) := h in eval w t c || (match hk with Some _ => true | None => false end).

(* ---------------------------------------------------------------- which block runs *)
Lemma pick_handler_split : forall w t hs i, pick_handler w t hs = Some i ->
  exists pre h post, hs = pre ++ h :: post /\ length pre = i /\ eligible w t h = true /\
                     Forall (fun x => eligible w t x = false) pre.
Proof.
  induction hs as [|[[c b] hk] r IH]; intros i H; simpl in H; [discriminate|].
  destruct (eval w t c || match hk with Some _ => true | None => false end) eqn:E.
  - inversion H; subst. exists [], (c, b, hk), r. repeat split; auto.
  - destruct (pick_handler w t r) as [j|] eqn:PJ; [|discriminate]. simpl in H. inversion H; subst.
    destruct (IH j eq_refl) as [pre [h [post [-> [L [EL F]]]]]].
    exists ((c, b, hk) :: pre), h, post. simpl. repeat split; auto.
Qed.

Lemma pick_handler_none : forall w t hs, pick_handler w t hs = None ->
  Forall (fun x => eligible w t x = false) hs.
Proof.
  induction hs as [|[[c b] hk] r IH]; intros H; simpl in H; [constructor|].
  destruct (eval w t c || match hk with Some _ => true | None => false end) eqn:E; [discriminate|].
  destruct (pick_handler w t r); [discriminate|]. constructor; auto.
Qed.

(* in SOURCE order (the runtime list is the reversed source list): the selected handler is the
   eligible one whose clause comes latest; if none is eligible the body runs *)
Lemma preempt_latest_source : forall w t (src : list hstate) i, pick_handler w t (rev src) = Some i ->
  exists before h after, src = before ++ h :: after /\ length after = i /\ eligible w t h = true /\
                         Forall (fun x => eligible w t x = false) after.
Proof.
  intros w t src i H. apply pick_handler_split in H. destruct H as [pre [h [post [E [L [EL F]]]]]].
  exists (rev post), h, (rev pre). repeat split; auto.
  - rewrite <- (rev_involutive src), E, rev_app_distr. simpl. rewrite <- app_assoc. reflexivity.
  - rewrite rev_length. exact L.
  - apply Forall_rev. exact F.
Qed.

Lemma body_runs_source : forall w t (src : list hstate), pick_handler w t (rev src) = None ->
  Forall (fun x => eligible w t x = false) src.
Proof. intros. apply pick_handler_none in H. rewrite <- (rev_involutive src). apply Forall_rev. exact H. Qed.

Lemma set_handler_other : forall hs i v j, i <> j -> nth_error (set_handler hs i v) j = nth_error hs j.
Proof.
  induction hs as [|[[c b] hk] r IH]; intros i v j NE; simpl; auto.
  destruct i, j; simpl; auto; try congruence.
Qed.

Lemma set_handler_same : forall hs i v c b hk, nth_error hs i = Some (c, b, hk) ->
  nth_error (set_handler hs i v) i = Some (c, b, v).
Proof.
  induction hs as [|[[c0 b0] hk0] r IH]; intros i v c b hk H; destruct i; simpl in *; try discriminate.
  - inversion H; subst; auto.
  - eauto.
Qed.

(* ---------------------------------------------------------------- one round of runTryInterrupt *)
(* the complete case analysis of a round, given what the selected block did *)
Lemma try_round : forall f P w t m ib o subs fresh o' body bk hs k' out e subs1,
  negb fresh && negb (all_true w t (inv_of P o')) = false ->
  run f P w t m true o' subs (selected_kont body bk hs (pick_handler w t hs)) = (out, e, subs1) ->
  run (S f) P w t m ib o subs (FTry fresh o' body bk hs :: k') =
  let sel := pick_handler w t hs in
  let subs_end := match m with MScen _ => [] | _ => subs1 end in
  match out with
  | OYield y kb' =>
      (OYield y (match sel with
                 | None => FTry false o' body (Some kb') hs
                 | Some i => FTry false o' body bk (set_handler hs i (Some kb'))
                 end :: k'), e, subs1)
  | ODone | OBlock KFinished =>
      match sel with
      | Some i => emit e (run f P w t m ib o' subs1 (FTry true o' body bk (set_handler hs i None) :: k'))
      | None => emit e (run f P w t m ib o' subs_end k')
      end
  | OBlock KAbort | OBlock KNone => emit e (run f P w t m ib o' subs_end k')
  | OBlock KBreak =>
      match unwind_loop k' with
      | Some (_, _, k'') => emit e (run f P w t m ib o' subs_end k'')
      | None => if ib then (OBlock KBreak, e, subs_end) else (OError, e, subs_end)
      end
  | OBlock KContinue =>
      match unwind_loop k' with
      | Some (c, b, k'') => emit e (run f P w t m ib o' subs_end (FWhile c b :: k''))
      | None => if ib then (OBlock KContinue, e, subs_end) else (OError, e, subs_end)
      end
  | OBlock KReturn =>
      match unwind_fun k' with
      | Some k'' => emit e (run f P w t m ib o' subs_end k'')
      | None => if ib then (OBlock KNone, e, subs_end) else (ODone, e, subs_end)
      end
  | other => (other, e, subs1)
  end.
Proof.
  intros f P w t m ib o subs fresh o' body bk hs k' out e subs1 HI HR.
  rewrite run_S. unfold run_body. rewrite HI. cbv zeta. rewrite HR. reflexivity.
Qed.

(* a violated invariant of the behaviour owning the statement is reported at every resumption of the
   statement — also while a sub-behaviour invoked in one of its blocks is running *)
Lemma try_resume_checks_invariant : forall f P w t m ib o subs o' body bk hs k',
  all_true w t (inv_of P o') = false ->
  run (S f) P w t m ib o subs (FTry false o' body bk hs :: k') = (OViolation false o', [], subs).
Proof. intros. rewrite run_S. unfold run_body. rewrite H. reflexivity. Qed.

(* ---------------------------------------------------------------- corollaries named as in the design *)
(* resume_exact: when a handler pre-empts, the body's continuation (and every other handler's) is
   stored unchanged; it is what is resumed when that block is selected again (try_round reads it back) *)
Lemma resume_exact : forall f P w t m ib o subs fresh o' body bk hs k' i y kb' e subs1,
  negb fresh && negb (all_true w t (inv_of P o')) = false ->
  pick_handler w t hs = Some i ->
  run f P w t m true o' subs (selected_kont body bk hs (Some i)) = (OYield y kb', e, subs1) ->
  exists hs', run (S f) P w t m ib o subs (FTry fresh o' body bk hs :: k') =
              (OYield y (FTry false o' body bk hs' :: k'), e, subs1) /\
              (forall j, j <> i -> nth_error hs' j = nth_error hs j) /\ length hs' = length hs.
Proof.
  intros. exists (set_handler hs i (Some kb')). split; [|split].
  - rewrite <- H0 in H1. erewrite try_round; [|eassumption|eassumption]. cbv zeta. rewrite H0. reflexivity.
  - intros j NE. apply set_handler_other; auto.
  - clear. revert i. induction hs as [|[[c b] hk] r IH]; intros [|i]; simpl; auto.
Qed.

Lemma body_resumes_when_no_handler : forall f P w t m ib o subs fresh o' body bk hs k' y kb' e subs1,
  negb fresh && negb (all_true w t (inv_of P o')) = false ->
  pick_handler w t hs = None ->
  run f P w t m true o' subs (selected_kont body bk hs None) = (OYield y kb', e, subs1) ->
  run (S f) P w t m ib o subs (FTry fresh o' body bk hs :: k') =
  (OYield y (FTry false o' body (Some kb') hs :: k'), e, subs1).
Proof. intros. rewrite <- H0 in H1. erewrite try_round; [|eassumption|eassumption]. cbv zeta. rewrite H0. reflexivity. Qed.

(* handler_conclusions *)
Lemma handler_abort : forall f P w t m ib o subs fresh o' body bk hs k' e subs1,
  negb fresh && negb (all_true w t (inv_of P o')) = false ->
  run f P w t m true o' subs (selected_kont body bk hs (pick_handler w t hs)) = (OBlock KAbort, e, subs1) ->
  run (S f) P w t m ib o subs (FTry fresh o' body bk hs :: k') =
  emit e (run f P w t m ib o' (match m with MScen _ => [] | _ => subs1 end) k').
Proof. intros. erewrite try_round; [|eassumption|eassumption]. reflexivity. Qed.

Lemma handler_finished_loops_back : forall f P w t m ib o subs fresh o' body bk hs k' i e subs1,
  negb fresh && negb (all_true w t (inv_of P o')) = false ->
  pick_handler w t hs = Some i ->
  run f P w t m true o' subs (selected_kont body bk hs (Some i)) = (OBlock KFinished, e, subs1) ->
  run (S f) P w t m ib o subs (FTry fresh o' body bk hs :: k') =
  emit e (run f P w t m ib o' subs1 (FTry true o' body bk (set_handler hs i None) :: k')).
Proof. intros. rewrite <- H0 in H1. erewrite try_round; [|eassumption|eassumption]. cbv zeta. rewrite H0. reflexivity. Qed.

Lemma handler_break : forall f P w t m ib o subs fresh o' body bk hs k' e subs1 c b k'',
  negb fresh && negb (all_true w t (inv_of P o')) = false ->
  run f P w t m true o' subs (selected_kont body bk hs (pick_handler w t hs)) = (OBlock KBreak, e, subs1) ->
  unwind_loop k' = Some (c, b, k'') ->
  run (S f) P w t m ib o subs (FTry fresh o' body bk hs :: k') =
  emit e (run f P w t m ib o' (match m with MScen _ => [] | _ => subs1 end) k'').
Proof. intros. erewrite try_round; [|eassumption|eassumption]. cbv zeta. rewrite H1. reflexivity. Qed.

Lemma handler_continue : forall f P w t m ib o subs fresh o' body bk hs k' e subs1 c b k'',
  negb fresh && negb (all_true w t (inv_of P o')) = false ->
  run f P w t m true o' subs (selected_kont body bk hs (pick_handler w t hs)) = (OBlock KContinue, e, subs1) ->
  unwind_loop k' = Some (c, b, k'') ->
  run (S f) P w t m ib o subs (FTry fresh o' body bk hs :: k') =
  emit e (run f P w t m ib o' (match m with MScen _ => [] | _ => subs1 end) (FWhile c b :: k'')).
Proof. intros. erewrite try_round; [|eassumption|eassumption]. cbv zeta. rewrite H1. reflexivity. Qed.

(* return: in the behaviour's own function it ends the (sub-)behaviour ... *)
Lemma handler_return : forall f P w t m o subs fresh o' body bk hs k' e subs1,
  negb fresh && negb (all_true w t (inv_of P o')) = false ->
  run f P w t m true o' subs (selected_kont body bk hs (pick_handler w t hs)) = (OBlock KReturn, e, subs1) ->
  run (S f) P w t m false o subs (FTry fresh o' body bk hs :: k') =
  match unwind_fun k' with
  | Some k'' => emit e (run f P w t m false o' (match m with MScen _ => [] | _ => subs1 end) k'')
  | None => (ODone, e, match m with MScen _ => [] | _ => subs1 end)
  end.
Proof. intros. erewrite try_round; [|eassumption|eassumption]. reflexivity. Qed.
(* ... but a `return` concluding a try-interrupt that is itself inside a block of an outer try-interrupt
   only makes that block return a non-flag value: the outer statement ends and the behaviour goes on
   (implementation quirk, finding F22) *)
Lemma nested_return_only_leaves_the_statements : forall f P w t m o subs fresh o' body bk hs k' e subs1,
  negb fresh && negb (all_true w t (inv_of P o')) = false ->
  run f P w t m true o' subs (selected_kont body bk hs (pick_handler w t hs)) = (OBlock KReturn, e, subs1) ->
  unwind_fun k' = None ->
  run (S f) P w t m true o subs (FTry fresh o' body bk hs :: k') =
  (OBlock KNone, e, match m with MScen _ => [] | _ => subs1 end).
Proof. intros. erewrite try_round; [|eassumption|eassumption]. cbv zeta. rewrite H1. reflexivity. Qed.

(* ---------------------------------------------------------------- abandoned sub-behaviours *)
(* the sub-behaviours running under a continuation: FSub boundaries, also inside suspended blocks *)
Fixpoint subs_of_frame (f : frame) : list nat :=
  match f with
  | FSub b _ => [b]
  | FTry _ _ _ bk hs =>
      (match bk with
       | Some x => (fix go (l : list frame) : list nat := match l with [] => [] | y :: l' => subs_of_frame y ++ go l' end) x
       | None => []
       end) ++
      (fix goh (l : list hstate) : list nat :=
         match l with
         | [] => []
         | (_, _, Some x) :: l' =>
             (fix go (l : list frame) : list nat := match l with [] => [] | y :: l' => subs_of_frame y ++ go l' end) x ++ goh l'
         | (_, _, None) :: l' => goh l'
         end) hs
  | _ => []
  end.
Definition running_subs (k : kont) : list nat := flat_map subs_of_frame k.

(* when a handler aborts, execution continues with the continuation of the statement alone: no
   sub-behaviour started under the body or under any handler is part of the running state any more *)
Lemma abandoned_subs_stopped : forall f P w t m ib o subs fresh o' body bk hs k' e subs1,
  negb fresh && negb (all_true w t (inv_of P o')) = false ->
  run f P w t m true o' subs (selected_kont body bk hs (pick_handler w t hs)) = (OBlock KAbort, e, subs1) ->
  exists k2, run (S f) P w t m ib o subs (FTry fresh o' body bk hs :: k') =
             emit e (run f P w t m ib o' (match m with MScen _ => [] | _ => subs1 end) k2) /\
             running_subs k2 = running_subs k'.
Proof. intros. exists k'. split; auto. eapply handler_abort; eauto. Qed.

(* ---------------------------------------------------------------- guards *)
Lemma take_yields_then_checks : forall f P w t m ib o subs a ss k0,
  run (S f) P w t m ib o subs (FSeq (STake a :: ss) :: k0) = (OYield (YActs [a]) (FCheck o :: FSeq ss :: k0), [], subs).
Proof. reflexivity. Qed.
Lemma wait_yields_then_checks : forall f P w t m ib o subs ss k0,
  run (S f) P w t m ib o subs (FSeq (SWait :: ss) :: k0) = (OYield (YActs []) (FCheck o :: FSeq ss :: k0), [], subs).
Proof. reflexivity. Qed.
Lemma resume_checks_invariants : forall f P w t m ib o subs o' k',
  run (S f) P w t m ib o subs (FCheck o' :: k') =
  if all_true w t (inv_of P o') then run f P w t m ib o' subs k' else (OViolation false o', [], subs).
Proof. reflexivity. Qed.
Lemma do_is_invoke_then_check : forall f P w t m ib o subs b ss k0,
  run (S f) P w t m ib o subs (FSeq (SDo b :: ss) :: k0) = run f P w t m ib o subs (FSeq [SDoRaw b; SCheck] :: FSeq ss :: k0).
Proof. reflexivity. Qed.
Lemma sub_finished_returns_to_caller : forall f P w t m ib o subs b caller k',
  run (S f) P w t m ib o subs (FSub b caller :: k') = run f P w t m ib caller subs k'.
Proof. reflexivity. Qed.
Lemma check_after_sub : forall f P w t m ib o subs ss k0,
  run (S f) P w t m ib o subs (FSeq (SCheck :: ss) :: k0) =
  if all_true w t (inv_of P o) then run f P w t m ib o subs (FSeq ss :: k0) else (OViolation false o, [], subs).
Proof. reflexivity. Qed.
(* preconditions (then invariants) of a sub-behaviour are checked when it starts, at the current step *)
Lemma sub_guards_at_start : forall f P w t a ib o subs b bh ss k0,
  nth_error (p_behaviors P) b = Some bh ->
  run (S f) P w t (MBeh a) ib o subs (FSeq (SDoRaw b :: ss) :: k0) =
  match guards_at_start P w t (OBeh b) with
  | Some pre => (OViolation pre (OBeh b), [], subs)
  | None => run f P w t (MBeh a) ib (OBeh b) subs (FSeq (b_body bh) :: FSub b o :: FSeq ss :: k0)
  end.
Proof. intros. rewrite run_S. unfold run_body. rewrite H. reflexivity. Qed.
Lemma guards_at_start_spec : forall P w t o,
  guards_at_start P w t o = None <-> all_true w t (pre_of P o) = true /\ all_true w t (inv_of P o) = true.
Proof.
  intros. unfold guards_at_start. destruct (all_true w t (pre_of P o)); simpl; [destruct (all_true w t (inv_of P o)); simpl|];
    split; intros; try discriminate; auto; destruct H; discriminate.
Qed.

(* the sub-behaviour's own resumptions check the SUB-behaviour's invariants: after a plain `do`, the
   frames above the FSub boundary mention only the callee as owner ... *)
Lemma plain_do_runs_callee_as_owner : forall f P w t a ib o subs b bh ss k0 x rest,
  nth_error (p_behaviors P) b = Some bh -> guards_at_start P w t (OBeh b) = None ->
  b_body bh = STake x :: rest ->
  run (S (S f)) P w t (MBeh a) ib o subs (FSeq (SDoRaw b :: ss) :: k0) =
  (OYield (YActs [x]) (FCheck (OBeh b) :: FSeq rest :: FSub b o :: FSeq ss :: k0), [], subs).
Proof. intros. rewrite sub_guards_at_start with (bh := bh); auto. rewrite H0, H1. reflexivity. Qed.

(* ---------------------------------------------------------------- the compiler's loop-control flags *)
(* structural induction on statements that reaches the statements nested in blocks *)
Section StmtInd.
  Variable Q : stmt -> Prop.
  Hypothesis Hbase : forall s, (match s with STry _ _ | SWhile _ _ | SIf _ _ _ => False | _ => True end) -> Q s.
  Hypothesis Hwhile : forall c body, Forall Q body -> Q (SWhile c body).
  Hypothesis Hif : forall c a b, Forall Q a -> Forall Q b -> Q (SIf c a b).
  Hypothesis Htry : forall body hs, Forall Q body -> Forall (fun h => Forall Q (snd h)) hs -> Q (STry body hs).
  Fixpoint stmt_ind' (s : stmt) : Q s :=
    let go := (fix go (l : list stmt) : Forall Q l :=
                 match l with [] => Forall_nil _ | x :: r => Forall_cons x (stmt_ind' x) (go r) end) in
    match s with
    | SWhile c body => Hwhile c body (go body)
    | SIf c a b => Hif c a b (go a) (go b)
    | STry body hs =>
        Htry body hs (go body)
             ((fix goh (l : list (cond * list stmt)) : Forall (fun h => Forall Q (snd h)) l :=
                 match l with
                 | [] => Forall_nil _
                 | (c, b) :: r => Forall_cons (c, b) (go b) (goh r)
                 end) hs)
    | SMark n => Hbase (SMark n) I | STake a => Hbase (STake a) I | SWait => Hbase SWait I
    | SDo b => Hbase (SDo b) I | SDoFor b l => Hbase (SDoFor b l) I | SDoUntil b c => Hbase (SDoUntil b c) I
    | SWaitFor l => Hbase (SWaitFor l) I | SWaitUntil c => Hbase (SWaitUntil c) I
    | SDoScen l => Hbase (SDoScen l) I | SDoScenFor l q => Hbase (SDoScenFor l q) I
    | SDoScenUntil l c => Hbase (SDoScenUntil l c) I
    | SAbort => Hbase SAbort I | SBreak => Hbase SBreak I | SContinue => Hbase SContinue I | SReturn => Hbase SReturn I
    | STerminate => Hbase STerminate I | STerminateSim => Hbase STerminateSim I | SRequire c => Hbase (SRequire c) I
    | SCheck => Hbase SCheck I | SYieldRaw => Hbase SYieldRaw I | SDoRaw b => Hbase (SDoRaw b) I
    | SDoScenRaw l => Hbase (SDoScenRaw l) I | SStopSubs => Hbase SStopSubs I
    end.
End StmtInd.

(* a `break` / `continue` of the block itself: it refers to the loop enclosing the try-interrupt statement *)
Fixpoint direct_brk (s : stmt) : bool :=
  match s with SBreak => true | SIf _ a b => existsb direct_brk a || existsb direct_brk b | _ => false end.
Fixpoint direct_cnt (s : stmt) : bool :=
  match s with SContinue => true | SIf _ a b => existsb direct_cnt a || existsb direct_cnt b | _ => false end.
(* a try-interrupt statement occurs somewhere in s *)
Fixpoint has_try (s : stmt) : bool :=
  match s with
  | STry _ _ => true
  | SIf _ a b => existsb has_try a || existsb has_try b
  | SWhile _ body => existsb has_try body
  | _ => false
  end.

Definition fl_block (inloop : bool) (ss : list stmt) (st : bool * bool) : bool * bool :=
  fold_left (fun a x => fl_stmt x inloop a) ss st.

Lemma fl_block_inloop : forall ss, Forall (fun s => has_try s = false -> forall st, fl_stmt s true st = st) ss ->
  existsb has_try ss = false -> forall st, fl_block true ss st = st.
Proof.
  induction ss as [|s r IH]; intros F H st; simpl; auto.
  simpl in H. apply orb_false_iff in H. destruct H as [H1 H2]. inversion F; subst.
  unfold fl_block in *. simpl. rewrite H3; auto.
Qed.

Lemma fl_inloop_id : forall s, has_try s = false -> forall st, fl_stmt s true st = st.
Proof.
  induction s using stmt_ind'; intros HT st.
  - destruct s; try contradiction; reflexivity.
  - simpl in *. apply (fl_block_inloop body); auto.
  - simpl in *. apply orb_false_iff in HT. destruct HT as [HA HB].
    change (fl_block true b (fl_block true a st) = st). rewrite (fl_block_inloop a), (fl_block_inloop b); auto.
  - discriminate.
Qed.

Lemma fl_block_direct : forall ss,
  Forall (fun s => has_try s = false -> forall st, fl_stmt s false st = (fst st || direct_brk s, snd st || direct_cnt s)) ss ->
  existsb has_try ss = false ->
  forall st, fl_block false ss st = (fst st || existsb direct_brk ss, snd st || existsb direct_cnt ss).
Proof.
  induction ss as [|s r IH]; intros F H st; simpl.
  - rewrite !orb_false_r. destruct st; reflexivity.
  - simpl in H. apply orb_false_iff in H. destruct H as [H1 H2]. inversion F; subst.
    unfold fl_block in *. simpl. rewrite H3; auto. rewrite IH; auto. simpl. rewrite !orb_assoc. reflexivity.
Qed.

Lemma fl_direct : forall s, has_try s = false ->
  forall st, fl_stmt s false st = (fst st || direct_brk s, snd st || direct_cnt s).
Proof.
  induction s using stmt_ind'; intros HT st.
  - destruct s; try contradiction; simpl; rewrite ?orb_false_r, ?orb_true_r; destruct st; reflexivity.
  - simpl in *. change (fl_block true body st = (fst st || false, snd st || false)).
    rewrite !orb_false_r. rewrite (fl_block_inloop body); [destruct st; reflexivity| |auto].
    apply Forall_forall. intros x _ Hx. apply fl_inloop_id; auto.
  - simpl in *. apply orb_false_iff in HT. destruct HT as [HA HB].
    change (fl_block false b (fl_block false a st) = (fst st || (existsb direct_brk a || existsb direct_brk b), snd st || (existsb direct_cnt a || existsb direct_cnt b))).
    rewrite (fl_block_direct a), (fl_block_direct b); auto. simpl. rewrite !orb_assoc. reflexivity.
  - discriminate.
Qed.

Lemma fl_blocks_direct : forall ss, existsb has_try ss = false ->
  forall st, fl_block false ss st = (fst st || existsb direct_brk ss, snd st || existsb direct_cnt ss).
Proof.
  intros. apply fl_block_direct; auto. apply Forall_forall. intros x _ Hx. apply fl_direct; auto.
Qed.

(* the blocks of a statement, in source order *)
Definition blocks_of (body : list stmt) (hs : list (cond * list stmt)) : list (list stmt) := body :: map snd hs.

Lemma fl_handlers_direct : forall hs : list (cond * list stmt), forallb (fun b => negb (existsb has_try b)) (map snd hs) = true ->
  forall st, fold_left (fun a h => fold_left (fun a x => fl_stmt x false a) (snd h) a) hs st =
             (fst st || existsb (existsb direct_brk) (map snd hs), snd st || existsb (existsb direct_cnt) (map snd hs)).
Proof.
  induction hs as [|[c b] r IH]; intros H st; simpl.
  - rewrite !orb_false_r. destruct st; reflexivity.
  - simpl in H. apply andb_true_iff in H. destruct H as [H1 H2]. apply negb_true_iff in H1.
    change (fold_left (fun a x => fl_stmt x false a) b st) with (fl_block false b st).
    rewrite (fl_blocks_direct b H1), IH; auto. simpl. rewrite !orb_assoc. reflexivity.
Qed.

(* each of break / continue used in the blocks has its check emitted -- provided no block contains a nested
   try-interrupt statement (otherwise see flags_lost_refuted: finding F21) *)
Lemma flags_complete : forall body hs,
  forallb (fun b => negb (existsb has_try b)) (blocks_of body hs) = true ->
  try_flags body hs = (existsb (existsb direct_brk) (blocks_of body hs), existsb (existsb direct_cnt) (blocks_of body hs)).
Proof.
  intros body hs H. unfold blocks_of in *. simpl in H. apply andb_true_iff in H. destruct H as [H1 H2]. apply negb_true_iff in H1.
  unfold try_flags. simpl.
  change (fold_left (fun a x => fl_stmt x false a) body (false, false)) with (fl_block false body (false, false)).
  rewrite (fl_blocks_direct body H1), fl_handlers_direct; auto.
Qed.

(* ... so that nothing is rewritten: every BREAK / CONTINUE conclusion is acted upon as documented *)
Lemma rw_block_id : forall ub uc ss,
  Forall (fun s => (direct_brk s = true -> ub = true) -> (direct_cnt s = true -> uc = true) -> rw_stmt ub uc s = s) ss ->
  (existsb direct_brk ss = true -> ub = true) -> (existsb direct_cnt ss = true -> uc = true) ->
  map (rw_stmt ub uc) ss = ss.
Proof.
  induction ss as [|s r IH]; intros F HB HC; simpl; auto. inversion F; subst. simpl in HB, HC.
  rewrite H1, IH; auto; intros E; [apply HB|apply HC|apply HB|apply HC]; rewrite E; auto using orb_true_r.
Qed.

Lemma rw_stmt_id : forall ub uc s, (direct_brk s = true -> ub = true) -> (direct_cnt s = true -> uc = true) -> rw_stmt ub uc s = s.
Proof.
  intros ub uc. induction s using stmt_ind'; intros HB HC.
  - destruct s; try contradiction; simpl in *; auto; [rewrite HB|rewrite HC]; auto.
  - reflexivity.
  - simpl in *. rewrite (rw_block_id ub uc a), (rw_block_id ub uc b); auto; intros E; [apply HB|apply HC|apply HB|apply HC]; rewrite E; auto using orb_true_r.
  - reflexivity.
Qed.

Lemma existsb_In_true : forall (A : Type) (f : A -> bool) l x, In x l -> f x = true -> existsb f l = true.
Proof. intros. apply existsb_exists. eauto. Qed.

Lemma checks_emitted_blocks_unchanged : forall body hs,
  forallb (fun b => negb (existsb has_try b)) (blocks_of body hs) = true -> compile_try body hs = (body, hs).
Proof.
  intros body hs H. unfold compile_try. rewrite (flags_complete body hs H).
  set (ub := existsb (existsb direct_brk) (blocks_of body hs)). set (uc := existsb (existsb direct_cnt) (blocks_of body hs)).
  assert (BL : forall b, In b (blocks_of body hs) -> map (rw_stmt ub uc) b = b).
  { intros b Hb. apply rw_block_id.
    - apply Forall_forall. intros s _. apply rw_stmt_id.
    - intros E. unfold ub. eapply existsb_In_true; eauto.
    - intros E. unfold uc. eapply existsb_In_true; eauto. }
  f_equal.
  - apply BL. left; reflexivity.
  - assert (HS : forall l : list (cond * list stmt), (forall h, In h l -> In (snd h) (blocks_of body hs)) ->
                           map (fun h => (fst h, map (rw_stmt ub uc) (snd h))) l = l).
    { induction l as [|[c b] r IH]; intros HI; simpl; auto. rewrite BL, IH; auto.
      - intros h Hh. apply HI. right; auto.
      - apply (HI (c, b)). left; auto. }
    apply HS. intros h Hh. right. apply in_map. exact Hh.
Qed.
