(* C13 — the compiler's flag state machine (Compiler.v) computes the lexical reading, and every statement leaves the
   context flags as it found them. *)
From Coq Require Import List Bool.
From Scenic Require Import C12.Dyn C13.Interrupt C13.Compiler.
Import ListNotations.

Definition vstep (a : cst * list bool) (x : stmt) : cst * list bool :=
  let r := visit true x (fst a) in (fst r, snd a ++ snd r).

(* what one statement guarantees, for every state it is visited in *)
Definition good (s : stmt) : Prop :=
  forall st, c_loop (fst (visit true s st)) = c_loop st /\
             c_blk (fst (visit true s st)) = c_blk st /\
             snd (visit true s st) = lex s (c_loop st) (c_blk st) /\
             (c_blk st = true ->
              (c_ub (fst (visit true s st)), c_uc (fst (visit true s st))) = fl_stmt s (c_loop st) (c_ub st, c_uc st)).

Lemma fold_good : forall l, Forall good l -> forall st o,
  c_loop (fst (fold_left vstep l (st, o))) = c_loop st /\
  c_blk (fst (fold_left vstep l (st, o))) = c_blk st /\
  snd (fold_left vstep l (st, o)) = o ++ flat_map (fun x => lex x (c_loop st) (c_blk st)) l /\
  (c_blk st = true ->
   (c_ub (fst (fold_left vstep l (st, o))), c_uc (fst (fold_left vstep l (st, o))))
   = fold_left (fun a x => fl_stmt x (c_loop st) a) l (c_ub st, c_uc st)).
Proof.
  induction l as [|x r IH]; intros F st o; simpl.
  - rewrite app_nil_r. repeat split; auto.
  - inversion F as [|? ? Gx Gr]; subst. destruct (Gx st) as [L [B [O U]]].
    unfold vstep at 2 4 6 8 10. simpl fst. simpl snd.
    destruct (IH Gr (fst (visit true x st)) (o ++ snd (visit true x st))) as [L2 [B2 [O2 U2]]].
    rewrite L, B in *. repeat split; auto.
    + rewrite O2, O, <- app_assoc. reflexivity.
    + intros HB. rewrite U2; auto. rewrite U; auto.
Qed.

Lemma visit_good : forall s, good s.
Proof.
  induction s using stmt_ind'.
  - intros st. destruct s; try contradiction; simpl; try (repeat split; auto; fail).
    + destruct (c_blk st) eqn:B, (c_loop st) eqn:L; simpl; rewrite ?B, ?L; repeat split; auto; intros; try discriminate.
    + destruct (c_blk st) eqn:B, (c_loop st) eqn:L; simpl; rewrite ?B, ?L; repeat split; auto; intros; try discriminate.
  - intros st. simpl.
    destruct (fold_good body H {| c_loop := true; c_blk := c_blk st; c_ub := c_ub st; c_uc := c_uc st |} []) as [L [B [O U]]].
    fold vstep. simpl in *. repeat split; auto.
  - intros st. simpl. fold vstep.
    destruct (fold_good a H st []) as [L [B [O U]]].
    destruct (fold_left vstep a (st, [])) as [sa oa]. simpl in L, B, O, U.
    destruct (fold_good b H0 sa oa) as [L2 [B2 [O2 U2]]].
    rewrite L, B in *. repeat split; auto.
    + rewrite O2, O. reflexivity.
    + intros HB. rewrite U2; auto. rewrite U; auto.
  - intros st. simpl. fold vstep.
    set (st0 := {| c_loop := false; c_blk := true; c_ub := false; c_uc := false |}).
    assert (HH : forall hs0 : list (cond * list stmt), Forall (fun h => Forall good (snd h)) hs0 -> forall a : cst * list bool,
              c_loop (fst a) = false -> c_blk (fst a) = true ->
              let r := fold_left (fun a h => fold_left vstep (snd h) a) hs0 a in
              c_loop (fst r) = false /\ c_blk (fst r) = true /\
              snd r = snd a ++ flat_map (fun h => flat_map (fun x => lex x false true) (snd h)) hs0 /\
              (c_ub (fst r), c_uc (fst r))
              = fold_left (fun a h => fold_left (fun a x => fl_stmt x false a) (snd h) a) hs0 (c_ub (fst a), c_uc (fst a))).
    { induction hs0 as [|h r IH]; intros F a La Ba; simpl.
      - rewrite app_nil_r. repeat split; auto.
      - inversion F as [|? ? Gh Gr]; subst. destruct a as [sa oa]. simpl in La, Ba.
        destruct (fold_good (snd h) Gh sa oa) as [L [B [O U]]]. rewrite La, Ba in *.
        destruct (IH Gr (fold_left vstep (snd h) (sa, oa)) L B) as [L2 [B2 [O2 U2]]].
        repeat split; auto.
        + rewrite O2, O, <- app_assoc. reflexivity.
        + rewrite U2, U; auto. }
    destruct (fold_good body H st0 []) as [L [B [O U]]]. simpl in L, B, O, U.
    destruct (HH hs H0 (fold_left vstep body (st0, [])) L B) as [L2 [B2 [O2 U2]]].
    repeat split; auto.
    + rewrite O2, O. reflexivity.
    + intros _. rewrite U2, U; auto.
Qed.

(* the statement-level theorems *)
Theorem context_restored : forall s st,
  c_loop (fst (visit true s st)) = c_loop st /\ c_blk (fst (visit true s st)) = c_blk st.
Proof. intros. destruct (visit_good s st) as [L [B _]]. auto. Qed.

Theorem visit_is_lexical : forall s st, snd (visit true s st) = lex s (c_loop st) (c_blk st).
Proof. intros. destruct (visit_good s st) as [_ [_ [O _]]]. auto. Qed.

Theorem visit_flags_are_fl_stmt : forall s st, c_blk st = true ->
  (c_ub (fst (visit true s st)), c_uc (fst (visit true s st))) = fl_stmt s (c_loop st) (c_ub st, c_uc st).
Proof. intros. destruct (visit_good s st) as [_ [_ [_ U]]]. auto. Qed.

(* a whole block: what follows a statement is compiled in the context the block started in *)
Theorem block_is_lexical : forall ss st,
  snd (visit_block true ss st) = flat_map (fun x => lex x (c_loop st) (c_blk st)) ss /\
  c_loop (fst (visit_block true ss st)) = c_loop st /\ c_blk (fst (visit_block true ss st)) = c_blk st.
Proof.
  intros. unfold visit_block. fold vstep.
  destruct (fold_good ss (proj2 (Forall_forall good ss) (fun x _ => visit_good x)) st []) as [L [B [O _]]]. auto.
Qed.

(* the checks emitted after a try-interrupt statement are those of Dyn.try_flags, whatever the context *)
Theorem try_statement_flags : forall body hs st,
  (c_ub (fst (visit true (STry body hs) st)), c_uc (fst (visit true (STry body hs) st))) = try_flags body hs.
Proof.
  intros. pose proof (visit_flags_are_fl_stmt (STry body hs) {| c_loop := c_loop st; c_blk := true; c_ub := c_ub st; c_uc := c_uc st |} eq_refl) as H.
  simpl in *. exact H.
Qed.

(* the variant that does not restore inLoop: a `break` FOLLOWING a nested try-interrupt inside a loop of an outer
   block is turned into the outer block's flag return, although it is lexically inside that loop.  Witness:
     try: while c: (try: take 2 interrupt when d: take 3); break   interrupt when e: take 9 *)
Definition wit_loop_after_nested : stmt :=
  STry [SWhile (CTab 0) [STake 1; STry [STake 2] [(CTab 1, [STake 3])]; SBreak]] [(CTab 2, [STake 9])].
Theorem inloop_not_restored_refuted :
  snd (visit false wit_loop_after_nested cst0) <> lex wit_loop_after_nested false false /\
  snd (visit true wit_loop_after_nested cst0) = lex wit_loop_after_nested false false /\
  snd (visit false wit_loop_after_nested cst0) = [true] /\ lex wit_loop_after_nested false false = [false].
Proof. vm_compute. repeat split; auto. discriminate. Qed.
