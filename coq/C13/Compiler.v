(* C13 — the compiler's context flags as the STATE MACHINE they are in syntax/compiler.py (definitions only).

   ScenicToPythonTransformer keeps four mutable flags while it walks a behavior body:
     inLoop            set by visit_While / visit_For around the loop body and restored afterwards,
     inInterruptBlock  set by visit_TryInterrupt around its blocks and restored afterwards,
     usedBreak / usedContinue   reset by visit_TryInterrupt, set by visit_Break / visit_Continue (never restored).
   visit_TryInterrupt saves (inInterruptBlock, inLoop), sets (True, False), visits the body block and the handler
   blocks in source order, and restores both.  visit_Break / visit_Continue turn the statement into
   `return BlockConclusion.BREAK / CONTINUE` iff  inInterruptBlock and not inLoop  at the moment of the visit.

   [visit] threads that state through a statement and returns, in visit order, for every break / continue whether it
   was turned into a flag return (true) or left a Python break / continue (false).  DynCore's run-time semantics
   (Dyn.run_body: unwind_loop on the frames of the current block function, else the block's flag) and Dyn.fl_stmt use
   the LEXICAL reading [lex]: flag return iff lexically inside an interrupt block and outside every loop of that
   block.  CompilerProofs.v proves that the state machine computes exactly the lexical reading and that a statement
   leaves inLoop / inInterruptBlock as it found them -- which is what makes the lexical reading right for whatever
   FOLLOWS a nested statement.  [restore_loop] = false is the variant that forgets to restore inLoop. *)
From Coq Require Import List Bool.
From Scenic Require Import C12.Dyn.
Import ListNotations.

Record cst := { c_loop : bool; c_blk : bool; c_ub : bool; c_uc : bool }.

Section Visit.
Variable restore_loop : bool.

Fixpoint visit (s : stmt) (st : cst) : cst * list bool :=
  match s with
  | SBreak =>
      if c_blk st && negb (c_loop st)
      then ({| c_loop := c_loop st; c_blk := c_blk st; c_ub := true; c_uc := c_uc st |}, [true])
      else (st, [false])
  | SContinue =>
      if c_blk st && negb (c_loop st)
      then ({| c_loop := c_loop st; c_blk := c_blk st; c_ub := c_ub st; c_uc := true |}, [true])
      else (st, [false])
  | SWhile _ body =>            (* old = self.inLoop; self.inLoop = True; generic_visit; self.inLoop = old *)
      let r := fold_left (fun a x => let r := visit x (fst a) in (fst r, snd a ++ snd r)) body
                 ({| c_loop := true; c_blk := c_blk st; c_ub := c_ub st; c_uc := c_uc st |}, []) in
      ({| c_loop := c_loop st; c_blk := c_blk (fst r); c_ub := c_ub (fst r); c_uc := c_uc (fst r) |}, snd r)
  | SIf _ a b =>
      fold_left (fun a x => let r := visit x (fst a) in (fst r, snd a ++ snd r)) b
        (fold_left (fun a x => let r := visit x (fst a) in (fst r, snd a ++ snd r)) a (st, []))
  | STry body hs =>
      let r := fold_left (fun a h => fold_left (fun a x => let r := visit x (fst a) in (fst r, snd a ++ snd r)) (snd h) a) hs
                 (fold_left (fun a x => let r := visit x (fst a) in (fst r, snd a ++ snd r)) body
                    ({| c_loop := false; c_blk := true; c_ub := false; c_uc := false |}, [])) in
      ({| c_loop := if restore_loop then c_loop st else c_loop (fst r);
          c_blk := c_blk st; c_ub := c_ub (fst r); c_uc := c_uc (fst r) |}, snd r)
  | _ => (st, [])
  end.
End Visit.

(* the lexical reading used by the run-time model *)
Fixpoint lex (s : stmt) (inloop inblk : bool) : list bool :=
  match s with
  | SBreak | SContinue => [inblk && negb inloop]
  | SWhile _ body => flat_map (fun x => lex x true inblk) body
  | SIf _ a b => flat_map (fun x => lex x inloop inblk) a ++ flat_map (fun x => lex x inloop inblk) b
  | STry body hs =>
      flat_map (fun x => lex x false true) body ++ flat_map (fun h => flat_map (fun x => lex x false true) (snd h)) hs
  | _ => []
  end.

(* a behavior body is compiled from the state "not in a loop, not in an interrupt block, nothing used" *)
Definition cst0 : cst := {| c_loop := false; c_blk := false; c_ub := false; c_uc := false |}.
Definition visit_block (restore_loop : bool) (ss : list stmt) (st : cst) : cst * list bool :=
  fold_left (fun a x => let r := visit restore_loop x (fst a) in (fst r, snd a ++ snd r)) ss (st, []).
