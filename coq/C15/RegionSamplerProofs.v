From Coq Require Import ZArith List Bool Arith Lia.
From Scenic Require Import C15.Determinism C15.RegionSampler.
Import ListNotations.
Local Open Scope Z_scope.

Lemma sstep_seeded_indep : forall e e' m o, is_seeded o = true -> sstep e m o = sstep e' m o.
Proof. intros e e' m [] H; try reflexivity. discriminate. Qed.

Lemma run_sops_seeded_indep : forall e e' ops m,
  forallb is_seeded ops = true -> run_sops e ops m = run_sops e' ops m.
Proof.
  intros e e' ops. induction ops as [|o t IH]; intros m H; [reflexivity|].
  cbn [forallb] in H. apply andb_true_iff in H. destruct H as [Ho Ht].
  cbn [run_sops]. rewrite (sstep_seeded_indep e e' m o Ho).
  destruct (sstep e' m o) as [v m1]. rewrite (IH m1 Ht). reflexivity.
Qed.

Lemma sample_seeded_indep : forall e e' s m, seeded s = true -> rsample e s m = rsample e' s m.
Proof. intros e e' s m H. unfold rsample. rewrite (run_sops_seeded_indep e e' _ m H). reflexivity. Qed.

Lemma sample_list_seeded_indep : forall e e' ss m,
  forallb seeded ss = true -> sample_list e ss m = sample_list e' ss m.
Proof.
  intros e e' ss. induction ss as [|s t IH]; intros m H; [reflexivity|].
  cbn [forallb] in H. apply andb_true_iff in H. destruct H as [Hs Ht].
  cbn [sample_list]. rewrite (sample_seeded_indep e e' s m Hs).
  destruct (rsample e' s m) as [v m1]. rewrite (IH m1 Ht). reflexivity.
Qed.

(* a scene whose region samplers draw only from the two seeded streams is the same in every process: values,
   machine state after (both stream cursors) and number of iterations *)
Lemma gen_scene_seeded_indep : forall e e' n ss ok m,
  forallb seeded ss = true -> gen_scene e n ss ok m = gen_scene e' n ss ok m.
Proof.
  intros e e' n ss ok. induction n as [|n IH]; intros m H; [reflexivity|].
  cbn [gen_scene]. rewrite (sample_list_seeded_indep e e' ss m H).
  destruct (sample_list e' ss m) as [vs m1]. destruct (ok vs); [reflexivity|].
  rewrite (IH m1 H). reflexivity.
Qed.

(* seeded samplers never touch the entropy counter *)
Lemma run_sops_seeded_ent : forall e ops m,
  forallb is_seeded ops = true -> m_ent (snd (run_sops e ops m)) = m_ent m.
Proof.
  intros e ops. induction ops as [|o t IH]; intros m H; [reflexivity|].
  cbn [forallb] in H. apply andb_true_iff in H. destruct H as [Ho Ht].
  cbn [run_sops]. destruct (sstep e m o) as [v m1] eqn:E.
  specialize (IH m1 Ht). destruct (run_sops e t m1) as [vs m2]. cbn [snd] in *. rewrite IH.
  destruct o; cbn in E; inversion E; subst; try reflexivity. discriminate.
Qed.

(* the order of two consecutive draws from DIFFERENT streams is irrelevant (VoxelRegion draws NumPy first, then
   Python): same two values, same machine state *)
Lemma draws_across_streams_commute : forall e m,
  let '(u, m1) := sstep e m NpDraw in let '(i, m2) := sstep e m1 PyDraw in
  let '(i', m1') := sstep e m PyDraw in let '(u', m2') := sstep e m1' NpDraw in
  u = u' /\ i = i' /\ m2 = m2'.
Proof. intros e [[py np] k]. cbn. repeat split. Qed.

(* the faithful voxel sampler is a function of the two seeded streams *)
Lemma voxel_deterministic : forall pts scale e e' m, rsample e (voxel pts scale) m = rsample e' (voxel pts scale) m.
Proof. intros. apply sample_seeded_indep. reflexivity. Qed.

(* the value the regressed sampler returns: the voxel is still chosen by Python's seeded stream ... *)
Lemma voxel_bug_value : forall pts scale e m,
  fst (rsample e (voxel_bug pts scale) m) = voxel_base pts (s_py (m_st m)) + e (m_ent m) mod scale.
Proof. intros pts scale e [[py np] k]. reflexivity. Qed.

(* ... so every rsample lies inside the chosen voxel (the region tests cannot see the bug) ... *)
Lemma voxel_bug_in_voxel : forall pts scale e m, 0 < scale ->
  voxel_base pts (s_py (m_st m)) <= fst (rsample e (voxel_bug pts scale) m) < voxel_base pts (s_py (m_st m)) + scale.
Proof.
  intros pts scale e m H. rewrite voxel_bug_value.
  pose proof (Z.mod_pos_bound (e (m_ent m)) scale H). lia.
Qed.

(* ... but two processes with the same seeds get different positions *)
Lemma voxel_entropy_refuted : exists pts scale m e e',
  0 < scale /\ fst (rsample e (voxel_bug pts scale) m) <> fst (rsample e' (voxel_bug pts scale) m)
  /\ snd (rsample e (voxel_bug pts scale) m) = snd (rsample e' (voxel_bug pts scale) m).
Proof.
  exists [10; 20; 30], 8, m0, (fun _ => 3), (fun _ => 5).
  split; [reflexivity|]. split; [vm_compute; discriminate | vm_compute; reflexivity].
Qed.

(* and a whole scene differs although the seeded streams end in the same state *)
Lemma gen_scene_entropy_refuted : exists ss ok n m e e',
  fst (fst (gen_scene e n ss ok m)) <> fst (fst (gen_scene e' n ss ok m))
  /\ m_st (snd (fst (gen_scene e n ss ok m))) = m_st (snd (fst (gen_scene e' n ss ok m))).
Proof.
  exists [voxel [10; 20; 30] 8; voxel_bug [10; 20; 30] 8], (fun _ => true), 1%nat, m0, (fun _ => 3), (fun _ => 5).
  split; [vm_compute; discriminate | vm_compute; reflexivity].
Qed.
