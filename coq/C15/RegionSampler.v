(* C15 — region samplers as functions of the two seeded global streams (definitions only).
   Anchors: regions.py  VoxelRegion.uniformPointInner (offset from numpy.random.random_sample = NumPy's global
   stream, voxel index from random.randrange = Python's global stream), MeshVolumeRegion / MeshSurfaceRegion
   (trimesh.rsample.* = NumPy's global stream), PolygonalRegion / CircularRegion / SectorRegion / RectangularRegion /
   PolylineRegion / PathRegion / PointSetRegion (random.* = Python's stream), UnionRegion (both).
   Everything a process can add of its own is an explicit parameter: [entropy] = what the OS hands to a generator
   created without a seed (numpy.random.default_rng(), random.Random(), SystemRandom, os.urandom), call by call. *)
From Coq Require Import ZArith List Bool Arith.
From Scenic Require Import C15.Determinism.
Import ListNotations.
Local Open Scope Z_scope.

Record streams := mkS { s_py : rng; s_np : rng }.
Definition entropy := nat -> Z.

(* one elementary draw of a sampler: from Python's stream, from NumPy's stream, or from OS entropy *)
Inductive sop := PyDraw | NpDraw | EDraw.
Definition is_seeded (o : sop) : bool := match o with EDraw => false | _ => true end.

(* machine state: the two seeded streams and the number of entropy values handed out so far *)
Record mstate := mkM { m_st : streams; m_ent : nat }.

Definition sstep (e : entropy) (m : mstate) (o : sop) : Z * mstate :=
  match o with
  | PyDraw => let (v, r) := draw (s_py (m_st m)) in (v, mkM (mkS r (s_np (m_st m))) (m_ent m))
  | NpDraw => let (v, r) := draw (s_np (m_st m)) in (v, mkM (mkS (s_py (m_st m)) r) (m_ent m))
  | EDraw => (e (m_ent m), mkM (m_st m) (S (m_ent m)))
  end.

Fixpoint run_sops (e : entropy) (ops : list sop) (m : mstate) : list Z * mstate :=
  match ops with
  | [] => ([], m)
  | o :: t => let (v, m1) := sstep e m o in
              let (vs, m2) := run_sops e t m1 in (v :: vs, m2)
  end.

(* a region sampler (uniformPointInner): the draws it makes, in order, and how it combines them *)
Record sampler := mkSampler { sm_ops : list sop; sm_out : list Z -> Z }.
Definition seeded (s : sampler) : bool := forallb is_seeded (sm_ops s).

Definition rsample (e : entropy) (s : sampler) (m : mstate) : Z * mstate :=
  let (vs, m') := run_sops e (sm_ops s) m in (sm_out s vs, m').

(* the positions of a candidate scene: one sampler per `in`/`on` specifier, in dependency order *)
Fixpoint sample_list (e : entropy) (ss : list sampler) (m : mstate) : list Z * mstate :=
  match ss with
  | [] => ([], m)
  | s :: t => let (v, m1) := rsample e s m in
              let (vs, m2) := sample_list e t m1 in (v :: vs, m2)
  end.

(* rejection loop over candidates (the checker's own randomness is restored, see Determinism.loop; the samplers'
   draws are not): result, machine state after, iterations used *)
Fixpoint gen_scene (e : entropy) (n : nat) (ss : list sampler) (ok : list Z -> bool) (m : mstate)
  : option (list Z) * mstate * nat :=
  match n with
  | O => (None, m, O)
  | S n' => let (vs, m1) := sample_list e ss m in
            if ok vs then (Some vs, m1, 1%nat)
            else let '(r, m2, k) := gen_scene e n' ss ok m1 in (r, m2, S k)
  end.

(* ---- VoxelRegion.uniformPointInner, one coordinate: voxel base point chosen by Python's stream, offset inside
   the voxel (width [scale]) by NumPy's stream *)
Definition voxel_base (pts : list Z) (py : rng) : Z :=
  nth (Z.to_nat (fst (draw py) mod Z.of_nat (length pts))) pts 0.
Definition voxel_out (pts : list Z) (scale : Z) (vs : list Z) : Z :=
  match vs with
  | [u; i] => nth (Z.to_nat (i mod Z.of_nat (length pts))) pts 0 + u mod scale
  | _ => 0
  end.
Definition voxel (pts : list Z) (scale : Z) : sampler := mkSampler [NpDraw; PyDraw] (voxel_out pts scale).
(* seeded regression C15-3: the offset comes from numpy.random.default_rng() *)
Definition voxel_bug (pts : list Z) (scale : Z) : sampler := mkSampler [EDraw; PyDraw] (voxel_out pts scale).

Definition rngZ : rng := mkRng Z.of_nat 0.
Definition m0 : mstate := mkM (mkS rngZ rngZ) 0.
