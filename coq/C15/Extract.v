(* Extraction of the C15 model to OCaml: the dependency tuple and the order in which the random
   values are drawn by Samplable.sampleAll; the order in which specifier resolution evaluates properties.  Directives: ExtrOcamlBasic only. *)
From Coq Require Import ZArith List.
From Coq Require Extraction.
From Coq Require Import ExtrOcamlBasic.
From Scenic Require Import C02.Checker C15.Determinism C15.SpecOrder.
Extraction Language OCaml.
Extraction "model.ml" deps_of gather_ordered gather_set sample_all generate batch
  nsort present_sorted resolve prop_order object_dag.
