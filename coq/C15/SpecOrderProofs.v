(* C15 — lemmas about specifier resolution order and private generators. *)
From Coq Require Import ZArith List Bool Arith Lia Permutation Sorted.
From Scenic Require Import C02.Checker C02.CheckerProofs C15.Determinism C15.DeterminismProofs C15.SpecOrder.
Import ListNotations.

(* ------------------------------------------------------------------ sorted(deps) *)
Lemma ins_perm : forall x l, Permutation (ins x l) (x :: l).
Proof.
  induction l as [|y l IH]; cbn [ins]; [reflexivity|].
  destruct (x <=? y); [reflexivity|].
  rewrite IH. apply perm_swap.
Qed.

Theorem nsort_perm : forall l, Permutation (nsort l) l.
Proof.
  induction l as [|x l IH]; cbn [nsort]; [reflexivity|].
  rewrite ins_perm. now constructor.
Qed.

Lemma ins_sorted : forall x l, Sorted le l -> Sorted le (ins x l).
Proof.
  induction l as [|y l IH]; intro H; cbn [ins]; [repeat constructor|].
  destruct (x <=? y) eqn:E.
  - apply Nat.leb_le in E. constructor; [exact H|now constructor].
  - apply Nat.leb_gt in E. inversion H as [|? ? Hs Hh]; subst.
    constructor; [now apply IH|].
    destruct l as [|z l]; cbn [ins]; [constructor; lia|].
    destruct (x <=? z); constructor; [lia|]. inversion Hh; subst. assumption.
Qed.

Theorem nsort_sorted : forall l, Sorted le (nsort l).
Proof. induction l as [|x l IH]; cbn [nsort]; [constructor|now apply ins_sorted]. Qed.

(* inserting commutes (the order is total and antisymmetric), whatever the list *)
Lemma ins_comm : forall x y l, ins x (ins y l) = ins y (ins x l).
Proof.
  intros x y l. induction l as [|a l IH]; cbn [ins].
  - destruct (x <=? y) eqn:E1, (y <=? x) eqn:E2; try reflexivity.
    + apply Nat.leb_le in E1, E2. now replace y with x by lia.
    + apply Nat.leb_gt in E1, E2. lia.
  - destruct (y <=? a) eqn:Ey, (x <=? a) eqn:Ex; cbn [ins]; rewrite ?Ey, ?Ex.
    + destruct (x <=? y) eqn:E1, (y <=? x) eqn:E2; try reflexivity.
      * apply Nat.leb_le in E1, E2. now replace y with x by lia.
      * apply Nat.leb_gt in E1, E2. lia.
    + apply Nat.leb_le in Ey. apply Nat.leb_gt in Ex.
      destruct (x <=? y) eqn:E1; [apply Nat.leb_le in E1; lia|].
      destruct (y <=? a) eqn:E3; [reflexivity|apply Nat.leb_gt in E3; lia].
    + apply Nat.leb_gt in Ey. apply Nat.leb_le in Ex.
      destruct (y <=? x) eqn:E1; [apply Nat.leb_le in E1; lia|].
      destruct (x <=? a) eqn:E3; [reflexivity|apply Nat.leb_gt in E3; lia].
    + now rewrite IH.
Qed.

(* the output of the sort is determined by the multiset: any presentation of the set gives the same tuple *)
Theorem nsort_perm_eq : forall l l', Permutation l l' -> nsort l = nsort l'.
Proof.
  intros l l' H. induction H; cbn [nsort].
  - reflexivity.
  - now rewrite IHPermutation.
  - apply ins_comm.
  - congruence.
Qed.

(* ------------------------------------------------------------------ the depth-first search *)
Lemma fold_dfs_ext : forall (F G : list nat -> nat -> list nat) l o,
  (forall o d, F o d = G o d) -> fold_left F l o = fold_left G l o.
Proof.
  intros F G l. induction l as [|d l IH]; intros o H; cbn [fold_left]; [reflexivity|].
  rewrite H. now apply IH.
Qed.

Lemma dfs_ext : forall f g specs, (forall l, f l = g l) ->
  forall fuel i o, dfs fuel f specs i o = dfs fuel g specs i o.
Proof.
  intros f g specs H. induction fuel as [|fuel IH]; intros i o; cbn [dfs]; [reflexivity|].
  destruct (mem i o); [reflexivity|]. rewrite H. f_equal.
  apply fold_dfs_ext. intros o' d. destruct (owner specs d); [apply IH|reflexivity].
Qed.

Theorem resolve_ext : forall f g specs, (forall l, f l = g l) -> resolve f specs = resolve g specs.
Proof.
  intros f g specs H. unfold resolve. apply fold_dfs_ext. intros o i. now apply dfs_ext.
Qed.

(* with sorted(deps), the evaluation order of the specifiers does not depend on how the process
   iterates the dependency sets *)
Theorem resolve_sorted_indep : forall pi pi' specs,
  (forall l, Permutation (pi l) l) -> (forall l, Permutation (pi' l) l) ->
  resolve (present_sorted pi) specs = resolve (present_sorted pi') specs.
Proof.
  intros pi pi' specs H H'. apply resolve_ext. intro l. unfold present_sorted.
  apply nsort_perm_eq. rewrite H, H'. reflexivity.
Qed.

Theorem prop_order_sorted_indep : forall pi pi' specs,
  (forall l, Permutation (pi l) l) -> (forall l, Permutation (pi' l) l) ->
  prop_order (present_sorted pi) specs = prop_order (present_sorted pi') specs.
Proof. intros. unfold prop_order. now rewrite (resolve_sorted_indep pi pi'). Qed.

(* ... hence neither do the object's sampling dependencies, the values drawn, the draw log, the RNG state *)
Theorem draws_indep_of_hash : forall pi pi' specs g obj pn ev deps r,
  (forall l, Permutation (pi l) l) -> (forall l, Permutation (pi' l) l) ->
  sample_all (object_dag g obj pn (present_sorted pi) specs) ev deps r
  = sample_all (object_dag g obj pn (present_sorted pi') specs) ev deps r.
Proof. intros. unfold object_dag. now rewrite (prop_order_sorted_indep pi pi'). Qed.

(* the search is a search: it only appends, and every specifier ends up in the order *)
Lemma fold_dfs_incl : forall (F : list nat -> nat -> list nat) l o x,
  (forall o d x, In x o -> In x (F o d)) -> In x o -> In x (fold_left F l o).
Proof.
  intros F l. induction l as [|d l IH]; intros o x H Hx; cbn [fold_left]; [exact Hx|].
  apply IH; [exact H|now apply H].
Qed.

Lemma dfs_incl : forall f specs fuel i o x, In x o -> In x (dfs fuel f specs i o).
Proof.
  intros f specs. induction fuel as [|fuel IH]; intros i o x Hx; cbn [dfs]; [exact Hx|].
  destruct (mem i o); [exact Hx|]. apply in_or_app. left.
  apply fold_dfs_incl; [|exact Hx]. intros o' d y Hy. destruct (owner specs d); [now apply IH|exact Hy].
Qed.

Lemma dfs_visits : forall f specs fuel i o, In i (dfs (S fuel) f specs i o).
Proof.
  intros f specs fuel i o. cbn [dfs]. destruct (mem i o) eqn:E.
  - unfold mem in E. apply existsb_exists in E. destruct E as (y & Hy & Ey). apply Nat.eqb_eq in Ey. now subst y.
  - apply in_or_app. right. now left.
Qed.

Lemma fold_resolve_complete : forall f specs n l o i, In i l ->
  In i (fold_left (fun o i => dfs (S n) f specs i o) l o).
Proof.
  intros f specs n l. induction l as [|a l IH]; intros o i Hi; [destruct Hi|]. cbn [fold_left].
  destruct Hi as [->|Hi]; [|now apply IH].
  apply fold_dfs_incl; [intros; now apply dfs_incl|apply dfs_visits].
Qed.

Theorem resolve_complete : forall f specs i, i < length specs -> In i (resolve f specs).
Proof.
  intros f specs i Hi. unfold resolve. apply fold_resolve_complete. apply in_seq. lia.
Qed.

(* seed C15-2: without the sort, two iteration orders of the same set give different orders *)
Definition specs_w : list spec := [mkSpec [2] [0; 1]; mkSpec [0] []; mkSpec [1] []].   (* total: self.alpha + self.beta *)
Definition dag_w : dag := [mkNode [] true; mkNode [] true; mkNode [0; 1] false; mkNode [] false].
Definition ev_w : nat -> option Z -> list (option Z) -> Z := fun _ u _ => match u with Some x => x | None => 0%Z end.

Theorem resolve_unsorted_refuted : exists specs pi pi' g obj pn ev deps r,
  (forall l, Permutation (pi l) l) /\ (forall l, Permutation (pi' l) l) /\
  prop_order (present_raw pi) specs <> prop_order (present_raw pi') specs /\
  lookup (ss_memo (sample_all (object_dag g obj pn (present_raw pi) specs) ev deps r)) 0
  <> lookup (ss_memo (sample_all (object_dag g obj pn (present_raw pi') specs) ev deps r)) 0.
Proof.
  exists specs_w, (fun l => l), (@rev nat), dag_w, 3, (fun p => p), ev_w, [3], rng0.
  split; [reflexivity|]. split; [intro l; apply Permutation_sym, Permutation_rev|].
  split; vm_compute; discriminate.
Qed.

(* ------------------------------------------------------------------ private generators *)
Lemma wstep_private : forall o w, is_private o = true -> w_glob (wstep w o) = w_glob w.
Proof. intros [| |] w H; cbn in *; [discriminate|reflexivity|reflexivity]. Qed.

(* drawing from private generators, however often, leaves the global generator where it was *)
Theorem private_ops_keep_global : forall ops w, forallb is_private ops = true ->
  w_glob (run_ops ops w) = w_glob w.
Proof.
  induction ops as [|o ops IH]; intros w H; [reflexivity|]. cbn [forallb] in H.
  apply andb_prop in H. destruct H as [Ho Hs]. unfold run_ops in *. cbn [fold_left].
  rewrite IH by exact Hs. now apply wstep_private.
Qed.

(* in general the global cursor advances by exactly the number of global draws *)
Theorem global_cursor : forall ops w, w_glob (run_ops ops w) = skip (n_global ops) (w_glob w).
Proof.
  induction ops as [|o ops IH]; intros w; [destruct w as [[s c] p]; reflexivity|].
  unfold run_ops in *. cbn [fold_left]. rewrite IH. unfold n_global. cbn [filter].
  destruct o; cbn [is_private negb length wstep w_glob]; try reflexivity.
  unfold skip, draw. cbn [snd stream cursor]. f_equal. lia.
Qed.

(* whatever a check does to any generator, the loop behaves like the loop of the first model *)
Theorem loop_ops_is_loop : forall n P deps rs A ops it r,
  loop_ops n P deps rs A ops it r = loop n P deps rs A it r.
Proof.
  induction n as [|n IH]; intros; cbn [loop_ops loop]; [reflexivity|]. unfold restore.
  destruct (is_accept _); [reflexivity|apply IH].
Qed.

Theorem generate_ops_indep : forall n P gather A A' ops ops' r, optional_ok P r ->
  generate_ops n P gather A ops r = generate_ops n P gather A' ops' r.
Proof.
  intros n P gather A A' ops ops' r H. unfold generate_ops.
  pose proof (generate_indep n P gather A A' r H) as G. unfold generate in G.
  destruct (draw_actives (p_reqs P) r) as [rs r1]. now rewrite !loop_ops_is_loop.
Qed.

(* the late restore is harmless exactly as long as checks only use private generators ... *)
Lemma loop_late_private : forall n P deps rs A ops it r,
  (forall k, forallb is_private (ops k) = true) ->
  loop_late n P deps rs A ops it r = loop n P deps rs A it r.
Proof.
  induction n as [|n IH]; intros P deps rs A ops it r H; cbn [loop_late loop]; [reflexivity|]. unfold restore.
  rewrite (private_ops_keep_global (ops it) _ (H it)). cbn [w_glob].
  destruct (is_accept _); [reflexivity|now apply IH].
Qed.

Theorem generate_late_private_ok : forall n P gather A ops r,
  (forall k, forallb is_private (ops k) = true) ->
  generate_late n P gather A ops r = generate n P gather A r.
Proof.
  intros. unfold generate_late, generate. destruct (draw_actives (p_reqs P) r) as [rs r1].
  now apply loop_late_private.
Qed.

(* ... and seed C15-1: as soon as a check on a rejected candidate draws from the global generator,
   the amount shows in the next candidate *)
Definition late_prog : prog :=
  mkProg [mkNode [] true] ev_w [0] [] [] [] [mkU 0 false None]
         (fun m _ => match lookup m 0 with Some v => Z.ltb v 1 | None => false end).

Theorem late_restore_refuted : exists P n A ops ops' r,
  (forall r, optional_ok P r) /\
  value_of 0 (generate_late n P gather_ordered A ops r) <> value_of 0 (generate_late n P gather_ordered A ops' r).
Proof.
  exists late_prog, 3, adv0, (fun _ => []), (fun _ => [GDraw; PNew Z.of_nat; PDraw 0; GDraw]), rng0.
  split.
  - apply no_optional_ok. intros u [<-|[]]. reflexivity.
  - vm_compute. discriminate.
Qed.

(* ------------------------------------------------------------------ combined statements *)
Theorem sorted_deps_canonical : forall l l',
  Permutation l l' -> nsort l = nsort l' /\ Sorted le (nsort l) /\ Permutation (nsort l) l.
Proof. intros l l' H. split; [now apply nsort_perm_eq|split; [apply nsort_sorted|apply nsort_perm]]. Qed.

Theorem spec_order_indep_of_hash : forall pi pi' specs,
  (forall l, Permutation (pi l) l) -> (forall l, Permutation (pi' l) l) ->
  resolve (present_sorted pi) specs = resolve (present_sorted pi') specs
  /\ prop_order (present_sorted pi) specs = prop_order (present_sorted pi') specs.
Proof. intros. split; [now apply resolve_sorted_indep|now apply prop_order_sorted_indep]. Qed.

Theorem private_draws_keep_global : forall ops w,
  (forallb is_private ops = true -> w_glob (run_ops ops w) = w_glob w)
  /\ w_glob (run_ops ops w) = skip (n_global ops) (w_glob w).
Proof. intros. split; [apply private_ops_keep_global|apply global_cursor]. Qed.
