(* C15 — model of what can differ between two processes running the same program with the same
   seed (definitions only).  Everything process-dependent is an explicit adversarial parameter:
     a_pi   : the iteration order of the unordered container the requirement dependencies are
              gathered in (Python sets of objects hashed by id),
     a_lt, a_st, a_durs : the comparison the checker derives from wall-clock times, its buffer
              state and the clock (per rejection-sampling iteration),
     a_k    : how much of the global RNG stream is consumed while checking.
   Anchors: scenarios.py (dependencies tuple, _generateInner, generateBatch), distributions.py
   (Samplable.sampleAll / sample), requirements.py (compile: deps), dynamics/scenarios.py
   (_requirementDeps), sample_checking.py (C02's model is reused). *)
From Coq Require Import ZArith List Bool Arith.
From Scenic Require Import C02.Checker.
Import ListNotations.

(* ---------------------------------------------------------------- the global RNG *)
Record rng := mkRng { stream : nat -> Z; cursor : nat }.
Definition draw (r : rng) : Z * rng := (stream r (cursor r), mkRng (stream r) (S (cursor r))).
Definition skip (k : nat) (r : rng) : rng := mkRng (stream r) (k + cursor r).
(* random.setstate(saved): the current state is discarded *)
Definition restore (saved current : rng) : rng := saved.

(* ---------------------------------------------------------------- values and sampling *)
(* node i of the DAG: its _dependencies (in order) and whether sampleGiven draws from the RNG *)
Record node := mkNode { children : list nat; is_random : bool }.
Definition dag := list node.
Definition memo := list (nat * Z).

Fixpoint lookup (m : memo) (i : nat) : option Z :=
  match m with
  | [] => None
  | (j, v) :: m' => if j =? i then Some v else lookup m' i
  end.

Record sstate := mkSS { ss_memo : memo; ss_rng : rng; ss_log : list nat }.

Definition get_node (g : dag) (i : nat) : node := nth i g (mkNode [] false).

(* Samplable.sample: sample the children not yet in [subsamples], then sampleGiven.
   [ev i u vs] is the value of node i given its draw (if any) and its children's values. *)
Fixpoint visit (fuel : nat) (g : dag) (ev : nat -> option Z -> list (option Z) -> Z) (i : nat)
         (s : sstate) : sstate :=
  match fuel with
  | O => s
  | S f =>
      match lookup (ss_memo s) i with
      | Some _ => s
      | None =>
          let nd := get_node g i in
          let s1 := fold_left (fun s c => visit f g ev c s) (children nd) s in
          let vs := map (lookup (ss_memo s1)) (children nd) in
          if is_random nd then
            let '(u, r') := draw (ss_rng s1) in
            mkSS ((i, ev i (Some u) vs) :: ss_memo s1) r' (ss_log s1 ++ [i])
          else mkSS ((i, ev i None vs) :: ss_memo s1) (ss_rng s1) (ss_log s1)
      end
  end.

(* Samplable.sampleAll(dependencies) *)
Definition sample_all (g : dag) ev (deps : list nat) (r : rng) : sstate :=
  fold_left (fun s q => visit (S (length g)) g ev q s) deps (mkSS [] r []).

(* ---------------------------------------------------------------- gathering requirement deps *)
Fixpoint dedup (seen : list nat) (l : list nat) : list nat :=
  match l with
  | [] => []
  | x :: l' => if existsb (Nat.eqb x) seen then dedup seen l' else x :: dedup (x :: seen) l'
  end.

(* repaired: insertion-ordered collection (first occurrence wins) *)
Definition gather_ordered (bs : list (list nat)) : list nat := dedup [] (concat bs).
(* before the repair (F2): a Python set; its iteration order is whatever the process makes it *)
Definition gather_set (pi : list nat -> list nat) (bs : list (list nat)) : list nat :=
  pi (gather_ordered bs).

(* ---------------------------------------------------------------- programs *)
Record ureq := mkU { q_rid : nat; q_optional : bool; q_prob : option Z }.
(* q_prob = Some p: a user requirement, selected for the sample iff random() <= p (one draw each);
   None: a built-in requirement, always active *)

Record prog := mkProg {
  p_dag : dag;
  p_ev : nat -> option Z -> list (option Z) -> Z;
  p_instances : list nat;
  p_params : list nat;
  p_bindings : list (list nat);        (* per requirement/monitor: the values it refers to *)
  p_behaviors : list nat;              (* random values in behaviour namespaces *)
  p_reqs : list ureq;
  p_fals : memo -> nat -> bool }.      (* which requirements a sample falsifies *)

Definition deps_of (gather : list (list nat) -> list nat) (P : prog) : list nat :=
  p_instances P ++ p_params P ++ gather (p_bindings P) ++ p_behaviors P.

Fixpoint draw_actives (qs : list ureq) (r : rng) : list req * rng :=
  match qs with
  | [] => ([], r)
  | q :: qs' =>
      match q_prob q with
      | Some p => let '(u, r1) := draw r in
                  let '(rs, r2) := draw_actives qs' r1 in
                  (mkReq (q_rid q) (q_optional q) (Z.leb u p) :: rs, r2)
      | None => let '(rs, r2) := draw_actives qs' r in
                (mkReq (q_rid q) (q_optional q) true :: rs, r2)
      end
  end.

Record adv := mkAdv {
  a_lt : nat -> req -> req -> bool;
  a_st : nat -> cstate;
  a_durs : nat -> list Z;
  a_k : nat -> nat }.

(* the rejection loop of Scenario._generateInner *)
Fixpoint loop (n : nat) (P : prog) (deps : list nat) (rs : list req) (A : adv) (it : nat) (r : rng)
  : option (memo * nat * rng) :=
  match n with
  | O => None
  | S n' =>
      let s := sample_all (p_dag P) (p_ev P) deps r in
      let saved := ss_rng s in
      let v := snd (check_with (a_lt A it) (a_st A it) rs (p_fals P (ss_memo s)) (a_durs A it)) in
      let after_check := skip (a_k A it) saved in
      let r' := restore saved after_check in
      if is_accept v then Some (ss_memo s, S it, r') else loop n' P deps rs A (S it) r'
  end.

Definition generate (n : nat) (P : prog) (gather : list (list nat) -> list nat) (A : adv) (r : rng)
  : option (memo * nat * rng) :=
  let '(rs, r1) := draw_actives (p_reqs P) r in
  loop n P (deps_of gather P) rs A 0 r1.

(* Scenario.generateBatch: scene after scene on the same RNG; [A j] is the adversary during scene j
   (the checker's buffers carry over, so its state is arbitrary) *)
Fixpoint batch (m : nat) (n : nat) (P : prog) gather (A : nat -> adv) (j : nat) (r : rng)
  : list (option (memo * nat)) :=
  match m with
  | O => []
  | S m' =>
      match generate n P gather (A j) r with
      | None => [None]
      | Some (mm, it, r') => Some (mm, it) :: batch m' n P gather A (S j) r'
      end
  end.

(* the active requirement set of a run, as the checker sees it *)
Definition run_reqs (P : prog) (r : rng) : list req := fst (draw_actives (p_reqs P) r).

(* hypothesis under which the verdict cannot depend on the order of checks (C02) *)
Definition optional_ok (P : prog) (r : rng) : Prop :=
  forall m, optional_implied (run_reqs P r) (p_fals P m).
