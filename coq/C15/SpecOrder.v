(* C15 — model of the order in which Constructible._resolveSpecifiers evaluates specifiers
   (definitions only).  Anchors: specifiers.py Specifier.__init__ (requiredProperties =
   tuple(sorted(deps)), deps a Python set of property names), object_types.py _resolveSpecifiers
   (specifier list = specifiers as written ++ the class's defaults in definition order; depth-first
   search over spec.requiredProperties; post-order = evaluation order = insertion order of the
   object's property dict = order of the object's sampling dependencies).
   Property names are numbers whose order is Python's string order (the harness numbers the names
   by rank).  What a process can change is the order in which the dependency SET of a specifier is
   iterated (string hashes, PYTHONHASHSEED): the adversarial parameter [pi].
   Not modelled: modifying specifiers, cyclic dependencies (the real code raises). *)
From Coq Require Import ZArith List Bool Arith.
From Scenic Require Import C02.Checker C15.Determinism.
Import ListNotations.

(* sorted(deps) *)
Fixpoint ins (x : nat) (l : list nat) : list nat :=
  match l with
  | [] => [x]
  | y :: l' => if x <=? y then x :: l else y :: ins x l'
  end.
Fixpoint nsort (l : list nat) : list nat :=
  match l with
  | [] => []
  | x :: l' => ins x (nsort l')
  end.

(* a specifier after resolution of priorities: the properties it actually specifies and the set of
   properties it requires (any listing of the set) *)
Record spec := mkSpec { s_props : list nat; s_req : list nat }.
Definition no_spec : spec := mkSpec [] [].

Fixpoint owner_from (k : nat) (specs : list spec) (p : nat) : option nat :=
  match specs with
  | [] => None
  | s :: r => if existsb (Nat.eqb p) (s_props s) then Some k else owner_from (S k) r p
  end.
(* properties[dep]: the specifier that specifies the property *)
Definition owner (specs : list spec) (p : nat) : option nat := owner_from 0 specs p.

Definition mem (i : nat) (l : list nat) : bool := existsb (Nat.eqb i) l.

(* dfs(spec): [present] is how the process presents requiredProperties
   (now: sorted (pi deps); seeded regression: pi deps) *)
Fixpoint dfs (fuel : nat) (present : list nat -> list nat) (specs : list spec) (i : nat)
         (order : list nat) : list nat :=
  match fuel with
  | O => order
  | S f =>
      if mem i order then order
      else
        let sp := nth i specs no_spec in
        let order1 :=
          fold_left (fun o dep => match owner specs dep with
                                  | Some c => dfs f present specs c o
                                  | None => o
                                  end) (present (s_req sp)) order in
        order1 ++ [i]
  end.

(* for spec in specifiers: dfs(spec) *)
Definition resolve (present : list nat -> list nat) (specs : list spec) : list nat :=
  fold_left (fun o i => dfs (S (length specs)) present specs i o) (seq 0 (length specs)) [].

(* insertion order of the property dict *)
Definition prop_order (present : list nat -> list nat) (specs : list spec) : list nat :=
  flat_map (fun i => s_props (nth i specs no_spec)) (resolve present specs).

Definition present_sorted (pi : list nat -> list nat) : list nat -> list nat := fun l => nsort (pi l).
Definition present_raw (pi : list nat -> list nat) : list nat -> list nat := pi.

(* the object's node of the sampling DAG gets the property values, in dict order, as its
   _dependencies; [pn] maps a property to the node of its value *)
Fixpoint set_children (g : dag) (obj : nat) (ch : list nat) : dag :=
  match g, obj with
  | [], _ => []
  | nd :: g', O => mkNode ch (is_random nd) :: g'
  | nd :: g', S k => nd :: set_children g' k ch
  end.

Definition object_dag (g : dag) (obj : nat) (pn : nat -> nat) (present : list nat -> list nat)
           (specs : list spec) : dag :=
  set_children g obj (map pn (prop_order present specs)).

(* ---------------------------------------------------------------- private generators *)
(* numpy.random.default_rng(seed) objects (visibility.py seed 42, utils.findMeshInteriorPoint,
   regions.py): their state lives in their own record; the global generators are [w_glob] *)
Record world := mkW { w_glob : rng; w_priv : list rng }.

Inductive op :=
| GDraw                        (* random.random() / numpy.random.*: the global generator *)
| PNew (seed : nat -> Z)       (* rng = default_rng(seed) *)
| PDraw (j : nat).             (* rng_j.random() *)

Fixpoint upd_rng (l : list rng) (j : nat) : list rng :=
  match l, j with
  | [], _ => []
  | r :: l', O => snd (draw r) :: l'
  | r :: l', S k => r :: upd_rng l' k
  end.

Definition wstep (w : world) (o : op) : world :=
  match o with
  | GDraw => mkW (snd (draw (w_glob w))) (w_priv w)
  | PNew s => mkW (w_glob w) (w_priv w ++ [mkRng s 0])
  | PDraw j => mkW (w_glob w) (upd_rng (w_priv w) j)
  end.
Definition run_ops (ops : list op) (w : world) : world := fold_left wstep ops w.

Definition is_private (o : op) : bool := match o with GDraw => false | _ => true end.
Definition n_global (ops : list op) : nat := length (filter (fun o => negb (is_private o)) ops).

(* the rejection loop where what a check does to the generators is an arbitrary op sequence per
   iteration ([a_k] of the first model is n_global of it) *)
Fixpoint loop_ops (n : nat) (P : prog) (deps : list nat) (rs : list req) (A : adv)
         (ops : nat -> list op) (it : nat) (r : rng) : option (memo * nat * rng) :=
  match n with
  | O => None
  | S n' =>
      let s := sample_all (p_dag P) (p_ev P) deps r in
      let saved := ss_rng s in
      let v := snd (check_with (a_lt A it) (a_st A it) rs (p_fals P (ss_memo s)) (a_durs A it)) in
      let after_check := w_glob (run_ops (ops it) (mkW saved [])) in
      let r' := restore saved after_check in
      if is_accept v then Some (ss_memo s, S it, r') else loop_ops n' P deps rs A ops (S it) r'
  end.

Definition generate_ops (n : nat) (P : prog) (gather : list (list nat) -> list nat) (A : adv)
           (ops : nat -> list op) (r : rng) : option (memo * nat * rng) :=
  let '(rs, r1) := draw_actives (p_reqs P) r in
  loop_ops n P (deps_of gather P) rs A ops 0 r1.

(* seeded regression C15-1: the restore hoisted out of the rejection loop (done once, after the
   accepted candidate) *)
Fixpoint loop_late (n : nat) (P : prog) (deps : list nat) (rs : list req) (A : adv)
         (ops : nat -> list op) (it : nat) (r : rng) : option (memo * nat * rng) :=
  match n with
  | O => None
  | S n' =>
      let s := sample_all (p_dag P) (p_ev P) deps r in
      let saved := ss_rng s in
      let v := snd (check_with (a_lt A it) (a_st A it) rs (p_fals P (ss_memo s)) (a_durs A it)) in
      let after_check := w_glob (run_ops (ops it) (mkW saved [])) in
      if is_accept v then Some (ss_memo s, S it, restore saved after_check)
      else loop_late n' P deps rs A ops (S it) after_check
  end.

Definition generate_late (n : nat) (P : prog) (gather : list (list nat) -> list nat) (A : adv)
           (ops : nat -> list op) (r : rng) : option (memo * nat * rng) :=
  let '(rs, r1) := draw_actives (p_reqs P) r in
  loop_late n P (deps_of gather P) rs A ops 0 r1.
