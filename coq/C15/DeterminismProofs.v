(* C15 — lemmas: the adversarial parameters cannot influence what generate returns, except through
   the order of the dependency tuple. *)
From Coq Require Import ZArith List Bool Arith Lia Permutation.
From Scenic Require Import C02.Checker C02.CheckerProofs C15.Determinism.
Import ListNotations.

(* the user-visible stream after checking equals the stream before it, whatever was consumed *)
Lemma rng_restore : forall saved k, restore saved (skip k saved) = saved.
Proof. reflexivity. Qed.

Lemma loop_indep : forall n P deps rs A A' it r,
  (forall m, optional_implied rs (p_fals P m)) ->
  loop n P deps rs A it r = loop n P deps rs A' it r.
Proof.
  induction n as [|n IH]; intros P deps rs A A' it r H; cbn [loop]; [reflexivity|].
  unfold restore.
  rewrite (verdict_order_independent (a_lt A it) (a_lt A' it) (a_st A it) (a_st A' it) rs
             (p_fals P (ss_memo (sample_all (p_dag P) (p_ev P) deps r)))
             (a_durs A it) (a_durs A' it) (H _)).
  destruct (is_accept _); [reflexivity|]. now apply IH.
Qed.

Lemma generate_indep : forall n P gather A A' r, optional_ok P r ->
  generate n P gather A r = generate n P gather A' r.
Proof.
  intros n P gather A A' r H. unfold generate. unfold optional_ok, run_reqs in H.
  destruct (draw_actives (p_reqs P) r) as [rs r1]. cbn [fst] in H. now apply loop_indep.
Qed.

(* the dependency tuple does not depend on the container order *)
Definition deps_order_fixed (P : prog) (pi pi' : list nat -> list nat) : Prop :=
  gather_set pi (p_bindings P) = gather_set pi' (p_bindings P).

Theorem output_indep_of_adversary : forall n P pi pi' A A' r,
  optional_ok P r -> deps_order_fixed P pi pi' ->
  generate n P (gather_set pi) A r = generate n P (gather_set pi') A' r.
Proof.
  intros n P pi pi' A A' r H D. rewrite (generate_indep n P (gather_set pi) A A' r H).
  unfold generate, deps_of. unfold deps_order_fixed in D. now rewrite D.
Qed.

(* with the insertion-ordered collection there is no container order to depend on *)
Theorem output_indep_of_adversary_ordered : forall n P A A' r, optional_ok P r ->
  generate n P gather_ordered A r = generate n P gather_ordered A' r.
Proof. intros. now apply generate_indep. Qed.

Theorem batch_indep_of_history : forall m n P gather A A' j j' r,
  (forall r, optional_ok P r) ->
  batch m n P gather A j r = batch m n P gather A' j' r.
Proof.
  induction m as [|m IH]; intros n P gather A A' j j' r H; cbn [batch]; [reflexivity|].
  rewrite (generate_indep n P gather (A j) (A' j') r (H r)).
  destruct (generate n P gather (A' j') r) as [[[mm it] r']|]; [|reflexivity].
  f_equal. now apply IH.
Qed.

(* a sufficient condition for the hypothesis: no optional requirement at all *)
Lemma draw_actives_optional : forall qs r q, In q (fst (draw_actives qs r)) ->
  exists u, In u qs /\ optional q = q_optional u.
Proof.
  induction qs as [|u qs IH]; intros r q H; cbn [draw_actives] in H; [destruct H|].
  destruct (q_prob u) as [p|].
  - destruct (draw r) as [x r1]. destruct (draw_actives qs r1) as [rs r2] eqn:E. cbn [fst] in H.
    destruct H as [<-|H].
    + exists u. split; [now left|reflexivity].
    + specialize (IH r1 q). rewrite E in IH. destruct (IH H) as (u' & Hu & Ho). exists u'. split; [now right|exact Ho].
  - destruct (draw_actives qs r) as [rs r2] eqn:E. cbn [fst] in H.
    destruct H as [<-|H].
    + exists u. split; [now left|reflexivity].
    + specialize (IH r q). rewrite E in IH. destruct (IH H) as (u' & Hu & Ho). exists u'. split; [now right|exact Ho].
Qed.

Lemma no_optional_ok : forall P, (forall u, In u (p_reqs P) -> q_optional u = false) ->
  forall r, optional_ok P r.
Proof.
  intros P H r m q Hq _ Ho _. unfold run_reqs in Hq.
  destruct (draw_actives_optional _ _ _ Hq) as (u & Hu & E). rewrite (H u Hu) in E. congruence.
Qed.

(* ------------------------------------------------------------------ the ordered collection *)
Lemma dedup_In : forall l seen x, In x (dedup seen l) <-> In x l /\ ~ In x seen.
Proof.
  induction l as [|y l IH]; intros seen x; cbn [dedup].
  - split; [intros []|intros [[] _]].
  - destruct (existsb (Nat.eqb y) seen) eqn:E.
    + rewrite IH. apply existsb_exists in E. destruct E as (z & Hz & Ez). apply Nat.eqb_eq in Ez. subst z.
      split; [intros [H1 H2]; split; [now right|exact H2]|].
      intros [[->|H1] H2]; [contradiction|now split].
    + assert (~ In y seen) as Ny.
      { intro Hy. assert (existsb (Nat.eqb y) seen = true) as X
          by (apply existsb_exists; exists y; split; [exact Hy|apply Nat.eqb_refl]). congruence. }
      cbn [In]. rewrite IH. cbn [In]. split.
      * intros [->|[H1 H2]]; [split; [now left|exact Ny]|]. split; [now right|]. intro; apply H2; now right.
      * intros [[->|H1] H2]; [now left|]. destruct (Nat.eq_dec y x) as [->|Ne]; [now left|].
        right. split; [exact H1|]. intros [?|?]; [congruence|contradiction].
Qed.

Lemma dedup_NoDup : forall l seen, NoDup (dedup seen l).
Proof.
  induction l as [|y l IH]; intros seen; cbn [dedup]; [constructor|].
  destruct (existsb (Nat.eqb y) seen); [apply IH|]. constructor; [|apply IH].
  rewrite dedup_In. intros [_ H]. apply H. now left.
Qed.

(* nothing is lost or duplicated: the ordered collection has exactly the elements of the set *)
Theorem gather_ordered_spec : forall bs,
  NoDup (gather_ordered bs) /\ (forall x, In x (gather_ordered bs) <-> In x (concat bs)).
Proof.
  intro bs. split; [apply dedup_NoDup|]. intro x. unfold gather_ordered. rewrite dedup_In.
  split; [now intros [H _]|]. intro H; split; [exact H|intros []].
Qed.

Theorem gather_set_perm : forall pi bs, (forall l, Permutation (pi l) l) ->
  Permutation (gather_set pi bs) (gather_ordered bs).
Proof. intros pi bs H. apply H. Qed.

(* ------------------------------------------------------------------ F2: the set order matters *)
Definition f2_prog : prog :=
  mkProg [mkNode [] true; mkNode [] true]
         (fun _ u _ => match u with Some x => x | None => 0%Z end)
         [] [] [[0; 1]] [] [mkU 0 false None] (fun _ _ => false).
Definition adv0 : adv := mkAdv (fun _ _ _ => false) (fun _ => []) (fun _ => []) (fun _ => 0).
Definition rng0 : rng := mkRng Z.of_nat 0.

Definition value_of (i : nat) (o : option (memo * nat * rng)) : option (option Z) :=
  option_map (fun x => lookup (fst (fst x)) i) o.

Theorem deps_order_refuted : exists P pi pi' n A r,
  (forall l, Permutation (pi l) l) /\ (forall l, Permutation (pi' l) l) /\
  value_of 0 (generate n P (gather_set pi) A r) <> value_of 0 (generate n P (gather_set pi') A r).
Proof.
  exists f2_prog, (fun l => l), (@rev nat), 1, adv0, rng0. split; [reflexivity|]. split.
  - intro l. apply Permutation_sym, Permutation_rev.
  - vm_compute. discriminate.
Qed.
