(* C14 — lemmas about SimState.v *)
From Coq Require Import ZArith List Bool Arith Lia.
From Scenic Require Import C14.SimState.
Import ListNotations.
Open Scope Z_scope.

Lemma run_app V a b s : run V (a ++ b) s = run V b (run V a s).
Proof. unfold run. apply fold_left_app. Qed.

(* ---------- the scene is never written while proxies are enabled ---------- *)
Lemma step_sim_keeps V s o v : sim_op o = true -> proxy s = Some v ->
  orig (step V s o) = orig s /\ exists v', proxy (step V s o) = Some v'.
Proof.
  intros Ho Hp. destruct o; try discriminate; cbn [step].
  - unfold write. rewrite Hp. cbn. eauto.
  - destruct (stack s) as [|top rest]; [eauto|].
    unfold write, set_stack. cbn [proxy]. rewrite Hp. cbn. eauto.
  - unfold set_stack. cbn. eauto.
  - destruct (stack s) as [|top rest]; [eauto|].
    unfold set_stack, with_view. rewrite Hp. cbn. eauto.
Qed.

Lemma run_sim_keeps V ops : forallb sim_op ops = true -> forall s v, proxy s = Some v ->
  orig (run V ops s) = orig s /\ exists v', proxy (run V ops s) = Some v'.
Proof.
  induction ops as [|o ops IH]; intros Hall s v Hp; [cbn; eauto|].
  cbn [forallb] in Hall. apply andb_true_iff in Hall as [Ho Hall].
  destruct (step_sim_keeps V s o v Ho Hp) as [Horig [v' Hp']].
  change (run V (o :: ops) s) with (run V ops (step V s o)).
  destruct (IH Hall _ _ Hp') as [H1 H2]. rewrite H1, Horig. auto.
Qed.

(* Whatever the simulation does (writes by behaviours and the simulator, overrides, nested
   scenarios) and however it ends, the scene's objects read the same afterwards *)
Lemma finish_after_sim ops s v : forallb sim_op ops = true -> proxy s = Some v ->
  orig (run fixed (ops ++ [Finish]) s) = orig s.
Proof.
  intros Hall Hp. rewrite run_app.
  destruct (run_sim_keeps fixed ops Hall s v Hp) as [Horig [v' Hp']].
  remember (run fixed ops s) as s2.
  change (run fixed [Finish] s2) with (step fixed s2 Finish).
  cbn [step fixed proxies_dropped_first].
  unfold drop_proxies, stop_all, set_stack, with_view. rewrite Hp'. cbn. exact Horig.
Qed.

Theorem scene_untouched ops v0 : forallb sim_op ops = true ->
  orig (run fixed (Begin :: ops ++ [Finish]) (init v0)) = v0.
Proof.
  intros Hall. change (run fixed (Begin :: ops ++ [Finish]) (init v0))
    with (run fixed (ops ++ [Finish]) (step fixed (init v0) Begin)).
  rewrite (finish_after_sim ops _ v0 Hall); reflexivity.
Qed.

Theorem state_reset V ops s :
  let s' := run V (ops ++ [Finish]) s in active s' = false /\ proxy s' = None /\ stack s' = [].
Proof. cbn. rewrite run_app. cbn. auto. Qed.

(* ---------- overrides are undone when their scenario ends ---------- *)
Lemma find_app o p a b : find o p (a ++ b) = match find o p a with Some y => Some y | None => find o p b end.
Proof.
  induction a as [|[[o' p'] x] a IH]; [reflexivity|]. cbn [app find].
  destruct (Nat.eqb o' o && Nat.eqb p' p); [reflexivity|exact IH].
Qed.

Lemma find_setdefault t o' p' x o p :
  find o p (setdefault t o' p' x) =
  match find o p t with
  | Some y => Some y
  | None => if Nat.eqb o' o && Nat.eqb p' p then Some x else None
  end.
Proof.
  unfold setdefault. destruct (find o' p' t) as [y|] eqn:E.
  - destruct (find o p t) eqn:E2; [reflexivity|].
    destruct (Nat.eqb o' o && Nat.eqb p' p) eqn:Eq; [|reflexivity].
    apply andb_true_iff in Eq as [Ho Hp]. apply Nat.eqb_eq in Ho, Hp. subst. congruence.
  - rewrite find_app. destruct (find o p t); [reflexivity|]. cbn [find].
    destruct (Nat.eqb o' o && Nat.eqb p' p); reflexivity.
Qed.

Lemma read_revert t v o p : revert t v o p = match find o p t with Some x => x | None => v o p end.
Proof.
  induction t as [|[[o' p'] x] t IH]; [reflexivity|]. cbn [revert fold_right find].
  unfold upd at 1. rewrite (Nat.eqb_sym o o'), (Nat.eqb_sym p p').
  destruct (Nat.eqb o' o && Nat.eqb p' p); [reflexivity|]. exact IH.
Qed.

Lemma read_with_view s f : read (with_view s f) = f (read s).
Proof. unfold read, with_view. destruct (proxy s); reflexivity. Qed.

Lemma read_set_stack s k : read (set_stack s k) = read s.
Proof. reflexivity. Qed.

Lemma stack_write s o p x : stack (write s o p x) = stack s.
Proof. unfold write. destruct (proxy s); reflexivity. Qed.

Lemma seg_table seg : forallb seg_op seg = true -> forall s top rest, stack s = top :: rest ->
  exists top', stack (run fixed seg s) = top' :: rest /\
    forall o p, find o p top' = match find o p top with Some y => Some y | None => first_ov fixed seg s o p end.
Proof.
  induction seg as [|a seg IH]; intros Hall s top rest Hs.
  - exists top. split; [exact Hs|]. intros o p. cbn. destruct (find o p top); reflexivity.
  - cbn [forallb] in Hall. apply andb_true_iff in Hall as [Ha Hall].
    change (run fixed (a :: seg) s) with (run fixed seg (step fixed s a)).
    destruct a as [|o' p' x|o' p' x| | |]; try discriminate.
    + (* Write *)
      assert (Hs' : stack (step fixed s (Write o' p' x)) = top :: rest) by (cbn [step]; now rewrite stack_write).
      destruct (IH Hall _ _ _ Hs') as [top' [H1 H2]]. exists top'. split; [exact H1|]. exact H2.
    + (* Override *)
      assert (Hs' : stack (step fixed s (Override o' p' x)) = setdefault top o' p' (read s o' p') :: rest).
      { cbn [step fixed first_only]. rewrite Hs. now rewrite stack_write. }
      destruct (IH Hall _ _ _ Hs') as [top' [H1 H2]]. exists top'. split; [exact H1|].
      intros o p. rewrite H2, find_setdefault. cbn [first_ov].
      destruct (find o p top); [reflexivity|].
      destruct (Nat.eqb o' o && Nat.eqb p' p) eqn:Eq; [|reflexivity].
      apply andb_true_iff in Eq as [Ho Hp]. apply Nat.eqb_eq in Ho, Hp. subst. reflexivity.
Qed.

(* A scenario that starts, runs any statements (assignments and overrides) and stops leaves every
   property it overrode with the value it had just before the scenario first overrode it; a
   property it did not override keeps whatever was last written; the scenario stack is as before. *)
Theorem override_undone seg s : forallb seg_op seg = true ->
  let s1 := step fixed s Push in
  let s' := run fixed (Push :: seg ++ [Pop]) s in
  stack s' = stack s /\
  forall o p, read s' o p = match first_ov fixed seg s1 o p with
                           | Some x => x
                           | None => read (run fixed seg s1) o p end.
Proof.
  intros Hall s1 s'. subst s'.
  change (run fixed (Push :: seg ++ [Pop]) s) with (run fixed (seg ++ [Pop]) s1). rewrite run_app.
  assert (Hs1 : stack s1 = [] :: stack s) by reflexivity.
  destruct (seg_table seg Hall s1 [] (stack s) Hs1) as [top' [H1 H2]].
  remember (run fixed seg s1) as s2.
  change (run fixed [Pop] s2) with (step fixed s2 Pop). cbn [step]. rewrite H1.
  split; [reflexivity|].
  intros o p. rewrite read_set_stack, read_with_view, read_revert, H2. cbn [find]. reflexivity.
Qed.

(* ---------- the pre-fix variants violate the property (documentation of F6 and F18) ---------- *)
Definition v0 : view := fun o p => (Z.of_nat o * 10 + Z.of_nat p + 1).
Definition old_finally := {| proxies_dropped_first := true; first_only := false |}.
Definition old_override := {| proxies_dropped_first := false; first_only := true |}.

(* F18: a behaviour assigns foo, a sub-scenario overrides foo, the run is aborted: the aborted
   run's revert lands in the scene *)
Lemma old_finally_refuted :
  orig (run old_finally [Begin; Write 0 0 3; Push; Override 0 0 5; Finish] (init v0)) 0%nat 0%nat <> v0 0%nat 0%nat.
Proof. vm_compute. discriminate. Qed.

(* F6: two override statements on one object in one scenario: the second is never undone *)
Lemma old_override_refuted :
  read (run old_override [Begin; Push; Override 0 0 5; Override 0 1 20; Pop] (init v0)) 0%nat 1%nat <> v0 0%nat 1%nat.
Proof. vm_compute. discriminate. Qed.

Example fixed_on_witnesses :
  orig (run fixed [Begin; Write 0 0 3; Push; Override 0 0 5; Finish] (init v0)) 0%nat 0%nat = v0 0%nat 0%nat /\
  read (run fixed [Begin; Push; Override 0 0 5; Override 0 1 20; Pop] (init v0)) 0%nat 1%nat = v0 0%nat 1%nat.
Proof. vm_compute. split; reflexivity. Qed.
