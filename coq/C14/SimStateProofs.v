(* C14 — lemmas about SimState.v *)
From Coq Require Import ZArith List Bool Arith Lia.
From Scenic Require Import C14.SimState.
Import ListNotations.
Open Scope Z_scope.

Lemma run_app V a b s : run V (a ++ b) s = run V b (run V a s).
Proof. unfold run. apply fold_left_app. Qed.

(* ---------- what an operation of a running simulation can touch ---------- *)
Definition static (s s':state) : Prop :=
  ns_orig s' = ns_orig s /\ ns_samp s' = ns_samp s /\ exists v', proxy s' = Some v'.

Lemma with_view_keeps s f v : proxy s = Some v -> orig (with_view s f) = orig s /\ static s (with_view s f).
Proof. intros Hp. unfold with_view, static. rewrite Hp. cbn. eauto. Qed.

Lemma stop_keeps V k s v : proxy s = Some v -> orig (stop V k s) = orig s /\ static s (stop V k s).
Proof.
  intros Hp. unfold stop, static. destruct (table_of k (running s)); [|eauto].
  unfold set_toptab, set_running, with_view. rewrite Hp. cbn. eauto.
Qed.

Lemma stops_keep V l : forall s v, proxy s = Some v ->
  let s' := fold_left (fun acc c => stop V (sid c) acc) l s in orig s' = orig s /\ static s s'.
Proof.
  induction l as [|c l IH]; intros s v Hp; cbn; [unfold static; eauto|].
  destruct (stop_keeps V (sid c) s v Hp) as [H1 [H2 [H3 [v' H4]]]].
  destruct (IH _ _ H4) as [G1 [G2 [G3 G4]]]. cbn in G1, G2, G3, G4.
  unfold static. rewrite G1, G2, G3, H1, H2, H3. auto.
Qed.

Lemma stop_all_keeps V s v : proxy s = Some v -> orig (stop_all V s) = orig s /\ static s (stop_all V s).
Proof. intros Hp. unfold stop_all. exact (stops_keep V (running s) s v Hp). Qed.

Lemma step_keeps V s a v : proxy s = Some v -> not_begin_finish a = true ->
  static s (step V s a) /\
  forall o, not_create o a = true -> forall p, orig (step V s a) o p = orig s o p.
Proof.
  intros Hp Ha. destruct a; try discriminate; cbn [step].
  - destruct (with_view_keeps s (fun v0 => upd v0 o p x) v Hp) as [H1 H2]. unfold write. rewrite H1. auto.
  - destruct (table_of k (running s)).
    + unfold write, with_view, set_running, static. cbn [proxy]. rewrite Hp. cbn. eauto.
    + destruct (with_view_keeps s (fun v0 => upd v0 o p x) v Hp) as [H1 H2]. unfold write. rewrite H1. auto.
  - destruct (table_of k (running s)); unfold static, set_running; cbn; eauto.
  - destruct (stop_keeps V k s v Hp) as [H1 H2]. rewrite H1. auto.
  - destruct (stop_all_keeps V s v Hp) as [H1 H2]. rewrite H1. auto.
  - unfold static, create. rewrite Hp. cbn. split; [eauto|].
    intros o' Hc p. unfold set_row. rewrite Nat.eqb_sym. apply negb_true_iff in Hc. rewrite Hc. reflexivity.
  - unfold static, set_ns. cbn. eauto.
  - unfold static, set_ns. cbn. eauto.
Qed.

Lemma run_keeps V ops : forall s v, proxy s = Some v -> forallb not_begin_finish ops = true ->
  static s (run V ops s) /\
  forall o, forallb (not_create o) ops = true -> forall p, orig (run V ops s) o p = orig s o p.
Proof.
  induction ops as [|a ops IH]; intros s v Hp Hall; [cbn; unfold static; eauto|].
  cbn [forallb] in Hall. apply andb_true_iff in Hall as [Ha Hall].
  destruct (step_keeps V s a v Hp Ha) as [[H1 [H2 [v' H3]]] H4].
  change (run V (a :: ops) s) with (run V ops (step V s a)).
  destruct (IH _ _ H3 Hall) as [[G1 [G2 G3]] G4]. split.
  - unfold static. rewrite G1, G2, H1, H2. auto.
  - intros o Hc p. cbn [forallb] in Hc. apply andb_true_iff in Hc as [Hc1 Hc2].
    rewrite (G4 o Hc2 p). apply H4. exact Hc1.
Qed.

Lemma finish_keeps s v : proxy s = Some v ->
  orig (step fixed s Finish) = orig s /\ ns (step fixed s Finish) = ns_orig s.
Proof.
  intros Hp. cbn [step fixed proxies_dropped_first]. cbn [orig ns drop_proxies].
  destruct (stop_all_keeps fixed s v Hp) as [H1 _]. auto.
Qed.

Lemma sim_op_split n a : sim_op n a = true ->
  not_begin_finish a = true /\ forall o, (o < n)%nat -> not_create o a = true.
Proof.
  destruct a; cbn; try discriminate; auto. intros H. split; [reflexivity|].
  intros o' Hlt. apply Nat.leb_le in H. apply negb_true_iff. apply Nat.eqb_neq. lia.
Qed.

Lemma sim_ops_split n ops : forallb (sim_op n) ops = true ->
  forallb not_begin_finish ops = true /\ forall o, (o < n)%nat -> forallb (not_create o) ops = true.
Proof.
  induction ops as [|a ops IH]; cbn [forallb]; [auto|]. intros H. apply andb_true_iff in H as [Ha H].
  destruct (sim_op_split n a Ha) as [A1 A2]. destruct (IH H) as [B1 B2]. split.
  - now rewrite A1, B1.
  - intros o Hlt. now rewrite (A2 o Hlt), (B2 o Hlt).
Qed.

(* Whatever the simulation does (writes by behaviours, compose blocks and the simulator, overrides
   from any scenario of the tree, sub-scenarios starting and stopping in any order, objects created
   on the way, globals assigned by behaviours or rebound by requirement closures) and however it
   ends, every object of the scene reads the same afterwards and the behaviours' namespace is the
   one the scene was made with. *)
Theorem scene_untouched n ops v0 g0 gs : forallb (sim_op n) ops = true ->
  let s' := run fixed (Begin :: ops ++ [Finish]) (init v0 g0 gs) in
  (forall o p, (o < n)%nat -> orig s' o p = v0 o p) /\ ns s' = g0.
Proof.
  intros Hall. destruct (sim_ops_split n ops Hall) as [Hnb Hnc]. cbn zeta.
  change (run fixed (Begin :: ops ++ [Finish]) (init v0 g0 gs))
    with (run fixed (ops ++ [Finish]) (step fixed (init v0 g0 gs) Begin)).
  rewrite run_app. set (s1 := step fixed (init v0 g0 gs) Begin).
  assert (Hp1 : proxy s1 = Some v0) by reflexivity.
  destruct (run_keeps fixed ops s1 v0 Hp1 Hnb) as [[G1 [G2 [v' G3]]] G4].
  remember (run fixed ops s1) as s2.
  change (run fixed [Finish] s2) with (step fixed s2 Finish).
  destruct (finish_keeps s2 v' G3) as [F1 F2]. rewrite F1, F2. split.
  - intros o p Hlt. rewrite (G4 o (Hnc o Hlt) p). reflexivity.
  - rewrite G1. reflexivity.
Qed.

(* an object created during the run reads, after the end, the values it was created with,
   whatever was assigned to it or overridden on it during the run *)
Theorem created_object_untouched ops1 ops2 ob vals v0 g0 gs :
  forallb not_begin_finish ops1 = true -> forallb not_begin_finish ops2 = true ->
  forallb (not_create ob) ops2 = true ->
  forall p, orig (run fixed (Begin :: ops1 ++ Create ob vals :: ops2 ++ [Finish]) (init v0 g0 gs)) ob p = nth p vals 0.
Proof.
  intros H1 H2 H3 p.
  change (run fixed (Begin :: ops1 ++ Create ob vals :: ops2 ++ [Finish]) (init v0 g0 gs))
    with (run fixed (ops1 ++ Create ob vals :: ops2 ++ [Finish]) (step fixed (init v0 g0 gs) Begin)).
  rewrite run_app. set (s1 := step fixed (init v0 g0 gs) Begin).
  assert (Hp1 : proxy s1 = Some v0) by reflexivity.
  destruct (run_keeps fixed ops1 s1 v0 Hp1 H1) as [[_ [_ [v' G3]]] _].
  remember (run fixed ops1 s1) as s2.
  change (run fixed (Create ob vals :: ops2 ++ [Finish]) s2) with (run fixed (ops2 ++ [Finish]) (step fixed s2 (Create ob vals))).
  rewrite run_app. set (s3 := step fixed s2 (Create ob vals)).
  assert (Hp3 : proxy s3 = Some (set_row v' ob vals)) by (unfold s3; cbn [step]; unfold create; rewrite G3; reflexivity).
  destruct (run_keeps fixed ops2 s3 _ Hp3 H2) as [[_ [_ [v'' K3]]] K4].
  remember (run fixed ops2 s3) as s4.
  change (run fixed [Finish] s4) with (step fixed s4 Finish).
  destruct (finish_keeps s4 v'' K3) as [F1 _]. rewrite F1, (K4 ob H3 p).
  unfold s3. cbn [step create orig]. unfold set_row. rewrite Nat.eqb_refl. reflexivity.
Qed.

Theorem state_reset V ops s :
  let s' := run V (ops ++ [Finish]) s in
  active s' = false /\ proxy s' = None /\ running s' = [] /\ ns s' = ns_orig s'.
Proof. cbn. rewrite run_app. cbn. auto. Qed.

(* the next simulation starts with an empty override table for the top-level scenario *)
Theorem fresh_tables ops s :
  running (step fixed (run fixed (ops ++ [Finish]) s) Begin) = [{| sid := 0%nat; spar := 0%nat; stab := [] |}].
Proof. rewrite run_app. cbn. reflexivity. Qed.

(* a requirement closure reads the scene's sample whatever happened to the globals before *)
Theorem nsbind_reads_sample V s l n : existsb (Nat.eqb n) l = true -> ns (step V s (NsBind l)) n = ns_samp s n.
Proof. intros H. cbn. rewrite H. reflexivity. Qed.

(* ---------- override tables ---------- *)
Lemma find_app o p a b : find o p (a ++ b) = match find o p a with Some y => Some y | None => find o p b end.
Proof.
  induction a as [|[[o' p'] x] a IH]; [reflexivity|]. cbn [app find].
  destruct (Nat.eqb o' o && Nat.eqb p' p); [reflexivity|exact IH].
Qed.

Lemma find_setdefault t o' p' x o p :
  find o p (setdefault t o' p' x) =
  match find o p t with
  | Some y => Some y
  | None => if Nat.eqb o' o && Nat.eqb p' p then Some x else None
  end.
Proof.
  unfold setdefault. destruct (find o' p' t) as [y|] eqn:E.
  - destruct (find o p t) eqn:E2; [reflexivity|].
    destruct (Nat.eqb o' o && Nat.eqb p' p) eqn:Eq; [|reflexivity].
    apply andb_true_iff in Eq as [Ho Hp]. apply Nat.eqb_eq in Ho, Hp. subst. congruence.
  - rewrite find_app. destruct (find o p t); [reflexivity|]. cbn [find].
    destruct (Nat.eqb o' o && Nat.eqb p' p); reflexivity.
Qed.

Lemma read_revert t v o p : revert t v o p = match find o p t with Some x => x | None => v o p end.
Proof.
  induction t as [|[[o' p'] x] t IH]; [reflexivity|]. cbn [revert fold_right find].
  unfold upd at 1. rewrite (Nat.eqb_sym o o'), (Nat.eqb_sym p p').
  destruct (Nat.eqb o' o && Nat.eqb p' p); [reflexivity|]. exact IH.
Qed.

Lemma read_with_view s f : read (with_view s f) = f (read s).
Proof. unfold read, with_view. destruct (proxy s); reflexivity. Qed.

Lemma running_with_view s f : running (with_view s f) = running s.
Proof. unfold with_view. destruct (proxy s); reflexivity. Qed.

Lemma table_of_set_table k k' t r :
  table_of k (set_table k' t r) =
  if Nat.eqb k' k then match table_of k' r with Some _ => Some t | None => None end else table_of k r.
Proof.
  induction r as [|c r IH]; cbn [set_table table_of].
  - destruct (Nat.eqb k' k); reflexivity.
  - destruct (Nat.eqb_spec (sid c) k') as [E1|E1]; cbn [table_of sid stab].
    + destruct (Nat.eqb_spec k' k) as [E2|E2]; destruct (Nat.eqb_spec (sid c) k) as [E3|E3];
        try reflexivity; exfalso; congruence.
    + rewrite IH. destruct (Nat.eqb_spec k' k) as [E2|E2]; destruct (Nat.eqb_spec (sid c) k) as [E3|E3];
        try reflexivity; exfalso; congruence.
Qed.

Lemma table_of_filter (g:nat -> bool) k r :
  table_of k (filter (fun c => g (sid c)) r) = if g k then table_of k r else None.
Proof.
  induction r as [|c r IH]; cbn [filter table_of]; [destruct (g k); reflexivity|].
  destruct (Nat.eqb_spec (sid c) k) as [E|E].
  - subst k. destruct (g (sid c)) eqn:G; cbn [table_of].
    + rewrite Nat.eqb_refl. reflexivity.
    + rewrite IH; try rewrite G; reflexivity.
  - destruct (g (sid c)); cbn [table_of]; [|exact IH].
    destruct (Nat.eqb_spec (sid c) k); [contradiction|exact IH].
Qed.

Lemma stop_table V k' k s :
  table_of k (running (stop V k' s)) = None \/ table_of k (running (stop V k' s)) = table_of k (running s).
Proof.
  unfold stop. destruct (table_of k' (running s)); [|auto].
  cbn [running set_toptab set_running]. unfold remove_ids.
  rewrite (table_of_filter (fun i => negb (existsb (Nat.eqb i) _)) k (running s)).
  match goal with |- context [if ?b then _ else _] => destruct b end; auto.
Qed.

Lemma stops_table V k l : forall s,
  let s' := fold_left (fun acc c => stop V (sid c) acc) l s in
  table_of k (running s') = None \/ table_of k (running s') = table_of k (running s).
Proof.
  induction l as [|c l IH]; intros s; cbn; [auto|].
  destruct (IH (stop V (sid c) s)) as [H|H]; cbn in H; [auto|].
  rewrite H. apply stop_table.
Qed.

Definition table_after (s:state) (a:op) (k:nat) : option saved :=
  match a with
  | Override k' o p x =>
      if Nat.eqb k' k then match table_of k (running s) with
                           | Some t => Some (setdefault t o p (read s o p))
                           | None => None end
      else table_of k (running s)
  | _ => table_of k (running s)
  end.

Lemma step_table s a k : not_begin_finish a = true -> not_start k a = true ->
  table_of k (running (step fixed s a)) = None \/ table_of k (running (step fixed s a)) = table_after s a k.
Proof.
  intros Ha Hs. destruct a; try discriminate; cbn [step table_after fixed first_only].
  - right. unfold write. now rewrite running_with_view.
  - right. destruct (Nat.eqb_spec k0 k) as [E|E].
    + subst k0. destruct (table_of k (running s)) eqn:T.
      * unfold write. rewrite running_with_view. cbn [running set_running].
        rewrite table_of_set_table, Nat.eqb_refl, T. reflexivity.
      * unfold write. rewrite running_with_view. exact T.
    + destruct (table_of k0 (running s)) eqn:T.
      * unfold write. rewrite running_with_view. cbn [running set_running].
        rewrite table_of_set_table. destruct (Nat.eqb_spec k0 k); [contradiction|reflexivity].
      * unfold write. now rewrite running_with_view.
  - right. cbn [not_start] in Hs. apply negb_true_iff in Hs.
    destruct (table_of k0 (running s)); [reflexivity|]. cbn [running set_running table_of sid].
    rewrite Hs. reflexivity.
  - apply stop_table.
  - unfold stop_all. apply stops_table.
  - right. reflexivity.
  - right. reflexivity.
  - right. reflexivity.
Qed.

Lemma table_after_none s a k : table_of k (running s) = None -> table_after s a k = None.
Proof. intros H. destruct a; cbn [table_after]; try exact H. rewrite H. destruct (Nat.eqb k0 k); reflexivity. Qed.

Lemma none_stays k ops : forall s, table_of k (running s) = None ->
  forallb not_begin_finish ops = true -> forallb (not_start k) ops = true ->
  table_of k (running (run fixed ops s)) = None.
Proof.
  induction ops as [|a ops IH]; intros s Hn H1 H2; [exact Hn|].
  cbn [forallb] in H1, H2. apply andb_true_iff in H1 as [A1 H1]. apply andb_true_iff in H2 as [A2 H2].
  change (run fixed (a :: ops) s) with (run fixed ops (step fixed s a)).
  apply IH; [|exact H1|exact H2].
  destruct (step_table s a k A1 A2) as [H|H]; [exact H|]. rewrite H. now apply table_after_none.
Qed.

(* the table of a scenario that is still running holds, for every property it has overridden since
   some earlier point, the value read just before its first override — whatever else happened *)
Lemma seg_table k ops : forall s t t', table_of k (running s) = Some t ->
  forallb not_begin_finish ops = true -> forallb (not_start k) ops = true ->
  table_of k (running (run fixed ops s)) = Some t' ->
  forall o p, find o p t' = match find o p t with Some y => Some y | None => first_ov fixed k ops s o p end.
Proof.
  induction ops as [|a ops IH]; intros s t t' Ht H1 H2 Ht' o p.
  - cbn in Ht'. rewrite Ht in Ht'. injection Ht' as <-. cbn. destruct (find o p t); reflexivity.
  - cbn [forallb] in H1, H2. apply andb_true_iff in H1 as [A1 H1]. apply andb_true_iff in H2 as [A2 H2].
    change (run fixed (a :: ops) s) with (run fixed ops (step fixed s a)) in Ht'.
    destruct (step_table s a k A1 A2) as [H|H].
    + rewrite (none_stays k ops _ H H1 H2) in Ht'. discriminate.
    + assert (G : forall t1, table_after s a k = Some t1 ->
                  find o p t' = match find o p t1 with Some y => Some y | None => first_ov fixed k ops (step fixed s a) o p end).
      { intros t1 E. rewrite E in H. exact (IH _ _ _ H H1 H2 Ht' o p). }
      destruct a; try discriminate; cbn [table_after first_ov] in *; try (rewrite (G t Ht); reflexivity).
      destruct (Nat.eqb_spec k0 k) as [E|E]; cbn [andb].
      * rewrite Ht in G. rewrite (G _ eq_refl), find_setdefault.
        destruct (find o p t); [reflexivity|].
        destruct (Nat.eqb o0 o && Nat.eqb p0 p) eqn:Eq; [|reflexivity].
        apply andb_true_iff in Eq as [Ho Hp]. apply Nat.eqb_eq in Ho, Hp. subst. reflexivity.
      * rewrite (G t Ht). reflexivity.
Qed.

Lemma stop_order_last f r k : exists l, stop_order fixed f r k = l ++ [k].
Proof. destruct f; cbn [stop_order fixed own_before_subs]; [exists []; reflexivity|eauto]. Qed.

(* when a scenario stops, its own table is written back LAST: every property it has overridden
   reads the saved value, whatever its sub-scenarios had overridden *)
Lemma own_overrides_undone s k t : table_of k (running s) = Some t ->
  forall o p x, find o p t = Some x -> read (step fixed s (Stop k)) o p = x.
Proof.
  intros Ht o p x Hf. cbn [step]. unfold stop. rewrite Ht.
  change (read (set_toptab (set_running (with_view s ?f) ?r) ?tt)) with (read (with_view s f)).
  rewrite read_with_view.
  destruct (stop_order_last (length (running s)) (running s) k) as [l ->].
  unfold revert_ids. rewrite fold_left_app. cbn [fold_left]. rewrite Ht, read_revert, Hf. reflexivity.
Qed.

(* EVERY override is undone when its scenario ends: scenario k starts, then anything happens
   (assignments, overrides by k and by any other scenario or behaviour, other scenarios —
   siblings, sub-scenarios of k or of others — starting and stopping in any order, objects
   created, globals assigned), then k stops (by itself, or because an ancestor stops): every
   property k has overridden reads the value it had just before k first overrode it. *)
Theorem override_undone k par seg s :
  table_of k (running s) = None ->
  forallb not_begin_finish seg = true -> forallb (not_start k) seg = true ->
  let s1 := step fixed s (Start k par) in
  let s2 := run fixed seg s1 in
  table_of k (running s2) <> None ->
  forall o p x, first_ov fixed k seg s1 o p = Some x -> read (step fixed s2 (Stop k)) o p = x.
Proof.
  intros Hn H1 H2 s1 s2 Hrun o p x Hf.
  assert (Ht1 : table_of k (running s1) = Some []).
  { unfold s1. cbn [step]. rewrite Hn. cbn [running set_running table_of sid stab]. now rewrite Nat.eqb_refl. }
  destruct (table_of k (running s2)) as [t'|] eqn:Ht2; [|contradiction].
  apply (own_overrides_undone s2 k t' Ht2).
  rewrite (seg_table k seg s1 [] t' Ht1 H1 H2 Ht2 o p). cbn [find]. exact Hf.
Qed.

(* ---------- witnesses: variants and orders that violate the property ---------- *)
Definition v0 : view := fun o p => (Z.of_nat o * 10 + Z.of_nat p + 1).
Definition g0 : nat -> Z := fun _ => (-1).
Definition gs : nat -> Z := fun n => Z.of_nat n + 2.
Definition old_finally := {| proxies_dropped_first := true; first_only := false; own_before_subs := false; stale_top := false |}.
Definition old_override := {| proxies_dropped_first := false; first_only := true; own_before_subs := false; stale_top := false |}.
Definition own_first := {| proxies_dropped_first := false; first_only := false; own_before_subs := true; stale_top := false |}.
Definition stale := {| proxies_dropped_first := false; first_only := false; own_before_subs := false; stale_top := true |}.

(* F18: a behaviour assigns foo, a sub-scenario overrides foo, the run is aborted: the aborted
   run's revert lands in the scene *)
Lemma old_finally_refuted :
  orig (run old_finally [Begin; Write 0 0 3; Start 1 0; Override 1 0 0 5; Finish] (init v0 g0 gs)) 0%nat 0%nat <> v0 0%nat 0%nat.
Proof. vm_compute. discriminate. Qed.

(* F6: two override statements on one object in one scenario: the second is never undone *)
Lemma old_override_refuted :
  read (run old_override [Begin; Start 1 0; Override 1 0 0 5; Override 1 0 1 20; Stop 1] (init v0 g0 gs)) 0%nat 1%nat <> v0 0%nat 1%nat.
Proof. vm_compute. discriminate. Qed.

(* a _stop that reverts its own table before stopping its sub-scenarios: nested overrides of one
   property, the outer scenario stopped from outside: the parent reads the outer override again *)
Lemma own_first_refuted :
  read (run own_first [Begin; Start 1 0; Override 1 0 0 5; Start 2 1; Override 2 0 0 7; Stop 1] (init v0 g0 gs)) 0%nat 0%nat <> v0 0%nat 0%nat.
Proof. vm_compute. discriminate. Qed.

(* the top-level scenario object survives the simulation; if its table is not emptied, the next
   simulation of the same scene "reverts" values saved by the previous one when it ends *)
Lemma stale_refuted :
  read (run stale [Begin; Write 0 0 184; Override 0 0 0 5; Finish; Begin; Write 0 0 123; StopAll] (init v0 g0 gs)) 0%nat 0%nat <> 123.
Proof. vm_compute. discriminate. Qed.

(* PARALLEL siblings overriding the same property (current code): the one started first ends
   first -> the other one's revert re-installs the first one's overriding value *)
Lemma siblings_refuted :
  read (run fixed [Begin; Start 1 0; Override 1 0 0 10; Start 2 0; Override 2 0 0 20; Stop 1; Stop 2] (init v0 g0 gs)) 0%nat 0%nat <> v0 0%nat 0%nat.
Proof. vm_compute. discriminate. Qed.
(* ... and likewise when their parent is stopped while both run (sub-scenarios are stopped oldest first) *)
Lemma siblings_parent_refuted :
  read (run fixed [Begin; Start 3 0; Start 1 3; Override 1 0 0 10; Start 2 3; Override 2 0 0 20; Stop 3] (init v0 g0 gs)) 0%nat 0%nat <> v0 0%nat 0%nat.
Proof. vm_compute. discriminate. Qed.

Example fixed_on_witnesses :
  orig (run fixed [Begin; Write 0 0 3; Start 1 0; Override 1 0 0 5; Finish] (init v0 g0 gs)) 0%nat 0%nat = v0 0%nat 0%nat /\
  read (run fixed [Begin; Start 1 0; Override 1 0 0 5; Override 1 0 1 20; Stop 1] (init v0 g0 gs)) 0%nat 1%nat = v0 0%nat 1%nat /\
  read (run fixed [Begin; Start 1 0; Override 1 0 0 5; Start 2 1; Override 2 0 0 7; Stop 1] (init v0 g0 gs)) 0%nat 0%nat = v0 0%nat 0%nat /\
  read (run fixed [Begin; Write 0 0 184; Override 0 0 0 5; Finish; Begin; Write 0 0 123; StopAll] (init v0 g0 gs)) 0%nat 0%nat = 123 /\
  read (run fixed [Begin; Start 1 0; Override 1 0 0 10; Start 2 0; Override 2 0 0 20; Stop 2; Stop 1] (init v0 g0 gs)) 0%nat 0%nat = v0 0%nat 0%nat.
Proof. vm_compute. repeat split; reflexivity. Qed.

(* non-vacuity of override_undone: a history with a sibling, a sub-scenario, a behaviour's override
   (scenario 0) and a created object satisfies its hypotheses, and scenario 1 has overridden something *)
Example override_undone_nonvacuous :
  let seg := [Override 1 0 0 5; Start 2 0; Override 2 0 1 6; Start 3 1; Override 3 0 0 7; Override 0 1 1 8;
              Create 2 [1;2;3]; Write 0 0 9; Override 1 0 0 11; Stop 2; NsWrite 0 4] in
  let s := run fixed [Begin] (init v0 g0 gs) in
  let s1 := step fixed s (Start 1 0) in
  table_of 1 (running s) = None /\ forallb not_begin_finish seg = true /\ forallb (not_start 1) seg = true /\
  table_of 1 (running (run fixed seg s1)) <> None /\ first_ov fixed 1 seg s1 0%nat 0%nat = Some 1 /\
  read (run fixed seg s1) 0%nat 0%nat = 11.
Proof. vm_compute. repeat split; try reflexivity; discriminate. Qed.
