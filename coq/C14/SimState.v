(* C14 — model of what a simulation may write, and where: the scene's objects, their dynamic
   proxies, the TREE of running scenarios each with its override table, objects created during the
   run, the behaviours' global namespace, the veneer's "simulation in progress" state.
   Anchors: simulators.py Simulation.__init__ (try/finally), _createObject; object_types.py
   enable/disableDynamicProxyFor, Object.__setattr__/__getattribute__, Constructible._override/
   _revert; dynamics/scenarios.py DynamicScenario._override/_stop/_invokeInner; veneer.py
   begin/endSimulation (behaviorNamespaces), override (-> currentScenario), start/endScenario;
   requirements.py closure (rebinding of globals before every evaluation).
   Definitions only. *)
From Coq Require Import ZArith List Bool Arith.
Import ListNotations.
Open Scope Z_scope.

Definition view := nat -> nat -> Z.                 (* object -> property -> value *)
Definition upd (v:view) (o p:nat) (x:Z) : view :=
  fun o' p' => if Nat.eqb o' o && Nat.eqb p' p then x else v o' p'.
Definition set_row (v:view) (o:nat) (vals:list Z) : view :=
  fun o' p' => if Nat.eqb o' o then nth p' vals 0 else v o' p'.

(* a scenario's _overrides table: (object, property) -> value before its first override.
   Python dicts have unique keys; [setdefault] keeps the oldest value. *)
Definition saved := list (nat * nat * Z).
Fixpoint find (o p:nat) (t:saved) : option Z :=
  match t with
  | [] => None
  | (o', p', x) :: r => if Nat.eqb o' o && Nat.eqb p' p then Some x else find o p r
  end.
Definition setdefault (t:saved) (o p:nat) (x:Z) : saved :=
  match find o p t with Some _ => t | None => t ++ [(o, p, x)] end.
(* the pre-fix behaviour: only the first override *statement* on an object is remembered *)
Definition has_obj (o:nat) (t:saved) : bool := existsb (fun '(o', _, _) => Nat.eqb o' o) t.
Definition setdefault_first_only (t:saved) (o p:nat) (x:Z) : saved :=
  if has_obj o t then t else t ++ [(o, p, x)].

(* _revert: write every saved value back (keys are unique, so the order is immaterial; the
   right fold makes "first entry wins" explicit) *)
Definition revert (t:saved) (v:view) : view :=
  fold_right (fun '(o, p, x) acc => upd acc o p x) v t.

(* a running scenario: its identity, the scenario whose compose block invoked it, its table *)
Record scen := { sid : nat; spar : nat; stab : saved }.

Record state := {
  orig : view;                      (* the objects themselves (scene objects; creation values of dynamic ones) *)
  proxy : option view;              (* Some = dynamic proxies enabled (simulation running) *)
  running : list scen;              (* veneer.runningScenarios, NEWEST FIRST; scenario 0 is the top-level one *)
  toptab : saved;                   (* scene.dynamicScenario._overrides: the top-level scenario object outlives the run *)
  active : bool;                    (* veneer.currentSimulation is set *)
  ns : nat -> Z;                    (* the module namespace the behaviours read their globals from *)
  ns_orig : nat -> Z;               (* Scene.behaviorNamespaces: copy taken when the scene was made *)
  ns_samp : nat -> Z                (* Scene.behaviorNamespaces: the sampled values *)
}.

Definition read (s:state) : view := match proxy s with Some v => v | None => orig s end.
Definition with_view (s:state) (f:view -> view) : state :=
  match proxy s with
  | Some v => {| orig := orig s; proxy := Some (f v); running := running s; toptab := toptab s; active := active s;
                 ns := ns s; ns_orig := ns_orig s; ns_samp := ns_samp s |}
  | None => {| orig := f (orig s); proxy := None; running := running s; toptab := toptab s; active := active s;
               ns := ns s; ns_orig := ns_orig s; ns_samp := ns_samp s |}
  end.
Definition write (s:state) (o p:nat) (x:Z) : state := with_view s (fun v => upd v o p x).
Definition set_running (s:state) (r:list scen) : state :=
  {| orig := orig s; proxy := proxy s; running := r; toptab := toptab s; active := active s;
     ns := ns s; ns_orig := ns_orig s; ns_samp := ns_samp s |}.
Definition set_toptab (s:state) (t:saved) : state :=
  {| orig := orig s; proxy := proxy s; running := running s; toptab := t; active := active s;
     ns := ns s; ns_orig := ns_orig s; ns_samp := ns_samp s |}.
Definition set_ns (s:state) (n:nat -> Z) : state :=
  {| orig := orig s; proxy := proxy s; running := running s; toptab := toptab s; active := active s;
     ns := n; ns_orig := ns_orig s; ns_samp := ns_samp s |}.
(* new Object during the run: the object comes into existence with its creation values and
   (Simulation._createObject) gets a proxy copy at once *)
Definition create (s:state) (o:nat) (vals:list Z) : state :=
  {| orig := set_row (orig s) o vals;
     proxy := match proxy s with Some v => Some (set_row v o vals) | None => None end;
     running := running s; toptab := toptab s; active := active s;
     ns := ns s; ns_orig := ns_orig s; ns_samp := ns_samp s |}.

Fixpoint table_of (k:nat) (r:list scen) : option saved :=
  match r with
  | [] => None
  | c :: r' => if Nat.eqb (sid c) k then Some (stab c) else table_of k r'
  end.
Fixpoint set_table (k:nat) (t:saved) (r:list scen) : list scen :=
  match r with
  | [] => []
  | c :: r' => if Nat.eqb (sid c) k then {| sid := sid c; spar := spar c; stab := t |} :: r'
               else c :: set_table k t r'
  end.
(* DynamicScenario._subScenarios of k, in the order they were started (oldest first) *)
Definition children (k:nat) (r:list scen) : list nat :=
  map sid (filter (fun c => Nat.eqb (spar c) k && negb (Nat.eqb (sid c) k)) (rev r)).

Inductive op :=
| Begin                               (* Simulation.__init__: beginSimulation, proxies enabled, top scenario (0) started *)
| Write (o p:nat) (x:Z)               (* any assignment to an object's attribute (behavior, compose block, simulator read-back) *)
| Override (k:nat) (o p:nat) (x:Z)    (* override o with p x while scenario k is veneer.currentScenario
                                         (k = 0 for every override executed by a behaviour or monitor) *)
| Start (k par:nat)                   (* sub-scenario k (a fresh instance) is invoked by the compose block of par *)
| Stop (k:nat)                        (* scenario k stops: its running sub-scenarios first (oldest first), then its own table *)
| StopAll                             (* "for scenario in reversed(runningScenarios): scenario._stop()" *)
| Create (o:nat) (vals:list Z)        (* new Object in the setup block of a sub-scenario *)
| NsWrite (n:nat) (x:Z)               (* a behaviour assigns a global of its module *)
| NsBind (l:list nat)                 (* a requirement / record / terminate-when closure is evaluated: the globals
                                         it mentions are rebound to the scene's sample first *)
| Finish.                             (* end of the simulation: the finally block, whatever happened *)

(* variants of the code: the repaired one is [fixed] *)
Record variant := { proxies_dropped_first : bool;   (* pre-fix finally block: disable proxies, then stop scenarios (F18) *)
                    first_only : bool;               (* pre-fix _override: remember only the first statement per object (F6) *)
                    own_before_subs : bool;          (* _stop reverting its own table before stopping the sub-scenarios *)
                    stale_top : bool }.              (* the top-level scenario's _overrides dict is never emptied *)
Definition fixed := {| proxies_dropped_first := false; first_only := false; own_before_subs := false; stale_top := false |}.

Fixpoint stop_order (V:variant) (fuel:nat) (r:list scen) (k:nat) : list nat :=
  match fuel with
  | O => [k]
  | S f => let subs := flat_map (stop_order V f r) (children k r) in
           if own_before_subs V then k :: subs else subs ++ [k]
  end.
Definition revert_ids (r:list scen) (ids:list nat) (v:view) : view :=
  fold_left (fun acc id => match table_of id r with Some t => revert t acc | None => acc end) ids v.
Definition remove_ids (ids:list nat) (r:list scen) : list scen :=
  filter (fun c => negb (existsb (Nat.eqb (sid c)) ids)) r.
Definition stop (V:variant) (k:nat) (s:state) : state :=
  match table_of k (running s) with
  | None => s
  | Some _ =>
      let r := running s in
      let ord := stop_order V (length r) r k in
      let tt := match table_of 0%nat r with
                | Some t => if existsb (Nat.eqb 0%nat) ord then t else toptab s
                | None => toptab s end in
      set_toptab (set_running (with_view s (revert_ids r ord)) (remove_ids ord r)) tt
  end.
Definition stop_all (V:variant) (s:state) : state :=
  fold_left (fun acc c => stop V (sid c) acc) (running s) s.
Definition drop_proxies (s:state) : state :=
  {| orig := orig s; proxy := None; running := running s; toptab := toptab s; active := active s;
     ns := ns s; ns_orig := ns_orig s; ns_samp := ns_samp s |}.

Definition step (V:variant) (s:state) (o:op) : state :=
  match o with
  | Begin => if active s then s
             else {| orig := orig s; proxy := Some (orig s);
                     running := [{| sid := 0%nat; spar := 0%nat; stab := if stale_top V then toptab s else [] |}];
                     toptab := toptab s; active := true;
                     ns := ns_samp s; ns_orig := ns_orig s; ns_samp := ns_samp s |}
  | Write ob p x => write s ob p x
  | Override k ob p x =>
      match table_of k (running s) with
      | Some t =>
          let old := read s ob p in
          let t' := if first_only V then setdefault_first_only t ob p old else setdefault t ob p old in
          write (set_running s (set_table k t' (running s))) ob p x
      | None => write s ob p x
      end
  | Start k par => match table_of k (running s) with
                   | Some _ => s
                   | None => set_running s ({| sid := k; spar := par; stab := [] |} :: running s)
                   end
  | Stop k => stop V k s
  | StopAll => stop_all V s
  | Create ob vals => create s ob vals
  | NsWrite n x => set_ns s (fun n' => if Nat.eqb n' n then x else ns s n')
  | NsBind l => set_ns s (fun n' => if existsb (Nat.eqb n') l then ns_samp s n' else ns s n')
  | Finish =>
      let s1 := if proxies_dropped_first V then stop_all V (drop_proxies s) else drop_proxies (stop_all V s) in
      {| orig := orig s1; proxy := None; running := []; toptab := toptab s1; active := false;
         ns := ns_orig s; ns_orig := ns_orig s; ns_samp := ns_samp s |}
  end.

Definition run (V:variant) (ops:list op) (s:state) : state := fold_left (step V) ops s.

(* what may happen between Begin and Finish; objects created during the run get identities >= n
   (n = number of objects of the scene) *)
Definition sim_op (n:nat) (o:op) : bool :=
  match o with Begin | Finish => false | Create ob _ => Nat.leb n ob | _ => true end.
Definition not_begin_finish (o:op) : bool := match o with Begin | Finish => false | _ => true end.
Definition not_start (k:nat) (o:op) : bool := match o with Start k' _ => negb (Nat.eqb k' k) | _ => true end.
Definition not_create (ob:nat) (o:op) : bool := match o with Create ob' _ => negb (Nat.eqb ob' ob) | _ => true end.

(* value read just before scenario k's first override of (o,p) along a history *)
Fixpoint first_ov (V:variant) (k:nat) (ops:list op) (s:state) (o p:nat) : option Z :=
  match ops with
  | [] => None
  | Override k' o' p' x :: r =>
      if Nat.eqb k' k && (Nat.eqb o' o && Nat.eqb p' p) then Some (read s o p)
      else first_ov V k r (step V s (Override k' o' p' x)) o p
  | a :: r => first_ov V k r (step V s a) o p
  end.

Definition init (v:view) (n0 nsamp:nat -> Z) : state :=
  {| orig := v; proxy := None; running := []; toptab := []; active := false;
     ns := n0; ns_orig := n0; ns_samp := nsamp |}.

(* finite observation used by the correspondence: values of objects 0..no-1, properties 0..np-1,
   then one more row: the globals 0..np-1 of the behaviours' namespace *)
Definition observe_s (v:view) (g:nat -> Z) (no np:nat) : list (list Z) :=
  map (fun o => map (fun p => v o p) (seq 0 np)) (seq 0 no) ++ [map g (seq 0 np)].
(* run an op list, reporting what is read after every op and the objects themselves at the end *)
Fixpoint trace (V:variant) (ops:list op) (s:state) (no np:nat) : list (list (list Z)) :=
  match ops with
  | [] => [observe_s (orig s) (ns s) no np]
  | o :: r => let s' := step V s o in observe_s (read s') (ns s') no np :: trace V r s' no np
  end.
