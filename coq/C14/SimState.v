(* C14 — model of what a simulation may write, and where: the scene's objects, their dynamic
   proxies, per-scenario override tables, the veneer's "simulation in progress" state.
   Anchors: simulators.py Simulation.__init__ (try/finally), object_types.py
   enable/disableDynamicProxyFor, Object.__setattr__/__getattribute__, Constructible._override/
   _revert, dynamics/scenarios.py DynamicScenario._override/_stop, veneer.py begin/endSimulation.
   Definitions only. *)
From Coq Require Import ZArith List Bool Arith.
Import ListNotations.
Open Scope Z_scope.

Definition view := nat -> nat -> Z.                 (* object -> property -> value *)
Definition upd (v:view) (o p:nat) (x:Z) : view :=
  fun o' p' => if Nat.eqb o' o && Nat.eqb p' p then x else v o' p'.

(* a scenario's _overrides table: (object, property) -> value before its first override.
   Python dicts have unique keys; [setdefault] keeps the oldest value. *)
Definition saved := list (nat * nat * Z).
Fixpoint find (o p:nat) (t:saved) : option Z :=
  match t with
  | [] => None
  | (o', p', x) :: r => if Nat.eqb o' o && Nat.eqb p' p then Some x else find o p r
  end.
Definition setdefault (t:saved) (o p:nat) (x:Z) : saved :=
  match find o p t with Some _ => t | None => t ++ [(o, p, x)] end.
(* the pre-fix behaviour: only the first override *statement* on an object is remembered *)
Definition has_obj (o:nat) (t:saved) : bool := existsb (fun '(o', _, _) => Nat.eqb o' o) t.
Definition setdefault_first_only (t:saved) (o p:nat) (x:Z) : saved :=
  if has_obj o t then t else t ++ [(o, p, x)].

(* _revert: write every saved value back (keys are unique, so the order is immaterial; the
   right fold makes "first entry wins" explicit) *)
Definition revert (t:saved) (v:view) : view :=
  fold_right (fun '(o, p, x) acc => upd acc o p x) v t.

Record state := {
  orig : view;                      (* the objects of the Scene *)
  proxy : option view;              (* Some = dynamic proxies enabled (simulation running) *)
  stack : list saved;               (* running scenarios, innermost first *)
  active : bool                     (* veneer.currentSimulation is set *)
}.

Definition read (s:state) : view := match proxy s with Some v => v | None => orig s end.
Definition write (s:state) (o p:nat) (x:Z) : state :=
  match proxy s with
  | Some v => {| orig := orig s; proxy := Some (upd v o p x); stack := stack s; active := active s |}
  | None => {| orig := upd (orig s) o p x; proxy := None; stack := stack s; active := active s |}
  end.
Definition with_view (s:state) (f:view -> view) : state :=
  match proxy s with
  | Some v => {| orig := orig s; proxy := Some (f v); stack := stack s; active := active s |}
  | None => {| orig := f (orig s); proxy := None; stack := stack s; active := active s |}
  end.
Definition set_stack (s:state) (k:list saved) : state :=
  {| orig := orig s; proxy := proxy s; stack := k; active := active s |}.

Inductive op :=
| Begin                               (* Simulation.__init__: beginSimulation, proxies enabled, top scenario started *)
| Write (o p:nat) (x:Z)               (* any assignment to an object's attribute (behavior, simulator read-back) *)
| Override (o p:nat) (x:Z)            (* override o with p x, in the innermost running scenario *)
| Push                                (* a sub-scenario starts *)
| Pop                                 (* the innermost scenario stops: its overrides are reverted *)
| Finish.                             (* end of the simulation: normal completion or any exception *)

(* variants of the code: the repaired one is [fixed] *)
Record variant := { proxies_dropped_first : bool;   (* pre-fix finally block: disable proxies, then stop scenarios *)
                    first_only : bool }.             (* pre-fix _override: remember only the first statement per object *)
Definition fixed := {| proxies_dropped_first := false; first_only := false |}.

Definition stop_all (s:state) : state :=
  set_stack (with_view s (fun v => fold_left (fun acc t => revert t acc) (stack s) v)) [].
Definition drop_proxies (s:state) : state :=
  {| orig := orig s; proxy := None; stack := stack s; active := active s |}.

Definition step (V:variant) (s:state) (o:op) : state :=
  match o with
  | Begin => if active s then s
             else {| orig := orig s; proxy := Some (orig s); stack := [[]]; active := true |}
  | Write ob p x => write s ob p x
  | Override ob p x =>
      match stack s with
      | top :: rest =>
          let old := read s ob p in
          let top' := if first_only V then setdefault_first_only top ob p old else setdefault top ob p old in
          write (set_stack s (top' :: rest)) ob p x
      | [] => s
      end
  | Push => set_stack s ([] :: stack s)
  | Pop => match stack s with
           | top :: rest => set_stack (with_view s (revert top)) rest
           | [] => s
           end
  | Finish =>
      let s1 := if proxies_dropped_first V then stop_all (drop_proxies s) else drop_proxies (stop_all s) in
      {| orig := orig s1; proxy := None; stack := []; active := false |}
  end.

Definition run (V:variant) (ops:list op) (s:state) : state := fold_left (step V) ops s.

Definition sim_op (o:op) : bool := match o with Begin | Finish => false | _ => true end.
Definition seg_op (o:op) : bool := match o with Write _ _ _ | Override _ _ _ => true | _ => false end.

(* value read just before the first override of (o,p) in a scenario's own statements *)
Fixpoint first_ov (V:variant) (seg:list op) (s:state) (o p:nat) : option Z :=
  match seg with
  | [] => None
  | Override o' p' x :: r =>
      if Nat.eqb o' o && Nat.eqb p' p then Some (read s o p) else first_ov V r (step V s (Override o' p' x)) o p
  | a :: r => first_ov V r (step V s a) o p
  end.

Definition init (v:view) : state := {| orig := v; proxy := None; stack := []; active := false |}.

(* finite observation used by the correspondence: values of objects 0..no-1, properties 0..np-1 *)
Definition observe (v:view) (no np:nat) : list (list Z) :=
  map (fun o => map (fun p => v o p) (seq 0 np)) (seq 0 no).
(* run an op list from the scene [v0], reporting the view after every op and the scene at the end *)
Fixpoint trace (V:variant) (ops:list op) (s:state) (no np:nat) : list (list (list Z)) :=
  match ops with
  | [] => [observe (orig s) no np]
  | o :: r => let s' := step V s o in observe (read s') no np :: trace V r s' no np
  end.
