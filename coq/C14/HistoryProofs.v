From Coq Require Import ZArith QArith List Bool Arith.
From Scenic Require Import C14.History.
Import ListNotations.

Lemma read_eq_refl : forall s, read_eq s s.
Proof. intros; repeat split. Qed.

(* the result of a run is a function of the fields it reads *)
Lemma result_reads_only : forall P s1 s2 x, read_eq s1 s2 ->
  snd (run_one fixedH P s1 x) = snd (run_one fixedH P s2 x).
Proof.
  intros P s1 s2 [sc o] (H1 & H2 & H3 & H4 & H5).
  destruct s1 as [a1 b1 c1 d1 e1 f1 g1 h1 i1], s2 as [a2 b2 c2 d2 e2 f2 g2 h2 i2]; unfold read_eq in *; cbn [time_limit delaying overrides sub_scenarios is_running] in *; subst.
  unfold run_one. cbn [time_limit delaying overrides sub_scenarios is_running limit_in_steps limit_cached fixedH].
  destruct f2; [reflexivity|]. destruct (c2 && negb (o_guards o)); reflexivity.
Qed.

(* whatever the run was (assertion failure excluded by the invariant itself, failed guard, completed run with any
   options), the state it leaves equals the initial state on every field the next run reads *)
Lemma finish_restores_read_fields : forall P s x, read_eq s (init P) -> read_eq (fst (run_one fixedH P s x)) (init P).
Proof.
  intros P s [sc o] (H1 & H2 & H3 & H4 & H5).
  cbn [init time_limit delaying overrides sub_scenarios is_running] in *.
  unfold run_one. rewrite H5, H2.
  destruct (o_guards o); cbn [andb negb fst fixedH running_left limit_in_place delay_cleared overrides_kept subs_kept limit_cached];
    unfold read_eq; cbn [init time_limit delaying overrides sub_scenarios is_running]; repeat split; auto.
Qed.

Lemma after_read_eq : forall P h, read_eq (after fixedH P h) (init P).
Proof.
  intros P h. unfold after.
  assert (G: forall s, read_eq s (init P) -> read_eq (fold_left (fun s y => fst (run_one fixedH P s y)) h s) (init P)).
  { induction h as [|x h IH]; intros s Hs; cbn; auto. apply IH. apply finish_restores_read_fields; exact Hs. }
  apply G. apply read_eq_refl.
Qed.

Theorem run_independent_of_history : forall P h x, run_after fixedH P h x = run_from_initial fixedH P x.
Proof. intros. unfold run_after, run_from_initial. apply result_reads_only. apply after_read_eq. Qed.

(* whole sessions: the list of results of any sequence of simulations of one compiled scenario, started after any
   earlier history, is the list of results each simulation gives on a freshly compiled scenario *)
Fixpoint session (V:hvariant) (P:prog) (s:pstate) (xs:list (scene * opts)) : list result :=
  match xs with
  | [] => []
  | x :: xs' => snd (run_one V P s x) :: session V P (fst (run_one V P s x)) xs'
  end.

Lemma session_read_eq : forall P xs s, read_eq s (init P) ->
  session fixedH P s xs = map (run_from_initial fixedH P) xs.
Proof.
  intros P xs. induction xs as [|x xs IH]; intros s Hs; simpl; [reflexivity|].
  f_equal.
  - unfold run_from_initial. apply result_reads_only. exact Hs.
  - apply IH. apply finish_restores_read_fields. exact Hs.
Qed.

Theorem session_independent_of_history : forall P h xs,
  session fixedH P (after fixedH P h) xs = map (run_from_initial fixedH P) xs.
Proof. intros. apply session_read_eq. apply after_read_eq. Qed.

Theorem session_order_irrelevant : forall P h1 h2 xs,
  session fixedH P (after fixedH P h1) xs = session fixedH P (after fixedH P h2) xs.
Proof. intros. now rewrite !session_independent_of_history. Qed.

(* ---- witnesses (each is a history the harness replays on the real code) *)
Definition sc0 := {| sc_monitors := [] |}.
Definition mk (ts:Q) (mx:nat) (g:bool) (subs:list nat) := {| o_timestep := ts; o_max := mx; o_guards := g; o_subs := subs; o_ovr := [] |}.
Definition P2s := {| p_limit := Some 2%Q; p_seconds := true |}.     (* terminate after 2 seconds *)
Definition Pnone := {| p_limit := None; p_seconds := false |}.
Definition set_V (f:nat) : hvariant :=
  {| limit_in_place := Nat.eqb f 0; limit_cached := Nat.eqb f 1; delay_cleared := Nat.eqb f 2; running_left := Nat.eqb f 3;
     subs_kept := Nat.eqb f 4; overrides_kept := Nat.eqb f 5; purge_on_success := Nat.eqb f 6 |}.

(* seeded C14-3 (demo.py): timestep 1 then 0.25 -> the second run stops at step 2, a fresh one at step 8 *)
Lemma limit_cached_refuted : exists P h x, run_after (set_V 1) P h x <> run_from_initial (set_V 1) P x.
Proof. exists P2s, [(sc0, mk 1 100 true [])], (sc0, mk (1#4) 100 true []). vm_compute. discriminate. Qed.
Lemma limit_cached_times : r_time (run_after (set_V 1) P2s [(sc0, mk 1 100 true [])] (sc0, mk (1#4) 100 true [])) = 2%nat /\
                           r_time (run_from_initial (set_V 1) P2s (sc0, mk (1#4) 100 true [])) = 8%nat.
Proof. vm_compute. split; reflexivity. Qed.
(* seeded C12-3: the limit is divided again by every run's timestep *)
Lemma limit_in_place_refuted : exists P h x, run_after (set_V 0) P h x <> run_from_initial (set_V 0) P x.
Proof. exists P2s, [(sc0, mk (1#2) 100 true [])], (sc0, mk (1#2) 100 true []). vm_compute. discriminate. Qed.
(* seeded C13-4: the guards are only checked by the first simulation *)
Lemma delay_cleared_refuted : exists P h x, run_after (set_V 2) P h x <> run_from_initial (set_V 2) P x.
Proof. exists Pnone, [(sc0, mk 1 5 true [])], (sc0, mk 1 5 false []). vm_compute. discriminate. Qed.
(* defect (a), current code: a failed delayed guard check, then any simulation: AssertionError *)
Lemma running_left_refuted : exists P h x, run_after (set_V 3) P h x <> run_from_initial (set_V 3) P x.
Proof. exists Pnone, [(sc0, mk 1 5 false [])], (sc0, mk 1 5 true []). vm_compute. discriminate. Qed.
(* defect (b), current code: the second simulation evaluates the records of the first one's sub-scenario *)
Lemma subs_kept_refuted : exists P h x, run_after (set_V 4) P h x <> run_from_initial (set_V 4) P x.
Proof. exists Pnone, [(sc0, mk 1 5 true [1%nat])], (sc0, mk 1 5 true []). vm_compute. discriminate. Qed.
(* finding C14-stale-top-overrides (repaired): the first run's saved value is written back by the second *)
Lemma overrides_kept_refuted : exists P h x, run_after (set_V 5) P h x <> run_from_initial (set_V 5) P x.
Proof. exists Pnone, [(sc0, {| o_timestep := 1; o_max := 5; o_guards := true; o_subs := []; o_ovr := [(0%nat, 184%Z)] |})], (sc0, mk 1 5 true []).
  vm_compute. discriminate. Qed.
Lemma current_refuted : exists P h x, run_after currentH P h x <> run_from_initial currentH P x.
Proof. exists Pnone, [(sc0, mk 1 5 false [])], (sc0, mk 1 5 true []). vm_compute. discriminate. Qed.
Lemma current_refuted_subs : exists P h x, run_after currentH P h x <> run_from_initial currentH P x.
Proof. exists Pnone, [(sc0, mk 1 5 true [1%nat])], (sc0, mk 1 5 true []). vm_compute. discriminate. Qed.
(* non-vacuity: the repaired model on the same witnesses, results that are not trivial *)
Lemma fixed_on_history_witnesses :
  r_time (run_after fixedH P2s [(sc0, mk 1 100 true [])] (sc0, mk (1#4) 100 true [])) = 8%nat /\
  r_time (run_after fixedH P2s [(sc0, mk (1#2) 100 true [])] (sc0, mk (1#2) 100 true [])) = 4%nat /\
  r_out (run_after fixedH Pnone [(sc0, mk 1 5 true [])] (sc0, mk 1 5 false [])) = OGuard /\
  r_out (run_after fixedH Pnone [(sc0, mk 1 5 false [])] (sc0, mk 1 5 true [])) = ORan /\
  r_stale_subs (run_after fixedH Pnone [(sc0, mk 1 5 true [1%nat])] (sc0, mk 1 5 true [])) = [].
Proof. vm_compute. repeat split; reflexivity. Qed.

(* ---- compile histories *)
Lemma mods_after_empty : forall h, mods_after fixedH h = [].
Proof.
  intros h. unfold mods_after.
  induction h as [|c h IH]; cbn; auto.
Qed.
Theorem compile_independent_of_history : forall h c, compile_after fixedH h c = compile_fresh fixedH c.
Proof. intros. unfold compile_after, compile_fresh. rewrite mods_after_empty. reflexivity. Qed.
(* seeded C14-4 (demo.py): import of module 1 succeeds, the program fails (params 7); the next compilation
   (params 3) meets the stale module: compiled with 7, not executed again *)
Lemma purge_on_success_refuted : exists h c, compile_after (set_V 6) h c <> compile_fresh (set_V 6) c.
Proof. exists [{| c_imports := [1%nat]; c_ok := false; c_param := 7 |}], {| c_imports := [1%nat]; c_ok := true; c_param := 3 |}.
  vm_compute. discriminate. Qed.
Lemma compile_nonvacuous :
  compile_after fixedH [{| c_imports := [1%nat]; c_ok := false; c_param := 7 |}] {| c_imports := [1%nat]; c_ok := true; c_param := 3 |} = [(1%nat, 3%Z, true)].
Proof. vm_compute. reflexivity. Qed.
