(* C14 -- the PERSISTENT state that one simulation (or compilation) leaves for the next one.
   The top-level DynamicScenario object is shared by every scene and simulation of a compiled Scenario;
   sys.modules is shared by every compilation of a process.  A run is modelled by what it READS of that
   state before writing it, and by what it leaves behind when it ends (Finish = DynamicScenario._stop +
   the finally block of Simulation.__init__); a compilation by the ScenicModule entries of sys.modules.
   Anchors: dynamics/invocables.py Invocable._start/_stop (_isRunning); dynamics/scenarios.py
   DynamicScenario._bindTo (_monitors), _start (_delayingPreconditionCheck, _elapsedTime, _timeLimitInSteps from
   _timeLimit/_timeLimitIsInSeconds and the simulation's timestep, _requirementMonitors), _step (time limit test),
   _stop (_monitors, _overrides, _requirementMonitors), _invokeInner / _evaluateRecordedExprsAt /
   _checkSimulationTerminationConditions (_subScenarios); syntax/translator.py _scenarioFromStream,
   purgeModulesUnsafeToCache.  The veneer globals and the namespace are in SimState.v (C14_state_reset).
   Definitions only. *)
From Coq Require Import ZArith QArith List Bool Arith.
Import ListNotations.

(* constants of the compiled program *)
Record prog := { p_limit : option Q;          (* terminate after N ... at top level *)
                 p_seconds : bool }.          (* _timeLimitIsInSeconds *)
Record scene := { sc_monitors : list nat }.   (* Scene.monitors, bound by _bindTo *)
(* what distinguishes one simulation from another *)
Record opts := { o_timestep : Q; o_max : nat;
                 o_guards : bool;             (* the top-level preconditions / invariants hold at the start *)
                 o_subs : list nat;           (* sub-scenarios still listed in _subScenarios when the run ends *)
                 o_ovr : list (nat * Z) }.    (* entries the run adds to the top-level _overrides table *)

Record pstate := {
  time_limit : option Q;        (* _timeLimit: read-only in the repaired code *)
  limit_in_steps : option Q;    (* _timeLimitInSteps: written by _start before it is read *)
  delaying : bool;              (* _delayingPreconditionCheck (True for a top-level scenario) *)
  overrides : list (nat * Z);   (* _overrides (SimState.toptab) *)
  sub_scenarios : list nat;     (* _subScenarios *)
  is_running : bool;            (* _isRunning *)
  monitors : list nat;          (* _monitors: written by _bindTo before it is read *)
  req_monitors : option (list nat);  (* _requirementMonitors: written by _start before it is read *)
  elapsed : nat }.              (* _elapsedTime: written by _start before it is read *)

Definition init (P:prog) : pstate :=
  {| time_limit := p_limit P; limit_in_steps := None; delaying := true; overrides := []; sub_scenarios := [];
     is_running := false; monitors := []; req_monitors := None; elapsed := 0 |}.

Record hvariant := {
  limit_in_place : bool;    (* `_timeLimit /= timestep`: seeded C12-3 *)
  limit_cached : bool;      (* steps limit computed only while it is None: seeded C14-3 *)
  delay_cleared : bool;     (* _delayingPreconditionCheck cleared by the first start: seeded C13-4 *)
  running_left : bool;      (* _isRunning stays True after a failed delayed guard check: CURRENT code (defect a) *)
  subs_kept : bool;         (* _subScenarios never reset: CURRENT code (defect b, F27) *)
  overrides_kept : bool;    (* _overrides never emptied: finding C14-stale-top-overrides, repaired in round 2 *)
  purge_on_success : bool   (* imported Scenic modules purged only after a successful compilation: seeded C14-4 *)
}.
Definition fixedH := {| limit_in_place := false; limit_cached := false; delay_cleared := false; running_left := false;
                        subs_kept := false; overrides_kept := false; purge_on_success := false |}.
Definition currentH := {| limit_in_place := false; limit_cached := false; delay_cleared := false; running_left := true;
                          subs_kept := true; overrides_kept := false; purge_on_success := false |}.

Inductive outcome := OAssert | OGuard | ORan.
Record result := { r_out : outcome;
                   r_time : nat;                 (* final time in steps *)
                   r_limit : option Q;           (* the steps limit the run used *)
                   r_stale_subs : list nat;      (* sub-scenarios whose records / conditions the run evaluates before its first `do` *)
                   r_reverted : list (nat * Z);  (* table written back when the top-level scenario stops *)
                   r_monitors : list nat }.

(* DynamicScenario._step / Simulation._run: stop when _elapsedTime >= _timeLimitInSteps, or at maxSteps *)
Fixpoint steps_until (fuel el:nat) (lim:option Q) : nat :=
  match fuel with
  | O => el
  | S f => match lim with
           | Some l => if Qle_bool l (inject_Z (Z.of_nat el)) then el else steps_until f (S el) lim
           | None => steps_until f (S el) lim
           end
  end.

Definition run_one (V:hvariant) (P:prog) (s:pstate) (x:scene * opts) : pstate * result :=
  let (sc, o) := x in
  if is_running s then   (* Invocable._start: assert not self._isRunning *)
    (s, {| r_out := OAssert; r_time := 0; r_limit := None; r_stale_subs := []; r_reverted := []; r_monitors := [] |})
  else if delaying s && negb (o_guards o) then
    (* _bindTo, Invocable._start, then _checkAllPreconditions raises: the scenario is not in
       veneer.runningScenarios, so nothing stops it *)
    ({| time_limit := time_limit s; limit_in_steps := limit_in_steps s; delaying := delaying s; overrides := overrides s;
        sub_scenarios := sub_scenarios s; is_running := running_left V; monitors := sc_monitors sc;
        req_monitors := req_monitors s; elapsed := elapsed s |},
     {| r_out := OGuard; r_time := 0; r_limit := None; r_stale_subs := []; r_reverted := []; r_monitors := sc_monitors sc |})
  else
    let computed := match time_limit s with
                    | Some l => Some (if p_seconds P then Qred (l / o_timestep o) else l)
                    | None => None end in
    let lis := if limit_cached V then match limit_in_steps s with Some l => Some l | None => computed end else computed in
    let T := steps_until (o_max o) 0 lis in
    let tab := overrides s ++ o_ovr o in
    ({| time_limit := if limit_in_place V then computed else time_limit s;
        limit_in_steps := lis;
        delaying := if delay_cleared V then false else delaying s;
        overrides := if overrides_kept V then tab else [];
        sub_scenarios := if subs_kept V then match o_subs o with [] => sub_scenarios s | l => l end else [];
        is_running := false; monitors := []; req_monitors := None; elapsed := T |},
     {| r_out := ORan; r_time := T; r_limit := lis; r_stale_subs := sub_scenarios s; r_reverted := tab;
        r_monitors := sc_monitors sc |}).

Definition after (V:hvariant) (P:prog) (h:list (scene * opts)) : pstate :=
  fold_left (fun s y => fst (run_one V P s y)) h (init P).
Definition run_after (V:hvariant) (P:prog) (h:list (scene * opts)) (x:scene * opts) : result := snd (run_one V P (after V P h) x).
Definition run_from_initial (V:hvariant) (P:prog) (x:scene * opts) : result := snd (run_one V P (init P) x).

(* the fields a run reads before writing them *)
Definition read_eq (a b:pstate) : Prop :=
  time_limit a = time_limit b /\ delaying a = delaying b /\ overrides a = overrides b /\
  sub_scenarios a = sub_scenarios b /\ is_running a = is_running b.

(* ---- compile histories: the ScenicModule entries of sys.modules *)
Record comp := { c_imports : list nat;   (* .scenic modules the program imports (successfully) *)
                 c_ok : bool;             (* does the compilation succeed afterwards? *)
                 c_param : Z }.           (* the params= override in force *)
Definition modtab := list (nat * Z).      (* module -> parameter value it was compiled with *)
Fixpoint mfind (m:nat) (t:modtab) : option Z :=
  match t with [] => None | (m', z) :: r => if Nat.eqb m' m then Some z else mfind m r end.
(* per imported module: (module, parameter value its code saw, executed now = objects/params inherited) *)
Definition cresult := list (nat * Z * bool).
Definition compile_one (V:hvariant) (t:modtab) (c:comp) : modtab * cresult :=
  let res := map (fun m => match mfind m t with Some z => (m, z, false) | None => (m, c_param c, true) end) (c_imports c) in
  let added := flat_map (fun m => match mfind m t with Some _ => [] | None => [(m, c_param c)] end) (c_imports c) in
  (if purge_on_success V && negb (c_ok c) then t ++ added else t, res).
Definition mods_after (V:hvariant) (h:list comp) : modtab := fold_left (fun t c => fst (compile_one V t c)) h [].
Definition compile_after (V:hvariant) (h:list comp) (c:comp) : cresult := snd (compile_one V (mods_after V h) c).
Definition compile_fresh (V:hvariant) (c:comp) : cresult := snd (compile_one V [] c).
