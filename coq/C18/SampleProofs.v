(* C18 — round trip and truncation theorems for the sample codec over the dependency DAG. *)
From Coq Require Import ZArith List Bool Lia Arith.
From Scenic Require Import C18.Codec C18.CodecProofs.
Import ListNotations.
Open Scope Z_scope.

(* ---------- values ---------- *)
Lemma read_write_value t v b rest :
  write_value t v = Some b -> read_value t (b ++ rest) = OK (v, rest).
Proof.
  destruct t, v; cbn [write_value read_value]; intros H; try discriminate.
  - erewrite read_write_int by eassumption. reflexivity.
  - inversion H; subst. unfold read_bool, write_bool. destruct b0; reflexivity.
  - destruct (Nat.eqb_spec (length p) (fixed_width TFloat)) as [E|]; [|discriminate].
    inversion H; subst. rewrite take_exact_app by assumption. reflexivity.
  - destruct (Nat.eqb_spec (length p) (fixed_width TVec)) as [E|]; [|discriminate].
    inversion H; subst. rewrite take_exact_app by assumption. reflexivity.
  - destruct (Nat.eqb_spec (length p) (fixed_width TOri)) as [E|]; [|discriminate].
    inversion H; subst. rewrite take_exact_app by assumption. reflexivity.
  - unfold write_bytes in H. destruct (write_int (Z.of_nat (length p))) as [h|] eqn:E; [|discriminate].
    inversion H; subst. unfold read_bytes. rewrite <- app_assoc.
    erewrite read_write_int by eassumption. cbn [bind].
    destruct (Z.ltb_spec (Z.of_nat (length p)) 0); [lia|].
    destruct (Z.ltb_spec (Z.of_nat (length (p ++ rest))) (Z.of_nat (length p))) as [Hl|_].
    { rewrite app_length in Hl. lia. }
    rewrite Nat2Z.id. rewrite take_exact_app by reflexivity. reflexivity.
  - unfold write_bytes in H. destruct (write_int (Z.of_nat (length p))) as [h|] eqn:E; [|discriminate].
    inversion H; subst. unfold read_bytes. rewrite <- app_assoc.
    erewrite read_write_int by eassumption. cbn [bind].
    destruct (Z.ltb_spec (Z.of_nat (length p)) 0); [lia|].
    destruct (Z.ltb_spec (Z.of_nat (length (p ++ rest))) (Z.of_nat (length p))) as [Hl|_].
    { rewrite app_length in Hl. lia. }
    rewrite Nat2Z.id. rewrite take_exact_app by reflexivity. reflexivity.
  - inversion H; subst. reflexivity.
Qed.

Lemma strict_prefix_app_cases (p a b : bytes) :
  strict_prefix p (a ++ b) ->
  strict_prefix p a \/ exists p2, p = a ++ p2 /\ strict_prefix p2 b.
Proof.
  revert p. induction a as [|x a IH]; intros p Hp.
  - right. exists p. split; [reflexivity|exact Hp].
  - destruct p as [|y p].
    + left. exists (x :: a). split; [discriminate|reflexivity].
    + apply strict_prefix_cons in Hp as [s' [Heq Hp]]. inversion Heq; subst.
      destruct (IH _ Hp) as [[t [Ht ->]]|[p2 [-> Hp2]]].
      * left. exists t. split; [assumption|reflexivity].
      * right. exists p2. split; [reflexivity|assumption].
Qed.

Lemma strict_prefix_of_nil p : ~ strict_prefix p [].
Proof. intros [t [Ht H]]. destruct p; destruct t; simpl in H; congruence. Qed.

Lemma take_exact_truncated n p s : length s = n -> strict_prefix p s -> take_exact n p = Err ETrunc.
Proof. intros <- Hp. apply take_exact_short. now apply strict_prefix_length. Qed.

Lemma read_value_truncated t v b p :
  write_value t v = Some b -> strict_prefix p b -> exists e, read_value t p = Err e.
Proof.
  destruct t, v; cbn [write_value read_value]; intros H Hp; try discriminate.
  - erewrite read_int_truncated by eassumption. eexists; reflexivity.
  - inversion H; subst. unfold write_bool in Hp. apply strict_prefix_length in Hp.
    destruct p; [|simpl in Hp; lia]. eexists; reflexivity.
  - destruct (Nat.eqb_spec (length p0) (fixed_width TFloat)) as [E|]; [|discriminate].
    inversion H; subst. erewrite take_exact_truncated by eassumption. eexists; reflexivity.
  - destruct (Nat.eqb_spec (length p0) (fixed_width TVec)) as [E|]; [|discriminate].
    inversion H; subst. erewrite take_exact_truncated by eassumption. eexists; reflexivity.
  - destruct (Nat.eqb_spec (length p0) (fixed_width TOri)) as [E|]; [|discriminate].
    inversion H; subst. erewrite take_exact_truncated by eassumption. eexists; reflexivity.
  - unfold write_bytes in H. destruct (write_int (Z.of_nat (length p0))) as [h|] eqn:E; [|discriminate].
    inversion H; subst. unfold read_bytes.
    destruct (strict_prefix_app_cases _ _ _ Hp) as [Hh|[p2 [-> Hp2]]].
    + erewrite read_int_truncated by eassumption. eexists; reflexivity.
    + erewrite read_write_int by eassumption. cbn [bind].
      destruct (Z.ltb_spec (Z.of_nat (length p0)) 0); [lia|].
      apply strict_prefix_length in Hp2.
      destruct (Z.ltb_spec (Z.of_nat (length p2)) (Z.of_nat (length p0))); [|lia]. eexists; reflexivity.
  - unfold write_bytes in H. destruct (write_int (Z.of_nat (length p0))) as [h|] eqn:E; [|discriminate].
    inversion H; subst. unfold read_bytes.
    destruct (strict_prefix_app_cases _ _ _ Hp) as [Hh|[p2 [-> Hp2]]].
    + erewrite read_int_truncated by eassumption. eexists; reflexivity.
    + erewrite read_write_int by eassumption. cbn [bind].
      destruct (Z.ltb_spec (Z.of_nat (length p0)) 0); [lia|].
      apply strict_prefix_length in Hp2.
      destruct (Z.ltb_spec (Z.of_nat (length p2)) (Z.of_nat (length p0))); [|lia]. eexists; reflexivity.
  - inversion H; subst. exfalso. eapply strict_prefix_of_nil; eassumption.
Qed.

(* ---------- the DAG ---------- *)
Definition children (n:node) : list nat :=
  match n with NDet es ds => es ++ ds | NMux ix os => ix :: os | _ => [] end.

(* dependencies come first: the exporter numbers nodes in post-order *)
Definition dag_ordered (g:dag) : Prop :=
  forall i n, nth_error g i = Some n -> forall d, In d (children n) -> (d < i)%nat.

(* encoder and decoder walk the same dependency list at every deterministic node: both follow the
   conditioned proxy (or neither does).  Checked on every exported DAG; what seeded/C18-3 broke. *)
Definition conditioned_consistent (g:dag) : Prop :=
  forall i es ds, nth_error g i = Some (NDet es ds) -> es = ds.

Definition wf_dag (g:dag) : Prop := dag_ordered g /\ conditioned_consistent g.

Lemma mem_cons i x l : mem i (x :: l) = Nat.eqb i x || mem i l.
Proof. reflexivity. Qed.

Section RoundTrip.
Variable g : dag.
Variable pval : nat -> val.
Hypothesis Hwf : wf_dag g.

(* P = nodes whose encoding is in progress (already marked by the encoder, not yet by the decoder) *)
Definition Inv (P:list nat) (sne snd:seen) (pe:penv) : Prop :=
  (forall x, mem x sne = mem x snd || mem x P) /\
  (forall j t, mem j snd = true -> nth_error g j = Some (NPrim t) -> plook j pe = Some (pval j)) /\
  (forall j v, plook j pe = Some v -> v = pval j).

Definition above (i:nat) (P:list nat) : Prop := forall p, mem p P = true -> (i < p)%nat.

Lemma above_not_mem i P : above i P -> mem i P = false.
Proof.
  intros H. destruct (mem i P) eqn:E; [|reflexivity]. apply H in E. lia.
Qed.

Lemma above_child i d P : above i P -> (d < i)%nat -> above d (i :: P).
Proof.
  intros H Hd p Hp. rewrite mem_cons in Hp. apply orb_true_iff in Hp as [Hp|Hp].
  - apply Nat.eqb_eq in Hp. subst. exact Hd.
  - apply H in Hp. lia.
Qed.

Definition fenc (fuel:nat) := fun (acc:option (bytes*seen)) (d:nat) =>
  match acc with
  | Some (b, s) => match enc_node g pval fuel d s with
                   | Some (b', s') => Some (b ++ b', s')
                   | None => None end
  | None => None end.
Definition fdec (fuel:nat) := fun (acc:res (seen*penv*bytes)) (d:nat) => do a <- acc; dec_node g fuel d a.

Lemma fenc_none fuel ds : fold_left (fenc fuel) ds None = None.
Proof. induction ds; simpl; auto. Qed.
Lemma fdec_err fuel ds e : fold_left (fdec fuel) ds (Err e) = Err e.
Proof. induction ds; simpl; auto. Qed.

(* what one node's encode/decode pair guarantees *)
Definition node_ok (fuel:nat) (i:nat) : Prop :=
  forall sn b sn', enc_node g pval fuel i sn = Some (b, sn') ->
  forall P snd pe, above i P -> Inv P sn snd pe ->
    (forall rest, exists snd' pe', dec_node g fuel i (snd, pe, b ++ rest) = OK (snd', pe', rest) /\ Inv P sn' snd' pe') /\
    (forall p, strict_prefix p b -> exists e, dec_node g fuel i (snd, pe, p) = Err e) /\
    (needs_sampling g i = true -> mem i sn' = true).

Lemma fold_ok fuel (Hnode : forall d, node_ok fuel d) :
  forall ds i, (forall d, In d ds -> (d < i)%nat) ->
  forall b0 s0 b s', fold_left (fenc fuel) ds (Some (b0, s0)) = Some (b, s') ->
  exists b1, b = b0 ++ b1 /\
   forall P snd pe, above i P -> Inv (i :: P) s0 snd pe ->
    (forall rest, exists snd' pe', fold_left (fdec fuel) ds (OK (snd, pe, b1 ++ rest)) = OK (snd', pe', rest)
                                  /\ Inv (i :: P) s' snd' pe') /\
    (forall p, strict_prefix p b1 -> exists e, fold_left (fdec fuel) ds (OK (snd, pe, p)) = Err e).
Proof.
  induction ds as [|d ds IH]; intros i Hlt b0 s0 b s' H.
  - simpl in H. inversion H; subst. exists []. split; [now rewrite app_nil_r|].
    intros P snd pe Hab HI. split.
    + intros rest. exists snd, pe. split; [reflexivity|exact HI].
    + intros p Hp. exfalso. eapply strict_prefix_of_nil; eassumption.
  - cbn [fold_left] in H. unfold fenc at 2 in H.
    destruct (enc_node g pval fuel d s0) as [[bd sd]|] eqn:Ed; [|rewrite fenc_none in H; discriminate].
    destruct (IH i (fun x Hx => Hlt x (or_intror Hx)) _ _ _ _ H) as [b1 [-> Hrest]].
    exists (bd ++ b1). split; [now rewrite app_assoc|].
    intros P snd pe Hab HI.
    assert (Hd : (d < i)%nat) by (apply Hlt; now left).
    destruct (Hnode d _ _ _ Ed (i :: P) snd pe (above_child _ _ _ Hab Hd) HI) as [Hrt [Htr _]].
    split.
    + intros rest. destruct (Hrt (b1 ++ rest)) as [snd1 [pe1 [Hdec HI1]]].
      destruct (Hrest P snd1 pe1 Hab HI1) as [Hrt2 _].
      destruct (Hrt2 rest) as [snd2 [pe2 [Hdec2 HI2]]].
      exists snd2, pe2. split; [|exact HI2].
      cbn [fold_left]. unfold fdec at 2. cbn [bind]. rewrite <- app_assoc. rewrite Hdec. exact Hdec2.
    + intros p Hp. cbn [fold_left]. unfold fdec at 2. cbn [bind].
      destruct (strict_prefix_app_cases _ _ _ Hp) as [Hp1|[p2 [-> Hp2]]].
      * destruct (Htr _ Hp1) as [e He]. rewrite He. exists e. apply fdec_err.
      * destruct (Hrt p2) as [snd1 [pe1 [Hdec HI1]]].
        destruct (Hrest P snd1 pe1 Hab HI1) as [_ Htr2]. destruct (Htr2 _ Hp2) as [e He].
        exists e. etransitivity; [|exact He]. f_equal. exact Hdec.
Qed.

Lemma seen_grows_fold fuel (Hnode : forall d sn b sn', enc_node g pval fuel d sn = Some (b, sn') -> forall x, mem x sn = true -> mem x sn' = true) :
  forall ds b0 s0 b s', fold_left (fenc fuel) ds (Some (b0, s0)) = Some (b, s') ->
  forall x, mem x s0 = true -> mem x s' = true.
Proof.
  induction ds as [|d ds IH]; intros b0 s0 b s' H x Hx.
  - simpl in H. inversion H; subst. exact Hx.
  - cbn [fold_left] in H. unfold fenc at 2 in H.
    destruct (enc_node g pval fuel d s0) as [[bd sd]|] eqn:Ed; [|rewrite fenc_none in H; discriminate].
    eapply IH; [exact H|]. eapply Hnode; eassumption.
Qed.

Lemma seen_grows fuel : forall i sn b sn', enc_node g pval fuel i sn = Some (b, sn') ->
  forall x, mem x sn = true -> mem x sn' = true.
Proof.
  induction fuel as [|fuel IH]; intros i sn b sn' H x Hx; [discriminate|].
  cbn [enc_node] in H.
  destruct (negb (needs_sampling g i)); [inversion H; subst; exact Hx|].
  destruct (mem i sn); [inversion H; subst; exact Hx|].
  destruct (nth_error g i) as [[|t|ds|ix os]|]; try discriminate.
  - destruct (write_value t (pval i)); [|discriminate]. inversion H; subst.
    rewrite mem_cons, Hx. apply orb_true_r.
  - eapply (seen_grows_fold fuel IH); [exact H|]. rewrite mem_cons, Hx. apply orb_true_r.
  - destruct (enc_node g pval fuel ix (i :: sn)) as [[b1 s1]|] eqn:E1; [|discriminate].
    destruct (ival g pval ix); [|discriminate].
    destruct (py_index z (length os)); [|discriminate].
    destruct (nth_error os n); [|discriminate].
    destruct (enc_node g pval fuel n0 s1) as [[b2 s2]|] eqn:E2; [|discriminate].
    inversion H; subst. eapply IH; [exact E2|]. eapply IH; [exact E1|].
    rewrite mem_cons, Hx. apply orb_true_r.
Qed.

Lemma Inv_mark P sne snd pe i : Inv (i :: P) sne snd pe -> Inv P sne (i :: snd) pe ->
  True.
Proof. trivial. Qed.

Lemma dec_node_S fuel i sn pe s :
  dec_node g (S fuel) i (sn, pe, s) =
  if negb (needs_sampling g i) then OK (sn, pe, s)
  else if mem i sn then OK (sn, pe, s)
  else
    match nth_error g i with
    | Some (NPrim t) => dop v, r <- read_value t s; OK (i :: sn, (i, v) :: pe, r)
    | Some (NDet _ ds) =>
        do st' <- fold_left (fdec fuel) ds (OK (sn, pe, s));
        let '(sn', pe', s') := st' in OK (i :: sn', pe', s')
    | Some (NMux ix os) =>
        do st1 <- dec_node g fuel ix (sn, pe, s);
        let '(sn1, pe1, s1) := st1 in
        match ieval g pe1 ix with
        | Some k =>
            match py_index k (length os) with
            | Some j =>
              match nth_error os j with
              | Some c => do st2 <- dec_node g fuel c (sn1, pe1, s1);
                          let '(sn2, pe2, s2) := st2 in OK (i :: sn2, pe2, s2)
              | None => Err EBadIndex end
            | None => Err EBadIndex end
        | None => Err EUnsupported end
    | _ => Err EUnsupported
    end.
Proof. reflexivity. Qed.

Theorem node_roundtrip : forall fuel i, node_ok fuel i.
Proof.
  induction fuel as [|fuel IH]; intros i sn b sn' H; [discriminate|].
  intros P snd pe Hab HI.
  cbn [enc_node] in H.
  destruct (needs_sampling g i) eqn:Hns; cbn [negb] in *.
  2:{ inversion H; subst. repeat split.
      - intros rest. rewrite dec_node_S, Hns. exists snd, pe. split; [reflexivity|exact HI].
      - intros p Hp. exfalso. eapply strict_prefix_of_nil; eassumption.
      - discriminate. }
  destruct HI as [Hmem [Hprim Hagree]].
  pose proof (above_not_mem _ _ Hab) as HiP.
  destruct (mem i sn) eqn:Hseen.
  { inversion H; subst.
    assert (Hd : mem i snd = true) by (rewrite Hmem, HiP, orb_false_r in Hseen; exact Hseen).
    repeat split.
    - intros rest. rewrite dec_node_S, Hns, Hd. exists snd, pe. split; [reflexivity|]. repeat split; assumption.
    - intros p Hp. exfalso. eapply strict_prefix_of_nil; eassumption.
    - intros _. exact Hseen. }
  assert (Hd : mem i snd = false).
  { destruct (mem i snd) eqn:E; [|reflexivity]. rewrite Hmem, E in Hseen. discriminate. }
  assert (Hstep : forall s, dec_node g (S fuel) i (snd, pe, s) =
    match nth_error g i with
    | Some (NPrim t) => dop v, r <- read_value t s; OK (i :: snd, (i, v) :: pe, r)
    | Some (NDet _ ds) =>
        do st' <- fold_left (fdec fuel) ds (OK (snd, pe, s));
        let '(sn', pe', s') := st' in OK (i :: sn', pe', s')
    | Some (NMux ix os) =>
        do st1 <- dec_node g fuel ix (snd, pe, s);
        let '(sn1, pe1, s1) := st1 in
        match ieval g pe1 ix with
        | Some k =>
            match py_index k (length os) with
            | Some j =>
              match nth_error os j with
              | Some c => do st2 <- dec_node g fuel c (sn1, pe1, s1);
                          let '(sn2, pe2, s2) := st2 in OK (i :: sn2, pe2, s2)
              | None => Err EBadIndex end
            | None => Err EBadIndex end
        | None => Err EUnsupported end
    | _ => Err EUnsupported
    end).
  { intros s. rewrite dec_node_S, Hns, Hd. reflexivity. }
  destruct (nth_error g i) as [[|t|ds ds'|ix os]|] eqn:Hnode; try discriminate.
  - (* primitive *)
    destruct (write_value t (pval i)) as [bv|] eqn:Hw; [|discriminate]. inversion H; subst. clear H.
    repeat split.
    + intros rest. rewrite Hstep, (read_write_value _ _ _ rest Hw). cbn [bind].
      exists (i :: snd), ((i, pval i) :: pe). split; [reflexivity|]. repeat split.
      * intros x. rewrite !mem_cons, Hmem. now rewrite orb_assoc.
      * intros j t' Hj Hn. cbn [plook]. destruct (Nat.eqb_spec j i) as [->|Hne]; [reflexivity|].
        rewrite mem_cons in Hj. apply orb_true_iff in Hj as [Hj|Hj]; [apply Nat.eqb_eq in Hj; contradiction|].
        eapply Hprim; eassumption.
      * intros j v. cbn [plook]. destruct (Nat.eqb_spec j i) as [->|Hne]; [intros Hv; now inversion Hv|]. apply Hagree.
    + intros p Hp. destruct (read_value_truncated _ _ _ _ Hw Hp) as [e He]. rewrite Hstep, He. exists e. reflexivity.
    + intros _. rewrite mem_cons, Nat.eqb_refl. reflexivity.
  - (* deterministic: encoder and decoder walk the same list (conditioned_consistent) *)
    assert (ds = ds') by (eapply (proj2 Hwf); exact Hnode). subst ds'.
    change (fold_left (fenc fuel) ds (Some ([], i :: sn)) = Some (b, sn')) in H.
    assert (Hlt : forall d, In d ds -> (d < i)%nat) by (intros d Hin; eapply (proj1 Hwf); [exact Hnode|cbn [children]; apply in_or_app; left; exact Hin]).
    destruct (fold_ok fuel IH ds i Hlt _ _ _ _ H) as [b1 [Hb Hrest]]. cbn [app] in Hb. subst b1.
    assert (HI0 : Inv (i :: P) (i :: sn) snd pe).
    { repeat split; try assumption. intros x. rewrite !mem_cons, Hmem.
      destruct (Nat.eqb x i), (mem x snd), (mem x P); reflexivity. }
    destruct (Hrest P snd pe Hab HI0) as [Hrt Htr].
    repeat split.
    + intros rest. destruct (Hrt rest) as [snd' [pe' [Hdec [Hm' [Hp' Ha']]]]]. rewrite Hstep, Hdec. cbn [bind].
      exists (i :: snd'), pe'. split; [reflexivity|]. repeat split.
      * intros x. rewrite Hm', !mem_cons. destruct (Nat.eqb x i), (mem x snd'), (mem x P); reflexivity.
      * intros j t' Hj Hn. rewrite mem_cons in Hj. apply orb_true_iff in Hj as [Hj|Hj].
        { apply Nat.eqb_eq in Hj. subst. rewrite Hnode in Hn. discriminate. }
        eapply Hp'; eassumption.
      * exact Ha'.
    + intros p Hp. destruct (Htr _ Hp) as [e He]. rewrite Hstep, He. exists e. reflexivity.
    + intros _. eapply (seen_grows_fold fuel (seen_grows fuel)); [exact H|].
      rewrite mem_cons, Nat.eqb_refl. reflexivity.
  - (* multiplexer *)
    destruct (enc_node g pval fuel ix (i :: sn)) as [[b1 s1]|] eqn:E1; [|discriminate].
    destruct (ival g pval ix) as [k|] eqn:Hk; [|discriminate].
    destruct (py_index k (length os)) as [j|] eqn:Hj; [|discriminate].
    destruct (nth_error os j) as [c|] eqn:Hc; [|discriminate].
    destruct (enc_node g pval fuel c s1) as [[b2 s2]|] eqn:E2; [|discriminate].
    inversion H; subst. clear H.
    assert (Hix : (ix < i)%nat) by (eapply (proj1 Hwf); [exact Hnode|now left]).
    assert (Hci : (c < i)%nat) by (eapply (proj1 Hwf); [exact Hnode|right; eapply nth_error_In; exact Hc]).
    assert (HI0 : Inv (i :: P) (i :: sn) snd pe).
    { repeat split; try assumption. intros x. rewrite !mem_cons, Hmem.
      destruct (Nat.eqb x i), (mem x snd), (mem x P); reflexivity. }
    destruct (IH ix _ _ _ E1 (i :: P) snd pe (above_child _ _ _ Hab Hix) HI0) as [Hrt1 [Htr1 Hin1]].
    (* after decoding the index node, its integer value is available to the decoder *)
    assert (Hieval : forall snd1 pe1, Inv (i :: P) s1 snd1 pe1 -> ieval g pe1 ix = Some k).
    { intros snd1 pe1 [Hm1 [Hp1 _]]. unfold ival in Hk. unfold ieval.
      destruct (nth_error g ix) as [[|[]|?|? ?]|] eqn:Hnix; try discriminate.
      destruct (pval ix) as [kz| | | |] eqn:Hpv; try discriminate. inversion Hk; subst kz.
      assert (Hns' : needs_sampling g ix = true) by (unfold needs_sampling; now rewrite Hnix).
      specialize (Hin1 Hns'). rewrite Hm1 in Hin1.
      rewrite (above_not_mem _ _ (above_child _ _ _ Hab Hix)), orb_false_r in Hin1.
      rewrite (Hp1 _ _ Hin1 Hnix), Hpv. reflexivity. }
    repeat split.
    + intros rest. rewrite <- app_assoc.
      destruct (Hrt1 (b2 ++ rest)) as [snd1 [pe1 [Hdec1 HI1]]]. rewrite Hstep, Hdec1. cbn [bind].
      rewrite (Hieval _ _ HI1), Hj, Hc.
      destruct (IH c _ _ _ E2 (i :: P) snd1 pe1 (above_child _ _ _ Hab Hci) HI1) as [Hrt2 _].
      destruct (Hrt2 rest) as [snd2 [pe2 [Hdec2 [Hm2 [Hp2 Ha2]]]]]. rewrite Hdec2. cbn [bind].
      exists (i :: snd2), pe2. split; [reflexivity|]. repeat split.
      * intros x. rewrite Hm2, !mem_cons. destruct (Nat.eqb x i), (mem x snd2), (mem x P); reflexivity.
      * intros j' t' Hj' Hn. rewrite mem_cons in Hj'. apply orb_true_iff in Hj' as [Hj'|Hj'].
        { apply Nat.eqb_eq in Hj'. subst. rewrite Hnode in Hn. discriminate. }
        eapply Hp2; eassumption.
      * exact Ha2.
    + intros p Hp.
      destruct (strict_prefix_app_cases _ _ _ Hp) as [Hp1|[p2 [-> Hp2]]].
      * destruct (Htr1 _ Hp1) as [e He]. rewrite Hstep, He. exists e. reflexivity.
      * destruct (Hrt1 p2) as [snd1 [pe1 [Hdec1 HI1]]]. rewrite Hstep, Hdec1. cbn [bind].
        rewrite (Hieval _ _ HI1), Hj, Hc.
        destruct (IH c _ _ _ E2 (i :: P) snd1 pe1 (above_child _ _ _ Hab Hci) HI1) as [_ [Htr2 _]].
        destruct (Htr2 _ Hp2) as [e He]. rewrite He. exists e. reflexivity.
    + intros _. eapply seen_grows; [exact E2|]. eapply seen_grows; [exact E1|].
      rewrite mem_cons, Nat.eqb_refl. reflexivity.
Qed.

(* ---------- whole samples ---------- *)
Lemma Inv_nil : Inv [] [] [] [].
Proof. repeat split; intros; simpl in *; try discriminate; reflexivity. Qed.

Lemma above_nil i : above i [].
Proof. intros p Hp. discriminate. Qed.

Lemma sample_fold fuel :
  forall deps b0 s0 b s', fold_left (fenc fuel) deps (Some (b0, s0)) = Some (b, s') ->
  exists b1, b = b0 ++ b1 /\
   forall snd pe, Inv [] s0 snd pe ->
    (forall rest, exists snd' pe', fold_left (fdec fuel) deps (OK (snd, pe, b1 ++ rest)) = OK (snd', pe', rest)
                                  /\ Inv [] s' snd' pe') /\
    (forall p, strict_prefix p b1 -> exists e, fold_left (fdec fuel) deps (OK (snd, pe, p)) = Err e).
Proof.
  induction deps as [|d ds IH]; intros b0 s0 b s' H.
  - simpl in H. inversion H; subst. exists []. split; [now rewrite app_nil_r|].
    intros snd pe HI. split.
    + intros rest. exists snd, pe. split; [reflexivity|exact HI].
    + intros p Hp. exfalso. eapply strict_prefix_of_nil; eassumption.
  - cbn [fold_left] in H. unfold fenc at 2 in H.
    destruct (enc_node g pval fuel d s0) as [[bd sd]|] eqn:Ed; [|rewrite fenc_none in H; discriminate].
    destruct (IH _ _ _ _ H) as [b1 [-> Hrest]].
    exists (bd ++ b1). split; [now rewrite app_assoc|].
    intros snd pe HI.
    destruct (node_roundtrip fuel d _ _ _ Ed [] snd pe (above_nil d) HI) as [Hrt [Htr _]].
    split.
    + intros rest. destruct (Hrt (b1 ++ rest)) as [snd1 [pe1 [Hdec HI1]]].
      destruct (Hrest snd1 pe1 HI1) as [Hrt2 _].
      destruct (Hrt2 rest) as [snd2 [pe2 [Hdec2 HI2]]].
      exists snd2, pe2. split; [|exact HI2].
      cbn [fold_left]. unfold fdec at 2. cbn [bind]. rewrite <- app_assoc. rewrite Hdec. exact Hdec2.
    + intros p Hp. cbn [fold_left]. unfold fdec at 2. cbn [bind].
      destruct (strict_prefix_app_cases _ _ _ Hp) as [Hp1|[p2 [-> Hp2]]].
      * destruct (Htr _ Hp1) as [e He]. rewrite He. exists e. apply fdec_err.
      * destruct (Hrt p2) as [snd1 [pe1 [Hdec HI1]]].
        destruct (Hrest snd1 pe1 HI1) as [_ Htr2]. destruct (Htr2 _ Hp2) as [e He].
        exists e. etransitivity; [|exact He]. f_equal. exact Hdec.
Qed.

(* decode (encode sample) returns exactly the primitive values that were written, and consumes
   exactly the encoding *)
Theorem sample_roundtrip deps bs rest :
  enc_sample g pval deps = Some bs ->
  exists pe, dec_sample g deps (bs ++ rest) = OK (pe, rest) /\ forall j v, plook j pe = Some v -> v = pval j.
Proof.
  unfold enc_sample, dec_sample. intros H.
  change (match fold_left (fenc (S (length g))) deps (Some ([], [])) with Some (b, _) => Some b | None => None end = Some bs) in H.
  destruct (fold_left (fenc (S (length g))) deps (Some ([], []))) as [[b s']|] eqn:E; [|discriminate].
  inversion H; subst b. clear H.
  destruct (sample_fold _ _ _ _ _ _ E) as [b1 [Hb Hrest]]. cbn [app] in Hb. subst b1.
  destruct (Hrest [] [] Inv_nil) as [Hrt _].
  destruct (Hrt rest) as [snd' [pe' [Hdec [_ [_ Ha]]]]].
  change (fold_left (fun acc d => do a <- acc; dec_node g (S (length g)) d a) deps) with (fold_left (fdec (S (length g))) deps).
  rewrite Hdec. cbn [bind]. exists pe'. split; [reflexivity|exact Ha].
Qed.

(* every strict prefix of a sample's encoding is refused *)
Theorem sample_truncated deps bs p :
  enc_sample g pval deps = Some bs -> strict_prefix p bs -> exists e, dec_sample g deps p = Err e.
Proof.
  unfold enc_sample, dec_sample. intros H Hp.
  change (match fold_left (fenc (S (length g))) deps (Some ([], [])) with Some (b, _) => Some b | None => None end = Some bs) in H.
  destruct (fold_left (fenc (S (length g))) deps (Some ([], []))) as [[b s']|] eqn:E; [|discriminate].
  inversion H; subst b. clear H.
  destruct (sample_fold _ _ _ _ _ _ E) as [b1 [Hb Hrest]]. cbn [app] in Hb. subst b1.
  destruct (Hrest [] [] Inv_nil) as [_ Htr].
  destruct (Htr _ Hp) as [e He].
  change (fold_left (fun acc d => do a <- acc; dec_node g (S (length g)) d a) deps) with (fold_left (fdec (S (length g))) deps).
  rewrite He. exists e. reflexivity.
Qed.

End RoundTrip.

(* the hypotheses of the round trip, separately *)
Theorem conditioned_roundtrip g pval : dag_ordered g -> conditioned_consistent g -> forall deps bs rest,
  enc_sample g pval deps = Some bs ->
  exists pe, dec_sample g deps (bs ++ rest) = OK (pe, rest) /\ forall j v, plook j pe = Some v -> v = pval j.
Proof. intros Ho Hc. exact (sample_roundtrip g pval (conj Ho Hc)). Qed.

(* ---------- conditioning ---------- *)
(* encoder and decoder agreeing on whether to follow the conditioned proxy is enough, whatever was conditioned to what *)
Lemma view_consistent b cg : conditioned_consistent (map (view b b) cg).
Proof.
  intros i es ds H. rewrite nth_error_map in H. destruct (nth_error cg i) as [c|]; [|discriminate].
  cbn [option_map] in H. unfold view in H. destruct (c_own c); try discriminate. inversion H. reflexivity.
Qed.

Theorem code_view_roundtrip cg pval : dag_ordered (map code_view cg) -> forall deps bs rest,
  enc_sample (map code_view cg) pval deps = Some bs ->
  exists pe, dec_sample (map code_view cg) deps (bs ++ rest) = OK (pe, rest) /\ forall j v, plook j pe = Some v -> v = pval j.
Proof. intros Ho. exact (conditioned_roundtrip _ pval Ho (view_consistent true cg)). Qed.

Theorem code_view_truncated cg pval : dag_ordered (map code_view cg) -> forall deps bs p,
  enc_sample (map code_view cg) pval deps = Some bs -> strict_prefix p bs -> exists e, dec_sample (map code_view cg) deps p = Err e.
Proof. intros Ho. exact (sample_truncated _ pval (conj Ho (view_consistent true cg))). Qed.

(* ... and it is needed: an object depending on a random value, conditioned to a fixed one (proxy without
   dependencies), followed by another random value.  Encoder following the proxy, decoder not (seeded/C18-3):
   the decoder reads the second value as the object's dependency and then runs out of data; with a third
   value it silently assigns every value to the wrong node. *)
Definition ci_cg : list cnode :=
  [ {| c_own := NPrim TInt; c_proxy := None |}; {| c_own := NDet [0%nat] [0%nat]; c_proxy := None |};
    {| c_own := NPrim TInt; c_proxy := None |} ].
Definition ci_pv (i:nat) : val := match i with 0%nat => VInt 5 | _ => VInt 9 end.
Theorem conditioned_inconsistent_refuted :
  let cg := condition_to 1 [] ci_cg in
  dag_ordered (map (view true false) cg) /\
  enc_sample (map (view true false) cg) ci_pv [1%nat; 2%nat] = Some [9] /\
  dec_sample (map (view true false) cg) [1%nat; 2%nat] [9] = Err ETrunc /\
  dec_sample (map code_view cg) [1%nat; 2%nat] [9] = OK ([(2%nat, VInt 9)], []) /\
  (exists pe, dec_sample (map (view true false) cg) [1%nat; 2%nat] [9; 9] = OK (pe, []) /\ plook 0%nat pe = Some (VInt 9) /\ ci_pv 0%nat = VInt 5).
Proof.
  cbv zeta. split.
  - intros i n H d Hd. vm_compute in H.
    do 3 (destruct i as [|i]; [inversion H; subst; cbn in Hd; intuition lia|]).
    destruct i; discriminate.
  - vm_compute. repeat split; try reflexivity. eexists. repeat split; reflexivity.
Qed.

(* ---------- header ---------- *)
Lemma bytes_eqb_eq a b : bytes_eqb a b = true -> a = b.
Proof.
  unfold bytes_eqb. revert b. induction a as [|x a IH]; intros [|y b] H; simpl in *; try discriminate; auto.
  apply andb_true_iff in H as [Hl H]. apply andb_true_iff in H as [Hxy H].
  apply Z.eqb_eq in Hxy. subst. f_equal. apply IH. now rewrite Hl, H.
Qed.

(* a scene is accepted only if it starts with this scenario's version, program hash and options hash *)
Theorem header_accepts_only_own exp s r :
  length (h_ast exp) = 4%nat -> length (h_opts exp) = 4%nat ->
  read_header exp s = OK r ->
  exists v, length v = 2%nat /\ le_decode v = h_version exp /\ s = v ++ h_ast exp ++ h_opts exp ++ r.
Proof.
  intros La Lo. unfold read_header.
  destruct (take_exact 2 s) as [[v r0]|] eqn:E0; cbn [bind]; [|discriminate].
  destruct (Z.eqb_spec (le_decode v) (h_version exp)) as [Hv|]; cbn [negb]; [|discriminate].
  destruct (take_exact 4 r0) as [[a r1]|] eqn:E1; [|discriminate].
  destruct (bytes_eqb a (h_ast exp)) eqn:Ea; cbn [negb]; [|discriminate].
  destruct (take_exact 4 r1) as [[o r2]|] eqn:E2; [|discriminate].
  destruct (bytes_eqb o (h_opts exp)) eqn:Eo; cbn [negb]; [|discriminate].
  intros H. inversion H; subst r2.
  apply take_exact_ok in E0 as [-> L0]. apply take_exact_ok in E1 as [-> L1]. apply take_exact_ok in E2 as [-> L2].
  apply bytes_eqb_eq in Ea. apply bytes_eqb_eq in Eo. subst.
  exists v. repeat split; auto.
Qed.
