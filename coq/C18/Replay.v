(* C18 — model of the REPLAY STREAM of a simulation (src/scenic/core/simulators.py:
   initializeReplay, replayCanContinue/detectReplayEnd, recordSampledValue/replaySampledValue,
   the divergence data of updateObjects, valuesHaveDiverged; src/scenic/core/distributions.py:
   Distribution.__new__ while a simulation is in progress).  Definitions only.

   A simulation is, from the point of view of the replay machinery, a deterministic PROGRAM that
   issues two kinds of requests:
     PDraw g root k   a distribution is constructed at run time: it is drawn at once (fresh, or read
                      back from the replay), recorded, and the program continues as a function of
                      the drawn value (identified by its canonical encoding);
     PUpdate ps k     updateObjects for one object: its dynamic properties (type, value read from
                      the simulator) are written (enableDivergenceCheck) and/or compared with the
                      recorded ones (header flag checkDivergence).
   The model mirrors the REPAIRED recording (fix-C18-replay-shared-dependency): every run-time
   draw is encoded with its own memo, as it is decoded with its own table of values. *)
From Coq Require Import ZArith List Bool Lia.
From Scenic Require Import C18.Codec.
Import ListNotations.
Open Scope Z_scope.

(* the decoder's table of values as a sample *)
Definition pv_of (pe:penv) (j:nat) : val :=
  match plook j pe with Some v => v | None => VNone end.

(* ---------- dynamic properties of one object ---------- *)
Notation props := (list (vty * val)) (only parsing).

Fixpoint write_props (ps:props) : option bytes :=
  match ps with
  | [] => Some []
  | (t, v) :: r => match write_value t v, write_props r with
                   | Some a, Some b => Some (a ++ b)
                   | _, _ => None end
  end.

(* read the recorded values one by one and compare; stops at the first divergence
   (None = diverged: DivergenceError, or `break` with continueAfterDivergence) *)
Fixpoint check_props (dv:vty -> val -> val -> bool) (ps:props) (s:bytes) : res (option bytes) :=
  match ps with
  | [] => OK (Some s)
  | (t, a) :: r => dop e, s' <- read_value t s;
                   if dv t e a then OK None else check_props dv r s'
  end.

(* ---------- valuesHaveDiverged on decoded IEEE-754 doubles ---------- *)
Definition dyadic := (Z * Z)%type.            (* (m, e) = m * 2^e *)

(* little-endian binary64 -> dyadic; None for inf/nan *)
Definition ieee (bs:bytes) : option dyadic :=
  let u := le_decode bs in
  let sign := u / 2^63 in
  let ex := (u / 2^52) mod 2^11 in
  let mant := u mod 2^52 in
  if ex =? 2047 then None else
  if (ex =? 0) && (mant =? 0) then Some (0, 0) else     (* +-0.0 *)
  let m := if ex =? 0 then mant else mant + 2^52 in
  let e := if ex =? 0 then -1074 else ex - 1075 in
  Some (if sign =? 1 then - m else m, e).

Definition dy_align (a b:dyadic) : Z * Z * Z :=
  let e := Z.min (snd a) (snd b) in
  (Z.shiftl (fst a) (snd a - e), Z.shiftl (fst b) (snd b - e), e).
Definition dy_sub (a b:dyadic) : dyadic := let '(x, y, e) := dy_align a b in (x - y, e).
Definition dy_ltb (a b:dyadic) : bool := let '(x, y, _) := dy_align a b in x <? y.
Definition dy_abs (a:dyadic) : dyadic := (Z.abs (fst a), snd a).
Definition dy_sq (a:dyadic) : dyadic := (fst a * fst a, 2 * snd a).
Definition dy_add (a b:dyadic) : dyadic := let '(x, y, e) := dy_align a b in (x + y, e).

Fixpoint bytes_eq (a b:bytes) : bool :=
  match a, b with
  | [], [] => true
  | x :: a', y :: b' => (x =? y) && bytes_eq a' b'
  | _, _ => false
  end.
Definition val_eqb (a b:val) : bool :=
  match a, b with
  | VInt x, VInt y => x =? y
  | VBool x, VBool y => Bool.eqb x y
  | VFix p, VFix q => bytes_eq p q
  | VBlob p, VBlob q => bytes_eq p q
  | VNone, VNone => true
  | _, _ => false
  end.

(* |actual - expected| : `if diff: return diff > tol` else `actual != expected` (equal numbers) *)
Definition scalar_diverged (tol e a:dyadic) : bool :=
  let d := dy_abs (dy_sub a e) in
  if fst d =? 0 then false else dy_ltb tol d.

Definition chunk3 (p:bytes) : option (bytes * bytes * bytes) :=
  match take_exact 8 p with
  | OK (x, r) => match take_exact 8 r with
                 | OK (y, z) => Some (x, y, z)
                 | Err _ => None end
  | Err _ => None end.

(* (actual - expected).norm() > tol, on exact squares: tol < 0, or tol^2 < |d|^2 *)
Definition vector_diverged (tol:dyadic) (e a:bytes) : option bool :=
  match chunk3 e, chunk3 a with
  | Some (ex, ey, ez), Some (ax, ay, az) =>
    match ieee ex, ieee ey, ieee ez, ieee ax, ieee ay, ieee az with
    | Some ex, Some ey, Some ez, Some ax, Some ay, Some az =>
        let n2 := dy_add (dy_sq (dy_sub ax ex)) (dy_add (dy_sq (dy_sub ay ey)) (dy_sq (dy_sub az ez))) in
        Some (if fst n2 =? 0 then false
              else if fst tol <? 0 then true else dy_ltb (dy_sq tol) n2)
    | _, _, _, _, _, _ => None
    end
  | _, _ => None
  end.

(* Simulation.valuesHaveDiverged: numbers.Real -> |a-e|, Vector -> norm, anything else `!=`.
   Non-finite floats are outside the model: they fall back to `!=` (the harness never produces them). *)
Definition diverged_val (tol:dyadic) (t:vty) (e a:val) : bool :=
  if val_eqb e a then false else
  match t, e, a with
  | TInt, VInt x, VInt y => scalar_diverged tol (x, 0) (y, 0)
  | TBool, VBool x, VBool y => scalar_diverged tol (if x then 1 else 0, 0) (if y then 1 else 0, 0)
  | TFloat, VFix p, VFix q =>
      match ieee p, ieee q with
      | Some x, Some y => scalar_diverged tol x y
      | _, _ => true
      end
  | TVec, VFix p, VFix q =>
      match vector_diverged tol p q with Some b => b | None => true end
  | _, _, _ => true
  end.

(* ---------- the program and its run ---------- *)
Inductive prog :=
| PDone
| PDraw (g:dag) (root:nat) (k:bytes -> prog)
| PUpdate (ps:props) (k:prog).

Inductive outcome := Completed | Diverged | Failed (e:err) | EncFailed.
(* trace = the draws made, in order (canonical encodings of the drawn values) *)
Record result := R { r_trace : list bytes; r_out : bytes; r_end : outcome }.

Definition cons_draw (b:bytes) (r:result) : result := R (b :: r_trace r) (b ++ r_out r) (r_end r).
Definition prepend (b:bytes) (r:result) : result := R (r_trace r) (b ++ r_out r) (r_end r).

(* replayCanContinue: replaying and (detectReplayEnd) the input is not exhausted *)
Definition can_continue (inp:option bytes) : option bytes :=
  match inp with Some [] => None | x => x end.

(* wr = enableDivergenceCheck of THIS run; chk = checkDivergence flag of the replay being read;
   cont = continueAfterDivergence; inp = Some rest-of-replay while replaying;
   w n = the sample of the n-th FRESH draw (the random number generator) *)
Fixpoint run (dv:vty -> val -> val -> bool) (wr chk cont:bool) (p:prog) (inp:option bytes)
             (w:nat -> nat -> val) (n:nat) : result :=
  match p with
  | PDone => R [] [] Completed
  | PDraw g root k =>
      match can_continue inp with
      | Some s =>
          match dec_sample g [root] s with
          | Err e => R [] [] (Failed e)
          | OK (pe, rest) =>
              match enc_sample g (pv_of pe) [root] with
              | None => R [] [] EncFailed
              | Some b => cons_draw b (run dv wr chk cont (k b) (Some rest) w n)
              end
          end
      | None =>
          match enc_sample g (w n) [root] with
          | None => R [] [] EncFailed
          | Some b => cons_draw b (run dv wr chk cont (k b) None w (S n))
          end
      end
  | PUpdate ps k =>
      match (if wr then write_props ps else Some []) with
      | None => R [] [] EncFailed
      | Some b =>
          match can_continue inp with
          | Some s =>
              if chk then
                match check_props dv ps s with
                | Err e => R [] b (Failed e)
                | OK None => if cont then prepend b (run dv wr chk cont k None w n) else R [] b Diverged
                | OK (Some rest) => prepend b (run dv wr chk cont k (Some rest) w n)
                end
              else prepend b (run dv wr chk cont k (Some s) w n)
          | None => prepend b (run dv wr chk cont k None w n)
          end
      end
  end.

(* ---------- header and the whole simulate(replay=...) ---------- *)
Definition replay_version : Z := 2.
Definition replay_header (wr:bool) : bytes := [replay_version; 0; if wr then 1 else 0; 0; 0; 0].

Definition read_replay_header (s:bytes) : res (bool * bytes) :=
  dop v, r <- take_exact 2 s;
  if negb (le_decode v =? replay_version) then Err EBadHeader else
  dop f, r' <- take_exact 4 r;
  OK (Z.odd (le_decode f), r').

(* `if replay:` — an empty bytes object means "no replay" *)
Definition simulate (dv:vty -> val -> val -> bool) (wr cont:bool) (p:prog) (replay:bytes)
                    (w:nat -> nat -> val) : result :=
  match replay with
  | [] => prepend (replay_header wr) (run dv wr false cont p None w 0)
  | _ => match read_replay_header replay with
         | Err e => R [] [] (Failed e)
         | OK (chk, body) => prepend (replay_header wr) (run dv wr chk cont p (Some body) w 0)
         end
  end.

(* first-order scripts (what the correspondence check feeds): the path one real run took *)
Inductive step := SDraw (g:dag) (root:nat) | SUpdate (ps:props).
Fixpoint prog_of_script (sc:list step) : prog :=
  match sc with
  | [] => PDone
  | SDraw g root :: r => PDraw g root (fun _ => prog_of_script r)
  | SUpdate ps :: r => PUpdate ps (prog_of_script r)
  end.

(* fresh draws: the n-th fresh draw takes the n-th table (default VNone) *)
Definition oracle_of (tables:list (list (nat * val))) (n:nat) : nat -> val :=
  pv_of (nth n tables []).

(* the PRE-FIX recording kept one memo for the whole simulation: a dependency shared by two
   run-time draws is written only once although each draw is decoded with a fresh table *)
Definition record_two_shared_memo (g:dag) (pv1 pv2:nat -> val) (r1 r2:nat) : option bytes :=
  match enc_node g pv1 (S (length g)) r1 [] with
  | Some (b1, sn1) =>
      (* the draw itself is not memoised (serializeValue is called on it directly) *)
      match enc_node g pv2 (S (length g)) r2 (filter (fun x => negb (Nat.eqb x r1)) sn1) with
      | Some (b2, _) => Some (b1 ++ b2)
      | None => None end
  | None => None end.
