(* C18 — model of Scenic's binary codecs (src/scenic/core/serialization.py) and of the
   sample (de)serialisation over the dependency DAG (distributions.py serializeValue /
   deserializeValue, MultiplexerDistribution).  Definitions only: no proofs here, so the
   model still runs when a proof breaks. *)
From Coq Require Import ZArith List Bool Lia.
Import ListNotations.
Open Scope Z_scope.

(* ---------- bytes ---------- *)
Notation byte := Z (only parsing).          (* 0 <= b < 256 *)
Notation bytes := (list Z) (only parsing).
Definition is_byte (b:Z) : bool := (0 <=? b) && (b <? 256).

Inductive err := ETrunc | EBadIndex | EBadHeader | EUnsupported | EFuel.
Inductive res (A:Type) := OK (a:A) | Err (e:err).
Arguments OK {A} a. Arguments Err {A} e.

Definition bind {A B} (r:res A) (f:A -> res B) : res B :=
  match r with OK a => f a | Err e => Err e end.
Notation "'do' X <- A ; B" := (bind A (fun X => B))
  (at level 200, X name, A at level 100, B at level 200).
Notation "'dop' X , Y <- A ; B" := (bind A (fun p => let '(X, Y) := p in B))
  (at level 200, X name, Y name, A at level 100, B at level 200).

(* stream.read(n) followed by the length check of _readExactly *)
Fixpoint take_exact (n:nat) (s:bytes) : res (bytes * bytes) :=
  match n with
  | O => OK ([], s)
  | S n' => match s with
            | [] => Err ETrunc
            | b :: s' => dop h, t <- take_exact n' s'; OK (b :: h, t)
            end
  end.

(* int.to_bytes(length=n, byteorder="little") of a non-negative v < 256^n *)
Fixpoint le_encode (n:nat) (v:Z) : bytes :=
  match n with
  | O => []
  | S n' => (v mod 256) :: le_encode n' (v / 256)
  end.
(* int.from_bytes(bs, "little") *)
Fixpoint le_decode (bs:bytes) : Z :=
  match bs with
  | [] => 0
  | b :: t => b + 256 * le_decode t
  end.

Definition pow256 (n:nat) : Z := 2 ^ (8 * Z.of_nat n).

(* signed little-endian two's complement on n bytes *)
Definition to_signed (n:nat) (v:Z) : bytes := le_encode n (v mod pow256 n).
Definition from_signed (bs:bytes) : Z :=
  let u := le_decode bs in
  let n := length bs in
  if (n =? 0)%nat then 0 else
  if u <? pow256 n / 2 then u else u - pow256 n.

(* Python int.bit_length *)
Definition bit_length (z:Z) : Z := let a := Z.abs z in if a =? 0 then 0 else Z.log2 a + 1.

(* writeInt: None = the SerializationError for >255-byte integers *)
Definition write_int (z:Z) : option bytes :=
  if (0 <=? z) && (z <=? 252) then Some [z]
  else if (-32768 <=? z) && (z <=? 32767) then Some (253 :: to_signed 2 z)
  else if (-2147483648 <=? z) && (z <=? 2147483647) then Some (254 :: to_signed 4 z)
  else
    let len := Z.max 1 ((bit_length z + 1 + 7) / 8) in
    if 256 <=? len then None
    else Some (255 :: len :: to_signed (Z.to_nat len) z).

(* readInt (with _readExactly) *)
Definition read_int (s:bytes) : res (Z * bytes) :=
  match s with
  | [] => Err ETrunc
  | first :: s1 =>
    if first <=? 252 then OK (first, s1)
    else if first =? 253 then dop p, r <- take_exact 2 s1; OK (from_signed p, r)
    else if first =? 254 then dop p, r <- take_exact 4 s1; OK (from_signed p, r)
    else match s1 with
         | [] => Err ETrunc
         | len :: s2 => dop p, r <- take_exact (Z.to_nat len) s2; OK (from_signed p, r)
         end
  end.

Definition write_bool (b:bool) : bytes := [if b then 1 else 0].
Definition read_bool (s:bytes) : res (bool * bytes) :=
  dop z, r <- read_int s; OK (negb (z =? 0), r).

Definition write_bytes (bs:bytes) : option bytes :=
  match write_int (Z.of_nat (length bs)) with
  | Some h => Some (h ++ bs)
  | None => None
  end.
Definition read_bytes (s:bytes) : res (bytes * bytes) :=
  dop n, r <- read_int s;
  if n <? 0 then Err ETrunc   (* stream.read(negative) reads everything; refused by _readExactly *)
  else if Z.of_nat (length r) <? n then Err ETrunc   (* short read (decided without building a huge nat) *)
  else take_exact (Z.to_nat n) r.

(* opaque fixed-width payloads: float (8), Vector (24), Orientation (32) *)
Definition write_fixed (n:nat) (p:bytes) : bytes := p.
Definition read_fixed (n:nat) (s:bytes) : res (bytes * bytes) := take_exact n s.

(* ---------- value universe of primitive (non-deterministic) distributions ---------- *)
Inductive vty := TInt | TBool | TFloat | TVec | TOri | TStr | TBytes | TNone.
Inductive val :=
| VInt (z:Z) | VBool (b:bool) | VFix (p:bytes)      (* float / Vector / Orientation payload *)
| VBlob (p:bytes)                                   (* str (utf-8) / bytes *)
| VNone.

Definition fixed_width (t:vty) : nat :=
  match t with TFloat => 8 | TVec => 24 | TOri => 32 | _ => 0 end%nat.

Definition write_value (t:vty) (v:val) : option bytes :=
  match t, v with
  | TInt, VInt z => write_int z
  | TBool, VBool b => Some (write_bool b)
  | TFloat, VFix p | TVec, VFix p | TOri, VFix p =>
      if (length p =? fixed_width t)%nat then Some p else None
  | TStr, VBlob p | TBytes, VBlob p => write_bytes p
  | TNone, VNone => Some []
  | _, _ => None
  end.

Definition read_value (t:vty) (s:bytes) : res (val * bytes) :=
  match t with
  | TInt => dop z, r <- read_int s; OK (VInt z, r)
  | TBool => dop b, r <- read_bool s; OK (VBool b, r)
  | TFloat | TVec | TOri => dop p, r <- take_exact (fixed_width t) s; OK (VFix p, r)
  | TStr | TBytes => dop p, r <- read_bytes s; OK (VBlob p, r)
  | TNone => OK (VNone, s)
  end.

(* ---------- the dependency DAG ---------- *)
(* Nodes are numbered in an order where dependencies come first (index = identity).
   NFixed : not needsSampling -> nothing written.
   NPrim t: non-_deterministic Distribution of valueType t -> its sampled value is written.
   NDet es ds: deterministic Distribution / any other Samplable (Object, ...) -> recurse into dependencies.
       Two lists, because the code reads the dependency list at two places: [es] is the list
       Samplable.serializeValue walks (the dependencies of the CONDITIONED PROXY, self._conditioned, which
       Scenario.conditionOn and pruning replace), [ds] the list Samplable.deserializeValue walks.  Round-trip
       needs them to be the same list (conditioned_consistent, SampleProofs.v); the exporter observes each
       walk separately.  Primitive and multiplexer nodes ignore the proxy (they write their own value /
       index + chosen option).
   NMux i os: MultiplexerDistribution: index then only the chosen option.
   Primitive values are stored in the sample map sigma; a mux needs the *integer value* of its
   index node, which may itself be deterministic; [ival] gives it from the sample (an oracle
   for sampleGiven restricted to what the codec needs). *)
Inductive node :=
| NFixed
| NPrim (t:vty)
| NDet (edeps:list nat) (ddeps:list nat)
| NMux (idx:nat) (opts:list nat).

Notation dag := (list node) (only parsing).

Notation seen := (list nat) (only parsing).
Definition mem (i:nat) (s:seen) : bool := existsb (Nat.eqb i) s.

(* A multiplexer's index must be a primitive int distribution (Options/Uniform build a
   DiscreteRange index); anything else is reported as unsupported by the harness. *)
Definition ival (g:dag) (pval:nat -> val) (ix:nat) : option Z :=
  match nth_error g ix, pval ix with
  | Some (NPrim TInt), VInt k => Some k
  | _, _ => None
  end.

Definition needs_sampling (g:dag) (i:nat) : bool :=
  match nth_error g i with Some NFixed | None => false | _ => true end.

(* Python sequence indexing: negative indices wrap around once *)
Definition py_index (k:Z) (n:nat) : option nat :=
  let k' := if k <? 0 then k + Z.of_nat n else k in
  if (0 <=? k') && (k' <? Z.of_nat n) then Some (Z.to_nat k') else None.

Section Sample.
Variable g : dag.
Variable pval : nat -> val.          (* sampled value of primitive node i *)

(* writeSamplable *)
Fixpoint enc_node (fuel:nat) (i:nat) (sn:seen) : option (bytes * seen) :=
  match fuel with O => None | S fuel' =>
  if negb (needs_sampling g i) then Some ([], sn)
  else if mem i sn then Some ([], sn)
  else
    let sn := i :: sn in
    match nth_error g i with
    | Some (NPrim t) => match write_value t (pval i) with Some b => Some (b, sn) | None => None end
    | Some (NDet ds _) =>
        fold_left (fun acc d => match acc with
                                | Some (b, s) => match enc_node fuel' d s with
                                                 | Some (b', s') => Some (b ++ b', s')
                                                 | None => None end
                                | None => None end) ds (Some ([], sn))
    | Some (NMux ix os) =>
        match enc_node fuel' ix sn with
        | Some (b1, s1) =>
            match ival g pval ix with
            | Some k =>
              match py_index k (length os) with
              | Some j =>
                match nth_error os j with
                | Some c => match enc_node fuel' c s1 with
                            | Some (b2, s2) => Some (b1 ++ b2, s2)
                            | None => None end
                | None => None end
              | None => None end
            | None => None end
        | None => None end
    | _ => None
    end
  end.

Definition enc_sample (deps:list nat) : option bytes :=
  match fold_left (fun acc d => match acc with
                                | Some (b, s) => match enc_node (S (length g)) d s with
                                                 | Some (b', s') => Some (b ++ b', s')
                                                 | None => None end
                                | None => None end) deps (Some ([], [])) with
  | Some (b, _) => Some b
  | None => None
  end.
End Sample.

(* Decoding: the decoder's memo [values] = (seen, primitive values decoded so far). *)
Notation penv := (list (nat * val)) (only parsing).
Fixpoint plook (i:nat) (e:penv) : option val :=
  match e with [] => None | (j,v) :: t => if Nat.eqb i j then Some v else plook i t end.

Definition ieval (g:dag) (pe:penv) (ix:nat) : option Z :=
  match nth_error g ix, plook ix pe with
  | Some (NPrim TInt), Some (VInt k) => Some k
  | _, _ => None
  end.

Section Decode.
Variable g : dag.

Fixpoint dec_node (fuel:nat) (i:nat) (st:seen * penv * bytes) : res (seen * penv * bytes) :=
  match fuel with O => Err EFuel | S fuel' =>
  let '(sn, pe, s) := st in
  if negb (needs_sampling g i) then OK st
  else if mem i sn then OK st
  else
    match nth_error g i with
    | Some (NPrim t) => dop v, r <- read_value t s; OK (i :: sn, (i, v) :: pe, r)
    | Some (NDet _ ds) =>
        do st' <- fold_left (fun acc d => do a <- acc; dec_node fuel' d a) ds (OK (sn, pe, s));
        let '(sn', pe', s') := st' in OK (i :: sn', pe', s')
    | Some (NMux ix os) =>
        do st1 <- dec_node fuel' ix (sn, pe, s);
        let '(sn1, pe1, s1) := st1 in
        match ieval g pe1 ix with
        | Some k =>
            match py_index k (length os) with
            | Some j =>
              match nth_error os j with
              | Some c => do st2 <- dec_node fuel' c (sn1, pe1, s1);
                          let '(sn2, pe2, s2) := st2 in OK (i :: sn2, pe2, s2)
              | None => Err EBadIndex end
            | None => Err EBadIndex end
        | None => Err EUnsupported end
    | _ => Err EUnsupported
    end
  end.

Definition dec_sample (deps:list nat) (s:bytes) : res (penv * bytes) :=
  do st <- fold_left (fun acc d => do a <- acc; dec_node (S (length g)) d a) deps (OK ([], [], s));
  let '(_, pe, r) := st in OK (pe, r).
End Decode.

(* ---------- conditioning (Samplable.conditionTo: Scenario.conditionOn, pruning) ---------- *)
(* A samplable as constructed ([c_own], own dependency list in both positions of NDet) together with the
   dependency list of its conditioned proxy, [Some value._dependencies] after conditionTo(value).
   [view ef df] = the node the codec walks when the encoder (ef) / the decoder (df) follow the proxy.
   The code as it is: Samplable.serializeValue and Samplable.deserializeValue both iterate
   self._conditioned._dependencies; non-deterministic Distributions and MultiplexerDistributions override
   both methods and never look at the proxy. *)
Record cnode := { c_own : node; c_proxy : option (list nat) }.
Definition follow (c:cnode) (own:list nat) : list nat :=
  match c_proxy c with Some p => p | None => own end.
Definition view (ef df:bool) (c:cnode) : node :=
  match c_own c with
  | NDet own _ => NDet (if ef then follow c own else own) (if df then follow c own else own)
  | n => n
  end.
Definition code_view : cnode -> node := view true true.
Definition condition_to (i:nat) (p:list nat) (cg:list cnode) : list cnode :=
  let fix go (k:nat) (l:list cnode) := match l with
    | [] => []
    | c :: t => (if Nat.eqb k i then {| c_own := c_own c; c_proxy := Some p |} else c) :: go (S k) t end
  in go O cg.

(* ---------- scene header ---------- *)
Record header := { h_version : Z; h_ast : bytes; h_opts : bytes }.
Definition write_header (h:header) : bytes := to_signed 2 (h_version h) ++ h_ast h ++ h_opts h.
Definition bytes_eqb (a b:bytes) : bool :=
  (length a =? length b)%nat && forallb (fun '(x,y) => x =? y) (combine a b).
(* readScene's header checks, verify=True; expected = this scenario's header *)
Definition read_header (expected:header) (s:bytes) : res bytes :=
  dop v, r <- take_exact 2 s;
  if negb (le_decode v =? h_version expected) then Err EBadHeader else
  (* stream.read(4) may be short: then it differs from the 4-byte hash *)
  match take_exact 4 r with
  | Err _ => Err EBadHeader
  | OK (a, r1) =>
    if negb (bytes_eqb a (h_ast expected)) then Err EBadHeader else
    match take_exact 4 r1 with
    | Err _ => Err EBadHeader
    | OK (o, r2) => if negb (bytes_eqb o (h_opts expected)) then Err EBadHeader else OK r2
    end
  end.

(* ---------- divergence predicate (Simulation.valuesHaveDiverged, scalar case) ---------- *)
(* On rationals-as-integers scaled by the harness (exact dyadic floats scaled to Z). *)
Definition values_have_diverged (expected actual tol : Z) : bool :=
  let diff := Z.abs (actual - expected) in
  if diff =? 0 then negb (actual =? expected) else tol <? diff.
