(* C18 — lemmas about the byte codecs of Codec.v *)
From Coq Require Import ZArith List Bool Lia.
From Scenic Require Import C18.Codec.
Import ListNotations.
Open Scope Z_scope.

Lemma pow256_pos n : 0 < pow256 n.
Proof. unfold pow256. apply Z.pow_pos_nonneg; lia. Qed.

Lemma pow256_S n : pow256 (S n) = 256 * pow256 n.
Proof.
  unfold pow256. replace (8 * Z.of_nat (S n)) with (8 + 8 * Z.of_nat n) by lia.
  rewrite Z.pow_add_r by lia. reflexivity.
Qed.

Lemma length_le_encode n v : length (le_encode n v) = n.
Proof. revert v; induction n as [|n IH]; intros v; simpl; [reflexivity| now rewrite IH]. Qed.

Lemma length_to_signed n v : length (to_signed n v) = n.
Proof. apply length_le_encode. Qed.

Lemma le_decode_encode n : forall v, 0 <= v < pow256 n -> le_decode (le_encode n v) = v.
Proof.
  induction n as [|n IH]; intros v Hv.
  - unfold pow256 in Hv. simpl in *. lia.
  - rewrite pow256_S in Hv. cbn [le_encode le_decode].
    rewrite IH.
    + pose proof (Z.div_mod v 256). lia.
    + split; [apply Z.div_pos; lia|]. apply Z.div_lt_upper_bound; lia.
Qed.

Lemma le_encode_bytes n : forall v b, In b (le_encode n v) -> 0 <= b < 256.
Proof.
  induction n as [|n IH]; intros v b Hin; simpl in Hin; [contradiction|].
  destruct Hin as [<-|Hin]; [apply Z.mod_pos_bound; lia| eauto].
Qed.

Lemma take_exact_app n : forall p r, length p = n -> take_exact n (p ++ r) = OK (p, r).
Proof.
  induction n as [|n IH]; intros p r Hl.
  - destruct p; [reflexivity|discriminate].
  - destruct p as [|b p]; [discriminate|]. simpl. rewrite IH by (simpl in Hl; lia). reflexivity.
Qed.

Lemma take_exact_short n : forall p, (length p < n)%nat -> take_exact n p = Err ETrunc.
Proof.
  induction n as [|n IH]; intros p Hl; [lia|].
  destruct p as [|b p]; [reflexivity|]. simpl. rewrite IH by (simpl in Hl; lia). reflexivity.
Qed.

Lemma take_exact_ok n : forall s p r, take_exact n s = OK (p, r) -> s = p ++ r /\ length p = n.
Proof.
  induction n as [|n IH]; intros s p r H; simpl in H.
  - inversion H; subst. split; reflexivity.
  - destruct s as [|b s]; [discriminate|].
    destruct (take_exact n s) as [[h t]|e] eqn:E; simpl in H; [|discriminate].
    inversion H; subst. destruct (IH _ _ _ E) as [-> <-]. split; reflexivity.
Qed.

Lemma from_to_signed n z : (0 < n)%nat -> - (pow256 n / 2) <= z < pow256 n / 2 ->
  from_signed (to_signed n z) = z.
Proof.
  intros Hn Hz. unfold from_signed, to_signed.
  rewrite length_le_encode.
  destruct (Nat.eqb_spec n 0) as [->|_]; [lia|].
  pose proof (pow256_pos n) as Hp.
  assert (Heven : pow256 n = 2 * (pow256 n / 2)).
  { destruct n as [|n]; [lia|]. rewrite pow256_S.
    replace (256 * pow256 n) with (2 * (128 * pow256 n)) by lia.
    rewrite Z.mul_comm at 2. rewrite Z.div_mul by lia. lia. }
  rewrite le_decode_encode by (apply Z.mod_pos_bound; lia).
  destruct (Z.ltb_spec (z mod pow256 n) (pow256 n / 2)) as [Hlt|Hge].
  - destruct (Z_lt_le_dec z 0) as [Hneg|Hpos].
    + exfalso. assert (z mod pow256 n = z + pow256 n).
      { symmetry. apply Z.mod_unique with (q := -1); lia. }
      lia.
    + apply Z.mod_small; lia.
  - destruct (Z_lt_le_dec z 0) as [Hneg|Hpos].
    + assert (z mod pow256 n = z + pow256 n).
      { symmetry. apply Z.mod_unique with (q := -1); lia. }
      lia.
    + exfalso. rewrite Z.mod_small in Hge by lia. lia.
Qed.

Lemma bit_length_bound z : - 2 ^ bit_length z < z < 2 ^ bit_length z.
Proof.
  unfold bit_length. destruct (Z.eqb_spec (Z.abs z) 0) as [H0|Hn0].
  - simpl. lia.
  - assert (Hpos : 0 < Z.abs z) by lia.
    pose proof (Z.log2_spec (Z.abs z) Hpos) as [_ Hup].
    replace (Z.succ (Z.log2 (Z.abs z))) with (Z.log2 (Z.abs z) + 1) in Hup by lia.
    lia.
Qed.

Lemma bit_length_nonneg z : 0 <= bit_length z.
Proof.
  unfold bit_length. destruct (Z.abs z =? 0); [lia|]. pose proof (Z.log2_nonneg (Z.abs z)). lia.
Qed.

Lemma write_int_long_range z len :
  len = Z.max 1 ((bit_length z + 1 + 7) / 8) ->
  - (pow256 (Z.to_nat len) / 2) <= z < pow256 (Z.to_nat len) / 2.
Proof.
  intros Hlen. pose proof (bit_length_nonneg z) as Hbl. pose proof (bit_length_bound z) as Hb.
  assert (H8 : bit_length z + 1 <= 8 * len).
  { pose proof (Z.div_mod (bit_length z + 1 + 7) 8). pose proof (Z.mod_pos_bound (bit_length z + 1 + 7) 8). lia. }
  assert (Hl1 : 1 <= len) by lia.
  unfold pow256. rewrite Z2Nat.id by lia.
  replace (8 * len) with (1 + (8 * len - 1)) by lia.
  rewrite Z.pow_add_r by lia. change (2 ^ 1) with 2.
  rewrite Z.mul_comm, Z.div_mul by lia.
  assert (2 ^ bit_length z <= 2 ^ (8 * len - 1)) by (apply Z.pow_le_mono_r; lia).
  lia.
Qed.

Theorem read_write_int z bs rest : write_int z = Some bs -> read_int (bs ++ rest) = OK (z, rest).
Proof.
  unfold write_int. intros H.
  destruct ((0 <=? z) && (z <=? 252)) eqn:E1.
  { inversion H; subst. simpl. apply andb_true_iff in E1 as [? Hle]. rewrite Hle. reflexivity. }
  destruct ((-32768 <=? z) && (z <=? 32767)) eqn:E2.
  { inversion H; subst. cbn [app read_int]. change (253 <=? 252) with false. change (253 =? 253) with true.
    cbv iota. rewrite take_exact_app by apply length_to_signed. cbn [bind].
    rewrite from_to_signed; [reflexivity|lia|]. change (pow256 2 / 2) with 32768. lia. }
  destruct ((-2147483648 <=? z) && (z <=? 2147483647)) eqn:E3.
  { inversion H; subst. cbn [app read_int]. change (254 <=? 252) with false. change (254 =? 253) with false.
    change (254 =? 254) with true. cbv iota.
    rewrite take_exact_app by apply length_to_signed. cbn [bind].
    rewrite from_to_signed; [reflexivity|lia|]. change (pow256 4 / 2) with 2147483648. lia. }
  remember (Z.max 1 ((bit_length z + 1 + 7) / 8)) as len eqn:Hlen.
  destruct (256 <=? len) eqn:E4; [discriminate|]. inversion H; subst bs. clear H.
  cbn [app read_int]. change (255 <=? 252) with false. change (255 =? 253) with false.
  change (255 =? 254) with false. cbv iota.
  rewrite take_exact_app by apply length_to_signed. cbn [bind].
  rewrite from_to_signed; [reflexivity|lia|]. now apply write_int_long_range.
Qed.

(* strict prefixes *)
Definition strict_prefix (p s : bytes) : Prop := exists t, t <> [] /\ s = p ++ t.

Lemma strict_prefix_length p s : strict_prefix p s -> (length p < length s)%nat.
Proof. intros [t [Ht ->]]. rewrite app_length. destruct t; [congruence|simpl; lia]. Qed.

Lemma strict_prefix_cons b p s : strict_prefix (b :: p) s -> exists s', s = b :: s' /\ strict_prefix p s'.
Proof. intros [t [Ht ->]]. exists (p ++ t). split; [reflexivity|]. exists t; auto. Qed.

Lemma strict_prefix_nil s : strict_prefix [] s -> s <> [].
Proof. intros [t [Ht ->]]. exact Ht. Qed.

Theorem read_int_truncated z bs p : write_int z = Some bs -> strict_prefix p bs ->
  read_int p = Err ETrunc.
Proof.
  unfold write_int. intros H Hp.
  destruct ((0 <=? z) && (z <=? 252)) eqn:E1.
  { inversion H; subst. apply strict_prefix_length in Hp. destruct p; [reflexivity|simpl in Hp; lia]. }
  destruct ((-32768 <=? z) && (z <=? 32767)) eqn:E2.
  { inversion H; subst. destruct p as [|b p]; [reflexivity|].
    apply strict_prefix_cons in Hp as [s' [Heq Hp]]. inversion Heq; subst.
    cbn [read_int]. change (253 <=? 252) with false. change (253 =? 253) with true. cbv iota.
    apply strict_prefix_length in Hp. rewrite length_to_signed in Hp.
    rewrite take_exact_short by exact Hp. reflexivity. }
  destruct ((-2147483648 <=? z) && (z <=? 2147483647)) eqn:E3.
  { inversion H; subst. destruct p as [|b p]; [reflexivity|].
    apply strict_prefix_cons in Hp as [s' [Heq Hp]]. inversion Heq; subst.
    cbn [read_int]. change (254 <=? 252) with false. change (254 =? 253) with false.
    change (254 =? 254) with true. cbv iota.
    apply strict_prefix_length in Hp. rewrite length_to_signed in Hp.
    rewrite take_exact_short by exact Hp. reflexivity. }
  remember (Z.max 1 ((bit_length z + 1 + 7) / 8)) as len eqn:Hlen.
  destruct (256 <=? len) eqn:E4; [discriminate|]. inversion H; subst bs. clear H.
  destruct p as [|b p]; [reflexivity|].
  apply strict_prefix_cons in Hp as [s' [Heq Hp]]. inversion Heq; subst b s'.
  cbn [read_int]. change (255 <=? 252) with false. change (255 =? 253) with false.
  change (255 =? 254) with false. cbv iota.
  destruct p as [|b p]; [reflexivity|].
  apply strict_prefix_cons in Hp as [s' [Heq' Hp]]. inversion Heq'; subst b s'.
  apply strict_prefix_length in Hp. rewrite length_to_signed in Hp.
  rewrite take_exact_short by exact Hp. reflexivity.
Qed.

(* every byte written by write_int is a byte, and long encodings never exceed 257 bytes *)
Theorem write_int_bytes z bs : write_int z = Some bs -> forall b, In b bs -> 0 <= b < 256.
Proof.
  unfold write_int. intros H b Hin.
  destruct ((0 <=? z) && (z <=? 252)) eqn:E1.
  { inversion H; subst. destruct Hin as [<-|[]]. lia. }
  destruct ((-32768 <=? z) && (z <=? 32767)) eqn:E2.
  { inversion H; subst. destruct Hin as [<-|Hin]; [lia|]. eapply le_encode_bytes; exact Hin. }
  destruct ((-2147483648 <=? z) && (z <=? 2147483647)) eqn:E3.
  { inversion H; subst. destruct Hin as [<-|Hin]; [lia|]. eapply le_encode_bytes; exact Hin. }
  destruct (256 <=? _) eqn:E4; [discriminate|]. inversion H; subst bs.
  destruct Hin as [<-|[<-|Hin]]; [lia|lia|]. eapply le_encode_bytes; exact Hin.
Qed.

(* divergence predicate *)
Theorem diverged_iff e a tol : 0 <= tol ->
  values_have_diverged e a tol = true <-> tol < Z.abs (a - e).
Proof.
  intros Ht. unfold values_have_diverged.
  destruct (Z.eqb_spec (Z.abs (a - e)) 0) as [H0|Hn0].
  - assert (a = e) by lia. subst. rewrite Z.eqb_refl. simpl. split; [discriminate|lia].
  - rewrite Z.ltb_lt. reflexivity.
Qed.
