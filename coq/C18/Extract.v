(* Extraction of the C18 model to OCaml (volume path of the correspondence check).
   Directives: ExtrOcamlBasic only (bool, option, unit, list, prod, sumbool, sumor -> OCaml's own);
   Z, N, positive, nat stay the extracted inductive types. *)
From Coq Require Import ZArith List.
From Coq Require Extraction.
From Coq Require Import ExtrOcamlBasic.
From Scenic Require Import C18.Codec C18.Replay.
Extraction Language OCaml.
Extraction "model.ml" write_int read_int write_value read_value enc_sample dec_sample
  write_header read_header values_have_diverged read_bytes write_bytes
  simulate prog_of_script oracle_of diverged_val ieee read_replay_header record_two_shared_memo code_view view condition_to.
