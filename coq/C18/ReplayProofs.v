(* C18 — proofs about the replay stream model (coq/C18/Replay.v). *)
From Coq Require Import ZArith List Bool Lia.
From Scenic Require Import C18.Codec C18.CodecProofs C18.SampleProofs C18.Replay.
Import ListNotations.
Open Scope Z_scope.

(* ---------- the encoder only looks at the values it writes ---------- *)
Section Ext.
Variable g : dag.
Variables pval pval' : nat -> val.

Definition agree (sn:seen) : Prop :=
  forall j t, mem j sn = true -> nth_error g j = Some (NPrim t) -> pval' j = pval j.

Lemma agree_mono sn sn' : (forall x, mem x sn = true -> mem x sn' = true) -> agree sn' -> agree sn.
Proof. intros H A j t Hj. apply A. auto. Qed.

Lemma enc_marks fuel i sn b sn' :
  enc_node g pval fuel i sn = Some (b, sn') -> needs_sampling g i = true -> mem i sn' = true.
Proof.
  destruct fuel as [|fuel]; [discriminate|]. intros H Hns.
  cbn [enc_node] in H. rewrite Hns in H. cbn [negb] in H.
  destruct (mem i sn) eqn:Hm; [inversion H; subst; exact Hm|].
  assert (Hi : mem i (i :: sn) = true) by (rewrite mem_cons, Nat.eqb_refl; reflexivity).
  destruct (nth_error g i) as [[|t|ds|ix os]|]; try discriminate.
  - destruct (write_value t (pval i)); [|discriminate]. inversion H; subst. exact Hi.
  - eapply (seen_grows_fold g pval fuel); [intros; eapply seen_grows; eassumption|exact H|exact Hi].
  - destruct (enc_node g pval fuel ix (i :: sn)) as [[b1 s1]|] eqn:E1; [|discriminate].
    destruct (ival g pval ix); [|discriminate].
    destruct (py_index z (length os)); [|discriminate].
    destruct (nth_error os n); [|discriminate].
    destruct (enc_node g pval fuel n0 s1) as [[b2 s2]|] eqn:E2; [|discriminate].
    inversion H; subst. eapply seen_grows; [exact E2|]. eapply seen_grows; [exact E1|exact Hi].
Qed.

Lemma ival_agree sn ix k : agree sn -> mem ix sn = true -> ival g pval ix = Some k -> ival g pval' ix = Some k.
Proof.
  unfold ival. intros A Hm H.
  destruct (nth_error g ix) as [[|t|ds|ix' os]|] eqn:E; try discriminate.
  rewrite (A ix t Hm E). exact H.
Qed.

Lemma ival_needs ix k : ival g pval ix = Some k -> needs_sampling g ix = true.
Proof.
  unfold ival, needs_sampling. destruct (nth_error g ix) as [[|t|ds|ix' os]|]; try discriminate; reflexivity.
Qed.

Lemma enc_fold_ext fuel
  (Hnode : forall d sn b sn', enc_node g pval fuel d sn = Some (b, sn') -> agree sn' ->
                              enc_node g pval' fuel d sn = Some (b, sn')) :
  forall ds b0 s0 b s', fold_left (fenc g pval fuel) ds (Some (b0, s0)) = Some (b, s') -> agree s' ->
  fold_left (fenc g pval' fuel) ds (Some (b0, s0)) = Some (b, s').
Proof.
  induction ds as [|d ds IH]; intros b0 s0 b s' H A; [exact H|].
  cbn [fold_left] in *. unfold fenc at 2 in H. unfold fenc at 2.
  destruct (enc_node g pval fuel d s0) as [[bd sd]|] eqn:Ed; [|rewrite fenc_none in H; discriminate].
  rewrite (Hnode _ _ _ _ Ed).
  - apply IH; assumption.
  - eapply agree_mono; [|exact A]. intros x Hx.
    eapply (seen_grows_fold g pval fuel); [intros; eapply seen_grows; eassumption|exact H|exact Hx].
Qed.

Lemma enc_node_ext : forall fuel i sn b sn',
  enc_node g pval fuel i sn = Some (b, sn') -> agree sn' -> enc_node g pval' fuel i sn = Some (b, sn').
Proof.
  induction fuel as [|fuel IH]; intros i sn b sn' H A; [discriminate|].
  cbn [enc_node] in *.
  destruct (negb (needs_sampling g i)); [exact H|].
  destruct (mem i sn) eqn:Hm; [exact H|].
  destruct (nth_error g i) as [[|t|ds|ix os]|] eqn:En; try discriminate.
  - destruct (write_value t (pval i)) eqn:Ew; [|discriminate]. inversion H; subst.
    rewrite (A i t); [rewrite Ew; reflexivity| |exact En].
    rewrite mem_cons, Nat.eqb_refl. reflexivity.
  - exact (enc_fold_ext fuel IH ds [] (i :: sn) b sn' H A).
  - destruct (enc_node g pval fuel ix (i :: sn)) as [[b1 s1]|] eqn:E1; [|discriminate].
    destruct (ival g pval ix) as [k|] eqn:Ei; [|discriminate].
    destruct (py_index k (length os)) as [j|] eqn:Ej; [|discriminate].
    destruct (nth_error os j) as [c|] eqn:Ec; [|discriminate].
    destruct (enc_node g pval fuel c s1) as [[b2 s2]|] eqn:E2; [|discriminate].
    inversion H; subst.
    assert (A1 : agree s1) by (eapply agree_mono; [|exact A]; intros x Hx; eapply seen_grows; eassumption).
    rewrite (IH _ _ _ _ E1 A1).
    rewrite (ival_agree s1 ix k A1 (enc_marks _ _ _ _ _ E1 (ival_needs _ _ Ei)) Ei).
    rewrite Ej, Ec.
    rewrite (IH _ _ _ _ E2 A). reflexivity.
Qed.
End Ext.

(* decoding an encoded sample and re-encoding the decoder's table gives the same bytes:
   this is what a replayed draw records *)
Theorem sample_roundtrip_reencode g pval : wf_dag g -> forall deps bs rest,
  enc_sample g pval deps = Some bs ->
  exists pe, dec_sample g deps (bs ++ rest) = OK (pe, rest) /\ enc_sample g (pv_of pe) deps = Some bs.
Proof.
  intros Hwf deps bs rest H. unfold enc_sample, dec_sample in *.
  change (match fold_left (fenc g pval (S (length g))) deps (Some ([], [])) with Some (b, _) => Some b | None => None end = Some bs) in H.
  destruct (fold_left (fenc g pval (S (length g))) deps (Some ([], []))) as [[b s']|] eqn:E; [|discriminate].
  inversion H; subst b. clear H.
  destruct (sample_fold g pval Hwf _ _ _ _ _ _ E) as [b1 [Hb Hrest]]. cbn [app] in Hb. subst b1.
  destruct (Hrest [] [] (Inv_nil g pval)) as [Hrt _].
  destruct (Hrt rest) as [snd' [pe' [Hdec [H1 [H2 H3]]]]].
  change (fold_left (fun acc d => do a <- acc; dec_node g (S (length g)) d a) deps) with (fold_left (fdec g (S (length g))) deps).
  rewrite Hdec. cbn [bind]. exists pe'. split; [reflexivity|].
  change (match fold_left (fenc g (pv_of pe') (S (length g))) deps (Some ([], [])) with Some (b, _) => Some b | None => None end = Some bs).
  rewrite (enc_fold_ext g pval (pv_of pe') (S (length g)) (enc_node_ext g pval (pv_of pe') (S (length g))) deps [] [] bs s' E); [reflexivity|].
  intros j t Hj Hn. unfold pv_of. rewrite (H2 j t); [reflexivity| |exact Hn].
  rewrite H1 in Hj. cbn in Hj. rewrite orb_false_r in Hj. exact Hj.
Qed.

(* ---------- dynamic property data ---------- *)
Lemma check_props_self dv (dv_refl : forall t v, dv t v v = false) :
  forall ps b rest, write_props ps = Some b -> check_props dv ps (b ++ rest) = OK (Some rest).
Proof.
  induction ps as [|[t v] ps IH]; intros b rest H; cbn [write_props check_props] in *.
  - inversion H; subst. reflexivity.
  - destruct (write_value t v) as [a|] eqn:Ea; [|discriminate].
    destruct (write_props ps) as [b'|] eqn:Eb; [|discriminate]. inversion H; subst.
    rewrite <- app_assoc. rewrite (read_write_value _ _ _ _ Ea). cbn [bind].
    rewrite dv_refl. apply IH. reflexivity.
Qed.

Lemma check_props_truncated dv (dv_refl : forall t v, dv t v v = false) :
  forall ps b p, write_props ps = Some b -> strict_prefix p b -> exists e, check_props dv ps p = Err e.
Proof.
  induction ps as [|[t v] ps IH]; intros b p H Hp; cbn [write_props check_props] in *.
  - inversion H; subst. exfalso. eapply strict_prefix_of_nil; eassumption.
  - destruct (write_value t v) as [a|] eqn:Ea; [|discriminate].
    destruct (write_props ps) as [b'|] eqn:Eb; [|discriminate]. inversion H; subst.
    destruct (strict_prefix_app_cases _ _ _ Hp) as [Hp1|[p2 [-> Hp2]]].
    + destruct (read_value_truncated _ _ _ _ Ea Hp1) as [e He]. rewrite He. exists e. reflexivity.
    + rewrite (read_write_value _ _ _ _ Ea). cbn [bind]. rewrite dv_refl. eapply IH; [reflexivity|exact Hp2].
Qed.

(* two prefixes of the same byte string are comparable *)
Lemma prefix_cases : forall (a b s t : bytes), a ++ b = s ++ t ->
  (exists s', s = a ++ s' /\ b = s' ++ t) \/ strict_prefix s a.
Proof.
  induction a as [|x a IH]; intros b s t H.
  - left. exists s. split; [reflexivity|exact H].
  - destruct s as [|y s].
    + right. exists (x :: a). split; [discriminate|reflexivity].
    + cbn [app] in H. inversion H; subst y.
      destruct (IH _ _ _ H2) as [[s' [-> ->]]|[u [Hu ->]]].
      * left. exists s'. split; reflexivity.
      * right. exists u. split; [exact Hu|reflexivity].
Qed.

(* ---------- runs ---------- *)
Lemma cons_draw_inv b r tr o e : cons_draw b r = R tr o e ->
  exists tr' o', r = R tr' o' e /\ tr = b :: tr' /\ o = b ++ o'.
Proof. destruct r as [tr0 o0 e0]. unfold cons_draw. cbn. intros H. inversion H; subst. eauto. Qed.
Lemma prepend_inv b r tr o e : prepend b r = R tr o e -> exists o', r = R tr o' e /\ o = b ++ o'.
Proof. destruct r as [tr0 o0 e0]. unfold prepend. cbn. intros H. inversion H; subst. eauto. Qed.

Lemma can_continue_nonempty s : s <> [] -> can_continue (Some s) = Some s.
Proof. destruct s; [contradiction|reflexivity]. Qed.

Definition nonempty_draws (tr:list bytes) : Prop := Forall (fun d => d <> []) tr.

(* the random number generator of a run that replays the first draws and then continues fresh *)
Definition splice (m:nat) (w1 w2:nat -> nat -> val) (i:nat) : nat -> val :=
  if (i <? m)%nat then w1 i else w2 (i - m)%nat.

Section Runs.
Variable dv : vty -> val -> val -> bool.
Hypothesis dv_refl : forall t v, dv t v v = false.

(* in a fresh run only the generator from the current index on matters; chk/cont are irrelevant *)
Lemma run_none_shift wr : forall p chk cont chk' cont' w w' a b,
  (forall i, w' (a + i)%nat = w (b + i)%nat) ->
  run dv wr chk cont p None w' a = run dv wr chk' cont' p None w b.
Proof.
  induction p as [|g root k IH|ps k IH]; intros chk cont chk' cont' w w' a b Hw; cbn [run can_continue].
  - reflexivity.
  - pose proof (Hw 0%nat) as H0. rewrite !Nat.add_0_r in H0. rewrite H0.
    destruct (enc_sample g (w b) [root]) as [be|]; [|reflexivity].
    f_equal. apply IH. intros i. specialize (Hw (S i)). rewrite <- !plus_n_Sm in Hw. exact Hw.
  - destruct (if wr then write_props ps else Some []) as [bu|]; [|reflexivity].
    f_equal. apply IH. exact Hw.
Qed.

Lemma run_some_nil wr chk cont p w n :
  run dv wr chk cont p (Some []) w n = run dv wr chk cont p None w n.
Proof. destruct p; reflexivity. Qed.

Lemma run_exhausted wr chk cont p w1 w2 n1 :
  run dv wr chk cont p (Some []) w2 0 = run dv wr false cont p None (splice n1 w1 w2) n1.
Proof.
  rewrite run_some_nil. symmetry. apply run_none_shift. intros i. unfold splice.
  destruct (Nat.ltb_spec (n1 + i) n1); [lia|]. f_equal. lia.
Qed.

(* ----- replaying simulator related to the recording one ----- *)
Section Rel.
Variable Rp : props -> props -> Prop.
Hypothesis Rp_check : forall ps ps' b rest, Rp ps ps' -> write_props ps = Some b ->
  check_props dv ps' (b ++ rest) = OK (Some rest).

Inductive within : prog -> prog -> Prop :=
| W_done : within PDone PDone
| W_draw g root k k' : wf_dag g -> (forall b, within (k b) (k' b)) -> within (PDraw g root k) (PDraw g root k')
| W_upd ps ps' k k' : Rp ps ps' -> write_props ps' <> None -> within k k' ->
                      within (PUpdate ps k) (PUpdate ps' k').

Lemma drawless : forall p p', within p p' -> forall wr chk cont w n tr,
  run dv wr chk cont p None w n = R tr [] Completed -> nonempty_draws tr ->
  forall wr2 chk2 cont2 w2 n2, exists b2,
    run dv wr2 chk2 cont2 p' None w2 n2 = R tr b2 Completed /\
    (wr2 = wr -> (forall ps ps', Rp ps ps' -> ps = ps') -> b2 = []).
Proof.
  induction 1 as [|g root k k' Hwf Hk IH|ps ps' k k' HR Henc Hk IH]; intros wr chk cont w n tr H Hne wr2 chk2 cont2 w2 n2.
  - cbn in H. inversion H; subst. exists []. split; [reflexivity|auto].
  - cbn [run can_continue] in H. destruct (enc_sample g (w n) [root]) as [be|]; [|discriminate].
    apply cons_draw_inv in H as (tr' & o' & _ & -> & Ho). symmetry in Ho. apply app_eq_nil in Ho as [-> _].
    inversion Hne; subst. contradiction.
  - cbn [run can_continue] in H. destruct (if wr then write_props ps else Some []) as [bu|] eqn:Eb; [|discriminate].
    apply prepend_inv in H as (o' & Hsub & Ho). symmetry in Ho. apply app_eq_nil in Ho as [-> ->].
    destruct (IH _ _ _ _ _ _ Hsub Hne wr2 chk2 cont2 w2 n2) as (b2 & Hrun & Hb2).
    cbn [run can_continue]. destruct (write_props ps') as [x|] eqn:Ex; [|contradiction].
    exists ((if wr2 then x else []) ++ b2). split.
    + replace (if wr2 then Some x else Some []) with (Some (if wr2 then x else [])) by (destruct wr2; reflexivity).
      rewrite Hrun. reflexivity.
    + intros -> Heq. rewrite (Hb2 eq_refl Heq). rewrite app_nil_r.
      rewrite <- (Heq _ _ HR) in Ex. rewrite Ex in Eb. destruct wr; inversion Eb; reflexivity.
Qed.

Lemma replay_full_rel : forall p p', within p p' -> forall wr cont1 w1 n1 tr b,
  run dv wr false cont1 p None w1 n1 = R tr b Completed -> nonempty_draws tr ->
  forall wr2 cont2 w2 n2, exists b2,
    run dv wr2 wr cont2 p' (Some b) w2 n2 = R tr b2 Completed /\
    (wr2 = wr -> (forall ps ps', Rp ps ps' -> ps = ps') -> b2 = b).
Proof.
  induction 1 as [|g root k k' Hwf Hk IH|ps ps' k k' HR Henc Hk IH]; intros wr cont1 w1 n1 tr b H Hne wr2 cont2 w2 n2.
  - cbn in H. inversion H; subst. exists []. split; [reflexivity|auto].
  - cbn [run can_continue] in H. destruct (enc_sample g (w1 n1) [root]) as [be|] eqn:Ee; [|discriminate].
    apply cons_draw_inv in H as (tr' & o' & Hsub & -> & ->).
    inversion Hne as [|? ? Hbe Hne']; subst.
    cbn [run]. rewrite can_continue_nonempty by (destruct be; [contradiction|discriminate]).
    destruct (sample_roundtrip_reencode g (w1 n1) Hwf [root] be o' Ee) as (pe & Hd & Hre).
    rewrite Hd, Hre.
    destruct (IH be _ _ _ _ _ _ Hsub Hne' wr2 cont2 w2 n2) as (b2 & Hrun & Hb2).
    exists (be ++ b2). rewrite Hrun. split; [reflexivity|].
    intros Hw Heq. rewrite (Hb2 Hw Heq). reflexivity.
  - cbn [run can_continue] in H. destruct (if wr then write_props ps else Some []) as [bu|] eqn:Eb; [|discriminate].
    apply prepend_inv in H as (o' & Hsub & ->).
    cbn [run]. destruct (write_props ps') as [x|] eqn:Ex; [|contradiction].
    replace (if wr2 then Some x else Some []) with (Some (if wr2 then x else [])) by (destruct wr2; reflexivity).
    assert (Hown : wr2 = wr -> (forall ps ps', Rp ps ps' -> ps = ps') -> (if wr2 then x else []) = bu).
    { intros -> Heq. rewrite <- (Heq _ _ HR) in Ex. rewrite Ex in Eb. destruct wr; inversion Eb; reflexivity. }
    destruct (bu ++ o') as [|y s] eqn:Es.
    + apply app_eq_nil in Es as [-> ->]. cbn [can_continue].
      destruct (drawless _ _ Hk _ _ _ _ _ _ Hsub Hne wr2 wr cont2 w2 n2) as (b2 & Hrun & Hb2).
      exists ((if wr2 then x else []) ++ b2). rewrite Hrun. split; [reflexivity|].
      intros Hw Heq. rewrite (Hb2 Hw Heq), (Hown Hw Heq). reflexivity.
    + cbn [can_continue]. rewrite <- Es.
      destruct wr.
      * rewrite (Rp_check _ _ _ o' HR Eb).
        destruct (IH _ _ _ _ _ _ Hsub Hne wr2 cont2 w2 n2) as (b2 & Hrun & Hb2).
        exists ((if wr2 then x else []) ++ b2). rewrite Hrun. split; [reflexivity|].
        intros Hw Heq. rewrite (Hb2 Hw Heq), (Hown Hw Heq). reflexivity.
      * inversion Eb; subst bu. cbn [app].
        destruct (IH _ _ _ _ _ _ Hsub Hne wr2 cont2 w2 n2) as (b2 & Hrun & Hb2).
        exists ((if wr2 then x else []) ++ b2). rewrite Hrun. split; [reflexivity|].
        intros Hw Heq. rewrite (Hb2 Hw Heq). rewrite (Hown Hw Heq). reflexivity.
Qed.
End Rel.
End Runs.

(* ---------- truncated replays ---------- *)
Inductive prog_wf : prog -> Prop :=
| WF_done : prog_wf PDone
| WF_draw g root k : wf_dag g -> (forall b, prog_wf (k b)) -> prog_wf (PDraw g root k)
| WF_upd ps k : write_props ps <> None -> prog_wf k -> prog_wf (PUpdate ps k).

Section Prefix.
Variable dv : vty -> val -> val -> bool.
Hypothesis dv_refl : forall t v, dv t v v = false.

Lemma within_refl p : prog_wf p -> within eq p p.
Proof. induction 1; constructor; auto. Qed.

Lemma replay_prefix_gen : forall p, prog_wf p -> forall wr cont1 w1 n1 tr b,
  run dv wr false cont1 p None w1 n1 = R tr b Completed ->
  forall s t, b = s ++ t -> forall wr2 cont2 w2,
  (exists e tr' o', run dv wr2 wr cont2 p (Some s) w2 0 = R tr' o' (Failed e)) \/
  (exists m, (n1 <= m)%nat /\
     run dv wr2 wr cont2 p (Some s) w2 0 = run dv wr2 false cont2 p None (splice m w1 w2) n1).
Proof.
  induction 1 as [|g root k Hwf Hk IH|ps k Henc Hk IH]; intros wr cont1 w1 n1 tr b H s t Hb wr2 cont2 w2;
    (destruct s as [|y s0]; [right; exists n1; split; [lia|apply run_exhausted]|]).
  - cbn in H. inversion H; subst. discriminate.
  - cbn [run can_continue] in H. destruct (enc_sample g (w1 n1) [root]) as [be|] eqn:Ee; [|discriminate].
    apply cons_draw_inv in H as (tr' & o' & Hsub & -> & ->).
    cbn [run can_continue].
    destruct (prefix_cases _ _ _ _ Hb) as [(s' & Hs & Ho)|Hp].
    + rewrite Hs.
      destruct (sample_roundtrip_reencode g (w1 n1) Hwf [root] be s' Ee) as (pe & Hd & Hre).
      rewrite Hd, Hre.
      destruct (IH be _ _ _ _ _ _ Hsub s' t Ho wr2 cont2 w2) as [(e & tr2 & o2 & Hf)|(m & Hm & Hr)].
      * left. rewrite Hf. exists e, (be :: tr2), (be ++ o2). reflexivity.
      * right. exists m. split; [lia|]. rewrite Hr.
        unfold splice at 2. rewrite (proj2 (Nat.ltb_lt n1 m)) by lia. rewrite Ee. reflexivity.
    + destruct (sample_truncated g (w1 n1) Hwf [root] be _ Ee Hp) as [e He]. rewrite He.
      left. exists e, [], []. reflexivity.
  - cbn [run can_continue] in H. destruct (if wr then write_props ps else Some []) as [bu|] eqn:Eb; [|discriminate].
    apply prepend_inv in H as (o' & Hsub & ->).
    cbn [run can_continue].
    destruct (if wr2 then write_props ps else Some []) as [bu2|] eqn:E2;
      [|right; exists n1; split; [lia|reflexivity]].
    destruct wr.
    + destruct (prefix_cases _ _ _ _ Hb) as [(s' & Hs & Ho)|Hp].
      * rewrite Hs. rewrite (check_props_self dv dv_refl _ _ s' Eb).
        destruct (IH _ _ _ _ _ _ Hsub s' t Ho wr2 cont2 w2) as [(e & tr2 & o2 & Hf)|(m & Hm & Hr)].
        -- left. rewrite Hf. exists e, tr2, (bu2 ++ o2). reflexivity.
        -- right. exists m. split; [exact Hm|]. rewrite Hr. reflexivity.
      * destruct (check_props_truncated dv dv_refl _ _ _ Eb Hp) as [e He]. rewrite He.
        left. exists e, [], bu2. reflexivity.
    + inversion Eb; subst bu. cbn [app] in Hb.
      destruct (IH _ _ _ _ _ _ Hsub (y :: s0) t Hb wr2 cont2 w2) as [(e & tr2 & o2 & Hf)|(m & Hm & Hr)].
      * left. rewrite Hf. exists e, tr2, (bu2 ++ o2). reflexivity.
      * right. exists m. split; [exact Hm|]. rewrite Hr. reflexivity.
Qed.

(* ----- a replaying simulator that eventually differs by more than the tolerance ----- *)
Definition props_within (ps ps':props) : Prop :=
  Forall2 (fun x y => fst x = fst y /\ dv (fst x) (snd x) (snd y) = false) ps ps'.

Lemma props_within_check : forall ps ps' b rest, props_within ps ps' -> write_props ps = Some b ->
  check_props dv ps' (b ++ rest) = OK (Some rest).
Proof.
  intros ps ps' b rest Hw. revert b.
  induction Hw as [|[t e] [t' a] ps ps' [Ht Hd] _ IH]; intros b H; cbn [write_props check_props] in *.
  - inversion H; subst. reflexivity.
  - cbn in Ht, Hd. subst t'.
    destruct (write_value t e) as [x|] eqn:Ea; [|discriminate].
    destruct (write_props ps) as [b'|] eqn:Eb; [|discriminate]. inversion H; subst.
    rewrite <- app_assoc, (read_write_value _ _ _ _ Ea). cbn [bind]. rewrite Hd. apply IH. reflexivity.
Qed.

(* some property differs by more than the tolerance, all earlier ones of the object are within it *)
Inductive props_diverge : props -> props -> Prop :=
| PD_here t e a ps ps' : dv t e a = true -> props_diverge ((t, e) :: ps) ((t, a) :: ps')
| PD_later t e a ps ps' : dv t e a = false -> props_diverge ps ps' -> props_diverge ((t, e) :: ps) ((t, a) :: ps').

Lemma props_diverge_check : forall ps ps', props_diverge ps ps' -> forall b rest, write_props ps = Some b ->
  check_props dv ps' (b ++ rest) = OK None.
Proof.
  induction 1 as [t e a ps ps' Hd|t e a ps ps' Hd _ IH]; intros b rest H; cbn [write_props check_props] in *;
    (destruct (write_value t e) as [x|] eqn:Ea; [|discriminate]);
    (destruct (write_props ps) as [b'|] eqn:Eb; [|discriminate]); inversion H; subst;
    rewrite <- app_assoc, (read_write_value _ _ _ _ Ea); cbn [bind]; rewrite Hd.
  - reflexivity.
  - apply IH. reflexivity.
Qed.

Inductive diverges : prog -> prog -> Prop :=
| D_here ps ps' k k' : props_diverge ps ps' -> write_props ps <> Some [] -> write_props ps' <> None ->
                       diverges (PUpdate ps k) (PUpdate ps' k')
| D_upd ps ps' k k' : props_within ps ps' -> write_props ps' <> None -> diverges k k' ->
                      diverges (PUpdate ps k) (PUpdate ps' k')
| D_draw g root k k' : wf_dag g -> (forall b, diverges (k b) (k' b)) -> diverges (PDraw g root k) (PDraw g root k').

Lemma no_divergence_without_data : forall p p', diverges p p' -> forall chk cont w n tr,
  run dv true chk cont p None w n = R tr [] Completed -> nonempty_draws tr -> False.
Proof.
  induction 1 as [ps ps' k k' Hd Hne' Henc|ps ps' k k' Hw Henc Hk IH|g root k k' Hwf Hk IH]; intros chk cont w n tr H Hne.
  - cbn [run can_continue] in H. destruct (write_props ps) as [bu|] eqn:Eb; [|discriminate].
    apply prepend_inv in H as (o' & _ & Ho). symmetry in Ho. apply app_eq_nil in Ho as [-> _]. contradiction.
  - cbn [run can_continue] in H. destruct (write_props ps) as [bu|] eqn:Eb; [|discriminate].
    apply prepend_inv in H as (o' & Hsub & Ho). symmetry in Ho. apply app_eq_nil in Ho as [-> ->].
    eapply IH; eassumption.
  - cbn [run can_continue] in H. destruct (enc_sample g (w n) [root]) as [be|]; [|discriminate].
    apply cons_draw_inv in H as (tr' & o' & _ & -> & Ho). symmetry in Ho. apply app_eq_nil in Ho as [-> _].
    inversion Hne; subst. contradiction.
Qed.

Lemma divergence_detected : forall p p', diverges p p' -> forall cont1 w1 n1 tr b,
  run dv true false cont1 p None w1 n1 = R tr b Completed -> nonempty_draws tr ->
  forall wr2 w2 n2, exists tr' o', run dv wr2 true false p' (Some b) w2 n2 = R tr' o' Diverged.
Proof.
  induction 1 as [ps ps' k k' Hd Hne' Henc|ps ps' k k' Hw Henc Hk IH|g root k k' Hwf Hk IH]; intros cont1 w1 n1 tr b H Hne wr2 w2 n2.
  - cbn [run can_continue] in H. destruct (write_props ps) as [bu|] eqn:Eb; [|discriminate].
    apply prepend_inv in H as (o' & Hsub & ->).
    cbn [run]. destruct (write_props ps') as [x|] eqn:Ex; [|contradiction].
    replace (if wr2 then Some x else Some []) with (Some (if wr2 then x else [])) by (destruct wr2; reflexivity).
    rewrite can_continue_nonempty by (destruct bu; [contradiction|discriminate]).
    rewrite (props_diverge_check _ _ Hd _ o' Eb). eexists; eexists; reflexivity.
  - cbn [run can_continue] in H. destruct (write_props ps) as [bu|] eqn:Eb; [|discriminate].
    apply prepend_inv in H as (o' & Hsub & ->).
    cbn [run]. destruct (write_props ps') as [x|] eqn:Ex; [|contradiction].
    replace (if wr2 then Some x else Some []) with (Some (if wr2 then x else [])) by (destruct wr2; reflexivity).
    destruct (bu ++ o') as [|y s] eqn:Es.
    + apply app_eq_nil in Es as [-> ->]. exfalso. eapply no_divergence_without_data; eassumption.
    + cbn [can_continue]. rewrite <- Es. rewrite (props_within_check _ _ _ o' Hw Eb).
      destruct (IH _ _ _ _ _ Hsub Hne wr2 w2 n2) as (tr' & o2 & Hr). rewrite Hr. eexists; eexists; reflexivity.
  - cbn [run can_continue] in H. destruct (enc_sample g (w1 n1) [root]) as [be|] eqn:Ee; [|discriminate].
    apply cons_draw_inv in H as (tr' & o' & Hsub & -> & ->).
    inversion Hne as [|? ? Hbe Hne']; subst.
    cbn [run]. rewrite can_continue_nonempty by (destruct be; [contradiction|discriminate]).
    destruct (sample_roundtrip_reencode g (w1 n1) Hwf [root] be o' Ee) as (pe & Hd & Hre).
    rewrite Hd, Hre.
    destruct (IH be _ _ _ _ _ Hsub Hne' wr2 w2 n2) as (tr2 & o2 & Hr). rewrite Hr. eexists; eexists; reflexivity.
Qed.
End Prefix.

(* ---------- the whole simulate(replay=...) with its header ---------- *)
Lemma simulate_replaying dv wr2 cont2 p wr0 b w2 :
  simulate dv wr2 cont2 p (replay_header wr0 ++ b) w2 =
  prepend (replay_header wr2) (run dv wr2 wr0 cont2 p (Some b) w2 0).
Proof. destruct wr0; reflexivity. Qed.

Lemma header_truncated wr s : strict_prefix s (replay_header wr) -> s <> [] ->
  exists e, read_replay_header s = Err e.
Proof.
  intros (u & Hu & Heq) Hs. unfold replay_header in Heq.
  destruct s as [|a [|b [|c [|d [|e [|f s']]]]]]; cbn in Heq; inversion Heq; subst; try contradiction;
    try (destruct wr; eexists; reflexivity).
  symmetry in H6. apply app_eq_nil in H6 as [_ ->]. contradiction.
Qed.

Section Top.
Variable dv : vty -> val -> val -> bool.
Hypothesis dv_refl : forall t v, dv t v v = false.

Lemma eq_check : forall (ps ps':props) b rest, ps = ps' -> write_props ps = Some b ->
  check_props dv ps' (b ++ rest) = OK (Some rest).
Proof. intros ps ps' b rest <-. apply check_props_self. exact dv_refl. Qed.

(* a deterministic simulator fed the recorded stream makes the same draws, and re-records it *)
Theorem replay_reproduces : forall p wr cont1 w1 tr out, prog_wf p ->
  simulate dv wr cont1 p [] w1 = R tr out Completed -> nonempty_draws tr ->
  forall wr2 cont2 w2, exists out2,
    simulate dv wr2 cont2 p out w2 = R tr out2 Completed /\ (wr2 = wr -> out2 = out).
Proof.
  intros p wr cont1 w1 tr out Hwf H Hne wr2 cont2 w2.
  unfold simulate in H. apply prepend_inv in H as (b & Hrun & ->).
  rewrite simulate_replaying.
  destruct (replay_full_rel dv eq eq_check p p (within_refl p Hwf) _ _ _ _ _ _ Hrun Hne wr2 cont2 w2 0%nat) as (b2 & Hr & Hb).
  exists (replay_header wr2 ++ b2). rewrite Hr. split; [reflexivity|].
  intros ->. rewrite Hb; auto.
Qed.

(* a truncated replay is refused, or behaves exactly like a fresh simulation whose first m draws
   happened to be the recorded ones (it reproduces the recorded prefix, then continues freshly) *)
Theorem replay_prefix : forall p wr cont1 w1 tr out, prog_wf p ->
  simulate dv wr cont1 p [] w1 = R tr out Completed ->
  forall s t, out = s ++ t -> forall wr2 cont2 w2,
  (exists e tr' o', simulate dv wr2 cont2 p s w2 = R tr' o' (Failed e)) \/
  (exists m, simulate dv wr2 cont2 p s w2 = simulate dv wr2 cont2 p [] (splice m w1 w2)).
Proof.
  intros p wr cont1 w1 tr out Hwf H s t Hb wr2 cont2 w2.
  unfold simulate in H. apply prepend_inv in H as (b & Hrun & ->).
  destruct (prefix_cases _ _ _ _ Hb) as [(s' & -> & Ho)|Hp].
  - rewrite simulate_replaying.
    destruct (replay_prefix_gen dv dv_refl p Hwf _ _ _ _ _ _ Hrun s' t Ho wr2 cont2 w2) as [(e & tr2 & o2 & Hf)|(m & _ & Hr)].
    + left. rewrite Hf. exists e, tr2, (replay_header wr2 ++ o2). reflexivity.
    + right. exists m. rewrite Hr. reflexivity.
  - destruct s as [|y s0].
    + right. exists 0%nat. unfold simulate. f_equal. apply run_none_shift.
      intros i. unfold splice. cbn. rewrite Nat.sub_0_r. reflexivity.
    + destruct (header_truncated wr _ Hp) as [e He]; [discriminate|].
      left. unfold simulate. rewrite He. exists e, [], []. reflexivity.
Qed.

(* a replaying simulator whose dynamic properties stay within the tolerance reproduces the draws *)
Theorem replay_within_tolerance : forall p p', within (props_within dv) p p' ->
  forall wr cont1 w1 tr out,
  simulate dv wr cont1 p [] w1 = R tr out Completed -> nonempty_draws tr ->
  forall wr2 cont2 w2, exists out2, simulate dv wr2 cont2 p' out w2 = R tr out2 Completed.
Proof.
  intros p p' Hw wr cont1 w1 tr out H Hne wr2 cont2 w2.
  unfold simulate in H. apply prepend_inv in H as (b & Hrun & ->).
  rewrite simulate_replaying.
  destruct (replay_full_rel dv (props_within dv) (props_within_check dv) p p' Hw _ _ _ _ _ _ Hrun Hne wr2 cont2 w2 0%nat) as (b2 & Hr & _).
  exists (replay_header wr2 ++ b2). rewrite Hr. reflexivity.
Qed.

(* ... and one that leaves the tolerance (in either direction: dv is symmetric in nothing) is reported *)
Theorem replay_divergence_detected : forall p p', diverges dv p p' ->
  forall cont1 w1 tr out,
  simulate dv true cont1 p [] w1 = R tr out Completed -> nonempty_draws tr ->
  forall wr2 w2, exists tr' o', simulate dv wr2 false p' out w2 = R tr' o' Diverged.
Proof.
  intros p p' Hd cont1 w1 tr out H Hne wr2 w2.
  unfold simulate in H. apply prepend_inv in H as (b & Hrun & ->).
  rewrite simulate_replaying.
  destruct (divergence_detected dv p p' Hd _ _ _ _ _ Hrun Hne wr2 w2 0%nat) as (tr' & o' & Hr).
  rewrite Hr. eexists; eexists; reflexivity.
Qed.
End Top.

(* ---------- the concrete divergence predicate ---------- *)
Lemma bytes_eq_refl p : bytes_eq p p = true.
Proof. induction p as [|x p IH]; [reflexivity|]. cbn. now rewrite Z.eqb_refl, IH. Qed.
Lemma val_eqb_refl v : val_eqb v v = true.
Proof. destruct v; cbn; auto using Z.eqb_refl, bytes_eq_refl, Bool.eqb_reflx. Qed.
Lemma diverged_val_refl tol t v : diverged_val tol t v v = false.
Proof. unfold diverged_val. now rewrite val_eqb_refl. Qed.

(* integer-valued dynamic properties, tolerance k: reported iff |a - e| > k (k >= 0), either sign *)
Lemma diverged_val_int k e a : 0 <= k ->
  diverged_val (k, 0) TInt (VInt e) (VInt a) = true <-> k < Z.abs (a - e).
Proof.
  intros Hk. unfold diverged_val, val_eqb, scalar_diverged, dy_abs, dy_sub, dy_ltb, dy_align. cbn.
  try rewrite !Z.mul_1_r.
  destruct (Z.eqb_spec e a) as [->|Hne].
  - rewrite Z.sub_diag. cbn. split; [discriminate|lia].
  - destruct (Z.eqb_spec (Z.abs (a - e)) 0) as [H0|H0]; [lia|].
    apply Z.ltb_lt.
Qed.

(* ---------- the pre-fix recording (one memo for all run-time draws) loses shared dependencies ---------- *)
Definition sh_dag : dag := [NPrim TFloat; NDet [0%nat] [0%nat]; NDet [0%nat] [0%nat]].
Definition sh_pv (_:nat) : val := VFix [0; 0; 0; 0; 0; 0; 240; 63].
Lemma sh_dag_wf : wf_dag sh_dag.
Proof.
  split.
  - intros i n H d Hd. unfold sh_dag in H.
    do 3 (destruct i as [|i]; [cbn in H; inversion H; subst; cbn in Hd; intuition lia|]).
    destruct i; discriminate.
  - intros i es ds H. unfold sh_dag in H.
    do 3 (destruct i as [|i]; [cbn in H; inversion H; subst; reflexivity|]).
    destruct i; discriminate.
Qed.

Theorem shared_memo_refuted : exists g pv r1 r2 b,
  wf_dag g /\ record_two_shared_memo g pv pv r1 r2 = Some b /\
  exists pe rest, dec_sample g [r1] b = OK (pe, rest) /\ dec_sample g [r2] rest = Err ETrunc.
Proof.
  exists sh_dag, sh_pv, 1%nat, 2%nat, [0; 0; 0; 0; 0; 0; 240; 63].
  split; [exact sh_dag_wf|]. split; [vm_compute; reflexivity|].
  eexists; eexists. split; vm_compute; reflexivity.
Qed.

Theorem rerecord_identical dv (dv_refl : forall t v, dv t v v = false) :
  forall p wr cont1 w1 tr out, prog_wf p ->
  simulate dv wr cont1 p [] w1 = R tr out Completed -> nonempty_draws tr ->
  forall cont2 w2, simulate dv wr cont2 p out w2 = R tr out Completed.
Proof.
  intros p wr cont1 w1 tr out Hwf H Hne cont2 w2.
  destruct (replay_reproduces dv dv_refl p wr cont1 w1 tr out Hwf H Hne wr cont2 w2) as (o2 & H1 & H2).
  rewrite H1, (H2 eq_refl). reflexivity.
Qed.
