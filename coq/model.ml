
(** val negb : bool -> bool **)

let negb = function
| true -> false
| false -> true

type nat =
| O
| S of nat

(** val length : 'a1 list -> nat **)

let rec length = function
| [] -> O
| _ :: l' -> S (length l')

(** val app : 'a1 list -> 'a1 list -> 'a1 list **)

let rec app l m =
  match l with
  | [] -> m
  | a :: l1 -> a :: (app l1 m)

type comparison =
| Eq
| Lt
| Gt

(** val compOpp : comparison -> comparison **)

let compOpp = function
| Eq -> Eq
| Lt -> Gt
| Gt -> Lt

module Coq__1 = struct
 (** val add : nat -> nat -> nat **)
 let rec add n m =
   match n with
   | O -> m
   | S p -> S (add p m)
end
include Coq__1

type positive =
| XI of positive
| XO of positive
| XH

type z =
| Z0
| Zpos of positive
| Zneg of positive

module Nat =
 struct
  (** val eqb : nat -> nat -> bool **)

  let rec eqb n m =
    match n with
    | O -> (match m with
            | O -> true
            | S _ -> false)
    | S n' -> (match m with
               | O -> false
               | S m' -> eqb n' m')
 end

module Pos =
 struct
  (** val succ : positive -> positive **)

  let rec succ = function
  | XI p -> XO (succ p)
  | XO p -> XI p
  | XH -> XO XH

  (** val add : positive -> positive -> positive **)

  let rec add x y =
    match x with
    | XI p ->
      (match y with
       | XI q -> XO (add_carry p q)
       | XO q -> XI (add p q)
       | XH -> XO (succ p))
    | XO p ->
      (match y with
       | XI q -> XI (add p q)
       | XO q -> XO (add p q)
       | XH -> XI p)
    | XH -> (match y with
             | XI q -> XO (succ q)
             | XO q -> XI q
             | XH -> XO XH)

  (** val add_carry : positive -> positive -> positive **)

  and add_carry x y =
    match x with
    | XI p ->
      (match y with
       | XI q -> XI (add_carry p q)
       | XO q -> XO (add_carry p q)
       | XH -> XI (succ p))
    | XO p ->
      (match y with
       | XI q -> XO (add_carry p q)
       | XO q -> XI (add p q)
       | XH -> XO (succ p))
    | XH ->
      (match y with
       | XI q -> XI (succ q)
       | XO q -> XO (succ q)
       | XH -> XI XH)

  (** val pred_double : positive -> positive **)

  let rec pred_double = function
  | XI p -> XI (XO p)
  | XO p -> XI (pred_double p)
  | XH -> XH

  (** val mul : positive -> positive -> positive **)

  let rec mul x y =
    match x with
    | XI p -> add y (XO (mul p y))
    | XO p -> XO (mul p y)
    | XH -> y

  (** val iter : ('a1 -> 'a1) -> 'a1 -> positive -> 'a1 **)

  let rec iter f x = function
  | XI n' -> f (iter f (iter f x n') n')
  | XO n' -> iter f (iter f x n') n'
  | XH -> f x

  (** val size : positive -> positive **)

  let rec size = function
  | XI p0 -> succ (size p0)
  | XO p0 -> succ (size p0)
  | XH -> XH

  (** val compare_cont : comparison -> positive -> positive -> comparison **)

  let rec compare_cont r x y =
    match x with
    | XI p ->
      (match y with
       | XI q -> compare_cont r p q
       | XO q -> compare_cont Gt p q
       | XH -> Gt)
    | XO p ->
      (match y with
       | XI q -> compare_cont Lt p q
       | XO q -> compare_cont r p q
       | XH -> Gt)
    | XH -> (match y with
             | XH -> r
             | _ -> Lt)

  (** val compare : positive -> positive -> comparison **)

  let compare =
    compare_cont Eq

  (** val eqb : positive -> positive -> bool **)

  let rec eqb p q =
    match p with
    | XI p0 -> (match q with
                | XI q0 -> eqb p0 q0
                | _ -> false)
    | XO p0 -> (match q with
                | XO q0 -> eqb p0 q0
                | _ -> false)
    | XH -> (match q with
             | XH -> true
             | _ -> false)

  (** val iter_op : ('a1 -> 'a1 -> 'a1) -> positive -> 'a1 -> 'a1 **)

  let rec iter_op op p a =
    match p with
    | XI p0 -> op a (iter_op op p0 (op a a))
    | XO p0 -> iter_op op p0 (op a a)
    | XH -> a

  (** val to_nat : positive -> nat **)

  let to_nat x =
    iter_op Coq__1.add x (S O)

  (** val of_succ_nat : nat -> positive **)

  let rec of_succ_nat = function
  | O -> XH
  | S x -> succ (of_succ_nat x)
 end

module Z =
 struct
  (** val double : z -> z **)

  let double = function
  | Z0 -> Z0
  | Zpos p -> Zpos (XO p)
  | Zneg p -> Zneg (XO p)

  (** val succ_double : z -> z **)

  let succ_double = function
  | Z0 -> Zpos XH
  | Zpos p -> Zpos (XI p)
  | Zneg p -> Zneg (Pos.pred_double p)

  (** val pred_double : z -> z **)

  let pred_double = function
  | Z0 -> Zneg XH
  | Zpos p -> Zpos (Pos.pred_double p)
  | Zneg p -> Zneg (XI p)

  (** val pos_sub : positive -> positive -> z **)

  let rec pos_sub x y =
    match x with
    | XI p ->
      (match y with
       | XI q -> double (pos_sub p q)
       | XO q -> succ_double (pos_sub p q)
       | XH -> Zpos (XO p))
    | XO p ->
      (match y with
       | XI q -> pred_double (pos_sub p q)
       | XO q -> double (pos_sub p q)
       | XH -> Zpos (Pos.pred_double p))
    | XH ->
      (match y with
       | XI q -> Zneg (XO q)
       | XO q -> Zneg (Pos.pred_double q)
       | XH -> Z0)

  (** val add : z -> z -> z **)

  let add x y =
    match x with
    | Z0 -> y
    | Zpos x' ->
      (match y with
       | Z0 -> x
       | Zpos y' -> Zpos (Pos.add x' y')
       | Zneg y' -> pos_sub x' y')
    | Zneg x' ->
      (match y with
       | Z0 -> x
       | Zpos y' -> pos_sub y' x'
       | Zneg y' -> Zneg (Pos.add x' y'))

  (** val opp : z -> z **)

  let opp = function
  | Z0 -> Z0
  | Zpos x0 -> Zneg x0
  | Zneg x0 -> Zpos x0

  (** val sub : z -> z -> z **)

  let sub m n =
    add m (opp n)

  (** val mul : z -> z -> z **)

  let mul x y =
    match x with
    | Z0 -> Z0
    | Zpos x' ->
      (match y with
       | Z0 -> Z0
       | Zpos y' -> Zpos (Pos.mul x' y')
       | Zneg y' -> Zneg (Pos.mul x' y'))
    | Zneg x' ->
      (match y with
       | Z0 -> Z0
       | Zpos y' -> Zneg (Pos.mul x' y')
       | Zneg y' -> Zpos (Pos.mul x' y'))

  (** val pow_pos : z -> positive -> z **)

  let pow_pos z0 =
    Pos.iter (mul z0) (Zpos XH)

  (** val pow : z -> z -> z **)

  let pow x = function
  | Z0 -> Zpos XH
  | Zpos p -> pow_pos x p
  | Zneg _ -> Z0

  (** val compare : z -> z -> comparison **)

  let compare x y =
    match x with
    | Z0 -> (match y with
             | Z0 -> Eq
             | Zpos _ -> Lt
             | Zneg _ -> Gt)
    | Zpos x' -> (match y with
                  | Zpos y' -> Pos.compare x' y'
                  | _ -> Gt)
    | Zneg x' ->
      (match y with
       | Zneg y' -> compOpp (Pos.compare x' y')
       | _ -> Lt)

  (** val leb : z -> z -> bool **)

  let leb x y =
    match compare x y with
    | Gt -> false
    | _ -> true

  (** val ltb : z -> z -> bool **)

  let ltb x y =
    match compare x y with
    | Lt -> true
    | _ -> false

  (** val eqb : z -> z -> bool **)

  let eqb x y =
    match x with
    | Z0 -> (match y with
             | Z0 -> true
             | _ -> false)
    | Zpos p -> (match y with
                 | Zpos q -> Pos.eqb p q
                 | _ -> false)
    | Zneg p -> (match y with
                 | Zneg q -> Pos.eqb p q
                 | _ -> false)

  (** val max : z -> z -> z **)

  let max n m =
    match compare n m with
    | Lt -> m
    | _ -> n

  (** val abs : z -> z **)

  let abs = function
  | Zneg p -> Zpos p
  | x -> x

  (** val to_nat : z -> nat **)

  let to_nat = function
  | Zpos p -> Pos.to_nat p
  | _ -> O

  (** val of_nat : nat -> z **)

  let of_nat = function
  | O -> Z0
  | S n0 -> Zpos (Pos.of_succ_nat n0)

  (** val pos_div_eucl : positive -> z -> z * z **)

  let rec pos_div_eucl a b =
    match a with
    | XI a' ->
      let (q, r) = pos_div_eucl a' b in
      let r' = add (mul (Zpos (XO XH)) r) (Zpos XH) in
      if ltb r' b
      then ((mul (Zpos (XO XH)) q), r')
      else ((add (mul (Zpos (XO XH)) q) (Zpos XH)), (sub r' b))
    | XO a' ->
      let (q, r) = pos_div_eucl a' b in
      let r' = mul (Zpos (XO XH)) r in
      if ltb r' b
      then ((mul (Zpos (XO XH)) q), r')
      else ((add (mul (Zpos (XO XH)) q) (Zpos XH)), (sub r' b))
    | XH -> if leb (Zpos (XO XH)) b then (Z0, (Zpos XH)) else ((Zpos XH), Z0)

  (** val div_eucl : z -> z -> z * z **)

  let div_eucl a b =
    match a with
    | Z0 -> (Z0, Z0)
    | Zpos a' ->
      (match b with
       | Z0 -> (Z0, a)
       | Zpos _ -> pos_div_eucl a' b
       | Zneg b' ->
         let (q, r) = pos_div_eucl a' (Zpos b') in
         (match r with
          | Z0 -> ((opp q), Z0)
          | _ -> ((opp (add q (Zpos XH))), (add b r))))
    | Zneg a' ->
      (match b with
       | Z0 -> (Z0, a)
       | Zpos _ ->
         let (q, r) = pos_div_eucl a' b in
         (match r with
          | Z0 -> ((opp q), Z0)
          | _ -> ((opp (add q (Zpos XH))), (sub b r)))
       | Zneg b' -> let (q, r) = pos_div_eucl a' (Zpos b') in (q, (opp r)))

  (** val div : z -> z -> z **)

  let div a b =
    let (q, _) = div_eucl a b in q

  (** val modulo : z -> z -> z **)

  let modulo a b =
    let (_, r) = div_eucl a b in r

  (** val log2 : z -> z **)

  let log2 = function
  | Zpos p0 ->
    (match p0 with
     | XI p -> Zpos (Pos.size p)
     | XO p -> Zpos (Pos.size p)
     | XH -> Z0)
  | _ -> Z0
 end

(** val nth_error : 'a1 list -> nat -> 'a1 option **)

let rec nth_error l = function
| O -> (match l with
        | [] -> None
        | x :: _ -> Some x)
| S n0 -> (match l with
           | [] -> None
           | _ :: l0 -> nth_error l0 n0)

(** val fold_left : ('a1 -> 'a2 -> 'a1) -> 'a2 list -> 'a1 -> 'a1 **)

let rec fold_left f l a0 =
  match l with
  | [] -> a0
  | b :: t -> fold_left f t (f a0 b)

(** val existsb : ('a1 -> bool) -> 'a1 list -> bool **)

let rec existsb f = function
| [] -> false
| a :: l0 -> (||) (f a) (existsb f l0)

(** val forallb : ('a1 -> bool) -> 'a1 list -> bool **)

let rec forallb f = function
| [] -> true
| a :: l0 -> (&&) (f a) (forallb f l0)

(** val combine : 'a1 list -> 'a2 list -> ('a1 * 'a2) list **)

let rec combine l l' =
  match l with
  | [] -> []
  | x :: tl ->
    (match l' with
     | [] -> []
     | y :: tl' -> (x, y) :: (combine tl tl'))

type byte = z

type bytes = byte list

type err =
| ETrunc
| EBadIndex
| EBadHeader
| EUnsupported
| EFuel

type 'a res =
| OK of 'a
| Err of err

(** val bind : 'a1 res -> ('a1 -> 'a2 res) -> 'a2 res **)

let bind r f =
  match r with
  | OK a -> f a
  | Err e -> Err e

(** val take_exact : nat -> bytes -> (bytes * bytes) res **)

let rec take_exact n s =
  match n with
  | O -> OK ([], s)
  | S n' ->
    (match s with
     | [] -> Err ETrunc
     | b :: s' ->
       bind (take_exact n' s') (fun p -> let (h, t) = p in OK ((b :: h), t)))

(** val le_encode : nat -> z -> bytes **)

let rec le_encode n v =
  match n with
  | O -> []
  | S n' ->
    (Z.modulo v (Zpos (XO (XO (XO (XO (XO (XO (XO (XO XH)))))))))) :: 
      (le_encode n'
        (Z.div v (Zpos (XO (XO (XO (XO (XO (XO (XO (XO XH)))))))))))

(** val le_decode : bytes -> z **)

let rec le_decode = function
| [] -> Z0
| b :: t ->
  Z.add b
    (Z.mul (Zpos (XO (XO (XO (XO (XO (XO (XO (XO XH))))))))) (le_decode t))

(** val pow256 : nat -> z **)

let pow256 n =
  Z.pow (Zpos (XO XH)) (Z.mul (Zpos (XO (XO (XO XH)))) (Z.of_nat n))

(** val to_signed : nat -> z -> bytes **)

let to_signed n v =
  le_encode n (Z.modulo v (pow256 n))

(** val from_signed : bytes -> z **)

let from_signed bs =
  let u = le_decode bs in
  let n = length bs in
  if Nat.eqb n O
  then Z0
  else if Z.ltb u (Z.div (pow256 n) (Zpos (XO XH)))
       then u
       else Z.sub u (pow256 n)

(** val bit_length : z -> z **)

let bit_length z0 =
  let a = Z.abs z0 in if Z.eqb a Z0 then Z0 else Z.add (Z.log2 a) (Zpos XH)

(** val write_int : z -> bytes option **)

let write_int z0 =
  if (&&) (Z.leb Z0 z0)
       (Z.leb z0 (Zpos (XO (XO (XI (XI (XI (XI (XI XH)))))))))
  then Some (z0 :: [])
  else if (&&)
            (Z.leb (Zneg (XO (XO (XO (XO (XO (XO (XO (XO (XO (XO (XO (XO (XO
              (XO (XO XH)))))))))))))))) z0)
            (Z.leb z0 (Zpos (XI (XI (XI (XI (XI (XI (XI (XI (XI (XI (XI (XI
              (XI (XI XH))))))))))))))))
       then Some ((Zpos (XI (XO (XI (XI (XI (XI (XI
              XH)))))))) :: (to_signed (S (S O)) z0))
       else if (&&)
                 (Z.leb (Zneg (XO (XO (XO (XO (XO (XO (XO (XO (XO (XO (XO (XO
                   (XO (XO (XO (XO (XO (XO (XO (XO (XO (XO (XO (XO (XO (XO
                   (XO (XO (XO (XO (XO XH)))))))))))))))))))))))))))))))) z0)
                 (Z.leb z0 (Zpos (XI (XI (XI (XI (XI (XI (XI (XI (XI (XI (XI
                   (XI (XI (XI (XI (XI (XI (XI (XI (XI (XI (XI (XI (XI (XI
                   (XI (XI (XI (XI (XI XH))))))))))))))))))))))))))))))))
            then Some ((Zpos (XO (XI (XI (XI (XI (XI (XI
                   XH)))))))) :: (to_signed (S (S (S (S O)))) z0))
            else let len =
                   Z.max (Zpos XH)
                     (Z.div
                       (Z.add (Z.add (bit_length z0) (Zpos XH)) (Zpos (XI (XI
                         XH)))) (Zpos (XO (XO (XO XH)))))
                 in
                 if Z.leb (Zpos (XO (XO (XO (XO (XO (XO (XO (XO XH)))))))))
                      len
                 then None
                 else Some ((Zpos (XI (XI (XI (XI (XI (XI (XI
                        XH)))))))) :: (len :: (to_signed (Z.to_nat len) z0)))

(** val read_int : bytes -> (z * bytes) res **)

let read_int = function
| [] -> Err ETrunc
| first :: s1 ->
  if Z.leb first (Zpos (XO (XO (XI (XI (XI (XI (XI XH))))))))
  then OK (first, s1)
  else if Z.eqb first (Zpos (XI (XO (XI (XI (XI (XI (XI XH))))))))
       then bind (take_exact (S (S O)) s1) (fun p0 ->
              let (p, r) = p0 in OK ((from_signed p), r))
       else if Z.eqb first (Zpos (XO (XI (XI (XI (XI (XI (XI XH))))))))
            then bind (take_exact (S (S (S (S O)))) s1) (fun p0 ->
                   let (p, r) = p0 in OK ((from_signed p), r))
            else (match s1 with
                  | [] -> Err ETrunc
                  | len :: s2 ->
                    bind (take_exact (Z.to_nat len) s2) (fun p0 ->
                      let (p, r) = p0 in OK ((from_signed p), r)))

(** val write_bool : bool -> bytes **)

let write_bool b =
  (if b then Zpos XH else Z0) :: []

(** val read_bool : bytes -> (bool * bytes) res **)

let read_bool s =
  bind (read_int s) (fun p -> let (z0, r) = p in OK ((negb (Z.eqb z0 Z0)), r))

(** val write_bytes : bytes -> bytes option **)

let write_bytes bs =
  match write_int (Z.of_nat (length bs)) with
  | Some h -> Some (app h bs)
  | None -> None

(** val read_bytes : bytes -> (bytes * bytes) res **)

let read_bytes s =
  bind (read_int s) (fun p ->
    let (n, r) = p in
    if Z.ltb n Z0
    then Err ETrunc
    else if Z.ltb (Z.of_nat (length r)) n
         then Err ETrunc
         else take_exact (Z.to_nat n) r)

type vty =
| TInt
| TBool
| TFloat
| TVec
| TOri
| TStr
| TBytes
| TNone

type val0 =
| VInt of z
| VBool of bool
| VFix of bytes
| VBlob of bytes
| VNone

(** val fixed_width : vty -> nat **)

let fixed_width = function
| TFloat -> S (S (S (S (S (S (S (S O)))))))
| TVec ->
  S (S (S (S (S (S (S (S (S (S (S (S (S (S (S (S (S (S (S (S (S (S (S (S
    O)))))))))))))))))))))))
| TOri ->
  S (S (S (S (S (S (S (S (S (S (S (S (S (S (S (S (S (S (S (S (S (S (S (S (S
    (S (S (S (S (S (S (S O)))))))))))))))))))))))))))))))
| _ -> O

(** val write_value : vty -> val0 -> bytes option **)

let write_value t v =
  match t with
  | TInt -> (match v with
             | VInt z0 -> write_int z0
             | _ -> None)
  | TBool -> (match v with
              | VBool b -> Some (write_bool b)
              | _ -> None)
  | TStr -> (match v with
             | VBlob p -> write_bytes p
             | _ -> None)
  | TBytes -> (match v with
               | VBlob p -> write_bytes p
               | _ -> None)
  | TNone -> (match v with
              | VNone -> Some []
              | _ -> None)
  | _ ->
    (match v with
     | VFix p -> if Nat.eqb (length p) (fixed_width t) then Some p else None
     | _ -> None)

(** val read_value : vty -> bytes -> (val0 * bytes) res **)

let read_value t s =
  match t with
  | TInt -> bind (read_int s) (fun p -> let (z0, r) = p in OK ((VInt z0), r))
  | TBool -> bind (read_bool s) (fun p -> let (b, r) = p in OK ((VBool b), r))
  | TFloat ->
    bind (take_exact (fixed_width t) s) (fun p0 ->
      let (p, r) = p0 in OK ((VFix p), r))
  | TVec ->
    bind (take_exact (fixed_width t) s) (fun p0 ->
      let (p, r) = p0 in OK ((VFix p), r))
  | TOri ->
    bind (take_exact (fixed_width t) s) (fun p0 ->
      let (p, r) = p0 in OK ((VFix p), r))
  | TStr ->
    bind (read_bytes s) (fun p0 -> let (p, r) = p0 in OK ((VBlob p), r))
  | TBytes ->
    bind (read_bytes s) (fun p0 -> let (p, r) = p0 in OK ((VBlob p), r))
  | TNone -> OK (VNone, s)

type node =
| NFixed
| NPrim of vty
| NDet of nat list
| NMux of nat * nat list

type dag = node list

type seen = nat list

(** val mem : nat -> seen -> bool **)

let mem i s =
  existsb (Nat.eqb i) s

(** val ival : dag -> (nat -> val0) -> nat -> z option **)

let ival g pval ix =
  match nth_error g ix with
  | Some n ->
    (match n with
     | NPrim t ->
       (match t with
        | TInt -> (match pval ix with
                   | VInt k -> Some k
                   | _ -> None)
        | _ -> None)
     | _ -> None)
  | None -> None

(** val needs_sampling : dag -> nat -> bool **)

let needs_sampling g i =
  match nth_error g i with
  | Some n -> (match n with
               | NFixed -> false
               | _ -> true)
  | None -> false

(** val py_index : z -> nat -> nat option **)

let py_index k n =
  let k' = if Z.ltb k Z0 then Z.add k (Z.of_nat n) else k in
  if (&&) (Z.leb Z0 k') (Z.ltb k' (Z.of_nat n))
  then Some (Z.to_nat k')
  else None

(** val enc_node :
    dag -> (nat -> val0) -> nat -> nat -> seen -> (bytes * seen) option **)

let rec enc_node g pval fuel i sn =
  match fuel with
  | O -> None
  | S fuel' ->
    if negb (needs_sampling g i)
    then Some ([], sn)
    else if mem i sn
         then Some ([], sn)
         else let sn0 = i :: sn in
              (match nth_error g i with
               | Some n ->
                 (match n with
                  | NFixed -> None
                  | NPrim t ->
                    (match write_value t (pval i) with
                     | Some b -> Some (b, sn0)
                     | None -> None)
                  | NDet ds ->
                    fold_left (fun acc d ->
                      match acc with
                      | Some y ->
                        let (b, s) = y in
                        (match enc_node g pval fuel' d s with
                         | Some p -> let (b', s') = p in Some ((app b b'), s')
                         | None -> None)
                      | None -> None) ds (Some ([], sn0))
                  | NMux (ix, os) ->
                    (match enc_node g pval fuel' ix sn0 with
                     | Some p ->
                       let (b1, s1) = p in
                       (match ival g pval ix with
                        | Some k ->
                          (match py_index k (length os) with
                           | Some j ->
                             (match nth_error os j with
                              | Some c ->
                                (match enc_node g pval fuel' c s1 with
                                 | Some p0 ->
                                   let (b2, s2) = p0 in Some ((app b1 b2), s2)
                                 | None -> None)
                              | None -> None)
                           | None -> None)
                        | None -> None)
                     | None -> None))
               | None -> None)

(** val enc_sample : dag -> (nat -> val0) -> nat list -> bytes option **)

let enc_sample g pval deps =
  match fold_left (fun acc d ->
          match acc with
          | Some y ->
            let (b, s) = y in
            (match enc_node g pval (S (length g)) d s with
             | Some p -> let (b', s') = p in Some ((app b b'), s')
             | None -> None)
          | None -> None) deps (Some ([], [])) with
  | Some p -> let (b, _) = p in Some b
  | None -> None

type penv = (nat * val0) list

(** val plook : nat -> penv -> val0 option **)

let rec plook i = function
| [] -> None
| p :: t -> let (j, v) = p in if Nat.eqb i j then Some v else plook i t

(** val ieval : dag -> penv -> nat -> z option **)

let ieval g pe ix =
  match nth_error g ix with
  | Some n ->
    (match n with
     | NPrim t ->
       (match t with
        | TInt ->
          (match plook ix pe with
           | Some v -> (match v with
                        | VInt k -> Some k
                        | _ -> None)
           | None -> None)
        | _ -> None)
     | _ -> None)
  | None -> None

(** val dec_node :
    dag -> nat -> nat -> ((seen * penv) * bytes) -> ((seen * penv) * bytes)
    res **)

let rec dec_node g fuel i st =
  match fuel with
  | O -> Err EFuel
  | S fuel' ->
    let (p, s) = st in
    let (sn, pe) = p in
    if negb (needs_sampling g i)
    then OK st
    else if mem i sn
         then OK st
         else (match nth_error g i with
               | Some n ->
                 (match n with
                  | NFixed -> Err EUnsupported
                  | NPrim t ->
                    bind (read_value t s) (fun p0 ->
                      let (v, r) = p0 in OK (((i :: sn), ((i, v) :: pe)), r))
                  | NDet ds ->
                    bind
                      (fold_left (fun acc d ->
                        bind acc (fun a -> dec_node g fuel' d a)) ds (OK
                        ((sn, pe), s))) (fun st' ->
                      let (p0, s') = st' in
                      let (sn', pe') = p0 in OK (((i :: sn'), pe'), s'))
                  | NMux (ix, os) ->
                    bind (dec_node g fuel' ix ((sn, pe), s)) (fun st1 ->
                      let (p0, s1) = st1 in
                      let (sn1, pe1) = p0 in
                      (match ieval g pe1 ix with
                       | Some k ->
                         (match py_index k (length os) with
                          | Some j ->
                            (match nth_error os j with
                             | Some c ->
                               bind (dec_node g fuel' c ((sn1, pe1), s1))
                                 (fun st2 ->
                                 let (p1, s2) = st2 in
                                 let (sn2, pe2) = p1 in
                                 OK (((i :: sn2), pe2), s2))
                             | None -> Err EBadIndex)
                          | None -> Err EBadIndex)
                       | None -> Err EUnsupported)))
               | None -> Err EUnsupported)

(** val dec_sample : dag -> nat list -> bytes -> (penv * bytes) res **)

let dec_sample g deps s =
  bind
    (fold_left (fun acc d ->
      bind acc (fun a -> dec_node g (S (length g)) d a)) deps (OK (([], []),
      s))) (fun st -> let (p, r) = st in let (_, pe) = p in OK (pe, r))

type header = { h_version : z; h_ast : bytes; h_opts : bytes }

(** val write_header : header -> bytes **)

let write_header h =
  app (to_signed (S (S O)) h.h_version) (app h.h_ast h.h_opts)

(** val bytes_eqb : bytes -> bytes -> bool **)

let bytes_eqb a b =
  (&&) (Nat.eqb (length a) (length b))
    (forallb (fun pat -> let (x, y) = pat in Z.eqb x y) (combine a b))

(** val read_header : header -> bytes -> bytes res **)

let read_header expected s =
  bind (take_exact (S (S O)) s) (fun p ->
    let (v, r) = p in
    if negb (Z.eqb (le_decode v) expected.h_version)
    then Err EBadHeader
    else (match take_exact (S (S (S (S O)))) r with
          | OK a0 ->
            let (a, r1) = a0 in
            if negb (bytes_eqb a expected.h_ast)
            then Err EBadHeader
            else (match take_exact (S (S (S (S O)))) r1 with
                  | OK a1 ->
                    let (o, r2) = a1 in
                    if negb (bytes_eqb o expected.h_opts)
                    then Err EBadHeader
                    else OK r2
                  | Err _ -> Err EBadHeader)
          | Err _ -> Err EBadHeader))

(** val values_have_diverged : z -> z -> z -> bool **)

let values_have_diverged expected actual tol =
  let diff = Z.abs (Z.sub actual expected) in
  if Z.eqb diff Z0 then negb (Z.eqb actual expected) else Z.ltb tol diff
