
(** val negb : bool -> bool **)

let negb = function
| true -> false
| false -> true

type nat =
| O
| S of nat

(** val fst : ('a1 * 'a2) -> 'a1 **)

let fst = function
| (x, _) -> x

(** val snd : ('a1 * 'a2) -> 'a2 **)

let snd = function
| (_, y) -> y

(** val app : 'a1 list -> 'a1 list -> 'a1 list **)

let rec app l m =
  match l with
  | [] -> m
  | a :: l1 -> a :: (app l1 m)

type comparison =
| Eq
| Lt
| Gt

(** val compOpp : comparison -> comparison **)

let compOpp = function
| Eq -> Eq
| Lt -> Gt
| Gt -> Lt

module Coq__1 = struct
 (** val add : nat -> nat -> nat **)
 let rec add n m =
   match n with
   | O -> m
   | S p -> S (add p m)
end
include Coq__1

type positive =
| XI of positive
| XO of positive
| XH

type z =
| Z0
| Zpos of positive
| Zneg of positive

(** val gmax : ('a1 -> 'a1 -> comparison) -> 'a1 -> 'a1 -> 'a1 **)

let gmax cmp x y =
  match cmp x y with
  | Lt -> y
  | _ -> x

(** val gmin : ('a1 -> 'a1 -> comparison) -> 'a1 -> 'a1 -> 'a1 **)

let gmin cmp x y =
  match cmp x y with
  | Gt -> y
  | _ -> x

module Nat =
 struct
  (** val eqb : nat -> nat -> bool **)

  let rec eqb n m =
    match n with
    | O -> (match m with
            | O -> true
            | S _ -> false)
    | S n' -> (match m with
               | O -> false
               | S m' -> eqb n' m')
 end

module Pos =
 struct
  type mask =
  | IsNul
  | IsPos of positive
  | IsNeg
 end

module Coq_Pos =
 struct
  (** val succ : positive -> positive **)

  let rec succ = function
  | XI p -> XO (succ p)
  | XO p -> XI p
  | XH -> XO XH

  (** val add : positive -> positive -> positive **)

  let rec add x y =
    match x with
    | XI p ->
      (match y with
       | XI q0 -> XO (add_carry p q0)
       | XO q0 -> XI (add p q0)
       | XH -> XO (succ p))
    | XO p ->
      (match y with
       | XI q0 -> XI (add p q0)
       | XO q0 -> XO (add p q0)
       | XH -> XI p)
    | XH -> (match y with
             | XI q0 -> XO (succ q0)
             | XO q0 -> XI q0
             | XH -> XO XH)

  (** val add_carry : positive -> positive -> positive **)

  and add_carry x y =
    match x with
    | XI p ->
      (match y with
       | XI q0 -> XI (add_carry p q0)
       | XO q0 -> XO (add_carry p q0)
       | XH -> XI (succ p))
    | XO p ->
      (match y with
       | XI q0 -> XO (add_carry p q0)
       | XO q0 -> XI (add p q0)
       | XH -> XO (succ p))
    | XH ->
      (match y with
       | XI q0 -> XI (succ q0)
       | XO q0 -> XO (succ q0)
       | XH -> XI XH)

  (** val pred_double : positive -> positive **)

  let rec pred_double = function
  | XI p -> XI (XO p)
  | XO p -> XI (pred_double p)
  | XH -> XH

  type mask = Pos.mask =
  | IsNul
  | IsPos of positive
  | IsNeg

  (** val succ_double_mask : mask -> mask **)

  let succ_double_mask = function
  | IsNul -> IsPos XH
  | IsPos p -> IsPos (XI p)
  | IsNeg -> IsNeg

  (** val double_mask : mask -> mask **)

  let double_mask = function
  | IsPos p -> IsPos (XO p)
  | x0 -> x0

  (** val double_pred_mask : positive -> mask **)

  let double_pred_mask = function
  | XI p -> IsPos (XO (XO p))
  | XO p -> IsPos (XO (pred_double p))
  | XH -> IsNul

  (** val sub_mask : positive -> positive -> mask **)

  let rec sub_mask x y =
    match x with
    | XI p ->
      (match y with
       | XI q0 -> double_mask (sub_mask p q0)
       | XO q0 -> succ_double_mask (sub_mask p q0)
       | XH -> IsPos (XO p))
    | XO p ->
      (match y with
       | XI q0 -> succ_double_mask (sub_mask_carry p q0)
       | XO q0 -> double_mask (sub_mask p q0)
       | XH -> IsPos (pred_double p))
    | XH -> (match y with
             | XH -> IsNul
             | _ -> IsNeg)

  (** val sub_mask_carry : positive -> positive -> mask **)

  and sub_mask_carry x y =
    match x with
    | XI p ->
      (match y with
       | XI q0 -> succ_double_mask (sub_mask_carry p q0)
       | XO q0 -> double_mask (sub_mask p q0)
       | XH -> IsPos (pred_double p))
    | XO p ->
      (match y with
       | XI q0 -> double_mask (sub_mask_carry p q0)
       | XO q0 -> succ_double_mask (sub_mask_carry p q0)
       | XH -> double_pred_mask p)
    | XH -> IsNeg

  (** val sub : positive -> positive -> positive **)

  let sub x y =
    match sub_mask x y with
    | IsPos z0 -> z0
    | _ -> XH

  (** val mul : positive -> positive -> positive **)

  let rec mul x y =
    match x with
    | XI p -> add y (XO (mul p y))
    | XO p -> XO (mul p y)
    | XH -> y

  (** val size_nat : positive -> nat **)

  let rec size_nat = function
  | XI p0 -> S (size_nat p0)
  | XO p0 -> S (size_nat p0)
  | XH -> S O

  (** val compare_cont : comparison -> positive -> positive -> comparison **)

  let rec compare_cont r x y =
    match x with
    | XI p ->
      (match y with
       | XI q0 -> compare_cont r p q0
       | XO q0 -> compare_cont Gt p q0
       | XH -> Gt)
    | XO p ->
      (match y with
       | XI q0 -> compare_cont Lt p q0
       | XO q0 -> compare_cont r p q0
       | XH -> Gt)
    | XH -> (match y with
             | XH -> r
             | _ -> Lt)

  (** val compare : positive -> positive -> comparison **)

  let compare =
    compare_cont Eq

  (** val ggcdn :
      nat -> positive -> positive -> positive * (positive * positive) **)

  let rec ggcdn n a b =
    match n with
    | O -> (XH, (a, b))
    | S n0 ->
      (match a with
       | XI a' ->
         (match b with
          | XI b' ->
            (match compare a' b' with
             | Eq -> (a, (XH, XH))
             | Lt ->
               let (g, p) = ggcdn n0 (sub b' a') a in
               let (ba, aa) = p in (g, (aa, (add aa (XO ba))))
             | Gt ->
               let (g, p) = ggcdn n0 (sub a' b') b in
               let (ab, bb) = p in (g, ((add bb (XO ab)), bb)))
          | XO b0 ->
            let (g, p) = ggcdn n0 a b0 in
            let (aa, bb) = p in (g, (aa, (XO bb)))
          | XH -> (XH, (a, XH)))
       | XO a0 ->
         (match b with
          | XI _ ->
            let (g, p) = ggcdn n0 a0 b in
            let (aa, bb) = p in (g, ((XO aa), bb))
          | XO b0 -> let (g, p) = ggcdn n0 a0 b0 in ((XO g), p)
          | XH -> (XH, (a, XH)))
       | XH -> (XH, (XH, b)))

  (** val ggcd : positive -> positive -> positive * (positive * positive) **)

  let ggcd a b =
    ggcdn (Coq__1.add (size_nat a) (size_nat b)) a b
 end

module Z =
 struct
  (** val double : z -> z **)

  let double = function
  | Z0 -> Z0
  | Zpos p -> Zpos (XO p)
  | Zneg p -> Zneg (XO p)

  (** val succ_double : z -> z **)

  let succ_double = function
  | Z0 -> Zpos XH
  | Zpos p -> Zpos (XI p)
  | Zneg p -> Zneg (Coq_Pos.pred_double p)

  (** val pred_double : z -> z **)

  let pred_double = function
  | Z0 -> Zneg XH
  | Zpos p -> Zpos (Coq_Pos.pred_double p)
  | Zneg p -> Zneg (XI p)

  (** val pos_sub : positive -> positive -> z **)

  let rec pos_sub x y =
    match x with
    | XI p ->
      (match y with
       | XI q0 -> double (pos_sub p q0)
       | XO q0 -> succ_double (pos_sub p q0)
       | XH -> Zpos (XO p))
    | XO p ->
      (match y with
       | XI q0 -> pred_double (pos_sub p q0)
       | XO q0 -> double (pos_sub p q0)
       | XH -> Zpos (Coq_Pos.pred_double p))
    | XH ->
      (match y with
       | XI q0 -> Zneg (XO q0)
       | XO q0 -> Zneg (Coq_Pos.pred_double q0)
       | XH -> Z0)

  (** val add : z -> z -> z **)

  let add x y =
    match x with
    | Z0 -> y
    | Zpos x' ->
      (match y with
       | Z0 -> x
       | Zpos y' -> Zpos (Coq_Pos.add x' y')
       | Zneg y' -> pos_sub x' y')
    | Zneg x' ->
      (match y with
       | Z0 -> x
       | Zpos y' -> pos_sub y' x'
       | Zneg y' -> Zneg (Coq_Pos.add x' y'))

  (** val opp : z -> z **)

  let opp = function
  | Z0 -> Z0
  | Zpos x0 -> Zneg x0
  | Zneg x0 -> Zpos x0

  (** val sub : z -> z -> z **)

  let sub m n =
    add m (opp n)

  (** val mul : z -> z -> z **)

  let mul x y =
    match x with
    | Z0 -> Z0
    | Zpos x' ->
      (match y with
       | Z0 -> Z0
       | Zpos y' -> Zpos (Coq_Pos.mul x' y')
       | Zneg y' -> Zneg (Coq_Pos.mul x' y'))
    | Zneg x' ->
      (match y with
       | Z0 -> Z0
       | Zpos y' -> Zneg (Coq_Pos.mul x' y')
       | Zneg y' -> Zpos (Coq_Pos.mul x' y'))

  (** val compare : z -> z -> comparison **)

  let compare x y =
    match x with
    | Z0 -> (match y with
             | Z0 -> Eq
             | Zpos _ -> Lt
             | Zneg _ -> Gt)
    | Zpos x' -> (match y with
                  | Zpos y' -> Coq_Pos.compare x' y'
                  | _ -> Gt)
    | Zneg x' ->
      (match y with
       | Zneg y' -> compOpp (Coq_Pos.compare x' y')
       | _ -> Lt)

  (** val sgn : z -> z **)

  let sgn = function
  | Z0 -> Z0
  | Zpos _ -> Zpos XH
  | Zneg _ -> Zneg XH

  (** val leb : z -> z -> bool **)

  let leb x y =
    match compare x y with
    | Gt -> false
    | _ -> true

  (** val ltb : z -> z -> bool **)

  let ltb x y =
    match compare x y with
    | Lt -> true
    | _ -> false

  (** val abs : z -> z **)

  let abs = function
  | Zneg p -> Zpos p
  | x -> x

  (** val to_pos : z -> positive **)

  let to_pos = function
  | Zpos p -> p
  | _ -> XH

  (** val pos_div_eucl : positive -> z -> z * z **)

  let rec pos_div_eucl a b =
    match a with
    | XI a' ->
      let (q0, r) = pos_div_eucl a' b in
      let r' = add (mul (Zpos (XO XH)) r) (Zpos XH) in
      if ltb r' b
      then ((mul (Zpos (XO XH)) q0), r')
      else ((add (mul (Zpos (XO XH)) q0) (Zpos XH)), (sub r' b))
    | XO a' ->
      let (q0, r) = pos_div_eucl a' b in
      let r' = mul (Zpos (XO XH)) r in
      if ltb r' b
      then ((mul (Zpos (XO XH)) q0), r')
      else ((add (mul (Zpos (XO XH)) q0) (Zpos XH)), (sub r' b))
    | XH -> if leb (Zpos (XO XH)) b then (Z0, (Zpos XH)) else ((Zpos XH), Z0)

  (** val div_eucl : z -> z -> z * z **)

  let div_eucl a b =
    match a with
    | Z0 -> (Z0, Z0)
    | Zpos a' ->
      (match b with
       | Z0 -> (Z0, a)
       | Zpos _ -> pos_div_eucl a' b
       | Zneg b' ->
         let (q0, r) = pos_div_eucl a' (Zpos b') in
         (match r with
          | Z0 -> ((opp q0), Z0)
          | _ -> ((opp (add q0 (Zpos XH))), (add b r))))
    | Zneg a' ->
      (match b with
       | Z0 -> (Z0, a)
       | Zpos _ ->
         let (q0, r) = pos_div_eucl a' b in
         (match r with
          | Z0 -> ((opp q0), Z0)
          | _ -> ((opp (add q0 (Zpos XH))), (sub b r)))
       | Zneg b' -> let (q0, r) = pos_div_eucl a' (Zpos b') in (q0, (opp r)))

  (** val div : z -> z -> z **)

  let div a b =
    let (q0, _) = div_eucl a b in q0

  (** val ggcd : z -> z -> z * (z * z) **)

  let ggcd a b =
    match a with
    | Z0 -> ((abs b), (Z0, (sgn b)))
    | Zpos a0 ->
      (match b with
       | Z0 -> ((abs a), ((sgn a), Z0))
       | Zpos b0 ->
         let (g, p) = Coq_Pos.ggcd a0 b0 in
         let (aa, bb) = p in ((Zpos g), ((Zpos aa), (Zpos bb)))
       | Zneg b0 ->
         let (g, p) = Coq_Pos.ggcd a0 b0 in
         let (aa, bb) = p in ((Zpos g), ((Zpos aa), (Zneg bb))))
    | Zneg a0 ->
      (match b with
       | Z0 -> ((abs a), ((sgn a), Z0))
       | Zpos b0 ->
         let (g, p) = Coq_Pos.ggcd a0 b0 in
         let (aa, bb) = p in ((Zpos g), ((Zneg aa), (Zpos bb)))
       | Zneg b0 ->
         let (g, p) = Coq_Pos.ggcd a0 b0 in
         let (aa, bb) = p in ((Zpos g), ((Zneg aa), (Zneg bb))))
 end

(** val zeq_bool : z -> z -> bool **)

let zeq_bool x y =
  match Z.compare x y with
  | Eq -> true
  | _ -> false

(** val map : ('a1 -> 'a2) -> 'a1 list -> 'a2 list **)

let rec map f = function
| [] -> []
| a :: t -> (f a) :: (map f t)

(** val fold_left : ('a1 -> 'a2 -> 'a1) -> 'a2 list -> 'a1 -> 'a1 **)

let rec fold_left f l a0 =
  match l with
  | [] -> a0
  | b :: t -> fold_left f t (f a0 b)

(** val fold_right : ('a2 -> 'a1 -> 'a1) -> 'a1 -> 'a2 list -> 'a1 **)

let rec fold_right f a0 = function
| [] -> a0
| b :: t -> f b (fold_right f a0 t)

(** val existsb : ('a1 -> bool) -> 'a1 list -> bool **)

let rec existsb f = function
| [] -> false
| a :: l0 -> (||) (f a) (existsb f l0)

(** val forallb : ('a1 -> bool) -> 'a1 list -> bool **)

let rec forallb f = function
| [] -> true
| a :: l0 -> (&&) (f a) (forallb f l0)

(** val filter : ('a1 -> bool) -> 'a1 list -> 'a1 list **)

let rec filter f = function
| [] -> []
| x :: l0 -> if f x then x :: (filter f l0) else filter f l0

type q = { qnum : z; qden : positive }

(** val inject_Z : z -> q **)

let inject_Z x =
  { qnum = x; qden = XH }

(** val qcompare : q -> q -> comparison **)

let qcompare p q0 =
  Z.compare (Z.mul p.qnum (Zpos q0.qden)) (Z.mul q0.qnum (Zpos p.qden))

(** val qeq_bool : q -> q -> bool **)

let qeq_bool x y =
  zeq_bool (Z.mul x.qnum (Zpos y.qden)) (Z.mul y.qnum (Zpos x.qden))

(** val qle_bool : q -> q -> bool **)

let qle_bool x y =
  Z.leb (Z.mul x.qnum (Zpos y.qden)) (Z.mul y.qnum (Zpos x.qden))

(** val qplus : q -> q -> q **)

let qplus x y =
  { qnum = (Z.add (Z.mul x.qnum (Zpos y.qden)) (Z.mul y.qnum (Zpos x.qden)));
    qden = (Coq_Pos.mul x.qden y.qden) }

(** val qmult : q -> q -> q **)

let qmult x y =
  { qnum = (Z.mul x.qnum y.qnum); qden = (Coq_Pos.mul x.qden y.qden) }

(** val qopp : q -> q **)

let qopp x =
  { qnum = (Z.opp x.qnum); qden = x.qden }

(** val qminus : q -> q -> q **)

let qminus x y =
  qplus x (qopp y)

(** val qinv : q -> q **)

let qinv x =
  match x.qnum with
  | Z0 -> { qnum = Z0; qden = XH }
  | Zpos p -> { qnum = (Zpos x.qden); qden = p }
  | Zneg p -> { qnum = (Zneg x.qden); qden = p }

(** val qdiv : q -> q -> q **)

let qdiv x y =
  qmult x (qinv y)

(** val qred : q -> q **)

let qred q0 =
  let { qnum = q1; qden = q2 } = q0 in
  let (r3, r4) = snd (Z.ggcd q1 (Zpos q2)) in
  { qnum = r3; qden = (Z.to_pos r4) }

type vec = { vx : q; vy : q; vz : q }

(** val vsub : vec -> vec -> vec **)

let vsub a b =
  { vx = (qminus a.vx b.vx); vy = (qminus a.vy b.vy); vz =
    (qminus a.vz b.vz) }

(** val vscale : q -> vec -> vec **)

let vscale k a =
  { vx = (qmult k a.vx); vy = (qmult k a.vy); vz = (qmult k a.vz) }

(** val dot : vec -> vec -> q **)

let dot a b =
  qplus (qplus (qmult a.vx b.vx) (qmult a.vy b.vy)) (qmult a.vz b.vz)

type mat = { r0 : vec; r1 : vec; r2 : vec }

(** val mapply : mat -> vec -> vec **)

let mapply m v =
  { vx = (dot m.r0 v); vy = (dot m.r1 v); vz = (dot m.r2 v) }

(** val mT : mat -> mat **)

let mT m =
  { r0 = { vx = m.r0.vx; vy = m.r1.vx; vz = m.r2.vx }; r1 = { vx = m.r0.vy;
    vy = m.r1.vy; vz = m.r2.vy }; r2 = { vx = m.r0.vz; vy = m.r1.vz; vz =
    m.r2.vz } }

(** val qfloor : q -> z **)

let qfloor x =
  let { qnum = n; qden = d } = x in Z.div n (Zpos d)

(** val qabs : q -> q **)

let qabs x =
  let { qnum = n; qden = d } = x in { qnum = (Z.abs n); qden = d }

(** val qmax : q -> q -> q **)

let qmax =
  gmax qcompare

(** val qmin : q -> q -> q **)

let qmin =
  gmin qcompare

(** val qltb : q -> q -> bool **)

let qltb a b =
  negb (qle_bool b a)

(** val qmod : q -> q -> q **)

let qmod x m =
  qminus x (qmult m (inject_Z (qfloor (qdiv x m))))

(** val clip : q -> q -> q -> q **)

let clip x lo hi =
  qmin (qmax x lo) hi

(** val in_window : q -> q -> bool **)

let in_window a half =
  (&&) (qle_bool (qopp half) a) (qle_bool a half)

(** val qmin_list : q -> q list -> q **)

let qmin_list x l =
  fold_right qmin x l

(** val qmax_list : q -> q list -> q **)

let qmax_list x l =
  fold_right qmax x l

type xform =
| Old
| Fixed

(** val local_vec : xform -> mat option -> vec -> vec -> vec **)

let local_vec x r c p =
  match r with
  | Some m ->
    (match x with
     | Old -> vsub (mapply (mT m) p) c
     | Fixed -> mapply (mT m) (vsub p c))
  | None -> vsub p c

(** val world_ray : mat option -> vec -> vec **)

let world_ray r ray =
  match r with
  | Some m -> mapply m ray
  | None -> ray

(** val wrap_az : q -> q -> q **)

let wrap_az pI a =
  qminus
    (qmod
      (qplus (qminus a (qdiv pI { qnum = (Zpos (XO XH)); qden = XH })) pI)
      (qmult { qnum = (Zpos (XO XH)); qden = XH } pI)) pI

(** val near_occluders : ('a1 -> q) -> q -> 'a1 list -> 'a1 list **)

let near_occluders odist d occs =
  filter (fun o -> qle_bool (odist o) d) occs

(** val point_ray : (vec -> q) -> xform -> mat option -> vec -> vec -> vec **)

let point_ray norm x r c p =
  let tv = local_vec x r c p in vscale (qinv (norm tv)) tv

(** val point_az :
    q -> (q -> q -> q) -> (vec -> q) -> xform -> mat option -> vec -> vec -> q **)

let point_az pI atan2 norm x r c p =
  let ray = point_ray norm x r c p in wrap_az pI (atan2 ray.vy ray.vx)

(** val point_alt :
    (q -> q) -> (vec -> q) -> xform -> mat option -> vec -> vec -> q **)

let point_alt asin norm x r c p =
  asin (point_ray norm x r c p).vz

(** val ray_unblocked :
    ('a1 -> vec -> q list) -> q -> vec -> 'a1 list -> bool **)

let ray_unblocked hit td wray occs =
  forallb (fun o -> forallb (fun hd -> negb (qle_bool hd td)) (hit o wray))
    occs

(** val point_visible :
    q -> (q -> q -> q) -> (q -> q) -> (vec -> q) -> ('a1 -> q) -> ('a1 -> vec
    -> q list) -> xform -> vec -> mat option -> q -> q -> q -> vec -> 'a1
    list -> bool **)

let point_visible pI atan2 asin norm odist hit x c r d h v p occs =
  let td = norm (vsub p c) in
  if negb (qle_bool td d)
  then false
  else let az = point_az pI atan2 norm x r c p in
       let alt = point_alt asin norm x r c p in
       if (||)
            (negb
              (in_window az (qdiv h { qnum = (Zpos (XO XH)); qden = XH })))
            (negb
              (in_window alt (qdiv v { qnum = (Zpos (XO XH)); qden = XH })))
       then false
       else ray_unblocked hit td (world_ray r (point_ray norm x r c p))
              (near_occluders odist d occs)

(** val point_margin :
    q -> (q -> q -> q) -> (q -> q) -> (vec -> q) -> xform -> vec -> mat
    option -> q -> q -> q -> vec -> q **)

let point_margin pI atan2 asin norm x c r d h v p =
  qmin (qminus d (norm (vsub p c)))
    (qmin
      (qminus (qdiv h { qnum = (Zpos (XO XH)); qden = XH })
        (qabs (point_az pI atan2 norm x r c p)))
      (qminus (qdiv v { qnum = (Zpos (XO XH)); qden = XH })
        (qabs (point_alt asin norm x r c p))))

type window = { h_lo : q; h_hi : q; v_lo : q; v_hi : q }

(** val to_back : q -> q -> q **)

let to_back pI a =
  if qle_bool { qnum = Z0; qden = XH } a then qminus a pI else qplus a pI

(** val view_windows :
    q -> q -> q -> bool -> bool -> (q * q) -> (q * q) list -> window list
    option **)

let view_windows pI h v ahead behind a0 angs =
  let azs = map fst angs in
  let alts = map snd angs in
  let vmin = qmin_list (snd a0) alts in
  let vmax = qmax_list (snd a0) alts in
  if (||) (qltb (qdiv v { qnum = (Zpos (XO XH)); qden = XH }) vmin)
       (qltb vmax (qopp (qdiv v { qnum = (Zpos (XO XH)); qden = XH })))
  then None
  else if (&&) ahead behind
       then Some ({ h_lo =
              (qopp (qdiv h { qnum = (Zpos (XO XH)); qden = XH })); h_hi =
              (qdiv h { qnum = (Zpos (XO XH)); qden = XH }); v_lo =
              (qopp (qdiv v { qnum = (Zpos (XO XH)); qden = XH })); v_hi =
              (qdiv v { qnum = (Zpos (XO XH)); qden = XH }) } :: [])
       else if behind
            then let smin =
                   qmin_list (to_back pI (fst a0)) (map (to_back pI) azs)
                 in
                 let smax =
                   qmax_list (to_back pI (fst a0)) (map (to_back pI) azs)
                 in
                 let ov_lo =
                   clip vmin
                     (qopp (qdiv v { qnum = (Zpos (XO XH)); qden = XH }))
                     (qdiv v { qnum = (Zpos (XO XH)); qden = XH })
                 in
                 let ov_hi =
                   clip vmax
                     (qopp (qdiv v { qnum = (Zpos (XO XH)); qden = XH }))
                     (qdiv v { qnum = (Zpos (XO XH)); qden = XH })
                 in
                 let w1 =
                   if qltb pI
                        (qplus
                          (qabs
                            (qopp
                              (qdiv h { qnum = (Zpos (XO XH)); qden = XH })))
                          (qabs smax))
                   then { h_lo =
                          (qopp (qdiv h { qnum = (Zpos (XO XH)); qden = XH }));
                          h_hi = (qplus (qopp pI) smax); v_lo = ov_lo; v_hi =
                          ov_hi } :: []
                   else []
                 in
                 let w2 =
                   if qltb pI
                        (qplus
                          (qabs (qdiv h { qnum = (Zpos (XO XH)); qden = XH }))
                          (qabs smin))
                   then { h_lo = (qplus pI smin); h_hi =
                          (qdiv h { qnum = (Zpos (XO XH)); qden = XH });
                          v_lo = ov_lo; v_hi = ov_hi } :: []
                   else []
                 in
                 (match app w1 w2 with
                  | [] -> None
                  | w :: l -> Some (w :: l))
            else let hmin = qmin_list (fst a0) azs in
                 let hmax = qmax_list (fst a0) azs in
                 if (||)
                      (qltb hmax
                        (qopp (qdiv h { qnum = (Zpos (XO XH)); qden = XH })))
                      (qltb (qdiv h { qnum = (Zpos (XO XH)); qden = XH })
                        hmin)
                 then None
                 else Some ({ h_lo =
                        (clip hmin
                          (qopp (qdiv h { qnum = (Zpos (XO XH)); qden = XH }))
                          (qdiv h { qnum = (Zpos (XO XH)); qden = XH }));
                        h_hi =
                        (clip hmax
                          (qopp (qdiv h { qnum = (Zpos (XO XH)); qden = XH }))
                          (qdiv h { qnum = (Zpos (XO XH)); qden = XH }));
                        v_lo =
                        (clip vmin
                          (qopp (qdiv v { qnum = (Zpos (XO XH)); qden = XH }))
                          (qdiv v { qnum = (Zpos (XO XH)); qden = XH }));
                        v_hi =
                        (clip vmax
                          (qopp (qdiv v { qnum = (Zpos (XO XH)); qden = XH }))
                          (qdiv v { qnum = (Zpos (XO XH)); qden = XH })) } :: [])

(** val edge_cross : (vec * vec) -> q option **)

let edge_cross = function
| (a, b) ->
  if qeq_bool b.vx { qnum = Z0; qden = XH }
  then None
  else if qltb (qdiv a.vx b.vx) { qnum = Z0; qden = XH }
       then let t = qdiv (qopp a.vx) (qminus b.vx a.vx) in
            Some (qplus (qmult t (qminus b.vy a.vy)) a.vy)
       else None

(** val crosses : (vec * vec) list -> bool * bool **)

let crosses edges =
  let ys =
    fold_right (fun e acc ->
      match edge_cross e with
      | Some y -> y :: acc
      | None -> acc) [] edges
  in
  ((existsb (fun y -> qle_bool { qnum = Z0; qden = XH } y) ys),
  (existsb (fun y -> qle_bool y { qnum = Z0; qden = XH }) ys))

(** val closest_within : q -> q list -> q option **)

let closest_within d hs =
  fold_left (fun acc hd ->
    if negb (qle_bool hd d)
    then acc
    else (match acc with
          | Some m -> if qltb hd m then Some hd else Some m
          | None -> Some hd)) hs None

(** val candidates : ('a1 -> q list) -> q -> 'a1 list -> ('a1 * q) list **)

let candidates target_hits d batch =
  fold_right (fun r acc ->
    match closest_within d (target_hits r) with
    | Some td -> (r, td) :: acc
    | None -> acc) [] batch

(** val blocked_by : ('a2 -> 'a1 -> q list) -> 'a2 -> ('a1 * q) -> bool **)

let blocked_by occ_hits o c =
  existsb (fun hd -> qle_bool hd (snd c)) (occ_hits o (fst c))

(** val batch_survivors :
    ('a1 -> q list) -> ('a2 -> 'a1 -> q list) -> q -> 'a1 list -> 'a2 list ->
    ('a1 * q) list **)

let batch_survivors target_hits occ_hits d batch occs =
  fold_left (fun cs o -> filter (fun c -> negb (blocked_by occ_hits o c)) cs)
    occs (candidates target_hits d batch)

(** val rays_visible :
    ('a1 -> q list) -> ('a2 -> 'a1 -> q list) -> q -> 'a1 list list -> 'a2
    list -> bool **)

let rays_visible target_hits occ_hits d batches occs =
  existsb (fun b ->
    match batch_survivors target_hits occ_hits d b occs with
    | [] -> false
    | _ :: _ -> true) batches

type sobj = { oid : nat; occluding : bool }

(** val req_potential : sobj list -> nat -> nat -> sobj list **)

let req_potential objects src tgt =
  filter (fun o ->
    (&&) (negb (Nat.eqb o.oid src)) (negb (Nat.eqb o.oid tgt))) objects

(** val req_occluders : sobj list -> nat -> nat -> sobj list **)

let req_occluders objects src tgt =
  filter (fun s -> s.occluding) (req_potential objects src tgt)

(** val op_occluders : sobj list -> nat option -> nat option -> sobj list **)

let op_occluders objects x y =
  let isnt = fun k o ->
    match k with
    | Some n -> negb (Nat.eqb o.oid n)
    | None -> true
  in
  filter (fun o -> (&&) ((&&) o.occluding (isnt x o)) (isnt y o)) objects

type vkind =
| MustSee
| MustNotSee

type vreq = { rk : vkind; rsrc : nat; rtgt : nat; rocc : sobj list }

(** val observer_reqs :
    bool -> sobj list -> ((vkind * nat) * nat) list -> vreq list **)

let rec observer_reqs one_shot it = function
| [] -> []
| p :: rest ->
  let (p0, t) = p in
  let (k, s) = p0 in
  { rk = k; rsrc = s; rtgt = t; rocc =
  (req_occluders it s t) } :: (observer_reqs one_shot
                                (if one_shot then [] else it) rest)

(** val default_visibility_reqs :
    bool -> sobj list -> (nat * nat) list -> (nat * nat) list -> nat -> nat
    list -> vreq list **)

let default_visibility_reqs one_shot objects observing nonobserving ego require_visible =
  app
    (observer_reqs one_shot (filter (fun s -> s.occluding) objects)
      (app (map (fun st -> ((MustSee, (fst st)), (snd st))) observing)
        (map (fun st -> ((MustNotSee, (fst st)), (snd st))) nonobserving)))
    (map (fun t -> { rk = MustSee; rsrc = ego; rtgt = t; rocc =
      (req_occluders objects ego t) }) require_visible)
