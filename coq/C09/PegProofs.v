(* C09 — proofs about the token-exact PEG interpreter of C09/Peg.v:
     peglr_suffix, peglr_mono      basic facts (peg_* : the same for the interpreter without left recursion, LR = [])
     requires_kw_sound             an expression flagged by the keyword analysis cannot succeed on keyword-free input
     conservative_extension        on keyword-free input the extended (Scenic) grammar computes exactly the result of
                                   the base (Python) grammar: same success remainder, or failure (cut modelled precisely)
     ext_agree                     whenever both runs terminate they agree (the converse direction up to termination) *)
From Coq Require Import NArith List Bool Arith Lia.
From Scenic Require Import C10.PEG C09.Peg.
Import ListNotations.
Open Scope N_scope.

(* ---- small facts --------------------------------------------------------------------------------------------- *)

Definition suf (s s' : list N) : Prop := exists p, s = p ++ s'.

Lemma suf_refl : forall s, suf s s.
Proof. intro s; exists []; reflexivity. Qed.

Lemma suf_trans : forall a b c, suf a b -> suf b c -> suf a c.
Proof. intros a b c [p ->] [q ->]. exists (p ++ q). now rewrite app_assoc. Qed.

Lemma suf_cons : forall x s, suf (x :: s) s.
Proof. intros x s; exists [x]; reflexivity. Qed.

Lemma kwfree_suf : forall K s s', kwfree K s = true -> suf s s' -> kwfree K s' = true.
Proof.
  intros K s s' H [p ->]. unfold kwfree in *. rewrite forallb_app in H.
  apply andb_true_iff in H. tauto.
Qed.

Lemma memN_In : forall a xs, memN a xs = true -> In a xs.
Proof.
  induction xs as [|x xs IH]; simpl; intro H; [discriminate|].
  apply orb_true_iff in H. destruct H as [H|H]; [left; symmetry; now apply N.eqb_eq|right; auto].
Qed.

Lemma lookup_In : forall G r e, lookup G r = Some e -> In (r, e) G.
Proof.
  induction G as [|[r' e'] G IH]; simpl; intros r e H; [discriminate|].
  destruct (r =? r') eqn:Q.
  - apply N.eqb_eq in Q. inversion H; subst. now left.
  - right; auto.
Qed.

Lemma kwc_lookup : forall G K tbl r, kw_consistent G K tbl = true -> memN r tbl = true ->
  exists b, lookup G r = Some b /\ requires_kw K tbl b = true.
Proof.
  intros G K tbl r H M. unfold kw_consistent in H. rewrite forallb_forall in H.
  specialize (H r (memN_In _ _ M)). destruct (lookup G r) as [b|]; [|discriminate]. eauto.
Qed.

Lemma ext_grammar_lookup : forall K tbl Gs Gp r ep, ext_grammar K tbl Gs Gp = true -> lookup Gp r = Some ep ->
  exists es, lookup Gs r = Some es /\ ext_check K tbl es ep = true /\ refs_defined Gp ep = true.
Proof.
  intros K tbl Gs Gp r ep H L. unfold ext_grammar in H. rewrite forallb_forall in H.
  specialize (H _ (lookup_In _ _ _ L)). simpl in H.
  destruct (lookup Gs r) as [es|]; [|discriminate]. apply andb_true_iff in H. exists es; tauto.
Qed.

(* ---- case analysis on one interpreter step ---------------------------------------------------------------- *)

(* destruct the scrutinee of the OUTERMOST match of [H : match .. end = _], repeatedly *)
Ltac crunch H :=
  repeat (cbn beta iota in H;
          match type of H with
          | (match ?X with _ => _ end) = _ =>
              lazymatch X with
              | pegc ?n ?G ?LR ?M ?e ?s =>
                  let E := fresh "E" in revert H; destruct (pegc n G LR M e s) as [[? ?]|] eqn:E; intro H
              | grow ?n ?G ?LR ?M ?r ?b ?s ?sd =>
                  let E := fresh "E" in revert H; destruct (grow n G LR M r b s sd) as [[? ?]|] eqn:E; intro H
              | lookup ?G ?r =>
                  let L := fresh "L" in revert H; destruct (lookup G r) eqn:L; intro H
              | _ => first [ is_var X; destruct X
                           | let Q := fresh "Q" in revert H; destruct X eqn:Q; intro H ]
              end
          end);
  cbn beta iota in H; try discriminate H.

Ltac inj H :=
  match type of H with
  | Some _ = Some _ => inversion H; subst; clear H
  | _ => idtac
  end.

(* ---- memo invariants ---------------------------------------------------------------------------------------- *)

Lemma leqb_eq : forall a b, leqb a b = true -> a = b.
Proof.
  induction a as [|x a IH]; destruct b as [|y b]; simpl; intro H; try discriminate; auto.
  apply andb_true_iff in H. destruct H as [H1 H2]. apply N.eqb_eq in H1. f_equal; auto.
Qed.

(* every seed is a suffix of the input of its call *)
Definition Msuf (M : memo) : Prop := forall r s s', mlookup M r s = Some (Some s') -> suf s s'.
(* no seed is a success of a keyword-requiring rule on keyword-free input *)
Definition Mkw (K tbl : list N) (M : memo) : Prop :=
  forall r s s', memN r tbl = true -> kwfree K s = true -> mlookup M r s = Some (Some s') -> False.

Lemma Msuf_nil : Msuf [].
Proof. intros r s s' H; discriminate. Qed.

Lemma Mkw_nil : forall K tbl, Mkw K tbl [].
Proof. intros K tbl r s s' _ _ H; discriminate. Qed.

Lemma Msuf_cons : forall M r s seed, Msuf M -> (forall s0, seed = Some s0 -> suf s s0) -> Msuf ((r, s, seed) :: M).
Proof.
  intros M r s seed HM Hs r0 s0 s' H. simpl in H.
  destruct ((r0 =? r) && leqb s0 s) eqn:Q; [|eauto].
  apply andb_true_iff in Q. destruct Q as [_ Q]. apply leqb_eq in Q. subst s0. inversion H; subst. auto.
Qed.

Lemma Mkw_cons : forall K tbl M r s seed, Mkw K tbl M ->
  (memN r tbl = true -> kwfree K s = true -> seed = None) -> Mkw K tbl ((r, s, seed) :: M).
Proof.
  intros K tbl M r s seed HM Hs r0 s0 s' Hr Hk H. simpl in H.
  destruct ((r0 =? r) && leqb s0 s) eqn:Q; [|eauto].
  apply andb_true_iff in Q. destruct Q as [Q1 Q2]. apply leqb_eq in Q2. apply N.eqb_eq in Q1. subst s0 r0.
  rewrite (Hs Hr Hk) in H. discriminate.
Qed.

(* ---- 1. suffix and fuel monotonicity ----------------------------------------------------------------------- *)

Lemma suffix_both : forall n,
  (forall G LR M e s c s', Msuf M -> pegc n G LR M e s = Some (c, Some s') -> suf s s') /\
  (forall G LR M r b s seed c s', Msuf M -> (forall s0, seed = Some s0 -> suf s s0) ->
     grow n G LR M r b s seed = Some (c, Some s') -> suf s s').
Proof.
  induction n as [|n [IHp IHg]]; split; try (intros; discriminate).
  - intros G LR M e s c s' HM H.
    destruct e; simpl in H; crunch H; inj H;
      eauto 6 using suf_refl, suf_trans, suf_cons.
    eapply IHg; [exact HM| |eassumption]. intros; discriminate.
  - intros G LR M r b s seed c s' HM Hs H.
    simpl in H; crunch H; inj H; auto.
    eapply (IHg _ _ _ _ _ _ (Some l)); [exact HM| |eassumption].
    intros s0 A; inversion A; subst. eapply IHp; [|eassumption]. now apply Msuf_cons.
Qed.

Lemma pegc_suffix : forall n G LR M e s c s', Msuf M -> pegc n G LR M e s = Some (c, Some s') -> suf s s'.
Proof. intro n. exact (proj1 (suffix_both n)). Qed.

Lemma mono_both : forall n,
  (forall G LR M e s r, pegc n G LR M e s = Some r -> forall m, (n <= m)%nat -> pegc m G LR M e s = Some r) /\
  (forall G LR M r0 b s seed r, grow n G LR M r0 b s seed = Some r ->
     forall m, (n <= m)%nat -> grow m G LR M r0 b s seed = Some r).
Proof.
  induction n as [|n [IHp IHg]]; split; try (intros; discriminate).
  - intros G LR M e s r H m Hle. destruct m as [|m]; [lia|]. assert (Hle' : (n <= m)%nat) by lia.
    destruct e; simpl in H |- *; crunch H;
      repeat match goal with
             | E : pegc n ?G ?LR ?M ?e ?s = Some ?r |- _ => rewrite (IHp G LR M e s r E m Hle'); clear E; cbn iota beta
             | E : grow n ?G ?LR ?M ?r0 ?b ?s ?sd = Some ?r |- _ =>
                 rewrite (IHg G LR M r0 b s sd r E m Hle'); clear E; cbn iota beta
             | Q : ?b = _ |- context[?b] => rewrite Q
             end; auto.
  - intros G LR M r0 b s seed r H m Hle. destruct m as [|m]; [lia|]. assert (Hle' : (n <= m)%nat) by lia.
    simpl in H |- *; crunch H;
      repeat match goal with
             | E : pegc n ?G ?LR ?M ?e ?s = Some ?r |- _ => rewrite (IHp G LR M e s r E m Hle'); clear E; cbn iota beta
             | E : grow n ?G ?LR ?M ?r0 ?b ?s ?sd = Some ?r |- _ =>
                 rewrite (IHg G LR M r0 b s sd r E m Hle'); clear E; cbn iota beta
             | Q : ?b = _ |- context[?b] => rewrite Q
             end; auto.
Qed.

Lemma pegc_mono : forall n G LR M e s r, pegc n G LR M e s = Some r ->
  forall m, (n <= m)%nat -> pegc m G LR M e s = Some r.
Proof. intro n. exact (proj1 (mono_both n)). Qed.

Lemma grow_mono : forall n G LR M r0 b s seed r, grow n G LR M r0 b s seed = Some r ->
  forall m, (n <= m)%nat -> grow m G LR M r0 b s seed = Some r.
Proof. intro n. exact (proj2 (mono_both n)). Qed.

Theorem peglr_suffix : forall fuel G LR e s s', peglr fuel G LR e s = Some (Some s') -> exists p, s = p ++ s'.
Proof.
  unfold peglr; intros fuel G LR e s s' H.
  destruct (pegc fuel G LR [] e s) as [[c [t|]]|] eqn:E; simpl in H; try discriminate.
  inversion H; subst. exact (pegc_suffix _ _ _ _ _ _ _ _ Msuf_nil E).
Qed.

Theorem peglr_mono : forall n G LR e s r, peglr n G LR e s = Some r ->
  forall m, (n <= m)%nat -> peglr m G LR e s = Some r.
Proof.
  unfold peglr; intros n G LR e s r H m Hle.
  destruct (pegc n G LR [] e s) as [x|] eqn:E; [|discriminate].
  now rewrite (pegc_mono _ _ _ _ _ _ _ E m Hle).
Qed.

Theorem peg_suffix : forall fuel G e s s', peg fuel G e s = Some (Some s') -> exists p, s = p ++ s'.
Proof. intros fuel G. exact (peglr_suffix fuel G []). Qed.

Theorem peg_mono : forall n G e s r, peg n G e s = Some r -> forall m, (n <= m)%nat -> peg m G e s = Some r.
Proof. intros n G. exact (peglr_mono n G []). Qed.

(* ---- 2. soundness of the keyword analysis ------------------------------------------------------------------ *)

Lemma rk_both : forall G K tbl LR, kw_consistent G K tbl = true -> forall n,
  (forall M e s c s', Msuf M -> Mkw K tbl M -> requires_kw K tbl e = true -> kwfree K s = true ->
     pegc n G LR M e s = Some (c, Some s') -> False) /\
  (forall M r b s c s', Msuf M -> Mkw K tbl M -> memN r tbl = true -> requires_kw K tbl b = true ->
     kwfree K s = true -> grow n G LR M r b s None = Some (c, Some s') -> False).
Proof.
  intros G K tbl LR HC. induction n as [|n [IHp IHg]]; split; try (intros; discriminate).
  - intros M e s c s' HS HM Hrk Hk H.
    destruct e; simpl in Hrk; try discriminate Hrk; simpl in H.
    + (* PTok *)
      crunch H. inj H. apply N.eqb_eq in Q; subst n0. simpl in Hk. rewrite Hrk in Hk. discriminate.
    + (* PRule *)
      destruct (kwc_lookup _ _ _ _ HC Hrk) as (b & L & Hb). rewrite L in H.
      crunch H; inj H; eauto.
    + (* PSeq *)
      crunch H; inj H. apply orb_true_iff in Hrk. destruct Hrk as [Hrk|Hrk]; [eauto|].
      eapply (IHp M e2 l _ _ HS HM Hrk); [|eassumption]. eapply kwfree_suf; eauto using pegc_suffix.
    + (* PAlt *)
      apply andb_true_iff in Hrk. destruct Hrk. crunch H; inj H; eauto.
    + (* PPlus *)
      crunch H; eauto.
    + (* PGather *)
      crunch H; eauto.
    + (* PForced *)
      eauto.
  - intros M r b s c s' HS HM Hr Hrk Hk H.
    simpl in H. crunch H; inj H.
    eapply (IHp ((r, s, None) :: M) b s); try eassumption.
    + apply Msuf_cons; auto. intros; discriminate.
    + apply Mkw_cons; auto.
Qed.

Lemma requires_kw_sound_c : forall G K tbl LR, kw_consistent G K tbl = true ->
  forall n M e s c s', Msuf M -> Mkw K tbl M -> requires_kw K tbl e = true -> kwfree K s = true ->
  pegc n G LR M e s = Some (c, Some s') -> False.
Proof. intros G K tbl LR HC n. exact (proj1 (rk_both G K tbl LR HC n)). Qed.

(* an alternative flagged by the analysis cannot succeed on a keyword-free token stream *)
Theorem requires_kw_sound_lr : forall G K tbl LR e s,
  kw_consistent G K tbl = true -> requires_kw K tbl e = true -> kwfree K s = true ->
  forall fuel s', peglr fuel G LR e s <> Some (Some s').
Proof.
  intros G K tbl LR e s HC Hrk Hk fuel s' H. unfold peglr in H.
  destruct (pegc fuel G LR [] e s) as [[c [t|]]|] eqn:E; simpl in H; try discriminate.
  eapply requires_kw_sound_c; eauto using Msuf_nil, Mkw_nil.
Qed.

Theorem requires_kw_sound : forall G K tbl e s,
  kw_consistent G K tbl = true -> requires_kw K tbl e = true -> kwfree K s = true ->
  forall fuel s', peg fuel G e s <> Some (Some s').
Proof. intros G K tbl e s. exact (requires_kw_sound_lr G K tbl [] e s). Qed.

(* ---- cut-flag analyses -------------------------------------------------------------------------------------- *)

Lemma nocut_sound : forall fuel G LR M e s c o, nocut e = true -> pegc fuel G LR M e s = Some (c, o) -> c = false.
Proof.
  induction fuel as [|n IH]; intros G LR M e s c o Hn H; [discriminate|].
  destruct e; simpl in Hn; try discriminate Hn; simpl in H; crunch H; inj H; auto;
    try (apply andb_true_iff in Hn; destruct Hn as [Hn1 Hn2]).
  all: repeat match goal with
              | E : pegc _ _ _ _ ?e _ = Some (?c, _), Hn : nocut ?e = true |- _ =>
                  is_var c; assert (c = false) by exact (IH _ _ _ _ _ _ _ Hn E); subst c
              end.
  all: try reflexivity.
  all: eapply IH; [|eassumption]; reflexivity.
Qed.

Lemma cut_safe_sound : forall G K tbl LR, kw_consistent G K tbl = true ->
  forall fuel M e s c o, Msuf M -> Mkw K tbl M -> cut_safe K tbl e = true -> kwfree K s = true ->
  pegc fuel G LR M e s = Some (c, o) -> c = false.
Proof.
  intros G K tbl LR HC. induction fuel as [|n IH]; intros M e s c o HS HM Hs Hk H; [discriminate|].
  destruct e; simpl in Hs; try discriminate Hs; simpl in H.
  all: try (crunch H; inj H; auto; fail).
  - (* PSeq *)
    apply andb_true_iff in Hs. destruct Hs as [Hs1 Hs2].
    crunch H; inj H;
      match goal with E : pegc n G LR M e1 s = Some (?c, _) |- _ =>
        assert (c = false) by exact (IH _ _ _ _ _ HS HM Hs1 Hk E); subst c end;
      try reflexivity;
      (apply orb_true_iff in Hs2; destruct Hs2 as [Hs2|Hs2]; [exfalso; eapply requires_kw_sound_c; eauto|]);
      match goal with E : pegc n G LR M e1 s = Some (_, Some ?l), E0 : pegc n G LR M e2 ?l = Some (?c, _) |- _ =>
        assert (c = false)
          by (refine (IH _ _ _ _ _ HS HM Hs2 _ E0); eapply kwfree_suf; eauto using pegc_suffix); subst c end;
      reflexivity.
  - (* PStar *)
    crunch H; inj H; auto. eapply (IH M (PStar e)); [exact HS|exact HM|reflexivity| |eassumption].
    eapply kwfree_suf; eauto using pegc_suffix.
  - (* PPlus *)
    crunch H; inj H; auto. eapply (IH M (PStar e)); [exact HS|exact HM|reflexivity| |eassumption].
    eapply kwfree_suf; eauto using pegc_suffix.
  - (* PGather *)
    crunch H; inj H; auto. eapply (IH M (PStar (PSeq e1 e2))); [exact HS|exact HM|reflexivity| |eassumption].
    eapply kwfree_suf; eauto using pegc_suffix.
  - (* PForced *) eauto.
Qed.

(* ---- 3. the conservative-extension theorem ---------------------------------------------------------------- *)

Ltac rw_mono :=
  repeat match goal with
         | P : pegc ?f1 ?G ?LR ?M ?e ?s = Some ?r |- context[pegc ?f ?G ?LR ?M ?e ?s] =>
             rewrite (pegc_mono f1 G LR M e s r P f) by lia; cbn iota beta
         | P : grow ?f1 ?G ?LR ?M ?r0 ?b ?s ?sd = Some ?r |- context[grow ?f ?G ?LR ?M ?r0 ?b ?s ?sd] =>
             rewrite (grow_mono f1 G LR M r0 b s sd r P f) by lia; cbn iota beta
         | Q : Nat.eqb ?a ?b = _ |- context[Nat.eqb ?a ?b] => rewrite Q; cbn iota beta
         | Q : better ?a ?b ?c = _ |- context[better ?a ?b ?c] => rewrite Q; cbn iota beta
         | Q : memN ?a ?b = _ |- context[memN ?a ?b] => rewrite Q; cbn iota beta
         | Q : mlookup ?a ?b ?c = _ |- context[mlookup ?a ?b ?c] => rewrite Q; cbn iota beta
         | L : lookup ?G ?r = _ |- context[lookup ?G ?r] => rewrite L; cbn iota beta
         end.

Section Ext.
  Variables (K tbl : list N) (Gs Gp : grammar) (LR : list N).
  Hypothesis HG : ext_grammar K tbl Gs Gp = true.
  Hypothesis HC : kw_consistent Gs K tbl = true.

  Lemma ext_both : forall n,
    (forall ab es ep M s c o, Msuf M -> Mkw K tbl M ->
       ext_aux K tbl ab es ep = true -> refs_defined Gp ep = true -> kwfree K s = true ->
       pegc n Gs LR M es s = Some (c, o) ->
       exists fuel' c', pegc fuel' Gp LR M ep s = Some (c', o) /\ (ab = false -> c' = c)) /\
    (forall M r bs bp s seed c o, Msuf M -> Mkw K tbl M ->
       Msuf ((r, s, seed) :: M) -> Mkw K tbl ((r, s, seed) :: M) ->
       lookup Gs r = Some bs -> ext_check K tbl bs bp = true -> refs_defined Gp bp = true -> kwfree K s = true ->
       grow n Gs LR M r bs s seed = Some (c, o) ->
       exists fuel', grow fuel' Gp LR M r bp s seed = Some (false, o)).
  Proof.
    induction n as [|n [IH IHg]]; split; try (intros; discriminate).
    2:{ (* seed growing *)
      intros M r bs bp s seed c o HS HM HS' HM' Ls Hbx Hbr Hk H.
      simpl in H. crunch H; inj H.
      - (* improved seed: next round *)
        destruct (IH true _ _ _ _ _ _ HS' HM' Hbx Hbr Hk E) as (f1 & c1 & P1 & _).
        assert (HS2 : Msuf ((r, s, Some l) :: M)).
        { apply Msuf_cons; auto. intros s0 A; inversion A; subst. eapply pegc_suffix; eauto. }
        assert (HM2 : Mkw K tbl ((r, s, Some l) :: M)).
        { apply Mkw_cons; auto. intros Hr _. exfalso.
          destruct (kwc_lookup _ _ _ _ HC Hr) as (b' & L' & Hb'). rewrite Ls in L'. inversion L'; subst b'.
          exact (requires_kw_sound_c _ _ _ LR HC _ _ _ _ _ _ HS' HM' Hb' Hk E). }
        destruct (IHg _ _ _ _ _ _ _ _ HS HM HS2 HM2 Ls Hbx Hbr Hk H) as (f2 & P2).
        exists (S (f1 + f2)). simpl. rw_mono. reflexivity.
      - destruct (IH true _ _ _ _ _ _ HS' HM' Hbx Hbr Hk E) as (f1 & c1 & P1 & _).
        exists (S f1). simpl. rw_mono. reflexivity.
      - destruct (IH true _ _ _ _ _ _ HS' HM' Hbx Hbr Hk E) as (f1 & c1 & P1 & _).
        exists (S f1). simpl. rw_mono. reflexivity. }
    intros ab es ep M s c o HS HM Hx Hr Hk H.
    assert (KS : forall a c1 s1, pegc n Gs LR M a s = Some (c1, Some s1) -> kwfree K s1 = true)
      by (intros; eapply kwfree_suf; eauto using pegc_suffix).
    destruct es; simpl in Hx.
    - (* PTok *)
      destruct ep; try discriminate Hx. apply N.eqb_eq in Hx; subst t0.
      exists 1%nat, c. split; [exact H|auto].
    - (* PRule *)
      destruct ep; try discriminate Hx. apply N.eqb_eq in Hx; subst r0.
      simpl in Hr. destruct (lookup Gp r) as [bp|] eqn:Lp; [|discriminate].
      destruct (ext_grammar_lookup _ _ _ _ _ _ HG Lp) as (bs & Ls & Hbx & Hbr).
      simpl in H. rewrite Ls in H. crunch H; inj H.
      + (* leader, in progress *)
        exists 1%nat, false. simpl. rw_mono. auto.
      + (* leader, seed growing *)
        assert (HS' : Msuf ((r, s, None) :: M)) by (apply Msuf_cons; auto; intros; discriminate).
        assert (HM' : Mkw K tbl ((r, s, None) :: M)) by (apply Mkw_cons; auto).
        destruct (IHg _ _ _ _ _ _ _ _ HS HM HS' HM' Ls Hbx Hbr Hk E) as (f1 & P1).
        exists (S f1), false. simpl. rw_mono. auto.
      + (* plain call *)
        destruct (IH true _ _ _ _ _ _ HS HM Hbx Hbr Hk E) as (f1 & c1 & P1 & _).
        exists (S f1), false. simpl. rw_mono. auto.
    - (* PEps *)
      destruct ep; try discriminate Hx. exists 1%nat, c. split; [exact H|auto].
    - (* PSeq *)
      destruct ep; try discriminate Hx. apply andb_true_iff in Hx. destruct Hx as [Hx1 Hx2].
      simpl in Hr. apply andb_true_iff in Hr. destruct Hr as [Hr1 Hr2].
      simpl in H. crunch H; inj H.
      + destruct (IH ab _ _ _ _ _ _ HS HM Hx1 Hr1 Hk E) as (f1 & c1 & P1 & Q1).
        destruct (IH ab _ _ _ _ _ _ HS HM Hx2 Hr2 (KS _ _ _ E) E0) as (f2 & c2 & P2 & Q2).
        exists (S (f1 + f2)), (c1 || c2). simpl. rw_mono. split; [reflexivity|].
        intro A. now rewrite Q1, Q2.
      + destruct (IH ab _ _ _ _ _ _ HS HM Hx1 Hr1 Hk E) as (f1 & c1 & P1 & Q1).
        exists (S f1), c1. simpl. rw_mono. auto.
    - (* PAlt *)
      apply orb_true_iff in Hx. destruct Hx as [Hx|Hx].
      + (* same choice on both sides *)
        destruct ep; try discriminate Hx. apply andb_true_iff in Hx. destruct Hx as [Hx1 Hx2].
        simpl in Hr. apply andb_true_iff in Hr. destruct Hr as [Hr1 Hr2].
        simpl in H. crunch H; inj H.
        * destruct (IH false _ _ _ _ _ _ HS HM Hx1 Hr1 Hk E) as (f1 & c1 & P1 & Q1).
          exists (S f1), false. simpl. rw_mono. auto.
        * destruct (IH false _ _ _ _ _ _ HS HM Hx1 Hr1 Hk E) as (f1 & c1 & P1 & Q1).
          rewrite (Q1 eq_refl) in P1.
          exists (S f1), false. simpl. rw_mono. auto.
        * destruct (IH false _ _ _ _ _ _ HS HM Hx1 Hr1 Hk E) as (f1 & c1 & P1 & Q1).
          rewrite (Q1 eq_refl) in P1.
          destruct (IH true _ _ _ _ _ _ HS HM Hx2 Hr2 Hk E0) as (f2 & c2 & P2 & _).
          exists (S (f1 + f2)), false. simpl. rw_mono. auto.
      + apply andb_true_iff in Hx. destruct Hx as [Hab Hx].
        assert (NC : forall f c' o', ab = false -> pegc f Gp LR M ep s = Some (c', o') -> c' = false).
        { intros f c' o' A P. subst ab. simpl in Hab. eapply nocut_sound; eauto. }
        apply orb_true_iff in Hx. destruct Hx as [Hx|Hx].
        * (* alternative added in front *)
          apply andb_true_iff in Hx. destruct Hx as [Hx Hxe].
          apply andb_true_iff in Hx. destruct Hx as [Hrk Hcs].
          simpl in H. crunch H; inj H.
          -- exfalso. eapply requires_kw_sound_c; eauto.
          -- assert (true = false) by (eapply cut_safe_sound; eauto). discriminate.
          -- destruct (IH true _ _ _ _ _ _ HS HM Hxe Hr Hk E0) as (f2 & c2 & P2 & _).
             exists f2, c2. split; [exact P2|]. intro A. eauto.
        * (* alternative added at the end *)
          apply andb_true_iff in Hx. destruct Hx as [Hrk Hxe].
          simpl in H. crunch H; inj H.
          -- destruct (IH false _ _ _ _ _ _ HS HM Hxe Hr Hk E) as (f1 & c1 & P1 & Q1).
             exists f1, c1. split; [exact P1|]. intro A. eauto.
          -- destruct (IH false _ _ _ _ _ _ HS HM Hxe Hr Hk E) as (f1 & c1 & P1 & Q1).
             exists f1, c1. split; [exact P1|]. intro A. eauto.
          -- match goal with E0 : pegc n Gs LR M es2 s = Some (_, ?x) |- _ => destruct x as [t|] end;
               [exfalso; eapply requires_kw_sound_c; eauto|].
             destruct (IH false _ _ _ _ _ _ HS HM Hxe Hr Hk E) as (f1 & c1 & P1 & Q1).
             exists f1, c1. split; [exact P1|]. intro A. eauto.
    - (* POpt *)
      destruct ep; try discriminate Hx. simpl in Hr. simpl in H. crunch H; inj H;
        destruct (IH true _ _ _ _ _ _ HS HM Hx Hr Hk E) as (f1 & c1 & P1 & _);
        exists (S f1), false; simpl; rw_mono; auto.
    - (* PStar *)
      destruct ep; try discriminate Hx. simpl in Hr. simpl in H. crunch H; inj H.
      + destruct (IH true _ _ _ _ _ _ HS HM Hx Hr Hk E) as (f1 & c1 & P1 & _).
        destruct (IH false (PStar es) (PStar ep) _ _ _ _ HS HM Hx Hr (KS _ _ _ E) H) as (f2 & c2 & P2 & Q2).
        exists (S (f1 + f2)), c2. simpl. rw_mono. auto.
      + destruct (IH true _ _ _ _ _ _ HS HM Hx Hr Hk E) as (f1 & c1 & P1 & _).
        exists (S f1), false. simpl. rw_mono. auto.
    - (* PPlus *)
      destruct ep; try discriminate Hx. simpl in Hr. simpl in H. crunch H; inj H.
      + destruct (IH true _ _ _ _ _ _ HS HM Hx Hr Hk E) as (f1 & c1 & P1 & _).
        destruct (IH false (PStar es) (PStar ep) _ _ _ _ HS HM Hx Hr (KS _ _ _ E) H) as (f2 & c2 & P2 & Q2).
        exists (S (f1 + f2)), c2. simpl. rw_mono. auto.
      + destruct (IH true _ _ _ _ _ _ HS HM Hx Hr Hk E) as (f1 & c1 & P1 & _).
        exists (S f1), false. simpl. rw_mono. auto.
    - (* PGather *)
      destruct ep; try discriminate Hx. simpl in Hr.
      pose proof Hx as Hx'. pose proof Hr as Hr'.
      apply andb_true_iff in Hx. destruct Hx as [Hx1 Hx2].
      apply andb_true_iff in Hr. destruct Hr as [Hr1 Hr2].
      simpl in H. crunch H; inj H.
      + destruct (IH true _ _ _ _ _ _ HS HM Hx2 Hr2 Hk E) as (f1 & c1 & P1 & _).
        destruct (IH false (PStar (PSeq es1 es2)) (PStar (PSeq ep1 ep2)) _ _ _ _ HS HM Hx' Hr' (KS _ _ _ E) H)
          as (f2 & c2 & P2 & Q2).
        exists (S (f1 + f2)), c2. simpl. rw_mono. auto.
      + destruct (IH true _ _ _ _ _ _ HS HM Hx2 Hr2 Hk E) as (f1 & c1 & P1 & _).
        exists (S f1), false. simpl. rw_mono. auto.
    - (* PPos *)
      destruct ep; try discriminate Hx. simpl in Hr. simpl in H. crunch H; inj H;
        destruct (IH true _ _ _ _ _ _ HS HM Hx Hr Hk E) as (f1 & c1 & P1 & _);
        exists (S f1), false; simpl; rw_mono; auto.
    - (* PNeg *)
      destruct ep; try discriminate Hx. simpl in Hr. simpl in H. crunch H; inj H;
        destruct (IH true _ _ _ _ _ _ HS HM Hx Hr Hk E) as (f1 & c1 & P1 & _);
        exists (S f1), false; simpl; rw_mono; auto.
    - (* PCut *)
      destruct ep; try discriminate Hx. exists 1%nat, c. split; [exact H|auto].
    - (* PForced *)
      destruct ep; try discriminate Hx. simpl in Hr. simpl in H.
      destruct (IH ab _ _ _ _ _ _ HS HM Hx Hr Hk H) as (f1 & c1 & P1 & Q1).
      exists (S f1), c1. simpl. auto.
  Qed.
End Ext.

(* On keyword-free input the Scenic grammar gives exactly the Python grammar's result
   (LR: the left-recursive leader rules, the same on both sides). *)
Theorem conservative_extension_lr : forall K tbl Gs Gp LR es ep s,
  ext_grammar K tbl Gs Gp = true -> kw_consistent Gs K tbl = true ->
  ext_check K tbl es ep = true -> refs_defined Gp ep = true -> kwfree K s = true ->
  forall fuel r, peglr fuel Gs LR es s = Some r -> exists fuel', peglr fuel' Gp LR ep s = Some r.
Proof.
  intros K tbl Gs Gp LR es ep s HG HC Hx Hr Hk fuel r H. unfold peglr in *.
  destruct (pegc fuel Gs LR [] es s) as [[c o]|] eqn:E; [|discriminate]. simpl in H. inversion H; subst.
  destruct (proj1 (ext_both K tbl Gs Gp LR HG HC fuel) _ _ _ _ _ _ _ Msuf_nil (Mkw_nil K tbl) Hx Hr Hk E)
    as (f & c' & P & _).
  exists f. now rewrite P.
Qed.

Theorem conservative_extension : forall K tbl Gs Gp es ep s,
  ext_grammar K tbl Gs Gp = true -> kw_consistent Gs K tbl = true ->
  ext_check K tbl es ep = true -> refs_defined Gp ep = true -> kwfree K s = true ->
  forall fuel r, peg fuel Gs es s = Some r -> exists fuel', peg fuel' Gp ep s = Some r.
Proof. intros K tbl Gs Gp. exact (conservative_extension_lr K tbl Gs Gp []). Qed.

(* the instance for a start rule defined in the Python grammar *)
Corollary conservative_extension_rule : forall K tbl Gs Gp LR start s,
  ext_grammar K tbl Gs Gp = true -> kw_consistent Gs K tbl = true ->
  refs_defined Gp (PRule start) = true -> kwfree K s = true ->
  forall fuel r, peglr fuel Gs LR (PRule start) s = Some r ->
  exists fuel', peglr fuel' Gp LR (PRule start) s = Some r.
Proof.
  intros K tbl Gs Gp LR start s HG HC Hr Hk. eapply conservative_extension_lr; eauto.
  unfold ext_check. simpl. apply N.eqb_refl.
Qed.

(* whenever both parsers terminate they agree (covers the converse direction up to termination of the Scenic run) *)
Corollary ext_agree : forall K tbl Gs Gp LR es ep s,
  ext_grammar K tbl Gs Gp = true -> kw_consistent Gs K tbl = true ->
  ext_check K tbl es ep = true -> refs_defined Gp ep = true -> kwfree K s = true ->
  forall f1 f2 r1 r2, peglr f1 Gs LR es s = Some r1 -> peglr f2 Gp LR ep s = Some r2 -> r1 = r2.
Proof.
  intros K tbl Gs Gp LR es ep s HG HC Hx Hr Hk f1 f2 r1 r2 H1 H2.
  destruct (conservative_extension_lr _ _ _ _ _ _ _ _ HG HC Hx Hr Hk _ _ H1) as (f & P).
  pose proof (peglr_mono _ _ _ _ _ _ P (f + f2)%nat ltac:(lia)) as A.
  pose proof (peglr_mono _ _ _ _ _ _ H2 (f + f2)%nat ltac:(lia)) as B.
  congruence.
Qed.

(* ---- 4. examples -------------------------------------------------------------------------------------------- *)

Module Ex.
  (* terminals *)
  Definition NAME := 1. Definition NUMBER := 2. Definition EQ := 3.
  Definition REQUIRE := 10. Definition NEW := 11.
  (* rules *)
  Definition stmt := 0. Definition expr := 1. Definition newexpr := 2.

  (* stmt: NAME '=' expr | expr ;  expr: NAME | NUMBER *)
  Definition Gp : grammar :=
    [ (stmt, PAlt (PSeq (PTok NAME) (PSeq (PTok EQ) (PRule expr))) (PRule expr));
      (expr, PAlt (PTok NAME) (PTok NUMBER)) ].
  (* stmt: 'require' expr | NAME '=' expr | expr ;  expr: newexpr | NAME | NUMBER ;  newexpr: 'new' NAME *)
  Definition Gs : grammar :=
    [ (stmt, PAlt (PSeq (PTok REQUIRE) (PRule expr))
                  (PAlt (PSeq (PTok NAME) (PSeq (PTok EQ) (PRule expr))) (PRule expr)));
      (expr, PAlt (PRule newexpr) (PAlt (PTok NAME) (PTok NUMBER)));
      (newexpr, PSeq (PTok NEW) (PTok NAME)) ].
  Definition K := [REQUIRE; NEW].
  Definition tbl := [newexpr].

  Example ex_ext : ext_grammar K tbl Gs Gp = true. Proof. vm_compute. reflexivity. Qed.
  Example ex_kwc : kw_consistent Gs K tbl = true. Proof. vm_compute. reflexivity. Qed.
  Example ex_refs : refs_defined Gp (PRule stmt) = true. Proof. vm_compute. reflexivity. Qed.

  (* keyword-free input  x = 3 : both grammars consume everything *)
  Example ex_free : kwfree K [NAME; EQ; NUMBER] = true
    /\ peg 10 Gs (PRule stmt) [NAME; EQ; NUMBER] = Some (Some [])
    /\ peg 10 Gp (PRule stmt) [NAME; EQ; NUMBER] = Some (Some []).
  Proof. vm_compute. auto. Qed.
  (* keyword-free input on which both fail *)
  Example ex_free_fail : kwfree K [EQ; NAME] = true
    /\ peg 10 Gs (PRule stmt) [EQ; NAME] = Some None
    /\ peg 10 Gp (PRule stmt) [EQ; NAME] = Some None.
  Proof. vm_compute. auto. Qed.
  (* x = new y : Scenic consumes everything; Python fails the first alternative and takes `expr`, consuming only x *)
  Example ex_new : kwfree K [NAME; EQ; NEW; NAME] = false
    /\ peg 10 Gs (PRule stmt) [NAME; EQ; NEW; NAME] = Some (Some [])
    /\ peg 10 Gp (PRule stmt) [NAME; EQ; NEW; NAME] = Some (Some [EQ; NEW; NAME]).
  Proof. vm_compute. auto. Qed.
  (* the theorem instantiated *)
  Example ex_thm : forall LR s, kwfree K s = true -> forall fuel r,
    peglr fuel Gs LR (PRule stmt) s = Some r -> exists fuel', peglr fuel' Gp LR (PRule stmt) s = Some r.
  Proof. intros LR s Hk. exact (conservative_extension_rule K tbl Gs Gp LR stmt s ex_ext ex_kwc ex_refs Hk). Qed.

  (* left recursion (seed growing):  sum: sum '+' NAME | NAME   vs   sum: sum '+' NAME | sum 'at' NAME | NAME *)
  Definition PLUS := 4. Definition AT := 12. Definition sum := 3.
  Definition Gp2 : grammar :=
    [ (sum, PAlt (PSeq (PRule sum) (PSeq (PTok PLUS) (PTok NAME))) (PTok NAME)) ].
  Definition Gs2 : grammar :=
    [ (sum, PAlt (PSeq (PRule sum) (PSeq (PTok PLUS) (PTok NAME)))
                 (PAlt (PSeq (PRule sum) (PSeq (PTok AT) (PTok NAME))) (PTok NAME))) ].
  Example ex_lr_ext : ext_grammar [AT] [] Gs2 Gp2 = true /\ kw_consistent Gs2 [AT] [] = true.
  Proof. vm_compute. auto. Qed.
  (* x + y + z : left-associative growth consumes everything on both sides; without LR support the run diverges *)
  Example ex_lr_free :
    peglr 30 Gs2 [sum] (PRule sum) [NAME; PLUS; NAME; PLUS; NAME] = Some (Some [])
    /\ peglr 30 Gp2 [sum] (PRule sum) [NAME; PLUS; NAME; PLUS; NAME] = Some (Some [])
    /\ peg 30 Gp2 (PRule sum) [NAME; PLUS; NAME; PLUS; NAME] = None.
  Proof. vm_compute. auto. Qed.
  (* x at y + z : Scenic consumes everything, Python stops before 'at' *)
  Example ex_lr_kw :
    peglr 30 Gs2 [sum] (PRule sum) [NAME; AT; NAME; PLUS; NAME] = Some (Some [])
    /\ peglr 30 Gp2 [sum] (PRule sum) [NAME; AT; NAME; PLUS; NAME] = Some (Some [AT; NAME; PLUS; NAME]).
  Proof. vm_compute. auto. Qed.

  (* cut is precise:  r: 'a' ~ 'b' | 'a'   fails on  a  although the second alternative would match *)
  Definition Gc : grammar := [ (0, PAlt (PSeq (PTok 1) (PSeq PCut (PTok 2))) (PTok 1)) ].
  Definition Gn : grammar := [ (0, PAlt (PSeq (PTok 1) (PTok 2)) (PTok 1)) ].
  Example ex_cut : peg 10 Gc (PRule 0) [1] = Some None /\ peg 10 Gn (PRule 0) [1] = Some (Some []).
  Proof. vm_compute. auto. Qed.
  (* an added front alternative that cuts before its keyword is rejected ( ~ 'new' | NAME  always fails),
     one that cuts after the keyword is accepted *)
  Example ex_cut_front : ext_check [NEW] [] (PAlt (PSeq PCut (PTok NEW)) (PTok NAME)) (PTok NAME) = false
    /\ ext_check [NEW] [] (PAlt (PSeq (PTok NEW) (PSeq PCut (PTok NAME))) (PTok NAME)) (PTok NAME) = true.
  Proof. vm_compute. auto. Qed.
  (* an alternative inserted into a nested group whose cut flag the outer choice looks at is rejected:
     (x | a ~ b) | q   is not   a ~ b | q *)
  Example ex_cut_scope :
    ext_check [NEW] [] (PAlt (PAlt (PTok NEW) (PSeq (PTok 1) (PSeq PCut (PTok 2)))) (PTok 1))
                       (PAlt (PSeq (PTok 1) (PSeq PCut (PTok 2))) (PTok 1)) = false
    /\ ext_check [NEW] [] (PAlt (PTok NEW) (PAlt (PSeq (PTok 1) (PSeq PCut (PTok 2))) (PTok 1)))
                          (PAlt (PSeq (PTok 1) (PSeq PCut (PTok 2))) (PTok 1)) = true.
  Proof. vm_compute. auto. Qed.
  (* a zero-progress loop body diverges (pegen's generated loop would spin) *)
  Example ex_spin : peg 50 [] (PStar PEps) [1] = None. Proof. vm_compute. reflexivity. Qed.
End Ex.

Print Assumptions peglr_suffix.
Print Assumptions peglr_mono.
Print Assumptions peg_suffix.
Print Assumptions peg_mono.
Print Assumptions requires_kw_sound_lr.
Print Assumptions requires_kw_sound.
Print Assumptions conservative_extension_lr.
Print Assumptions conservative_extension.
Print Assumptions conservative_extension_rule.
Print Assumptions ext_agree.
Print Assumptions Ex.ex_thm.
