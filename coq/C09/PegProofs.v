(* C09 — proofs about the token-exact PEG interpreter of C09/Peg.v:
     peg_suffix, peg_mono          basic facts
     requires_kw_sound             an expression flagged by the keyword analysis cannot succeed on keyword-free input
     conservative_extension        on keyword-free input the extended (Scenic) grammar computes exactly the result of
                                   the base (Python) grammar: same success remainder, or failure (cut modelled precisely)
     ext_agree                     whenever both runs terminate they agree (the converse direction up to termination) *)
From Coq Require Import NArith List Bool Arith Lia.
From Scenic Require Import C10.PEG C09.Peg.
Import ListNotations.
Open Scope N_scope.

(* ---- small facts --------------------------------------------------------------------------------------------- *)

Definition suf (s s' : list N) : Prop := exists p, s = p ++ s'.

Lemma suf_refl : forall s, suf s s.
Proof. intro s; exists []; reflexivity. Qed.

Lemma suf_trans : forall a b c, suf a b -> suf b c -> suf a c.
Proof. intros a b c [p ->] [q ->]. exists (p ++ q). now rewrite app_assoc. Qed.

Lemma suf_cons : forall x s, suf (x :: s) s.
Proof. intros x s; exists [x]; reflexivity. Qed.

Lemma kwfree_suf : forall K s s', kwfree K s = true -> suf s s' -> kwfree K s' = true.
Proof.
  intros K s s' H [p ->]. unfold kwfree in *. rewrite forallb_app in H.
  apply andb_true_iff in H. tauto.
Qed.

Lemma memN_In : forall a xs, memN a xs = true -> In a xs.
Proof.
  induction xs as [|x xs IH]; simpl; intro H; [discriminate|].
  apply orb_true_iff in H. destruct H as [H|H]; [left; symmetry; now apply N.eqb_eq|right; auto].
Qed.

Lemma lookup_In : forall G r e, lookup G r = Some e -> In (r, e) G.
Proof.
  induction G as [|[r' e'] G IH]; simpl; intros r e H; [discriminate|].
  destruct (r =? r') eqn:Q.
  - apply N.eqb_eq in Q. inversion H; subst. now left.
  - right; auto.
Qed.

Lemma kwc_lookup : forall G K tbl r, kw_consistent G K tbl = true -> memN r tbl = true ->
  exists b, lookup G r = Some b /\ requires_kw K tbl b = true.
Proof.
  intros G K tbl r H M. unfold kw_consistent in H. rewrite forallb_forall in H.
  specialize (H r (memN_In _ _ M)). destruct (lookup G r) as [b|]; [|discriminate]. eauto.
Qed.

Lemma ext_grammar_lookup : forall K tbl Gs Gp r ep, ext_grammar K tbl Gs Gp = true -> lookup Gp r = Some ep ->
  exists es, lookup Gs r = Some es /\ ext_check K tbl es ep = true /\ refs_defined Gp ep = true.
Proof.
  intros K tbl Gs Gp r ep H L. unfold ext_grammar in H. rewrite forallb_forall in H.
  specialize (H _ (lookup_In _ _ _ L)). simpl in H.
  destruct (lookup Gs r) as [es|]; [|discriminate]. apply andb_true_iff in H. exists es; tauto.
Qed.

(* ---- case analysis on one interpreter step ---------------------------------------------------------------- *)

Ltac crunch H :=
  repeat match type of H with
  | context[match pegc ?n ?G ?e ?s with _ => _ end] =>
      let E := fresh "E" in revert H; destruct (pegc n G e s) as [[? ?]|] eqn:E; intro H
  | context[match ?o with Some _ => _ | None => _ end] => is_var o; destruct o
  | context[match lookup ?G ?r with _ => _ end] =>
      let L := fresh "L" in revert H; destruct (lookup G r) eqn:L; intro H
  | context[if ?b then _ else _] =>
      first [ is_var b; destruct b
            | let Q := fresh "Q" in revert H; destruct b eqn:Q; intro H ]
  | context[match ?s with [] => _ | _ :: _ => _ end] => is_var s; destruct s
  end; try discriminate H.

Ltac inj H :=
  match type of H with
  | Some _ = Some _ => inversion H; subst; clear H
  | _ => idtac
  end.

(* ---- 1. suffix and fuel monotonicity ----------------------------------------------------------------------- *)

Lemma pegc_suffix : forall fuel G e s c s', pegc fuel G e s = Some (c, Some s') -> suf s s'.
Proof.
  induction fuel as [|n IH]; intros G e s c s' H; [discriminate|].
  destruct e; simpl in H; crunch H; inj H;
    eauto 6 using suf_refl, suf_trans, suf_cons.
Qed.

Lemma pegc_mono : forall n G e s r, pegc n G e s = Some r -> forall m, (n <= m)%nat -> pegc m G e s = Some r.
Proof.
  induction n as [|n IH]; intros G e s r H m Hle; [discriminate|].
  destruct m as [|m]; [lia|]. assert (Hle' : (n <= m)%nat) by lia.
  destruct e; simpl in H |- *; crunch H;
    repeat match goal with
           | E : pegc n ?G ?e ?s = Some ?r |- _ => rewrite (IH G e s r E m Hle'); clear E; cbn iota beta
           | Q : ?b = _ |- context[?b] => rewrite Q
           end; auto.
Qed.

Theorem peg_suffix : forall fuel G e s s', peg fuel G e s = Some (Some s') -> exists p, s = p ++ s'.
Proof.
  unfold peg; intros fuel G e s s' H.
  destruct (pegc fuel G e s) as [[c [t|]]|] eqn:E; simpl in H; try discriminate.
  inversion H; subst. exact (pegc_suffix _ _ _ _ _ _ E).
Qed.

Theorem peg_mono : forall n G e s r, peg n G e s = Some r -> forall m, (n <= m)%nat -> peg m G e s = Some r.
Proof.
  unfold peg; intros n G e s r H m Hle.
  destruct (pegc n G e s) as [x|] eqn:E; [|discriminate].
  now rewrite (pegc_mono _ _ _ _ _ E m Hle).
Qed.

(* ---- 2. soundness of the keyword analysis ------------------------------------------------------------------ *)

Lemma requires_kw_sound_c : forall G K tbl, kw_consistent G K tbl = true ->
  forall fuel e s c s', requires_kw K tbl e = true -> kwfree K s = true ->
  pegc fuel G e s = Some (c, Some s') -> False.
Proof.
  intros G K tbl HC. induction fuel as [|n IH]; intros e s c s' Hrk Hk H; [discriminate|].
  destruct e; simpl in Hrk; try discriminate Hrk; simpl in H.
  - (* PTok *)
    crunch H. apply N.eqb_eq in Q; subst n0. simpl in Hk. rewrite Hrk in Hk. discriminate.
  - (* PRule *)
    destruct (kwc_lookup _ _ _ _ HC Hrk) as (b & L & Hb). rewrite L in H.
    crunch H; inj H. eauto.
  - (* PSeq *)
    crunch H; inj H. apply orb_true_iff in Hrk. destruct Hrk as [Hrk|Hrk]; [eauto|].
    eapply (IH e2 l _ _ Hrk); [|eassumption]. eapply kwfree_suf; eauto using pegc_suffix.
  - (* PAlt *)
    apply andb_true_iff in Hrk. destruct Hrk. crunch H; inj H; eauto.
  - (* PPlus *)
    crunch H; eauto.
  - (* PGather *)
    crunch H; eauto.
  - (* PForced *)
    eauto.
Qed.

Theorem requires_kw_sound : forall G K tbl e s,
  kw_consistent G K tbl = true -> requires_kw K tbl e = true -> kwfree K s = true ->
  forall fuel s', peg fuel G e s <> Some (Some s').
Proof.
  intros G K tbl e s HC Hrk Hk fuel s' H. unfold peg in H.
  destruct (pegc fuel G e s) as [[c [t|]]|] eqn:E; simpl in H; try discriminate.
  eapply requires_kw_sound_c; eauto.
Qed.

(* ---- cut-flag analyses -------------------------------------------------------------------------------------- *)

Lemma nocut_sound : forall fuel G e s c o, nocut e = true -> pegc fuel G e s = Some (c, o) -> c = false.
Proof.
  induction fuel as [|n IH]; intros G e s c o Hn H; [discriminate|].
  destruct e; simpl in Hn; try discriminate Hn; simpl in H; crunch H; inj H; auto;
    try (apply andb_true_iff in Hn; destruct Hn as [Hn1 Hn2]).
  all: repeat match goal with
              | E : pegc _ _ ?e _ = Some (?c, _), Hn : nocut ?e = true |- _ =>
                  is_var c; assert (c = false) by exact (IH _ _ _ _ _ Hn E); subst c
              end.
  all: try reflexivity.
  all: eapply IH; [|eassumption]; reflexivity.
Qed.

Lemma cut_safe_sound : forall G K tbl, kw_consistent G K tbl = true ->
  forall fuel e s c o, cut_safe K tbl e = true -> kwfree K s = true ->
  pegc fuel G e s = Some (c, o) -> c = false.
Proof.
  intros G K tbl HC. induction fuel as [|n IH]; intros e s c o Hs Hk H; [discriminate|].
  destruct e; simpl in Hs; try discriminate Hs; simpl in H.
  all: try (crunch H; inj H; auto; fail).
  - (* PSeq *)
    apply andb_true_iff in Hs. destruct Hs as [Hs1 Hs2].
    crunch H; inj H;
      match goal with E : pegc n G e1 s = Some (?c, _) |- _ =>
        assert (c = false) by exact (IH _ _ _ _ Hs1 Hk E); subst c end;
      try reflexivity;
      (apply orb_true_iff in Hs2; destruct Hs2 as [Hs2|Hs2]; [exfalso; eapply requires_kw_sound_c; eauto|]);
      match goal with E : pegc n G e1 s = Some (_, Some ?l), E0 : pegc n G e2 ?l = Some (?c, _) |- _ =>
        assert (c = false)
          by (refine (IH _ _ _ _ Hs2 _ E0); eapply kwfree_suf; eauto using pegc_suffix); subst c end;
      reflexivity.
  - (* PStar *)
    crunch H; inj H; auto. eapply (IH (PStar e)); [reflexivity| |eassumption].
    eapply kwfree_suf; eauto using pegc_suffix.
  - (* PPlus *)
    crunch H; inj H; auto. eapply (IH (PStar e)); [reflexivity| |eassumption].
    eapply kwfree_suf; eauto using pegc_suffix.
  - (* PGather *)
    crunch H; inj H; auto. eapply (IH (PStar (PSeq e1 e2))); [reflexivity| |eassumption].
    eapply kwfree_suf; eauto using pegc_suffix.
  - (* PForced *) eauto.
Qed.

(* ---- 3. the conservative-extension theorem ---------------------------------------------------------------- *)

Ltac rw_mono :=
  repeat match goal with
         | P : pegc ?f1 ?G ?e ?s = Some ?r |- context[pegc ?f ?G ?e ?s] =>
             rewrite (pegc_mono f1 G e s r P f) by lia; cbn iota beta
         | Q : Nat.eqb ?a ?b = _ |- context[Nat.eqb ?a ?b] => rewrite Q; cbn iota beta
         | L : lookup ?G ?r = _ |- context[lookup ?G ?r] => rewrite L; cbn iota beta
         end.

Section Ext.
  Variables (K tbl : list N) (Gs Gp : grammar).
  Hypothesis HG : ext_grammar K tbl Gs Gp = true.
  Hypothesis HC : kw_consistent Gs K tbl = true.

  Lemma ext_sound_c : forall fuel ab es ep s c o,
    ext_aux K tbl ab es ep = true -> refs_defined Gp ep = true -> kwfree K s = true ->
    pegc fuel Gs es s = Some (c, o) ->
    exists fuel' c', pegc fuel' Gp ep s = Some (c', o) /\ (ab = false -> c' = c).
  Proof.
    induction fuel as [|n IH]; intros ab es ep s c o Hx Hr Hk H; [discriminate|].
    assert (KS : forall a c1 s1, pegc n Gs a s = Some (c1, Some s1) -> kwfree K s1 = true)
      by (intros; eapply kwfree_suf; eauto using pegc_suffix).
    destruct es; simpl in Hx.
    - (* PTok *)
      destruct ep; try discriminate Hx. apply N.eqb_eq in Hx; subst t0.
      exists 1%nat, c. split; [exact H|auto].
    - (* PRule *)
      destruct ep; try discriminate Hx. apply N.eqb_eq in Hx; subst r0.
      simpl in Hr. destruct (lookup Gp r) as [bp|] eqn:Lp; [|discriminate].
      destruct (ext_grammar_lookup _ _ _ _ _ _ HG Lp) as (bs & Ls & Hbx & Hbr).
      simpl in H. rewrite Ls in H. crunch H; inj H.
      destruct (IH true _ _ _ _ _ Hbx Hbr Hk E) as (f1 & c1 & P1 & _).
      exists (S f1), false. simpl. rw_mono. auto.
    - (* PEps *)
      destruct ep; try discriminate Hx. exists 1%nat, c. split; [exact H|auto].
    - (* PSeq *)
      destruct ep; try discriminate Hx. apply andb_true_iff in Hx. destruct Hx as [Hx1 Hx2].
      simpl in Hr. apply andb_true_iff in Hr. destruct Hr as [Hr1 Hr2].
      simpl in H. crunch H; inj H.
      + destruct (IH ab _ _ _ _ _ Hx1 Hr1 Hk E) as (f1 & c1 & P1 & Q1).
        destruct (IH ab _ _ _ _ _ Hx2 Hr2 (KS _ _ _ E) E0) as (f2 & c2 & P2 & Q2).
        exists (S (f1 + f2)), (c1 || c2). simpl. rw_mono. split; [reflexivity|].
        intro A. now rewrite Q1, Q2.
      + destruct (IH ab _ _ _ _ _ Hx1 Hr1 Hk E) as (f1 & c1 & P1 & Q1).
        exists (S f1), c1. simpl. rw_mono. auto.
    - (* PAlt *)
      apply orb_true_iff in Hx. destruct Hx as [Hx|Hx].
      + (* same choice on both sides *)
        destruct ep; try discriminate Hx. apply andb_true_iff in Hx. destruct Hx as [Hx1 Hx2].
        simpl in Hr. apply andb_true_iff in Hr. destruct Hr as [Hr1 Hr2].
        simpl in H. crunch H; inj H.
        * destruct (IH false _ _ _ _ _ Hx1 Hr1 Hk E) as (f1 & c1 & P1 & Q1).
          exists (S f1), false. simpl. rw_mono. auto.
        * destruct (IH false _ _ _ _ _ Hx1 Hr1 Hk E) as (f1 & c1 & P1 & Q1).
          rewrite (Q1 eq_refl) in P1.
          exists (S f1), false. simpl. rw_mono. auto.
        * destruct (IH false _ _ _ _ _ Hx1 Hr1 Hk E) as (f1 & c1 & P1 & Q1).
          rewrite (Q1 eq_refl) in P1.
          destruct (IH true _ _ _ _ _ Hx2 Hr2 Hk E0) as (f2 & c2 & P2 & _).
          exists (S (f1 + f2)), false. simpl. rw_mono. auto.
      + apply andb_true_iff in Hx. destruct Hx as [Hab Hx].
        assert (NC : forall f c' o', ab = false -> pegc f Gp ep s = Some (c', o') -> c' = false).
        { intros f c' o' A P. subst ab. simpl in Hab. eapply nocut_sound; eauto. }
        apply orb_true_iff in Hx. destruct Hx as [Hx|Hx].
        * (* alternative added in front *)
          apply andb_true_iff in Hx. destruct Hx as [Hx Hxe].
          apply andb_true_iff in Hx. destruct Hx as [Hrk Hcs].
          simpl in H. crunch H; inj H.
          -- exfalso. eapply requires_kw_sound_c; eauto.
          -- assert (true = false) by (eapply cut_safe_sound; eauto). discriminate.
          -- destruct (IH true _ _ _ _ _ Hxe Hr Hk E0) as (f2 & c2 & P2 & _).
             exists f2, c2. split; [exact P2|]. intro A. eauto.
        * (* alternative added at the end *)
          apply andb_true_iff in Hx. destruct Hx as [Hrk Hxe].
          simpl in H. crunch H; inj H.
          -- destruct (IH false _ _ _ _ _ Hxe Hr Hk E) as (f1 & c1 & P1 & Q1).
             exists f1, c1. split; [exact P1|]. intro A. eauto.
          -- destruct (IH false _ _ _ _ _ Hxe Hr Hk E) as (f1 & c1 & P1 & Q1).
             exists f1, c1. split; [exact P1|]. intro A. eauto.
          -- exfalso. eapply requires_kw_sound_c; eauto.
          -- destruct (IH false _ _ _ _ _ Hxe Hr Hk E) as (f1 & c1 & P1 & Q1).
             exists f1, c1. split; [exact P1|]. intro A. eauto.
    - (* POpt *)
      destruct ep; try discriminate Hx. simpl in Hr. simpl in H. crunch H; inj H;
        destruct (IH true _ _ _ _ _ Hx Hr Hk E) as (f1 & c1 & P1 & _);
        exists (S f1), false; simpl; rw_mono; auto.
    - (* PStar *)
      destruct ep; try discriminate Hx. simpl in Hr. simpl in H. crunch H; inj H.
      + destruct (IH true _ _ _ _ _ Hx Hr Hk E) as (f1 & c1 & P1 & _).
        destruct (IH false (PStar es) (PStar ep) _ _ _ Hx Hr (KS _ _ _ E) H) as (f2 & c2 & P2 & Q2).
        exists (S (f1 + f2)), c2. simpl. rw_mono. auto.
      + destruct (IH true _ _ _ _ _ Hx Hr Hk E) as (f1 & c1 & P1 & _).
        exists (S f1), false. simpl. rw_mono. auto.
    - (* PPlus *)
      destruct ep; try discriminate Hx. simpl in Hr. simpl in H. crunch H; inj H.
      + destruct (IH true _ _ _ _ _ Hx Hr Hk E) as (f1 & c1 & P1 & _).
        destruct (IH false (PStar es) (PStar ep) _ _ _ Hx Hr (KS _ _ _ E) H) as (f2 & c2 & P2 & Q2).
        exists (S (f1 + f2)), c2. simpl. rw_mono. auto.
      + destruct (IH true _ _ _ _ _ Hx Hr Hk E) as (f1 & c1 & P1 & _).
        exists (S f1), false. simpl. rw_mono. auto.
    - (* PGather *)
      destruct ep; try discriminate Hx. simpl in Hr.
      pose proof Hx as Hx'. pose proof Hr as Hr'.
      apply andb_true_iff in Hx. destruct Hx as [Hx1 Hx2].
      apply andb_true_iff in Hr. destruct Hr as [Hr1 Hr2].
      simpl in H. crunch H; inj H.
      + destruct (IH true _ _ _ _ _ Hx2 Hr2 Hk E) as (f1 & c1 & P1 & _).
        destruct (IH false (PStar (PSeq es1 es2)) (PStar (PSeq ep1 ep2)) _ _ _ Hx' Hr' (KS _ _ _ E) H)
          as (f2 & c2 & P2 & Q2).
        exists (S (f1 + f2)), c2. simpl. rw_mono. auto.
      + destruct (IH true _ _ _ _ _ Hx2 Hr2 Hk E) as (f1 & c1 & P1 & _).
        exists (S f1), false. simpl. rw_mono. auto.
    - (* PPos *)
      destruct ep; try discriminate Hx. simpl in Hr. simpl in H. crunch H; inj H;
        destruct (IH true _ _ _ _ _ Hx Hr Hk E) as (f1 & c1 & P1 & _);
        exists (S f1), false; simpl; rw_mono; auto.
    - (* PNeg *)
      destruct ep; try discriminate Hx. simpl in Hr. simpl in H. crunch H; inj H;
        destruct (IH true _ _ _ _ _ Hx Hr Hk E) as (f1 & c1 & P1 & _);
        exists (S f1), false; simpl; rw_mono; auto.
    - (* PCut *)
      destruct ep; try discriminate Hx. exists 1%nat, c. split; [exact H|auto].
    - (* PForced *)
      destruct ep; try discriminate Hx. simpl in Hr. simpl in H.
      destruct (IH ab _ _ _ _ _ Hx Hr Hk H) as (f1 & c1 & P1 & Q1).
      exists (S f1), c1. simpl. auto.
  Qed.
End Ext.

(* On keyword-free input the Scenic grammar gives exactly the Python grammar's result. *)
Theorem conservative_extension : forall K tbl Gs Gp es ep s,
  ext_grammar K tbl Gs Gp = true -> kw_consistent Gs K tbl = true ->
  ext_check K tbl es ep = true -> refs_defined Gp ep = true -> kwfree K s = true ->
  forall fuel r, peg fuel Gs es s = Some r -> exists fuel', peg fuel' Gp ep s = Some r.
Proof.
  intros K tbl Gs Gp es ep s HG HC Hx Hr Hk fuel r H. unfold peg in *.
  destruct (pegc fuel Gs es s) as [[c o]|] eqn:E; [|discriminate]. simpl in H. inversion H; subst.
  destruct (ext_sound_c K tbl Gs Gp HG HC _ _ _ _ _ _ _ Hx Hr Hk E) as (f & c' & P & _).
  exists f. now rewrite P.
Qed.

(* the instance for a start rule defined in the Python grammar *)
Corollary conservative_extension_rule : forall K tbl Gs Gp start s,
  ext_grammar K tbl Gs Gp = true -> kw_consistent Gs K tbl = true ->
  refs_defined Gp (PRule start) = true -> kwfree K s = true ->
  forall fuel r, peg fuel Gs (PRule start) s = Some r -> exists fuel', peg fuel' Gp (PRule start) s = Some r.
Proof.
  intros K tbl Gs Gp start s HG HC Hr Hk. eapply conservative_extension; eauto.
  unfold ext_check. simpl. apply N.eqb_refl.
Qed.

(* whenever both parsers terminate they agree (covers the converse direction up to termination of the Scenic run) *)
Corollary ext_agree : forall K tbl Gs Gp es ep s,
  ext_grammar K tbl Gs Gp = true -> kw_consistent Gs K tbl = true ->
  ext_check K tbl es ep = true -> refs_defined Gp ep = true -> kwfree K s = true ->
  forall f1 f2 r1 r2, peg f1 Gs es s = Some r1 -> peg f2 Gp ep s = Some r2 -> r1 = r2.
Proof.
  intros K tbl Gs Gp es ep s HG HC Hx Hr Hk f1 f2 r1 r2 H1 H2.
  destruct (conservative_extension _ _ _ _ _ _ _ HG HC Hx Hr Hk _ _ H1) as (f & P).
  pose proof (peg_mono _ _ _ _ _ P (f + f2)%nat ltac:(lia)) as A.
  pose proof (peg_mono _ _ _ _ _ H2 (f + f2)%nat ltac:(lia)) as B.
  congruence.
Qed.

(* ---- 4. examples -------------------------------------------------------------------------------------------- *)

Module Ex.
  (* terminals *)
  Definition NAME := 1. Definition NUMBER := 2. Definition EQ := 3.
  Definition REQUIRE := 10. Definition NEW := 11.
  (* rules *)
  Definition stmt := 0. Definition expr := 1. Definition newexpr := 2.

  (* stmt: NAME '=' expr | expr ;  expr: NAME | NUMBER *)
  Definition Gp : grammar :=
    [ (stmt, PAlt (PSeq (PTok NAME) (PSeq (PTok EQ) (PRule expr))) (PRule expr));
      (expr, PAlt (PTok NAME) (PTok NUMBER)) ].
  (* stmt: 'require' expr | NAME '=' expr | expr ;  expr: newexpr | NAME | NUMBER ;  newexpr: 'new' NAME *)
  Definition Gs : grammar :=
    [ (stmt, PAlt (PSeq (PTok REQUIRE) (PRule expr))
                  (PAlt (PSeq (PTok NAME) (PSeq (PTok EQ) (PRule expr))) (PRule expr)));
      (expr, PAlt (PRule newexpr) (PAlt (PTok NAME) (PTok NUMBER)));
      (newexpr, PSeq (PTok NEW) (PTok NAME)) ].
  Definition K := [REQUIRE; NEW].
  Definition tbl := [newexpr].

  Example ex_ext : ext_grammar K tbl Gs Gp = true. Proof. vm_compute. reflexivity. Qed.
  Example ex_kwc : kw_consistent Gs K tbl = true. Proof. vm_compute. reflexivity. Qed.
  Example ex_refs : refs_defined Gp (PRule stmt) = true. Proof. vm_compute. reflexivity. Qed.

  (* keyword-free input  x = 3 : both grammars consume everything *)
  Example ex_free : kwfree K [NAME; EQ; NUMBER] = true
    /\ peg 10 Gs (PRule stmt) [NAME; EQ; NUMBER] = Some (Some [])
    /\ peg 10 Gp (PRule stmt) [NAME; EQ; NUMBER] = Some (Some []).
  Proof. vm_compute. auto. Qed.
  (* keyword-free input on which both fail *)
  Example ex_free_fail : kwfree K [EQ; NAME] = true
    /\ peg 10 Gs (PRule stmt) [EQ; NAME] = Some None
    /\ peg 10 Gp (PRule stmt) [EQ; NAME] = Some None.
  Proof. vm_compute. auto. Qed.
  (* x = new y : Scenic consumes everything, Python stops after  x = ... no: fails the first alternative, takes `expr` *)
  Example ex_new : kwfree K [NAME; EQ; NEW; NAME] = false
    /\ peg 10 Gs (PRule stmt) [NAME; EQ; NEW; NAME] = Some (Some [])
    /\ peg 10 Gp (PRule stmt) [NAME; EQ; NEW; NAME] = Some (Some [EQ; NEW; NAME]).
  Proof. vm_compute. auto. Qed.
  (* the theorem instantiated *)
  Example ex_thm : forall s, kwfree K s = true -> forall fuel r,
    peg fuel Gs (PRule stmt) s = Some r -> exists fuel', peg fuel' Gp (PRule stmt) s = Some r.
  Proof. intros s Hk. exact (conservative_extension_rule K tbl Gs Gp stmt s ex_ext ex_kwc ex_refs Hk). Qed.

  (* cut is precise:  r: 'a' ~ 'b' | 'a'   fails on  a  although the second alternative would match *)
  Definition Gc : grammar := [ (0, PAlt (PSeq (PTok 1) (PSeq PCut (PTok 2))) (PTok 1)) ].
  Definition Gn : grammar := [ (0, PAlt (PSeq (PTok 1) (PTok 2)) (PTok 1)) ].
  Example ex_cut : peg 10 Gc (PRule 0) [1] = Some None /\ peg 10 Gn (PRule 0) [1] = Some (Some []).
  Proof. vm_compute. auto. Qed.
  (* an added front alternative that cuts before its keyword is rejected ( ~ 'new' | NAME  always fails),
     one that cuts after the keyword is accepted *)
  Example ex_cut_front : ext_check [NEW] [] (PAlt (PSeq PCut (PTok NEW)) (PTok NAME)) (PTok NAME) = false
    /\ ext_check [NEW] [] (PAlt (PSeq (PTok NEW) (PSeq PCut (PTok NAME))) (PTok NAME)) (PTok NAME) = true.
  Proof. vm_compute. auto. Qed.
  (* an alternative inserted into a nested group whose cut flag the outer choice looks at is rejected:
     (x | a ~ b) | q   is not   a ~ b | q *)
  Example ex_cut_scope :
    ext_check [NEW] [] (PAlt (PAlt (PTok NEW) (PSeq (PTok 1) (PSeq PCut (PTok 2)))) (PTok 1))
                       (PAlt (PSeq (PTok 1) (PSeq PCut (PTok 2))) (PTok 1)) = false
    /\ ext_check [NEW] [] (PAlt (PTok NEW) (PAlt (PSeq (PTok 1) (PSeq PCut (PTok 2))) (PTok 1)))
                          (PAlt (PSeq (PTok 1) (PSeq PCut (PTok 2))) (PTok 1)) = true.
  Proof. vm_compute. auto. Qed.
  (* a zero-progress loop body diverges (pegen's generated loop would spin) *)
  Example ex_spin : peg 50 [] (PStar PEps) [1] = None. Proof. vm_compute. reflexivity. Qed.
End Ex.

Print Assumptions peg_suffix.
Print Assumptions peg_mono.
Print Assumptions requires_kw_sound.
Print Assumptions conservative_extension.
Print Assumptions conservative_extension_rule.
Print Assumptions ext_agree.
Print Assumptions Ex.ex_thm.
