(* C09 — lemmas about the compiler model and the documented rewriting. *)
From Coq Require Import ZArith NArith List Bool Lia.
From Scenic Require Import C09.PyRewrite.
Import ListNotations.
Open Scope N_scope.

(* ---------------------------------------------------------------- induction over nested trees *)
Section tree_ind2.
  Variable P : tree -> Prop.
  Hypothesis HN : forall k li ch, Forall P ch -> P (Node k li ch).
  Hypothesis HL : forall xs, Forall P xs -> P (Lst xs).
  Hypothesis HA : forall a, P (Atom a).
  Hypothesis HI : forall z, P (Int z).
  Fixpoint tree_ind2 (t : tree) : P t :=
    match t with
    | Node k li ch =>
        HN k li ch ((fix go (xs : list tree) : Forall P xs :=
                       match xs with [] => Forall_nil P | x :: r => Forall_cons x (tree_ind2 x) (go r) end) ch)
    | Lst xs =>
        HL xs ((fix go (xs : list tree) : Forall P xs :=
                  match xs with [] => Forall_nil P | x :: r => Forall_cons x (tree_ind2 x) (go r) end) xs)
    | Atom a => HA a
    | Int z => HI z
    end.
End tree_ind2.

(* ---------------------------------------------------------------- named versions of the local loops *)
Definition compile_list (c : ctx) : list tree -> res (list tree) :=
  fix go (xs : list tree) : res (list tree) :=
    match xs with
    | [] => OK []
    | x :: r => bind (compile_py c x) (fun x' => bind (go r) (fun r' => OK (x' :: r')))
    end.

Definition compile_arg (c : ctx) (x : tree) : res tree :=
  match x with
  | Node k li [v; cx] =>
      if (k =? K_Starred) && negb (inBehavior c) then
        bind (compile_py c v) (fun v' =>
          match line_of v with
          | Some ln =>
              OK (Node K_Starred Missing
                    [Node K_Call Missing
                       [Node K_Name Missing [Atom A_wrapStarred; load];
                        Lst [v'; Node K_Constant Missing [Int ln; Atom A_None]];
                        Lst []];
                     load])
          | None => Crash
          end)
      else compile_py c x
  | Node k _ _ => if (k =? K_Starred) && negb (inBehavior c) then Crash else compile_py c x
  | _ => compile_py c x
  end.

Definition compile_args (c : ctx) : list tree -> res (list tree) :=
  fix go (xs : list tree) : res (list tree) :=
    match xs with
    | [] => OK []
    | x :: r => bind (compile_arg c x) (fun x' => bind (go r) (fun r' => OK (x' :: r')))
    end.

Lemma compile_py_eq : forall c t,
  compile_py c t =
  match t with
  | Atom _ | Int _ => OK t
  | Lst xs => bind (compile_list c xs) (fun xs' => OK (Lst xs'))
  | Node k li ch =>
      if is_scenic k then Crash
      else if k =? K_Name then visit_name c li ch
      else if k =? K_Call then
        match ch with
        | [f; Lst args; Lst kws] =>
            bind (compile_args c args) (fun args' =>
            bind (compile_list c kws) (fun kws' =>
            bind (compile_py c f) (fun f0 =>
              let f' := lift_func f0 in
              if existsb is_starred args && negb (inBehavior c) then
                OK (Node K_Call li [Node K_Name Missing [Atom A_callStar; load]; Lst (f' :: args'); Lst kws'])
              else OK (Node K_Call li [f'; Lst args'; Lst kws']))))
        | _ => Crash
        end
      else if k =? K_ClassDef then
        match ch with
        | name :: Lst bases :: kws :: Lst body :: rest =>
            match has_annassign body with
            | Some sli => err_at EAnnAssign sli
            | None =>
                bind (compile_py c name) (fun name' =>
                bind (match bases with
                      | [] => bind (object_base c) (fun b => OK [b])
                      | _ => compile_list c bases
                      end) (fun bases' =>
                bind (compile_py c kws) (fun kws' =>
                bind (compile_list c body) (fun body' =>
                bind (props_assign c) (fun pa =>
                bind (compile_list c rest) (fun rest' =>
                  OK (Node k li (name' :: Lst bases' :: kws' :: Lst (body' ++ [pa]) :: rest'))))))))
            end
        | _ => Crash
        end
      else if ((k =? K_Yield) || (k =? K_YieldFrom)) && (inCompose c || inBehavior c) then
        err_at EYield li
      else bind (compile_list c ch) (fun ch' => OK (Node k li ch'))
  end.
Proof.
  intros c t. destruct t as [k li ch| xs | a | z]; reflexivity.
Qed.

(* the spec's treatment of one call argument *)
Definition rewrite_arg (c : ctx) (li : locinfo) (x : tree) : tree :=
  match x with
  | Node ks _ [v; _] =>
      if (ks =? K_Starred) && negb (inBehavior c) then
        match line_of v with
        | Some ln => wrap_star li (rewrite_doc c v) ln
        | None => rewrite_doc c x
        end
      else rewrite_doc c x
  | _ => rewrite_doc c x
  end.

Lemma rewrite_doc_eq : forall c t,
  rewrite_doc c t =
  match t with
  | Atom _ | Int _ => t
  | Lst xs => Lst (map (rewrite_doc c) xs)
  | Node k li ch =>
      if k =? K_Name then
        match ch with
        | [Atom a; cx] =>
            if is_load cx && (is_tracked a || (a =? A_globalParameters)) then accessor_call li a
            else if negb (is_builtin a) && negb (is_tracked a) && memN a (locals c) then
              Node K_Attribute li [Node K_Name li [Atom A_behaviorArg; load]; Atom a; cx]
            else t
        | _ => t
        end
      else if k =? K_Call then
        match ch with
        | [f; Lst args; Lst kws] =>
            let f' := lift_func (rewrite_doc c f) in
            let args' := map (rewrite_arg c li) args in
            let kws' := map (rewrite_doc c) kws in
            if existsb is_starred args && negb (inBehavior c) then
              Node K_Call li [Node K_Name li [Atom A_callStar; load]; Lst (f' :: args'); Lst kws']
            else Node K_Call li [f'; Lst args'; Lst kws']
        | _ => Node k li (map (rewrite_doc c) ch)
        end
      else if k =? K_ClassDef then
        match ch with
        | name :: Lst bases :: kws :: Lst body :: rest =>
            let bases' := match bases with
                          | [] => [Node K_Name li [Atom A_Object; load]]
                          | _ => map (rewrite_doc c) bases
                          end in
            Node k li (rewrite_doc c name :: Lst bases' :: rewrite_doc c kws
                         :: Lst (map (rewrite_doc c) body ++ [props_assign_at li])
                         :: map (rewrite_doc c) rest)
        | _ => Node k li (map (rewrite_doc c) ch)
        end
      else Node k li (map (rewrite_doc c) ch)
  end.
Proof.
  intros c t. destruct t as [k li ch| xs | a | z]; try reflexivity.
Qed.

(* ---------------------------------------------------------------- small facts *)
Lemma bind_OK : forall A B (r : res A) (f : A -> res B) b,
  bind r f = OK b -> exists a, r = OK a /\ f a = OK b.
Proof. intros A B [a|e|] f b H; cbn in H; try discriminate. eauto. Qed.

Lemma fix_missing_load : forall cur, fix_missing cur load = load.
Proof. reflexivity. Qed.

Lemma fix_missing_lift : forall cur f, fix_missing cur (lift_func f) = lift_func (fix_missing cur f).
Proof.
  intros cur [k li ch| | |]; try reflexivity.
  destruct ch as [|x [|y [|z r]]]; try (destruct li; reflexivity).
  - destruct x; destruct li; reflexivity.
  - destruct x as [kx lx cx| |a|]; try (destruct li; reflexivity).
    cbn [lift_func]. destruct (k =? K_Name) eqn:E; destruct li; cbn [fix_missing map lift_func]; rewrite ?E; reflexivity.
  - destruct x; destruct li; reflexivity.
Qed.

Lemma wf_node : forall k li ch, wf (Node k li ch) = true ->
  shape_ok_node k li ch = true /\ Forall (fun t => wf t = true) ch.
Proof.
  intros k li ch H. cbn [wf] in H. apply andb_true_iff in H as [H1 H2]. split; [exact H1|].
  apply Forall_forall. apply forallb_forall. exact H2.
Qed.

Lemma wf_lst : forall xs, wf (Lst xs) = true -> Forall (fun t => wf t = true) xs.
Proof. intros xs H. apply Forall_forall. apply forallb_forall. exact H. Qed.

Lemma ctx_ok_object : forall c, ctx_ok c = true -> object_base c = OK (Node K_Name Missing [Atom A_Object; load]).
Proof.
  intros c H. unfold ctx_ok in H. apply andb_true_iff in H as [H1 _].
  unfold object_base, visit_name. cbn [is_builtin is_tracked].
  change (is_builtin A_Object) with false. change (is_tracked A_Object) with false.
  apply negb_true_iff in H1. rewrite H1. reflexivity.
Qed.

Lemma ctx_ok_props : forall c, ctx_ok c = true ->
  props_assign c = OK (Node K_Assign Missing [Lst [Node K_Name Missing [Atom A_props; store]];
                                                Node K_Dict Missing [Lst []; Lst []]; Atom A_None]).
Proof.
  intros c H. unfold ctx_ok in H. apply andb_true_iff in H as [_ H1].
  unfold props_assign, visit_name.
  change (is_builtin A_props) with false. change (is_tracked A_props) with false.
  apply negb_true_iff in H1. rewrite H1. reflexivity.
Qed.

(* ---------------------------------------------------------------- size, for induction through grand-children *)
Fixpoint size (t : tree) : nat :=
  match t with
  | Node _ _ ch => S (list_sum (map size ch))
  | Lst xs => S (list_sum (map size xs))
  | _ => 1%nat
  end.

Lemma size_in : forall x xs, In x xs -> (size x <= list_sum (map size xs))%nat.
Proof.
  intros x xs. induction xs as [|y r IH]; intros H; [destruct H|].
  cbn [map list_sum]. destruct H as [->|H]; [lia|]. specialize (IH H). lia.
Qed.

(* ---------------------------------------------------------------- T1: the compiler performs the documented rewriting *)
Definition agrees (c : ctx) (t : tree) : Prop :=
  wf t = true -> forall t' cur, compile_py c t = OK t' -> fix_missing cur t' = rewrite_doc c t.

Lemma list_agrees : forall c xs, (forall x, In x xs -> agrees c x) -> Forall (fun t => wf t = true) xs ->
  forall xs' cur, compile_list c xs = OK xs' -> map (fix_missing cur) xs' = map (rewrite_doc c) xs.
Proof.
  intros c xs. induction xs as [|x r IH]; intros HA Hwf xs' cur H.
  - cbn in H. injection H as <-. reflexivity.
  - inversion Hwf as [|? ? Hwx Hwr]; subst. cbn [compile_list] in H.
    apply bind_OK in H as [x' [Hx' H]]. apply bind_OK in H as [r' [Hr' H]]. injection H as <-.
    cbn [map]. f_equal.
    + apply HA; [left; reflexivity | assumption | assumption].
    + apply IH; try assumption. intros y Hy. apply HA. right. exact Hy.
Qed.

Lemma arg_agrees : forall c l x,
  agrees c x -> (forall v k li cx, x = Node k li [v; cx] -> agrees c v) -> wf x = true ->
  forall x', compile_arg c x = OK x' -> fix_missing l x' = rewrite_arg c (Located l) x.
Proof.
  intros c l x Hx Hv Hwx x' Hx'.
  destruct x as [k li ch| | |]; try (apply Hx; assumption).
  destruct ch as [|v [|cx [|w r]]].
  - cbn [compile_arg rewrite_arg] in *.
    destruct ((k =? K_Starred) && negb (inBehavior c)); [discriminate | apply Hx; assumption].
  - cbn [compile_arg rewrite_arg] in *.
    destruct ((k =? K_Starred) && negb (inBehavior c)); [discriminate | apply Hx; assumption].
  - cbn [compile_arg rewrite_arg] in *.
    destruct ((k =? K_Starred) && negb (inBehavior c)) eqn:E; [| apply Hx; assumption].
    apply bind_OK in Hx' as [v' [Hv' Hx']].
    apply andb_true_iff in E as [Ek _]. apply N.eqb_eq in Ek. subst k.
    pose proof Hwx as Hwx0. apply wf_node in Hwx as [Hs Hch]. cbn in Hs.
    destruct li as [ls| |]; try discriminate.
    destruct v as [kv [lv| |] chv| | |]; try discriminate.
    cbn [line_of] in *. injection Hx' as <-.
    inversion Hch as [|? ? Hwv _]; subst.
    unfold wrap_star. cbn [fix_missing map]. repeat f_equal.
    eapply Hv; [reflexivity | assumption | assumption].
  - cbn [compile_arg rewrite_arg] in *.
    destruct ((k =? K_Starred) && negb (inBehavior c)); [discriminate | apply Hx; assumption].
Qed.

Lemma args_agree : forall c l xs,
  (forall x, In x xs -> agrees c x) ->
  (forall x v k li cx, In x xs -> x = Node k li [v; cx] -> agrees c v) ->
  Forall (fun t => wf t = true) xs ->
  forall xs', compile_args c xs = OK xs' -> map (fix_missing l) xs' = map (rewrite_arg c (Located l)) xs.
Proof.
  intros c l xs. induction xs as [|x r IH]; intros HA HV Hwf xs' H.
  - cbn in H. injection H as <-. reflexivity.
  - inversion Hwf as [|? ? Hwx Hwr]; subst. cbn [compile_args] in H.
    apply bind_OK in H as [x' [Hx' H]]. apply bind_OK in H as [r' [Hr' H]]. injection H as <-.
    cbn [map]. f_equal.
    + apply arg_agrees; try assumption.
      * apply HA. left. reflexivity.
      * intros v k li cx E. eapply HV; [left; reflexivity | exact E].
    + apply IH; try assumption.
      * intros y Hy. apply HA. right. exact Hy.
      * intros y v k li cx Hy E. eapply HV; [right; exact Hy | exact E].
Qed.

Lemma compile_agrees_sized : forall c, ctx_ok c = true -> forall n t, (size t < n)%nat -> agrees c t.
Proof.
  intros c Hc n. induction n as [|n IH]; intros t Hsz; [lia|].
  intros Hwf t' cur H. rewrite compile_py_eq in H. rewrite rewrite_doc_eq.
  destruct t as [k li ch| xs | a | z].
  4: { injection H as <-. reflexivity. }
  3: { injection H as <-. reflexivity. }
  2: { apply bind_OK in H as [xs' [Hxs H]]. injection H as <-. cbn [fix_missing]. f_equal.
       apply list_agrees with (c := c); try assumption.
       - intros x Hx. apply IH. cbn [size] in Hsz. pose proof (size_in _ _ Hx). lia.
       - apply wf_lst. exact Hwf. }
  pose proof Hwf as Hwf0. apply wf_node in Hwf as [Hs Hch].
  assert (Hkids : forall x, In x ch -> agrees c x).
  { intros x Hx. apply IH. cbn [size] in Hsz. pose proof (size_in _ _ Hx). lia. }
  unfold shape_ok_node in Hs. apply andb_true_iff in Hs as [Hsc Hs]. apply negb_true_iff in Hsc.
  rewrite Hsc in H.
  destruct (k =? K_Name) eqn:EN.
  { (* Name *)
    destruct li as [l| |]; try discriminate.
    destruct ch as [|[ | |a| ] [|[kc [| |] [|]| | |] [|]]]; try discriminate.
    unfold visit_name in H.
    destruct (is_builtin a) eqn:Eb.
    - cbn [is_load]. destruct (kc =? K_Load) eqn:El; cbn [negb] in H; [|discriminate].
      cbn [is_load andb negb] in *. rewrite El in *. cbn [negb andb] in *.
      destruct (a =? A_globalParameters) eqn:Eg.
      + injection H as <-. rewrite orb_true_r. cbn [andb]. unfold accessor_call. reflexivity.
      + assert (is_tracked a = false) as Et.
        { unfold is_builtin in Eb. rewrite Eg in Eb. cbn [orb] in Eb. unfold is_tracked.
          apply orb_true_iff in Eb. destruct Eb as [Eb|Eb].
          - apply orb_true_iff in Eb as [Eb|Eb]; apply N.eqb_eq in Eb; subst a; reflexivity.
          - apply N.eqb_eq in Eb; subst a; reflexivity. }
        rewrite Et. cbn [orb andb negb]. injection H as <-. reflexivity.
    - destruct (is_tracked a) eqn:Et.
      + cbn [is_load] in *. destruct (kc =? K_Load) eqn:El; cbn [negb] in H; [|discriminate].
        injection H as <-. cbn [orb andb]. unfold accessor_call. reflexivity.
      + cbn [negb andb orb].
        assert ((a =? A_globalParameters) = false) as Eg.
        { unfold is_builtin in Eb. apply orb_false_iff in Eb as [Eb _]. apply orb_false_iff in Eb as [Eb _].
          apply orb_false_iff in Eb as [Eb _]. exact Eb. }
        rewrite Eg. rewrite andb_false_r.
        destruct (memN a (locals c)); injection H as <-; reflexivity. }
  destruct (k =? K_Call) eqn:EC.
  { (* Call *)
    apply N.eqb_eq in EC. subst k.
    destruct li as [l| |]; try discriminate.
    destruct ch as [|f [|[ | args | | ] [|[ | kws | | ] [|]]]]; try discriminate.
    apply bind_OK in H as [args' [Ha H]]. apply bind_OK in H as [kws' [Hk H]].
    apply bind_OK in H as [f0 [Hf H]]. cbn zeta in H.
    inversion Hch as [|? ? Hwf_f Hch1]; subst. inversion Hch1 as [|? ? Hwf_a Hch2]; subst.
    inversion Hch2 as [|? ? Hwf_k _]; subst.
    assert (Hf' : fix_missing l (lift_func f0) = lift_func (rewrite_doc c f)).
    { rewrite fix_missing_lift. f_equal. apply Hkids; [left; reflexivity | assumption | assumption]. }
    assert (Ha' : map (fix_missing l) args' = map (rewrite_arg c (Located l)) args).
    { apply args_agree; try assumption.
      - intros x Hx. apply IH. cbn [size map list_sum] in Hsz. pose proof (size_in _ _ Hx). lia.
      - intros x v k li cx Hx E. apply IH. subst x. cbn [size map list_sum] in Hsz.
        pose proof (size_in _ _ Hx) as Hle. cbn [size map list_sum] in Hle. lia.
      - apply wf_lst. exact Hwf_a. }
    assert (Hk' : map (fix_missing l) kws' = map (rewrite_doc c) kws).
    { apply list_agrees with (c := c); try assumption.
      - intros x Hx. apply IH. cbn [size map list_sum] in Hsz. pose proof (size_in _ _ Hx). lia.
      - apply wf_lst. exact Hwf_k. }
    cbn zeta.
    destruct (existsb is_starred args && negb (inBehavior c)); injection H as <-;
      cbn [fix_missing map]; rewrite Hf', Ha', Hk'; reflexivity. }
  destruct (k =? K_ClassDef) eqn:ED.
  { (* ClassDef *)
    apply N.eqb_eq in ED. subst k.
    destruct li as [l| |]; try discriminate.
    destruct ch as [|name [|[ | bases | | ] [|kws [|[ | body | | ] rest]]]]; try discriminate.
    destruct (has_annassign body) as [sli|]; [destruct sli; discriminate|].
    apply bind_OK in H as [name' [Hn H]]. apply bind_OK in H as [bases' [Hb H]].
    apply bind_OK in H as [kws' [Hk H]]. apply bind_OK in H as [body' [Hbd H]].
    apply bind_OK in H as [pa [Hpa H]]. apply bind_OK in H as [rest' [Hr H]]. injection H as <-.
    inversion Hch as [|? ? Hwf_n Hch1]; subst. inversion Hch1 as [|? ? Hwf_b Hch2]; subst.
    inversion Hch2 as [|? ? Hwf_k Hch3]; subst. inversion Hch3 as [|? ? Hwf_bd Hwf_r]; subst.
    rewrite ctx_ok_props in Hpa by assumption. injection Hpa as <-.
    cbn [fix_missing map]. f_equal. f_equal.
    { apply Hkids; [left; reflexivity | assumption | assumption]. }
    f_equal.
    { f_equal. destruct bases as [|b0 br].
      - rewrite ctx_ok_object in Hb by assumption. cbn in Hb. injection Hb as <-. reflexivity.
      - apply list_agrees with (c := c); try assumption.
        + intros x Hx. apply IH. cbn [size map list_sum] in Hsz.
          pose proof (size_in _ _ Hx) as Hle. cbn [map list_sum] in Hle. cbn [map list_sum]. lia.
        + apply wf_lst. exact Hwf_b. }
    f_equal.
    { apply Hkids; [right; right; left; reflexivity | assumption | assumption]. }
    f_equal.
    { f_equal. rewrite map_app. f_equal.
      apply list_agrees with (c := c); try assumption.
      - intros x Hx. apply IH. cbn [size map list_sum] in Hsz. pose proof (size_in _ _ Hx). lia.
      - apply wf_lst. exact Hwf_bd. }
    apply list_agrees with (c := c); try assumption.
    intros x Hx. apply Hkids. right; right; right; right. exact Hx. }
  (* every other kind: generic_visit *)
  destruct (((k =? K_Yield) || (k =? K_YieldFrom)) && (inCompose c || inBehavior c)).
  { destruct li; discriminate. }
  apply bind_OK in H as [ch' [Hc' H]]. injection H as <-.
  assert (forall cur0, map (fix_missing cur0) ch' = map (rewrite_doc c) ch) as Hm.
  { intros cur0. apply list_agrees with (c := c); assumption. }
  destruct li as [l| |].
  - cbn [fix_missing]. rewrite Hm. reflexivity.
  - destruct ((k =? K_AnnAssign) || (k =? K_Yield) || (k =? K_YieldFrom)); discriminate.
  - cbn [fix_missing]. rewrite Hm. reflexivity.
Qed.

Theorem compile_py_is_rewrite : forall c t t' cur,
  ctx_ok c = true -> wf t = true -> compile_py c t = OK t' -> fix_missing cur t' = rewrite_doc c t.
Proof.
  intros c t t' cur Hc Hwf H.
  exact (compile_agrees_sized c Hc (S (size t)) t (Nat.lt_succ_diag_r _) Hwf t' cur H).
Qed.
