(* C09 — lemmas about the compiler model and the documented rewriting. *)
From Coq Require Import ZArith NArith List Bool Lia.
From Scenic Require Import C09.PyRewrite.
Import ListNotations.
Open Scope N_scope.

(* ---------------------------------------------------------------- induction over nested trees *)
Section tree_ind2.
  Variable P : tree -> Prop.
  Hypothesis HN : forall k li ch, Forall P ch -> P (Node k li ch).
  Hypothesis HL : forall xs, Forall P xs -> P (Lst xs).
  Hypothesis HA : forall a, P (Atom a).
  Hypothesis HI : forall z, P (Int z).
  Fixpoint tree_ind2 (t : tree) : P t :=
    match t with
    | Node k li ch =>
        HN k li ch ((fix go (xs : list tree) : Forall P xs :=
                       match xs with [] => Forall_nil P | x :: r => Forall_cons x (tree_ind2 x) (go r) end) ch)
    | Lst xs =>
        HL xs ((fix go (xs : list tree) : Forall P xs :=
                  match xs with [] => Forall_nil P | x :: r => Forall_cons x (tree_ind2 x) (go r) end) xs)
    | Atom a => HA a
    | Int z => HI z
    end.
End tree_ind2.

(* ---------------------------------------------------------------- named versions of the local loops *)
Definition compile_list (c : ctx) : list tree -> res (list tree) :=
  fix go (xs : list tree) : res (list tree) :=
    match xs with
    | [] => OK []
    | x :: r => bind (compile_py c x) (fun x' => bind (go r) (fun r' => OK (x' :: r')))
    end.

Definition compile_arg (c : ctx) (x : tree) : res tree :=
  match x with
  | Node k li [v; cx] =>
      if (k =? K_Starred) && negb (inBehavior c) then
        bind (compile_py c v) (fun v' =>
          match line_of v with
          | Some ln =>
              OK (Node K_Starred Missing
                    [Node K_Call Missing
                       [Node K_Name Missing [Atom A_wrapStarred; load];
                        Lst [v'; Node K_Constant Missing [Int ln; Atom A_None]];
                        Lst []];
                     load])
          | None => Crash
          end)
      else compile_py c x
  | Node k _ _ => if (k =? K_Starred) && negb (inBehavior c) then Crash else compile_py c x
  | _ => compile_py c x
  end.

Definition compile_args (c : ctx) : list tree -> res (list tree) :=
  fix go (xs : list tree) : res (list tree) :=
    match xs with
    | [] => OK []
    | x :: r => bind (compile_arg c x) (fun x' => bind (go r) (fun r' => OK (x' :: r')))
    end.

Lemma compile_py_eq : forall c t,
  compile_py c t =
  match t with
  | Atom _ | Int _ => OK t
  | Lst xs => bind (compile_list c xs) (fun xs' => OK (Lst xs'))
  | Node k li ch =>
      if is_scenic k then Crash
      else if k =? K_Name then visit_name c li ch
      else if k =? K_Call then
        match ch with
        | [f; Lst args; Lst kws] =>
            bind (compile_args c args) (fun args' =>
            bind (compile_list c kws) (fun kws' =>
            bind (compile_py c f) (fun f0 =>
              let f' := lift_func f0 in
              if existsb is_starred args && negb (inBehavior c) then
                OK (Node K_Call li [Node K_Name Missing [Atom A_callStar; load]; Lst (f' :: args'); Lst kws'])
              else OK (Node K_Call li [f'; Lst args'; Lst kws']))))
        | _ => Crash
        end
      else if k =? K_ClassDef then
        match ch with
        | name :: Lst bases :: kws :: Lst body :: rest =>
            match has_annassign body with
            | Some sli => err_at EAnnAssign sli
            | None =>
                bind (compile_py c name) (fun name' =>
                bind (match bases with
                      | [] => bind (object_base c) (fun b => OK [b])
                      | _ => compile_list c bases
                      end) (fun bases' =>
                bind (compile_py c kws) (fun kws' =>
                bind (compile_list c body) (fun body' =>
                bind (props_assign c) (fun pa =>
                bind (compile_list c rest) (fun rest' =>
                  OK (Node k li (name' :: Lst bases' :: kws' :: Lst (body' ++ [pa]) :: rest'))))))))
            end
        | _ => Crash
        end
      else if ((k =? K_Yield) || (k =? K_YieldFrom)) && (inCompose c || inBehavior c) then
        err_at EYield li
      else bind (compile_list c ch) (fun ch' => OK (Node k li ch'))
  end.
Proof.
  intros c t. destruct t as [k li ch| xs | a | z]; reflexivity.
Qed.

(* the spec's treatment of one call argument *)
Definition rewrite_arg (c : ctx) (li : locinfo) (x : tree) : tree :=
  match x with
  | Node ks _ [v; _] =>
      if (ks =? K_Starred) && negb (inBehavior c) then
        match line_of v with
        | Some ln => wrap_star li (rewrite_doc c v) ln
        | None => rewrite_doc c x
        end
      else rewrite_doc c x
  | _ => rewrite_doc c x
  end.

Lemma rewrite_doc_eq : forall c t,
  rewrite_doc c t =
  match t with
  | Atom _ | Int _ => t
  | Lst xs => Lst (map (rewrite_doc c) xs)
  | Node k li ch =>
      if k =? K_Name then
        match ch with
        | [Atom a; cx] =>
            if is_load cx && (is_tracked a || (a =? A_globalParameters)) then accessor_call li a
            else if negb (is_builtin a) && negb (is_tracked a) && memN a (locals c) then
              Node K_Attribute li [Node K_Name li [Atom A_behaviorArg; load]; Atom a; cx]
            else t
        | _ => t
        end
      else if k =? K_Call then
        match ch with
        | [f; Lst args; Lst kws] =>
            let f' := lift_func (rewrite_doc c f) in
            let args' := map (rewrite_arg c li) args in
            let kws' := map (rewrite_doc c) kws in
            if existsb is_starred args && negb (inBehavior c) then
              Node K_Call li [Node K_Name li [Atom A_callStar; load]; Lst (f' :: args'); Lst kws']
            else Node K_Call li [f'; Lst args'; Lst kws']
        | _ => Node k li (map (rewrite_doc c) ch)
        end
      else if k =? K_ClassDef then
        match ch with
        | name :: Lst bases :: kws :: Lst body :: rest =>
            let bases' := match bases with
                          | [] => [Node K_Name li [Atom A_Object; load]]
                          | _ => map (rewrite_doc c) bases
                          end in
            Node k li (rewrite_doc c name :: Lst bases' :: rewrite_doc c kws
                         :: Lst (map (rewrite_doc c) body ++ [props_assign_at li])
                         :: map (rewrite_doc c) rest)
        | _ => Node k li (map (rewrite_doc c) ch)
        end
      else Node k li (map (rewrite_doc c) ch)
  end.
Proof.
  intros c t. destruct t as [k li ch| xs | a | z]; try reflexivity.
Qed.

(* ---------------------------------------------------------------- small facts *)
Lemma bind_OK : forall A B (r : res A) (f : A -> res B) b,
  bind r f = OK b -> exists a, r = OK a /\ f a = OK b.
Proof. intros A B [a|e|] f b H; cbn in H; try discriminate. eauto. Qed.

Lemma fix_missing_load : forall cur, fix_missing cur load = load.
Proof. reflexivity. Qed.

Lemma fix_missing_lift : forall cur f, fix_missing cur (lift_func f) = lift_func (fix_missing cur f).
Proof.
  intros cur [k li ch| | |]; try reflexivity.
  destruct ch as [|x [|y [|z r]]]; try (destruct li; reflexivity).
  - destruct x as [kx [| |] cx| | |]; destruct li; reflexivity.
  - destruct x as [kx [| |] cx| |a|]; try (destruct li; reflexivity).
    cbn [lift_func]. destruct (k =? K_Name) eqn:E; destruct li; cbn [fix_missing map lift_func]; rewrite ?E; reflexivity.
  - destruct x as [kx [| |] cx| | |]; destruct li; reflexivity.
Qed.

Lemma wf_node : forall k li ch, wf (Node k li ch) = true ->
  shape_ok_node k li ch = true /\ Forall (fun t => wf t = true) ch.
Proof.
  intros k li ch H. cbn [wf] in H. apply andb_true_iff in H as [H1 H2]. split; [exact H1|].
  apply Forall_forall. apply forallb_forall. exact H2.
Qed.

Lemma wf_lst : forall xs, wf (Lst xs) = true -> Forall (fun t => wf t = true) xs.
Proof. intros xs H. apply Forall_forall. apply forallb_forall. exact H. Qed.

Lemma ctx_ok_object : forall c, ctx_ok c = true -> object_base c = OK (Node K_Name Missing [Atom A_Object; load]).
Proof.
  intros c H. unfold ctx_ok in H. apply andb_true_iff in H as [H1 _].
  unfold object_base, visit_name. cbn [is_builtin is_tracked].
  change (is_builtin A_Object) with false. change (is_tracked A_Object) with false.
  apply negb_true_iff in H1. rewrite H1. reflexivity.
Qed.

Lemma ctx_ok_props : forall c, ctx_ok c = true ->
  props_assign c = OK (Node K_Assign Missing [Lst [Node K_Name Missing [Atom A_props; store]];
                                                Node K_Dict Missing [Lst []; Lst []]; Atom A_None]).
Proof.
  intros c H. unfold ctx_ok in H. apply andb_true_iff in H as [_ H1].
  unfold props_assign, visit_name.
  change (is_builtin A_props) with false. change (is_tracked A_props) with false.
  apply negb_true_iff in H1. rewrite H1. reflexivity.
Qed.

(* ---------------------------------------------------------------- size, for induction through grand-children *)
Fixpoint size (t : tree) : nat :=
  match t with
  | Node _ _ ch => S (list_sum (map size ch))
  | Lst xs => S (list_sum (map size xs))
  | _ => 1%nat
  end.

Lemma size_in : forall x xs, In x xs -> (size x <= list_sum (map size xs))%nat.
Proof.
  intros x xs. induction xs as [|y r IH]; intros H; [destruct H|].
  change (list_sum (map size (y :: r))) with (size y + list_sum (map size r))%nat.
  destruct H as [H|H]; [subst y; lia|]. specialize (IH H). lia.
Qed.

(* ---------------------------------------------------------------- T1: the compiler performs the documented rewriting *)
Definition agrees (c : ctx) (t : tree) : Prop :=
  wf t = true -> forall t' cur, compile_py c t = OK t' -> fix_missing cur t' = rewrite_doc c t.

Lemma list_agrees : forall c xs, (forall x, In x xs -> agrees c x) -> Forall (fun t => wf t = true) xs ->
  forall xs' cur, compile_list c xs = OK xs' -> map (fix_missing cur) xs' = map (rewrite_doc c) xs.
Proof.
  intros c xs. induction xs as [|x r IH]; intros HA Hwf xs' cur H.
  - cbn in H. injection H as <-. reflexivity.
  - inversion Hwf as [|? ? Hwx Hwr]; subst. cbn [compile_list] in H.
    apply bind_OK in H as [x' [Hx' H]]. apply bind_OK in H as [r' [Hr' H]]. injection H as <-.
    cbn [map]. f_equal.
    + apply HA; [left; reflexivity | assumption | assumption].
    + apply IH; try assumption. intros y Hy. apply HA. right. exact Hy.
Qed.

Lemma arg_agrees : forall c l x,
  agrees c x -> (forall v k li cx, x = Node k li [v; cx] -> agrees c v) -> wf x = true ->
  forall x', compile_arg c x = OK x' -> fix_missing l x' = rewrite_arg c (Located l) x.
Proof.
  intros c l x Hx Hv Hwx x' Hx'.
  destruct x as [k li ch| | |]; try (apply Hx; assumption).
  destruct ch as [|v [|cx [|w r]]].
  - cbn [compile_arg rewrite_arg] in *.
    destruct ((k =? K_Starred) && negb (inBehavior c)); [discriminate | apply Hx; assumption].
  - cbn [compile_arg rewrite_arg] in *.
    destruct ((k =? K_Starred) && negb (inBehavior c)); [discriminate | apply Hx; assumption].
  - cbn [compile_arg rewrite_arg] in *.
    destruct ((k =? K_Starred) && negb (inBehavior c)) eqn:E; [| apply Hx; assumption].
    apply bind_OK in Hx' as [v' [Hv' Hx']].
    apply andb_true_iff in E as [Ek _]. apply N.eqb_eq in Ek. subst k.
    pose proof Hwx as Hwx0. apply wf_node in Hwx as [Hs Hch]. cbn in Hs.
    destruct li as [ls| |]; try discriminate.
    destruct v as [kv [lv| |] chv| | |]; try discriminate.
    cbn [line_of] in *. injection Hx' as <-.
    inversion Hch as [|? ? Hwv _]; subst.
    unfold wrap_star. cbn [fix_missing map]. repeat f_equal.
    eapply Hv; [reflexivity | assumption | assumption].
  - cbn [compile_arg rewrite_arg] in *.
    destruct ((k =? K_Starred) && negb (inBehavior c)); [discriminate | apply Hx; assumption].
Qed.

Lemma args_agree : forall c l xs,
  (forall x, In x xs -> agrees c x) ->
  (forall x v k li cx, In x xs -> x = Node k li [v; cx] -> agrees c v) ->
  Forall (fun t => wf t = true) xs ->
  forall xs', compile_args c xs = OK xs' -> map (fix_missing l) xs' = map (rewrite_arg c (Located l)) xs.
Proof.
  intros c l xs. induction xs as [|x r IH]; intros HA HV Hwf xs' H.
  - cbn in H. injection H as <-. reflexivity.
  - inversion Hwf as [|? ? Hwx Hwr]; subst. cbn [compile_args] in H.
    apply bind_OK in H as [x' [Hx' H]]. apply bind_OK in H as [r' [Hr' H]]. injection H as <-.
    cbn [map]. f_equal.
    + apply arg_agrees; try assumption.
      * apply HA. left. reflexivity.
      * intros v k li cx E. eapply HV; [left; reflexivity | exact E].
    + apply IH; try assumption.
      * intros y Hy. apply HA. right. exact Hy.
      * intros y v k li cx Hy E. eapply HV; [right; exact Hy | exact E].
Qed.

Lemma compile_agrees_sized : forall c, ctx_ok c = true -> forall n t, (size t < n)%nat -> agrees c t.
Proof.
  intros c Hc n. induction n as [|n IH]; intros t Hsz; [lia|].
  intros Hwf t' cur H. rewrite compile_py_eq in H. rewrite rewrite_doc_eq.
  destruct t as [k li ch| xs | a | z].
  4: { injection H as <-. reflexivity. }
  3: { injection H as <-. reflexivity. }
  2: { apply bind_OK in H as [xs' [Hxs H]]. injection H as <-. cbn [fix_missing]. f_equal.
       apply list_agrees with (c := c); try assumption.
       - intros x Hx. apply IH. simpl in Hsz. pose proof (size_in _ _ Hx). lia.
       - apply wf_lst. exact Hwf. }
  pose proof Hwf as Hwf0. apply wf_node in Hwf as [Hs Hch].
  assert (Hkids : forall x, In x ch -> agrees c x).
  { intros x Hx. apply IH. simpl in Hsz. pose proof (size_in _ _ Hx). lia. }
  unfold shape_ok_node in Hs. apply andb_true_iff in Hs as [Hsc Hs]. apply negb_true_iff in Hsc.
  rewrite Hsc in H.
  destruct (k =? K_Name) eqn:EN.
  { (* Name *)
    apply N.eqb_eq in EN. subst k.
    destruct li as [l| |]; try discriminate.
    destruct ch as [|[ | |a| ] [|[kc [| |] [|]| | |] [|]]]; try discriminate.
    unfold visit_name in H. cbn [is_load] in *.
    destruct (is_builtin a) eqn:Eb.
    - destruct (kc =? K_Load) eqn:El; cbn [negb] in H; [|cbn in H; discriminate].
      cbn [andb].
      destruct (a =? A_globalParameters) eqn:Eg.
      + injection H as <-. rewrite orb_true_r. unfold accessor_call. reflexivity.
      + assert (is_tracked a = false) as Et.
        { unfold is_builtin in Eb. rewrite Eg in Eb. cbn [orb] in Eb. unfold is_tracked.
          apply orb_true_iff in Eb. destruct Eb as [Eb|Eb].
          - apply orb_true_iff in Eb as [Eb|Eb]; apply N.eqb_eq in Eb; subst a; reflexivity.
          - apply N.eqb_eq in Eb; subst a; reflexivity. }
        rewrite Et. cbn [orb andb negb]. injection H as <-. reflexivity.
    - destruct (is_tracked a) eqn:Et.
      + destruct (kc =? K_Load) eqn:El; cbn [negb] in H; [|cbn in H; discriminate].
        injection H as <-. cbn [orb andb]. unfold accessor_call. reflexivity.
      + cbn [negb andb orb].
        assert ((a =? A_globalParameters) = false) as Eg.
        { unfold is_builtin in Eb. apply orb_false_iff in Eb as [Eb _]. apply orb_false_iff in Eb as [Eb _].
          apply orb_false_iff in Eb as [Eb _]. exact Eb. }
        rewrite Eg. rewrite andb_false_r.
        destruct (memN a (locals c)); injection H as <-; reflexivity. }
  destruct (k =? K_Call) eqn:EC.
  { (* Call *)
    apply N.eqb_eq in EC. subst k.
    destruct li as [l| |]; try discriminate.
    destruct ch as [|f [|[ | args | | ] [|[ | kws | | ] [|]]]]; try discriminate.
    apply bind_OK in H as [args' [Ha H]]. apply bind_OK in H as [kws' [Hk H]].
    apply bind_OK in H as [f0 [Hf H]]. cbn zeta in H.
    inversion Hch as [|? ? Hwf_f Hch1]; subst. inversion Hch1 as [|? ? Hwf_a Hch2]; subst.
    inversion Hch2 as [|? ? Hwf_k _]; subst.
    assert (Hf' : fix_missing l (lift_func f0) = lift_func (rewrite_doc c f)).
    { rewrite fix_missing_lift. f_equal. apply Hkids; [left; reflexivity | assumption | assumption]. }
    assert (Ha' : map (fix_missing l) args' = map (rewrite_arg c (Located l)) args).
    { apply args_agree; try assumption.
      - intros x Hx. apply IH. simpl in Hsz. pose proof (size_in _ _ Hx). lia.
      - intros x v k li cx Hx E. apply IH. subst x. simpl in Hsz.
        pose proof (size_in _ _ Hx) as Hle. simpl in Hle. lia.
      - apply wf_lst. exact Hwf_a. }
    assert (Hk' : map (fix_missing l) kws' = map (rewrite_doc c) kws).
    { apply list_agrees with (c := c); try assumption.
      - intros x Hx. apply IH. simpl in Hsz. pose proof (size_in _ _ Hx). lia.
      - apply wf_lst. exact Hwf_k. }
    cbn zeta.
    destruct (existsb is_starred args && negb (inBehavior c)); injection H as <-;
      cbn [fix_missing map]; rewrite Hf', Ha', Hk'; reflexivity. }
  destruct (k =? K_ClassDef) eqn:ED.
  { (* ClassDef *)
    apply N.eqb_eq in ED. subst k.
    destruct li as [l| |]; try discriminate.
    destruct ch as [|name [|[ | bases | | ] [|kws [|[ | body | | ] rest]]]]; try discriminate.
    destruct (has_annassign body) as [sli|]; [destruct sli; discriminate|].
    apply bind_OK in H as [name' [Hn H]]. apply bind_OK in H as [bases' [Hb H]].
    apply bind_OK in H as [kws' [Hk H]]. apply bind_OK in H as [body' [Hbd H]].
    apply bind_OK in H as [pa [Hpa H]]. apply bind_OK in H as [rest' [Hr H]]. injection H as <-.
    inversion Hch as [|? ? Hwf_n Hch1]; subst. inversion Hch1 as [|? ? Hwf_b Hch2]; subst.
    inversion Hch2 as [|? ? Hwf_k Hch3]; subst. inversion Hch3 as [|? ? Hwf_bd Hwf_r]; subst.
    rewrite ctx_ok_props in Hpa by assumption. injection Hpa as <-.
    cbn [fix_missing map]. f_equal. f_equal.
    { apply Hkids; [left; reflexivity | assumption | assumption]. }
    f_equal.
    { f_equal. destruct bases as [|b0 br].
      - rewrite ctx_ok_object in Hb by assumption. cbn in Hb. injection Hb as <-. reflexivity.
      - apply list_agrees with (c := c); try assumption.
        + intros x Hx. apply IH. simpl in Hsz.
          pose proof (size_in _ _ Hx) as Hle. simpl in Hle. simpl. lia.
        + apply wf_lst. exact Hwf_b. }
    f_equal.
    { apply Hkids; [right; right; left; reflexivity | assumption | assumption]. }
    f_equal.
    { f_equal. rewrite map_app. f_equal.
      apply list_agrees with (c := c); try assumption.
      - intros x Hx. apply IH. simpl in Hsz. pose proof (size_in _ _ Hx). lia.
      - apply wf_lst. exact Hwf_bd. }
    apply list_agrees with (c := c); try assumption.
    intros x Hx. apply Hkids. right; right; right; right. exact Hx. }
  (* every other kind: generic_visit *)
  destruct (((k =? K_Yield) || (k =? K_YieldFrom)) && (inCompose c || inBehavior c)).
  { destruct li; discriminate. }
  apply bind_OK in H as [ch' [Hc' H]]. injection H as <-.
  assert (forall cur0, map (fix_missing cur0) ch' = map (rewrite_doc c) ch) as Hm.
  { intros cur0. apply list_agrees with (c := c); assumption. }
  destruct li as [l| |].
  - cbn [fix_missing]. rewrite Hm. reflexivity.
  - destruct (k =? K_Starred); [discriminate|].
    destruct ((k =? K_AnnAssign) || (k =? K_Yield) || (k =? K_YieldFrom)); discriminate.
  - cbn [fix_missing]. rewrite Hm. reflexivity.
Qed.

Theorem compile_py_is_rewrite : forall c t t' cur,
  ctx_ok c = true -> wf t = true -> compile_py c t = OK t' -> fix_missing cur t' = rewrite_doc c t.
Proof.
  intros c t t' cur Hc Hwf H.
  exact (compile_agrees_sized c Hc (S (size t)) t (Nat.lt_succ_diag_r _) Hwf t' cur H).
Qed.

(* ---------------------------------------------------------------- T2: totality and the exact set of refused programs *)
Definition verdict (c : ctx) (t : tree) (r : res tree) : Prop :=
  match r with
  | OK _ => rejects c t = false
  | Err e => rejects c t = true /\ In (err_loc e) (locs t)
  | Crash => False
  end.

Definition verdictL (c : ctx) (xs : list tree) (r : res (list tree)) : Prop :=
  match r with
  | OK _ => existsb (rejects c) xs = false
  | Err e => existsb (rejects c) xs = true /\ In (err_loc e) (flat_map locs xs)
  | Crash => False
  end.

Lemma list_verdict : forall c xs,
  (forall x, In x xs -> wf x = true -> verdict c x (compile_py c x)) ->
  Forall (fun t => wf t = true) xs -> verdictL c xs (compile_list c xs).
Proof.
  intros c xs. induction xs as [|x r IH]; intros HA Hwf; [reflexivity|].
  inversion Hwf as [|? ? Hwx Hwr]; subst.
  pose proof (HA x (or_introl eq_refl) Hwx) as Hx.
  assert (Hr : verdictL c r (compile_list c r)).
  { apply IH; [|assumption]. intros y Hy. apply HA. right. exact Hy. }
  cbn [compile_list]. change (flat_map locs (x :: r)) with (locs x ++ flat_map locs r).
  cbn [existsb].
  destruct (compile_py c x) as [x'|e|]; cbn [bind verdict] in *; [| |contradiction].
  - destruct (compile_list c r) as [r'|e|]; cbn [bind verdictL existsb] in *; try rewrite Hx; cbn [orb];
      [assumption| |contradiction].
    destruct Hr as [Hr1 Hr2]. split; [assumption|]. apply in_or_app. right. assumption.
  - cbn [verdictL existsb]. destruct Hx as [Hx1 Hx2]. rewrite Hx1. split; [reflexivity|]. apply in_or_app. left. assumption.
Qed.

Lemma is_ctx_not_offending : forall c kc, is_ctx kc = true -> rejects c (Node kc NoAttr []) = false.
Proof.
  intros c kc H. unfold is_ctx in H.
  apply orb_true_iff in H as [H|H]; [apply orb_true_iff in H as [H|H]|]; apply N.eqb_eq in H; subst kc; reflexivity.
Qed.

Definition verdictA (c : ctx) (x : tree) (r : res tree) : Prop := verdict c x r.

Lemma arg_verdict : forall c x,
  verdict c x (compile_py c x) ->
  (forall v k li cx, x = Node k li [v; cx] -> wf v = true -> verdict c v (compile_py c v)) ->
  wf x = true -> verdict c x (compile_arg c x).
Proof.
  intros c x Hx Hv Hwx.
  destruct x as [k li ch| | |]; try exact Hx.
  destruct ch as [|v [|cx [|w r]]]; cbn [compile_arg].
  - destruct ((k =? K_Starred) && negb (inBehavior c)) eqn:E; [|exact Hx].
    apply andb_true_iff in E as [Ek _]. apply N.eqb_eq in Ek. subst k.
    apply wf_node in Hwx as [Hs _]. cbn in Hs. destruct li; discriminate.
  - destruct ((k =? K_Starred) && negb (inBehavior c)) eqn:E; [|exact Hx].
    apply andb_true_iff in E as [Ek _]. apply N.eqb_eq in Ek. subst k.
    apply wf_node in Hwx as [Hs _]. cbn in Hs. destruct li; try discriminate. destruct v as [? [| |] ?| | |]; discriminate.
  - destruct ((k =? K_Starred) && negb (inBehavior c)) eqn:E; [|exact Hx].
    apply andb_true_iff in E as [Ek _]. apply N.eqb_eq in Ek. subst k.
    apply wf_node in Hwx as [Hs Hch]. cbn in Hs.
    destruct li as [ls| |]; try discriminate.
    destruct v as [kv [lv| |] chv| | |]; try discriminate.
    destruct cx as [kc [| |] [|]| | |]; try discriminate.
    inversion Hch as [|? ? Hwv _]; subst.
    specialize (Hv _ _ _ _ eq_refl Hwv).
    cbn [line_of].
    assert (Hrej : rejects c (Node K_Starred (Located ls) [Node kv (Located lv) chv; Node kc NoAttr []])
                   = rejects c (Node kv (Located lv) chv)).
    { pose proof (is_ctx_not_offending c kc Hs) as Hcx.
      set (V := Node kv (Located lv) chv) in *. set (CX := Node kc NoAttr []) in *.
      change (rejects c (Node K_Starred (Located ls) [V; CX])) with
        (offending_node c K_Starred [V; CX] || (rejects c V || (rejects c CX || false))).
      rewrite Hcx.
      change (offending_node c K_Starred [V; CX]) with
        (false || false || false && (inCompose c || inBehavior c)).
      cbn [orb andb]. rewrite !orb_false_r. reflexivity. }
    destruct (compile_py c (Node kv (Located lv) chv)) as [v'|e|]; cbn [bind verdict] in *; [| |contradiction].
    + rewrite Hrej. exact Hv.
    + destruct Hv as [Hv1 Hv2]. rewrite Hrej. split; [assumption|].
      change (locs (Node K_Starred (Located ls) [Node kv (Located lv) chv; Node kc NoAttr []])) with
        ([ls] ++ (locs (Node kv (Located lv) chv) ++ (locs (Node kc NoAttr []) ++ []))).
      apply in_or_app. right. apply in_or_app. left. exact Hv2.
  - destruct ((k =? K_Starred) && negb (inBehavior c)) eqn:E; [|exact Hx].
    apply andb_true_iff in E as [Ek _]. apply N.eqb_eq in Ek. subst k.
    apply wf_node in Hwx as [Hs _]. cbn in Hs. destruct li; try discriminate.
    destruct v as [? [| |] ?| | |]; try discriminate. destruct cx as [? [| |] [|]| | |]; discriminate.
Qed.

Lemma args_verdict : forall c xs,
  (forall x, In x xs -> wf x = true -> verdict c x (compile_py c x)) ->
  (forall x v k li cx, In x xs -> x = Node k li [v; cx] -> wf v = true -> verdict c v (compile_py c v)) ->
  Forall (fun t => wf t = true) xs -> verdictL c xs (compile_args c xs).
Proof.
  intros c xs. induction xs as [|x r IH]; intros HA HV Hwf; [reflexivity|].
  inversion Hwf as [|? ? Hwx Hwr]; subst.
  assert (Hx : verdict c x (compile_arg c x)).
  { apply arg_verdict; [apply HA; [left; reflexivity|assumption] | | assumption].
    intros v k li cx E. eapply HV; [left; reflexivity | exact E]. }
  assert (Hr : verdictL c r (compile_args c r)).
  { apply IH; [| |assumption].
    - intros y Hy. apply HA. right. exact Hy.
    - intros y v k li cx Hy E. eapply HV; [right; exact Hy | exact E]. }
  cbn [compile_args]. change (flat_map locs (x :: r)) with (locs x ++ flat_map locs r).
  cbn [existsb].
  destruct (compile_arg c x) as [x'|e|]; cbn [bind verdict] in *; [| |contradiction].
  - destruct (compile_args c r) as [r'|e|]; cbn [bind verdictL existsb] in *; try rewrite Hx; cbn [orb];
      [assumption| |contradiction].
    destruct Hr as [Hr1 Hr2]. split; [assumption|]. apply in_or_app. right. assumption.
  - cbn [verdictL existsb]. destruct Hx as [Hx1 Hx2]. rewrite Hx1. split; [reflexivity|]. apply in_or_app. left. assumption.
Qed.

Lemma has_annassign_loc : forall body sli,
  has_annassign body = Some sli -> Forall (fun t => wf t = true) body ->
  exists l, sli = Located l /\ In l (flat_map locs body).
Proof.
  intros body sli. induction body as [|x r IH]; intros H Hwf; [discriminate|].
  inversion Hwf as [|? ? Hwx Hwr]; subst.
  change (flat_map locs (x :: r)) with (locs x ++ flat_map locs r).
  destruct x as [k li ch| | |]; cbn [has_annassign] in H.
  - destruct (k =? K_AnnAssign) eqn:E.
    + injection H as <-. apply N.eqb_eq in E. subst k.
      apply wf_node in Hwx as [Hs _]. cbn in Hs. destruct li as [l| |]; try discriminate.
      exists l. split; [reflexivity|]. left. reflexivity.
    + destruct (IH H Hwr) as [l [E1 E2]]. exists l. split; [assumption|]. apply in_or_app. right. assumption.
  - destruct (IH H Hwr) as [l [E1 E2]]. exists l. split; [assumption|]. apply in_or_app. right. assumption.
  - destruct (IH H Hwr) as [l [E1 E2]]. exists l. split; [assumption|]. apply in_or_app. right. assumption.
  - destruct (IH H Hwr) as [l [E1 E2]]. exists l. split; [assumption|]. apply in_or_app. right. assumption.
Qed.

Lemma verdictL_of_OK : forall c xs ys, verdictL c xs (OK ys) -> existsb (rejects c) xs = false.
Proof. intros; assumption. Qed.

Lemma compile_verdict_sized : forall c, ctx_ok c = true ->
  forall n t, (size t < n)%nat -> wf t = true -> verdict c t (compile_py c t).
Proof.
  intros c Hc n. induction n as [|n IH]; intros t Hsz Hwf; [lia|].
  rewrite compile_py_eq.
  destruct t as [k li ch| xs | a | z]; [| |reflexivity|reflexivity].
  2: { assert (HL : verdictL c xs (compile_list c xs)).
       { apply list_verdict; [|apply wf_lst; exact Hwf].
         intros x Hx Hwx. apply IH; [|exact Hwx]. simpl in Hsz. pose proof (size_in _ _ Hx). lia. }
       destruct (compile_list c xs) as [xs'|e|]; cbn [bind verdict verdictL rejects locs] in *; assumption. }
  pose proof Hwf as Hwf0. apply wf_node in Hwf as [Hs Hch].
  assert (Hkid : forall x, In x ch -> wf x = true -> verdict c x (compile_py c x)).
  { intros x Hx Hwx. apply IH; [|exact Hwx]. simpl in Hsz. pose proof (size_in _ _ Hx). lia. }
  assert (HL : verdictL c ch (compile_list c ch)) by (apply list_verdict; assumption).
  unfold shape_ok_node in Hs. apply andb_true_iff in Hs as [Hsc Hs]. apply negb_true_iff in Hsc.
  rewrite Hsc.
  destruct (k =? K_Name) eqn:EN.
  { apply N.eqb_eq in EN. subst k.
    destruct li as [l| |]; try discriminate.
    destruct ch as [|[ | |a| ] [|[kc [| |] [|]| | |] [|]]]; try discriminate.
    pose proof (is_ctx_not_offending c kc Hs) as Hcx.
    assert (Hrej : rejects c (Node K_Name (Located l) [Atom a; Node kc NoAttr []])
                   = (is_builtin a || is_tracked a) && negb (kc =? K_Load)).
    { set (CX := Node kc NoAttr []) in *.
      change (rejects c (Node K_Name (Located l) [Atom a; CX])) with
        (((true && ((is_builtin a || is_tracked a) && negb (is_load CX))) || (false && false)
          || (false && (inCompose c || inBehavior c))) || (false || (rejects c CX || false))).
      rewrite Hcx. cbn [andb orb]. rewrite !orb_false_r. reflexivity. }
    unfold visit_name. cbn [is_load].
    destruct (is_builtin a) eqn:Eb.
    - destruct (kc =? K_Load) eqn:El; cbn [negb].
      + destruct (a =? A_globalParameters); cbn [verdict]; rewrite Hrej; cbn [orb andb negb]; reflexivity.
      + cbn [err_at verdict err_loc]. rewrite Hrej. cbn [orb andb negb]. split; [reflexivity|].
        left. reflexivity.
    - destruct (is_tracked a) eqn:Et.
      + destruct (kc =? K_Load) eqn:El; cbn [negb].
        * cbn [verdict]. rewrite Hrej. reflexivity.
        * cbn [err_at verdict err_loc]. rewrite Hrej. split; [reflexivity|]. left. reflexivity.
      + destruct (memN a (locals c)); cbn [verdict]; rewrite Hrej; reflexivity. }
  destruct (k =? K_Call) eqn:EC.
  { apply N.eqb_eq in EC. subst k.
    destruct li as [l| |]; try discriminate.
    destruct ch as [|f [|[ | args | | ] [|[ | kws | | ] [|]]]]; try discriminate.
    inversion Hch as [|? ? Hwf_f Hch1]; subst. inversion Hch1 as [|? ? Hwf_a Hch2]; subst.
    inversion Hch2 as [|? ? Hwf_k _]; subst.
    assert (Ha : verdictL c args (compile_args c args)).
    { apply args_verdict; [| |apply wf_lst; exact Hwf_a].
      - intros x Hx Hwx. apply IH; [|exact Hwx]. simpl in Hsz. pose proof (size_in _ _ Hx). lia.
      - intros x v k li cx Hx E Hwv. apply IH; [|exact Hwv]. subst x. simpl in Hsz.
        pose proof (size_in _ _ Hx) as Hle. simpl in Hle. lia. }
    assert (Hk : verdictL c kws (compile_list c kws)).
    { apply list_verdict; [|apply wf_lst; exact Hwf_k].
      intros x Hx Hwx. apply IH; [|exact Hwx]. simpl in Hsz. pose proof (size_in _ _ Hx). lia. }
    assert (Hf : verdict c f (compile_py c f)) by (apply Hkid; [left; reflexivity|assumption]).
    unfold verdict at 1.
    change (rejects c (Node K_Call (Located l) [f; Lst args; Lst kws])) with
      (false || (rejects c f || (existsb (rejects c) args || (existsb (rejects c) kws || false)))).
    change (locs (Node K_Call (Located l) [f; Lst args; Lst kws])) with
      ([l] ++ (locs f ++ (flat_map locs args ++ (flat_map locs kws ++ [])))).
    destruct (compile_args c args) as [args'|e|]; cbv beta iota delta [bind verdict verdictL] in *; [| |contradiction].
    2: { destruct Ha as [Ha1 Ha2]. rewrite Ha1. rewrite !orb_true_r. split; [reflexivity|].
         apply in_or_app. right. apply in_or_app. right. apply in_or_app. left. assumption. }
    destruct (compile_list c kws) as [kws'|e|]; cbv beta iota delta [bind verdict verdictL] in *; [| |contradiction].
    2: { destruct Hk as [Hk1 Hk2]. rewrite Hk1. rewrite !orb_true_r. split; [reflexivity|].
         apply in_or_app. right. apply in_or_app. right. apply in_or_app. right. apply in_or_app. left. assumption. }
    destruct (compile_py c f) as [f0|e|]; cbv beta iota delta [bind verdict verdictL] in *; [| |contradiction].
    2: { destruct Hf as [Hf1 Hf2]. rewrite Hf1. split; [reflexivity|].
         apply in_or_app. right. apply in_or_app. left. assumption. }
    cbn zeta. rewrite Hf, Ha, Hk.
    destruct (existsb is_starred args && negb (inBehavior c)); reflexivity. }
  destruct (k =? K_ClassDef) eqn:ED.
  { apply N.eqb_eq in ED. subst k.
    destruct li as [l| |]; try discriminate.
    destruct ch as [|name [|[ | bases | | ] [|kws [|[ | body | | ] rest]]]]; try discriminate.
    inversion Hch as [|? ? Hwf_n Hch1]; subst. inversion Hch1 as [|? ? Hwf_b Hch2]; subst.
    inversion Hch2 as [|? ? Hwf_k Hch3]; subst. inversion Hch3 as [|? ? Hwf_bd Hwf_r]; subst.
    set (CH := name :: Lst bases :: kws :: Lst body :: rest) in *.
    assert (Hrej : rejects c (Node K_ClassDef (Located l) CH) =
                   (match has_annassign body with Some _ => true | None => false end)
                   || (rejects c name || (existsb (rejects c) bases || (rejects c kws ||
                       (existsb (rejects c) body || existsb (rejects c) rest))))).
    { change (rejects c (Node K_ClassDef (Located l) CH)) with
        ((false || (true && match has_annassign body with Some _ => true | None => false end)
          || (false && (inCompose c || inBehavior c)))
         || (rejects c name || (existsb (rejects c) bases || (rejects c kws ||
                       (existsb (rejects c) body || existsb (rejects c) rest))))).
      cbn [orb andb]. rewrite orb_false_r. reflexivity. }
    assert (Hlocs : locs (Node K_ClassDef (Located l) CH) =
                    [l] ++ (locs name ++ (flat_map locs bases ++ (locs kws ++ (flat_map locs body ++ flat_map locs rest))))).
    { reflexivity. }
    unfold verdict at 1. rewrite Hlocs, Hrej. clear Hlocs Hrej.
    destruct (has_annassign body) as [sli|] eqn:EA.
    { destruct (has_annassign_loc _ _ EA (wf_lst _ Hwf_bd)) as [la [-> Hin]].
      cbn [err_at err_loc orb]. split; [reflexivity|].
      apply in_or_app. right. apply in_or_app. right. apply in_or_app. right. apply in_or_app. right.
      apply in_or_app. left. assumption. }
    cbn [orb].
    assert (Hn : verdict c name (compile_py c name)) by (apply Hkid; [left; reflexivity|assumption]).
    assert (Hb : verdictL c bases (compile_list c bases)).
    { apply list_verdict; [|apply wf_lst; exact Hwf_b].
      intros x Hx Hwx. apply IH; [|exact Hwx]. simpl in Hsz. pose proof (size_in _ _ Hx) as Hle. lia. }
    assert (Hkw : verdict c kws (compile_py c kws)) by (apply Hkid; [right; right; left; reflexivity|assumption]).
    assert (Hbd : verdictL c body (compile_list c body)).
    { apply list_verdict; [|apply wf_lst; exact Hwf_bd].
      intros x Hx Hwx. apply IH; [|exact Hwx]. simpl in Hsz. pose proof (size_in _ _ Hx) as Hle. lia. }
    assert (Hr : verdictL c rest (compile_list c rest)).
    { apply list_verdict; [|exact Hwf_r]. intros x Hx Hwx. apply Hkid; [|exact Hwx].
      right; right; right; right. exact Hx. }
    set (RB := match bases with [] => bind (object_base c) (fun b => OK [b]) | _ => compile_list c bases end).
    assert (Hb' : verdictL c bases RB).
    { subst RB. destruct bases; [|exact Hb]. rewrite ctx_ok_object by assumption. reflexivity. }
    clearbody RB.
    destruct (compile_py c name) as [name'|e|]; cbv beta iota delta [bind verdict verdictL] in *; [| |contradiction].
    2: { destruct Hn as [H1 H2]. rewrite H1. split; [reflexivity|].
         apply in_or_app. right. apply in_or_app. left. assumption. }
    rewrite Hn. cbn [orb].
    destruct RB as [bases'|e|]; cbv beta iota delta [bind verdict verdictL] in *; [| |contradiction].
    2: { destruct Hb' as [H1 H2]. rewrite H1. cbn [orb]. split; [reflexivity|].
         apply in_or_app. right. apply in_or_app. right. apply in_or_app. left. assumption. }
    rewrite Hb'. cbn [orb].
    destruct (compile_py c kws) as [kws'|e|]; cbv beta iota delta [bind verdict verdictL] in *; [| |contradiction].
    2: { destruct Hkw as [H1 H2]. rewrite H1. cbn [orb]. split; [reflexivity|].
         apply in_or_app. right. apply in_or_app. right. apply in_or_app. right. apply in_or_app. left. assumption. }
    rewrite Hkw. cbn [orb].
    destruct (compile_list c body) as [body'|e|]; cbv beta iota delta [bind verdict verdictL] in *; [| |contradiction].
    2: { destruct Hbd as [H1 H2]. rewrite H1. cbn [orb]. split; [reflexivity|].
         apply in_or_app. right. apply in_or_app. right. apply in_or_app. right. apply in_or_app. right.
         apply in_or_app. left. assumption. }
    rewrite Hbd. cbn [orb].
    rewrite ctx_ok_props by assumption. cbn [bind].
    destruct (compile_list c rest) as [rest'|e|]; cbv beta iota delta [bind verdict verdictL] in *; [| |contradiction].
    2: { destruct Hr as [H1 H2]. split; [assumption|].
         apply in_or_app. right. apply in_or_app. right. apply in_or_app. right. apply in_or_app. right.
         apply in_or_app. right. assumption. }
    exact Hr. }
  (* generic kinds *)
  assert (Hrej : rejects c (Node k li ch) =
                 (((k =? K_Yield) || (k =? K_YieldFrom)) && (inCompose c || inBehavior c)) || existsb (rejects c) ch).
  { change (rejects c (Node k li ch)) with (offending_node c k ch || existsb (rejects c) ch).
    unfold offending_node. rewrite EN, ED. reflexivity. }
  unfold verdict at 1. rewrite Hrej.
  change (locs (Node k li ch)) with ((match li with Located l => [l] | _ => [] end) ++ flat_map locs ch).
  destruct (((k =? K_Yield) || (k =? K_YieldFrom)) && (inCompose c || inBehavior c)) eqn:EY.
  { apply andb_true_iff in EY as [EY _].
    destruct (k =? K_Starred); [destruct li; try discriminate; cbn; split; [reflexivity|left; reflexivity]|].
    replace ((k =? K_AnnAssign) || (k =? K_Yield) || (k =? K_YieldFrom)) with true in Hs
      by (rewrite <- orb_assoc; rewrite EY; rewrite orb_true_r; reflexivity).
    destruct li as [l| |]; try discriminate. cbn [err_at err_loc orb]. split; [reflexivity|]. left. reflexivity. }
  cbn [orb].
  destruct (compile_list c ch) as [ch'|e|]; cbv beta iota delta [bind verdict verdictL] in *; [assumption| |contradiction].
  destruct HL as [H1 H2]. split; [assumption|]. apply in_or_app. right. assumption.
Qed.

Theorem compile_py_verdict : forall c t, ctx_ok c = true -> wf t = true -> verdict c t (compile_py c t).
Proof. intros c t Hc Hwf. exact (compile_verdict_sized c Hc (S (size t)) t (Nat.lt_succ_diag_r _) Hwf). Qed.

(* totality: on a tree without Scenic nodes the compiler returns a tree or a located syntax error *)
Theorem compile_py_total : forall c t, ctx_ok c = true -> wf t = true -> compile_py c t <> Crash.
Proof.
  intros c t Hc Hwf E. pose proof (compile_py_verdict c t Hc Hwf) as H. rewrite E in H. exact H.
Qed.

Theorem compile_py_accepts_iff : forall c t, ctx_ok c = true -> wf t = true ->
  ((exists t', compile_py c t = OK t') <-> rejects c t = false).
Proof.
  intros c t Hc Hwf. pose proof (compile_py_verdict c t Hc Hwf) as H. split.
  - intros [t' E]. rewrite E in H. exact H.
  - intros Hr. destruct (compile_py c t) as [t'|e|]; cbn in H.
    + eauto.
    + destruct H as [H _]. congruence.
    + contradiction.
Qed.

Theorem compile_py_error_located : forall c t e, ctx_ok c = true -> wf t = true ->
  compile_py c t = Err e -> rejects c t = true /\ In (err_loc e) (locs t).
Proof. intros c t e Hc Hwf E. pose proof (compile_py_verdict c t Hc Hwf) as H. rewrite E in H. exact H. Qed.

(* ---------------------------------------------------------------- T3: locations *)
Lemma fix_missing_no_missing : forall t cur, no_missing (fix_missing cur t) = true.
Proof.
  induction t as [k li ch IH| xs IH | a | z] using tree_ind2; intros cur; try reflexivity.
  - assert (forall cur0, forallb no_missing (map (fix_missing cur0) ch) = true) as H.
    { intros cur0. apply forallb_forall. intros x Hx. apply in_map_iff in Hx as [y [<- Hy]].
      rewrite Forall_forall in IH. apply IH. exact Hy. }
    destruct li; cbn [fix_missing no_missing]; rewrite H; reflexivity.
  - cbn [fix_missing no_missing]. apply forallb_forall. intros x Hx. apply in_map_iff in Hx as [y [<- Hy]].
    rewrite Forall_forall in IH. apply IH. exact Hy.
Qed.

Definition L (li : locinfo) : list loc := match li with Located l => [l] | _ => [] end.

Lemma rewrite_keeps_li : forall c k li ch, exists k' ch', rewrite_doc c (Node k li ch) = Node k' li ch'.
Proof.
  intros c k li ch. rewrite rewrite_doc_eq.
  destruct (k =? K_Name).
  { destruct ch as [|[ | |a| ] [|cx [|]]]; eauto.
    destruct (is_load cx && (is_tracked a || (a =? A_globalParameters))); [unfold accessor_call; eauto|].
    destruct (negb (is_builtin a) && negb (is_tracked a) && memN a (locals c)); eauto. }
  destruct (k =? K_Call).
  { destruct ch as [|f [|[ | args | | ] [|[ | kws | | ] [|]]]]; eauto.
    cbn zeta. destruct (existsb is_starred args && negb (inBehavior c)); eauto. }
  destruct (k =? K_ClassDef); eauto.
  destruct ch as [|name [|[ | bases | | ] [|kws [|[ | body | | ] rest]]]]; eauto.
Qed.

Lemma flat_map_incl : forall (f : tree -> tree) xs l,
  (forall x, In x xs -> In l (locs (f x)) -> In l (locs x)) ->
  In l (flat_map locs (map f xs)) -> In l (flat_map locs xs).
Proof.
  intros f xs l H Hin. apply in_flat_map in Hin as [y [Hy Hl]]. apply in_map_iff in Hy as [x [<- Hx]].
  apply in_flat_map. exists x. split; [assumption|]. apply H; assumption.
Qed.

Lemma lift_func_locs : forall f, locs (lift_func f) = locs f.
Proof.
  intros [k li ch| | |]; try reflexivity.
  destruct ch as [|x [|y [|z r]]]; try reflexivity; destruct x; try reflexivity;
    cbn [lift_func]; destruct (k =? K_Name); reflexivity.
Qed.

Lemma rewrite_locs_sized : forall c n t, (size t < n)%nat ->
  forall l, In l (locs (rewrite_doc c t)) -> In l (locs t).
Proof.
  intros c n. induction n as [|n IH]; intros t Hsz l Hin; [lia|].
  rewrite rewrite_doc_eq in Hin.
  destruct t as [k li ch| xs | a | z]; try exact Hin.
  2: { cbn [locs] in *. apply flat_map_incl with (f := rewrite_doc c); [|exact Hin].
       intros x Hx. apply IH. simpl in Hsz. pose proof (size_in _ _ Hx). lia. }
  assert (Hkids : forall x, In x ch -> In l (locs (rewrite_doc c x)) -> In l (locs x)).
  { intros x Hx. apply IH. simpl in Hsz. pose proof (size_in _ _ Hx). lia. }
  assert (Hgen : In l (locs (Node k li (map (rewrite_doc c) ch))) -> In l (locs (Node k li ch))).
  { cbn [locs]. intros H. apply in_app_or in H as [H|H]; apply in_or_app; [left; exact H|right].
    apply flat_map_incl with (f := rewrite_doc c); assumption. }
  change (locs (Node k li ch)) with (L li ++ flat_map locs ch).
  destruct (k =? K_Name).
  { destruct ch as [|[ | |a| ] [|cx [|]]]; try exact Hin.
    destruct (is_load cx && (is_tracked a || (a =? A_globalParameters))).
    - unfold accessor_call in Hin. cbn [locs flat_map] in Hin. fold (L li) in Hin.
      apply in_or_app. left. rewrite !app_nil_r in Hin. apply in_app_or in Hin as [H|H]; exact H.
    - destruct (negb (is_builtin a) && negb (is_tracked a) && memN a (locals c)); [|exact Hin].
      change (In l (L li ++ ((L li ++ ([] ++ (locs load ++ []))) ++ ([] ++ (locs cx ++ []))))) in Hin.
      change (locs load) with (@nil loc) in Hin. rewrite !app_nil_r in Hin. cbn [app] in Hin.
      apply in_app_or in Hin as [H|H]; [apply in_or_app; left; exact H|].
      apply in_app_or in H as [H|H]; [apply in_or_app; left; exact H|].
      apply in_or_app. right. cbn [flat_map locs]. rewrite app_nil_r. exact H. }
  destruct (k =? K_Call).
  { destruct ch as [|f [|[ | args | | ] [|[ | kws | | ] [|]]]]; try (apply Hgen; exact Hin).
    cbn zeta in Hin.
    assert (Hf : In l (locs (lift_func (rewrite_doc c f))) -> In l (locs f)).
    { rewrite lift_func_locs. apply Hkids. left. reflexivity. }
    assert (Ha : In l (flat_map locs (map (rewrite_arg c li) args)) -> In l (L li) \/ In l (flat_map locs args)).
    { intros H. apply in_flat_map in H as [y [Hy Hl]]. apply in_map_iff in Hy as [x [<- Hx]].
      assert (Hxs : (size x < n)%nat).
      { simpl in Hsz. pose proof (size_in _ _ Hx). lia. }
      assert (Hdef : In l (locs (rewrite_doc c x)) -> In l (L li) \/ In l (flat_map locs args)).
      { intros H. right. apply in_flat_map. exists x. split; [assumption|]. apply IH; assumption. }
      destruct x as [ks lis [|v [|cx [|]]]| | |]; try (apply Hdef; exact Hl).
      cbn [rewrite_arg] in Hl.
      destruct ((ks =? K_Starred) && negb (inBehavior c)); [|apply Hdef; exact Hl].
      destruct (line_of v) as [ln|]; [|apply Hdef; exact Hl].
      unfold wrap_star in Hl.
      change (In l (L li ++ ((L li ++ ((L li ++ ([] ++ (locs load ++ []))) ++
                 ((locs (rewrite_doc c v) ++ ((L li ++ ([] ++ ([] ++ []))) ++ [])) ++ ([] ++ [])))) ++ (locs load ++ [])))) in Hl.
      change (locs load) with (@nil loc) in Hl. rewrite !app_nil_r in Hl. cbn [app] in Hl.
      repeat (apply in_app_or in Hl as [Hl|Hl]; [left; exact Hl|]).
      apply in_app_or in Hl as [Hl|Hl]; [|left; exact Hl].
      right. apply in_flat_map. exists (Node ks lis [v; cx]). split; [assumption|].
      cbn [locs flat_map]. apply in_or_app. right. apply in_or_app. left.
      apply IH; [|exact Hl]. simpl in Hxs. lia. }
    assert (Hk : In l (flat_map locs (map (rewrite_doc c) kws)) -> In l (flat_map locs kws)).
    { apply flat_map_incl. intros x Hx. apply IH. simpl in Hsz. pose proof (size_in _ _ Hx). lia. }
    change (flat_map locs [f; Lst args; Lst kws]) with (locs f ++ (flat_map locs args ++ (flat_map locs kws ++ []))).
    destruct (existsb is_starred args && negb (inBehavior c)).
    - change (In l (L li ++ ((L li ++ ([] ++ (locs load ++ []))) ++
                ((locs (lift_func (rewrite_doc c f)) ++ flat_map locs (map (rewrite_arg c li) args)) ++
                 (flat_map locs (map (rewrite_doc c) kws) ++ []))))) in Hin.
      change (locs load) with (@nil loc) in Hin. rewrite !app_nil_r in Hin. cbn [app] in Hin.
      apply in_app_or in Hin as [H|H]; [apply in_or_app; left; exact H|].
      apply in_app_or in H as [H|H]; [apply in_or_app; left; exact H|].
      apply in_app_or in H as [H|H].
      + apply in_app_or in H as [H|H].
        * apply in_or_app. right. apply in_or_app. left. apply Hf. exact H.
        * destruct (Ha H) as [H'|H']; apply in_or_app; [left; exact H'|right].
          apply in_or_app. right. apply in_or_app. left. exact H'.
      + apply in_or_app. right. apply in_or_app. right. apply in_or_app. right. rewrite app_nil_r. apply Hk. exact H.
    - change (In l (L li ++ (locs (lift_func (rewrite_doc c f)) ++
                (flat_map locs (map (rewrite_arg c li) args) ++ (flat_map locs (map (rewrite_doc c) kws) ++ []))))) in Hin.
      rewrite !app_nil_r in Hin.
      apply in_app_or in Hin as [H|H]; [apply in_or_app; left; exact H|].
      apply in_app_or in H as [H|H].
      + apply in_or_app. right. apply in_or_app. left. apply Hf. exact H.
      + apply in_app_or in H as [H|H].
        * destruct (Ha H) as [H'|H']; apply in_or_app; [left; exact H'|right].
          apply in_or_app. right. apply in_or_app. left. exact H'.
        * apply in_or_app. right. apply in_or_app. right. apply in_or_app. right. rewrite app_nil_r. apply Hk. exact H. }
  destruct (k =? K_ClassDef); [|apply Hgen; exact Hin].
  destruct ch as [|name [|[ | bases | | ] [|kws [|[ | body | | ] rest]]]]; try (apply Hgen; exact Hin).
  change (flat_map locs (name :: Lst bases :: kws :: Lst body :: rest)) with
    (locs name ++ (flat_map locs bases ++ (locs kws ++ (flat_map locs body ++ flat_map locs rest)))).
  cbn zeta in Hin.
  set (B' := match bases with [] => [Node K_Name li [Atom A_Object; load]] | _ => map (rewrite_doc c) bases end) in Hin.
  change (In l (L li ++ (locs (rewrite_doc c name) ++ (flat_map locs B' ++ (locs (rewrite_doc c kws) ++
            (flat_map locs (map (rewrite_doc c) body ++ [props_assign_at li]) ++ flat_map locs (map (rewrite_doc c) rest))))))) in Hin.
  assert (HB : In l (flat_map locs B') -> In l (L li) \/ In l (flat_map locs bases)).
  { subst B'. destruct bases as [|b0 br].
    - intros H. left. cbn [flat_map locs] in H. change (locs load) with (@nil loc) in H.
      rewrite !app_nil_r in H. exact H.
    - intros H. right. revert H. apply flat_map_incl. intros x Hx. apply IH. simpl in Hsz.
      pose proof (size_in _ _ Hx) as Hle. simpl in Hle. lia. }
  assert (Hbody : forall x, In x body -> In l (locs (rewrite_doc c x)) -> In l (locs x)).
  { intros x Hx. apply IH. simpl in Hsz. pose proof (size_in _ _ Hx). lia. }
  apply in_app_or in Hin as [H|H]; [apply in_or_app; left; exact H|].
  apply in_app_or in H as [H|H].
  { apply in_or_app. right. apply in_or_app. left. apply Hkids; [left; reflexivity|exact H]. }
  apply in_app_or in H as [H|H].
  { destruct (HB H) as [H'|H']; apply in_or_app; [left; exact H'|right].
    apply in_or_app. right. apply in_or_app. left. exact H'. }
  apply in_app_or in H as [H|H].
  { apply in_or_app. right. apply in_or_app. right. apply in_or_app. right. apply in_or_app. left.
    apply Hkids; [right; right; left; reflexivity|exact H]. }
  apply in_app_or in H as [H|H].
  { rewrite flat_map_app in H. apply in_app_or in H as [H|H].
    - apply in_or_app. right. apply in_or_app. right. apply in_or_app. right. apply in_or_app. right.
      apply in_or_app. left. revert H. apply flat_map_incl. exact Hbody.
    - apply in_or_app. left. unfold props_assign_at in H. cbn [flat_map locs] in H. fold (L li) in H.
      change (locs store) with (@nil loc) in H. rewrite !app_nil_r in H. cbn [app] in H.
      repeat (apply in_app_or in H as [H|H]; [exact H|]). exact H. }
  apply in_or_app. right. apply in_or_app. right. apply in_or_app. right. apply in_or_app. right.
  apply in_or_app. right. revert H. apply flat_map_incl. intros x Hx. apply Hkids. right; right; right; right. exact Hx.
Qed.

Theorem rewrite_locs_incl : forall c t l, In l (locs (rewrite_doc c t)) -> In l (locs t).
Proof. intros c t l. exact (rewrite_locs_sized c (S (size t)) t (Nat.lt_succ_diag_r _) l). Qed.

Theorem locations_preserved : forall c t t' cur,
  ctx_ok c = true -> wf t = true -> compile_py c t = OK t' ->
  let out := fix_missing cur t' in
  no_missing out = true
  /\ (forall k li ch, t = Node k li ch -> exists k' ch', out = Node k' li ch')
  /\ (forall l, In l (locs out) -> In l (locs t)).
Proof.
  intros c t t' cur Hc Hwf H out.
  assert (E : out = rewrite_doc c t) by (apply compile_py_is_rewrite; assumption).
  split; [apply fix_missing_no_missing|]. split.
  - intros k li ch ->. rewrite E. apply rewrite_keeps_li.
  - intros l. rewrite E. apply rewrite_locs_incl.
Qed.
