(* C09 — model of ScenicToPythonTransformer (src/scenic/syntax/compiler.py) restricted to *Python*
   node kinds, and the specification [rewrite_doc] of the documented rewrites.
   Definitions only (total, computable); proofs are in PyRewriteProofs.v.

   Python ASTs are generic trees.  A node carries its kind (interned by the harness), its location
   information and its children in the order of [ast.<Kind>._fields] (checked against the running
   [ast] module on every run).  Strings, identifiers and constant payloads are interned atoms. *)
From Coq Require Import ZArith NArith List Bool.
Import ListNotations.
Open Scope N_scope.

(* ------------------------------------------------------------------------------------------ trees *)
Record loc := Loc { l_line : Z; l_col : Z; l_eline : Z; l_ecol : Z }.

Inductive locinfo :=
| Located (l : loc)     (* the node has lineno/col_offset/end_lineno/end_col_offset *)
| Missing               (* the node's class has location attributes but they are not set (fresh node) *)
| NoAttr.               (* the node's class has no location attributes (Load, arguments, operators, ...) *)

Inductive tree :=
| Node (k : N) (li : locinfo) (ch : list tree)
| Lst (xs : list tree)          (* a list-valued field *)
| Atom (a : N)                  (* identifier, string, opaque constant payload, None *)
| Int (z : Z).                  (* integer payload (value of an int Constant) *)

(* kinds the transformer distinguishes; every other Python kind is handled by generic_visit.
   Kinds of Scenic-only nodes (scenic.syntax.ast) are interned in [1000, 2000). *)
Definition K_Name : N := 1.       (* id ctx *)
Definition K_Call : N := 2.       (* func args keywords *)
Definition K_Starred : N := 3.    (* value ctx *)
Definition K_ClassDef : N := 4.   (* name bases keywords body decorator_list type_params *)
Definition K_AnnAssign : N := 5.
Definition K_Yield : N := 6.
Definition K_YieldFrom : N := 7.
Definition K_Constant : N := 8.   (* value kind *)
Definition K_Assign : N := 9.     (* targets value type_comment *)
Definition K_Dict : N := 10.      (* keys values *)
Definition K_Load : N := 11.
Definition K_Store : N := 12.
Definition K_Del : N := 13.
Definition K_Attribute : N := 14. (* value attr ctx *)

Definition is_scenic (k : N) : bool := (1000 <=? k) && (k <? 2000).

(* atoms with a meaning for the transformer; all other strings are interned from 100 upwards *)
Definition A_None : N := 0.
Definition A_ego : N := 1.
Definition A_workspace : N := 2.
Definition A_globalParameters : N := 3.
Definition A_str : N := 4.
Definition A_int : N := 5.
Definition A_float : N := 6.
Definition A_toStr : N := 7.      (* _toStrScenic *)
Definition A_toInt : N := 8.      (* _toIntScenic *)
Definition A_toFloat : N := 9.    (* _toFloatScenic *)
Definition A_Object : N := 10.
Definition A_props : N := 11.     (* _scenic_properties *)
Definition A_wrapStarred : N := 12.   (* wrapStarredValue *)
Definition A_callStar : N := 13.      (* callWithStarArgs *)
Definition A_behaviorArg : N := 14.   (* _Scenic_current_behavior *)

Definition is_tracked (a : N) : bool := (a =? A_ego) || (a =? A_workspace).
Definition is_builtin (a : N) : bool :=
  (a =? A_globalParameters) || (a =? A_str) || (a =? A_int) || (a =? A_float).

Definition lifted (a : N) : N :=
  if a =? A_str then A_toStr else if a =? A_float then A_toFloat else if a =? A_int then A_toInt else a.

(* ------------------------------------------------------------------------------------------ context *)
Record ctx := Ctx {
  inBehavior : bool;
  inCompose : bool;
  locals : list N            (* behaviorLocals *)
}.
Definition top_ctx := Ctx false false [].

Fixpoint memN (a : N) (xs : list N) : bool :=
  match xs with [] => false | x :: r => (a =? x) || memN a r end.

(* ------------------------------------------------------------------------------------------ results *)
Inductive err :=
| EStoreBuiltin (l : loc)     (* unexpected keyword "str"/... : store/del of a built-in name *)
| EStoreTracked (l : loc)     (* only simple assignments to "ego"/"workspace" are allowed *)
| EAnnAssign (l : loc)        (* annotated assignments are not allowed in Scenic classes *)
| EYield (l : loc).           (* yield / yield from inside a compose/behavior block *)

Inductive res (A : Type) :=
| OK (a : A)
| Err (e : err)       (* a ScenicParseError raised deliberately through makeSyntaxError *)
| Crash.              (* an internal exception: assertion in generic_visit, AttributeError, ... *)
Arguments OK {A}. Arguments Err {A}. Arguments Crash {A}.

Definition bind {A B} (r : res A) (f : A -> res B) : res B :=
  match r with OK a => f a | Err e => Err e | Crash => Crash end.

Definition is_load (t : tree) : bool :=
  match t with Node k _ _ => k =? K_Load | _ => false end.

Definition load : tree := Node K_Load NoAttr [].
Definition store : tree := Node K_Store NoAttr [].

(* the location makeSyntaxError reads off a node (AttributeError if there is none) *)
Definition err_at (mk : loc -> err) (li : locinfo) : res tree :=
  match li with Located l => Err (mk l) | _ => Crash end.

(* ------------------------------------------------------------------------------------------ model *)
(* visit_Name (compiler.py:546-564) *)
Definition visit_name (c : ctx) (li : locinfo) (ch : list tree) : res tree :=
  match ch with
  | [Atom a; cx] =>
      if is_builtin a then
        if negb (is_load cx) then err_at EStoreBuiltin li
        else if a =? A_globalParameters
             then OK (Node K_Call li [Node K_Name Missing [Atom a; load]; Lst []; Lst []])
             else OK (Node K_Name li ch)
      else if is_tracked a then
        if negb (is_load cx) then err_at EStoreTracked li
        else OK (Node K_Call li [Node K_Name Missing [Atom a; load]; Lst []; Lst []])
      else if memN a (locals c) then
        OK (Node K_Attribute li [Node K_Name Missing [Atom A_behaviorArg; load]; Atom a; cx])
      else OK (Node K_Name li ch)
  | _ => Crash
  end.

Definition line_of (t : tree) : option Z :=
  match t with Node _ (Located l) _ => Some (l_line l) | _ => None end.

Definition is_starred (t : tree) : bool :=
  match t with Node k _ _ => k =? K_Starred | _ => false end.

(* newFunc.id = "_toStrScenic" ... (compiler.py:1094-1100) *)
Definition lift_func (f : tree) : tree :=
  match f with
  | Node k li [Atom a; cx] => if k =? K_Name then Node k li [Atom (lifted a); cx] else f
  | _ => f
  end.

Definition has_annassign (body : list tree) : option locinfo :=
  (fix go (xs : list tree) : option locinfo :=
     match xs with
     | [] => None
     | Node k li _ :: r => if k =? K_AnnAssign then Some li else go r
     | _ :: r => go r
     end) body.

(* the nodes visit_ClassDef inserts are themselves visited by generic_visit afterwards *)
Definition props_assign (c : ctx) : res tree :=
  bind (visit_name c Missing [Atom A_props; store]) (fun n =>
    OK (Node K_Assign Missing [Lst [n]; Node K_Dict Missing [Lst []; Lst []]; Atom A_None])).

Definition object_base (c : ctx) : res tree := visit_name c Missing [Atom A_Object; load].

Fixpoint compile_py (c : ctx) (t : tree) {struct t} : res tree :=
  let fix go (xs : list tree) : res (list tree) :=
    match xs with
    | [] => OK []
    | x :: r => bind (compile_py c x) (fun x' => bind (go r) (fun r' => OK (x' :: r')))
    end in
  (* arguments of a call: star arguments are wrapped unless we are inside a behavior *)
  let fix go_args (xs : list tree) : res (list tree) :=
    match xs with
    | [] => OK []
    | x :: r =>
        bind (match x with
              | Node k li [v; cx] =>
                  if (k =? K_Starred) && negb (inBehavior c) then
                    bind (compile_py c v) (fun v' =>
                      match line_of v with
                      | Some ln =>
                          OK (Node K_Starred Missing
                                [Node K_Call Missing
                                   [Node K_Name Missing [Atom A_wrapStarred; load];
                                    Lst [v'; Node K_Constant Missing [Int ln; Atom A_None]];
                                    Lst []];
                                 load])
                      | None => Crash
                      end)
                  else compile_py c x
              | Node k _ _ => if (k =? K_Starred) && negb (inBehavior c) then Crash else compile_py c x
              | _ => compile_py c x
              end)
             (fun x' => bind (go_args r) (fun r' => OK (x' :: r')))
    end in
  match t with
  | Atom _ | Int _ => OK t
  | Lst xs => bind (go xs) (fun xs' => OK (Lst xs'))
  | Node k li ch =>
      if is_scenic k then Crash      (* Scenic nodes are outside this model (generic_visit asserts) *)
      else if k =? K_Name then visit_name c li ch
      else if k =? K_Call then
        match ch with
        | [f; Lst args; Lst kws] =>
            bind (go_args args) (fun args' =>
            bind (go kws) (fun kws' =>
            bind (compile_py c f) (fun f0 =>
              let f' := lift_func f0 in
              if existsb is_starred args && negb (inBehavior c) then
                OK (Node K_Call li [Node K_Name Missing [Atom A_callStar; load]; Lst (f' :: args'); Lst kws'])
              else OK (Node K_Call li [f'; Lst args'; Lst kws']))))
        | _ => Crash
        end
      else if k =? K_ClassDef then
        match ch with
        | name :: Lst bases :: kws :: Lst body :: rest =>
            match has_annassign body with
            | Some sli => err_at EAnnAssign sli
            | None =>
                bind (compile_py c name) (fun name' =>
                bind (match bases with
                      | [] => bind (object_base c) (fun b => OK [b])
                      | _ => go bases
                      end) (fun bases' =>
                bind (compile_py c kws) (fun kws' =>
                bind (go body) (fun body' =>
                bind (props_assign c) (fun pa =>
                bind (go rest) (fun rest' =>
                  OK (Node k li (name' :: Lst bases' :: kws' :: Lst (body' ++ [pa]) :: rest'))))))))
            end
        | _ => Crash
        end
      else if ((k =? K_Yield) || (k =? K_YieldFrom)) && (inCompose c || inBehavior c) then
        err_at EYield li
      else bind (go ch) (fun ch' => OK (Node k li ch'))
  end.

(* ast.fix_missing_locations, as compileScenicAST applies it to the result *)
Definition loc0 : loc := Loc 1 0 1 0.

Fixpoint fix_missing (cur : loc) (t : tree) : tree :=
  match t with
  | Node k li ch =>
      match li with
      | Located l => Node k li (map (fix_missing l) ch)
      | Missing => Node k (Located cur) (map (fix_missing cur) ch)
      | NoAttr => Node k NoAttr (map (fix_missing cur) ch)
      end
  | Lst xs => Lst (map (fix_missing cur) xs)
  | _ => t
  end.

Definition compile_module (c : ctx) (t : tree) : res tree :=
  bind (compile_py c t) (fun t' => OK (fix_missing loc0 t')).

(* ------------------------------------------------------------------------------------------ spec *)
(* The documented rewrites as one top-down rewriting of ast.parse(src); every inserted node carries
   the location [l] of the node it replaces / is attached to. *)
Definition accessor_call (li : locinfo) (a : N) : tree :=
  Node K_Call li [Node K_Name li [Atom a; load]; Lst []; Lst []].

Definition props_assign_at (li : locinfo) : tree :=
  Node K_Assign li [Lst [Node K_Name li [Atom A_props; store]]; Node K_Dict li [Lst []; Lst []]; Atom A_None].

Definition wrap_star (li : locinfo) (v' : tree) (ln : Z) : tree :=
  Node K_Starred li
    [Node K_Call li
       [Node K_Name li [Atom A_wrapStarred; load];
        Lst [v'; Node K_Constant li [Int ln; Atom A_None]];
        Lst []];
     load].

Fixpoint rewrite_doc (c : ctx) (t : tree) {struct t} : tree :=
  match t with
  | Atom _ | Int _ => t
  | Lst xs => Lst (map (rewrite_doc c) xs)
  | Node k li ch =>
      if k =? K_Name then
        match ch with
        | [Atom a; cx] =>
            if is_load cx && (is_tracked a || (a =? A_globalParameters)) then
              accessor_call li a                                            (* ego -> ego() *)
            else if negb (is_builtin a) && negb (is_tracked a) && memN a (locals c) then
              (* local variable of a behavior -> attribute of the behavior object *)
              Node K_Attribute li [Node K_Name li [Atom A_behaviorArg; load]; Atom a; cx]
            else t
        | _ => t
        end
      else if k =? K_Call then
        match ch with
        | [f; Lst args; Lst kws] =>
            let wrap := negb (inBehavior c) in
            let f' := lift_func (rewrite_doc c f) in                        (* str(...) -> _toStrScenic(...) *)
            let args' :=
              map (fun x =>
                     match x with
                     | Node ks _ [v; _] =>
                         if (ks =? K_Starred) && wrap then
                           match line_of v with
                           | Some ln => wrap_star li (rewrite_doc c v) ln   (* *xs -> *wrapStarredValue(xs, line) *)
                           | None => rewrite_doc c x
                           end
                         else rewrite_doc c x
                     | _ => rewrite_doc c x
                     end) args in
            let kws' := map (rewrite_doc c) kws in
            if existsb is_starred args && wrap then                         (* star call -> callWithStarArgs f star-args *)
              Node K_Call li [Node K_Name li [Atom A_callStar; load]; Lst (f' :: args'); Lst kws']
            else Node K_Call li [f'; Lst args'; Lst kws']
        | _ => Node k li (map (rewrite_doc c) ch)
        end
      else if k =? K_ClassDef then
        match ch with
        | name :: Lst bases :: kws :: Lst body :: rest =>
            let bases' := match bases with
                          | [] => [Node K_Name li [Atom A_Object; load]]    (* class C: -> class C(Object): *)
                          | _ => map (rewrite_doc c) bases
                          end in
            Node k li (rewrite_doc c name :: Lst bases' :: rewrite_doc c kws
                         :: Lst (map (rewrite_doc c) body ++ [props_assign_at li])   (* property table *)
                         :: map (rewrite_doc c) rest)
        | _ => Node k li (map (rewrite_doc c) ch)
        end
      else Node k li (map (rewrite_doc c) ch)
  end.

(* contexts in which the class rewrite is as documented: the two names it introduces are not
   locals of an enclosing behavior *)
Definition ctx_ok (c : ctx) : bool := negb (memN A_Object (locals c)) && negb (memN A_props (locals c)).

(* what the documentation says is refused: assigning/deleting a reserved built-in or tracked name other
   than by a simple assignment statement, annotated assignments directly in a class body, and yield
   inside behaviors / compose blocks.  (Independent of traversal order.) *)
Definition offending_node (c : ctx) (k : N) (ch : list tree) : bool :=
  ((k =? K_Name) &&
     match ch with
     | [Atom a; cx] => (is_builtin a || is_tracked a) && negb (is_load cx)
     | _ => false
     end)
  || ((k =? K_ClassDef) &&
     match ch with
     | _ :: _ :: _ :: Lst body :: _ => match has_annassign body with Some _ => true | None => false end
     | _ => false
     end)
  || (((k =? K_Yield) || (k =? K_YieldFrom)) && (inCompose c || inBehavior c)).

Fixpoint rejects (c : ctx) (t : tree) : bool :=
  match t with
  | Node k _ ch => offending_node c k ch || existsb (rejects c) ch
  | Lst xs => existsb (rejects c) xs
  | _ => false
  end.

(* ------------------------------------------------------------------------------------------ well-formedness *)
(* What the harness checks of every tree it hands to the model (true of every CPython AST). *)
Definition is_ctx (k : N) : bool := (k =? K_Load) || (k =? K_Store) || (k =? K_Del).

Definition shape_ok_node (k : N) (li : locinfo) (ch : list tree) : bool :=
  negb (is_scenic k) &&
  (if k =? K_Name then match li, ch with Located _, [Atom _; Node kc NoAttr []] => is_ctx kc | _, _ => false end
   else if k =? K_Call then match li, ch with Located _, [_; Lst _; Lst _] => true | _, _ => false end
   else if k =? K_Starred then match li, ch with Located _, [Node _ (Located _) _; Node kc NoAttr []] => is_ctx kc | _, _ => false end
   else if k =? K_ClassDef then match li, ch with Located _, _ :: Lst _ :: _ :: Lst _ :: _ => true | _, _ => false end
   else if (k =? K_AnnAssign) || (k =? K_Yield) || (k =? K_YieldFrom) then match li with Located _ => true | _ => false end
   else match li with Missing => false | _ => true end).

Fixpoint wf (t : tree) : bool :=
  match t with
  | Node k li ch => shape_ok_node k li ch && forallb wf ch
  | Lst xs => forallb wf xs
  | _ => true
  end.

(* all locations occurring in a tree *)
Fixpoint locs (t : tree) : list loc :=
  match t with
  | Node _ li ch => (match li with Located l => [l] | _ => [] end) ++ flat_map locs ch
  | Lst xs => flat_map locs xs
  | _ => []
  end.

Fixpoint no_missing (t : tree) : bool :=
  match t with
  | Node _ li ch => (match li with Missing => false | _ => true end) && forallb no_missing ch
  | Lst xs => forallb no_missing xs
  | _ => true
  end.

Definition err_loc (e : err) : loc :=
  match e with EStoreBuiltin l | EStoreTracked l | EAnnAssign l | EYield l => l end.

Definition root_loc (t : tree) : option loc :=
  match t with Node _ (Located l) _ => Some l | _ => None end.
