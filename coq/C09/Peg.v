(* C09 — a real (token-exact) semantics for the PEG expressions of C10/PEG.v, the static analysis
   "every success consumes a Scenic keyword", and the decidable check "the Scenic grammar is the Python
   grammar plus alternatives that all require a keyword".  Definitions only (total computable Gallina);
   the theorems are in C09/PegProofs.v.

   MODELLING DECISIONS
   * Tokens are [N]; a token is identified with the terminal it matches: [PTok t] matches token [x] iff
     [x = t].  (NAME / soft-keyword distinctions are the business of the encoder.)
   * [pegc fuel G LR M e s : option (bool * option (list N))]   ([LR], [M]: see left recursion below)
        None                 no result with this fuel (out of fuel, or the run diverges, see below)
        Some (c, None)       failure
        Some (c, Some s')    success, [s'] is the unconsumed rest of the input
     [c] is the CUT FLAG: "a cut [~] was executed in the current alternative scope".  Cut is modelled
     PRECISELY in pegen's sense: [PCut] succeeds consuming nothing and raises the flag; [PSeq] propagates
     the flag (or of both parts; on failure of the first part its flag); [PAlt a b] tries [b] only when
     [a] FAILED WITH THE FLAG DOWN – a failure with the flag up makes the whole choice fail, the later
     alternatives are pruned.  The flag's scope ends at (is reset to [false] by) every [PAlt], [PRule],
     [POpt], repetition and lookahead – this is pegen's scoping: each rule and each parenthesised group /
     optional / loop is its own generated function with its own local [cut] variable.  An encoder must wrap a
     single-alternative group that contains a cut as [PAlt g (PNeg PEps)] (second branch always fails) to
     delimit the scope; a cut directly inside a loop body is reset per iteration (pegen: never used).
   * Ordered choice is deterministic; repetition ([PStar], [PPlus], [PGather]) is greedy and possessive: the
     loop runs until the body fails.  A body success that consumes NOTHING makes pegen's generated [while]
     loop spin forever; it is modelled as divergence: the result is [None] for every fuel.
   * [POpt], [&e] ([PPos]), [!e] ([PNeg]) as usual, lookaheads consume nothing.
   * [PForced e] ([&&e]) behaves as [e]; its failure (a SyntaxError raised by pegen) is modelled as failure.
   * A reference to an undefined rule fails.
   * LEFT RECURSION is modelled as pegen implements it (memoize_left_rec, "seed growing").  [LR] is the list of
     left-recursive LEADER rules (pegen: rule.left_recursive and rule.leader; the other rules of a left-recursive
     cycle are plain calls).  A call of a leader r at input s that is not already in progress starts with the
     seed "failure", runs the body with the memo entry (r, s) := seed, and as long as the body succeeds with a
     strictly shorter remainder than the seed's (initially: than s itself) takes the new result as seed and
     runs the body again; the last seed is the result.  While this loop runs, a call of r at the same s returns
     the current seed ([M], the memo of seeds in progress; entries are keyed by the rule and the remaining input).
     pegen's ordinary memoisation (a global cache of finished results) is semantically transparent and is not
     modelled: finished calls are recomputed.  With [LR = []] every rule is a plain call.
   * Fuel decreases by one at every constructor / loop iteration / seed-growing round, so the fuel needed is
     bounded by (nesting depth of the run) + (number of iterations). *)
From Coq Require Import NArith List Bool Arith.
From Scenic Require Import C10.PEG.
Import ListNotations.
Open Scope N_scope.

Definition res := (bool * option (list N))%type.

(* seeds in progress: (leader rule, remaining input at the call, current seed) *)
Definition memo := list (N * list N * option (list N)).

Fixpoint leqb (a b : list N) : bool :=
  match a, b with
  | [], [] => true
  | x :: a', y :: b' => (x =? y) && leqb a' b'
  | _, _ => false
  end.

Fixpoint mlookup (M : memo) (r : N) (s : list N) : option (option (list N)) :=
  match M with
  | [] => None
  | (r', s', o) :: M' => if (r =? r') && leqb s s' then Some o else mlookup M' r s
  end.

(* pegen: [if endmark <= lastmark: break], lastmark initially the start position *)
Definition better (s1 : list N) (seed : option (list N)) (s : list N) : bool :=
  Nat.ltb (length s1) (length (match seed with Some s0 => s0 | None => s end)).
Arguments better : simpl never.

Fixpoint pegc (fuel : nat) (G : grammar) (LR : list N) (M : memo) (e : pexp) (s : list N) {struct fuel}
  : option res :=
  match fuel with
  | O => None
  | S n =>
    match e with
    | PTok t =>
        match s with
        | x :: s' => if x =? t then Some (false, Some s') else Some (false, None)
        | [] => Some (false, None)
        end
    | PRule r =>
        match lookup G r with
        | None => Some (false, None)
        | Some b =>
            if memN r LR then
              match mlookup M r s with
              | Some o => Some (false, o)                      (* in progress: the current seed *)
              | None => match grow n G LR M r b s None with
                        | None => None
                        | Some (_, o) => Some (false, o)
                        end
              end
            else match pegc n G LR M b s with
                 | None => None
                 | Some (_, o) => Some (false, o)
                 end
        end
    | PEps => Some (false, Some s)
    | PCut => Some (true, Some s)
    | PSeq a b =>
        match pegc n G LR M a s with
        | None => None
        | Some (c1, None) => Some (c1, None)
        | Some (c1, Some s1) =>
            match pegc n G LR M b s1 with
            | None => None
            | Some (c2, o) => Some (c1 || c2, o)
            end
        end
    | PAlt a b =>
        match pegc n G LR M a s with
        | None => None
        | Some (_, Some s1) => Some (false, Some s1)
        | Some (c1, None) =>
            if c1 then Some (false, None)      (* cut: the later alternatives are pruned *)
            else match pegc n G LR M b s with
                 | None => None
                 | Some (_, o) => Some (false, o)
                 end
        end
    | POpt a =>
        match pegc n G LR M a s with
        | None => None
        | Some (_, Some s1) => Some (false, Some s1)
        | Some (_, None) => Some (false, Some s)
        end
    | PStar a =>
        match pegc n G LR M a s with
        | None => None
        | Some (_, None) => Some (false, Some s)
        | Some (_, Some s1) =>
            if Nat.eqb (length s1) (length s) then None else pegc n G LR M (PStar a) s1
        end
    | PPlus a =>
        match pegc n G LR M a s with
        | None => None
        | Some (_, None) => Some (false, None)
        | Some (_, Some s1) =>
            if Nat.eqb (length s1) (length s) then None else pegc n G LR M (PStar a) s1
        end
    | PGather sep a =>
        match pegc n G LR M a s with
        | None => None
        | Some (_, None) => Some (false, None)
        | Some (_, Some s1) => pegc n G LR M (PStar (PSeq sep a)) s1
        end
    | PPos a =>
        match pegc n G LR M a s with
        | None => None
        | Some (_, Some _) => Some (false, Some s)
        | Some (_, None) => Some (false, None)
        end
    | PNeg a =>
        match pegc n G LR M a s with
        | None => None
        | Some (_, Some _) => Some (false, None)
        | Some (_, None) => Some (false, Some s)
        end
    | PForced a => pegc n G LR M a s
    end
  end

(* seed growing for the leader r with body b called at s *)
with grow (fuel : nat) (G : grammar) (LR : list N) (M : memo) (r : N) (b : pexp) (s : list N)
          (seed : option (list N)) {struct fuel} : option res :=
  match fuel with
  | O => None
  | S n =>
    match pegc n G LR ((r, s, seed) :: M) b s with
    | None => None
    | Some (_, None) => Some (false, seed)
    | Some (_, Some s1) =>
        if better s1 seed s then grow n G LR M r b s (Some s1) else Some (false, seed)
    end
  end.

(* the interpreters the property speaks about: the cut flag and the memo are internal *)
Definition peglr (fuel : nat) (G : grammar) (LR : list N) (e : pexp) (s : list N) : option (option (list N)) :=
  option_map snd (pegc fuel G LR [] e s).

(* every rule a plain call (no left recursion support) *)
Definition peg (fuel : nat) (G : grammar) (e : pexp) (s : list N) : option (option (list N)) :=
  peglr fuel G [] e s.

(* ---- keyword analysis ------------------------------------------------------------------------------------ *)

(* "every success of e consumes at least one token of K"; [tbl] = rules already known to have that property *)
Fixpoint requires_kw (K tbl : list N) (e : pexp) : bool :=
  match e with
  | PTok t => memN t K
  | PRule r => memN r tbl
  | PSeq a b => requires_kw K tbl a || requires_kw K tbl b
  | PAlt a b => requires_kw K tbl a && requires_kw K tbl b
  | PPlus a | PForced a => requires_kw K tbl a
  | PGather _ a => requires_kw K tbl a
  | PEps | PCut | POpt _ | PStar _ | PPos _ | PNeg _ => false
  end.

(* the table is a post-fixed point: every rule in it is defined and its body requires a keyword *)
Definition kw_consistent (G : grammar) (K tbl : list N) : bool :=
  forallb (fun r => match lookup G r with
                    | Some b => requires_kw K tbl b
                    | None => false
                    end) tbl.

Definition kwfree (K : list N) (s : list N) : bool :=
  forallb (fun x => negb (memN x K)) s.

(* "e never leaves the cut flag up" (on any input) *)
Fixpoint nocut (e : pexp) : bool :=
  match e with
  | PCut => false
  | PSeq a b => nocut a && nocut b
  | PForced a => nocut a
  | _ => true
  end.

(* "on keyword-free input e never leaves the cut flag up": no cut is executed before a keyword was consumed *)
Fixpoint cut_safe (K tbl : list N) (e : pexp) : bool :=
  match e with
  | PCut => false
  | PSeq a b => cut_safe K tbl a && (requires_kw K tbl a || cut_safe K tbl b)
  | PForced a => cut_safe K tbl a
  | _ => true
  end.

(* ---- the extension check ---------------------------------------------------------------------------------- *)

(* [ext_aux K tbl ab es ep]: es (Scenic) is ep (Python) with extra alternatives that all require a keyword.
   [ab] = "the cut flag produced at this position is absorbed by the context before any choice looks at it"
   (true at rule bodies, right branches of choices, bodies of ? * + gather & !).
   Structural case first, then the two insertion cases:
     PAlt x es' ~ ep   x requires a keyword and executes no cut before consuming one   (added in FRONT)
     PAlt es' x ~ ep   x requires a keyword                                            (added at the END)
   An insertion wraps ep in a new choice, which resets the cut flag: allowed where the flag is absorbed
   anyway or ep never raises it. *)
Fixpoint ext_aux (K tbl : list N) (ab : bool) (es ep : pexp) {struct es} : bool :=
  match es with
  | PTok t => match ep with PTok t' => t =? t' | _ => false end
  | PRule r => match ep with PRule r' => r =? r' | _ => false end
  | PEps => match ep with PEps => true | _ => false end
  | PCut => match ep with PCut => true | _ => false end
  | PSeq a b => match ep with PSeq a' b' => ext_aux K tbl ab a a' && ext_aux K tbl ab b b' | _ => false end
  | POpt a => match ep with POpt a' => ext_aux K tbl true a a' | _ => false end
  | PStar a => match ep with PStar a' => ext_aux K tbl true a a' | _ => false end
  | PPlus a => match ep with PPlus a' => ext_aux K tbl true a a' | _ => false end
  | PGather p a => match ep with
                   | PGather p' a' => ext_aux K tbl true p p' && ext_aux K tbl true a a'
                   | _ => false
                   end
  | PPos a => match ep with PPos a' => ext_aux K tbl true a a' | _ => false end
  | PNeg a => match ep with PNeg a' => ext_aux K tbl true a a' | _ => false end
  | PForced a => match ep with PForced a' => ext_aux K tbl ab a a' | _ => false end
  | PAlt a b =>
      match ep with
      | PAlt a' b' => ext_aux K tbl false a a' && ext_aux K tbl true b b'
      | _ => false
      end
      || ((ab || nocut ep)
          && ((requires_kw K tbl a && cut_safe K tbl a && ext_aux K tbl true b ep)
              || (requires_kw K tbl b && ext_aux K tbl false a ep)))
  end.

(* rule bodies (and any start expression whose cut flag nobody looks at) *)
Definition ext_check (K tbl : list N) (es ep : pexp) : bool := ext_aux K tbl true es ep.

(* every rule referenced by e is defined in G *)
Fixpoint refs_defined (G : grammar) (e : pexp) : bool :=
  match e with
  | PRule r => match lookup G r with Some _ => true | None => false end
  | PTok _ | PEps | PCut => true
  | PSeq a b | PAlt a b | PGather a b => refs_defined G a && refs_defined G b
  | POpt a | PStar a | PPlus a | PPos a | PNeg a | PForced a => refs_defined G a
  end.

(* every Python rule has a Scenic counterpart (same rule number) that extends it, and the Python grammar is
   closed (no dangling rule reference) *)
Definition ext_grammar (K tbl : list N) (Gs Gp : grammar) : bool :=
  forallb (fun re => match lookup Gs (fst re) with
                     | Some es => ext_check K tbl es (snd re) && refs_defined Gp (snd re)
                     | None => false
                     end) Gp.
