(* Extraction of the C09 model to OCaml.  ExtrOcamlBasic only; N, Z, positive stay inductive. *)
From Coq Require Import ZArith NArith List.
From Coq Require Extraction.
From Coq Require Import ExtrOcamlBasic.
From Scenic Require Import C09.PyRewrite.
Extraction Language OCaml.
Extraction "model.ml" length compile_py compile_module rewrite_doc rejects wf ctx_ok fix_missing loc0 err_loc top_ctx.
