(* C05 — the reflected fallback of OperatorDistribution.sampleGiven for `**` (two operands), and why the
   fallback must look up the REVERSE method.  Numbers only; the exponent's value is a non-negative integer
   (an int, or a float with integral value) – other exponents are outside the model ([Unsup]). *)
From Coq Require Import ZArith QArith Qround List Bool.
From Scenic Require Import C05.Expr.
Import ListNotations.
Open Scope Q_scope.

Definition expo (y : num) : option nat :=
  match y with
  | NI z => if (0 <=? z)%Z then Some (Z.to_nat z) else None
  | NF q => if Qeq_bool q (inject_Z (Qfloor q)) && (0 <=? Qfloor q)%Z then Some (Z.to_nat (Qfloor q)) else None
  end.

(* x ** y: int ** int stays an int, anything else is a float *)
Definition pow_arith (x y : num) : dres :=
  match expo y with
  | None => DErr Unsup
  | Some n => DOk (VS (sc_of (match x, y with NI _, NI _ => npow x n | _, _ => NF (toQ (npow x n)) end)))
  end.

(* a.__pow__(b) (refl = false) / a.__rpow__(b) (refl = true: b ** a); int.__pow__(float) is NotImplemented *)
Definition dunder_pow (refl : bool) (a b : val) : dres :=
  match vnum a, vnum b with
  | Some x, Some y =>
      if is_int x && negb (is_int y) then DNotImpl
      else if refl then pow_arith y x else pow_arith x y
  | _, _ => DNotImpl
  end.

(* CPython: a ** b *)
Definition py_pow (a b : val) : res :=
  match dunder_pow false a b with
  | DOk v => ROk v
  | DErr x => RErr x
  | _ => res_of (dunder_pow true b a)
  end.

(* OperatorDistribution.sampleGiven for operator __pow__ (refl = false) / __rpow__ (refl = true).
   [mutant]: the fallback looks up self.operator instead of self.reverse on the other operand. *)
Definition pow_sample (mutant refl : bool) (first rest : val) : res :=
  match dunder_pow refl first rest with
  | DOk v => ROk v
  | DErr x => RErr x
  | _ => res_of (dunder_pow (if mutant then refl else negb refl) rest first)
  end.

Theorem pow_sample_num refl a b x y : vnum a = Some x -> vnum b = Some y ->
  pow_sample false refl a b = if refl then py_pow b a else py_pow a b.
Proof.
  intros Ha Hb. unfold pow_sample, py_pow, dunder_pow. rewrite Ha, Hb.
  destruct x, y, refl; cbn [is_int andb negb];
    repeat match goal with
    | |- context [match pow_arith ?u ?v with _ => _ end] => destruct (pow_arith u v)
    end; reflexivity.
Qed.

(* the same fallback for - / // % (the operators of [binop]): mutant of [op_sample] *)
Definition op_sample_mut (o : binop) (refl : bool) (first rest : val) : res :=
  match dunder o refl first rest with
  | DOk v => ROk v
  | DErr x => RErr x
  | _ => res_of (dunder o refl rest first)
  end.

Theorem reflected_fallback_mutant_refuted :
  (exists a b, pow_sample true false a b <> py_pow a b /\ pow_sample false false a b = py_pow a b) /\
  (forall o, In o [Sub; Div; FloorDiv; Mod] ->
     exists a b, op_sample_mut o false a b <> py_binop o a b /\ op_sample true o false a b = py_binop o a b).
Proof.
  split.
  - exists (VS (SInt 2)), (VS (SFloat 3)). split; [vm_compute; discriminate|reflexivity].
  - intros o Ho. exists (VS (SInt 7)), (VS (SFloat 2)).
    cbn in Ho. destruct Ho as [<-|[<-|[<-|[<-|[]]]]]; (split; [vm_compute; discriminate|reflexivity]).
Qed.

Example pow_sample_example :
  pow_sample false false (VS (SInt 2)) (VS (SFloat 3)) = ROk (VS (SFloat 8)) /\
  pow_sample false true (VS (SInt 2)) (VS (SFloat 3)) = ROk (VS (SFloat 9)) /\
  pow_sample false false (VS (SInt 2)) (VS (SInt 3)) = ROk (VS (SInt 8)).
Proof. repeat split; vm_compute; reflexivity. Qed.
