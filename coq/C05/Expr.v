(* C05 — model of expression capture / evaluation / support intervals of
   src/scenic/core/distributions.py (definitions only; proofs in ExprProofs.v, SupportProofs.v).

   Value universe: scalars (int | float-as-exact-rational | bool | None) and flat tuples / lists of
   scalars.  Python's operator semantics are modelled at the level of the special methods
   (`a.__op__(b)` may return NotImplemented, raise, or not exist) because
   OperatorDistribution.sampleGiven works at that level (getattr + reflected fallback), while the
   specification [eval_py] is CPython's binary-operator protocol on the same special methods. *)
From Coq Require Import ZArith QArith Qround Qabs List Bool.
Import ListNotations.
Open Scope Q_scope.

(* ---------------------------------------------------------------- values *)
Inductive sc := SInt (z : Z) | SFloat (q : Q) | SBool (b : bool) | SNone.
Inductive val := VS (s : sc) | VTup (l : list sc) | VLst (l : list sc).

Inductive exc := TypeErr | ZeroDiv | IndexErr | AttrErr | Unsup | RandIdx.
Inductive res := ROk (v : val) | RErr (x : exc).

Inductive num := NI (z : Z) | NF (q : Q).
Definition num_of (s : sc) : option num :=
  match s with
  | SInt z => Some (NI z)
  | SBool b => Some (NI (if b then 1 else 0)%Z)
  | SFloat q => Some (NF q)
  | SNone => None
  end.
Definition sc_of (n : num) : sc := match n with NI z => SInt z | NF q => SFloat q end.
Definition toQ (n : num) : Q := match n with NI z => inject_Z z | NF q => q end.
Definition vnum (v : val) : option num := match v with VS s => num_of s | _ => None end.

(* ---------------------------------------------------------------- arithmetic on numbers *)
Inductive binop := Add | Sub | Mul | Div | FloorDiv | Mod.
Inductive unop := Neg | Pos | Abs | PowN (n : nat).   (* x ** n for a literal n >= 0 *)

(* result of calling a special method *)
Inductive dres := DOk (v : val) | DErr (x : exc) | DNotImpl | DNoAttr.

Definition qzero (q : Q) : bool := Qeq_bool q 0.
Definition qfl (q : Q) : Q := inject_Z (Qfloor q).

(* exact-arithmetic meaning of the operators on the rational values of the operands *)
Definition qarith (o : binop) (a b : Q) : Q :=
  match o with
  | Add => a + b | Sub => a - b | Mul => a * b | Div => a / b
  | FloorDiv => qfl (a / b)
  | Mod => a - b * qfl (a / b)
  end.

Definition arith (o : binop) (x y : num) : dres :=
  match o with
  | Add => DOk (VS (sc_of (match x, y with NI a, NI b => NI (a + b) | _, _ => NF (toQ x + toQ y) end)))
  | Sub => DOk (VS (sc_of (match x, y with NI a, NI b => NI (a - b) | _, _ => NF (toQ x - toQ y) end)))
  | Mul => DOk (VS (sc_of (match x, y with NI a, NI b => NI (a * b) | _, _ => NF (toQ x * toQ y) end)))
  | Div => if qzero (toQ y) then DErr ZeroDiv else DOk (VS (SFloat (toQ x / toQ y)))
  | FloorDiv => if qzero (toQ y) then DErr ZeroDiv else
      DOk (VS (sc_of (match x, y with NI a, NI b => NI (a / b) | _, _ => NF (qfl (toQ x / toQ y)) end)))
  | Mod => if qzero (toQ y) then DErr ZeroDiv else
      DOk (VS (sc_of (match x, y with NI a, NI b => NI (a mod b)
                                | _, _ => NF (toQ x - toQ y * qfl (toQ x / toQ y)) end)))
  end.

Fixpoint npow (x : num) (n : nat) : num :=
  match n with
  | O => match x with NI _ => NI 1 | NF _ => NF 1 end
  | S m => match x, npow x m with NI a, NI b => NI (a * b) | _, r => NF (toQ x * toQ r) end
  end.

Definition un_num (o : unop) (x : num) : num :=
  match o with
  | Neg => match x with NI a => NI (- a) | NF q => NF (- q) end
  | Pos => x
  | Abs => match x with NI a => NI (Z.abs a) | NF q => NF (Qabs q) end
  | PowN n => npow x n
  end.

(* ---------------------------------------------------------------- special methods *)
(* [dunder o refl a b] = a.__o__(b) (refl = false)  or  a.__ro__(b) (refl = true; computes b o a). *)
Definition is_int (n : num) := match n with NI _ => true | NF _ => false end.

Definition dunder (o : binop) (refl : bool) (a b : val) : dres :=
  match a with
  | VS SNone => DNoAttr                          (* NoneType has none of the arithmetic methods *)
  | VS sa =>
      match num_of sa, vnum b with
      | Some x, Some y =>
          if is_int x && negb (is_int y) then DNotImpl          (* int.__op__(float) *)
          else if refl then arith o y x else arith o x y
      | _, _ => DNotImpl
      end
  | VTup la =>
      match o, refl, b with
      | Add, false, VTup lb => DOk (VTup (la ++ lb))
      | Add, false, _ => DErr TypeErr           (* can only concatenate tuple *)
      | Mul, _, _ => DErr Unsup                 (* repetition: outside the model *)
      | _, _, _ => DNoAttr                      (* no __radd__, __sub__, ... on tuple *)
      end
  | VLst la =>
      match o, refl, b with
      | Add, false, VLst lb => DOk (VLst (la ++ lb))
      | Add, false, _ => DErr TypeErr
      | Mul, _, _ => DErr Unsup
      | _, _, _ => DNoAttr
      end
  end.

Definition res_of (d : dres) : res :=
  match d with DOk v => ROk v | DErr x => RErr x | _ => RErr TypeErr end.

(* CPython's binary operator protocol: a.__op__(b), then b.__rop__(a), then TypeError. *)
Definition py_binop (o : binop) (a b : val) : res :=
  match dunder o false a b with
  | DOk v => ROk v
  | DErr x => RErr x
  | DNotImpl | DNoAttr => res_of (dunder o true b a)
  end.

Definition py_unop (o : unop) (a : val) : res :=
  match vnum a with
  | Some x => ROk (VS (sc_of (un_num o x)))
  | None => RErr TypeErr
  end.

Definition seq_items (v : val) : option (list sc) :=
  match v with VTup l | VLst l => Some l | _ => None end.

Definition index_of (i : val) : option Z :=
  match i with VS (SInt z) => Some z | VS (SBool b) => Some (if b then 1 else 0)%Z | _ => None end.

Definition py_index (a i : val) : res :=
  match seq_items a with
  | None => RErr TypeErr
  | Some l =>
      match index_of i with
      | None => RErr TypeErr
      | Some z =>
          let n := Z.of_nat (length l) in
          let k := (if z <? 0 then z + n else z)%Z in
          if ((k <? 0) || (n <=? k))%Z then RErr IndexErr
          else match nth_error l (Z.to_nat k) with Some s => ROk (VS s) | None => RErr IndexErr end
      end
  end.

(* lifted functions (scenic.core.geometry.max / min over numbers) *)
Inductive fn := FMax | FMin.
Definition qleb (a b : Q) : bool := Qle_bool a b.
Definition pick (f : fn) (x y : num) : num :=      (* Python keeps the first extremal argument *)
  match f with
  | FMax => if qleb (toQ y) (toQ x) then x else y
  | FMin => if qleb (toQ x) (toQ y) then x else y
  end.
Fixpoint nums_of (l : list val) : option (list num) :=
  match l with
  | [] => Some []
  | v :: r => match vnum v, nums_of r with Some x, Some xs => Some (x :: xs) | _, _ => None end
  end.
Definition apply_fn (f : fn) (args : list val) : res :=
  match nums_of args with
  | Some (x :: y :: xs) => ROk (VS (sc_of (fold_left (pick f) (y :: xs) x)))
  | Some _ => RErr TypeErr                      (* max() / max(3): TypeError *)
  | None => RErr (match args with [_] => Unsup | _ => TypeErr end)   (* max(seq): outside the model *)
  end.

(* ---------------------------------------------------------------- expressions (the program text) *)
Inductive expr :=
  | ELeaf (i : nat)                       (* primitive random value without bounds (Normal, ...) *)
  | ERange (i : nat) (lo hi : expr)       (* Range(lo, hi): sample number i *)
  | EDRange (i : nat) (lo hi : expr)      (* DiscreteRange(lo, hi) *)
  | ETNorm (i : nat) (lo hi : Q)          (* TruncatedNormal(_, _, lo, hi) *)
  | EConst (v : val)
  | EUn (o : unop) (a : expr)
  | EBin (o : binop) (a b : expr)
  | ESeq (islist : bool) (l : exprs)      (* tuple / list display *)
  | EIdx (a i : expr)
  | EMux (sel : nat) (l : exprs)          (* Uniform(...) / Options(...): selector sample number sel *)
  | ECall (f : fn) (l : exprs)
with exprs :=
  | ENil
  | ECons (e : expr) (l : exprs)
  | EStar (e : expr) (l : exprs).         (* *e, ... (only meaningful in a call) *)

Definition valuation := nat -> val.

Definition strict2 (f : val -> val -> res) (a b : res) : res :=
  match a, b with
  | RErr x, _ => RErr x
  | _, RErr x => RErr x
  | ROk va, ROk vb => f va vb
  end.
Definition strict1 (f : val -> res) (a : res) : res := match a with RErr x => RErr x | ROk v => f v end.

Inductive lres := LOk (l : list val) | LErr (x : exc).
Definition lcons (star : bool) (a : res) (r : lres) : lres :=
  match a, r with
  | RErr x, _ => LErr x
  | _, LErr x => LErr x
  | ROk v, LOk l =>
      if star then match seq_items v with Some it => LOk (map VS it ++ l) | None => LErr TypeErr end
      else LOk (v :: l)
  end.

Fixpoint scalars (l : list val) : option (list sc) :=
  match l with
  | [] => Some []
  | VS s :: r => match scalars r with Some ss => Some (s :: ss) | None => None end
  | _ :: _ => None
  end.
Definition mk_seq (islist : bool) (r : lres) : res :=
  match r with
  | LErr x => RErr x
  | LOk l => match scalars l with
             | Some ss => ROk (if islist then VLst ss else VTup ss)
             | None => RErr Unsup            (* nested containers: outside the model *)
             end
  end.
Definition mux_pick (s : val) (r : lres) : res :=
  match r with
  | LErr x => RErr x
  | LOk l => match s with
             | VS (SInt z) => if (z <? 0)%Z then RErr IndexErr else
                              match nth_error l (Z.to_nat z) with Some v => ROk v | None => RErr IndexErr end
             | _ => RErr TypeErr
             end
  end.
Definition call_fn (f : fn) (r : lres) : res := match r with LErr x => RErr x | LOk l => apply_fn f l end.
Definition need_num2 (v : val) (a b : val) : res :=
  match vnum a, vnum b with Some _, Some _ => ROk v | _, _ => RErr TypeErr end.
Fixpoint has_star (l : exprs) : bool :=
  match l with ENil => false | ECons _ r => has_star r | EStar _ _ => true end.

(* SPEC: what plain Python computes from the sampled values of the random leaves *)
Fixpoint eval_py (s : valuation) (e : expr) : res :=
  match e with
  | ELeaf i => ROk (s i)
  | ERange i lo hi | EDRange i lo hi => strict2 (need_num2 (s i)) (eval_py s lo) (eval_py s hi)
  | ETNorm i _ _ => ROk (s i)
  | EConst v => ROk v
  | EUn o a => strict1 (py_unop o) (eval_py s a)
  | EBin o a b => strict2 (py_binop o) (eval_py s a) (eval_py s b)
  | ESeq il l => if has_star l then RErr Unsup else mk_seq il (eval_pys s l)
  | EIdx a i => strict2 py_index (eval_py s a) (eval_py s i)
  | EMux sel l => if has_star l then RErr Unsup else mux_pick (s sel) (eval_pys s l)
  | ECall f l => call_fn f (eval_pys s l)
  end
with eval_pys (s : valuation) (l : exprs) : lres :=
  match l with
  | ENil => LOk []
  | ECons e r => lcons false (eval_py s e) (eval_pys s r)
  | EStar e r => lcons true (eval_py s e) (eval_pys s r)
  end.

(* ---------------------------------------------------------------- the captured DAG *)
Inductive node :=
  | NLeaf (i : nat)
  | NRange (i : nat) (lo hi : node)
  | NDRange (i : nat) (lo hi : node)
  | NTNorm (i : nat) (lo hi : Q)
  | NConst (v : val)                        (* a non-random dependency *)
  | NUn (o : unop) (a : node)               (* OperatorDistribution __neg__/__pos__/__abs__/__pow__ n *)
  | NOp (o : binop) (refl : bool) (obj arg : node)   (* OperatorDistribution __o__ / __ro__ *)
  | NSeq (islist : bool) (l : nodes)        (* TupleDistribution *)
  | NIdx (obj i : node)                     (* OperatorDistribution __getitem__ *)
  | NMux (sel : nat) (l : nodes)            (* MultiplexerDistribution *)
  | NFun (f : fn) (l : nodes)               (* FunctionDistribution *)
with nodes :=
  | NNil
  | NCons (n : node) (l : nodes)
  | NStar (n : node) (l : nodes).           (* StarredDistribution argument *)

(* OperatorDistribution.sampleGiven.  [fixed] = behaviour after fix-C05-seq-radd: a missing special
   method counts as NotImplemented instead of escaping as AttributeError. *)
Definition op_sample (fixed : bool) (o : binop) (refl : bool) (first rest : val) : res :=
  match dunder o refl first rest with
  | DOk v => ROk v
  | DErr x => RErr x
  | DNoAttr =>
      if fixed then
        match dunder o (negb refl) rest first with
        | DOk v => ROk v | DErr x => RErr x | DNotImpl => RErr TypeErr
        | DNoAttr => RErr TypeErr end
      else RErr AttrErr
  | DNotImpl =>
      match dunder o (negb refl) rest first with
      | DOk v => ROk v
      | DErr x => RErr x
      | DNotImpl => RErr TypeErr
      | DNoAttr => if fixed then RErr TypeErr else RErr AttrErr
      end
  end.

Section Eval.
  Variable fixed : bool.
  Fixpoint eval_node (s : valuation) (n : node) : res :=
    match n with
    | NLeaf i => ROk (s i)
    | NRange i lo hi | NDRange i lo hi => strict2 (need_num2 (s i)) (eval_node s lo) (eval_node s hi)
    | NTNorm i _ _ => ROk (s i)
    | NConst v => ROk v
    | NUn o a => strict1 (py_unop o) (eval_node s a)
    | NOp o refl a b => strict2 (op_sample fixed o refl) (eval_node s a) (eval_node s b)
    | NSeq il l => mk_seq il (eval_nodes s l)
    | NIdx a i => strict2 py_index (eval_node s a) (eval_node s i)
    | NMux sel l => mux_pick (s sel) (eval_nodes s l)
    | NFun f l => call_fn f (eval_nodes s l)
    end
  with eval_nodes (s : valuation) (l : nodes) : lres :=
    match l with
    | NNil => LOk []
    | NCons n r => lcons false (eval_node s n) (eval_nodes s r)
    | NStar n r => lcons true (eval_node s n) (eval_nodes s r)
    end.
End Eval.

(* ---------------------------------------------------------------- capture *)
(* What evaluating the expression text does at compile time: plain values are computed by
   Python immediately, random values build nodes; a tuple/list display containing random
   values stays a *plain* container (CT) until something calls toDistribution on it. *)
Inductive cap :=
  | CV (v : val)
  | CE (x : exc)
  | CN (n : node)
  | CT (islist : bool) (l : nodes).      (* plain container with at least one random item *)

Definition node_of (c : cap) : node :=    (* toDistribution *)
  match c with
  | CV v => NConst v
  | CN n => n
  | CT il l => NSeq il l
  | CE _ => NConst (VS SNone)
  end.

Section Capture.
  Variable tau : nat -> bool.     (* leaf i has a numeric _valueType *)
  Variable simp : bool.           (* the x+0, x*1, x/1, x**1 shortcuts are enabled *)
  Variable fdiv : bool.           (* ... and also x//1 (the code before fix-C05-floordiv-identity) *)

  Definition vnumb (v : val) : bool := match vnum v with Some _ => true | None => false end.
  Fixpoint isnum (n : node) : bool :=
    match n with
    | NLeaf i => tau i
    | NRange _ _ _ | NDRange _ _ _ | NTNorm _ _ _ => true
    | NConst v => vnumb v
    | NUn _ a => isnum a
    | NOp _ _ a b => isnum a && isnum b
    | NMux _ l => isnums l
    | _ => false
    end
  with isnums (l : nodes) : bool :=
    match l with NNil => true | NCons n r => isnum n && isnums r | NStar _ _ => false end.

  Definition veq_const (v : val) (k : Q) : bool :=
    match vnum v with Some x => Qeq_bool (toQ x) k | None => false end.

  Definition shortcut (o : binop) (refl : bool) (self : node) (arg : cap) : bool :=
    simp && isnum self &&
    match arg with
    | CV v =>
        match o, refl with
        | Add, _ | Sub, false => veq_const v 0
        | Mul, _ | Div, false => veq_const v 1
        | FloorDiv, false => fdiv && veq_const v 1
        | _, _ => false
        end
    | _ => false
    end.

  Definition of_res (r : res) : cap := match r with ROk v => CV v | RErr x => CE x end.

  (* operations on a plain container holding random items happen structurally, now *)
  Definition nodes_of_scs (l : list sc) : nodes := fold_right (fun s r => NCons (NConst (VS s)) r) NNil l.
  Fixpoint napp (a b : nodes) : nodes :=
    match a with NNil => b | NCons n r => NCons n (napp r b) | NStar n r => NStar n (napp r b) end.
  Fixpoint nlen (a : nodes) : nat := match a with NNil => O | NCons _ r | NStar _ r => S (nlen r) end.
  Fixpoint nnth (a : nodes) (k : nat) : option node :=
    match a, k with
    | NCons n _, O => Some n
    | NCons _ r, S k' => nnth r k'
    | _, _ => None
    end.
  Definition cap_items (c : cap) : option (bool * nodes) :=
    match c with
    | CT il l => Some (il, l)
    | CV (VTup l) => Some (false, nodes_of_scs l)
    | CV (VLst l) => Some (true, nodes_of_scs l)
    | _ => None
    end.

  Definition cap_bin (o : binop) (ca cb : cap) : cap :=
    match ca, cb with
    | CE x, _ => CE x
    | _, CE x => CE x
    | CV va, CV vb => of_res (py_binop o va vb)
    | CN na, _ => if shortcut o false na cb then CN na else CN (NOp o false na (node_of cb))
    | _, CN nb => if shortcut o true nb ca then CN nb else CN (NOp o true nb (node_of ca))
    | _, _ =>     (* a plain container with random items against a plain value / container *)
        match o, cap_items ca, cap_items cb with
        | Add, Some (ia, la), Some (ib, lb) => if Bool.eqb ia ib then CT ia (napp la lb) else CE TypeErr
        | Mul, _, _ => CE Unsup
        | _, _, _ => CE TypeErr
        end
    end.

  Definition cap_un (o : unop) (ca : cap) : cap :=
    match ca with
    | CE x => CE x
    | CV v => of_res (py_unop o v)
    | CN n => match o with
              | PowN 1 => if simp && isnum n then CN n else CN (NUn o n)
              | _ => CN (NUn o n)
              end
    | CT _ _ => CE TypeErr
    end.

  Definition cap_idx (ca ci : cap) : cap :=
    match ca, ci with
    | CE x, _ => CE x
    | _, CE x => CE x
    | CV va, CV vi => of_res (py_index va vi)
    | CN na, _ => CN (NIdx na (node_of ci))
    | CV va, CN ni => match seq_items va with
                      | Some _ => CE RandIdx      (* tuple.__getitem__(Distribution): rejected at compile time *)
                      | None => CE TypeErr end
    | CT _ _, CN _ => CE RandIdx
    | CT il l, CV vi =>
        match index_of vi with
        | None => CE TypeErr
        | Some z =>
            let n := Z.of_nat (nlen l) in
            let k := (if z <? 0 then z + n else z)%Z in
            if ((k <? 0) || (n <=? k))%Z then CE IndexErr
            else match nnth l (Z.to_nat k) with
                 | Some (NConst v) => CV v
                 | Some nd => CN nd
                 | None => CE IndexErr end
        end
    | _, CT _ _ => CE TypeErr
    end.

  Inductive lcap := LC (anyrandom : bool) (l : nodes) | LCE (x : exc).
  Definition is_random (c : cap) : bool := match c with CN _ | CT _ _ => true | _ => false end.
  Definition lc_cons (star : bool) (c : cap) (r : lcap) : lcap :=
    match c, r with
    | CE x, _ => LCE x
    | _, LCE x => LCE x
    | _, LC b l =>
        if star then
          match c with
          | CN n => LC true (NStar n l)
          | _ => match cap_items c with                  (* plain iterable: Python unpacks it now *)
                 | Some (_, items) => LC (b || is_random c) (napp items l)
                 | None => LCE TypeErr end
          end
        else LC (b || is_random c) (NCons (node_of c) l)
    end.

  Fixpoint const_vals (l : nodes) : option (list val) :=
    match l with
    | NNil => Some []
    | NCons (NConst v) r => match const_vals r with Some vs => Some (v :: vs) | None => None end
    | _ => None
    end.

  Definition cap_seq (il : bool) (r : lcap) : cap :=
    match r with
    | LCE x => CE x
    | LC false l => match const_vals l with
                    | Some vs => of_res (mk_seq il (LOk vs))
                    | None => CE Unsup end
    | LC true l => CT il l
    end.
  Definition cap_call (f : fn) (r : lcap) : cap :=
    match r with
    | LCE x => CE x
    | LC false l => match const_vals l with
                    | Some vs => of_res (apply_fn f vs)
                    | None => CE Unsup end
    | LC true l => CN (NFun f l)
    end.
  Definition cap_mux (sel : nat) (r : lcap) : cap :=
    match r with LCE x => CE x | LC _ l => CN (NMux sel l) end.
  Definition cap_range (disc : bool) (i : nat) (a b : cap) : cap :=
    match a, b with
    | CE x, _ => CE x
    | _, CE x => CE x
    | CT _ _, _ | _, CT _ _ => CE TypeErr           (* toScalar rejects containers *)
    | CV va, _ => if vnumb va then
                    match b with
                    | CV vb => if vnumb vb then CN ((if disc then NDRange else NRange) i (NConst va) (NConst vb)) else CE TypeErr
                    | _ => CN ((if disc then NDRange else NRange) i (NConst va) (node_of b))
                    end
                  else CE TypeErr
    | CN na, CV vb => if vnumb vb then CN ((if disc then NDRange else NRange) i na (NConst vb)) else CE TypeErr
    | CN na, CN nb => CN ((if disc then NDRange else NRange) i na nb)
    end.

  Fixpoint capture (e : expr) : cap :=
    match e with
    | ELeaf i => CN (NLeaf i)
    | ERange i lo hi => cap_range false i (capture lo) (capture hi)
    | EDRange i lo hi => cap_range true i (capture lo) (capture hi)
    | ETNorm i lo hi => CN (NTNorm i lo hi)
    | EConst v => CV v
    | EUn o a => cap_un o (capture a)
    | EBin o a b => cap_bin o (capture a) (capture b)
    | ESeq il l => if has_star l then CE Unsup else cap_seq il (captures l)
    | EIdx a i => cap_idx (capture a) (capture i)
    | EMux sel l => if has_star l then CE Unsup else cap_mux sel (captures l)
    | ECall f l => cap_call f (captures l)
    end
  with captures (l : exprs) : lcap :=
    match l with
    | ENil => LC false NNil
    | ECons e r => lc_cons false (capture e) (captures r)
    | EStar e r => lc_cons true (capture e) (captures r)
    end.
End Capture.

Definition eval_cap (fixed : bool) (s : valuation) (c : cap) : res :=
  match c with
  | CV v => ROk v
  | CE x => RErr x
  | CN n => eval_node fixed s n
  | CT il l => mk_seq il (eval_nodes fixed s l)
  end.

(* ---------------------------------------------------------------- support intervals *)
Definition ival := (option Q * option Q)%type.
Definition omin (a b : option Q) : option Q :=
  match a, b with Some x, Some y => Some (if qleb x y then x else y) | _, _ => None end.
Definition omax (a b : option Q) : option Q :=
  match a, b with Some x, Some y => Some (if qleb x y then y else x) | _, _ => None end.
Definition qmin (x y : Q) := if qleb x y then x else y.
Definition qmax (x y : Q) := if qleb x y then y else x.
Definition union_iv (a b : ival) : ival := (omin (fst a) (fst b), omax (snd a) (snd b)).
Definition qltb (a b : Q) : bool := negb (Qle_bool b a).

(* OperatorDistribution.supportInterval for a binary operator on (object, operand) supports *)
Definition op_support (o : binop) (refl : bool) (s1 s2 : ival) : ival :=
  match s1, s2 with
  | (Some l1, Some r1), (Some l2, Some r2) =>
      match o, refl with
      | Add, _ => (Some (l1 + l2), Some (r1 + r2))
      | Sub, false => (Some (l1 - r2), Some (r1 - l2))
      | Sub, true => (Some (l2 - r1), Some (r2 - l1))
      | Mul, _ => (Some (qmin (qmin (l1 * l2) (l1 * r2)) (qmin (r1 * l2) (r1 * r2))),
                   Some (qmax (qmax (l1 * l2) (l1 * r2)) (qmax (r1 * l2) (r1 * r2))))
      | Div, false =>
          if qltb 0 l2 then (Some (if qleb 0 l1 then l1 / r2 else l1 / l2),
                             Some (if qleb 0 r1 then r1 / l2 else r1 / r2))
          else (None, None)
      | Div, true =>
          if qltb 0 l1 then (Some (if qleb 0 l2 then l2 / r1 else l2 / l1),
                             Some (if qleb 0 r2 then r2 / l1 else r2 / r1))
          else (None, None)
      | _, _ => (None, None)
      end
  | _, _ => (None, None)
  end.

(* unary: [Some iv] or [None] = the code raises TypeError (before fix-C05-absneg-none) *)
Definition un_support (fixed : bool) (o : unop) (s : ival) : option ival :=
  match o with
  | Neg => match s with
           | (Some l, Some r) => Some (Some (- r), Some (- l))
           | (l, r) => if fixed then Some (option_map Qopp r, option_map Qopp l) else None
           end
  | Abs => match s with
           | (Some l, Some r) =>
               Some (if qltb r 0 then (Some (- r), Some (- l))
                     else if qltb l 0 then (Some 0, Some (qmax (- l) r))
                     else (Some l, Some r))
           | _ => if fixed then Some (None, None) else None
           end
  | _ => Some (None, None)
  end.

(* monotonicDistributionFunction's support applied to max / min *)
Fixpoint all_some (l : list (option Q)) : option (list Q) :=
  match l with
  | [] => Some []
  | Some x :: r => match all_some r with Some xs => Some (x :: xs) | None => None end
  | None :: _ => None
  end.
Definition qpick (f : fn) (x y : Q) : Q := match f with FMax => qmax y x | FMin => qmin x y end.
Definition fn_on (f : fn) (l : option (list Q)) : option Q :=
  match l with Some (x :: xs) => Some (fold_left (qpick f) xs x) | _ => None end.
Definition mono_support (f : fn) (ss : list ival) : ival :=
  (fn_on f (all_some (map fst ss)), fn_on f (all_some (map snd ss))).

Definition const_support (v : val) : ival :=
  match v with
  | VS s => match num_of s with Some x => (Some (toQ x), Some (toQ x)) | None => (None, None) end
  | _ => (None, None)
  end.

Section Support.
  Variable fixed : bool.
  (* [None] = supportInterval raises *)
  Definition obind {A B} (a : option A) (f : A -> option B) : option B :=
    match a with Some x => f x | None => None end.
  Fixpoint support (n : node) : option ival :=
    match n with
    | NLeaf _ => Some (None, None)
    | NRange _ lo hi => obind (support lo) (fun a => obind (support hi) (fun b => Some (union_iv a b)))
    | NDRange _ lo hi => obind (support lo) (fun a => obind (support hi) (fun b => Some (fst a, snd b)))
    | NTNorm _ lo hi => Some (Some lo, Some hi)
    | NConst v => Some (const_support v)
    | NUn o a => obind (support a) (un_support fixed o)
    | NOp o refl a b =>
        match o with
        | Add | Sub | Mul | Div =>
            obind (support a) (fun sa => obind (support b) (fun sb => Some (op_support o refl sa sb)))
        | _ => Some (None, None)
        end
    | NMux _ l => obind (supports l) (fun ss =>
        match ss with [] => None | s0 :: r => Some (fold_left union_iv r s0) end)
    | NFun f l => obind (supports l) (fun ss => match ss with [] => None | _ => Some (mono_support f ss) end)
    | NSeq _ _ | NIdx _ _ => Some (None, None)
    end
  with supports (l : nodes) : option (list ival) :=
    match l with
    | NNil => Some []
    | NCons n r => obind (support n) (fun a => obind (supports r) (fun ss => Some (a :: ss)))
    | NStar n r => obind (supports r) (fun ss => Some ((None, None) :: ss))
    end.
End Support.

(* hypot: declared monotonic by the code.  On squares (no square roots needed):
   [hyp2 xs] = sum of squares; the code's support is (hypot(mins), hypot(maxes)). *)
Definition hyp2 (xs : list Q) : Q := fold_right (fun x a => x * x + a) 0 xs.
Definition hypot_support_asis2 (ss : list (Q * Q)) : Q * Q := (hyp2 (map fst ss), hyp2 (map snd ss)).
(* fix-C05-hypot-support: per-argument least / greatest absolute value *)
Definition minabs (iv : Q * Q) : Q :=
  let (l, u) := iv in if qleb l 0 && qleb 0 u then 0 else qmin (Qabs l) (Qabs u).
Definition maxabs (iv : Q * Q) : Q := let (l, u) := iv in qmax (Qabs l) (Qabs u).
Definition hypot_support_fixed2 (ss : list (Q * Q)) : Q * Q := (hyp2 (map minabs ss), hyp2 (map maxabs ss)).
