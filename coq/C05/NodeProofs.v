(* C05 — node-level lemmas: OperatorDistribution.sampleGiven on numbers is exact arithmetic, and
   [support] (the code's supportInterval) contains every value a node can take. *)
From Coq Require Import ZArith QArith Qround Qabs List Bool Lia Lqa.
From Scenic Require Import C05.Expr C05.SupportProofs.
Import ListNotations.
Open Scope Q_scope.

Scheme node_mut := Induction for node Sort Prop
  with nodes_mut := Induction for nodes Sort Prop.
Combined Scheme node_nodes_ind from node_mut, nodes_mut.

Lemma arith_shape o x y : arith o x y <> DNotImpl /\ arith o x y <> DNoAttr.
Proof. destruct o; cbn; try destruct (qzero (toQ y)); split; discriminate. Qed.

Lemma res_of_arith o x y v : res_of (arith o x y) = ROk v -> arith o x y = DOk v.
Proof.
  destruct (arith_shape o x y) as [A B].
  destruct (arith o x y); cbn; intros H; try discriminate; try congruence.
Qed.

(* on two numbers, sampleGiven (with its reflected fallback) is the arithmetic operator *)
Lemma op_sample_num fixed o refl a b x y :
  vnum a = Some x -> vnum b = Some y ->
  op_sample fixed o refl a b = res_of (if refl then arith o y x else arith o x y).
Proof.
  intros Ha Hb.
  destruct (arith_shape o x y) as [A1 A2]. destruct (arith_shape o y x) as [B1 B2].
  destruct a as [[za|qa|ba|]| |]; cbn in Ha; try discriminate; inversion Ha; subst x; clear Ha;
  destruct b as [[zb|qb|bb|]| |]; cbn in Hb; try discriminate; inversion Hb; subst y; clear Hb;
  destruct refl, fixed;
  unfold op_sample, dunder; cbn [num_of vnum is_int andb negb];
  repeat match goal with
  | |- context [match arith ?o ?x ?y with _ => _ end] => destruct (arith o x y) eqn:?
  end; cbn [res_of]; try reflexivity; try congruence.
Qed.

Lemma op_sample_nonnum fixed o refl a b v :
  vnum a = None \/ vnum b = None -> op_sample fixed o refl a b = ROk v -> vnum v = None.
Proof.
  intros H.
  destruct a as [[za|qa|ba|]|la|la], b as [[zb|qb|bb|]|lb|lb];
    try (destruct H as [H|H]; cbn in H; discriminate);
    destruct o, refl, fixed; cbn; intros E; try discriminate; inversion E; reflexivity.
Qed.

Lemma op_sample_inv fixed o refl a b v z :
  op_sample fixed o refl a b = ROk v -> vnum v = Some z ->
  exists x y, vnum a = Some x /\ vnum b = Some y /\ (if refl then arith o y x else arith o x y) = DOk v.
Proof.
  intros E Hz.
  destruct (vnum a) as [x|] eqn:Ha; [destruct (vnum b) as [y|] eqn:Hb|].
  - exists x, y. repeat split; auto.
    rewrite (op_sample_num fixed o refl a b x y Ha Hb) in E.
    destruct refl; now apply res_of_arith.
  - rewrite (op_sample_nonnum fixed o refl a b v (or_intror Hb) E) in Hz. discriminate.
  - rewrite (op_sample_nonnum fixed o refl a b v (or_introl Ha) E) in Hz. discriminate.
Qed.

Lemma num_of_sc_of n : num_of (sc_of n) = Some n.
Proof. destruct n; reflexivity. Qed.

Lemma qzero_false q : qzero q = false -> ~ q == 0.
Proof. unfold qzero. intros H E. apply Qeq_bool_iff in E. congruence. Qed.

(* value of the four operators that have interval rules *)
Lemma arith_q4 o x y v z :
  (o = Add \/ o = Sub \/ o = Mul \/ o = Div) ->
  arith o x y = DOk v -> vnum v = Some z ->
  toQ z == qarith o (toQ x) (toQ y) /\ (o = Div -> ~ toQ y == 0).
Proof.
  intros Ho E Hz.
  destruct Ho as [->|[->|[->| ->]]]; cbn in E.
  - inversion E; subst v; clear E. destruct x, y; cbn in Hz; inversion Hz; subst z; cbn;
      split; try discriminate; rewrite ?inject_Z_plus; reflexivity.
  - inversion E; subst v; clear E. destruct x, y; cbn in Hz; inversion Hz; subst z; cbn;
      split; try discriminate; unfold Z.sub; rewrite ?inject_Z_plus, ?inject_Z_opp; reflexivity.
  - inversion E; subst v; clear E. destruct x, y; cbn in Hz; inversion Hz; subst z; cbn;
      split; try discriminate; rewrite ?inject_Z_mult; reflexivity.
  - destruct (qzero (toQ y)) eqn:Z; try discriminate. inversion E; subst v; clear E.
    cbn in Hz. inversion Hz; subst z. cbn. split; [reflexivity|]. intros _. now apply qzero_false.
Qed.

(* unfolding equations for the mutual fixpoints (simpl/cbn expose the anonymous fix) *)
Lemma support_mux fixed sel l : support fixed (NMux sel l) =
  obind (supports fixed l) (fun ss => match ss with [] => None | s0 :: r => Some (fold_left union_iv r s0) end).
Proof. reflexivity. Qed.
Lemma support_fun fixed f l : support fixed (NFun f l) =
  obind (supports fixed l) (fun ss => match ss with [] => None | _ => Some (mono_support f ss) end).
Proof. reflexivity. Qed.
Lemma supports_cons fixed n r : supports fixed (NCons n r) =
  obind (support fixed n) (fun a => obind (supports fixed r) (fun ss => Some (a :: ss))).
Proof. reflexivity. Qed.
Lemma supports_star fixed n r : supports fixed (NStar n r) =
  obind (supports fixed r) (fun ss => Some ((None, None) :: ss)).
Proof. reflexivity. Qed.
Lemma eval_node_mux fixed s sel l : eval_node fixed s (NMux sel l) = mux_pick (s sel) (eval_nodes fixed s l).
Proof. reflexivity. Qed.
Lemma eval_node_fun fixed s f l : eval_node fixed s (NFun f l) = call_fn f (eval_nodes fixed s l).
Proof. reflexivity. Qed.
Lemma eval_node_seq fixed s il l : eval_node fixed s (NSeq il l) = mk_seq il (eval_nodes fixed s l).
Proof. reflexivity. Qed.
Lemma eval_nodes_cons fixed s n r : eval_nodes fixed s (NCons n r) = lcons false (eval_node fixed s n) (eval_nodes fixed s r).
Proof. reflexivity. Qed.
Lemma eval_nodes_star fixed s n r : eval_nodes fixed s (NStar n r) = lcons true (eval_node fixed s n) (eval_nodes fixed s r).
Proof. reflexivity. Qed.

(* ---------------------------------------------------------------- admissible valuations *)
Definition qval (v : val) : option Q := option_map toQ (vnum v).
Definition rq (r : res) : option Q := match r with ROk v => qval v | RErr _ => None end.

Section Sound.
  Variable fixed : bool.
  Variable s : valuation.

  (* the samples of the primitive distributions respect what random.uniform / randint / the
     truncated normal can return, given the sampled values of their parameters *)
  Fixpoint adm (n : node) : Prop :=
    match n with
    | NLeaf _ | NConst _ => True
    | NRange i lo hi =>
        adm lo /\ adm hi /\
        forall l h x, rq (eval_node fixed s lo) = Some l -> rq (eval_node fixed s hi) = Some h ->
                      qval (s i) = Some x -> qmin l h <= x <= qmax l h
    | NDRange i lo hi =>
        adm lo /\ adm hi /\
        forall l h x, rq (eval_node fixed s lo) = Some l -> rq (eval_node fixed s hi) = Some h ->
                      qval (s i) = Some x -> l <= x <= h
    | NTNorm i lo hi => forall x, qval (s i) = Some x -> lo <= x <= hi
    | NUn _ a => adm a
    | NOp _ _ a b | NIdx a b => adm a /\ adm b
    | NSeq _ l | NMux _ l | NFun _ l => adms l
    end
  with adms (l : nodes) : Prop :=
    match l with NNil => True | NCons n r | NStar n r => adm n /\ adms r end.

  Definition elt_ok (v : val) (iv : ival) : Prop := forall x, qval v = Some x -> in_iv iv x.
  Definition lrel (vs : list val) (ss : list ival) : Prop :=
    In (None, None) ss \/ Forall2 elt_ok vs ss.

  Lemma lo_ok_mono o a b : lo_ok o a -> a <= b -> lo_ok o b.
  Proof. destruct o; cbn; intros; auto. lra. Qed.
  Lemma hi_ok_mono o a b : hi_ok o b -> a <= b -> hi_ok o a.
  Proof. destruct o; cbn; intros; auto. lra. Qed.
  Lemma in_iv_eq iv a b : a == b -> in_iv iv a -> in_iv iv b.
  Proof.
    intros E [L U]. split; [eapply lo_ok_mono; eauto; lra | eapply hi_ok_mono; eauto; lra].
  Qed.

  Lemma in_union_between a b l h x :
    in_iv a l -> in_iv b h -> qmin l h <= x <= qmax l h -> in_iv (union_iv a b) x.
  Proof.
    intros A B [H1 H2].
    destruct (in_union_l a b l A) as [Al Au]. destruct (in_union_r a b h B) as [Bl Bu].
    split.
    - destruct (qmin_cases l h) as [E|E]; rewrite E in H1;
        [apply (lo_ok_mono _ l x Al H1) | apply (lo_ok_mono _ h x Bl H1)].
    - destruct (qmax_cases l h) as [E|E]; rewrite E in H2;
        [apply (hi_ok_mono _ x l Au H2) | apply (hi_ok_mono _ x h Bu H2)].
  Qed.

  Lemma strict2_ok f a b v : strict2 f a b = ROk v -> exists va vb, a = ROk va /\ b = ROk vb /\ f va vb = ROk v.
  Proof. destruct a, b; cbn; intros; try discriminate. eauto. Qed.
  Lemma strict1_ok f a v : strict1 f a = ROk v -> exists va, a = ROk va /\ f va = ROk v.
  Proof. destruct a; cbn; intros; try discriminate. eauto. Qed.

  Lemma fold_union_none r s0 : In (None, None) (s0 :: r) -> fold_left union_iv r s0 = (None, None).
  Proof.
    revert s0. induction r as [|a r IH]; intros s0 H; cbn.
    - destruct H as [H|[]]. auto.
    - apply IH. destruct H as [H|[H|H]].
      + subst. left. reflexivity.
      + subst. left. destruct s0 as [[?|] [?|]]; reflexivity.
      + right. auto.
  Qed.

  Lemma fold_union_acc r : forall s0 x, in_iv s0 x -> in_iv (fold_left union_iv r s0) x.
  Proof. induction r; cbn; intros; auto. apply IHr. now apply in_union_l. Qed.
  Lemma fold_union_in r : forall s0 iv x, In iv r -> in_iv iv x -> in_iv (fold_left union_iv r s0) x.
  Proof.
    induction r; cbn; intros s0 iv x H I; [tauto|].
    destruct H as [->|H]; [apply fold_union_acc; now apply in_union_r | eapply IHr; eauto].
  Qed.

  Lemma in_iv_none x : in_iv (None, None) x.
  Proof. split; exact I. Qed.

  Lemma lcons_ok star a r vs : lcons star a r = LOk vs ->
    exists v l, a = ROk v /\ r = LOk l /\
      (if star then exists it, seq_items v = Some it /\ vs = map VS it ++ l else vs = v :: l).
  Proof.
    destruct a as [v|]; [|cbn; discriminate]. destruct r as [l|]; [|cbn; discriminate].
    cbn. destruct star.
    - destruct (seq_items v) eqn:E; intros H; inversion H. exists v, l. eauto.
    - intros H; inversion H. exists v, l. auto.
  Qed.

  (* picking with max/min *)
  Lemma pick_q f x y : toQ (pick f x y) == qpick f (toQ x) (toQ y).
  Proof.
    destruct f; cbn; unfold qmax, qmin.
    - destruct (qleb (toQ y) (toQ x)) eqn:E; reflexivity.
    - destruct (qleb (toQ x) (toQ y)) eqn:E; reflexivity.
  Qed.
  Lemma qpick_mono f a b a' b' : a <= a' -> b <= b' -> qpick f a b <= qpick f a' b'.
  Proof.
    intros. destruct f; cbn.
    - apply qmax_lub; [eapply Qle_trans; [|apply qmax_l]|eapply Qle_trans; [|apply qmax_r]]; auto.
    - apply qmin_glb; [eapply Qle_trans; [apply qmin_l|]|eapply Qle_trans; [apply qmin_r|]]; auto.
  Qed.
  Lemma fold_qpick_mono f xs ys : Forall2 Qle xs ys -> forall a b, a <= b ->
    fold_left (qpick f) xs a <= fold_left (qpick f) ys b.
  Proof. induction 1; cbn; intros; auto. apply IHForall2. now apply qpick_mono. Qed.
  Lemma qpick_eq f a b a' b' : a == a' -> b == b' -> qpick f a b == qpick f a' b'.
  Proof. intros. apply Qle_antisym; apply qpick_mono; lra. Qed.
  Lemma fold_pick_q f xs : forall x, toQ (fold_left (pick f) xs x) == fold_left (qpick f) (map toQ xs) (toQ x).
  Proof.
    induction xs as [|y ys IH]; cbn; intros x; [reflexivity|].
    rewrite IH. clear IH.
    assert (G : forall l a b, a == b -> fold_left (qpick f) l a == fold_left (qpick f) l b).
    { induction l; cbn; intros; auto. apply IHl. apply qpick_eq; auto. reflexivity. }
    apply G. apply pick_q.
  Qed.

  Lemma nums_of_ok vs : forall xs, nums_of vs = Some xs -> Forall2 (fun v x => qval v = Some (toQ x)) vs xs.
  Proof.
    induction vs as [|v vs IH]; cbn; intros xs H.
    - inversion H. constructor.
    - destruct (vnum v) eqn:E; try discriminate. destruct (nums_of vs) eqn:E2; try discriminate.
      inversion H; subst. constructor; auto. unfold qval. rewrite E. reflexivity.
  Qed.

  Lemma all_some_fst vs ss xs ls :
    Forall2 elt_ok vs ss -> Forall2 (fun v x => qval v = Some (toQ x)) vs xs ->
    all_some (map fst ss) = Some ls -> Forall2 Qle ls (map toQ xs).
  Proof.
    intros H. revert xs ls. induction H as [|v iv vs ss E _ IH]; intros xs ls Hx Hs.
    - inversion Hx; subst. cbn in Hs. inversion Hs. constructor.
    - inversion Hx as [|? x ? xs' Hv Hr]; subst. cbn in Hs.
      destruct iv as [[l|] u]; cbn in Hs; try discriminate.
      destruct (all_some (map fst ss)) eqn:A; try discriminate. inversion Hs; subst.
      cbn. constructor; [|apply IH; auto]. destruct (E _ Hv) as [L _]. exact L.
  Qed.
  Lemma all_some_snd vs ss xs us :
    Forall2 elt_ok vs ss -> Forall2 (fun v x => qval v = Some (toQ x)) vs xs ->
    all_some (map snd ss) = Some us -> Forall2 Qle (map toQ xs) us.
  Proof.
    intros H. revert xs us. induction H as [|v iv vs ss E _ IH]; intros xs us Hx Hs.
    - inversion Hx; subst. cbn in Hs. inversion Hs. constructor.
    - inversion Hx as [|? x ? xs' Hv Hr]; subst. cbn in Hs.
      destruct iv as [l [u|]]; cbn in Hs; try discriminate.
      destruct (all_some (map snd ss)) eqn:A; try discriminate. inversion Hs; subst.
      cbn. constructor; [|apply IH; auto]. destruct (E _ Hv) as [_ U]. exact U.
  Qed.

  Lemma all_some_none l : In None l -> all_some l = None.
  Proof.
    induction l as [|[a|] l IH]; cbn; intros H; auto; [tauto|].
    destruct H as [H|H]; [discriminate|]. rewrite IH; auto.
  Qed.

  Lemma mono_support_sound f vs ss v x :
    lrel vs ss -> apply_fn f vs = ROk v -> qval v = Some x -> in_iv (mono_support f ss) x.
  Proof.
    intros R E Hx. unfold mono_support.
    destruct R as [N|F].
    - rewrite (all_some_none (map fst ss)), (all_some_none (map snd ss)); [apply in_iv_none| |].
      + change None with (snd (@None Q, @None Q)). now apply in_map.
      + change None with (fst (@None Q, @None Q)). now apply in_map.
    - unfold apply_fn in E. destruct (nums_of vs) as [xs|] eqn:EN.
      + destruct xs as [|x0 [|x1 xs]]; try discriminate.
        inversion E; subst v; clear E.
        assert (NX := nums_of_ok _ _ EN).
        unfold qval in Hx. cbn in Hx.
        assert (Hx' : x = toQ (fold_left (pick f) (x1 :: xs) x0)).
        { cbn [vnum] in Hx. rewrite num_of_sc_of in Hx. cbn in Hx. inversion Hx; reflexivity. }
        subst x. split.
        * cbn [fst]. destruct (all_some (map fst ss)) as [ls|] eqn:A; [|exact I].
          assert (L := all_some_fst _ _ _ _ F NX A).
          destruct ls as [|l0 ls]; inversion L; subst.
          change (fold_left (qpick f) ls l0 <= toQ (fold_left (pick f) (x1 :: xs) x0)).
          rewrite fold_pick_q. apply fold_qpick_mono; auto.
        * cbn [snd]. destruct (all_some (map snd ss)) as [us|] eqn:A; [|exact I].
          assert (U := all_some_snd _ _ _ _ F NX A).
          destruct us as [|u0 us]; inversion U; subst.
          change (toQ (fold_left (pick f) (x1 :: xs) x0) <= fold_left (qpick f) us u0).
          rewrite fold_pick_q. apply fold_qpick_mono; auto.
      + destruct vs as [|? [|? ?]]; discriminate.
  Qed.

  Lemma mux_sound sel vs ss v x s0 r :
    lrel vs ss -> ss = s0 :: r -> mux_pick (s sel) (LOk vs) = ROk v -> qval v = Some x ->
    in_iv (fold_left union_iv r s0) x.
  Proof.
    intros R -> E Hx. destruct R as [N|F].
    - rewrite fold_union_none; auto. apply in_iv_none.
    - cbn in E. destruct (s sel) as [[z| | |]| |]; try discriminate.
      destruct (z <? 0)%Z; try discriminate.
      destruct (nth_error vs (Z.to_nat z)) as [w|] eqn:NE; try discriminate. inversion E; subst w.
      revert NE. generalize (Z.to_nat z) as k. intros k NE.
      assert (G : exists iv, nth_error (s0 :: r) k = Some iv /\ elt_ok v iv).
      { revert k NE. induction F; intros [|k] NE; cbn in NE; try discriminate.
        - inversion NE; subst. eexists; split; [reflexivity|auto].
        - apply IHF in NE. exact NE. }
      destruct G as [iv [NI EO]]. specialize (EO _ Hx).
      destruct k; cbn in NI.
      + inversion NI; subst. now apply fold_union_acc.
      + eapply fold_union_in; eauto. eapply nth_error_In; eauto.
  Qed.

  Lemma un_num_abs_q x : toQ (un_num Abs x) == Qabs (toQ x).
  Proof.
    destruct x as [a|q]; cbn; [|reflexivity].
    unfold Qabs, inject_Z. reflexivity.
  Qed.
  Lemma un_num_neg_q x : toQ (un_num Neg x) == - toQ x.
  Proof. destruct x; cbn; [rewrite inject_Z_opp|]; reflexivity. Qed.

  Theorem support_sound_mut :
    (forall n, adm n -> forall iv x, support fixed n = Some iv ->
               rq (eval_node fixed s n) = Some x -> in_iv iv x) /\
    (forall l, adms l -> forall ss vs, supports fixed l = Some ss ->
               eval_nodes fixed s l = LOk vs -> lrel vs ss).
  Proof.
    apply node_nodes_ind.
    - (* NLeaf *) cbn; intros; inversion H0; apply in_iv_none.
    - (* NRange *)
      intros i lo IHlo hi IHhi [Alo [Ahi Hb]] iv x Hs He. cbn in Hs, He.
      destruct (support fixed lo) as [sa|] eqn:Sa; cbn in Hs; try discriminate.
      destruct (support fixed hi) as [sb|] eqn:Sb; cbn in Hs; try discriminate.
      inversion Hs; subst iv; clear Hs.
      destruct (strict2 (need_num2 (s i)) (eval_node fixed s lo) (eval_node fixed s hi)) eqn:E; try discriminate.
      apply strict2_ok in E. destruct E as [va [vb [Ea [Eb En]]]].
      unfold need_num2 in En. destruct (vnum va) as [xa|] eqn:Na; try discriminate.
      destruct (vnum vb) as [xb|] eqn:Nb; try discriminate. inversion En; subst v.
      assert (Ra : rq (eval_node fixed s lo) = Some (toQ xa)) by (rewrite Ea; cbn; unfold qval; rewrite Na; reflexivity).
      assert (Rb : rq (eval_node fixed s hi) = Some (toQ xb)) by (rewrite Eb; cbn; unfold qval; rewrite Nb; reflexivity).
      eapply in_union_between; [eapply IHlo; eauto|eapply IHhi; eauto|eapply Hb; eauto].
    - (* NDRange *)
      intros i lo IHlo hi IHhi [Alo [Ahi Hb]] iv x Hs He. cbn in Hs, He.
      destruct (support fixed lo) as [sa|] eqn:Sa; cbn in Hs; try discriminate.
      destruct (support fixed hi) as [sb|] eqn:Sb; cbn in Hs; try discriminate.
      inversion Hs; subst iv; clear Hs.
      destruct (strict2 (need_num2 (s i)) (eval_node fixed s lo) (eval_node fixed s hi)) eqn:E; try discriminate.
      apply strict2_ok in E. destruct E as [va [vb [Ea [Eb En]]]].
      unfold need_num2 in En. destruct (vnum va) as [xa|] eqn:Na; try discriminate.
      destruct (vnum vb) as [xb|] eqn:Nb; try discriminate. inversion En; subst v.
      assert (Ra : rq (eval_node fixed s lo) = Some (toQ xa)) by (rewrite Ea; cbn; unfold qval; rewrite Na; reflexivity).
      assert (Rb : rq (eval_node fixed s hi) = Some (toQ xb)) by (rewrite Eb; cbn; unfold qval; rewrite Nb; reflexivity).
      destruct (Hb _ _ _ Ra Rb He) as [B1 B2].
      destruct (IHlo Alo _ _ eq_refl Ra) as [L _]. destruct (IHhi Ahi _ _ eq_refl Rb) as [_ U].
      split; cbn [fst snd]; [eapply lo_ok_mono; eauto|eapply hi_ok_mono; eauto].
    - (* NTNorm *)
      intros i lo hi A iv x Hs He. cbn in *. inversion Hs; subst iv. destruct (A _ He). split; cbn; auto.
    - (* NConst *)
      intros v _ iv x Hs He. cbn in *. inversion Hs; subst iv; clear Hs.
      unfold const_support. destruct v as [sv| |]; cbn in He; try discriminate.
      unfold qval in He. cbn in He. destruct (num_of sv); cbn in He; inversion He; subst.
      split; cbn; lra.
    - (* NUn *)
      intros o a IHa A iv x Hs He. cbn in Hs, He.
      destruct (support fixed a) as [sa|] eqn:Sa; cbn in Hs; try discriminate.
      destruct (strict1 (py_unop o) (eval_node fixed s a)) eqn:E; try discriminate.
      apply strict1_ok in E. destruct E as [va [Ea Eu]].
      unfold py_unop in Eu. destruct (vnum va) as [xa|] eqn:Na; try discriminate. inversion Eu; subst v; clear Eu.
      assert (Ra : rq (eval_node fixed s a) = Some (toQ xa)) by (rewrite Ea; cbn; unfold qval; rewrite Na; reflexivity).
      specialize (IHa A _ _ eq_refl Ra). destruct IHa as [L U].
      assert (Hx : x = toQ (un_num o xa)).
      { cbn [rq] in He. unfold qval in He. cbn [vnum] in He. rewrite num_of_sc_of in He. cbn in He. inversion He; reflexivity. }
      subst x.
      destruct o; cbn in Hs; try (inversion Hs; subst; apply in_iv_none).
      + (* Neg *)
        eapply in_iv_eq; [symmetry; apply un_num_neg_q|].
        destruct sa as [[l|] [r|]]; cbn in L, U; try (destruct fixed; try discriminate);
          inversion Hs; subst iv; split; cbn; try exact I; lra.
      + (* Abs *)
        eapply in_iv_eq; [symmetry; apply un_num_abs_q|].
        destruct sa as [[l|] [r|]]; cbn in L, U; try (destruct fixed; try discriminate);
          inversion Hs; subst iv; try apply in_iv_none.
        all: apply abs_sound; split; auto.
    - (* NOp *)
      intros o refl a IHa b IHb [Aa Ab] iv x Hs He. cbn in Hs, He.
      destruct (strict2 (op_sample fixed o refl) (eval_node fixed s a) (eval_node fixed s b)) eqn:E; try discriminate.
      apply strict2_ok in E. destruct E as [va [vb [Ea [Eb Eo]]]].
      assert (O4 : (o = Add \/ o = Sub \/ o = Mul \/ o = Div) \/ iv = (None, None)).
      { destruct o; auto; inversion Hs; auto. }
      destruct O4 as [O4| ->]; [|apply in_iv_none].
      assert (Hs' : exists sa sb, support fixed a = Some sa /\ support fixed b = Some sb /\ iv = op_support o refl sa sb).
      { destruct (support fixed a) as [sa|]; [destruct (support fixed b) as [sb|]|];
          destruct O4 as [->|[->|[->| ->]]]; cbn in Hs; try discriminate; inversion Hs; eauto. }
      destruct Hs' as [sa [sb [Sa [Sb ->]]]].
      cbn in He. unfold qval in He. destruct (vnum v) as [z|] eqn:Hz; cbn in He; try discriminate.
      inversion He; subst x; clear He.
      destruct (op_sample_inv _ _ _ _ _ _ _ Eo Hz) as [xa [xb [Na [Nb Ar]]]].
      assert (Ra : rq (eval_node fixed s a) = Some (toQ xa)) by (rewrite Ea; cbn; unfold qval; rewrite Na; reflexivity).
      assert (Rb : rq (eval_node fixed s b) = Some (toQ xb)) by (rewrite Eb; cbn; unfold qval; rewrite Nb; reflexivity).
      specialize (IHa Aa _ _ Sa Ra). specialize (IHb Ab _ _ Sb Rb).
      destruct sa as [[l1|] [r1|]]; try apply in_iv_none.
      destruct sb as [[l2|] [r2|]]; try apply in_iv_none.
      destruct IHa as [La Ua], IHb as [Lb Ub]. cbn in La, Ua, Lb, Ub.
      destruct refl.
      + destruct (arith_q4 _ _ _ _ _ O4 Ar Hz) as [Q ND].
        eapply in_iv_eq; [symmetry; exact Q|].
        destruct O4 as [->|[->|[->| ->]]]; cbn [op_support qarith].
        * split; cbn; lra.
        * split; cbn; lra.
        * destruct (mul_sound l2 r2 l1 r1 (toQ xb) (toQ xa)) as [M1 M2]; auto.
          split; cbn [fst snd lo_ok hi_ok].
          -- eapply Qle_trans; [|apply M1].
             apply qmin_glb; apply qmin_glb.
             ++ eapply Qle_trans; [apply qmin_l|eapply Qle_trans; [apply qmin_l|]]. lra.
             ++ eapply Qle_trans; [apply qmin_r|eapply Qle_trans; [apply qmin_l|]]. lra.
             ++ eapply Qle_trans; [apply qmin_l|eapply Qle_trans; [apply qmin_r|]]. lra.
             ++ eapply Qle_trans; [apply qmin_r|eapply Qle_trans; [apply qmin_r|]]. lra.
          -- eapply Qle_trans; [apply M2|].
             apply qmax_lub; apply qmax_lub.
             ++ eapply Qle_trans; [|eapply Qle_trans; [apply qmax_l|apply qmax_l]]. lra.
             ++ eapply Qle_trans; [|eapply Qle_trans; [apply qmax_l|apply qmax_r]]. lra.
             ++ eapply Qle_trans; [|eapply Qle_trans; [apply qmax_r|apply qmax_l]]. lra.
             ++ eapply Qle_trans; [|eapply Qle_trans; [apply qmax_r|apply qmax_r]]. lra.
        * destruct (qltb 0 l1) eqn:P; [|apply in_iv_none]. apply qltb_true in P.
          destruct (div_sound l2 r2 l1 r1 (toQ xb) (toQ xa) P) as [D1 D2]; auto.
          split; cbn; auto.
      + destruct (arith_q4 _ _ _ _ _ O4 Ar Hz) as [Q ND].
        eapply in_iv_eq; [symmetry; exact Q|].
        destruct O4 as [->|[->|[->| ->]]]; cbn [op_support qarith].
        * split; cbn; lra.
        * split; cbn; lra.
        * destruct (mul_sound l1 r1 l2 r2 (toQ xa) (toQ xb)) as [M1 M2]; auto.
          split; cbn; auto.
        * destruct (qltb 0 l2) eqn:P; [|apply in_iv_none]. apply qltb_true in P.
          destruct (div_sound l1 r1 l2 r2 (toQ xa) (toQ xb) P) as [D1 D2]; auto.
          split; cbn; auto.
    - (* NSeq *) intros il l _ _ iv x Hs _. cbn in Hs. inversion Hs. apply in_iv_none.
    - (* NIdx *) intros a _ b _ _ iv x Hs _. cbn in Hs. inversion Hs. apply in_iv_none.
    - (* NMux *)
      intros sel l IHl A iv x Hs He. rewrite support_mux in Hs. rewrite eval_node_mux in He.
      destruct (supports fixed l) as [ss|] eqn:Ss; cbn [obind] in Hs; try discriminate.
      destruct ss as [|s0 r]; try discriminate. injection Hs as <-.
      destruct (eval_nodes fixed s l) as [vs|] eqn:El; [|cbn in He; discriminate].
      destruct (mux_pick (s sel) (LOk vs)) eqn:EM; try discriminate.
      eapply mux_sound; eauto.
    - (* NFun *)
      intros f l IHl A iv x Hs He. rewrite support_fun in Hs. rewrite eval_node_fun in He.
      destruct (supports fixed l) as [ss|] eqn:Ss; cbn [obind] in Hs; try discriminate.
      destruct ss as [|s0 r]; try discriminate. injection Hs as <-.
      destruct (eval_nodes fixed s l) as [vs|] eqn:El; [|cbn in He; discriminate].
      cbn [call_fn] in He. destruct (apply_fn f vs) eqn:EF; try discriminate.
      eapply mono_support_sound; eauto.
    - (* NNil *)
      cbn; intros _ ss vs Hs He. inversion Hs; inversion He. right. constructor.
    - (* NCons *)
      intros n IHn l IHl [An Al] ss vs Hs He. rewrite supports_cons in Hs. rewrite eval_nodes_cons in He.
      destruct (support fixed n) as [a|] eqn:Sn; cbn [obind] in Hs; try discriminate.
      destruct (supports fixed l) as [ss'|] eqn:Sl; cbn [obind] in Hs; try discriminate.
      injection Hs as <-.
      apply lcons_ok in He. destruct He as [v [l' [En [El ->]]]].
      destruct (IHl Al _ _ eq_refl El) as [N|F].
      + left. right. exact N.
      + right. constructor; auto. intros x Hx. eapply IHn; eauto. rewrite En. exact Hx.
    - (* NStar *)
      intros n IHn l IHl [An Al] ss vs Hs He. rewrite supports_star in Hs.
      destruct (supports fixed l) as [ss'|] eqn:Sl; cbn [obind] in Hs; try discriminate.
      injection Hs as <-. left. left. reflexivity.
  Qed.

  Theorem support_sound n iv x :
    adm n -> support fixed n = Some iv -> rq (eval_node fixed s n) = Some x -> in_iv iv x.
  Proof. intros A. now apply (proj1 support_sound_mut n A). Qed.
End Sound.

(* F10: before fix-C05-absneg-none the code raises instead of answering *)
Lemma absneg_support_raises_asis :
  support false (NUn Abs (NLeaf 0)) = None /\ support false (NUn Neg (NLeaf 0)) = None /\
  support true (NUn Abs (NLeaf 0)) = Some (None, None) /\ support true (NUn Neg (NLeaf 0)) = Some (None, None).
Proof. repeat split. Qed.
