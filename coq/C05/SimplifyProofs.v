(* C05 — the identity shortcuts of makeOperatorHandler (x+0, 0+x, x-0, x*1, 1*x, x/1, x**1) are
   sound exactly under the guard the code uses (the value is a number); x//1 is not. *)
From Coq Require Import ZArith QArith Qround Qabs List Bool Lia Lqa.
From Scenic Require Import C05.Expr C05.SupportProofs C05.NodeProofs.
Import ListNotations.
Open Scope Q_scope.

Lemma py_binop_num o a b x y :
  vnum a = Some x -> vnum b = Some y -> py_binop o a b = res_of (arith o x y).
Proof.
  intros Ha Hb.
  destruct (arith_shape o x y) as [A1 A2].
  destruct a as [[za|qa|ba|]| |]; cbn in Ha; try discriminate; inversion Ha; subst x; clear Ha;
  destruct b as [[zb|qb|bb|]| |]; cbn in Hb; try discriminate; inversion Hb; subst y; clear Hb;
  unfold py_binop, dunder; cbn [num_of vnum is_int andb negb];
  repeat match goal with
  | |- context [match arith ?o ?x ?y with _ => _ end] => destruct (arith o x y) eqn:?
  end; cbn [res_of]; try reflexivity; try congruence.
Qed.

(* numeric equality of Python values: 2 == 2.0 == True+1 *)
Definition num_eq (r : res) (x : num) : Prop :=
  exists v x', r = ROk v /\ vnum v = Some x' /\ toQ x' == toQ x.

Definition shortcut_cond (o : binop) (refl : bool) (k : Q) : Prop :=
  (o = Add /\ k == 0) \/ (o = Sub /\ refl = false /\ k == 0) \/
  (o = Mul /\ k == 1) \/ (o = Div /\ refl = false /\ k == 1).

Theorem simplify_sound o refl v c x k :
  vnum v = Some x -> vnum c = Some k -> shortcut_cond o refl (toQ k) ->
  num_eq (if refl then py_binop o c v else py_binop o v c) x.
Proof.
  intros Hv Hc Hs. unfold num_eq.
  assert (O4 : o = Add \/ o = Sub \/ o = Mul \/ o = Div) by (unfold shortcut_cond in Hs; intuition).
  assert (NZ : o = Div -> ~ toQ k == 0).
  { intros ->. destruct Hs as [[E _]|[[E _]|[[E _]|[_ [_ E]]]]]; try discriminate. rewrite E. lra. }
  assert (G : forall a b, (a = x /\ b = k /\ refl = false) \/ (a = k /\ b = x /\ refl = true /\ o <> Div /\ o <> Sub) ->
              exists v' z, res_of (arith o a b) = ROk v' /\ vnum v' = Some z /\ toQ z == toQ x).
  { intros a b Hab.
    assert (exists v', arith o a b = DOk v') as [v' Ev].
    { destruct O4 as [->|[->|[->| ->]]]; cbn; try (eexists; reflexivity).
      destruct Hab as [[-> [-> _]]|[_ [_ [_ [ND _]]]]]; [|congruence].
      destruct (qzero (toQ k)) eqn:Z; [|eexists; reflexivity]. exfalso. apply (NZ eq_refl).
      unfold qzero in Z. apply Qeq_bool_iff in Z. exact Z. }
    assert (exists z, vnum v' = Some z) as [z Hz].
    { destruct O4 as [->|[->|[->| ->]]]; cbn in Ev; try destruct (qzero (toQ b)); inversion Ev;
        cbn [vnum]; rewrite ?num_of_sc_of; cbn; eauto. }
    exists v', z. rewrite Ev. split; [reflexivity|split; [exact Hz|]].
    destruct (arith_q4 o a b v' z O4 Ev Hz) as [Q _]. rewrite Q.
    destruct Hab as [[-> [-> R]]|[-> [-> [R [ND NS]]]]]; subst refl;
      destruct Hs as [[-> E]|[[-> [R' E]]|[[-> E]|[-> [R' E]]]]]; try discriminate; try congruence;
      cbn [qarith]; rewrite E; try ring. field. }
  destruct refl.
  - rewrite (py_binop_num o c v k x Hc Hv).
    destruct (G k x) as [v' [z [E1 [E2 E3]]]]; [right; repeat split; auto|eauto].
    + intros ->. destruct Hs as [[E _]|[[E _]|[[E _]|[_ [E _]]]]]; discriminate.
    + intros ->. destruct Hs as [[E _]|[[_ [E _]]|[[E _]|[E _]]]]; discriminate.
  - rewrite (py_binop_num o v c x k Hv Hc).
    destruct (G x k) as [v' [z [E1 [E2 E3]]]]; [left; auto|eauto].
Qed.

Theorem pow1_sound v x : vnum v = Some x -> num_eq (py_unop (PowN 1) v) x.
Proof.
  intros Hv. unfold num_eq, py_unop. rewrite Hv.
  eexists _, _. split; [reflexivity|]. cbn [vnum]. rewrite num_of_sc_of. split; [reflexivity|].
  destruct x; cbn; [rewrite Z.mul_1_r; reflexivity|ring].
Qed.

(* F-C05-floordiv: the same shortcut for // is wrong on non-integral numbers *)
Theorem floordiv1_refuted :
  exists v x r x', vnum v = Some x /\ py_binop FloorDiv v (VS (SInt 1)) = ROk r /\ vnum r = Some x' /\
                   ~ toQ x' == toQ x.
Proof.
  exists (VS (SFloat (5 # 2))), (NF (5 # 2)), (VS (SFloat 2)), (NF 2).
  repeat split. vm_compute. discriminate.
Qed.

(* the unrepaired sampleGiven turns tuple concatenation with a constant left operand into AttributeError *)
Theorem seq_radd_refuted :
  let e := EBin Add (EConst (VTup [SInt 1])) (EMux 0 (ECons (EConst (VTup [SInt 2])) ENil)) in
  let s := fun _ : nat => VS (SInt 0) in
  eval_py s e = ROk (VTup [SInt 1; SInt 2]) /\
  eval_cap false s (capture (fun _ => false) true false e) = RErr AttrErr /\
  eval_cap true s (capture (fun _ => false) true false e) = ROk (VTup [SInt 1; SInt 2]).
Proof. vm_compute. repeat split. Qed.
