(* C05 — vectors: model of the operator capture of src/scenic/core/vectors.py (definitions only; proofs
   in VecProofs.v).

   Value universe: 3D vectors with exact rational coordinates (floats as the rationals they denote).
   Specification [veval]: plain coordinate-wise arithmetic on the sampled vectors (what CPython computes
   with class Vector on the sampled leaves).
   Implementation model [vcap] + [nev]: what evaluating the expression text does at compile time
   (which special method of which class runs: the @vectorOperator helper of class Vector, the handler
   installed on VectorDistribution by makeVectorOperatorHandler, or the generic Distribution handler of
   distributions.py; constant folding; the identity shortcuts AS CODED: zeroIdentity on __add__ /
   __radd__ / __sub__, nothing on __rsub__ / __mul__ / __truediv__, preservesZero on rotatedBy), followed
   by sampleGiven of the nodes that were built. *)
From Coq Require Import QArith List Bool.
Open Scope Q_scope.

Record vec3 := V3 { vx : Q; vy : Q; vz : Q }.

Definition qz (q : Q) : bool := Qeq_bool q 0.
(* all(coord == 0 for coord in v.coordinates) *)
Definition vzero_all (v : vec3) : bool := qz (vx v) && qz (vy v) && qz (vz v).
(* the unsound sibling: x and y only *)
Definition vzero_xy (v : vec3) : bool := qz (vx v) && qz (vy v).

(* special methods of class Vector taking a vector / a scalar *)
Inductive vop := OAdd | ORAdd | OSub | ORSub.
Inductive sop := OMul | ORMul | ODiv.

(* getattr(self, op)(other) on plain (sampled) vectors *)
Definition vv (o : vop) (s a : vec3) : vec3 :=
  match o with
  | OAdd | ORAdd => V3 (vx s + vx a) (vy s + vy a) (vz s + vz a)
  | OSub => V3 (vx s - vx a) (vy s - vy a) (vz s - vz a)
  | ORSub => V3 (vx a - vx s) (vy a - vy s) (vz a - vz s)
  end.
Definition vs (o : sop) (s : vec3) (k : Q) : option vec3 :=   (* None = ZeroDivisionError *)
  match o with
  | OMul | ORMul => Some (V3 (vx s * k) (vy s * k) (vz s * k))
  | ODiv => if qz k then None else Some (V3 (vx s / k) (vy s / k) (vz s / k))
  end.
(* rotatedBy(angle) with c = cos angle, s = sin angle *)
Definition vrot (c s : Q) (v : vec3) : vec3 := V3 (c * vx v - s * vy v) (s * vx v + c * vy v) (vz v).

(* decorator flags of vectors.py *)
Definition zero_identity (o : vop) : bool := match o with ORSub => false | _ => true end.

(* ---------------------------------------------------------------- expressions *)
Inductive sx := SC (q : Q) | SL (i : nat).              (* scalar operand: constant | random leaf *)
Inductive rx := RC (c s : Q) | RL (i j : nat).          (* angle: constant (cos, sin) | random (leaves holding cos, sin) *)

Inductive vexpr :=
  | EC (v : vec3)                      (* constant Vector (also a tuple coerced by toVector, x @ y of constants) *)
  | ER (i : nat)                       (* Vector with random coordinates: class Vector, needsSampling *)
  | ED (i : nat)                       (* a VectorDistribution leaf (point in a region, ...) *)
  | EG (i : nat)                       (* vector-valued Distribution that is no VectorDistribution (Uniform(v1, v2)) *)
  | EVBin (sub : bool) (a b : vexpr)    (* a + b | a - b *)
  | ERel (a b : vexpr)                 (* a relative to b | a offset by b  (= toVector(a) + toVector(b)) *)
  | ETL (sub : bool) (t : vec3) (b : vexpr)   (* constant tuple/list t on the left: t + b | t - b *)
  | ETR (sub : bool) (a : vexpr) (t : vec3)   (* ... on the right *)
  | EMul (a : vexpr) (k : sx)
  | ERMul (k : sx) (a : vexpr)
  | EDiv (a : vexpr) (k : sx)
  | ERot (a : vexpr) (r : rx).

Definition sval (rho : nat -> Q) (k : sx) : Q := match k with SC q => q | SL i => rho i end.
Definition rcos (rho : nat -> Q) (r : rx) : Q := match r with RC c _ => c | RL i _ => rho i end.
Definition rsin (rho : nat -> Q) (r : rx) : Q := match r with RC _ s => s | RL _ j => rho j end.

Definition vobind {A B} (x : option A) (f : A -> option B) : option B :=
  match x with Some a => f a | None => None end.
Definition olift2 (f : vec3 -> vec3 -> vec3) (x y : option vec3) : option vec3 :=
  match x, y with Some a, Some b => Some (f a b) | _, _ => None end.

(* ---------------------------------------------------------------- specification *)
Section Spec.
  Variable sigma : nat -> vec3.
  Variable rho : nat -> Q.
  Fixpoint veval (e : vexpr) : option vec3 :=
    match e with
    | EC v => Some v
    | ER i | ED i | EG i => Some (sigma i)
    | EVBin sub a b => olift2 (vv (if sub then OSub else OAdd)) (veval a) (veval b)
    | ERel a b => olift2 (vv OAdd) (veval a) (veval b)
    | ETL sub t b => olift2 (vv (if sub then OSub else OAdd)) (Some t) (veval b)
    | ETR sub a t => olift2 (vv (if sub then OSub else OAdd)) (veval a) (Some t)
    | EMul a k | ERMul k a => vobind (veval a) (fun x => vs OMul x (sval rho k))
    | EDiv a k => vobind (veval a) (fun x => vs ODiv x (sval rho k))
    | ERot a r => vobind (veval a) (fun x => Some (vrot (rcos rho r) (rsin rho r) x))
    end.
End Spec.

(* ---------------------------------------------------------------- captured forest *)
Inductive ncls := KOp | KMeth | KGen.   (* VectorOperatorDistribution | VectorMethodDistribution | OperatorDistribution *)
Inductive vnode :=
  | NC (v : vec3) | NR (i : nat) | ND (i : nat) | NG (i : nat)
  | NVV (k : ncls) (o : vop) (obj arg : vnode)
  | NVS (k : ncls) (o : sop) (obj : vnode) (s : sx)
  | NSV (i : nat) (arg : vnode)        (* OperatorDistribution('__mul__', <random scalar i>, (arg,)): float.__mul__ is
                                          NotImplemented, the reflected fallback calls arg.__rmul__ *)
  | NRot (k : ncls) (obj : vnode) (r : rx).

Inductive cls := CConst | CVec | CDist | COpd.
Definition cls_of (n : vnode) : cls :=
  match n with
  | NC _ => CConst | NR _ => CVec | ND _ => CDist | NG _ => COpd
  | NVV k _ _ _ | NVS k _ _ _ | NRot k _ _ => match k with KGen => COpd | _ => CDist end
  | NSV _ _ => COpd
  end.

Section NEval.
  Variable sigma : nat -> vec3.
  Variable rho : nat -> Q.
  (* sampleGiven: getattr(value[obj], op)(value[arg]) for every node kind *)
  Fixpoint nev (n : vnode) : option vec3 :=
    match n with
    | NC v => Some v
    | NR i | ND i | NG i => Some (sigma i)
    | NVV _ o obj arg => olift2 (vv o) (nev obj) (nev arg)
    | NVS _ o obj k => vobind (nev obj) (fun x => vs o x (sval rho k))
    | NSV i arg => vobind (nev arg) (fun x => vs ORMul x (rho i))
    | NRot _ obj r => vobind (nev obj) (fun x => Some (vrot (rcos rho r) (rsin rho r) x))
    end.
End NEval.

(* result of evaluating the text at compile time *)
Inductive cres := COk (n : vnode) | CZero (* ZeroDivisionError while folding constants *)
                | CAttr (* AttributeError: 'tuple' object has no attribute 'coordinates' *).

Section Capture.
  Variable fixed : bool.             (* behaviour after fix-C05-vector-handler-tuple *)
  Variable zt : vec3 -> bool.        (* the zero test of the shortcuts; the code uses [vzero_all] *)

  (* self.<o>(arg) for a vector-vector special method; [tup]: arg is a raw constant tuple / list *)
  Definition call_vv (o : vop) (self arg : vnode) (tup : bool) : cres :=
    match cls_of self with
    | CConst | CVec =>          (* class Vector: helper of @vectorOperator(zeroIdentity = zero_identity o) *)
        match arg with
        | NC a =>
            if zero_identity o && zt a then COk self
            else match self with NC s => COk (NC (vv o s a)) | _ => COk (NVV KOp o self arg) end
        | _ => COk (NVV (match self with NC _ => KMeth | _ => KOp end) o self arg)
        end
    | CDist =>                  (* makeVectorOperatorHandler(o, zeroIdentity) on VectorDistribution *)
        if zero_identity o then
          match arg with
          | NC a => if tup && negb fixed then CAttr
                    else if zt a then COk self else COk (NVV KOp o self arg)
          | _ => COk (NVV KOp o self arg)          (* isLazy(arg) *)
          end
        else COk (NVV KOp o self arg)
    | COpd => COk (NVV KGen o self arg)   (* distributions.makeOperatorHandler: its x+0 shortcut needs a Number-valued self *)
    end.

  (* self.<o>(k) for a vector-scalar special method (plain @vectorOperator: no flag) *)
  Definition call_vs (o : sop) (self : vnode) (k : sx) : cres :=
    match self, k with
    | NC s, SC q => match vs o s q with Some v => COk (NC v) | None => CZero end
    | NC _, SL _ => COk (NVS KMeth o self k)
    | _, _ => COk (NVS (match cls_of self with COpd => KGen | _ => KOp end) o self k)
    end.

  (* k * a *)
  Definition call_rmul (k : sx) (a : vnode) : cres :=
    match k with
    | SL i => COk (NSV i a)                         (* Distribution.__mul__ of the random scalar *)
    | SC _ =>                                       (* int/float.__mul__ -> NotImplemented -> a.__rmul__(k) *)
        match cls_of a with
        | CConst | CVec => call_vs OMul a k         (* Vector.__rmul__ = self.__mul__ *)
        | _ => COk (NVS KGen ORMul a k)             (* VectorDistribution has no own __rmul__: Distribution.__rmul__ *)
        end
    end.

  (* self.rotatedBy(r): @zeroPreservingVectorOperator *)
  Definition call_rot (self : vnode) (r : rx) : cres :=
    match self with
    | NC s =>
        if zt s then COk self
        else match r with
             | RC c sn => COk (NC (vrot c sn s))
             | RL _ _ => COk (NRot KMeth self r)
             end
    | _ => COk (NRot (match cls_of self with COpd => KGen | _ => KOp end) self r)
    end.

  Definition cbind (c : cres) (f : vnode -> cres) : cres :=
    match c with COk n => f n | e => e end.

  Fixpoint vcap (e : vexpr) : cres :=
    match e with
    | EC v => COk (NC v)
    | ER i => COk (NR i)
    | ED i => COk (ND i)
    | EG i => COk (NG i)
    | EVBin sub a b => cbind (vcap a) (fun na => cbind (vcap b) (fun nb =>
                        call_vv (if sub then OSub else OAdd) na nb false))
    | ERel a b => cbind (vcap a) (fun na => cbind (vcap b) (fun nb => call_vv OAdd na nb false))
    | ETL sub t b => cbind (vcap b) (fun nb => call_vv (if sub then ORSub else ORAdd) nb (NC t) true)
    | ETR sub a t => cbind (vcap a) (fun na => call_vv (if sub then OSub else OAdd) na (NC t) true)
    | EMul a k => cbind (vcap a) (fun na => call_vs OMul na k)
    | ERMul k a => cbind (vcap a) (fun na => call_rmul k na)
    | EDiv a k => cbind (vcap a) (fun na => call_vs ODiv na k)
    | ERot a r => cbind (vcap a) (fun na => call_rot na r)
    end.
End Capture.
