(* C05 — end-to-end [capture_eval] for the numeric fragment: for every expression tree built from random leaves,
   Range / DiscreteRange / TruncatedNormal (with nested bounds), numeric constants, the unary operators and all six
   binary operators on either side, and for every valuation of the leaves by numbers, evaluating the DAG that
   [capture] builds at compile time (constant folding, reflected operators, the identity shortcuts x+0, 0+x, x-0,
   x*1, 1*x, x/1, x**1) agrees with plain Python on the sampled leaves: both raise ZeroDivisionError, or both
   return numbers that are numerically equal.  By induction on the expression. *)
From Coq Require Import ZArith QArith Qround Qabs List Bool Lia Lqa.
From Scenic Require Import C05.Expr C05.SupportProofs C05.NodeProofs C05.SimplifyProofs.
Import ListNotations.
Open Scope Q_scope.

(* ---------------------------------------------------------------- exact value of the arithmetic operators *)
Definition divlike (o : binop) : bool := match o with Div | FloorDiv | Mod => true | _ => false end.

Lemma qfl_Z a b : inject_Z (a / b) == qfl (inject_Z a / inject_Z b).
Proof. unfold qfl. rewrite Zdiv_Qdiv. reflexivity. Qed.

Lemma qzero_inject b : qzero (inject_Z b) = false -> b <> 0%Z.
Proof. intros H ->. cbn in H. discriminate. Qed.

Lemma arith_val o x y :
  (divlike o && qzero (toQ y) = true -> arith o x y = DErr ZeroDiv) /\
  (divlike o && qzero (toQ y) = false ->
   exists z, arith o x y = DOk (VS (sc_of z)) /\ toQ z == qarith o (toQ x) (toQ y)).
Proof.
  destruct o; cbn [divlike andb arith qarith]; split; intros H; try discriminate.
  - eexists; split; [reflexivity|]. destruct x, y; cbn; rewrite ?inject_Z_plus; reflexivity.
  - eexists; split; [reflexivity|]. destruct x, y; cbn; unfold Z.sub; rewrite ?inject_Z_plus, ?inject_Z_opp; reflexivity.
  - eexists; split; [reflexivity|]. destruct x, y; cbn; rewrite ?inject_Z_mult; reflexivity.
  - rewrite H. reflexivity.
  - rewrite H. exists (NF (toQ x / toQ y)). split; reflexivity.
  - rewrite H. reflexivity.
  - rewrite H. eexists; split; [reflexivity|]. destruct x, y; cbn [toQ]; try reflexivity. apply qfl_Z.
  - rewrite H. reflexivity.
  - rewrite H. eexists; split; [reflexivity|]. destruct x as [a|qa], y as [b|qb]; cbn [toQ]; try reflexivity.
    cbn [toQ] in H. apply qzero_inject in H.
    rewrite (Z.mod_eq a b H). unfold Z.sub. rewrite inject_Z_plus, inject_Z_opp, inject_Z_mult.
    rewrite qfl_Z. reflexivity.
Qed.

Lemma qzero_comp a b : a == b -> qzero a = qzero b.
Proof.
  intros E. unfold qzero. destruct (Qeq_bool a 0) eqn:A, (Qeq_bool b 0) eqn:B; try reflexivity.
  - apply Qeq_bool_iff in A. rewrite E in A. apply Qeq_bool_iff in A. congruence.
  - apply Qeq_bool_iff in B. rewrite <- E in B. apply Qeq_bool_iff in B. congruence.
Qed.

Lemma qarith_comp o a b a' b' : a == a' -> b == b' -> ~ (divlike o = true /\ b == 0) ->
  qarith o a b == qarith o a' b'.
Proof.
  intros Ea Eb NZ. destruct o; cbn [qarith]; try (rewrite Ea, Eb; reflexivity).
  - unfold qfl. assert (E : a / b == a' / b') by (rewrite Ea, Eb; reflexivity). rewrite E. reflexivity.
  - unfold qfl. assert (E : a / b == a' / b') by (rewrite Ea, Eb; reflexivity). rewrite E, Ea, Eb. reflexivity.
Qed.

(* ---------------------------------------------------------------- agreement of results *)
Definition sim (a b : res) : Prop :=
  match a, b with
  | ROk va, ROk vb => exists x y, vnum va = Some x /\ vnum vb = Some y /\ toQ x == toQ y
  | RErr ZeroDiv, RErr ZeroDiv => True
  | _, _ => False
  end.

Lemma sim_ok_l v b : sim (ROk v) b -> exists x v' y, vnum v = Some x /\ b = ROk v' /\ vnum v' = Some y /\ toQ x == toQ y.
Proof. destruct b as [v'|e]; cbn; [|tauto]. intros [x [y [A [B C]]]]. eauto 8. Qed.
Lemma sim_err_l e b : sim (RErr e) b -> e = ZeroDiv /\ b = RErr ZeroDiv.
Proof. destruct e, b as [v'|[]]; cbn; tauto. Qed.
Lemma sim_cases a b : sim a b ->
  (a = RErr ZeroDiv /\ b = RErr ZeroDiv) \/
  (exists va vb x y, a = ROk va /\ b = ROk vb /\ vnum va = Some x /\ vnum vb = Some y /\ toQ x == toQ y).
Proof.
  destruct a as [va|e]; intros H.
  - right. destruct (sim_ok_l _ _ H) as [x [v' [y [A [-> [B C]]]]]]. eauto 10.
  - left. destruct (sim_err_l _ _ H) as [-> ->]. auto.
Qed.

Lemma vnum_sc_of z : vnum (VS (sc_of z)) = Some z.
Proof. cbn. apply num_of_sc_of. Qed.

Lemma arith_cong o x y x' y' :
  toQ x == toQ x' -> toQ y == toQ y' -> sim (res_of (arith o x y)) (res_of (arith o x' y')).
Proof.
  intros Ex Ey.
  assert (Z : qzero (toQ y) = qzero (toQ y')) by (apply qzero_comp; exact Ey).
  destruct (arith_val o x y) as [A1 A2]. destruct (arith_val o x' y') as [B1 B2]. rewrite <- Z in B1, B2.
  destruct (divlike o && qzero (toQ y)) eqn:D.
  - rewrite (A1 eq_refl), (B1 eq_refl). exact I.
  - destruct (A2 eq_refl) as [z [-> Hz]]. destruct (B2 eq_refl) as [z' [-> Hz']].
    cbn [res_of sim]. exists z, z'. rewrite !vnum_sc_of. split; [reflexivity|split; [reflexivity|]].
    rewrite Hz, Hz'. apply qarith_comp; auto.
    intros [D1 D2]. rewrite D1 in D. cbn in D. unfold qzero in D.
    apply Qeq_bool_iff in D2. congruence.
Qed.

Lemma npow_S x n : toQ (npow x (S n)) == toQ x * toQ (npow x n).
Proof.
  cbn [npow]. destruct x as [a|q]; [|reflexivity].
  destruct (npow (NI a) n) as [b|r]; cbn; rewrite ?inject_Z_mult; reflexivity.
Qed.
Lemma npow_cong x x' n : toQ x == toQ x' -> toQ (npow x n) == toQ (npow x' n).
Proof.
  intros E. induction n as [|n IH].
  - destruct x, x'; reflexivity.
  - rewrite !npow_S, E, IH. reflexivity.
Qed.

Lemma un_num_cong o x x' : toQ x == toQ x' -> toQ (un_num o x) == toQ (un_num o x').
Proof.
  intros E. destruct o; cbn [un_num].
  - assert (G : forall a, toQ (match a with NI p => NI (- p) | NF q => NF (- q) end) == - toQ a)
      by (intros [p|q]; cbn; rewrite ?inject_Z_opp; reflexivity).
    eapply Qeq_trans; [apply (G x)|]. eapply Qeq_trans; [|symmetry; apply (G x')]. rewrite E. reflexivity.
  - exact E.
  - assert (G : forall a, toQ (match a with NI p => NI (Z.abs p) | NF q => NF (Qabs q) end) == Qabs (toQ a)).
    { intros [p|q]; cbn; [|reflexivity]. unfold Qabs, inject_Z. cbn. reflexivity. }
    eapply Qeq_trans; [apply (G x)|]. eapply Qeq_trans; [|symmetry; apply (G x')]. rewrite E. reflexivity.
  - apply npow_cong. exact E.
Qed.

Lemma py_unop_sim o a b : sim a b -> sim (strict1 (py_unop o) a) (strict1 (py_unop o) b).
Proof.
  intros H. destruct (sim_cases _ _ H) as [[-> ->]|[va [vb [x [y [-> [-> [A [B C]]]]]]]]]; cbn; [exact I|].
  unfold py_unop. rewrite A, B. cbn. exists (un_num o x), (un_num o y). rewrite !num_of_sc_of.
  split; [reflexivity|split; [reflexivity|]]. apply un_num_cong. exact C.
Qed.

Lemma py_binop_sim o a b a' b' : sim a a' -> sim b b' ->
  sim (strict2 (py_binop o) a b) (strict2 (py_binop o) a' b').
Proof.
  intros Ha Hb.
  destruct (sim_cases _ _ Ha) as [[-> ->]|[va [va' [x [x' [-> [-> [A [A' Ex]]]]]]]]]; [exact I|].
  destruct (sim_cases _ _ Hb) as [[-> ->]|[vb [vb' [y [y' [-> [-> [B [B' Ey]]]]]]]]]; [exact I|].
  cbn [strict2]. rewrite (py_binop_num o va vb x y A B), (py_binop_num o va' vb' x' y' A' B').
  apply arith_cong; assumption.
Qed.

(* sampleGiven on the operands' values vs Python on values that agree with them (object first / reflected) *)
Lemma op_sample_sim fixed o (refl : bool) a b a' b' : sim a a' -> sim b b' ->
  sim (strict2 (op_sample fixed o refl) a b)
      (if refl then strict2 (py_binop o) b' a' else strict2 (py_binop o) a' b').
Proof.
  intros Ha Hb.
  destruct (sim_cases _ _ Ha) as [[-> ->]|[va [va' [x [x' [-> [-> [A [A' Ex]]]]]]]]].
  - destruct refl; cbn; [|exact I]. destruct b' as [?|e]; [exact I|].
    destruct (sim_cases _ _ Hb) as [[_ E]|[? [? [? [? [_ [E _]]]]]]]; inversion E; subst; exact I.
  - destruct (sim_cases _ _ Hb) as [[-> ->]|[vb [vb' [y [y' [-> [-> [B [B' Ey]]]]]]]]].
    + destruct refl; exact I.
    + cbn [strict2]. rewrite (op_sample_num fixed o refl va vb x y A B).
      destruct refl.
      * rewrite (py_binop_num o vb' va' y' x' B' A'). apply arith_cong; assumption.
      * rewrite (py_binop_num o va' vb' x' y' A' B'). apply arith_cong; assumption.
Qed.

Lemma need_num2_sim v a b a' b' : (exists x, vnum v = Some x) -> sim a a' -> sim b b' ->
  sim (strict2 (need_num2 v) a b) (strict2 (need_num2 v) a' b').
Proof.
  intros [x Hv] Ha Hb.
  destruct (sim_cases _ _ Ha) as [[-> ->]|[va [va' [xa [xa' [-> [-> [A [A' _]]]]]]]]]; [exact I|].
  destruct (sim_cases _ _ Hb) as [[-> ->]|[vb [vb' [xb [xb' [-> [-> [B [B' _]]]]]]]]]; [exact I|].
  cbn [strict2]. unfold need_num2. rewrite A, A', B, B'. cbn. exists x, x. repeat split; auto; try reflexivity.
Qed.

(* ---------------------------------------------------------------- the numeric fragment *)
Inductive nexpr : expr -> Prop :=
  | NE_leaf i : nexpr (ELeaf i)
  | NE_tnorm i lo hi : nexpr (ETNorm i lo hi)
  | NE_range i lo hi : nexpr lo -> nexpr hi -> nexpr (ERange i lo hi)
  | NE_drange i lo hi : nexpr lo -> nexpr hi -> nexpr (EDRange i lo hi)
  | NE_const s x : num_of s = Some x -> nexpr (EConst (VS s))
  | NE_un o a : nexpr a -> nexpr (EUn o a)
  | NE_bin o a b : nexpr a -> nexpr b -> nexpr (EBin o a b).

Definition scalar_cap (c : cap) : Prop := match c with CT _ _ => False | _ => True end.

Lemma eval_cap_of_res fixed s r : eval_cap fixed s (of_res r) = r.
Proof. destruct r; reflexivity. Qed.
Lemma scalar_of_res r : scalar_cap (of_res r).
Proof. destruct r; exact I. Qed.
Lemma eval_node_of fixed s c : scalar_cap c -> (forall x, c <> CE x) -> eval_node fixed s (node_of c) = eval_cap fixed s c.
Proof. destruct c; cbn; intros H N; try reflexivity; try contradiction. exfalso. now apply (N x). Qed.

Section CaptureEval.
  Variable tau : nat -> bool.
  Variable simp fixed : bool.
  Variable s : valuation.
  Hypothesis s_num : forall i, exists x, vnum (s i) = Some x.

  Notation cap_of := (capture tau simp false).
  Notation ev := (eval_cap fixed s).

  Lemma veq_const_inv v k : veq_const v k = true -> exists x, vnum v = Some x /\ toQ x == k.
  Proof.
    unfold veq_const. destruct (vnum v) as [x|]; [|discriminate]. intros H. exists x. split; [reflexivity|].
    now apply Qeq_bool_iff.
  Qed.

  Lemma shortcut_inv o refl n c : shortcut tau simp false o refl n c = true ->
    exists v k, c = CV v /\ vnum v = Some k /\ shortcut_cond o refl (toQ k).
  Proof.
    unfold shortcut. intros H. apply andb_true_iff in H. destruct H as [_ H].
    destruct c as [v| | |]; try discriminate. unfold shortcut_cond.
    destruct o, refl; try discriminate;
      (apply veq_const_inv in H; destruct H as [k [Hk E]]; exists v, k; split; [reflexivity|split; [exact Hk|]]; tauto).
  Qed.

  (* a binary operator whose constant operand is the identity: Python's result agrees with the other operand *)
  Lemma shortcut_sim o (refl : bool) r r' c v k :
    sim r r' -> sim (ROk v) c -> vnum v = Some k -> shortcut_cond o refl (toQ k) ->
    sim r (if refl then strict2 (py_binop o) c r' else strict2 (py_binop o) r' c).
  Proof.
    intros Hr Hc Hk Hs.
    destruct (sim_ok_l _ _ Hc) as [k0 [v' [k' [K0 [-> [K' Ek]]]]]].
    rewrite Hk in K0. inversion K0; subst k0; clear K0.
    assert (Hs' : shortcut_cond o refl (toQ k')).
    { unfold shortcut_cond in *. rewrite <- Ek. exact Hs. }
    destruct (sim_cases _ _ Hr) as [[-> ->]|[va [va' [x [x' [-> [-> [A [A' Ex]]]]]]]]].
    - destruct refl; exact I.
    - destruct (simplify_sound o refl va' v' x' k' A' K' Hs') as [w [z [E [Hz Ez]]]].
      destruct refl; cbn [strict2]; rewrite E; cbn; exists x, z; repeat split; auto; rewrite Ez; exact Ex.
  Qed.

  Theorem capture_eval_num e : nexpr e ->
    scalar_cap (cap_of e) /\ sim (ev (cap_of e)) (eval_py s e).
  Proof.
    induction 1 as [i|i lo hi|i lo hi Hlo [Slo IHlo] Hhi [Shi IHhi]|i lo hi Hlo [Slo IHlo] Hhi [Shi IHhi]
                   |sc x Hx|o a Ha [Sa IHa]|o a b Ha [Sa IHa] Hb [Sb IHb]].
    - cbn. split; [exact I|]. destruct (s_num i) as [x Hx]. exists x, x. repeat split; auto; try reflexivity.
    - cbn. split; [exact I|]. destruct (s_num i) as [x Hx]. exists x, x. repeat split; auto; try reflexivity.
    - (* Range *)
      cbn [capture eval_py].
      assert (G : forall disc, scalar_cap (cap_range disc i (cap_of lo) (cap_of hi)) /\
                  sim (ev (cap_range disc i (cap_of lo) (cap_of hi)))
                      (strict2 (need_num2 (s i)) (eval_py s lo) (eval_py s hi))).
      { intros disc.
        assert (N := need_num2_sim (s i) _ _ _ _ (s_num i) IHlo IHhi).
        destruct (cap_of lo) as [va|xa|na|? ?] eqn:Ca; [| | |contradiction];
        destruct (cap_of hi) as [vb|xb|nb|? ?] eqn:Cb; try contradiction; cbn [cap_range].
        - cbn [ev eval_cap] in IHlo, IHhi, N.
          destruct (sim_ok_l _ _ IHlo) as [xa [? [? [A _]]]]. destruct (sim_ok_l _ _ IHhi) as [xb [? [? [B _]]]].
          unfold vnumb. rewrite A, B. split; [exact I|]. destruct disc; exact N.
        - split; [exact I|]. cbn [eval_cap] in *. destruct (sim_err_l _ _ IHhi) as [-> ->].
          destruct (eval_py s lo); [exact I|]. cbn in IHlo. contradiction.
        - cbn [eval_cap] in IHlo. destruct (sim_ok_l _ _ IHlo) as [xa [? [? [A _]]]].
          unfold vnumb. rewrite A. split; [exact I|]. destruct disc; exact N.
        - split; [exact I|]. cbn [eval_cap] in *. destruct (sim_err_l _ _ IHlo) as [-> ->]. exact I.
        - split; [exact I|]. cbn [eval_cap] in *. destruct (sim_err_l _ _ IHlo) as [-> ->]. exact I.
        - split; [exact I|]. cbn [eval_cap] in *. destruct (sim_err_l _ _ IHlo) as [-> ->]. exact I.
        - cbn [eval_cap] in IHhi. destruct (sim_ok_l _ _ IHhi) as [xb [? [? [B _]]]].
          unfold vnumb. rewrite B. split; [exact I|]. destruct disc; exact N.
        - split; [exact I|]. cbn [eval_cap] in *. destruct (sim_err_l _ _ IHhi) as [-> ->].
          destruct (sim_cases _ _ IHlo) as [[_ ->]|[? [? [? [? [_ [-> _]]]]]]]; exact I.
        - split; [exact I|]. destruct disc; exact N. }
      apply (G false).
    - (* DiscreteRange: same construction *)
      cbn [capture eval_py].
      assert (N := need_num2_sim (s i) _ _ _ _ (s_num i) IHlo IHhi).
      destruct (cap_of lo) as [va|xa|na|? ?] eqn:Ca; [| | |contradiction];
      destruct (cap_of hi) as [vb|xb|nb|? ?] eqn:Cb; try contradiction; cbn [cap_range].
      + cbn [ev eval_cap] in IHlo, IHhi, N.
        destruct (sim_ok_l _ _ IHlo) as [xa [? [? [A _]]]]. destruct (sim_ok_l _ _ IHhi) as [xb [? [? [B _]]]].
        unfold vnumb. rewrite A, B. split; [exact I|]. exact N.
      + split; [exact I|]. cbn [eval_cap] in *. destruct (sim_err_l _ _ IHhi) as [-> ->].
        destruct (eval_py s lo); [exact I|]. cbn in IHlo. contradiction.
      + cbn [eval_cap] in IHlo. destruct (sim_ok_l _ _ IHlo) as [xa [? [? [A _]]]].
        unfold vnumb. rewrite A. split; [exact I|]. exact N.
      + split; [exact I|]. cbn [eval_cap] in *. destruct (sim_err_l _ _ IHlo) as [-> ->]. exact I.
      + split; [exact I|]. cbn [eval_cap] in *. destruct (sim_err_l _ _ IHlo) as [-> ->]. exact I.
      + split; [exact I|]. cbn [eval_cap] in *. destruct (sim_err_l _ _ IHlo) as [-> ->]. exact I.
      + cbn [eval_cap] in IHhi. destruct (sim_ok_l _ _ IHhi) as [xb [? [? [B _]]]].
        unfold vnumb. rewrite B. split; [exact I|]. exact N.
      + split; [exact I|]. cbn [eval_cap] in *. destruct (sim_err_l _ _ IHhi) as [-> ->].
        destruct (sim_cases _ _ IHlo) as [[_ ->]|[? [? [? [? [_ [-> _]]]]]]]; exact I.
      + split; [exact I|]. exact N.
    - (* constant *)
      cbn. split; [exact I|]. exists x, x. repeat split; auto; try reflexivity.
    - (* unary *)
      cbn [capture eval_py]. assert (U := py_unop_sim o _ _ IHa).
      destruct (cap_of a) as [v|x|n|? ?] eqn:Ca; [| | |contradiction]; cbn [cap_un].
      + split; [apply scalar_of_res|]. rewrite eval_cap_of_res. exact U.
      + split; [exact I|]. cbn [eval_cap] in *. destruct (sim_err_l _ _ IHa) as [-> ->]. exact I.
      + assert (D : sim (ev (CN (NUn o n))) (strict1 (py_unop o) (eval_py s a))) by exact U.
        destruct o as [| | |k]; try (split; [exact I|exact D]).
        destruct k as [|[|k]]; try (split; [exact I|exact D]).
        destruct (simp && isnum tau n); [|split; [exact I|exact D]].
        split; [exact I|]. cbn [eval_cap] in *.
        destruct (sim_cases _ _ IHa) as [[-> ->]|[va [va' [x [x' [-> [-> [A [A' Ex]]]]]]]]]; [exact I|].
        cbn [strict1]. destruct (pow1_sound va' x' A') as [w [z [E [Hz Ez]]]]. rewrite E.
        exists x, z. repeat split; auto. rewrite Ez. exact Ex.
    - (* binary *)
      cbn [capture eval_py].
      destruct (cap_of a) as [va|xa|na|? ?] eqn:Ca; [| | |contradiction];
      destruct (cap_of b) as [vb|xb|nb|? ?] eqn:Cb; try contradiction; cbn [cap_bin].
      + split; [apply scalar_of_res|]. rewrite eval_cap_of_res.
        exact (py_binop_sim o _ _ _ _ IHa IHb).
      + split; [exact I|]. cbn [eval_cap] in *. destruct (sim_err_l _ _ IHb) as [-> ->].
        destruct (eval_py s a); [exact I|]. cbn in IHa. contradiction.
      + (* constant op random: reflected operator on the random operand *)
        destruct (shortcut tau simp false o true nb (CV va)) eqn:Sh.
        * split; [exact I|]. destruct (shortcut_inv _ _ _ _ Sh) as [v [k [E [Hk Hs]]]]. inversion E; subst v.
          exact (shortcut_sim o true _ _ _ va k IHb IHa Hk Hs).
        * split; [exact I|]. cbn [eval_cap eval_node node_of].
          exact (op_sample_sim fixed o true _ _ _ _ IHb IHa).
      + split; [exact I|]. cbn [eval_cap] in *. destruct (sim_err_l _ _ IHa) as [-> ->]. exact I.
      + split; [exact I|]. cbn [eval_cap] in *. destruct (sim_err_l _ _ IHa) as [-> ->]. exact I.
      + split; [exact I|]. cbn [eval_cap] in *. destruct (sim_err_l _ _ IHa) as [-> ->]. exact I.
      + (* random op constant *)
        destruct (shortcut tau simp false o false na (CV vb)) eqn:Sh.
        * split; [exact I|]. destruct (shortcut_inv _ _ _ _ Sh) as [v [k [E [Hk Hs]]]]. inversion E; subst v.
          exact (shortcut_sim o false _ _ _ vb k IHa IHb Hk Hs).
        * split; [exact I|]. cbn [eval_cap eval_node node_of].
          exact (op_sample_sim fixed o false _ _ _ _ IHa IHb).
      + split; [exact I|]. cbn [eval_cap] in *. destruct (sim_err_l _ _ IHb) as [-> ->].
        destruct (sim_cases _ _ IHa) as [[_ ->]|[? [? [? [? [_ [-> _]]]]]]]; exact I.
      + (* random op random *)
        assert (Sh : shortcut tau simp false o false na (CN nb) = false).
        { unfold shortcut. destruct (simp && isnum tau na); reflexivity. }
        rewrite Sh. split; [exact I|]. cbn [eval_cap eval_node node_of].
        exact (op_sample_sim fixed o false _ _ _ _ IHa IHb).
  Qed.
End CaptureEval.

(* the sign rule of the quotient's upper bound matters: choosing it from the sign of the numerator's LOWER bound
   (as a seeded mutant does) is unsound when the numerator straddles zero *)
Theorem div_upper_by_lower_sign_refuted :
  exists l1 r1 l2 r2 x y, l1 <= x <= r1 /\ l2 <= y <= r2 /\ 0 < l2 /\
    ~ x / y <= (if qleb 0 l1 then r1 / l2 else r1 / r2).
Proof.
  exists (-1), 2, 1, 2, 2, 1. repeat split; try (vm_compute; discriminate).
  vm_compute. intros H. apply H. reflexivity.
Qed.
