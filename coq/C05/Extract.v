(* Extraction of the C05 model to OCaml (volume path of the correspondence check).
   Directives: ExtrOcamlBasic only; Z, positive, nat, Q stay the extracted inductive types. *)
From Coq Require Import ZArith QArith List.
From Coq Require Extraction.
From Coq Require Import ExtrOcamlBasic.
From Scenic Require Import C05.Expr C05.Vec.
Extraction Language OCaml.
Extraction "model.ml" capture eval_py eval_cap eval_node support node_of hypot_support_fixed2
  hypot_support_asis2 Qred vcap veval nev vzero_all cls_of.
