(* C05 — soundness of the support-interval arithmetic of distributions.py *)
From Coq Require Import ZArith QArith Qround Qabs List Bool Lia Lqa.
From Scenic Require Import C05.Expr.
Import ListNotations.
Open Scope Q_scope.

(* ---------------------------------------------------------------- small facts *)
Lemma qleb_true a b : qleb a b = true <-> a <= b.
Proof. unfold qleb. apply Qle_bool_iff. Qed.
Lemma qleb_false a b : qleb a b = false -> b < a.
Proof.
  unfold qleb. intros H. apply Qnot_le_lt. intro L. apply Qle_bool_iff in L. congruence.
Qed.
Lemma qltb_true a b : qltb a b = true -> a < b.
Proof. unfold qltb. intros H. apply negb_true_iff in H. now apply qleb_false. Qed.
Lemma qltb_false a b : qltb a b = false -> b <= a.
Proof. unfold qltb. intros H. apply negb_false_iff in H. now apply qleb_true. Qed.

Lemma qmin_l a b : qmin a b <= a.
Proof. unfold qmin. destruct (qleb a b) eqn:E; [lra|apply qleb_false in E; lra]. Qed.
Lemma qmin_r a b : qmin a b <= b.
Proof. unfold qmin. destruct (qleb a b) eqn:E; [apply qleb_true in E; lra|lra]. Qed.
Lemma qmax_l a b : a <= qmax a b.
Proof. unfold qmax. destruct (qleb a b) eqn:E; [apply qleb_true in E; lra|lra]. Qed.
Lemma qmax_r a b : b <= qmax a b.
Proof. unfold qmax. destruct (qleb a b) eqn:E; [lra|apply qleb_false in E; lra]. Qed.
Lemma qmin_cases a b : qmin a b = a \/ qmin a b = b.
Proof. unfold qmin. destruct (qleb a b); auto. Qed.
Lemma qmax_cases a b : qmax a b = a \/ qmax a b = b.
Proof. unfold qmax. destruct (qleb a b); auto. Qed.
Lemma qmin_glb a b c : c <= a -> c <= b -> c <= qmin a b.
Proof. destruct (qmin_cases a b) as [->| ->]; auto. Qed.
Lemma qmax_lub a b c : a <= c -> b <= c -> qmax a b <= c.
Proof. destruct (qmax_cases a b) as [->| ->]; auto. Qed.

(* ---------------------------------------------------------------- intervals *)
Definition lo_ok (l : option Q) (x : Q) : Prop := match l with Some a => a <= x | None => True end.
Definition hi_ok (u : option Q) (x : Q) : Prop := match u with Some b => x <= b | None => True end.
Definition in_iv (iv : ival) (x : Q) : Prop := lo_ok (fst iv) x /\ hi_ok (snd iv) x.

Lemma in_union_l a b x : in_iv a x -> in_iv (union_iv a b) x.
Proof.
  destruct a as [[l|] [u|]], b as [[l'|] [u'|]]; unfold in_iv, union_iv; simpl; intuition;
    try (eapply Qle_trans; [apply qmin_l|eassumption]);
    try (eapply Qle_trans; [eassumption|apply qmax_l]).
  all: fold (qmin l l'); fold (qmax u u');
    try (eapply Qle_trans; [apply qmin_l|eassumption]);
    try (eapply Qle_trans; [eassumption|apply qmax_l]).
Qed.
Lemma in_union_r a b x : in_iv b x -> in_iv (union_iv a b) x.
Proof.
  destruct a as [[l|] [u|]], b as [[l'|] [u'|]]; unfold in_iv, union_iv; simpl; intuition.
  all: try fold (qmin l l'); try fold (qmax u u');
    try (eapply Qle_trans; [apply qmin_r|eassumption]);
    try (eapply Qle_trans; [eassumption|apply qmax_r]).
Qed.

(* the core interval lemmas, over Q *)
Lemma add_sound l1 r1 l2 r2 x y :
  l1 <= x <= r1 -> l2 <= y <= r2 -> l1 + l2 <= x + y <= r1 + r2.
Proof. lra. Qed.
Lemma sub_sound l1 r1 l2 r2 x y :
  l1 <= x <= r1 -> l2 <= y <= r2 -> l1 - r2 <= x - y <= r1 - l2.
Proof. lra. Qed.

Lemma mul_between x l r y : l <= y <= r -> qmin (x * l) (x * r) <= x * y <= qmax (x * l) (x * r).
Proof.
  intros [H1 H2].
  destruct (Qlt_le_dec x 0) as [N|P].
  - split.
    + eapply Qle_trans; [apply qmin_r|]. nra.
    + eapply Qle_trans; [|apply qmax_l]. nra.
  - split.
    + eapply Qle_trans; [apply qmin_l|]. nra.
    + eapply Qle_trans; [|apply qmax_r]. nra.
Qed.

Lemma mul_between' y l r x : l <= x <= r -> qmin (l * y) (r * y) <= x * y <= qmax (l * y) (r * y).
Proof.
  intros [H1 H2].
  destruct (Qlt_le_dec y 0) as [N|P].
  - split.
    + eapply Qle_trans; [apply qmin_r|]. nra.
    + eapply Qle_trans; [|apply qmax_l]. nra.
  - split.
    + eapply Qle_trans; [apply qmin_l|]. nra.
    + eapply Qle_trans; [|apply qmax_r]. nra.
Qed.

Lemma mul_sound l1 r1 l2 r2 x y :
  l1 <= x <= r1 -> l2 <= y <= r2 ->
  qmin (qmin (l1 * l2) (l1 * r2)) (qmin (r1 * l2) (r1 * r2)) <= x * y
  /\ x * y <= qmax (qmax (l1 * l2) (l1 * r2)) (qmax (r1 * l2) (r1 * r2)).
Proof.
  intros Hx Hy.
  destruct (mul_between x l2 r2 y Hy) as [A B].
  assert (C1 : qmin (l1 * l2) (r1 * l2) <= x * l2 <= qmax (l1 * l2) (r1 * l2)).
  { apply mul_between'; auto. }
  assert (C2 : qmin (l1 * r2) (r1 * r2) <= x * r2 <= qmax (l1 * r2) (r1 * r2)).
  { apply mul_between'; auto. }
  set (m := qmin (qmin (l1 * l2) (l1 * r2)) (qmin (r1 * l2) (r1 * r2))).
  set (M := qmax (qmax (l1 * l2) (l1 * r2)) (qmax (r1 * l2) (r1 * r2))).
  assert (m11 : m <= l1 * l2) by (unfold m; eapply Qle_trans; [apply qmin_l|apply qmin_l]).
  assert (m12 : m <= l1 * r2) by (unfold m; eapply Qle_trans; [apply qmin_l|apply qmin_r]).
  assert (m21 : m <= r1 * l2) by (unfold m; eapply Qle_trans; [apply qmin_r|apply qmin_l]).
  assert (m22 : m <= r1 * r2) by (unfold m; eapply Qle_trans; [apply qmin_r|apply qmin_r]).
  assert (M11 : l1 * l2 <= M) by (unfold M; eapply Qle_trans; [apply qmax_l|apply qmax_l]).
  assert (M12 : l1 * r2 <= M) by (unfold M; eapply Qle_trans; [apply qmax_r|apply qmax_l]).
  assert (M21 : r1 * l2 <= M) by (unfold M; eapply Qle_trans; [apply qmax_l|apply qmax_r]).
  assert (M22 : r1 * r2 <= M) by (unfold M; eapply Qle_trans; [apply qmax_r|apply qmax_r]).
  split.
  - eapply Qle_trans; [|apply A]. apply qmin_glb.
    + eapply Qle_trans; [|apply C1]. apply qmin_glb; auto.
    + eapply Qle_trans; [|apply C2]. apply qmin_glb; auto.
  - eapply Qle_trans; [apply B|]. apply qmax_lub.
    + eapply Qle_trans; [apply C1|]. apply qmax_lub; auto.
    + eapply Qle_trans; [apply C2|]. apply qmax_lub; auto.
Qed.

Lemma div_le_compat a b c : 0 < c -> a <= b -> a / c <= b / c.
Proof.
  intros Hc H. unfold Qdiv. apply Qmult_le_compat_r; auto.
  apply Qlt_le_weak. apply Qinv_lt_0_compat; auto.
Qed.
Lemma inv_le_anti a b : 0 < a -> a <= b -> / b <= / a.
Proof.
  intros Ha Hab. assert (Hb : 0 < b) by lra.
  apply Qle_shift_inv_l; auto.
  setoid_replace (/ b * a) with (a / b) by (unfold Qdiv; ring).
  apply Qle_shift_div_r; auto. lra.
Qed.
Lemma div_nonneg_anti a c d : 0 <= a -> 0 < c -> c <= d -> a / d <= a / c.
Proof.
  intros Ha Hc Hcd. unfold Qdiv.
  rewrite !(Qmult_comm a). apply Qmult_le_compat_r; auto. apply inv_le_anti; auto.
Qed.
Lemma div_neg_mono a c d : a <= 0 -> 0 < c -> c <= d -> a / c <= a / d.
Proof.
  intros Ha Hc Hcd. unfold Qdiv.
  assert (H := inv_le_anti c d Hc Hcd).
  assert (P : 0 < / d) by (apply Qinv_lt_0_compat; lra).
  nra.
Qed.

Lemma div_sound l1 r1 l2 r2 x y :
  0 < l2 -> l1 <= x <= r1 -> l2 <= y <= r2 ->
  (if qleb 0 l1 then l1 / r2 else l1 / l2) <= x / y
  /\ x / y <= (if qleb 0 r1 then r1 / l2 else r1 / r2).
Proof.
  intros P [X1 X2] [Y1 Y2]. assert (Py : 0 < y) by lra. assert (Pr : 0 < r2) by lra.
  split.
  - destruct (qleb 0 l1) eqn:E.
    + apply qleb_true in E.
      eapply Qle_trans; [apply (div_nonneg_anti l1 y r2); auto|]. apply div_le_compat; auto.
    + apply qleb_false in E.
      eapply Qle_trans; [apply (div_neg_mono l1 l2 y); auto; lra|]. apply div_le_compat; auto.
  - destruct (qleb 0 r1) eqn:E.
    + apply qleb_true in E.
      eapply Qle_trans; [apply (div_le_compat x r1 y); auto|]. apply div_nonneg_anti; auto.
    + apply qleb_false in E.
      eapply Qle_trans; [apply (div_le_compat x r1 y); auto|]. apply div_neg_mono; auto; lra.
Qed.

Lemma neg_sound l r x : l <= x <= r -> - r <= - x <= - l.
Proof. lra. Qed.

Lemma qabs_cases x : (0 <= x /\ Qabs x == x) \/ (x < 0 /\ Qabs x == - x).
Proof.
  destruct (Qlt_le_dec x 0) as [N|P].
  - right. split; auto. apply Qabs_neg. lra.
  - left. split; auto. apply Qabs_pos. auto.
Qed.

Lemma abs_sound l r x : l <= x <= r ->
  in_iv (if qltb r 0 then (Some (- r), Some (- l))
         else if qltb l 0 then (Some 0, Some (qmax (- l) r)) else (Some l, Some r)) (Qabs x).
Proof.
  intros [H1 H2]. unfold in_iv.
  destruct (qabs_cases x) as [[P E]|[N E]];
  destruct (qltb r 0) eqn:R; [apply qltb_true in R|apply qltb_false in R|apply qltb_true in R|apply qltb_false in R];
  simpl; try rewrite E; try lra.
  - destruct (qltb l 0) eqn:L; simpl; rewrite ?E.
    + split; [lra|]. eapply Qle_trans; [apply H2|apply qmax_r].
    + lra.
  - destruct (qltb l 0) eqn:L; simpl; rewrite ?E.
    + split; [lra|]. eapply Qle_trans; [|apply qmax_l]. lra.
    + apply qltb_false in L. lra.
Qed.

(* monotone functions: the theorem behind monotonicDistributionFunction *)
Definition pointwise_le (a b : list Q) : Prop := Forall2 Qle a b.
Definition monotone (f : list Q -> Q) : Prop := forall a b, pointwise_le a b -> f a <= f b.

Lemma monotone_support_sound_gen (f : list Q -> Q) :
  monotone f ->
  forall (ivs : list (Q * Q)) (xs : list Q),
    Forall2 (fun iv x => fst iv <= x <= snd iv) ivs xs ->
    f (map fst ivs) <= f xs <= f (map snd ivs).
Proof.
  intros M ivs xs H. split; apply M; unfold pointwise_le.
  - induction H; simpl; constructor; auto. tauto.
  - induction H; simpl; constructor; auto. tauto.
Qed.

(* hypot is NOT monotone (F8): on squares *)
Lemma hyp2_not_monotone : ~ monotone hyp2.
Proof.
  intros M. specialize (M [-3; 0] [0; 0]).
  assert (H : pointwise_le [-3; 0] [0; 0]) by (repeat constructor; unfold Qle; simpl; lia).
  specialize (M H). vm_compute in M. apply M. reflexivity.
Qed.

Lemma hypot_asis_unsound :
  exists x, -3 <= x <= 1 /\
    ~ (fst (hypot_support_asis2 [(-3, 1); (0, 0)]) <= hyp2 [x; 0] <= snd (hypot_support_asis2 [(-3, 1); (0, 0)])).
Proof.
  exists 0. split; [split; unfold Qle; simpl; lia|].
  vm_compute. intros [A _]. apply A. reflexivity.
Qed.

Lemma sq_le a b : 0 <= a -> a <= b -> a * a <= b * b.
Proof. intros; nra. Qed.

Lemma minabs_sound l u x : l <= x <= u -> minabs (l, u) * minabs (l, u) <= x * x.
Proof.
  intros [H1 H2]. unfold minabs.
  destruct (qleb l 0 && qleb 0 u) eqn:E.
  - nra.
  - apply andb_false_iff in E.
    assert (ML := qmin_l (Qabs l) (Qabs u)). assert (MR := qmin_r (Qabs l) (Qabs u)).
    assert (Q0 : 0 <= qmin (Qabs l) (Qabs u))
      by (destruct (qmin_cases (Qabs l) (Qabs u)) as [->| ->]; apply Qabs_nonneg).
    set (m := qmin (Qabs l) (Qabs u)) in *.
    destruct (qabs_cases l) as [[Pl El]|[Nl El]]; destruct (qabs_cases u) as [[Pu Eu]|[Nu Eu]];
      destruct E as [E|E]; apply qleb_false in E; try lra.
    all: first [ assert (m <= x) by lra; nra | assert (m <= - x) by lra; nra ].
Qed.

Lemma maxabs_sound l u x : l <= x <= u -> x * x <= maxabs (l, u) * maxabs (l, u).
Proof.
  intros [H1 H2]. unfold maxabs.
  assert (ML := qmax_l (Qabs l) (Qabs u)). assert (MR := qmax_r (Qabs l) (Qabs u)).
  set (M := qmax (Qabs l) (Qabs u)) in *.
  assert (B : - M <= x <= M).
  { assert (Al := Qle_Qabs l). assert (Au := Qle_Qabs u).
    assert (Bl : - Qabs l <= l) by (destruct (qabs_cases l) as [[? E]|[? E]]; lra).
    split; lra. }
  assert (0 <= M + x) by lra. assert (0 <= M - x) by lra.
  setoid_replace (M * M) with (x * x + (M + x) * (M - x)) by ring.
  assert (0 <= (M + x) * (M - x)) by (apply Qmult_le_0_compat; auto). lra.
Qed.

Lemma hyp2_cons x xs : hyp2 (x :: xs) = x * x + hyp2 xs.
Proof. reflexivity. Qed.

Lemma hypot_fixed_sound (ss : list (Q * Q)) (xs : list Q) :
  Forall2 (fun iv x => fst iv <= x <= snd iv) ss xs ->
  fst (hypot_support_fixed2 ss) <= hyp2 xs <= snd (hypot_support_fixed2 ss).
Proof.
  unfold hypot_support_fixed2. cbn [fst snd].
  induction 1 as [|[l u] x ss xs H _ IH].
  - cbn. lra.
  - rewrite !map_cons, !hyp2_cons. cbn [fst snd] in H. assert (A := minabs_sound l u x H). assert (B := maxabs_sound l u x H). lra.
Qed.
