(* C05 — vectors: the zero-vector shortcuts of vectors.py are sound exactly for the zero vector, and the
   forest captured at compile time evaluates to plain vector arithmetic on the samples. *)
From Coq Require Import QArith List Bool Lqa.
From Scenic Require Import C05.Vec.
Open Scope Q_scope.

(* equality of vectors up to the representation of the rational coordinates *)
Definition veq (a b : vec3) : Prop := vx a == vx b /\ vy a == vy b /\ vz a == vz b.
Definition oveq (a b : option vec3) : Prop :=
  match a, b with Some x, Some y => veq x y | None, None => True | _, _ => False end.

Lemma veq_refl a : veq a a.
Proof. repeat split; reflexivity. Qed.
Lemma veq_sym a b : veq a b -> veq b a.
Proof. intros [A [B C]]. repeat split; symmetry; assumption. Qed.
Lemma veq_trans a b c : veq a b -> veq b c -> veq a c.
Proof. intros [A [B C]] [D [E F]]. repeat split; etransitivity; eassumption. Qed.
Lemma oveq_refl a : oveq a a.
Proof. destruct a; cbn; [apply veq_refl|exact I]. Qed.
Lemma oveq_sym a b : oveq a b -> oveq b a.
Proof. destruct a, b; cbn; auto using veq_sym. Qed.
Lemma oveq_trans a b c : oveq a b -> oveq b c -> oveq a c.
Proof. destruct a, b, c; cbn; try tauto. apply veq_trans. Qed.

Lemma qz_iff q : qz q = true <-> q == 0.
Proof. unfold qz. apply Qeq_bool_iff. Qed.

Lemma vzero_all_iff v : vzero_all v = true <-> vx v == 0 /\ vy v == 0 /\ vz v == 0.
Proof.
  unfold vzero_all. rewrite !andb_true_iff, !qz_iff. tauto.
Qed.

Lemma vzero_all_cong a b : veq a b -> vzero_all a = true -> vzero_all b = true.
Proof.
  intros [A [B C]] H. apply vzero_all_iff in H. destruct H as [X [Y Z]].
  apply vzero_all_iff. repeat split; lra.
Qed.

(* ---------------------------------------------------------------- congruences *)
Lemma vv_cong o a a' b b' : veq a a' -> veq b b' -> veq (vv o a b) (vv o a' b').
Proof. intros [A1 [A2 A3]] [B1 [B2 B3]]. destruct o; unfold veq; cbn; repeat split; lra. Qed.

Lemma vs_cong o a a' k : veq a a' -> oveq (vs o a k) (vs o a' k).
Proof.
  intros [A1 [A2 A3]]. destruct o; cbn; try destruct (qz k); cbn; try exact I; unfold veq; cbn;
    (repeat split; [now rewrite A1|now rewrite A2|now rewrite A3]).
Qed.

Lemma vrot_cong c s a a' : veq a a' -> veq (vrot c s a) (vrot c s a').
Proof.
  intros [A1 [A2 A3]]. unfold veq; cbn. repeat split; [now rewrite A1, A2|now rewrite A1, A2|exact A3].
Qed.

Lemma olift2_cong o a b x y : oveq a x -> oveq b y -> oveq (olift2 (vv o) a b) (olift2 (vv o) x y).
Proof. destruct a, b, x, y; cbn; try tauto. apply vv_cong. Qed.

Lemma vobind_vs_cong o k a x : oveq a x ->
  oveq (vobind a (fun v => vs o v k)) (vobind x (fun v => vs o v k)).
Proof. destruct a, x; cbn; try tauto. apply vs_cong. Qed.

Lemma vobind_rot_cong c s a x : oveq a x ->
  oveq (vobind a (fun v => Some (vrot c s v))) (vobind x (fun v => Some (vrot c s v))).
Proof. destruct a, x; cbn; try tauto. apply vrot_cong. Qed.

(* ---------------------------------------------------------------- the shortcuts *)
Lemma vv_zero_identity o v c : zero_identity o = true -> vzero_all c = true -> veq (vv o v c) v.
Proof.
  intros Ho Hz. apply vzero_all_iff in Hz. destruct Hz as [Z1 [Z2 Z3]].
  destruct o; try discriminate; unfold veq; cbn; repeat split; lra.
Qed.

Lemma vv_identity_only_zero o v c : zero_identity o = true -> veq (vv o v c) v -> vzero_all c = true.
Proof.
  intros Ho [H1 [H2 H3]]. apply vzero_all_iff.
  destruct o; try discriminate; cbn in *; repeat split; lra.
Qed.

(* the guard as coded: the operator's zeroIdentity flag and all three coordinates equal to 0 *)
Theorem vec_simplify_sound o v c :
  (zero_identity o && vzero_all c = true <->
     zero_identity o = true /\ vx c == 0 /\ vy c == 0 /\ vz c == 0) /\
  (zero_identity o && vzero_all c = true -> veq (vv o v c) v) /\
  (zero_identity o = true -> veq (vv o v c) v -> vzero_all c = true).
Proof.
  split; [|split].
  - rewrite andb_true_iff, vzero_all_iff. tauto.
  - intros H. apply andb_true_iff in H. destruct H. apply vv_zero_identity; assumption.
  - apply vv_identity_only_zero.
Qed.

(* a test that looks at x and y only is unsound: (0, 0, z) with z <> 0 passes it *)
Theorem vec_simplify_xy_refuted :
  exists v c, vzero_xy c = true /\ ~ vz c == 0 /\ ~ veq (vv OAdd v c) v /\ ~ veq (vv OSub v c) v /\ ~ veq (vv ORAdd v c) v.
Proof.
  exists (V3 0 0 0), (V3 0 0 1). split; [reflexivity|].
  split; [cbn [vz]; lra|].
  repeat split; intros [_ [_ H]]; cbn [vv vz] in H; lra.
Qed.

(* __rsub__ (other - self) has no identity: the flag must stay off for it, whatever the operand *)
Theorem vec_rsub_no_identity c : exists v, ~ veq (vv ORSub v c) v.
Proof.
  exists (V3 ((1#2) * vx c + 1) 0 0). intros [H _]. cbn [vv vx] in H. lra.
Qed.

(* preservesZero (rotatedBy): rotating the zero vector gives the zero vector *)
Theorem vec_preserves_zero_sound c s z : vzero_all z = true -> veq (vrot c s z) z.
Proof.
  intros H. apply vzero_all_iff in H. destruct H as [Z1 [Z2 Z3]].
  unfold veq; cbn. repeat split; try reflexivity; rewrite Z1, Z2; ring.
Qed.
(* ... and of the operators that take a vector only OAdd/ORAdd/OSub/ORSub exist: 0 - v is not 0 *)
Theorem vec_sub_not_zero_preserving : exists z v, vzero_all z = true /\ ~ veq (vv OSub z v) z.
Proof.
  exists (V3 0 0 0), (V3 1 0 0). split; [reflexivity|]. intros [H _]. cbn in H. lra.
Qed.

(* ---------------------------------------------------------------- capture + sampleGiven = plain arithmetic *)
Definition zt_sound (zt : vec3 -> bool) : Prop := forall v, zt v = true -> vzero_all v = true.

Section CaptureEval.
  Variable fixed : bool.
  Variable zt : vec3 -> bool.
  Variable sigma : nat -> vec3.
  Variable rho : nat -> Q.
  Hypothesis Hzt : zt_sound zt.

  Definition csim (c : cres) (spec : option vec3) : Prop :=
    match c with
    | COk n => oveq (nev sigma rho n) spec
    | CZero => spec = None
    | CAttr => fixed = false
    end.

  Lemma csim_ext c s s' : oveq s s' -> csim c s -> csim c s'.
  Proof.
    destruct c; cbn; intros E H.
    - eapply oveq_trans; eassumption.
    - subst s. destruct s'; [contradiction|reflexivity].
    - exact H.
  Qed.

  Lemma shortcut_ok o self a x y :
    zero_identity o = true -> zt a = true -> oveq (nev sigma rho self) x -> oveq (Some a) y ->
    oveq (nev sigma rho self) (olift2 (vv o) x y).
  Proof.
    intros Ho Hz Hx Hy. destruct y as [b|]; [|contradiction]. cbn in Hy.
    destruct (nev sigma rho self) as [s|], x as [xa|]; cbn in *; try tauto.
    apply veq_sym. eapply veq_trans; [|apply veq_sym; exact Hx].
    apply vv_zero_identity; [exact Ho|]. eapply vzero_all_cong; [exact Hy|]. apply Hzt; exact Hz.
  Qed.

  Lemma call_vv_ok o self arg tup x y :
    oveq (nev sigma rho self) x -> oveq (nev sigma rho arg) y ->
    csim (call_vv fixed zt o self arg tup) (olift2 (vv o) x y).
  Proof.
    intros Hx Hy. unfold call_vv.
    assert (G : forall k, csim (COk (NVV k o self arg)) (olift2 (vv o) x y))
      by (intro; cbn; apply olift2_cong; assumption).
    assert (F : forall s a, self = NC s -> arg = NC a -> csim (COk (NC (vv o s a))) (olift2 (vv o) x y)).
    { intros s a -> ->. cbn in *. destruct x, y; cbn in *; try contradiction. apply vv_cong; assumption. }
    assert (S : forall a, arg = NC a -> zero_identity o = true -> zt a = true ->
                csim (COk self) (olift2 (vv o) x y)).
    { intros a -> Ho Hz. cbn. eapply shortcut_ok; eauto. }
    destruct (cls_of self) eqn:C.
    - destruct arg; try apply G.
      destruct (zero_identity o && zt v) eqn:Z.
      + apply andb_true_iff in Z. destruct Z. eapply S; eauto.
      + destruct self; apply (G KOp).
    - destruct arg; try apply G.
      destruct (zero_identity o && zt v) eqn:Z.
      + apply andb_true_iff in Z. destruct Z. eapply S; eauto.
      + destruct self; apply (G KOp).
    - destruct (zero_identity o) eqn:ZI; [|apply G].
      destruct arg; try apply G.
      destruct (tup && negb fixed) eqn:T.
      + cbn. destruct tup, fixed; cbn in T; try discriminate; reflexivity.
      + destruct (zt v) eqn:Z; [eapply S; eauto|apply G].
    - apply G.
  Qed.

  Lemma call_vs_ok o self k x :
    oveq (nev sigma rho self) x ->
    csim (call_vs o self k) (vobind x (fun a => vs o a (sval rho k))).
  Proof.
    intros Hx. unfold call_vs.
    assert (G : forall kk, csim (COk (NVS kk o self k)) (vobind x (fun a => vs o a (sval rho k))))
      by (intro; cbn; apply vobind_vs_cong; assumption).
    destruct self; try apply G. destruct k; try apply G.
    cbn in Hx. destruct x as [xa|]; [|contradiction]. cbn in Hx. cbn [vobind sval].
    pose proof (vs_cong o v xa q Hx) as E.
    destruct (vs o v q); cbn.
    - exact E.
    - destruct (vs o xa q); [contradiction|reflexivity].
  Qed.

  Lemma call_rmul_ok k a x :
    oveq (nev sigma rho a) x ->
    csim (call_rmul k a) (vobind x (fun v => vs OMul v (sval rho k))).
  Proof.
    intros Hx. unfold call_rmul. destruct k as [q|i].
    - destruct (cls_of a); try (apply call_vs_ok; assumption);
        cbn; apply (vobind_vs_cong ORMul q _ _ Hx).
    - cbn. apply (vobind_vs_cong ORMul (rho i) _ _ Hx).
  Qed.

  Lemma call_rot_ok self r x :
    oveq (nev sigma rho self) x ->
    csim (call_rot zt self r) (vobind x (fun v => Some (vrot (rcos rho r) (rsin rho r) v))).
  Proof.
    intros Hx. unfold call_rot.
    assert (G : forall kk, csim (COk (NRot kk self r)) (vobind x (fun v => Some (vrot (rcos rho r) (rsin rho r) v))))
      by (intro; cbn; apply vobind_rot_cong; assumption).
    destruct self; try apply G.
    cbn in Hx. destruct x as [xa|]; [|contradiction]. cbn in Hx.
    destruct (zt v) eqn:Z.
    - cbn. apply veq_sym. eapply veq_trans; [|apply veq_sym; exact Hx].
      apply vec_preserves_zero_sound. eapply vzero_all_cong; [exact Hx|]. apply Hzt; exact Z.
    - destruct r; [|apply G]. cbn. apply vrot_cong; exact Hx.
  Qed.

  Lemma cbind2_ok ca cb sa sb (f : vnode -> vnode -> cres) (g : option vec3 -> option vec3 -> option vec3) :
    csim ca sa -> csim cb sb ->
    (forall x, g None x = None) -> (forall x, g x None = None) ->
    (forall na nb, oveq (nev sigma rho na) sa -> oveq (nev sigma rho nb) sb -> csim (f na nb) (g sa sb)) ->
    csim (cbind ca (fun na => cbind cb (fun nb => f na nb))) (g sa sb).
  Proof.
    intros Ha Hb G1 G2 H. destruct ca as [na| |]; cbn in *.
    - destruct cb as [nb| |]; cbn in *.
      + apply H; assumption.
      + subst sb. apply G2.
      + exact Hb.
    - subst sa. apply G1.
    - exact Ha.
  Qed.

  Lemma cbind1_ok ca sa (f : vnode -> cres) (g : option vec3 -> option vec3) :
    csim ca sa -> g None = None ->
    (forall na, oveq (nev sigma rho na) sa -> csim (f na) (g sa)) ->
    csim (cbind ca f) (g sa).
  Proof.
    intros Ha G1 H. destruct ca as [na| |]; cbn in *.
    - apply H; assumption.
    - subst sa. apply G1.
    - exact Ha.
  Qed.

  Lemma olift2_none_l (f : vec3 -> vec3 -> vec3) x : olift2 f None x = None.
  Proof. reflexivity. Qed.
  Lemma olift2_none_r (f : vec3 -> vec3 -> vec3) x : olift2 f x None = None.
  Proof. destruct x; reflexivity. Qed.

  Theorem vec_capture_eval e : csim (vcap fixed zt e) (veval sigma rho e).
  Proof.
    induction e; cbn [vcap veval].
    - cbn. apply veq_refl.
    - cbn. apply veq_refl.
    - cbn. apply veq_refl.
    - cbn. apply veq_refl.
    - apply (cbind2_ok _ _ _ _ (fun na nb => call_vv fixed zt (if sub then OSub else OAdd) na nb false)
               (olift2 (vv (if sub then OSub else OAdd))) IHe1 IHe2 (olift2_none_l _) (olift2_none_r _)).
      intros na nb Ha Hb. apply call_vv_ok; assumption.
    - apply (cbind2_ok _ _ _ _ (fun na nb => call_vv fixed zt OAdd na nb false)
               (olift2 (vv OAdd)) IHe1 IHe2 (olift2_none_l _) (olift2_none_r _)).
      intros na nb Ha Hb. apply call_vv_ok; assumption.
    - apply (cbind1_ok _ _ (fun nb => call_vv fixed zt (if sub then ORSub else ORAdd) nb (NC t) true)
               (fun y => olift2 (vv (if sub then OSub else OAdd)) (Some t) y) IHe eq_refl).
      intros nb Hb.
      eapply csim_ext; [|apply (call_vv_ok _ nb (NC t) true _ (Some t) Hb (oveq_refl _))].
      destruct (veval sigma rho e) as [y|]; cbn; [|exact I].
      destruct sub; unfold veq; cbn; repeat split; lra.
    - apply (cbind1_ok _ _ (fun na => call_vv fixed zt (if sub then OSub else OAdd) na (NC t) true)
               (fun x => olift2 (vv (if sub then OSub else OAdd)) x (Some t)) IHe eq_refl).
      intros na Ha. apply (call_vv_ok _ na (NC t) true _ (Some t) Ha (oveq_refl _)).
    - apply (cbind1_ok _ _ (fun na => call_vs OMul na k)
               (fun x => vobind x (fun a => vs OMul a (sval rho k))) IHe eq_refl).
      intros na Ha. apply call_vs_ok; assumption.
    - apply (cbind1_ok _ _ (fun na => call_rmul k na)
               (fun x => vobind x (fun a => vs OMul a (sval rho k))) IHe eq_refl).
      intros na Ha. apply call_rmul_ok; assumption.
    - apply (cbind1_ok _ _ (fun na => call_vs ODiv na k)
               (fun x => vobind x (fun a => vs ODiv a (sval rho k))) IHe eq_refl).
      intros na Ha. apply call_vs_ok; assumption.
    - apply (cbind1_ok _ _ (fun na => call_rot zt na r)
               (fun x => vobind x (fun v => Some (vrot (rcos rho r) (rsin rho r) v))) IHe eq_refl).
      intros na Ha. apply call_rot_ok; assumption.
  Qed.
End CaptureEval.

(* the code's test satisfies the hypothesis *)
Lemma vzero_all_sound : zt_sound vzero_all.
Proof. intros v H; exact H. Qed.

(* after the repair of the handler (tuple operands) capture never raises AttributeError *)
Corollary vec_capture_fixed_no_attr zt e : zt_sound zt -> vcap true zt e <> CAttr.
Proof.
  intros Hzt E. pose proof (vec_capture_eval true zt (fun _ => V3 0 0 0) (fun _ => 0) Hzt e) as H. rewrite E in H. cbn in H. discriminate.
Qed.

(* with a test keyed on x and y only, the captured forest computes something else than Python *)
Theorem vec_capture_xy_refuted :
  exists e sigma rho n, vcap true vzero_xy e = COk n /\ ~ oveq (nev sigma rho n) (veval sigma rho e).
Proof.
  exists (EVBin false (ED 0%nat) (EC (V3 0 0 1))), (fun _ => V3 0 0 0), (fun _ => 0), (ND 0%nat).
  split; [reflexivity|]. cbn. intros [_ [_ H]]. cbn in H. lra.
Qed.

(* as coded today a constant tuple next to a VectorDistribution raises at compile time (finding) *)
Theorem vec_handler_tuple_asis_refuted :
  exists e, vcap false vzero_all e = CAttr /\ forall sigma rho, veval sigma rho e <> None.
Proof.
  exists (ETR false (ED 0%nat) (V3 0 0 5)). split; [reflexivity|]. intros; cbn; discriminate.
Qed.
