(* C04 (round 2) — nested configurations and containment passes that use sample points.
   (a) [inside_clear]: certificate "every vertex of A lies inside every half-space of H with slack m, and
       e * |n|_1 <= m for every normal": the whole closed e-neighbourhood (L-infinity) of hull A lies in the
       polytope, i.e. A is STRICTLY inside with no surface contact.  Sound by [inside_clear_sound].
   (b) [hull_mono]: if every vertex of A is in hull B then hull A is inside hull B (convex combinations of
       convex combinations), hence every point of hull A is a common point ([nested_overlap]).
   (c) MeshVolumeRegion.containsObject passes 3 and 4 take a CANDIDATE POINT that may be a random sample of
       the object / of the region: [contains_obj_pts] is the cascade over the answers for the chosen points;
       its verdict is correct, and therefore the same, whichever admissible points are drawn.
   Axiom-free. *)
From Coq Require Import QArith Qabs List Bool Lqa Lia.
From Scenic Require Import C17.Vec C04.Polytope C04.Overlap.
Import ListNotations.
Open Scope Q_scope.

(* ------------------------------------------------------------------ (a) strictly inside, with clearance *)
Definition norm1 (n : vec) : Q := Qabs (vx n) + Qabs (vy n) + Qabs (vz n).

Definition inside_clear (m e : Q) (H : list (vec * Q)) (A : list vec) : bool :=
  Qle_bool 0 e && negb (Qeq_bool e 0) && inside_halfspaces m H A &&
  forallb (fun h => Qle_bool (e * norm1 (fst h)) m) H.

Definition linf (p q : vec) (e : Q) : Prop :=
  Qabs (vx p - vx q) <= e /\ Qabs (vy p - vy q) <= e /\ Qabs (vz p - vz q) <= e.

Lemma mul_abs_le : forall a d e, Qabs d <= e -> a * d <= Qabs a * e.
Proof.
  intros a d e Hd. apply Qabs_Qle_condition in Hd. destruct Hd as [L U].
  pose proof (Qle_Qabs a) as A1. pose proof (Qle_Qabs (- a)) as A2. rewrite Qabs_opp in A2.
  pose proof (Qabs_nonneg a) as A0.
  destruct (Qlt_le_dec a 0) as [N|P].
  - assert (E : Qabs a == - a) by (apply Qabs_neg; lra). rewrite E. nra.
  - assert (E : Qabs a == a) by (apply Qabs_pos; exact P). rewrite E. nra.
Qed.

Lemma dot_linf : forall n p q e, linf p q e -> dot n q <= dot n p + e * norm1 n.
Proof.
  intros n p q e (Hx & Hy & Hz). unfold dot, norm1.
  assert (Sx : Qabs (vx q - vx p) <= e).
  { setoid_replace (vx q - vx p) with (- (vx p - vx q)) by ring. rewrite Qabs_opp. exact Hx. }
  assert (Sy : Qabs (vy q - vy p) <= e).
  { setoid_replace (vy q - vy p) with (- (vy p - vy q)) by ring. rewrite Qabs_opp. exact Hy. }
  assert (Sz : Qabs (vz q - vz p) <= e).
  { setoid_replace (vz q - vz p) with (- (vz p - vz q)) by ring. rewrite Qabs_opp. exact Hz. }
  pose proof (mul_abs_le (vx n) _ _ Sx). pose proof (mul_abs_le (vy n) _ _ Sy).
  pose proof (mul_abs_le (vz n) _ _ Sz). lra.
Qed.

(* the certificate: every point within e (L-infinity) of a point of hull A satisfies every half-space *)
Theorem inside_clear_sound : forall m e H A,
  inside_clear m e H A = true ->
  0 < e /\ forall p q, in_hull A p -> linf p q e -> in_halfspaces H q.
Proof.
  intros m e H A C. unfold inside_clear in C. rewrite !andb_true_iff in C.
  destruct C as [[[E0 E1] Hin] Hn]. apply Qle_bool_iff in E0. apply negb_true_iff in E1.
  assert (Epos : 0 < e).
  { destruct (Qlt_le_dec 0 e) as [L|L]; auto. exfalso.
    assert (E : e == 0) by lra. apply Qeq_bool_iff in E. congruence. }
  split; [exact Epos|].
  intros p q [ws [[L [N S]] P]] Hpq h Hh.
  unfold inside_halfspaces in Hin. rewrite forallb_forall in Hin. specialize (Hin h Hh).
  rewrite forallb_forall in Hin, Hn. specialize (Hn h Hh). apply Qle_bool_iff in Hn.
  assert (U : dot (fst h) (comb ws A) <= qsum ws * (snd h - m))
    by (apply dot_comb_le; auto; intros v Hv; apply Qle_bool_iff; apply Hin; exact Hv).
  rewrite S in U. rewrite <- (dot_veq_r _ _ _ P) in U.
  pose proof (dot_linf (fst h) p q e Hpq). lra.
Qed.

(* ------------------------------------------------------------------ (b) hull of points of a hull *)
Definition in_cone (s : Q) (vs : list vec) (p : vec) : Prop :=
  exists ws, length ws = length vs /\ nonneg ws /\ qsum ws == s /\ veq p (comb ws vs).

Fixpoint wadd (a b : list Q) : list Q :=
  match a, b with x :: a', y :: b' => (x + y) :: wadd a' b' | _, _ => [] end.

Lemma comb_wadd : forall a b vs, length a = length vs -> length b = length vs ->
  veq (comb (wadd a b) vs) (vadd (comb a vs) (comb b vs)) /\ qsum (wadd a b) == qsum a + qsum b /\
  length (wadd a b) = length vs.
Proof.
  induction a as [|x a IH]; intros b vs La Lb.
  - destruct vs; [|discriminate]. destruct b; [|discriminate]. cbn. repeat split; cbn; try ring; try reflexivity.
  - destruct vs as [|v vs]; [discriminate|]. destruct b as [|y b]; [discriminate|].
    injection La as La. injection Lb as Lb. destruct (IH b vs La Lb) as ((C1 & C2 & C3) & Sq & Ln).
    cbn [wadd comb qsum length]. repeat split; unfold vadd, vscale in *; cbn [vx vy vz] in *;
      try (rewrite ?C1, ?C2, ?C3; ring); try (rewrite Sq; ring). rewrite Ln. reflexivity.
Qed.

Lemma nonneg_wadd : forall a b, nonneg a -> nonneg b -> nonneg (wadd a b).
Proof.
  induction a as [|x a IH]; intros b Na Nb w Hw; [contradiction|].
  destruct b as [|y b]; [contradiction|]. cbn in Hw. destruct Hw as [E|Hw].
  - subst w. assert (0 <= x) by (apply Na; left; reflexivity). assert (0 <= y) by (apply Nb; left; reflexivity). lra.
  - apply (IH b); [intros z Hz; apply Na; right; exact Hz | intros z Hz; apply Nb; right; exact Hz | exact Hw].
Qed.

Lemma cone_add : forall s1 s2 vs p1 p2, in_cone s1 vs p1 -> in_cone s2 vs p2 -> in_cone (s1 + s2) vs (vadd p1 p2).
Proof.
  intros s1 s2 vs p1 p2 (a & La & Na & Sa & Pa) (b & Lb & Nb & Sb & Pb).
  destruct (comb_wadd a b vs La Lb) as (C & Sq & Ln).
  exists (wadd a b). repeat split; [exact Ln | apply nonneg_wadd; assumption | rewrite Sq, Sa, Sb; reflexivity | | | ];
    destruct C as (C1 & C2 & C3); destruct Pa as (A1 & A2 & A3); destruct Pb as (B1 & B2 & B3);
    unfold vadd in *; cbn [vx vy vz] in *; [rewrite C1, A1, B1 | rewrite C2, A2, B2 | rewrite C3, A3, B3]; reflexivity.
Qed.

Lemma comb_scale : forall w a vs,
  veq (comb (map (Qmult w) a) vs) (vscale w (comb a vs)) /\ qsum (map (Qmult w) a) == w * qsum a.
Proof.
  intros w a. induction a as [|x a IH]; intros vs.
  - cbn. repeat split; cbn; ring.
  - destruct vs as [|v vs].
    + cbn [map comb qsum]. destruct (IH []) as (_ & Sq). repeat split; cbn; try ring. rewrite Sq. ring.
    + destruct (IH vs) as ((C1 & C2 & C3) & Sq). cbn [map comb qsum].
      repeat split; unfold vadd, vscale in *; cbn [vx vy vz] in *; try (rewrite ?C1, ?C2, ?C3; ring). rewrite Sq. ring.
Qed.

Lemma cone_scale : forall w s vs p, 0 <= w -> in_cone s vs p -> in_cone (w * s) vs (vscale w p).
Proof.
  intros w s vs p Hw (a & La & Na & Sa & Pa).
  destruct (comb_scale w a vs) as (C & Sq).
  exists (map (Qmult w) a). repeat split.
  - rewrite map_length. exact La.
  - intros z Hz. apply in_map_iff in Hz. destruct Hz as (x & E & Hx). subst z.
    apply Qmult_le_0_compat; [exact Hw | apply Na; exact Hx].
  - rewrite Sq, Sa. reflexivity.
  - destruct C as (C1 & _). destruct Pa as (A1 & _). unfold vscale in *; cbn [vx vy vz] in *. rewrite C1, A1. reflexivity.
  - destruct C as (_ & C2 & _). destruct Pa as (_ & A2 & _). unfold vscale in *; cbn [vx vy vz] in *. rewrite C2, A2. reflexivity.
  - destruct C as (_ & _ & C3). destruct Pa as (_ & _ & A3). unfold vscale in *; cbn [vx vy vz] in *. rewrite C3, A3. reflexivity.
Qed.

Lemma cone_zero : forall vs, in_cone 0 vs vzero.
Proof.
  intro vs. exists (map (fun _ => 0) vs). repeat split.
  - apply map_length.
  - intros z Hz. apply in_map_iff in Hz. destruct Hz as (x & E & _). subst z. lra.
  - induction vs; cbn; [reflexivity | rewrite IHvs; ring].
  - induction vs; cbn; [reflexivity | cbn in IHvs; rewrite <- IHvs; ring].
  - induction vs; cbn; [reflexivity | cbn in IHvs; rewrite <- IHvs; ring].
  - induction vs; cbn; [reflexivity | cbn in IHvs; rewrite <- IHvs; ring].
Qed.

Lemma cone_veq : forall s vs p q, veq p q -> in_cone s vs p -> in_cone s vs q.
Proof.
  intros s vs p q E (a & La & Na & Sa & Pa). exists a. repeat split; auto;
    destruct E as (E1 & E2 & E3); destruct Pa as (A1 & A2 & A3); [rewrite <- E1 | rewrite <- E2 | rewrite <- E3]; assumption.
Qed.

Lemma comb_in_cone : forall B ws A, length ws = length A -> nonneg ws ->
  (forall a, In a A -> in_hull B a) -> in_cone (qsum ws) B (comb ws A).
Proof.
  intros B ws. induction ws as [|w ws IH]; intros A L N HA.
  - cbn. apply cone_zero.
  - destruct A as [|a A]; [discriminate|]. cbn [comb qsum].
    apply cone_add.
    + destruct (HA a (or_introl eq_refl)) as (mu & (Lm & Nm & Sm) & Pm).
      assert (C : in_cone 1 B a) by (exists mu; repeat split; auto; apply Pm).
      assert (W : 0 <= w) by (apply N; left; reflexivity).
      pose proof (cone_scale w 1 B a W C) as X.
      destruct X as (x & Lx & Nx & Sx & Px). exists x. repeat split; auto; try apply Px. rewrite Sx. ring.
    + apply IH; [injection L; auto | intros z Hz; apply N; right; exact Hz | intros z Hz; apply HA; right; exact Hz].
Qed.

Theorem hull_mono : forall A B, (forall a, In a A -> in_hull B a) -> forall p, in_hull A p -> in_hull B p.
Proof.
  intros A B HA p (ws & (L & N & S) & P).
  pose proof (comb_in_cone B ws A L N HA) as C. apply (cone_veq _ _ _ p (veq_sym _ _ P)) in C.
  destruct C as (x & Lx & Nx & Sx & Px). exists x. split; [|exact Px].
  repeat split; auto. rewrite Sx. exact S.
Qed.

(* a nested polytope overlaps its host: every point of the guest is a common point *)
Corollary nested_overlap : forall A B, (forall a, In a A -> in_hull B a) ->
  forall p, in_hull A p -> in_hull A p /\ in_hull B p.
Proof. intros A B HA p Hp. split; [exact Hp | exact (hull_mono A B HA p Hp)]. Qed.

(* ------------------------------------------------------------------ (c) containment with candidate points *)
(* The object O and the region R are arbitrary point sets.  PASS 3 takes a candidate point s of the object (its
   position if inside the object, otherwise the first of a batch of random samples; None if sampling failed), PASS 4 a
   candidate point r of the region (centre of its bounding box, or a random sample; or None).  The oracle answers
   that depend on the points are functions of them. *)
Section ContainsSampled.
  Variables O R : vec -> Prop.
  Variable reg_has : vec -> bool.          (* R.containsPoint *)
  Variable surf_dist : vec -> Q.           (* |signed distance| from a point to R's surface *)
  Variable obj_circ : vec -> Q.            (* max distance from the point to a vertex of O *)
  Variable reg_circ : vec -> Q.            (* max distance from the point to a vertex of R *)
  Variable obj_far : vec -> bool.          (* some vertex of O farther from the point than reg_circ *)
  Variables bbox_ov convex corners_in verts_in diff_empty : bool.

  Definition inside : Prop := forall p, O p -> R p.

  Definition oracle_at (s r : option vec) : coracle :=
    COr bbox_ov convex corners_in verts_in
      (match s with Some _ => true | None => false end)
      (match s with Some x => reg_has x | None => false end)
      (match s with Some x => negb (Qle_bool (surf_dist x) (obj_circ x)) | None => false end)
      (match r with Some _ => true | None => false end)
      (match r with Some y => obj_far y | None => false end)
      diff_empty.

  Definition contains_obj_pts (s r : option vec) : bool := fst (contains_obj (oracle_at s r)).

  Definition admissible (s r : option vec) : Prop :=
    (forall x, s = Some x -> O x) /\ (forall y, r = Some y -> R y).

  (* what the kernels' answers mean (exactness of the oracles), for EVERY point *)
  Hypothesis H_has : forall x, reg_has x = true <-> R x.
  Hypothesis H_obj_ball : forall x p, O p -> dist2 p x <= obj_circ x * obj_circ x.   (* O inside the ball about x *)
  Hypothesis H_obj_circ_nonneg : forall x, 0 <= obj_circ x.
  Hypothesis H_clear : forall x p, R x -> dist2 p x < surf_dist x * surf_dist x -> R p. (* open ball up to the surface is inside *)
  Hypothesis H_reg_ball : forall y p, R p -> dist2 p y <= reg_circ y * reg_circ y.
  Hypothesis H_far : forall y, obj_far y = true -> exists v, O v /\ reg_circ y * reg_circ y < dist2 v y.
  Hypothesis H_bbox : bbox_ov = false -> ~ inside.
  Hypothesis H_corners : convex = true -> corners_in = true -> inside.
  Hypothesis H_vertices : convex = true -> (verts_in = true <-> inside).
  Hypothesis H_diff : diff_empty = true <-> inside.

  Lemma point_out : forall x, O x -> reg_has x = false -> ~ inside.
  Proof.
    intros x Ox F I. specialize (I x Ox). apply H_has in I. congruence.
  Qed.

  Lemma ball_fits : forall x, reg_has x = true -> Qle_bool (surf_dist x) (obj_circ x) = false -> inside.
  Proof.
    intros x Rx F p Op. apply H_has in Rx. apply (H_clear x p Rx).
    assert (L : obj_circ x < surf_dist x).
    { destruct (Qlt_le_dec (obj_circ x) (surf_dist x)) as [L|L]; auto.
      apply Qle_bool_iff in L. congruence. }
    pose proof (H_obj_ball x p Op). pose proof (H_obj_circ_nonneg x). nra.
  Qed.

  Lemma too_far : forall y, obj_far y = true -> ~ inside.
  Proof.
    intros y F I. destruct (H_far y F) as (v & Ov & D). specialize (I v Ov).
    pose proof (H_reg_ball y v I). lra.
  Qed.

  Theorem contains_pts_correct : forall s r, admissible s r -> (contains_obj_pts s r = true <-> inside).
  Proof.
    intros s r (As & Ar). unfold contains_obj_pts.
    apply contains_cascade_correct; unfold oracle_at; cbn.
    - exact H_bbox.
    - exact H_corners.
    - exact H_vertices.
    - destruct s as [x|]; [|discriminate]. intros _ F. apply (point_out x (As x eq_refl) F).
    - destruct s as [x|]; [|discriminate]. intros _ T B. apply negb_true_iff in B. exact (ball_fits x T B).
    - destruct r as [y|]; [|discriminate]. intros _ F. exact (too_far y F).
    - exact H_diff.
  Qed.

  (* the verdict does not depend on which candidate points were drawn (or on whether sampling failed) *)
  Corollary contains_pts_independent : forall s r s' r', admissible s r -> admissible s' r' ->
    contains_obj_pts s r = contains_obj_pts s' r'.
  Proof.
    intros s r s' r' A A'. apply eq_true_iff_eq.
    rewrite (contains_pts_correct s r A), (contains_pts_correct s' r' A'). reflexivity.
  Qed.
End ContainsSampled.
