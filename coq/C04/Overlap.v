(* C04 — the decision procedures of MeshVolumeRegion.intersects / containsObject, Object.intersects
   and PolygonalFootprintRegion.containsObject as the code's CASCADE over oracle answers (what the
   native kernels FCL / trimesh / manifold / shapely report), and their correctness against exact
   geometry under NAMED hypotheses on the oracles (section hypotheses, never axioms). *)
From Coq Require Import Bool List.
Import ListNotations.

(* ================================================================== volume / volume intersection *)
Record ioracle := IOr {
  centre_far : bool;      (* PASS 1  : centre distance > circumradius A + circumradius B *)
  both_scaled : bool;     (*           precomputed per-shape geometry available for both *)
  in_near : bool;         (* PASS 2A : interior-point distance < inradius A + inradius B *)
  circ_far : bool;        (* PASS 2A : interior-point distance > circumradii about the interior points *)
  bbox_overlap : bool;    (* PASS 2B : axis-aligned bounding boxes overlap in all 3 dimensions *)
  surf_collide : bool;    (* PASS 3  : FCL reports a collision *)
  a_convex : bool;        (*           A.isConvex *)
  b_convex : bool;        (*           B.isConvex  (the early exit needs BOTH: FCL treats only Convex geometry as solid) *)
  single_bodies : bool;   (* PASS 4  : both meshes have one body *)
  a_has_b_point : bool;   (*           A contains B's interior point *)
  b_has_a_point : bool;
  bool_nonempty : bool    (* PASS 5  : boolean intersection is not empty *)
}.

Inductive ipass := IP1 | IP2A_in | IP2A_out | IP2B | IP3_hit | IP3_convex | IP4 | IP5.

Definition intersects_vol (o : ioracle) : bool * ipass :=
  if centre_far o then (false, IP1) else
  if both_scaled o && in_near o then (true, IP2A_in) else
  if both_scaled o && circ_far o then (false, IP2A_out) else
  if negb (both_scaled o) && negb (bbox_overlap o) then (false, IP2B) else
  if surf_collide o then (true, IP3_hit) else
  if a_convex o && b_convex o then (false, IP3_convex) else
  if single_bodies o then (a_has_b_point o || b_has_a_point o, IP4) else
  (bool_nonempty o, IP5).

(* the same cascade with the early exit of PASS 3 taken when EITHER region is convex (a plausible
   "optimisation"; seeded bug class C04-2 / C02-1): refuted below by [convex_or_exit_refuted] *)
Definition intersects_vol_or (o : ioracle) : bool * ipass :=
  if centre_far o then (false, IP1) else
  if both_scaled o && in_near o then (true, IP2A_in) else
  if both_scaled o && circ_far o then (false, IP2A_out) else
  if negb (both_scaled o) && negb (bbox_overlap o) then (false, IP2B) else
  if surf_collide o then (true, IP3_hit) else
  if a_convex o || b_convex o then (false, IP3_convex) else
  if single_bodies o then (a_has_b_point o || b_has_a_point o, IP4) else
  (bool_nonempty o, IP5).

(* Object.intersects: planar-box fast path in front of the volume cascade *)
Record objoracle := OOr {
  both_planar_boxes : bool;
  z_apart : bool;          (* |z1 - z2| > (h1 + h2)/2 *)
  polys_intersect : bool;  (* shapely: bounding rectangles intersect *)
  vol : ioracle
}.
Definition intersects_obj (o : objoracle) : bool :=
  if both_planar_boxes o then (if z_apart o then false else polys_intersect o)
  else fst (intersects_vol (vol o)).

(* ================================================================== containment of an object in a volume *)
Record coracle := COr {
  c_bbox_overlap : bool;     (* PASS 1 *)
  c_convex : bool;           (* PASS 2 : container convex *)
  c_bb_corners_in : bool;    (*          all 8 corners of the object's bounding box strictly inside *)
  c_vertices_in : bool;      (*          all mesh vertices of the object strictly inside *)
  c_have_obj_point : bool;   (* PASS 3 : a candidate point of the object is available *)
  c_obj_point_in : bool;     (*          container contains it *)
  c_ball_fits : bool;        (*          distance to the container's surface > circumradius of the object about it *)
  c_have_reg_point : bool;   (* PASS 4 *)
  c_too_far : bool;          (*          farthest object vertex from it > circumradius of the container about it *)
  c_diff_empty : bool        (* PASS 5 : object minus container is empty *)
}.
Inductive cpass := CP1 | CP2_bb | CP2_vert | CP3_out | CP3_in | CP4 | CP5.

Definition contains_obj (o : coracle) : bool * cpass :=
  if negb (c_bbox_overlap o) then (false, CP1) else
  if c_convex o then (if c_bb_corners_in o then (true, CP2_bb) else (c_vertices_in o, CP2_vert)) else
  if c_have_obj_point o && negb (c_obj_point_in o) then (false, CP3_out) else
  if c_have_obj_point o && c_ball_fits o then (true, CP3_in) else
  if c_have_reg_point o && c_too_far o then (false, CP4) else
  (c_diff_empty o, CP5).

(* footprint containment (regions.py PolygonalFootprintRegion.containsObject) *)
Record foracle := FOr { f_convex : bool; f_poly_in : bool; f_hull_in : bool }.
Definition contains_footprint (o : foracle) : bool :=
  if f_convex o then f_poly_in o else if f_hull_in o then true else f_poly_in o.

(* ================================================================== correctness of the cascades *)
Section IntersectsCorrect.
  Variable meets : Prop.          (* A ∩ B ≠ ∅ in exact geometry *)
  Variable o : ioracle.
  (* what each oracle answer means; the geometric ones are consequences of Polytope.v's
     far_spheres_disjoint / near_inballs_meet / bbox_disjoint once the radii, interior points and
     boxes are what their names say *)
  Hypothesis H_centre_far : centre_far o = true -> ~ meets.
  Hypothesis H_in_near : both_scaled o = true -> in_near o = true -> meets.
  Hypothesis H_circ_far : both_scaled o = true -> circ_far o = true -> ~ meets.
  Hypothesis H_bbox : bbox_overlap o = false -> ~ meets.
  Hypothesis H_fcl_hit : surf_collide o = true -> meets.                       (* FCL: a reported collision is real *)
  Hypothesis H_fcl_convex : a_convex o = true -> b_convex o = true -> surf_collide o = false -> ~ meets. (* FCL convex-convex is complete *)
  Hypothesis H_single : surf_collide o = false -> single_bodies o = true ->
    (meets <-> a_has_b_point o = true \/ b_has_a_point o = true).            (* connected, surfaces apart: nested or disjoint *)
  Hypothesis H_boolean : bool_nonempty o = true <-> meets.                     (* manifold boolean is exact *)

  Theorem cascade_correct : fst (intersects_vol o) = true <-> meets.
  Proof.
    unfold intersects_vol.
    destruct (centre_far o) eqn:E1; cbn [fst].
    { split; [discriminate | intro M; exfalso; exact (H_centre_far eq_refl M)]. }
    destruct (both_scaled o) eqn:Es; cbn [andb negb].
    - destruct (in_near o) eqn:E2; cbn [fst].
      { split; [intros _; apply H_in_near; reflexivity | reflexivity]. }
      destruct (circ_far o) eqn:E3; cbn [fst].
      { split; [discriminate | intro M; exfalso; exact (H_circ_far eq_refl eq_refl M)]. }
      destruct (surf_collide o) eqn:E4; cbn [fst].
      { split; [intros _; apply H_fcl_hit; reflexivity | reflexivity]. }
      destruct (a_convex o && b_convex o) eqn:E5; cbn [fst].
      { apply andb_true_iff in E5. destruct E5 as [Ea Eb].
        split; [discriminate | intro M; exfalso; exact (H_fcl_convex Ea Eb eq_refl M)]. }
      destruct (single_bodies o) eqn:E6; cbn [fst].
      { rewrite orb_true_iff. symmetry. apply H_single; reflexivity. }
      exact H_boolean.
    - destruct (bbox_overlap o) eqn:E2; cbn [negb fst].
      2:{ split; [discriminate | intro M; exfalso; exact (H_bbox eq_refl M)]. }
      destruct (surf_collide o) eqn:E4; cbn [fst].
      { split; [intros _; apply H_fcl_hit; reflexivity | reflexivity]. }
      destruct (a_convex o && b_convex o) eqn:E5; cbn [fst].
      { apply andb_true_iff in E5. destruct E5 as [Ea Eb].
        split; [discriminate | intro M; exfalso; exact (H_fcl_convex Ea Eb eq_refl M)]. }
      destruct (single_bodies o) eqn:E6; cbn [fst].
      { rewrite orb_true_iff. symmetry. apply H_single; reflexivity. }
      exact H_boolean.
  Qed.

  (* "every shortcut gives the same answer as the exhaustive computation" *)
  Corollary cascade_agrees_with_last_pass : fst (intersects_vol o) = bool_nonempty o.
  Proof.
    apply eq_true_iff_eq. rewrite cascade_correct. symmetry. exact H_boolean.
  Qed.
End IntersectsCorrect.

Section ObjIntersectsCorrect.
  Variable meets : Prop.
  Variable o : objoracle.
  Hypothesis H_z : both_planar_boxes o = true -> z_apart o = true -> ~ meets.
  Hypothesis H_poly : both_planar_boxes o = true -> z_apart o = false -> (polys_intersect o = true <-> meets).
  Hypothesis H_vol : both_planar_boxes o = false -> (fst (intersects_vol (vol o)) = true <-> meets).

  Theorem obj_cascade_correct : intersects_obj o = true <-> meets.
  Proof.
    unfold intersects_obj. destruct (both_planar_boxes o) eqn:E.
    - destruct (z_apart o) eqn:Z.
      + split; [discriminate | intro M; exfalso; exact (H_z eq_refl eq_refl M)].
      + apply H_poly; reflexivity.
    - apply H_vol; reflexivity.
  Qed.
End ObjIntersectsCorrect.

Section ContainsCorrect.
  Variable inside : Prop.         (* obj ⊆ container in exact geometry *)
  Variable o : coracle.
  Hypothesis H_bbox : c_bbox_overlap o = false -> ~ inside.
  Hypothesis H_corners : c_convex o = true -> c_bb_corners_in o = true -> inside.       (* hull of the corners ⊇ object *)
  Hypothesis H_vertices : c_convex o = true -> (c_vertices_in o = true <-> inside).     (* halfspaces_contain_hull *)
  Hypothesis H_point_out : c_have_obj_point o = true -> c_obj_point_in o = false -> ~ inside.
  Hypothesis H_ball : c_have_obj_point o = true -> c_obj_point_in o = true -> c_ball_fits o = true -> inside.
  Hypothesis H_too_far : c_have_reg_point o = true -> c_too_far o = true -> ~ inside.
  Hypothesis H_diff : c_diff_empty o = true <-> inside.

  Theorem contains_cascade_correct : fst (contains_obj o) = true <-> inside.
  Proof.
    unfold contains_obj.
    destruct (c_bbox_overlap o) eqn:E1; cbn [negb fst].
    2:{ split; [discriminate | intro M; exfalso; exact (H_bbox eq_refl M)]. }
    destruct (c_convex o) eqn:E2.
    { destruct (c_bb_corners_in o) eqn:E3; cbn [fst].
      - split; [intros _; apply H_corners; reflexivity | reflexivity].
      - apply H_vertices; reflexivity. }
    destruct (c_have_obj_point o) eqn:E4; cbn [andb].
    - destruct (c_obj_point_in o) eqn:E5; cbn [negb fst].
      2:{ split; [discriminate | intro M; exfalso; exact (H_point_out eq_refl eq_refl M)]. }
      destruct (c_ball_fits o) eqn:E6; cbn [fst].
      { split; [intros _; apply H_ball; reflexivity | reflexivity]. }
      destruct (c_have_reg_point o && c_too_far o) eqn:E7; cbn [fst].
      { apply andb_true_iff in E7. destruct E7 as [A B].
        split; [discriminate | intro M; exfalso; exact (H_too_far A B M)]. }
      exact H_diff.
    - destruct (c_have_reg_point o && c_too_far o) eqn:E7; cbn [fst].
      { apply andb_true_iff in E7. destruct E7 as [A B].
        split; [discriminate | intro M; exfalso; exact (H_too_far A B M)]. }
      exact H_diff.
  Qed.
End ContainsCorrect.

Section FootprintCorrect.
  Variable inside : Prop.
  Variable o : foracle.
  Hypothesis H_poly : f_poly_in o = true <-> inside.       (* exact bounding polygon inside the footprint polygon *)
  Hypothesis H_hull : f_hull_in o = true -> inside.        (* the projected convex hull over-approximates it *)
  Theorem footprint_cascade_correct : contains_footprint o = true <-> inside.
  Proof.
    unfold contains_footprint. destruct (f_convex o); [exact H_poly|].
    destruct (f_hull_in o) eqn:E; [|exact H_poly].
    split; [intros _; apply H_hull; reflexivity | reflexivity].
  Qed.
End FootprintCorrect.

(* non-vacuity / reachability: every exit of the cascade is taken by some oracle valuation *)
Example every_pass_reachable :
  snd (intersects_vol (IOr true false false false false false false false false false false false)) = IP1 /\
  snd (intersects_vol (IOr false true true false false false false false false false false false)) = IP2A_in /\
  snd (intersects_vol (IOr false true false true false false false false false false false false)) = IP2A_out /\
  snd (intersects_vol (IOr false false false false false false false false false false false false)) = IP2B /\
  snd (intersects_vol (IOr false true false false true true false false false false false false)) = IP3_hit /\
  snd (intersects_vol (IOr false true false false true false true true false false false false)) = IP3_convex /\
  snd (intersects_vol (IOr false true false false true false true false true true false false)) = IP4 /\
  snd (intersects_vol (IOr false true false false true false false false false false false true)) = IP5.
Proof. repeat split. Qed.

(* the convex early exit needs BOTH regions convex: with "either", a convex object strictly inside one arm of a
   non-convex single-body object (no surface contact, B contains A's interior point, exact boolean non-empty) satisfies
   every hypothesis of [cascade_correct] and yet is reported disjoint *)
Definition nested_witness : ioracle :=
  IOr false true false false true false true false true false true true.

Theorem convex_or_exit_refuted : exists (meets : Prop) (o : ioracle),
  (centre_far o = true -> ~ meets) /\
  (both_scaled o = true -> in_near o = true -> meets) /\
  (both_scaled o = true -> circ_far o = true -> ~ meets) /\
  (bbox_overlap o = false -> ~ meets) /\
  (surf_collide o = true -> meets) /\
  (a_convex o = true -> b_convex o = true -> surf_collide o = false -> ~ meets) /\
  (surf_collide o = false -> single_bodies o = true ->
     (meets <-> a_has_b_point o = true \/ b_has_a_point o = true)) /\
  (bool_nonempty o = true <-> meets) /\
  meets /\ fst (intersects_vol_or o) = false /\ fst (intersects_vol o) = true.
Proof.
  exists True, nested_witness. cbn.
  repeat split; try discriminate; try tauto; auto.
Qed.
