(* Extraction of the C04 certificate checkers and cascade models (ExtrOcamlBasic only). *)
From Coq Require Import QArith List.
From Coq Require Extraction.
From Coq Require Import ExtrOcamlBasic.
From Scenic Require Import C17.Vec C04.Polytope C04.Overlap C04.Nested C04.Planar.
Extraction Language OCaml.
Extraction "model.ml" separates common_point inside_halfspaces vertex_outside inside_clear
  intersects_vol intersects_obj contains_obj contains_footprint Qplus Qdiv Qred Qle_bool
  z_apart_num planar_fast approx approx_flat run_requests.
