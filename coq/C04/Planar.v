(* C04 round 3 — the two pieces of code the second batch of seeded bugs changed, brought into the model:
   (1) the vertical-separation test of the planar-box fast path of Object.intersects
         abs(self.position.z - other.position.z) > (self.height + other.height) / 2
       as a function of the numbers (it was an oracle bit before), with the theorem that for upright prisms
       (footprint x z-interval) the fast path is exact;
   (2) PolygonalFootprintRegion.approxBoundFootprint: the cached slab (centre, height) that is reused when it
       strictly covers the requested z-interval, otherwise rebuilt with a padded height; the invariant "the
       recorded height is the height of the slab actually built" is what makes every answer of a HISTORY of
       requests cover its request.  The variant that records the padded height but builds the slab with the
       requested one is refuted by a two-step history. *)
From Coq Require Import QArith Qabs Bool List Lqa.
Import ListNotations.
Local Open Scope Q_scope.

Definition half (x : Q) : Q := x * (1 # 2).

(* ------------------------------------------------------------------ (1) z-interval test *)
Definition z_apart_num (za ha zb hb : Q) : bool :=
  negb (Qle_bool (za - zb) (half (ha + hb))) || negb (Qle_bool (zb - za) (half (ha + hb))).

Definition in_ival (z h t : Q) : Prop := z - half h <= t /\ t <= z + half h.
Definition ivals_meet (za ha zb hb : Q) : Prop := exists t, in_ival za ha t /\ in_ival zb hb t.

(* an upright prism: a footprint (any set of the plane) times the z-interval of the object *)
Definition prism (F : Q -> Q -> Prop) (z h : Q) (x y t : Q) : Prop := F x y /\ in_ival z h t.
Definition prisms_meet (FA FB : Q -> Q -> Prop) (za ha zb hb : Q) : Prop :=
  exists x y t, prism FA za ha x y t /\ prism FB zb hb x y t.

Definition planar_fast (za ha zb hb : Q) (polys : bool) : bool :=
  if z_apart_num za ha zb hb then false else polys.

(* the seeded variant: half-heights summed AND halved again, i.e. a quarter of the summed heights *)
Definition z_apart_quarter (za ha zb hb : Q) : bool :=
  negb (Qle_bool (za - zb) (half (half ha + half hb))) || negb (Qle_bool (zb - za) (half (half ha + half hb))).

(* ------------------------------------------------------------------ (2) cached slab of a footprint *)
(* a slab is its z-extent: centre and height; [built]: what the mesh really spans, [claimed]: what the cache records *)
Record slab := Slab { s_c : Q; s_h : Q }.
Record cache := Cache { claimed : slab; built : slab }.

Definition covers_strict (s : slab) (c h : Q) : bool :=
  negb (Qle_bool (s_c s + half (s_h s)) (c + half h)) && negb (Qle_bool (c - half h) (s_c s - half (s_h s))).

Definition qmax1 (c : Q) : Q := if Qle_bool c 1 then 1 else c.
Definition pad (c h : Q) : Q := 100 * qmax1 c * h.

(* approxBoundFootprint(centerZ, height): returns the slab handed out and the new cache *)
Definition approx_with (padf build_h : Q -> Q -> Q) (st : option cache) (c h : Q) : slab * option cache :=
  match st with
  | Some k => if covers_strict (claimed k) c h then (built k, st)
              else let k' := Cache (Slab c (padf c h)) (Slab c (build_h c h)) in (built k', Some k')
  | None => let k' := Cache (Slab c (padf c h)) (Slab c (build_h c h)) in (built k', Some k')
  end.
Definition approx := approx_with pad pad.                       (* the code: boundFootprint(centerZ, padded_height) *)
Definition pad_flat (c h : Q) : Q := 100 * h.                   (* branch fix-C04-footprint-slab-padding (finding C04-F2) *)
Definition approx_flat := approx_with pad_flat pad_flat.
Definition approx_seeded := approx_with pad (fun _ h => h).     (* boundFootprint(centerZ, height), cache says padded *)

Fixpoint run_requests (f : option cache -> Q -> Q -> slab * option cache) (st : option cache) (reqs : list (Q * Q))
  : list slab :=
  match reqs with
  | [] => []
  | (c, h) :: r => let '(s, st') := f st c h in s :: run_requests f st' r
  end.

Definition slab_covers (s : slab) (c h : Q) : Prop :=
  s_c s - half (s_h s) <= c - half h /\ c + half h <= s_c s + half (s_h s).
Definition cache_ok (st : option cache) : Prop :=
  match st with None => True | Some k => s_c (claimed k) == s_c (built k) /\ s_h (claimed k) == s_h (built k) end.

(* ------------------------------------------------------------------ proofs *)
Lemma nle_bool : forall x y, negb (Qle_bool x y) = true <-> y < x.
Proof.
  intros. rewrite negb_true_iff. split; intro H.
  - destruct (Qlt_le_dec y x) as [L | L]; auto. apply Qle_bool_iff in L. congruence.
  - destruct (Qle_bool x y) eqn:E; auto. apply Qle_bool_iff in E. exfalso. apply (Qlt_not_le _ _ H E).
Qed.

Lemma nle_bool_false : forall x y, negb (Qle_bool x y) = false <-> x <= y.
Proof. intros. rewrite negb_false_iff. apply Qle_bool_iff. Qed.

Lemma z_apart_false_iff : forall za ha zb hb, 0 <= ha -> 0 <= hb ->
  (z_apart_num za ha zb hb = false <-> ivals_meet za ha zb hb).
Proof.
  intros za ha zb hb Ha Hb. unfold z_apart_num, ivals_meet, in_ival, half.
  rewrite orb_false_iff, !nle_bool_false. split.
  - intros [H1 H2]. destruct (Qlt_le_dec (za - ha * (1 # 2)) (zb - hb * (1 # 2))) as [L | L].
    + exists (zb - hb * (1 # 2)). repeat split; lra.
    + exists (za - ha * (1 # 2)). repeat split; lra.
  - intros [t [[A B] [C D]]]. split; lra.
Qed.

Lemma z_apart_true_disjoint : forall za ha zb hb, 0 <= ha -> 0 <= hb ->
  z_apart_num za ha zb hb = true -> ~ ivals_meet za ha zb hb.
Proof.
  intros za ha zb hb Ha Hb H M. apply (z_apart_false_iff za ha zb hb Ha Hb) in M. congruence.
Qed.

Lemma prisms_meet_iff : forall FA FB za ha zb hb,
  prisms_meet FA FB za ha zb hb <-> ((exists x y, FA x y /\ FB x y) /\ ivals_meet za ha zb hb).
Proof.
  intros. unfold prisms_meet, prism, ivals_meet. split.
  - intros [x [y [t [[A I] [B J]]]]]. split; [exists x, y; auto | exists t; auto].
  - intros [[x [y [A B]]] [t [I J]]]. exists x, y, t. auto.
Qed.

Theorem planar_fast_correct : forall FA FB za ha zb hb polys, 0 <= ha -> 0 <= hb ->
  (polys = true <-> exists x y, FA x y /\ FB x y) ->
  (planar_fast za ha zb hb polys = true <-> prisms_meet FA FB za ha zb hb).
Proof.
  intros FA FB za ha zb hb polys Ha Hb HP. unfold planar_fast. rewrite prisms_meet_iff.
  destruct (z_apart_num za ha zb hb) eqn:Z.
  - split; [discriminate |]. intros [_ M]. exfalso. exact (z_apart_true_disjoint _ _ _ _ Ha Hb Z M).
  - apply (z_apart_false_iff za ha zb hb Ha Hb) in Z. rewrite HP. tauto.
Qed.

Theorem z_apart_symmetric : forall za ha zb hb, z_apart_num za ha zb hb = z_apart_num zb hb za ha.
Proof.
  intros. unfold z_apart_num. rewrite orb_comm.
  assert (E : half (ha + hb) == half (hb + ha)) by (unfold half; lra).
  destruct (Qle_bool (zb - za) (half (ha + hb))) eqn:A, (Qle_bool (zb - za) (half (hb + ha))) eqn:B,
           (Qle_bool (za - zb) (half (ha + hb))) eqn:C, (Qle_bool (za - zb) (half (hb + ha))) eqn:D; auto;
    try (apply Qle_bool_iff in A; rewrite E in A; apply Qle_bool_iff in A; congruence);
    try (apply Qle_bool_iff in B; rewrite <- E in B; apply Qle_bool_iff in B; congruence);
    try (apply Qle_bool_iff in C; rewrite E in C; apply Qle_bool_iff in C; congruence);
    try (apply Qle_bool_iff in D; rewrite <- E in D; apply Qle_bool_iff in D; congruence).
Qed.

(* partially stacked boxes: the quarter test calls them apart although their z-intervals (and prisms) meet *)
Theorem z_apart_quarter_refuted : exists za ha zb hb, 0 <= ha /\ 0 <= hb /\
  ivals_meet za ha zb hb /\ z_apart_num za ha zb hb = false /\ z_apart_quarter za ha zb hb = true.
Proof.
  exists 0, 2, (3 # 2), 2. repeat split; try (vm_compute; congruence).
  exists 1. unfold in_ival, half. repeat split; lra.
Qed.

(* ---- cache *)
Lemma covers_strict_sound : forall s c h, covers_strict s c h = true -> slab_covers s c h.
Proof.
  intros s c h H. unfold covers_strict in H. apply andb_true_iff in H. destruct H as [A B].
  apply nle_bool in A. apply nle_bool in B. unfold slab_covers. split; lra.
Qed.

Lemma qmax1_ge1 : forall c, 1 <= qmax1 c.
Proof.
  intro c. unfold qmax1. destruct (Qle_bool c 1) eqn:E; [lra |].
  destruct (Qlt_le_dec 1 c) as [L | L]; [lra |]. apply Qle_bool_iff in L. congruence.
Qed.

Lemma pad_ge : forall c h, 0 <= h -> h <= pad c h.
Proof.
  intros c h Hh. unfold pad. pose proof (qmax1_ge1 c) as M.
  assert (0 <= (qmax1 c - 1) * h) by (apply Qmult_le_0_compat; lra). nra.
Qed.

Lemma pad_flat_ge : forall c h, 0 <= h -> h <= pad_flat c h.
Proof. intros c h Hh. unfold pad_flat. lra. Qed.

Definition pad_ok (padf : Q -> Q -> Q) : Prop := forall c h, 0 <= h -> h <= padf c h.

Lemma fresh_covers : forall padf c h, pad_ok padf -> 0 <= h -> slab_covers (Slab c (padf c h)) c h.
Proof.
  intros padf c h P Hh. pose proof (P c h Hh). unfold slab_covers, half. simpl. split; lra.
Qed.

Lemma slab_covers_compat : forall s s' c h, s_c s == s_c s' -> s_h s == s_h s' -> slab_covers s c h -> slab_covers s' c h.
Proof. intros s s' c h E1 E2 [A B]. unfold slab_covers, half in *. split; lra. Qed.

Lemma approx_step : forall padf st c h, pad_ok padf -> 0 <= h -> cache_ok st ->
  slab_covers (fst (approx_with padf padf st c h)) c h /\ cache_ok (snd (approx_with padf padf st c h)).
Proof.
  intros padf st c h P Hh OK. unfold approx_with. destruct st as [k |].
  - destruct (covers_strict (claimed k) c h) eqn:E; simpl.
    + split; auto. destruct OK as [E1 E2]. apply (slab_covers_compat (claimed k)); auto.
      apply covers_strict_sound; auto.
    + split; [apply fresh_covers; auto | split; reflexivity].
  - simpl. split; [apply fresh_covers; auto | split; reflexivity].
Qed.

(* over every history of requests with non-negative heights, every slab handed out covers its request -- for EVERY padding rule
   that does not shrink the request, as long as the slab built is the slab recorded *)
Theorem approx_gen_history_covers : forall padf, pad_ok padf ->
  forall reqs st, cache_ok st -> Forall (fun r => 0 <= snd r) reqs ->
  Forall2 (fun s r => slab_covers s (fst r) (snd r)) (run_requests (approx_with padf padf) st reqs) reqs.
Proof.
  intros padf P. induction reqs as [| [c h] reqs IH]; intros st OK F; simpl; [constructor |].
  inversion F as [| ? ? Hh F']; subst. simpl in Hh.
  destruct (approx_step padf st c h P Hh OK) as [A B].
  destruct (approx_with padf padf st c h) as [s st'] eqn:E. simpl in *. constructor; auto.
Qed.

Theorem approx_history_covers : forall reqs st, cache_ok st -> Forall (fun r => 0 <= snd r) reqs ->
  Forall2 (fun s r => slab_covers s (fst r) (snd r)) (run_requests approx st reqs) reqs.
Proof. exact (approx_gen_history_covers pad pad_ge). Qed.

Theorem approx_flat_history_covers : forall reqs st, cache_ok st -> Forall (fun r => 0 <= snd r) reqs ->
  Forall2 (fun s r => slab_covers s (fst r) (snd r)) (run_requests approx_flat st reqs) reqs.
Proof. exact (approx_gen_history_covers pad_flat pad_flat_ge). Qed.

(* the seeded variant: second request far above the first one, inside the claimed range, outside the slab really built *)
Theorem approx_seeded_refuted : exists reqs, Forall (fun r => 0 <= snd r) reqs /\
  ~ Forall2 (fun s r => slab_covers s (fst r) (snd r)) (run_requests approx_seeded None reqs) reqs.
Proof.
  exists [(0, 3); (30, 3)]. split; [repeat constructor; simpl; lra |].
  intro F. inversion F as [| ? ? ? ? _ F1]; subst. inversion F1 as [| ? ? ? ? C _]; subst.
  unfold slab_covers, half in C. simpl in C. destruct C as [_ C]. vm_compute in C. apply C. reflexivity.
Qed.

Example approx_reuses_cache :
  run_requests approx None [(0, 3); (30, 3); (-20, 2)] = [Slab 0 (pad 0 3); Slab 0 (pad 0 3); Slab 0 (pad 0 3)].
Proof. vm_compute. reflexivity. Qed.
