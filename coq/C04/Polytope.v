(* C04 — exact geometry over Q used to judge Scenic's overlap / containment tests:
   (a) certificate checkers for convex polytopes given by vertex lists (separating plane, common
       point, inside half-spaces) and their soundness;
   (b) the geometric facts behind the shortcuts of MeshVolumeRegion.intersects / containsObject
       (bounding spheres far apart, inscribed balls close, bounding boxes apart), with squared
       distances so that no square root is needed.
   Axiom-free.  Vectors are coq/C17/Vec.v's. *)
From Coq Require Import QArith Qabs List Bool Lqa Lia.
From Scenic Require Import C17.Vec.
Import ListNotations.
Open Scope Q_scope.

(* ------------------------------------------------------------------ convex combinations *)
Fixpoint comb (ws : list Q) (vs : list vec) : vec :=
  match ws, vs with
  | w :: ws', v :: vs' => vadd (vscale w v) (comb ws' vs')
  | _, _ => vzero
  end.
Fixpoint qsum (ws : list Q) : Q := match ws with [] => 0 | w :: r => w + qsum r end.
Definition nonneg (ws : list Q) : Prop := forall w, In w ws -> 0 <= w.
Definition is_conv (ws : list Q) (vs : list vec) : Prop :=
  length ws = length vs /\ nonneg ws /\ qsum ws == 1.
Definition in_hull (vs : list vec) (p : vec) : Prop := exists ws, is_conv ws vs /\ veq p (comb ws vs).

(* ------------------------------------------------------------------ checkers (computable) *)
Definition nonnegb (ws : list Q) : bool := forallb (fun w => Qle_bool 0 w) ws.
Definition is_convb (ws : list Q) (vs : list vec) : bool :=
  Nat.eqb (length ws) (length vs) && nonnegb ws && Qeq_bool (qsum ws) 1.

(* plane n.x = d with margin m > 0: every vertex of A at or below d - m, every vertex of B at or above d + m *)
Definition separates (n : vec) (d m : Q) (A B : list vec) : bool :=
  Qle_bool 0 m && negb (Qeq_bool m 0) &&
  forallb (fun a => Qle_bool (dot n a) (d - m)) A && forallb (fun b => Qle_bool (d + m) (dot n b)) B.

Definition linf_le (p q : vec) (e : Q) : bool :=
  Qle_bool (Qabs (vx p - vx q)) e && Qle_bool (Qabs (vy p - vy q)) e && Qle_bool (Qabs (vz p - vz q)) e.

(* one point of hull A and one of hull B within e of each other (e = 0: a common point) *)
Definition common_point (e : Q) (la mu : list Q) (A B : list vec) : bool :=
  is_convb la A && is_convb mu B && linf_le (comb la A) (comb mu B) e.

(* every vertex of A inside every half-space n.x <= d of H, with slack m *)
Definition inside_halfspaces (m : Q) (H : list (vec * Q)) (A : list vec) : bool :=
  forallb (fun h => forallb (fun a => Qle_bool (dot (fst h) a) (snd h - m)) A) H.
(* some vertex of A violates some half-space of H by more than m *)
Definition vertex_outside (m : Q) (H : list (vec * Q)) (A : list vec) : bool :=
  existsb (fun h => existsb (fun a => Qle_bool (snd h + m) (dot (fst h) a)) A) H.

(* ------------------------------------------------------------------ linear functionals on combinations *)
Lemma dot_comb_le : forall n c ws vs, nonneg ws -> length ws = length vs ->
  (forall v, In v vs -> dot n v <= c) -> dot n (comb ws vs) <= qsum ws * c.
Proof.
  intros n c ws. induction ws as [|w ws IH]; intros vs Hn Hl Hv.
  - cbn. unfold dot, vzero; cbn. lra.
  - destruct vs as [|v vs]; [discriminate|]. cbn [comb qsum].
    assert (E : dot n (vadd (vscale w v) (comb ws vs)) == w * dot n v + dot n (comb ws vs))
      by (unfold dot, vadd, vscale; cbn [vx vy vz]; ring).
    rewrite E.
    assert (Hw : 0 <= w) by (apply Hn; left; reflexivity).
    assert (H1 : w * dot n v <= w * c).
    { rewrite (Qmult_comm w (dot n v)), (Qmult_comm w c). apply Qmult_le_compat_r; [apply Hv; left; reflexivity | exact Hw]. }
    assert (H2 : dot n (comb ws vs) <= qsum ws * c).
    { apply IH; [intros x Hx; apply Hn; right; exact Hx | injection Hl; auto | intros x Hx; apply Hv; right; exact Hx]. }
    lra.
Qed.

Lemma dot_comb_ge : forall n c ws vs, nonneg ws -> length ws = length vs ->
  (forall v, In v vs -> c <= dot n v) -> qsum ws * c <= dot n (comb ws vs).
Proof.
  intros n c ws vs Hn Hl Hv.
  pose proof (dot_comb_le (V3 (- vx n) (- vy n) (- vz n)) (- c) ws vs Hn Hl) as H.
  assert (Hv' : forall v, In v vs -> dot (V3 (- vx n) (- vy n) (- vz n)) v <= - c).
  { intros v Hin. specialize (Hv v Hin). unfold dot in *; cbn [vx vy vz] in *. lra. }
  specialize (H Hv'). unfold dot in *; cbn [vx vy vz] in *. lra.
Qed.

Lemma nonnegb_ok : forall ws, nonnegb ws = true -> nonneg ws.
Proof.
  intros ws H w Hin. unfold nonnegb in H. rewrite forallb_forall in H. apply Qle_bool_iff. apply H; exact Hin.
Qed.

Lemma is_convb_ok : forall ws vs, is_convb ws vs = true -> is_conv ws vs.
Proof.
  intros ws vs H. unfold is_convb in H. rewrite !andb_true_iff in H. destruct H as [[H1 H2] H3].
  repeat split; [apply Nat.eqb_eq; exact H1 | apply nonnegb_ok; exact H2 | apply Qeq_bool_iff; exact H3].
Qed.

Lemma dot_veq_r : forall n p q, veq p q -> dot n p == dot n q.
Proof. intros n p q H. apply dot_veq; [apply veq_refl | exact H]. Qed.

(* ------------------------------------------------------------------ certificate soundness *)
(* a separating plane with positive margin: the two hulls have no common point (indeed stay 2m/|n| apart) *)
Theorem separates_sound : forall n d m A B,
  separates n d m A B = true -> forall p, in_hull A p -> in_hull B p -> False.
Proof.
  intros n d m A B H p [la [[La [Na Sa]] Pa]] [mu [[Lb [Nb Sb]] Pb]].
  unfold separates in H. rewrite !andb_true_iff in H. destruct H as [[[M0 M1] HA] HB].
  apply Qle_bool_iff in M0. apply negb_true_iff in M1.
  assert (Mpos : 0 < m).
  { destruct (Qlt_le_dec 0 m) as [L|L]; auto. exfalso.
    assert (E : m == 0) by lra. apply Qeq_bool_iff in E. congruence. }
  rewrite forallb_forall in HA, HB.
  assert (UA : dot n (comb la A) <= qsum la * (d - m))
    by (apply dot_comb_le; auto; intros v Hv; apply Qle_bool_iff; apply HA; exact Hv).
  assert (UB : qsum mu * (d + m) <= dot n (comb mu B))
    by (apply dot_comb_ge; auto; intros v Hv; apply Qle_bool_iff; apply HB; exact Hv).
  rewrite Sa in UA. rewrite Sb in UB.
  rewrite <- (dot_veq_r n _ _ Pa) in UA. rewrite <- (dot_veq_r n _ _ Pb) in UB. lra.
Qed.

Theorem common_point_sound : forall e la mu A B,
  common_point e la mu A B = true ->
  exists p q, in_hull A p /\ in_hull B q /\
    Qabs (vx p - vx q) <= e /\ Qabs (vy p - vy q) <= e /\ Qabs (vz p - vz q) <= e.
Proof.
  intros e la mu A B H. unfold common_point in H. rewrite !andb_true_iff in H.
  destruct H as [[Ha Hb] Hl]. unfold linf_le in Hl. rewrite !andb_true_iff, !Qle_bool_iff in Hl.
  exists (comb la A), (comb mu B). repeat split; try tauto.
  - exists la; split; [apply is_convb_ok; exact Ha | apply veq_refl].
  - exists mu; split; [apply is_convb_ok; exact Hb | apply veq_refl].
Qed.

(* a convex polytope given as an intersection of half-spaces that contains (with slack >= 0) every
   vertex of A contains the whole hull of A: checking the vertices (pass 2 of containsObject) suffices *)
Definition in_halfspaces (H : list (vec * Q)) (p : vec) : Prop := forall h, In h H -> dot (fst h) p <= snd h.

Theorem halfspaces_contain_hull : forall m H A, 0 <= m ->
  inside_halfspaces m H A = true -> forall p, in_hull A p -> in_halfspaces H p.
Proof.
  intros m H A Hm Hin p [ws [[L [N S]] P]] h Hh.
  unfold inside_halfspaces in Hin. rewrite forallb_forall in Hin. specialize (Hin h Hh).
  rewrite forallb_forall in Hin.
  assert (U : dot (fst h) (comb ws A) <= qsum ws * (snd h - m))
    by (apply dot_comb_le; auto; intros v Hv; apply Qle_bool_iff; apply Hin; exact Hv).
  rewrite S in U. rewrite (dot_veq_r _ _ _ P). lra.
Qed.

(* a vertex outside one of the container's half-spaces: the object is not contained *)
Theorem vertex_outside_sound : forall m H A, 0 < m ->
  vertex_outside m H A = true -> exists a, In a A /\ ~ in_halfspaces H a.
Proof.
  intros m H A Hm Hv. unfold vertex_outside in Hv. apply existsb_exists in Hv.
  destruct Hv as [h [Hh Hv]]. apply existsb_exists in Hv. destruct Hv as [a [Ha L]].
  apply Qle_bool_iff in L. exists a; split; [exact Ha|]. intro C. specialize (C h Hh). lra.
Qed.

(* ------------------------------------------------------------------ geometry of the shortcuts *)
Definition dist2 (p q : vec) : Q := dot (vsub p q) (vsub p q).
Definition in_ball (c : vec) (r : Q) (p : vec) : Prop := dist2 p c <= r * r.

Lemma sq_nonneg : forall x : Q, 0 <= x * x.
Proof. intro x. nra. Qed.

Lemma cauchy_schwarz : forall u v, dot u v * dot u v <= dot u u * dot v v.
Proof.
  intros [a b c] [x y z]. unfold dot; cbn [vx vy vz].
  assert (E : (a*a+b*b+c*c)*(x*x+y*y+z*z) - (a*x+b*y+c*z)*(a*x+b*y+c*z)
              == (a*y-b*x)*(a*y-b*x) + (a*z-c*x)*(a*z-c*x) + (b*z-c*y)*(b*z-c*y)) by ring.
  pose proof (sq_nonneg (a*y-b*x)). pose proof (sq_nonneg (a*z-c*x)). pose proof (sq_nonneg (b*z-c*y)).
  lra.
Qed.

(* PASS 1 / 2A-out: two sets inside closed balls whose centres are farther apart than the sum of the
   radii are disjoint  (|c1 c2| > R1 + R2  stated as  |c1 c2|^2 > (R1+R2)^2 with R1, R2 >= 0) *)
Theorem far_spheres_disjoint : forall (A B : vec -> Prop) c1 c2 R1 R2,
  0 <= R1 -> 0 <= R2 ->
  (forall p, A p -> in_ball c1 R1 p) -> (forall p, B p -> in_ball c2 R2 p) ->
  (R1 + R2) * (R1 + R2) < dist2 c1 c2 ->
  forall p, A p -> B p -> False.
Proof.
  intros A B c1 c2 R1 R2 H1 H2 HA HB Hfar p Ap Bp.
  specialize (HA p Ap). specialize (HB p Bp). unfold in_ball, dist2 in *.
  set (u := vsub p c1) in *. set (v := vsub c2 p).
  assert (Ev : dot (vsub p c2) (vsub p c2) == dot v v)
    by (unfold v, dot, vsub; cbn [vx vy vz]; ring).
  assert (Ec : dot (vsub c1 c2) (vsub c1 c2) == dot u u + dot v v + 2 * dot u v)
    by (unfold u, v, dot, vsub; cbn [vx vy vz]; ring).
  pose proof (cauchy_schwarz u v) as CS.
  rewrite Ev in HB. rewrite Ec in Hfar.
  assert (P : 0 <= R1 * R2) by (apply Qmult_le_0_compat; assumption).
  assert (UV : dot u v <= R1 * R2).
  { apply Qnot_lt_le. intro L.
    assert (S : (R1 * R2) * (R1 * R2) < dot u v * dot u v) by nra.
    assert (T : dot u u * dot v v <= (R1 * R1) * (R2 * R2)).
    { pose proof (sq_nonneg R1). pose proof (sq_nonneg R2).
      assert (0 <= dot u u) by (unfold dot; nra). assert (0 <= dot v v) by (unfold dot; nra). nra. }
    nra. }
  nra.
Qed.

(* PASS 2A-in: closed balls inside A and B whose centres are closer than the sum of the radii: a
   common point of A and B is exhibited on the segment between the centres *)
Theorem near_inballs_meet : forall (A B : vec -> Prop) p1 p2 r1 r2,
  0 <= r1 -> 0 <= r2 ->
  (forall p, in_ball p1 r1 p -> A p) -> (forall p, in_ball p2 r2 p -> B p) ->
  dist2 p1 p2 < (r1 + r2) * (r1 + r2) ->
  exists p, A p /\ B p.
Proof.
  intros A B p1 p2 r1 r2 H1 H2 HA HB Hn.
  assert (S : 0 < r1 + r2).
  { destruct (Qlt_le_dec 0 (r1 + r2)); auto. exfalso.
    assert (E : r1 + r2 == 0) by lra. rewrite E in Hn.
    assert (0 <= dist2 p1 p2) by (unfold dist2, dot; nra). lra. }
  set (t := r1 / (r1 + r2)).
  set (q := vadd p1 (vscale t (vsub p2 p1))).
  assert (Et : t * (r1 + r2) == r1) by (unfold t; field; intro Z; rewrite Z in S; apply (Qlt_irrefl _ S)).
  assert (T0 : 0 <= t) by (unfold t; apply Qle_shift_div_l; lra).
  assert (T1 : t <= 1) by (unfold t; apply Qle_shift_div_r; lra).
  assert (D1 : dist2 q p1 == t * t * dist2 p1 p2)
    by (unfold q, dist2, dot, vsub, vadd, vscale; cbn [vx vy vz]; ring).
  assert (D2 : dist2 q p2 == (1 - t) * (1 - t) * dist2 p1 p2)
    by (unfold q, dist2, dot, vsub, vadd, vscale; cbn [vx vy vz]; ring).
  assert (Dn : 0 <= dist2 p1 p2) by (unfold dist2, dot; nra).
  exists q. split.
  - apply HA. unfold in_ball. rewrite D1.
    assert (X : t * t * ((r1 + r2) * (r1 + r2)) == r1 * r1)
      by (transitivity ((t * (r1 + r2)) * (t * (r1 + r2))); [ring | rewrite Et; reflexivity]).
    assert (0 <= t * t) by nra. nra.
  - apply HB. unfold in_ball. rewrite D2.
    assert (E2 : (1 - t) * (r1 + r2) == r2) by lra.
    assert (X : (1 - t) * (1 - t) * ((r1 + r2) * (r1 + r2)) == r2 * r2)
      by (transitivity (((1 - t) * (r1 + r2)) * ((1 - t) * (r1 + r2))); [ring | rewrite E2; reflexivity]).
    assert (0 <= (1 - t) * (1 - t)) by nra. nra.
Qed.

(* PASS 2B: sets inside axis-aligned boxes that do not overlap in some dimension are disjoint *)
Definition in_box (lo hi : vec) (p : vec) : Prop :=
  vx lo <= vx p /\ vx p <= vx hi /\ vy lo <= vy p /\ vy p <= vy hi /\ vz lo <= vz p /\ vz p <= vz hi.
Definition boxes_overlap (lo1 hi1 lo2 hi2 : vec) : bool :=
  Qle_bool (vx lo1) (vx hi2) && Qle_bool (vx lo2) (vx hi1) &&
  Qle_bool (vy lo1) (vy hi2) && Qle_bool (vy lo2) (vy hi1) &&
  Qle_bool (vz lo1) (vz hi2) && Qle_bool (vz lo2) (vz hi1).

Theorem bbox_disjoint : forall (A B : vec -> Prop) lo1 hi1 lo2 hi2,
  (forall p, A p -> in_box lo1 hi1 p) -> (forall p, B p -> in_box lo2 hi2 p) ->
  boxes_overlap lo1 hi1 lo2 hi2 = false -> forall p, A p -> B p -> False.
Proof.
  intros A B lo1 hi1 lo2 hi2 HA HB Hb p Ap Bp.
  destruct (HA p Ap) as (a1 & a2 & a3 & a4 & a5 & a6). destruct (HB p Bp) as (b1 & b2 & b3 & b4 & b5 & b6).
  assert (T : boxes_overlap lo1 hi1 lo2 hi2 = true).
  { unfold boxes_overlap. rewrite !andb_true_iff, !Qle_bool_iff. repeat split; lra. }
  congruence.
Qed.
