(* Extraction of the C06 model to OCaml (volume path of the correspondence check).
   Directives: ExtrOcamlBasic only; Z, N, positive, nat stay the extracted inductive types. *)
From Coq Require Import ZArith NArith List.
From Coq Require Extraction.
From Coq Require Import ExtrOcamlBasic.
From Scenic Require Import C06.Specifier.
Extraction Language OCaml.
Extraction "model.ml" resolve_gen resolve resolve_old merge_defaults lookup supplier.
