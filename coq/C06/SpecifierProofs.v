(* C06 — lemmas about the model of specifier resolution (coq/C06/Specifier.v). *)
From Coq Require Import ZArith NArith List Bool Lia Permutation.
From Scenic Require Import C06.Specifier.
Import ListNotations.
Open Scope Z_scope.

(* ------------------------------------------------------------------ basics *)
Lemma memN_In : forall x l, memN x l = true <-> In x l.
Proof.
  intros x l. unfold memN. rewrite existsb_exists. split.
  - intros [y [Hy E]]. apply N.eqb_eq in E. subst. exact Hy.
  - intros H. exists x. split; [exact H | apply N.eqb_refl].
Qed.

Lemma memN_false : forall x l, memN x l = false <-> ~ In x l.
Proof.
  intros x l. rewrite <- memN_In. destruct (memN x l); split; intros; congruence.
Qed.

Lemma mem_pz_In : forall x l, mem_pz x l = true <-> In x l.
Proof.
  intros [p k] l. unfold mem_pz. rewrite existsb_exists. split.
  - intros [[q j] [Hy E]]. cbn in E. apply andb_true_iff in E. destruct E as [E1 E2].
    apply N.eqb_eq in E1. apply Z.eqb_eq in E2. subst. exact Hy.
  - intros H. exists (p, k). split; [exact H|]. cbn. rewrite N.eqb_refl, Z.eqb_refl. reflexivity.
Qed.

Lemma spec_eqb_eq : forall a b, spec_eqb a b = true <-> a = b.
Proof. intros a b. unfold spec_eqb. destruct (spec_eq_dec a b); split; intros; congruence. Qed.

Lemma mem_spec_In : forall x l, mem_spec x l = true <-> In x l.
Proof.
  intros x l. unfold mem_spec. rewrite existsb_exists. split.
  - intros [y [Hy E]]. apply spec_eqb_eq in E. subst. exact Hy.
  - intros H. exists x. split; [exact H | apply spec_eqb_eq; reflexivity].
Qed.

Lemma mem_spec_false : forall x l, mem_spec x l = false <-> ~ In x l.
Proof.
  intros x l. rewrite <- mem_spec_In. destruct (mem_spec x l); split; intros; congruence.
Qed.

Lemma lookup_set_eq : forall V (m : amap V) p v, lookup (set p v m) p = Some v.
Proof. intros. unfold set. cbn. rewrite N.eqb_refl. reflexivity. Qed.

Lemma lookup_set_neq : forall V (m : amap V) p q v, q <> p -> lookup (set p v m) q = lookup m q.
Proof. intros. unfold set. cbn. apply N.eqb_neq in H. rewrite H. reflexivity. Qed.

Lemma nodupb_NoDup : forall l, nodupb l = true <-> NoDup l.
Proof.
  induction l as [|x r IH]; cbn.
  - split; intros; [constructor | reflexivity].
  - rewrite andb_true_iff, negb_true_iff, memN_false, IH. split.
    + intros [A B]. constructor; assumption.
    + intros H. inversion H; subst. split; assumption.
Qed.

Lemma NoDup_snoc : forall A (l : list A) x, NoDup (l ++ [x]) <-> NoDup l /\ ~ In x l.
Proof.
  intros A l x. split.
  - intros H. assert (P : Permutation (l ++ [x]) (x :: l)) by (symmetry; apply Permutation_cons_append).
    apply (Permutation_NoDup P) in H. inversion H; subst. split; assumption.
  - intros [H1 H2]. apply (Permutation_NoDup (Permutation_cons_append l x)). constructor; assumption.
Qed.

Lemma NoDup_map_inj : forall A B (f : A -> B) l a b,
  NoDup (map f l) -> In a l -> In b l -> f a = f b -> a = b.
Proof.
  induction l as [|x r IH]; cbn; intros a b ND Ha Hb E; [contradiction|].
  inversion ND as [|? ? Hn ND']; subst.
  destruct Ha as [Ha|Ha], Hb as [Hb|Hb]; subst.
  - reflexivity.
  - exfalso. apply Hn. rewrite E. apply in_map. exact Hb.
  - exfalso. apply Hn. rewrite <- E. apply in_map. exact Ha.
  - eapply IH; eauto.
Qed.

Lemma Permutation_filter' : forall A (f : A -> bool) l l',
  Permutation l l' -> Permutation (filter f l) (filter f l').
Proof.
  intros A f l l' P. induction P; cbn.
  - constructor.
  - destruct (f x); [constructor|]; assumption.
  - destruct (f x), (f y); try apply perm_swap; apply Permutation_refl.
  - eapply Permutation_trans; eassumption.
Qed.

(* ------------------------------------------------------------------ step 1 (repaired) *)
Definition pk (t : triple) : prop * Z := (snd (fst t), snd t).
Definition tprop (t : triple) : prop := snd (fst t).
Definition tspec (t : triple) : spec := fst (fst t).

(* the specification of step 1: [s] gives [p] priority number [k], and nobody gives a lower one *)
Definition best (T : list triple) (p : prop) (s : spec) (k : Z) : Prop :=
  In (s, p, k) T /\ forall s' k', In (s', p, k') T -> k <= k'.
Definition nofinal (finals : list prop) (T : list triple) : Prop :=
  forall t, In t T -> ~ In (tprop t) finals.
Definition tie_free (T : list triple) : Prop := NoDup (map pk T).

(* [m] records exactly the unique best specifier of every property mentioned in [T] *)
Definition winners (T : list triple) (m : pmap) : Prop :=
  forall p, match lookup m p with
            | Some (s, k) => best T p s k
            | None => forall s k, ~ In (s, p, k) T
            end.

Lemma winners_step : forall Pre m s p k,
  winners Pre m ->
  winners (Pre ++ [(s, p, k)])
    (match lookup m p with
     | Some (_, k0) => if k <? k0 then set p (s, k) m else m
     | None => set p (s, k) m
     end).
Proof.
  intros Pre m s p k W q.
  assert (Hin : forall s' q' k', In (s', q', k') (Pre ++ [(s, p, k)]) <->
                                 In (s', q', k') Pre \/ (s', q', k') = (s, p, k)).
  { intros. rewrite in_app_iff. cbn. intuition congruence. }
  destruct (N.eq_dec q p) as [->|Hq].
  - pose proof (W p) as Wp.
    destruct (lookup m p) as [[s0 k0]|] eqn:E.
    + destruct (k <? k0) eqn:L.
      * rewrite lookup_set_eq. split.
        -- apply Hin. right. reflexivity.
        -- intros s' k' H. apply Hin in H. destruct H as [H|H].
           ++ destruct Wp as [_ Wm]. apply Wm in H. apply Z.ltb_lt in L. lia.
           ++ inversion H. lia.
      * rewrite E. destruct Wp as [Wi Wm]. split.
        -- apply Hin. left. exact Wi.
        -- intros s' k' H. apply Hin in H. destruct H as [H|H].
           ++ eapply Wm; eauto.
           ++ inversion H. subst. apply Z.ltb_ge in L. lia.
    + rewrite lookup_set_eq. split.
      * apply Hin. right. reflexivity.
      * intros s' k' H. apply Hin in H. destruct H as [H|H].
        -- exfalso. eapply Wp; eauto.
        -- inversion H. lia.
  - assert (G : match lookup m q with
                 | Some (s1, k1) => best (Pre ++ [(s, p, k)]) q s1 k1
                 | None => forall s' k', ~ In (s', q, k') (Pre ++ [(s, p, k)])
                 end).
    { pose proof (W q) as Wq.
      destruct (lookup m q) as [[s1 k1]|].
      + destruct Wq as [Wi Wm]. split.
        * apply Hin. left. exact Wi.
        * intros s' k' H. apply Hin in H. destruct H as [H|H]; [eapply Wm; eauto|].
          inversion H. congruence.
      + intros s' k' H. apply Hin in H. destruct H as [H|H]; [eapply Wq; eauto|].
        inversion H. congruence. }
    destruct (lookup m p) as [[s0 k0]|]; [destruct (k <? k0)|];
      rewrite ?lookup_set_neq by exact Hq; exact G.
Qed.

Lemma normal_new_spec : forall finals T Pre seen m,
  (forall x, In x seen <-> In x (map pk Pre)) ->
  winners Pre m -> tie_free Pre -> nofinal finals Pre ->
  match normal_new finals T seen m with
  | OK m' => tie_free (Pre ++ T) /\ nofinal finals (Pre ++ T) /\ winners (Pre ++ T) m'
  | Err EFinal => ~ nofinal finals (Pre ++ T)
  | Err EAmbiguous => ~ tie_free (Pre ++ T)
  | Err _ => False
  end.
Proof.
  induction T as [|[[s p] k] T IH]; intros Pre seen m Hs W TF NF.
  - cbn. rewrite app_nil_r. auto.
  - cbn [normal_new].
    destruct (memN p finals) eqn:F.
    { intros H. apply (H (s, p, k)).
      - apply in_app_iff. right. left. reflexivity.
      - apply memN_In. exact F. }
    destruct (mem_pz (p, k) seen) eqn:S.
    { apply mem_pz_In in S. apply Hs in S. unfold tie_free. rewrite map_app. cbn [map].
      intros H. apply NoDup_remove_2 in H. apply H. apply in_app_iff. left. exact S. }
    match goal with
    | |- match normal_new _ _ ?sn ?mn with _ => _ end =>
        pose proof (IH (Pre ++ [(s, p, k)]) sn mn) as IH'
    end.
    rewrite <- app_assoc in IH'. cbn [app] in IH'. apply IH'.
    + intros x. rewrite map_app, in_app_iff. cbn. rewrite <- Hs. unfold pk. cbn. intuition.
    + apply winners_step. exact W.
    + unfold tie_free. rewrite map_app. cbn [map]. apply NoDup_snoc. split; [exact TF|].
      intros H. apply Hs in H. apply mem_pz_In in H. unfold pk in H. cbn in H. congruence.
    + intros t Ht. apply in_app_iff in Ht. destruct Ht as [Ht|[Ht|[]]]; [apply NF; exact Ht|].
      subst t. unfold tprop. cbn. apply memN_false. exact F.
Qed.

Lemma winners_nil : winners [] [].
Proof. intros p. cbn. intros s k H. exact H. Qed.

Theorem normal_new_correct : forall finals T,
  match normal_new finals T [] [] with
  | OK m => tie_free T /\ nofinal finals T /\ winners T m
  | Err EFinal => ~ nofinal finals T
  | Err EAmbiguous => ~ tie_free T
  | Err _ => False
  end.
Proof.
  intros finals T.
  pose proof (normal_new_spec finals T [] [] []) as H. cbn [app] in H. apply H.
  - intros x. cbn. tauto.
  - apply winners_nil.
  - constructor.
  - intros t [].
Qed.

(* map equivalence: only what lookup sees matters *)
Definition meq {V} (m m' : amap V) : Prop := forall p, lookup m p = lookup m' p.

Lemma meq_refl : forall V (m : amap V), meq m m.
Proof. intros V m p. reflexivity. Qed.

Lemma meq_set : forall V (m m' : amap V) p v, meq m m' -> meq (set p v m) (set p v m').
Proof.
  intros V m m' p v H q. destruct (N.eq_dec q p) as [->|Hq].
  - rewrite !lookup_set_eq. reflexivity.
  - rewrite !lookup_set_neq by exact Hq. apply H.
Qed.

Lemma winners_unique : forall T m m', tie_free T -> winners T m -> winners T m' -> meq m m'.
Proof.
  intros T m m' TF W W' p. specialize (W p). specialize (W' p).
  destruct (lookup m p) as [[s k]|], (lookup m' p) as [[s' k']|]; try reflexivity.
  - destruct W as [Wi Wm], W' as [Wi' Wm'].
    assert (k = k') by (apply Wm in Wi'; apply Wm' in Wi; lia). subst k'.
    assert ((s, p, k) = (s', p, k)) by (eapply (NoDup_map_inj _ _ pk); eauto).
    congruence.
  - destruct W as [Wi _]. exfalso. eapply W'; eauto.
  - destruct W' as [Wi _]. exfalso. eapply W; eauto.
Qed.

Lemma winners_perm : forall T T' m, Permutation T T' -> winners T m -> winners T' m.
Proof.
  intros T T' m P W p. specialize (W p). destruct (lookup m p) as [[s k]|].
  - destruct W as [Wi Wm]. split.
    + eapply Permutation_in; eauto.
    + intros s' k' H. apply (Wm s' k'). eapply Permutation_in; [symmetry|]; eauto.
  - intros s k H. apply (W s k). eapply Permutation_in; [symmetry|]; eauto.
Qed.

Definition normal_class_err (A : Type) (r : result A) : Prop :=
  match r with Err EFinal | Err EAmbiguous => True | _ => False end.

Theorem normal_new_perm : forall finals T T', Permutation T T' ->
  match normal_new finals T [] [], normal_new finals T' [] [] with
  | OK m, OK m' => meq m m'
  | Err e, Err e' => (e = EFinal \/ e = EAmbiguous) /\ (e' = EFinal \/ e' = EAmbiguous)
  | _, _ => False
  end.
Proof.
  intros finals T T' P.
  pose proof (normal_new_correct finals T) as H.
  pose proof (normal_new_correct finals T') as H'.
  assert (TFp : tie_free T <-> tie_free T').
  { unfold tie_free. split; apply Permutation_NoDup; apply Permutation_map;
      [exact P | symmetry; exact P]. }
  assert (NFp : nofinal finals T <-> nofinal finals T').
  { unfold nofinal. split; intros N t Ht; apply N.
    - eapply Permutation_in; [symmetry; exact P | exact Ht].
    - eapply Permutation_in; [exact P | exact Ht]. }
  destruct (normal_new finals T [] []) as [m|e], (normal_new finals T' [] []) as [m'|e'].
  - destruct H as [TF [_ W]], H' as [_ [_ W']].
    eapply winners_unique; eauto. eapply winners_perm; [symmetry|]; eauto.
  - destruct H as [TF [NF _]]. destruct e'; try contradiction; tauto.
  - destruct H' as [TF [NF _]]. destruct e; try contradiction; tauto.
  - split; [destruct e | destruct e']; try contradiction; auto.
Qed.

(* ------------------------------------------------------------------ step 1 (as found) is order dependent *)
Definition sA := mkSpec 1%N [(1%N, 3)] [] false [].
Definition sB := mkSpec 2%N [(1%N, 1)] [] false [].
Definition sC := mkSpec 3%N [(1%N, 3)] [] false [].

Lemma normal_old_order_dependent :
  (exists m, normal_old [] (triples [sA; sB; sC]) [] = OK m) /\
  normal_old [] (triples [sA; sC; sB]) [] = Err EAmbiguous.
Proof. split; [eexists|]; vm_compute; reflexivity. Qed.

(* ------------------------------------------------------------------ steps 2, 3 only read maps through lookup *)
Lemma modify_meq : forall fx finals T m m' g, meq m m' ->
  match modify fx finals T m g, modify fx finals T m' g with
  | OK (a, ga), OK (b, gb) => meq a b /\ ga = gb
  | Err e, Err e' => e = e'
  | _, _ => False
  end.
Proof.
  induction T as [|[[s p] k] T IH]; intros m m' g H.
  - cbn. split; [exact H | reflexivity].
  - cbn [modify]. destruct (fx && memN p finals); [reflexivity|].
    rewrite <- (H p). destruct (lookup m p) as [[s0 k0]|].
    + destruct (k <? k0).
      * apply IH. apply meq_set. exact H.
      * destruct (memN p (modifiable s)).
        -- destruct (lookup g p); [reflexivity|]. apply IH. exact H.
        -- apply IH. exact H.
    + apply IH. apply meq_set. exact H.
Qed.

Lemma add_defaults_meq : forall ds m m' ad, meq m m' ->
  meq (fst (add_defaults ds m ad)) (fst (add_defaults ds m' ad)) /\
  snd (add_defaults ds m ad) = snd (add_defaults ds m' ad).
Proof.
  induction ds as [|[p d] ds IH]; intros m m' ad H.
  - cbn. split; [exact H | reflexivity].
  - cbn [add_defaults]. rewrite <- (H p). destruct (lookup m p).
    + apply IH. exact H.
    + apply IH. apply meq_set. exact H.
Qed.

Lemma children_meq : forall m m' g v, meq m m' -> children m g v = children m' g v.
Proof.
  intros m m' g v H. unfold children. f_equal.
  - apply map_ext. intros d. unfold supplier. rewrite (H d). reflexivity.
  - destruct (mod_inv g v); [rewrite (H p)|]; reflexivity.
Qed.

Lemma go_ext : forall vis vis' cs d, (forall c d, vis c d = vis' c d) -> go vis cs d = go vis' cs d.
Proof.
  induction cs as [|[c|] cs IH]; intros d H; cbn; try reflexivity.
  rewrite H. destruct (vis' c d); [apply IH; exact H | reflexivity].
Qed.

Lemma visit_ext : forall ch ch', (forall v, ch v = ch' v) ->
  forall fuel v grey done, visit ch fuel v grey done = visit ch' fuel v grey done.
Proof.
  intros ch ch' H. induction fuel as [|f IH]; intros v grey done; cbn; [reflexivity|].
  destruct (mem_spec v done); [reflexivity|]. destruct (mem_spec v grey); [reflexivity|].
  rewrite <- H. rewrite (go_ext _ (fun c d => visit ch' f c (v :: grey) d)); [reflexivity|].
  intros c d. apply IH.
Qed.

Lemma visit_all_ext : forall ch ch', (forall v, ch v = ch' v) ->
  forall fuel roots done, visit_all ch fuel roots done = visit_all ch' fuel roots done.
Proof.
  intros ch ch' H fuel. induction roots as [|v r IH]; intros done; cbn; [reflexivity|].
  rewrite (visit_ext ch ch' H). destruct (visit ch' fuel v [] done); [apply IH | reflexivity].
Qed.

(* ------------------------------------------------------------------ step 4: the DFS *)
Section DFSProofs.
  Variable ch : spec -> list (option spec).

  (* every child of [v] is a specifier that is present in [d] *)
  Definition kids_in (v : spec) (d : list spec) : Prop :=
    forall c, In c (ch v) -> exists x, c = Some x /\ In x d.

  Inductive topo : list spec -> Prop :=
  | topo_nil : topo []
  | topo_snoc : forall d v, topo d -> kids_in v d -> topo (d ++ [v]).

  Lemma topo_before : forall d, topo d ->
    forall d1 v d2, d = d1 ++ v :: d2 -> kids_in v d1.
  Proof.
    induction 1 as [|d u T IH K]; intros d1 v d2 E.
    - destruct d1; discriminate.
    - destruct (exists_last (l := v :: d2)) as [d2' [w E2]]; [discriminate|].
      rewrite E2 in E. rewrite app_assoc in E.
      apply app_inj_tail in E. destruct E as [E1 E3]. subst w.
      destruct d2' as [|y d2'].
      + cbn in E2. inversion E2; subst. try rewrite app_nil_r in K; try rewrite app_nil_r; exact K.
      + cbn in E2. inversion E2; subst. eapply IH. reflexivity.
  Qed.

  Definition vis_sound (vis : spec -> list spec -> result (list spec)) : Prop :=
    forall c d d', topo d -> vis c d = OK d' -> topo d' /\ incl d d' /\ In c d'.

  Lemma go_sound : forall vis, vis_sound vis ->
    forall cs d d', topo d -> go vis cs d = OK d' ->
      topo d' /\ incl d d' /\ forall c, In c cs -> exists x, c = Some x /\ In x d'.
  Proof.
    intros vis V. induction cs as [|[c|] cs IH]; intros d d' T E; cbn in E.
    - inversion E; subst. split; [exact T|]. split; [apply incl_refl|]. intros c [].
    - destruct (vis c d) as [d1|] eqn:E1; [|discriminate].
      destruct (V _ _ _ T E1) as [T1 [I1 C1]].
      destruct (IH _ _ T1 E) as [T2 [I2 K2]].
      split; [exact T2|]. split; [eapply incl_tran; eauto|].
      intros c' [Hc|Hc]; [|apply K2; exact Hc]. subst c'. exists c. split; [reflexivity|]. apply I2. exact C1.
    - discriminate.
  Qed.

  Lemma visit_sound : forall fuel grey, vis_sound (fun c d => visit ch fuel c grey d).
  Proof.
    induction fuel as [|f IH]; intros grey c d d' T E; cbn in E; [discriminate|].
    destruct (mem_spec c d) eqn:M.
    { inversion E; subst. split; [exact T|]. split; [apply incl_refl|]. apply mem_spec_In. exact M. }
    destruct (mem_spec c grey); [discriminate|].
    destruct (go (fun c0 d0 => visit ch f c0 (c :: grey) d0) (ch c) d) as [d1|] eqn:G; [|discriminate].
    inversion E; subst.
    destruct (go_sound _ (IH (c :: grey)) _ _ _ T G) as [T1 [I1 K1]].
    split; [apply topo_snoc; [exact T1 | exact K1]|].
    split; [intros x Hx; apply in_app_iff; left; apply I1; exact Hx|].
    apply in_app_iff. right. left. reflexivity.
  Qed.

  Lemma visit_all_sound : forall fuel roots d d', topo d -> visit_all ch fuel roots d = OK d' ->
    topo d' /\ incl d d' /\ incl roots d'.
  Proof.
    induction roots as [|v r IH]; intros d d' T E; cbn in E.
    - inversion E; subst. split; [exact T|]. split; [apply incl_refl|]. intros x [].
    - destruct (visit ch fuel v [] d) as [d1|] eqn:E1; [|discriminate].
      destruct (visit_sound fuel [] v d d1 T E1) as [T1 [I1 C1]].
      destruct (IH _ _ T1 E) as [T2 [I2 R2]].
      split; [exact T2|]. split; [eapply incl_tran; eauto|].
      intros x [Hx|Hx]; [subst; apply I2; exact C1 | apply R2; exact Hx].
  Qed.

  (* completeness: when the vertices [vs] admit a rank decreasing along edges, the DFS can only
     stop for lack of fuel *)
  Section Rank.
    Variable vs : list spec.
    Variable rk : spec -> nat.
    Hypothesis ranked : forall v, In v vs ->
      forall c, In c (ch v) -> exists x, c = Some x /\ In x vs /\ (rk x < rk v)%nat.

    Lemma go_complete : forall (P : spec -> Prop) vis,
      (forall c d e, P c -> vis c d = Err e -> e = EFuel) ->
      forall cs d e, (forall c, In c cs -> exists x, c = Some x /\ P x) ->
        go vis cs d = Err e -> e = EFuel.
    Proof.
      intros P vis V. induction cs as [|[c|] cs IH]; intros d e K E; cbn in E.
      - discriminate.
      - destruct (K (Some c)) as [x [Ex Px]]; [left; reflexivity|]. inversion Ex; subst x.
        destruct (vis c d) as [d1|e1] eqn:E1.
        + eapply IH; [|exact E]. intros c' Hc'. apply K. right. exact Hc'.
        + inversion E; subst. eapply V; eauto.
      - destruct (K None) as [x [Ex _]]; [left; reflexivity|]. discriminate.
    Qed.

    Lemma visit_complete : forall fuel v grey done e,
      In v vs -> (forall g, In g grey -> (rk v < rk g)%nat) ->
      visit ch fuel v grey done = Err e -> e = EFuel.
    Proof.
      induction fuel as [|f IH]; intros v grey done e Hv Hg E; cbn in E.
      - inversion E. reflexivity.
      - destruct (mem_spec v done); [discriminate|].
        destruct (mem_spec v grey) eqn:M.
        { apply mem_spec_In in M. apply Hg in M. lia. }
        destruct (go (fun c d => visit ch f c (v :: grey) d) (ch v) done) as [d1|e1] eqn:G; [discriminate|].
        inversion E; subst e1.
        eapply (go_complete (fun x => In x vs /\ (rk x < rk v)%nat)); [| |exact G].
        + intros c d e0 [Pc Pr] Ec. eapply IH; [exact Pc| |exact Ec].
          intros g [Hg'|Hg']; [subst; exact Pr|]. specialize (Hg _ Hg'). lia.
        + intros c Hc. destruct (ranked v Hv c Hc) as [x [Ex [Ix Rx]]]. exists x. auto.
    Qed.

    Lemma visit_all_complete : forall fuel roots done e, incl roots vs ->
      visit_all ch fuel roots done = Err e -> e = EFuel.
    Proof.
      induction roots as [|v r IH]; intros done e I E; cbn in E; [discriminate|].
      destruct (visit ch fuel v [] done) as [d1|e1] eqn:E1.
      - eapply IH; [|exact E]. intros x Hx. apply I. right. exact Hx.
      - inversion E; subst. eapply visit_complete; [| |exact E1].
        + apply I. left. reflexivity.
        + intros g [].
    Qed.
  End Rank.

  (* enough fuel: the recursion depth is bounded by the number of vertices *)
  Section Fuel.
    Variable vs : list spec.
    Hypothesis closed : forall v, In v vs -> forall x, In (Some x) (ch v) -> In x vs.

    Lemma go_fuel : forall (P : spec -> Prop) vis,
      (forall c d, P c -> vis c d <> Err EFuel) ->
      forall cs d, (forall x, In (Some x) cs -> P x) -> go vis cs d <> Err EFuel.
    Proof.
      intros P vis V. induction cs as [|[c|] cs IH]; intros d K; cbn.
      - discriminate.
      - destruct (vis c d) as [d1|e1] eqn:E1.
        + apply IH. intros x Hx. apply K. right. exact Hx.
        + intros H. inversion H; subst. apply (V c d); [apply K; left; reflexivity | exact E1].
      - discriminate.
    Qed.

    Lemma visit_fuel : forall fuel v grey done,
      In v vs -> NoDup grey -> incl grey vs -> (length vs - length grey < fuel)%nat ->
      visit ch fuel v grey done <> Err EFuel.
    Proof.
      induction fuel as [|f IH]; intros v grey done Hv ND I L; [lia|]. cbn.
      destruct (mem_spec v done); [discriminate|].
      destruct (mem_spec v grey) eqn:M; [discriminate|].
      apply mem_spec_false in M.
      assert (ND' : NoDup (v :: grey)) by (constructor; assumption).
      assert (I' : incl (v :: grey) vs) by (intros x [Hx|Hx]; [subst; exact Hv | apply I; exact Hx]).
      pose proof (NoDup_incl_length ND' I') as LL. cbn [length] in LL.
      destruct (go (fun c d => visit ch f c (v :: grey) d) (ch v) done) as [d1|e1] eqn:G; [discriminate|].
      intros H. inversion H; subst e1. revert G.
      apply (go_fuel (fun x => In x vs)).
      - intros c d Pc. apply IH; try assumption. cbn [length]. lia.
      - intros x Hx. eapply closed; eauto.
    Qed.

    Lemma visit_all_fuel : forall fuel roots done, incl roots vs -> (length vs < fuel)%nat ->
      visit_all ch fuel roots done <> Err EFuel.
    Proof.
      induction roots as [|v r IH]; intros done I L; cbn; [discriminate|].
      destruct (visit ch fuel v [] done) as [d1|e1] eqn:E1.
      - apply IH; [|exact L]. intros x Hx. apply I. right. exact Hx.
      - intros H. inversion H; subst. revert E1. apply visit_fuel.
        + apply I. left. reflexivity.
        + constructor.
        + intros x [].
        + cbn. lia.
    Qed.
  End Fuel.

  (* only the three DFS outcomes exist *)
  Lemma go_errs : forall vis, (forall c d e, vis c d = Err e -> e = ECycle \/ e = EMissingDep \/ e = EFuel) ->
    forall cs d e, go vis cs d = Err e -> e = ECycle \/ e = EMissingDep \/ e = EFuel.
  Proof.
    intros vis V. induction cs as [|[c|] cs IH]; intros d e E; cbn in E.
    - discriminate.
    - destruct (vis c d) eqn:E1; [eapply IH; eauto|]. inversion E; subst. eapply V; eauto.
    - inversion E. auto.
  Qed.

  Lemma visit_errs : forall fuel v grey done e, visit ch fuel v grey done = Err e ->
    e = ECycle \/ e = EMissingDep \/ e = EFuel.
  Proof.
    induction fuel as [|f IH]; intros v grey done e E; cbn in E.
    - inversion E. auto.
    - destruct (mem_spec v done); [discriminate|]. destruct (mem_spec v grey); [inversion E; auto|].
      destruct (go (fun c d => visit ch f c (v :: grey) d) (ch v) done) eqn:G; [discriminate|].
      inversion E; subst. eapply go_errs; [|exact G]. intros c d e0. apply IH.
  Qed.

  Lemma visit_all_errs : forall fuel roots done e, visit_all ch fuel roots done = Err e ->
    e = ECycle \/ e = EMissingDep \/ e = EFuel.
  Proof.
    induction roots as [|v r IH]; intros done e E; cbn in E; [discriminate|].
    destruct (visit ch fuel v [] done) eqn:E1; [eapply IH; eauto|].
    inversion E; subst. eapply visit_errs; eauto.
  Qed.
End DFSProofs.
