(* C06 — lemmas about the model of specifier resolution (coq/C06/Specifier.v). *)
From Coq Require Import ZArith NArith List Bool Lia Permutation.
From Scenic Require Import C06.Specifier.
Import ListNotations.
Open Scope Z_scope.

(* ------------------------------------------------------------------ basics *)
Lemma memN_In : forall x l, memN x l = true <-> In x l.
Proof.
  intros x l. unfold memN. rewrite existsb_exists. split.
  - intros [y [Hy E]]. apply N.eqb_eq in E. subst. exact Hy.
  - intros H. exists x. split; [exact H | apply N.eqb_refl].
Qed.

Lemma memN_false : forall x l, memN x l = false <-> ~ In x l.
Proof.
  intros x l. rewrite <- memN_In. destruct (memN x l); split; intros; congruence.
Qed.

Lemma mem_pz_In : forall x l, mem_pz x l = true <-> In x l.
Proof.
  intros [p k] l. unfold mem_pz. rewrite existsb_exists. split.
  - intros [[q j] [Hy E]]. cbn in E. apply andb_true_iff in E. destruct E as [E1 E2].
    apply N.eqb_eq in E1. apply Z.eqb_eq in E2. subst. exact Hy.
  - intros H. exists (p, k). split; [exact H|]. cbn. rewrite N.eqb_refl, Z.eqb_refl. reflexivity.
Qed.

Lemma spec_eqb_eq : forall a b, spec_eqb a b = true <-> a = b.
Proof. intros a b. unfold spec_eqb. destruct (spec_eq_dec a b); split; intros; congruence. Qed.

Lemma mem_spec_In : forall x l, mem_spec x l = true <-> In x l.
Proof.
  intros x l. unfold mem_spec. rewrite existsb_exists. split.
  - intros [y [Hy E]]. apply spec_eqb_eq in E. subst. exact Hy.
  - intros H. exists x. split; [exact H | apply spec_eqb_eq; reflexivity].
Qed.

Lemma mem_spec_false : forall x l, mem_spec x l = false <-> ~ In x l.
Proof.
  intros x l. rewrite <- mem_spec_In. destruct (mem_spec x l); split; intros; congruence.
Qed.

Lemma lookup_set_eq : forall V (m : amap V) p v, lookup (set p v m) p = Some v.
Proof. intros. unfold set. cbn. rewrite N.eqb_refl. reflexivity. Qed.

Lemma lookup_set_neq : forall V (m : amap V) p q v, q <> p -> lookup (set p v m) q = lookup m q.
Proof. intros. unfold set. cbn. apply N.eqb_neq in H. rewrite H. reflexivity. Qed.

Lemma nodupb_NoDup : forall l, nodupb l = true <-> NoDup l.
Proof.
  induction l as [|x r IH]; cbn.
  - split; intros; [constructor | reflexivity].
  - rewrite andb_true_iff, negb_true_iff, memN_false, IH. split.
    + intros [A B]. constructor; assumption.
    + intros H. inversion H; subst. split; assumption.
Qed.

Lemma NoDup_snoc : forall A (l : list A) x, NoDup (l ++ [x]) <-> NoDup l /\ ~ In x l.
Proof.
  intros A l x. split.
  - intros H. assert (P : Permutation (l ++ [x]) (x :: l)) by (symmetry; apply Permutation_cons_append).
    apply (Permutation_NoDup P) in H. inversion H; subst. split; assumption.
  - intros [H1 H2]. apply (Permutation_NoDup (Permutation_cons_append l x)). constructor; assumption.
Qed.

Lemma NoDup_map_inj : forall A B (f : A -> B) l a b,
  NoDup (map f l) -> In a l -> In b l -> f a = f b -> a = b.
Proof.
  induction l as [|x r IH]; cbn; intros a b ND Ha Hb E; [contradiction|].
  inversion ND as [|? ? Hn ND']; subst.
  destruct Ha as [Ha|Ha], Hb as [Hb|Hb]; subst.
  - reflexivity.
  - exfalso. apply Hn. rewrite E. apply in_map. exact Hb.
  - exfalso. apply Hn. rewrite <- E. apply in_map. exact Ha.
  - eapply IH; eauto.
Qed.

Lemma Permutation_filter' : forall A (f : A -> bool) l l',
  Permutation l l' -> Permutation (filter f l) (filter f l').
Proof.
  intros A f l l' P. induction P; cbn.
  - constructor.
  - destruct (f x); [constructor|]; assumption.
  - destruct (f x), (f y); try apply perm_swap; apply Permutation_refl.
  - eapply Permutation_trans; eassumption.
Qed.

(* ------------------------------------------------------------------ step 1 (repaired) *)
Definition pk (t : triple) : prop * Z := (snd (fst t), snd t).
Definition tprop (t : triple) : prop := snd (fst t).
Definition tspec (t : triple) : spec := fst (fst t).

(* the specification of step 1: [s] gives [p] priority number [k], and nobody gives a lower one *)
Definition best (T : list triple) (p : prop) (s : spec) (k : Z) : Prop :=
  In (s, p, k) T /\ forall s' k', In (s', p, k') T -> k <= k'.
Definition nofinal (finals : list prop) (T : list triple) : Prop :=
  forall t, In t T -> ~ In (tprop t) finals.
Definition tie_free (T : list triple) : Prop := NoDup (map pk T).

(* [m] records exactly the unique best specifier of every property mentioned in [T] *)
Definition winners (T : list triple) (m : pmap) : Prop :=
  forall p, match lookup m p with
            | Some (s, k) => best T p s k
            | None => forall s k, ~ In (s, p, k) T
            end.

Lemma winners_step : forall Pre m s p k,
  winners Pre m ->
  winners (Pre ++ [(s, p, k)])
    (match lookup m p with
     | Some (_, k0) => if k <? k0 then set p (s, k) m else m
     | None => set p (s, k) m
     end).
Proof.
  intros Pre m s p k W q.
  assert (Hin : forall s' q' k', In (s', q', k') (Pre ++ [(s, p, k)]) <->
                                 In (s', q', k') Pre \/ (s', q', k') = (s, p, k)).
  { intros. rewrite in_app_iff. cbn. intuition congruence. }
  destruct (N.eq_dec q p) as [->|Hq].
  - pose proof (W p) as Wp.
    destruct (lookup m p) as [[s0 k0]|] eqn:E.
    + destruct (k <? k0) eqn:L.
      * rewrite lookup_set_eq. split.
        -- apply Hin. right. reflexivity.
        -- intros s' k' H. apply Hin in H. destruct H as [H|H].
           ++ destruct Wp as [_ Wm]. apply Wm in H. apply Z.ltb_lt in L. lia.
           ++ inversion H. lia.
      * rewrite E. destruct Wp as [Wi Wm]. split.
        -- apply Hin. left. exact Wi.
        -- intros s' k' H. apply Hin in H. destruct H as [H|H].
           ++ eapply Wm; eauto.
           ++ inversion H. subst. apply Z.ltb_ge in L. lia.
    + rewrite lookup_set_eq. split.
      * apply Hin. right. reflexivity.
      * intros s' k' H. apply Hin in H. destruct H as [H|H].
        -- exfalso. eapply Wp; eauto.
        -- inversion H. lia.
  - assert (G : match lookup m q with
                 | Some (s1, k1) => best (Pre ++ [(s, p, k)]) q s1 k1
                 | None => forall s' k', ~ In (s', q, k') (Pre ++ [(s, p, k)])
                 end).
    { pose proof (W q) as Wq.
      destruct (lookup m q) as [[s1 k1]|].
      + destruct Wq as [Wi Wm]. split.
        * apply Hin. left. exact Wi.
        * intros s' k' H. apply Hin in H. destruct H as [H|H]; [eapply Wm; eauto|].
          inversion H. congruence.
      + intros s' k' H. apply Hin in H. destruct H as [H|H]; [eapply Wq; eauto|].
        inversion H. congruence. }
    destruct (lookup m p) as [[s0 k0]|]; [destruct (k <? k0)|];
      rewrite ?lookup_set_neq by exact Hq; exact G.
Qed.

Lemma normal_new_spec : forall finals T Pre seen m,
  (forall x, In x seen <-> In x (map pk Pre)) ->
  winners Pre m -> tie_free Pre -> nofinal finals Pre ->
  match normal_new finals T seen m with
  | OK m' => tie_free (Pre ++ T) /\ nofinal finals (Pre ++ T) /\ winners (Pre ++ T) m'
  | Err EFinal => ~ nofinal finals (Pre ++ T)
  | Err EAmbiguous => ~ tie_free (Pre ++ T)
  | Err _ => False
  end.
Proof.
  induction T as [|[[s p] k] T IH]; intros Pre seen m Hs W TF NF.
  - cbn. rewrite app_nil_r. auto.
  - cbn [normal_new].
    destruct (memN p finals) eqn:F.
    { intros H. apply (H (s, p, k)).
      - apply in_app_iff. right. left. reflexivity.
      - apply memN_In. exact F. }
    destruct (mem_pz (p, k) seen) eqn:S.
    { apply mem_pz_In in S. apply Hs in S. unfold tie_free. rewrite map_app. cbn [map].
      intros H. apply NoDup_remove_2 in H. apply H. apply in_app_iff. left. exact S. }
    match goal with
    | |- match normal_new _ _ ?sn ?mn with _ => _ end =>
        pose proof (IH (Pre ++ [(s, p, k)]) sn mn) as IH'
    end.
    rewrite <- app_assoc in IH'. cbn [app] in IH'. apply IH'.
    + intros x. rewrite map_app, in_app_iff. cbn. rewrite <- Hs. unfold pk. cbn. intuition.
    + apply winners_step. exact W.
    + unfold tie_free. rewrite map_app. cbn [map]. apply NoDup_snoc. split; [exact TF|].
      intros H. apply Hs in H. apply mem_pz_In in H. unfold pk in H. cbn in H. congruence.
    + intros t Ht. apply in_app_iff in Ht. destruct Ht as [Ht|[Ht|[]]]; [apply NF; exact Ht|].
      subst t. unfold tprop. cbn. apply memN_false. exact F.
Qed.

Lemma winners_nil : winners [] [].
Proof. intros p. cbn. intros s k H. exact H. Qed.

Theorem normal_new_correct : forall finals T,
  match normal_new finals T [] [] with
  | OK m => tie_free T /\ nofinal finals T /\ winners T m
  | Err EFinal => ~ nofinal finals T
  | Err EAmbiguous => ~ tie_free T
  | Err _ => False
  end.
Proof.
  intros finals T.
  pose proof (normal_new_spec finals T [] [] []) as H. cbn [app] in H. apply H.
  - intros x. cbn. tauto.
  - apply winners_nil.
  - constructor.
  - intros t [].
Qed.

(* map equivalence: only what lookup sees matters *)
Definition meq {V} (m m' : amap V) : Prop := forall p, lookup m p = lookup m' p.

Lemma meq_refl : forall V (m : amap V), meq m m.
Proof. intros V m p. reflexivity. Qed.

Lemma meq_set : forall V (m m' : amap V) p v, meq m m' -> meq (set p v m) (set p v m').
Proof.
  intros V m m' p v H q. destruct (N.eq_dec q p) as [->|Hq].
  - rewrite !lookup_set_eq. reflexivity.
  - rewrite !lookup_set_neq by exact Hq. apply H.
Qed.

Lemma winners_unique : forall T m m', tie_free T -> winners T m -> winners T m' -> meq m m'.
Proof.
  intros T m m' TF W W' p. specialize (W p). specialize (W' p).
  destruct (lookup m p) as [[s k]|], (lookup m' p) as [[s' k']|]; try reflexivity.
  - destruct W as [Wi Wm], W' as [Wi' Wm'].
    assert (k = k') by (apply Wm in Wi'; apply Wm' in Wi; lia). subst k'.
    assert ((s, p, k) = (s', p, k)) by (eapply (NoDup_map_inj _ _ pk); eauto).
    congruence.
  - destruct W as [Wi _]. exfalso. eapply W'; eauto.
  - destruct W' as [Wi _]. exfalso. eapply W; eauto.
Qed.

Lemma winners_perm : forall T T' m, Permutation T T' -> winners T m -> winners T' m.
Proof.
  intros T T' m P W p. specialize (W p). destruct (lookup m p) as [[s k]|].
  - destruct W as [Wi Wm]. split.
    + eapply Permutation_in; eauto.
    + intros s' k' H. apply (Wm s' k'). eapply Permutation_in; [symmetry|]; eauto.
  - intros s k H. apply (W s k). eapply Permutation_in; [symmetry|]; eauto.
Qed.

Definition normal_class_err (A : Type) (r : result A) : Prop :=
  match r with Err EFinal | Err EAmbiguous => True | _ => False end.

Theorem normal_new_perm : forall finals T T', Permutation T T' ->
  match normal_new finals T [] [], normal_new finals T' [] [] with
  | OK m, OK m' => meq m m'
  | Err e, Err e' => (e = EFinal \/ e = EAmbiguous) /\ (e' = EFinal \/ e' = EAmbiguous)
  | _, _ => False
  end.
Proof.
  intros finals T T' P.
  pose proof (normal_new_correct finals T) as H.
  pose proof (normal_new_correct finals T') as H'.
  assert (TFp : tie_free T <-> tie_free T').
  { unfold tie_free. split; apply Permutation_NoDup; apply Permutation_map;
      [exact P | symmetry; exact P]. }
  assert (NFp : nofinal finals T <-> nofinal finals T').
  { unfold nofinal. split; intros N t Ht; apply N.
    - eapply Permutation_in; [symmetry; exact P | exact Ht].
    - eapply Permutation_in; [exact P | exact Ht]. }
  destruct (normal_new finals T [] []) as [m|e], (normal_new finals T' [] []) as [m'|e'].
  - destruct H as [TF [_ W]], H' as [_ [_ W']].
    eapply winners_unique; eauto. eapply winners_perm; [symmetry|]; eauto.
  - destruct H as [TF [NF _]]. destruct e'; try contradiction; tauto.
  - destruct H' as [TF [NF _]]. destruct e; try contradiction; tauto.
  - split; [destruct e | destruct e']; try contradiction; auto.
Qed.

(* ------------------------------------------------------------------ step 1 (as found) is order dependent *)
Definition sA := mkSpec 1%N [(1%N, 3)] [] false [].
Definition sB := mkSpec 2%N [(1%N, 1)] [] false [].
Definition sC := mkSpec 3%N [(1%N, 3)] [] false [].

Lemma normal_old_order_dependent :
  (exists m, normal_old [] (triples [sA; sB; sC]) [] = OK m) /\
  normal_old [] (triples [sA; sC; sB]) [] = Err EAmbiguous.
Proof. split; [eexists|]; vm_compute; reflexivity. Qed.

(* ------------------------------------------------------------------ steps 2, 3 only read maps through lookup *)
Lemma modify_meq : forall fx finals T m m' g, meq m m' ->
  match modify fx finals T m g, modify fx finals T m' g with
  | OK (a, ga), OK (b, gb) => meq a b /\ ga = gb
  | Err e, Err e' => e = e'
  | _, _ => False
  end.
Proof.
  induction T as [|[[s p] k] T IH]; intros m m' g H.
  - cbn. split; [exact H | reflexivity].
  - cbn [modify]. destruct (fx && memN p finals); [reflexivity|].
    rewrite <- (H p). destruct (lookup m p) as [[s0 k0]|].
    + destruct (k <? k0).
      * apply IH. apply meq_set. exact H.
      * destruct (memN p (modifiable s)).
        -- destruct (lookup g p); [reflexivity|]. apply IH. exact H.
        -- apply IH. exact H.
    + apply IH. apply meq_set. exact H.
Qed.

Lemma add_defaults_meq : forall ds m m' ad, meq m m' ->
  meq (fst (add_defaults ds m ad)) (fst (add_defaults ds m' ad)) /\
  snd (add_defaults ds m ad) = snd (add_defaults ds m' ad).
Proof.
  induction ds as [|[p d] ds IH]; intros m m' ad H.
  - cbn. split; [exact H | reflexivity].
  - cbn [add_defaults]. rewrite <- (H p). destruct (lookup m p).
    + apply IH. exact H.
    + apply IH. apply meq_set. exact H.
Qed.

Lemma children_meq : forall m m' g v, meq m m' -> children m g v = children m' g v.
Proof.
  intros m m' g v H. unfold children. f_equal.
  - apply map_ext. intros d. unfold supplier. rewrite (H d). reflexivity.
  - destruct (mod_inv g v); [rewrite (H p)|]; reflexivity.
Qed.

Lemma go_ext : forall vis vis' cs d, (forall c d, vis c d = vis' c d) -> go vis cs d = go vis' cs d.
Proof.
  induction cs as [|[c|] cs IH]; intros d H; cbn; try reflexivity.
  rewrite H. destruct (vis' c d); [apply IH; exact H | reflexivity].
Qed.

Lemma visit_ext : forall ch ch', (forall v, ch v = ch' v) ->
  forall fuel v grey done, visit ch fuel v grey done = visit ch' fuel v grey done.
Proof.
  intros ch ch' H. induction fuel as [|f IH]; intros v grey done; cbn; [reflexivity|].
  destruct (mem_spec v done); [reflexivity|]. destruct (mem_spec v grey); [reflexivity|].
  rewrite <- H. rewrite (go_ext _ (fun c d => visit ch' f c (v :: grey) d)); [reflexivity|].
  intros c d. apply IH.
Qed.

Lemma visit_all_ext : forall ch ch', (forall v, ch v = ch' v) ->
  forall fuel roots done, visit_all ch fuel roots done = visit_all ch' fuel roots done.
Proof.
  intros ch ch' H fuel. induction roots as [|v r IH]; intros done; cbn; [reflexivity|].
  rewrite (visit_ext ch ch' H). destruct (visit ch' fuel v [] done); [apply IH | reflexivity].
Qed.

(* ------------------------------------------------------------------ step 4: the DFS *)
Section DFSProofs.
  Variable ch : spec -> list (option spec).

  (* every child of [v] is a specifier that is present in [d] *)
  Definition kids_in (v : spec) (d : list spec) : Prop :=
    forall c, In c (ch v) -> exists x, c = Some x /\ In x d.

  Inductive topo : list spec -> Prop :=
  | topo_nil : topo []
  | topo_snoc : forall d v, topo d -> kids_in v d -> topo (d ++ [v]).

  Lemma topo_before : forall d, topo d ->
    forall d1 v d2, d = d1 ++ v :: d2 -> kids_in v d1.
  Proof.
    induction 1 as [|d u T IH K]; intros d1 v d2 E.
    - destruct d1; discriminate.
    - destruct (exists_last (l := v :: d2)) as [d2' [w E2]]; [discriminate|].
      rewrite E2 in E. rewrite app_assoc in E.
      apply app_inj_tail in E. destruct E as [E1 E3]. subst w.
      destruct d2' as [|y d2'].
      + cbn in E2. inversion E2; subst. try rewrite app_nil_r in K; try rewrite app_nil_r; exact K.
      + cbn in E2. inversion E2; subst. eapply IH. reflexivity.
  Qed.

  Definition vis_sound (vis : spec -> list spec -> result (list spec)) : Prop :=
    forall c d d', topo d -> vis c d = OK d' -> topo d' /\ incl d d' /\ In c d'.

  Lemma go_sound : forall vis, vis_sound vis ->
    forall cs d d', topo d -> go vis cs d = OK d' ->
      topo d' /\ incl d d' /\ forall c, In c cs -> exists x, c = Some x /\ In x d'.
  Proof.
    intros vis V. induction cs as [|[c|] cs IH]; intros d d' T E; cbn in E.
    - inversion E; subst. split; [exact T|]. split; [apply incl_refl|]. intros c [].
    - destruct (vis c d) as [d1|] eqn:E1; [|discriminate].
      destruct (V _ _ _ T E1) as [T1 [I1 C1]].
      destruct (IH _ _ T1 E) as [T2 [I2 K2]].
      split; [exact T2|]. split; [eapply incl_tran; eauto|].
      intros c' [Hc|Hc]; [|apply K2; exact Hc]. subst c'. exists c. split; [reflexivity|]. apply I2. exact C1.
    - discriminate.
  Qed.

  Lemma visit_sound : forall fuel grey, vis_sound (fun c d => visit ch fuel c grey d).
  Proof.
    induction fuel as [|f IH]; intros grey c d d' T E; cbn in E; [discriminate|].
    destruct (mem_spec c d) eqn:M.
    { inversion E; subst. split; [exact T|]. split; [apply incl_refl|]. apply mem_spec_In. exact M. }
    destruct (mem_spec c grey); [discriminate|].
    destruct (go (fun c0 d0 => visit ch f c0 (c :: grey) d0) (ch c) d) as [d1|] eqn:G; [|discriminate].
    inversion E; subst.
    destruct (go_sound _ (IH (c :: grey)) _ _ _ T G) as [T1 [I1 K1]].
    split; [apply topo_snoc; [exact T1 | exact K1]|].
    split; [intros x Hx; apply in_app_iff; left; apply I1; exact Hx|].
    apply in_app_iff. right. left. reflexivity.
  Qed.

  Lemma visit_all_sound : forall fuel roots d d', topo d -> visit_all ch fuel roots d = OK d' ->
    topo d' /\ incl d d' /\ incl roots d'.
  Proof.
    induction roots as [|v r IH]; intros d d' T E; cbn in E.
    - inversion E; subst. split; [exact T|]. split; [apply incl_refl|]. intros x [].
    - destruct (visit ch fuel v [] d) as [d1|] eqn:E1; [|discriminate].
      destruct (visit_sound fuel [] v d d1 T E1) as [T1 [I1 C1]].
      destruct (IH _ _ T1 E) as [T2 [I2 R2]].
      split; [exact T2|]. split; [eapply incl_tran; eauto|].
      intros x [Hx|Hx]; [subst; apply I2; exact C1 | apply R2; exact Hx].
  Qed.

  (* completeness: when the vertices [vs] admit a rank decreasing along edges, the DFS can only
     stop for lack of fuel *)
  Section Rank.
    Variable vs : list spec.
    Variable rk : spec -> nat.
    Hypothesis ranked : forall v, In v vs ->
      forall c, In c (ch v) -> exists x, c = Some x /\ In x vs /\ (rk x < rk v)%nat.

    Lemma go_complete : forall (P : spec -> Prop) vis,
      (forall c d e, P c -> vis c d = Err e -> e = EFuel) ->
      forall cs d e, (forall c, In c cs -> exists x, c = Some x /\ P x) ->
        go vis cs d = Err e -> e = EFuel.
    Proof.
      intros P vis V. induction cs as [|[c|] cs IH]; intros d e K E; cbn in E.
      - discriminate.
      - destruct (K (Some c)) as [x [Ex Px]]; [left; reflexivity|]. inversion Ex; subst x.
        destruct (vis c d) as [d1|e1] eqn:E1.
        + eapply IH; [|exact E]. intros c' Hc'. apply K. right. exact Hc'.
        + inversion E; subst. eapply V; eauto.
      - destruct (K None) as [x [Ex _]]; [left; reflexivity|]. discriminate.
    Qed.

    Lemma visit_complete : forall fuel v grey done e,
      In v vs -> (forall g, In g grey -> (rk v < rk g)%nat) ->
      visit ch fuel v grey done = Err e -> e = EFuel.
    Proof.
      induction fuel as [|f IH]; intros v grey done e Hv Hg E; cbn in E.
      - inversion E. reflexivity.
      - destruct (mem_spec v done); [discriminate|].
        destruct (mem_spec v grey) eqn:M.
        { apply mem_spec_In in M. apply Hg in M. lia. }
        destruct (go (fun c d => visit ch f c (v :: grey) d) (ch v) done) as [d1|e1] eqn:G; [discriminate|].
        inversion E; subst e1.
        eapply (go_complete (fun x => In x vs /\ (rk x < rk v)%nat)); [| |exact G].
        + intros c d e0 [Pc Pr] Ec. eapply IH; [exact Pc| |exact Ec].
          intros g [Hg'|Hg']; [subst; exact Pr|]. specialize (Hg _ Hg'). lia.
        + intros c Hc. destruct (ranked v Hv c Hc) as [x [Ex [Ix Rx]]]. exists x. auto.
    Qed.

    Lemma visit_all_complete : forall fuel roots done e, incl roots vs ->
      visit_all ch fuel roots done = Err e -> e = EFuel.
    Proof.
      induction roots as [|v r IH]; intros done e I E; cbn in E; [discriminate|].
      destruct (visit ch fuel v [] done) as [d1|e1] eqn:E1.
      - eapply IH; [|exact E]. intros x Hx. apply I. right. exact Hx.
      - inversion E; subst. eapply visit_complete; [| |exact E1].
        + apply I. left. reflexivity.
        + intros g [].
    Qed.
  End Rank.

  (* enough fuel: the recursion depth is bounded by the number of vertices *)
  Section Fuel.
    Variable vs : list spec.
    Hypothesis closed : forall v, In v vs -> forall x, In (Some x) (ch v) -> In x vs.

    Lemma go_fuel : forall (P : spec -> Prop) vis,
      (forall c d, P c -> vis c d <> Err EFuel) ->
      forall cs d, (forall x, In (Some x) cs -> P x) -> go vis cs d <> Err EFuel.
    Proof.
      intros P vis V. induction cs as [|[c|] cs IH]; intros d K; cbn.
      - discriminate.
      - destruct (vis c d) as [d1|e1] eqn:E1.
        + apply IH. intros x Hx. apply K. right. exact Hx.
        + intros H. inversion H; subst. apply (V c d); [apply K; left; reflexivity | exact E1].
      - discriminate.
    Qed.

    Lemma visit_fuel : forall fuel v grey done,
      In v vs -> NoDup grey -> incl grey vs -> (length vs - length grey < fuel)%nat ->
      visit ch fuel v grey done <> Err EFuel.
    Proof.
      induction fuel as [|f IH]; intros v grey done Hv ND I L; [lia|]. cbn.
      destruct (mem_spec v done); [discriminate|].
      destruct (mem_spec v grey) eqn:M; [discriminate|].
      apply mem_spec_false in M.
      assert (ND' : NoDup (v :: grey)) by (constructor; assumption).
      assert (I' : incl (v :: grey) vs) by (intros x [Hx|Hx]; [subst; exact Hv | apply I; exact Hx]).
      pose proof (NoDup_incl_length ND' I') as LL. cbn [length] in LL.
      destruct (go (fun c d => visit ch f c (v :: grey) d) (ch v) done) as [d1|e1] eqn:G; [discriminate|].
      intros H. inversion H; subst e1. revert G.
      apply (go_fuel (fun x => In x vs)).
      - intros c d Pc. apply IH; try assumption. cbn [length]. lia.
      - intros x Hx. eapply closed; eauto.
    Qed.

    Lemma visit_all_fuel : forall fuel roots done, incl roots vs -> (length vs < fuel)%nat ->
      visit_all ch fuel roots done <> Err EFuel.
    Proof.
      induction roots as [|v r IH]; intros done I L; cbn; [discriminate|].
      destruct (visit ch fuel v [] done) as [d1|e1] eqn:E1.
      - apply IH; [|exact L]. intros x Hx. apply I. right. exact Hx.
      - intros H. inversion H; subst. revert E1. apply visit_fuel.
        + apply I. left. reflexivity.
        + constructor.
        + intros x [].
        + cbn. lia.
    Qed.
  End Fuel.

  (* only the three DFS outcomes exist *)
  Lemma go_errs : forall vis, (forall c d e, vis c d = Err e -> e = ECycle \/ e = EMissingDep \/ e = EFuel) ->
    forall cs d e, go vis cs d = Err e -> e = ECycle \/ e = EMissingDep \/ e = EFuel.
  Proof.
    intros vis V. induction cs as [|[c|] cs IH]; intros d e E; cbn in E.
    - discriminate.
    - destruct (vis c d) eqn:E1; [eapply IH; eauto|]. inversion E; subst. eapply V; eauto.
    - inversion E. auto.
  Qed.

  Lemma visit_errs : forall fuel v grey done e, visit ch fuel v grey done = Err e ->
    e = ECycle \/ e = EMissingDep \/ e = EFuel.
  Proof.
    induction fuel as [|f IH]; intros v grey done e E; cbn in E.
    - inversion E. auto.
    - destruct (mem_spec v done); [discriminate|]. destruct (mem_spec v grey); [inversion E; auto|].
      destruct (go (fun c d => visit ch f c (v :: grey) d) (ch v) done) eqn:G; [discriminate|].
      inversion E; subst. eapply go_errs; [|exact G]. intros c d e0. apply IH.
  Qed.

  Lemma visit_all_errs : forall fuel roots done e, visit_all ch fuel roots done = Err e ->
    e = ECycle \/ e = EMissingDep \/ e = EFuel.
  Proof.
    induction roots as [|v r IH]; intros done e E; cbn in E; [discriminate|].
    destruct (visit ch fuel v [] done) eqn:E1; [eapply IH; eauto|].
    inversion E; subst. eapply visit_errs; eauto.
  Qed.
End DFSProofs.

(* ------------------------------------------------------------------ where the map values come from *)
Definition rng (m : pmap) (L : list spec) : Prop := forall p x k, lookup m p = Some (x, k) -> In x L.
Definition rngg (g : amap spec) (L : list spec) : Prop := forall p x, lookup g p = Some x -> In x L.

Lemma rng_set : forall m L p x k, rng m L -> In x L -> rng (set p (x, k) m) L.
Proof.
  intros m L p x k R I q y j H. destruct (N.eq_dec q p) as [->|Hq].
  - rewrite lookup_set_eq in H. inversion H; subst. exact I.
  - rewrite lookup_set_neq in H by exact Hq. eapply R; eauto.
Qed.

Lemma rngg_set : forall g L p x, rngg g L -> In x L -> rngg (set p x g) L.
Proof.
  intros g L p x R I q y H. destruct (N.eq_dec q p) as [->|Hq].
  - rewrite lookup_set_eq in H. inversion H; subst. exact I.
  - rewrite lookup_set_neq in H by exact Hq. eapply R; eauto.
Qed.

Lemma rng_incl : forall m L L', rng m L -> incl L L' -> rng m L'.
Proof. intros m L L' R I p x k H. apply I. eapply R; eauto. Qed.

Lemma triples_spec_in : forall ss t, In t (triples ss) -> In (tspec t) ss.
Proof.
  intros ss t H. unfold triples in H. apply in_flat_map in H. destruct H as [s [Hs Ht]].
  unfold triples_of in Ht. apply in_map_iff in Ht. destruct Ht as [pk0 [E _]]. subst t. exact Hs.
Qed.

Lemma triples_in : forall ss s p k, In (s, p, k) (triples ss) <-> In s ss /\ In (p, k) (prios s).
Proof.
  intros ss s p k. unfold triples. rewrite in_flat_map. split.
  - intros [s0 [Hs Ht]]. unfold triples_of in Ht. apply in_map_iff in Ht.
    destruct Ht as [[q j] [E I]]. cbn in E. inversion E; subst. auto.
  - intros [Hs Hp]. exists s. split; [exact Hs|]. unfold triples_of. apply in_map_iff.
    exists (p, k). auto.
Qed.

Lemma normal_new_rng : forall finals L T seen m m',
  (forall t, In t T -> In (tspec t) L) -> rng m L -> normal_new finals T seen m = OK m' -> rng m' L.
Proof.
  induction T as [|[[s p] k] T IH]; intros seen m m' HT R E; cbn in E.
  - inversion E; subst. exact R.
  - destruct (memN p finals); [discriminate|]. destruct (mem_pz (p, k) seen); [discriminate|].
    assert (Is : In s L) by (apply (HT (s, p, k)); left; reflexivity).
    eapply IH; [| |exact E].
    + intros t Ht. apply HT. right. exact Ht.
    + destruct (lookup m p) as [[s0 k0]|]; [destruct (k <? k0)|]; try exact R; apply rng_set; assumption.
Qed.

Lemma normal_old_rng : forall finals L T m m',
  (forall t, In t T -> In (tspec t) L) -> rng m L -> normal_old finals T m = OK m' -> rng m' L.
Proof.
  induction T as [|[[s p] k] T IH]; intros m m' HT R E; cbn in E.
  - inversion E; subst. exact R.
  - destruct (memN p finals); [discriminate|].
    assert (Is : In s L) by (apply (HT (s, p, k)); left; reflexivity).
    assert (HT' : forall t, In t T -> In (tspec t) L) by (intros t Ht; apply HT; right; exact Ht).
    destruct (lookup m p) as [[s0 k0]|].
    + destruct (k =? k0); [discriminate|]. eapply IH; [exact HT'| |exact E].
      destruct (k <? k0); [apply rng_set; assumption | exact R].
    + eapply IH; [exact HT'| |exact E]. apply rng_set; assumption.
Qed.

Lemma modify_rng : forall fx finals L T m g m' g',
  (forall t, In t T -> In (tspec t) L) -> rng m L -> rngg g L ->
  modify fx finals T m g = OK (m', g') -> rng m' L /\ rngg g' L.
Proof.
  induction T as [|[[s p] k] T IH]; intros m g m' g' HT R G E; cbn in E.
  - inversion E; subst. auto.
  - destruct (fx && memN p finals); [discriminate|].
    assert (Is : In s L) by (apply (HT (s, p, k)); left; reflexivity).
    assert (HT' : forall t, In t T -> In (tspec t) L) by (intros t Ht; apply HT; right; exact Ht).
    destruct (lookup m p) as [[s0 k0]|].
    + destruct (k <? k0).
      * eapply IH; [exact HT'| | |exact E]; [apply rng_set; assumption | exact G].
      * destruct (memN p (modifiable s)).
        -- destruct (lookup g p); [discriminate|].
           eapply IH; [exact HT'| | |exact E]; [exact R | apply rngg_set; assumption].
        -- eapply IH; eauto.
    + eapply IH; [exact HT'| | |exact E]; [apply rng_set; assumption | exact G].
Qed.

Lemma add_defaults_rng : forall L ds m ad, rng m (L ++ ad) ->
  rng (fst (add_defaults ds m ad)) (L ++ snd (add_defaults ds m ad)).
Proof.
  induction ds as [|[p d] ds IH]; intros m ad R; cbn [add_defaults].
  - exact R.
  - destruct (lookup m p).
    + apply IH. exact R.
    + apply IH. apply rng_set.
      * eapply rng_incl; [exact R|]. intros x Hx. rewrite app_assoc. apply in_app_iff. left. exact Hx.
      * rewrite app_assoc. apply in_app_iff. right. left. reflexivity.
Qed.

Lemma children_closed : forall m g L, rng m L -> rngg g L ->
  forall v x, In (Some x) (children m g v) -> In x L.
Proof.
  intros m g L R G v x H. unfold children in H. apply in_app_iff in H. destruct H as [H|H].
  - apply in_map_iff in H. destruct H as [d [E _]]. unfold supplier in E.
    destruct (lookup g d) eqn:Eg.
    + inversion E; subst. eapply G; eauto.
    + destruct (lookup m d) as [[y j]|] eqn:Em; cbn in E; [|discriminate].
      inversion E; subst. eapply R; eauto.
  - destruct (mod_inv g v); [|contradiction]. destruct H as [H|[]].
    destruct (lookup m p) as [[y j]|] eqn:Em; cbn in H; [|discriminate].
    inversion H; subst. eapply R; eauto.
Qed.

(* ------------------------------------------------------------------ first occurrences and ranks *)
Fixpoint idx (v : spec) (l : list spec) : nat :=
  match l with [] => O | y :: r => if spec_eq_dec v y then O else S (idx v r) end.

Lemma idx_app_in : forall x d1 r, In x d1 -> (idx x (d1 ++ r) < length d1)%nat.
Proof.
  induction d1 as [|y d1 IH]; intros r H; [contradiction|]. cbn.
  destruct (spec_eq_dec x y); [lia|]. destruct H as [H|H]; [congruence|].
  specialize (IH r H). lia.
Qed.

Lemma idx_first : forall v d1 d2, ~ In v d1 -> idx v (d1 ++ v :: d2) = length d1.
Proof.
  induction d1 as [|y d1 IH]; intros d2 H; cbn.
  - destruct (spec_eq_dec v v); congruence.
  - destruct (spec_eq_dec v y) as [->|N]; [exfalso; apply H; left; reflexivity|].
    f_equal. apply IH. intros H'. apply H. right. exact H'.
Qed.

Lemma in_split_first : forall (v : spec) l, In v l -> exists d1 d2, l = d1 ++ v :: d2 /\ ~ In v d1.
Proof.
  induction l as [|y l IH]; intros H; [contradiction|].
  destruct (spec_eq_dec v y) as [->|N].
  - exists [], l. split; [reflexivity | intros []].
  - destruct H as [H|H]; [congruence|]. destruct (IH H) as [d1 [d2 [E Hn]]].
    exists (y :: d1), d2. split; [cbn; congruence|]. intros [H'|H']; [congruence | auto].
Qed.

Lemma topo_ranked : forall ch o, topo ch o ->
  forall v, In v o -> forall c, In c (ch v) ->
    exists x, c = Some x /\ In x o /\ (idx x o < idx v o)%nat.
Proof.
  intros ch o T v Hv c Hc.
  destruct (in_split_first v o Hv) as [d1 [d2 [E Hn]]].
  destruct (topo_before ch o T d1 v d2 E c Hc) as [x [Ex Ix]].
  exists x. split; [exact Ex|]. subst o. split.
  - apply in_app_iff. left. exact Ix.
  - rewrite (idx_first v d1 d2 Hn). apply idx_app_in. exact Ix.
Qed.

Definition dfs_class (e : err) : Prop := e = ECycle \/ e = EMissingDep.

(* success of the DFS does not depend on the order of the roots *)
Lemma dfs_perm_ok : forall ch all all' o,
  Permutation all all' ->
  (forall v, In v all -> forall x, In (Some x) (ch v) -> In x all) ->
  visit_all ch (S (length all)) all [] = OK o ->
  exists o', visit_all ch (S (length all')) all' [] = OK o'.
Proof.
  intros ch all all' o P C E.
  destruct (visit_all_sound ch _ _ _ _ (topo_nil ch) E) as [T [_ I]].
  destruct (visit_all ch (S (length all')) all' []) as [o'|e] eqn:E'; [eexists; reflexivity|].
  exfalso.
  assert (e = EFuel).
  { eapply (visit_all_complete ch o (fun v => idx v o)); [| |exact E'].
    - intros v Hv c Hc. apply (topo_ranked ch o T v Hv c Hc).
    - intros x Hx. apply I. eapply Permutation_in; [symmetry; exact P | exact Hx]. }
  subst e. revert E'. apply (visit_all_fuel ch all').
  - intros v Hv x Hx. eapply Permutation_in; [exact P|]. eapply C; [|exact Hx].
    eapply Permutation_in; [symmetry; exact P | exact Hv].
  - apply incl_refl.
  - lia.
Qed.

Lemma dfs_err_class : forall ch all e,
  (forall v, In v all -> forall x, In (Some x) (ch v) -> In x all) ->
  visit_all ch (S (length all)) all [] = Err e -> dfs_class e.
Proof.
  intros ch all e C E. destruct (visit_all_errs ch _ _ _ _ E) as [H|[H|H]]; [left; exact H | right; exact H|].
  subst e. exfalso. revert E. apply (visit_all_fuel ch all C); [apply incl_refl | lia].
Qed.

(* ------------------------------------------------------------------ the whole procedure *)
Definition is_err {A} (r : result A) : Prop := match r with Err _ => True | OK _ => False end.

Definition err_class (e : err) : nat :=
  match e with
  | ESelfModify => 0 | EFinal | EAmbiguous => 1 | EModifiedTwice => 2
  | ECycle | EMissingDep => 3 | EFuel => 4
  end%nat.

Definition same_outcome (r r' : result resolved) : Prop :=
  match r, r' with
  | OK a, OK b => meq (r_props a) (r_props b) /\ r_mods a = r_mods b /\ Permutation (r_all a) (r_all b)
  | Err e, Err e' => err_class e = err_class e'
  | _, _ => False
  end.

Definition nm (s : spec) : bool := negb (is_mod s).

(* the state before the DFS *)
Lemma pre_dfs_closed : forall fx specs defaults finals m1 m2 g,
  normal_phase fx finals (triples (filter nm specs)) = OK m1 ->
  modify fx finals (triples (filter is_mod specs)) m1 [] = OK (m2, g) ->
  let m3 := fst (add_defaults defaults m2 []) in
  let all := specs ++ snd (add_defaults defaults m2 []) in
  forall v x, In (Some x) (children m3 g v) -> In x all.
Proof.
  intros fx specs defaults finals m1 m2 g E1 E2 m3 all.
  assert (F1 : forall t, In t (triples (filter nm specs)) -> In (tspec t) specs).
  { intros t Ht. apply triples_spec_in in Ht. apply filter_In in Ht. tauto. }
  assert (F2 : forall t, In t (triples (filter is_mod specs)) -> In (tspec t) specs).
  { intros t Ht. apply triples_spec_in in Ht. apply filter_In in Ht. tauto. }
  assert (R1 : rng m1 specs).
  { unfold normal_phase in E1. destruct fx.
    - eapply normal_new_rng; [exact F1| |exact E1]. intros p x k H. discriminate.
    - eapply normal_old_rng; [exact F1| |exact E1]. intros p x k H. discriminate. }
  assert (G0 : rngg (@nil (prop * spec)) specs) by (intros p x H; discriminate).
  destruct (modify_rng _ _ specs _ _ _ _ _ F2 R1 G0 E2) as [R2 G2].
  apply children_closed.
  - subst m3 all. apply add_defaults_rng. rewrite app_nil_r. exact R2.
  - intros p x H. apply in_app_iff. left. eapply G2; eauto.
Qed.

Lemma perm_short : forall A (l l' : list A), Permutation l l' -> (length l <= 1)%nat -> l = l'.
Proof.
  intros A l l' P L. destruct l as [|a [|b l]].
  - apply Permutation_nil in P. congruence.
  - apply Permutation_length_1_inv in P. congruence.
  - cbn in L. lia.
Qed.

Lemma nodupb_perm : forall l l', Permutation l l' -> nodupb l = nodupb l'.
Proof.
  intros l l' P. destruct (nodupb l) eqn:E, (nodupb l') eqn:E'; try reflexivity.
  - apply nodupb_NoDup in E. apply (Permutation_NoDup P) in E. apply nodupb_NoDup in E. congruence.
  - apply nodupb_NoDup in E'. apply (Permutation_NoDup (Permutation_sym P)) in E'.
    apply nodupb_NoDup in E'. congruence.
Qed.

Theorem resolve_perm : forall specs specs' defaults finals,
  Permutation specs specs' -> (length (filter is_mod specs) <= 1)%nat ->
  same_outcome (resolve specs defaults finals) (resolve specs' defaults finals).
Proof.
  intros specs specs' defaults finals P L. unfold resolve, resolve_gen.
  rewrite <- (nodupb_perm (map sname specs) (map sname specs')) by (apply Permutation_map; exact P).
  destruct (nodupb (map sname specs)); cbn [negb]; [|reflexivity].
  change (fun s : spec => negb (is_mod s)) with nm.
  assert (PT : Permutation (triples (filter nm specs)) (triples (filter nm specs'))).
  { unfold triples. apply Permutation_flat_map. apply Permutation_filter'. exact P. }
  assert (EM : filter is_mod specs' = filter is_mod specs).
  { symmetry. apply perm_short; [apply Permutation_filter'; exact P | exact L]. }
  rewrite EM.
  pose proof (normal_new_perm finals _ _ PT) as HN. unfold normal_phase.
  destruct (normal_new finals (triples (filter nm specs)) [] []) as [m1|e1] eqn:E1;
    destruct (normal_new finals (triples (filter nm specs')) [] []) as [m1'|e1'] eqn:E1'; try contradiction.
  2:{ destruct HN as [[?|?] [?|?]]; subst; reflexivity. }
  pose proof (modify_meq true finals (triples (filter is_mod specs)) m1 m1' [] HN) as HM.
  destruct (modify true finals (triples (filter is_mod specs)) m1 []) as [[m2 g]|e2] eqn:E2;
    destruct (modify true finals (triples (filter is_mod specs)) m1' []) as [[m2' g']|e2'] eqn:E2'; try contradiction.
  2:{ subst. reflexivity. }
  destruct HM as [HM Hg]. subst g'.
  pose proof (add_defaults_meq defaults m2 m2' [] HM) as [HA1 HA2].
  pose proof (pre_dfs_closed true specs defaults finals m1 m2 g E1 E2) as C. cbn zeta in C.
  assert (E2'' : modify true finals (triples (filter is_mod specs')) m1' [] = OK (m2', g)) by (rewrite EM; exact E2').
  pose proof (pre_dfs_closed true specs' defaults finals m1' m2' g E1' E2'') as C'. cbn zeta in C'.
  destruct (add_defaults defaults m2 []) as [m3 added] eqn:EA.
  destruct (add_defaults defaults m2' []) as [m3' added'] eqn:EA'.
  cbn [fst snd] in *. subst added'.
  rewrite (visit_all_ext (children m3' g) (children m3 g)) by (intros v; symmetry; apply children_meq; exact HA1).
  assert (PA : Permutation (specs ++ added) (specs' ++ added)) by (apply Permutation_app_tail; exact P).
  assert (C2 : forall v, In v (specs ++ added) -> forall x, In (Some x) (children m3 g v) -> In x (specs ++ added))
    by (intros v _ x Hx; eapply C; exact Hx).
  assert (C2' : forall v, In v (specs' ++ added) -> forall x, In (Some x) (children m3 g v) -> In x (specs' ++ added)).
  { intros v _ x Hx. eapply (C' v). rewrite <- (children_meq m3 m3' g v HA1). exact Hx. }
  destruct (visit_all (children m3 g) (S (length (specs ++ added))) (specs ++ added) []) as [o|e] eqn:EO;
    destruct (visit_all (children m3 g) (S (length (specs' ++ added))) (specs' ++ added) []) as [o'|e'] eqn:EO'.
  - cbn. auto.
  - destruct (dfs_perm_ok _ _ _ _ PA C2 EO) as [o' Ho']. congruence.
  - destruct (dfs_perm_ok _ _ _ _ (Permutation_sym PA) C2' EO') as [o Ho]. congruence.
  - cbn. destruct (dfs_err_class _ _ _ C2 EO) as [?|?], (dfs_err_class _ _ _ C2' EO') as [?|?]; subst; reflexivity.
Qed.

(* the code as found in round 0 is order dependent (F1) *)
Definition specs_f1 := [sA; sB; sC].
Definition specs_f1' := [sA; sC; sB].
Theorem resolve_order_dependent_refuted :
  Permutation specs_f1 specs_f1' /\ (length (filter is_mod specs_f1) <= 1)%nat /\
  ~ same_outcome (resolve_old specs_f1 [] []) (resolve_old specs_f1' [] []).
Proof.
  split; [apply perm_skip; apply perm_swap|]. split; [cbn; lia|]. vm_compute. intros H. exact H.
Qed.

(* fuel is never exhausted *)
Theorem resolve_no_fuel : forall fx specs defaults finals,
  resolve_gen fx specs defaults finals <> Err EFuel.
Proof.
  intros fx specs defaults finals. unfold resolve_gen.
  destruct (negb (nodupb (map sname specs))); [discriminate|].
  change (fun s : spec => negb (is_mod s)) with nm.
  destruct (normal_phase fx finals (triples (filter nm specs))) as [m1|e1] eqn:E1.
  2:{ intros H. inversion H; subst. unfold normal_phase in E1. destruct fx.
      - pose proof (normal_new_correct finals (triples (filter nm specs))) as K. rewrite E1 in K. exact K.
      - clear -E1. revert E1. generalize (@nil (prop * (spec * Z))).
        induction (triples (filter nm specs)) as [|[[s p] k] T IH]; intros m E; cbn in E; [discriminate|].
        destruct (memN p finals); [discriminate|]. destruct (lookup m p) as [[s0 k0]|].
        + destruct (k =? k0); [discriminate|]. eapply IH; eauto.
        + eapply IH; eauto. }
  destruct (modify fx finals (triples (filter is_mod specs)) m1 []) as [[m2 g]|e2] eqn:E2.
  2:{ intros H. inversion H; subst. clear -E2. revert E2. generalize (@nil (prop * spec)). generalize m1.
      induction (triples (filter is_mod specs)) as [|[[s p] k] T IH]; intros m g E; cbn in E; [discriminate|].
      destruct (fx && memN p finals); [discriminate|]. destruct (lookup m p) as [[s0 k0]|].
      - destruct (k <? k0); [eapply IH; eauto|]. destruct (memN p (modifiable s)); [|eapply IH; eauto].
        destruct (lookup g p); [discriminate | eapply IH; eauto].
      - eapply IH; eauto. }
  pose proof (pre_dfs_closed fx specs defaults finals m1 m2 g E1 E2) as C. cbn zeta in C.
  destruct (add_defaults defaults m2 []) as [m3 added] eqn:EA. cbn [fst snd] in C.
  destruct (visit_all (children m3 g) (S (length (specs ++ added))) (specs ++ added) []) as [o|e] eqn:EO; [discriminate|].
  intros H. inversion H; subst. revert EO. apply (visit_all_fuel _ (specs ++ added)).
  - intros v _ x Hx. eapply C; exact Hx.
  - apply incl_refl.
  - lia.
Qed.

(* evaluation order: every specifier comes after the suppliers of everything it depends on, and a
   modifier after the specifier whose value it modifies; every specifier is evaluated *)
Theorem order_topological : forall fx specs defaults finals r,
  resolve_gen fx specs defaults finals = OK r ->
  (forall d1 v d2, r_order r = d1 ++ v :: d2 ->
     (forall p, In p (deps v) -> exists x, supplier (r_props r) (r_mods r) p = Some x /\ In x d1) /\
     (forall p, mod_inv (r_mods r) v = Some p ->
        exists x k, lookup (r_props r) p = Some (x, k) /\ In x d1)) /\
  incl (r_all r) (r_order r) /\ incl specs (r_all r).
Proof.
  intros fx specs defaults finals r E. unfold resolve_gen in E.
  destruct (negb (nodupb (map sname specs))); [discriminate|].
  destruct (normal_phase fx finals _) as [m1|]; [|discriminate].
  destruct (modify fx finals _ m1 []) as [[m2 g]|]; [|discriminate].
  destruct (add_defaults defaults m2 []) as [m3 added].
  destruct (visit_all (children m3 g) _ (specs ++ added) []) as [o|] eqn:EO; [|discriminate].
  inversion E; subst r. cbn [r_props r_mods r_all r_order].
  destruct (visit_all_sound _ _ _ _ _ (topo_nil _) EO) as [T [_ I]].
  split; [|split; [exact I | intros x Hx; apply in_app_iff; left; exact Hx]].
  intros d1 v d2 Eo. pose proof (topo_before _ _ T d1 v d2 Eo) as K. split.
  - intros p Hp. apply K. unfold children. apply in_app_iff. left. apply in_map. exact Hp.
  - intros p Hp. destruct (K (option_map fst (lookup m3 p))) as [x [Ex Ix]].
    + unfold children. apply in_app_iff. right. rewrite Hp. left. reflexivity.
    + destruct (lookup m3 p) as [[y k]|]; cbn in Ex; [|discriminate]. inversion Ex; subst.
      exists x, k. auto.
Qed.

(* a final property can be neither specified nor modified (repaired algorithm) *)
Lemma modify_final : forall finals T m g, (exists t, In t T /\ In (tprop t) finals) ->
  is_err (modify true finals T m g).
Proof.
  induction T as [|[[s p] k] T IH]; intros m g [t [Ht Hf]]; [contradiction|]. cbn [modify].
  destruct (memN p finals) eqn:F; cbn [andb]; [exact I|].
  assert (Ex : exists t, In t T /\ In (tprop t) finals).
  { destruct Ht as [Ht|Ht]; [|eauto]. subst t. unfold tprop in Hf. cbn in Hf.
    apply memN_In in Hf. congruence. }
  destruct (lookup m p) as [[s0 k0]|].
  - destruct (k <? k0); [apply IH; exact Ex|]. destruct (memN p (modifiable s)); [|apply IH; exact Ex].
    destruct (lookup g p); [exact I | apply IH; exact Ex].
  - apply IH. exact Ex.
Qed.

Theorem final_rejected : forall specs defaults finals s p k,
  In s specs -> In (p, k) (prios s) -> In p finals -> is_err (resolve specs defaults finals).
Proof.
  intros specs defaults finals s p k Hs Hp Hf. unfold resolve, resolve_gen.
  destruct (negb (nodupb (map sname specs))); [exact I|].
  change (fun s : spec => negb (is_mod s)) with nm. unfold normal_phase.
  pose proof (normal_new_correct finals (triples (filter nm specs))) as K.
  destruct (normal_new finals (triples (filter nm specs)) [] []) as [m1|]; [|exact I].
  destruct K as [_ [NF _]].
  destruct (is_mod s) eqn:M.
  - pose proof (modify_final finals (triples (filter is_mod specs)) m1 []) as MF.
    destruct (modify true finals (triples (filter is_mod specs)) m1 []); [|exact I].
    exfalso. apply MF. exists (s, p, k). split; [|exact Hf].
    apply triples_in. split; [apply filter_In; auto | exact Hp].
  - exfalso. apply (NF (s, p, k)); [|exact Hf].
    apply triples_in. split; [apply filter_In; split; [exact Hs | unfold nm; rewrite M; reflexivity] | exact Hp].
Qed.

(* as found, a modifying specifier could take over a final property *)
Definition sOn := mkSpec 9%N [(1%N, 1)] [] true [1%N].
Theorem final_rejected_old_refuted :
  In sOn [sOn] /\ In (1%N, 1) (prios sOn) /\ In 1%N [1%N] /\ ~ is_err (resolve_old [sOn] [] [1%N]).
Proof. repeat split; try (left; reflexivity). vm_compute. intros H. exact H. Qed.

(* two specifiers giving a property the same priority are an error whatever else is written *)
Theorem tie_rejected : forall specs defaults finals s s' p k,
  In s specs -> In s' specs -> s <> s' -> is_mod s = false -> is_mod s' = false ->
  In (p, k) (prios s) -> In (p, k) (prios s') -> is_err (resolve specs defaults finals).
Proof.
  intros specs defaults finals s s' p k Hs Hs' Hne M M' Hp Hp'. unfold resolve, resolve_gen.
  destruct (negb (nodupb (map sname specs))); [exact I|].
  change (fun s : spec => negb (is_mod s)) with nm. unfold normal_phase.
  pose proof (normal_new_correct finals (triples (filter nm specs))) as K.
  destruct (normal_new finals (triples (filter nm specs)) [] []) as [m1|]; [|exact I].
  destruct K as [TF _]. exfalso.
  assert (A : In (s, p, k) (triples (filter nm specs))).
  { apply triples_in. split; [apply filter_In; split; [exact Hs | unfold nm; rewrite M; reflexivity] | exact Hp]. }
  assert (B : In (s', p, k) (triples (filter nm specs))).
  { apply triples_in. split; [apply filter_In; split; [exact Hs' | unfold nm; rewrite M'; reflexivity] | exact Hp']. }
  pose proof (NoDup_map_inj _ _ pk _ _ _ TF A B eq_refl) as E. inversion E. contradiction.
Qed.

(* ------------------------------------------------------------------ at most one modifying specifier *)
Lemma NoDup_map_filter : forall A B (f : A -> B) (g : A -> bool) l,
  NoDup (map f l) -> NoDup (map f (filter g l)).
Proof.
  induction l as [|a l IH]; cbn; intros H; [constructor|]. inversion H as [|? ? Hn Hd]; subst.
  destruct (g a); cbn; [constructor|]; auto.
  intros Hin. apply Hn. apply in_map_iff in Hin. destruct Hin as [x [E Hx]].
  apply filter_In in Hx. apply in_map_iff. exists x. tauto.
Qed.

(* all modifying specifiers share one name (true of Scenic: only `on`) + no name used twice *)
Definition one_mod_name (s : list spec) : Prop :=
  forall a b, In a s -> In b s -> is_mod a = true -> is_mod b = true -> sname a = sname b.

Theorem single_modifier : forall s, one_mod_name s -> NoDup (map sname s) ->
  (length (filter is_mod s) <= 1)%nat.
Proof.
  intros s H ND0. pose proof (NoDup_map_filter _ _ sname is_mod s ND0) as ND.
  destruct (filter is_mod s) as [|a [|b r]] eqn:E; cbn; try lia. exfalso.
  assert (Ia : In a (filter is_mod s)) by (rewrite E; left; reflexivity).
  assert (Ib : In b (filter is_mod s)) by (rewrite E; right; left; reflexivity).
  apply filter_In in Ia. apply filter_In in Ib. cbn in ND. inversion ND as [|? ? Hn _]; subst.
  apply Hn. left. symmetry. apply H; tauto.
Qed.

Theorem resolve_perm_builtin : forall specs specs' defaults finals,
  one_mod_name specs -> Permutation specs specs' ->
  same_outcome (resolve specs defaults finals) (resolve specs' defaults finals).
Proof.
  intros specs specs' defaults finals H P.
  destruct (nodupb (map sname specs)) eqn:E.
  - apply resolve_perm; [exact P|]. apply single_modifier; [exact H|]. apply nodupb_NoDup. exact E.
  - unfold resolve, resolve_gen.
    rewrite <- (nodupb_perm (map sname specs) (map sname specs')) by (apply Permutation_map; exact P).
    rewrite E. cbn. reflexivity.
Qed.

(* ------------------------------------------------------------------ the result, property by property *)
Lemma modify_frame : forall fx finals T m g m' g' p,
  ~ In p (map tprop T) -> modify fx finals T m g = OK (m', g') ->
  lookup m' p = lookup m p /\ lookup g' p = lookup g p.
Proof.
  induction T as [|[[s q] k] T IH]; intros m g m' g' p Hn E; cbn in E.
  - inversion E; subst. auto.
  - destruct (fx && memN q finals); [discriminate|].
    assert (Hq : p <> q) by (intros ->; apply Hn; left; reflexivity).
    assert (Hn' : ~ In p (map tprop T)) by (intros H; apply Hn; right; exact H).
    destruct (lookup m q) as [[s0 k0]|].
    + destruct (k <? k0).
      * destruct (IH _ _ _ _ _ Hn' E) as [A B]. rewrite A, B. rewrite lookup_set_neq by exact Hq. auto.
      * destruct (memN q (modifiable s)).
        -- destruct (lookup g q); [discriminate|].
           destruct (IH _ _ _ _ _ Hn' E) as [A B]. rewrite A, B. rewrite lookup_set_neq by exact Hq. auto.
        -- eapply IH; eauto.
    + destruct (IH _ _ _ _ _ Hn' E) as [A B]. rewrite A, B. rewrite lookup_set_neq by exact Hq. auto.
Qed.

Lemma modify_ok_nofinal : forall finals T m g m' g',
  modify true finals T m g = OK (m', g') -> nofinal finals T.
Proof.
  induction T as [|[[s q] k] T IH]; intros m g m' g' E t Ht; [contradiction|]. cbn in E.
  destruct (memN q finals) eqn:F; cbn [andb] in E; [discriminate|].
  destruct Ht as [Ht|Ht].
  - subst t. unfold tprop. cbn. apply memN_false. exact F.
  - revert t Ht. change (nofinal finals T).
    destruct (lookup m q) as [[s0 k0]|].
    + destruct (k <? k0); [eapply IH; eauto|]. destruct (memN q (modifiable s)); [|eapply IH; eauto].
      destruct (lookup g q); [discriminate | eapply IH; eauto].
    + eapply IH; eauto.
Qed.

(* what a modifying specifier does to a property it mentions (once) *)
Lemma modify_at : forall fx finals T m g m' g' s p k,
  NoDup (map tprop T) -> In (s, p, k) T -> lookup g p = None ->
  modify fx finals T m g = OK (m', g') ->
  match lookup m p with
  | Some (s0, k0) =>
      if k <? k0 then lookup m' p = Some (s, k) /\ lookup g' p = None
      else lookup m' p = Some (s0, k0) /\ lookup g' p = (if memN p (modifiable s) then Some s else None)
  | None => lookup m' p = Some (s, k) /\ lookup g' p = None
  end.
Proof.
  induction T as [|[[s1 q] k1] T IH]; intros m g m' g' s p k ND Hin Hg E; [contradiction|].
  cbn in ND. inversion ND as [|? ? Hn ND']; subst. cbn in E.
  destruct (fx && memN q finals); [discriminate|].
  destruct Hin as [Hin|Hin].
  - inversion Hin; subst s1 q k1. clear Hin. unfold tprop in Hn. cbn in Hn.
    destruct (lookup m p) as [[s0 k0]|] eqn:Em.
    + destruct (k <? k0).
      * destruct (modify_frame _ _ _ _ _ _ _ _ Hn E) as [A B]. rewrite A, B, lookup_set_eq. auto.
      * destruct (memN p (modifiable s)).
        -- rewrite Hg in E. destruct (modify_frame _ _ _ _ _ _ _ _ Hn E) as [A B].
           rewrite A, B, lookup_set_eq. auto.
        -- destruct (modify_frame _ _ _ _ _ _ _ _ Hn E) as [A B]. rewrite A, B. auto.
    + destruct (modify_frame _ _ _ _ _ _ _ _ Hn E) as [A B]. rewrite A, B, lookup_set_eq. auto.
  - assert (Hq : p <> q).
    { intros ->. apply Hn. apply in_map_iff. exists (s, q, k). auto. }
    unfold tprop in Hn. cbn in Hn.
    destruct (lookup m q) as [[s0 k0]|].
    + destruct (k1 <? k0).
      * specialize (IH _ _ _ _ _ _ _ ND' Hin Hg E). rewrite lookup_set_neq in IH by exact Hq. exact IH.
      * destruct (memN q (modifiable s1)).
        -- destruct (lookup g q); [discriminate|].
           assert (Hg' : lookup (set q s1 g) p = None) by (rewrite lookup_set_neq by exact Hq; exact Hg).
           exact (IH _ _ _ _ _ _ _ ND' Hin Hg' E).
        -- exact (IH _ _ _ _ _ _ _ ND' Hin Hg E).
    + specialize (IH _ _ _ _ _ _ _ ND' Hin Hg E). rewrite lookup_set_neq in IH by exact Hq. exact IH.
Qed.

Lemma add_defaults_lookup : forall ds m ad p,
  lookup (fst (add_defaults ds m ad)) p =
  match lookup m p with
  | Some v => Some v
  | None => option_map (fun d => (d, -1)) (lookup ds p)
  end.
Proof.
  induction ds as [|[q d] ds IH]; intros m ad p; cbn [add_defaults].
  - cbn. destruct (lookup m p); reflexivity.
  - destruct (lookup m q) eqn:Eq.
    + rewrite IH. destruct (lookup m p) eqn:Ep; [reflexivity|]. cbn [lookup].
      destruct (N.eqb p q) eqn:Epq; [|reflexivity]. apply N.eqb_eq in Epq. congruence.
    + rewrite IH. destruct (N.eq_dec p q) as [->|Hpq].
      * rewrite lookup_set_eq, Eq. cbn [lookup]. rewrite N.eqb_refl. reflexivity.
      * rewrite lookup_set_neq by exact Hpq. cbn [lookup]. apply N.eqb_neq in Hpq. rewrite Hpq. reflexivity.
Qed.

Lemma triples_tprop : forall ss p, In p (map tprop (triples ss)) <-> exists s k, In s ss /\ In (p, k) (prios s).
Proof.
  intros ss p. rewrite in_map_iff. split.
  - intros [[[s q] k] [E H]]. unfold tprop in E. cbn in E. subst q. apply triples_in in H. exists s, k. exact H.
  - intros [s [k H]]. exists (s, p, k). split; [reflexivity | apply triples_in; exact H].
Qed.

(* The reference's procedure, steps 1-3: on success no name is used twice, no two (normal) specifiers tie on
   any property at any level, no final property is mentioned; a property that no modifying specifier
   mentions is held by its unique highest-priority specifier, else by the class default, and is not modified. *)
Theorem resolve_matches_doc : forall specs defaults finals r,
  resolve specs defaults finals = OK r ->
  let Tn := triples (filter nm specs) in
  NoDup (map sname specs) /\ tie_free Tn /\
  (forall s p k, In s specs -> In (p, k) (prios s) -> ~ In p finals) /\
  forall p, (forall s k, In s specs -> is_mod s = true -> ~ In (p, k) (prios s)) ->
    lookup (r_mods r) p = None /\
    match lookup (r_props r) p with
    | Some (x, k) => best Tn p x k \/ ((forall s k', ~ In (s, p, k') Tn) /\ lookup defaults p = Some x /\ k = -1)
    | None => (forall s k', ~ In (s, p, k') Tn) /\ lookup defaults p = None
    end.
Proof.
  intros specs defaults finals r E Tn. unfold resolve, resolve_gen in E.
  destruct (nodupb (map sname specs)) eqn:ND; cbn [negb] in E; [|discriminate].
  change (fun s : spec => negb (is_mod s)) with nm in E. unfold normal_phase in E. fold Tn in E.
  pose proof (normal_new_correct finals Tn) as K.
  destruct (normal_new finals Tn [] []) as [m1|]; [|discriminate].
  destruct K as [TF [NF W]].
  destruct (modify true finals (triples (filter is_mod specs)) m1 []) as [[m2 g]|] eqn:E2; [|discriminate].
  pose proof (add_defaults_lookup defaults m2 []) as AL.
  destruct (add_defaults defaults m2 []) as [m3 added]. cbn [fst] in AL.
  destruct (visit_all (children m3 g) _ (specs ++ added) []); [|discriminate].
  inversion E; subst r. cbn [r_props r_mods].
  split; [apply nodupb_NoDup; exact ND|]. split; [exact TF|]. split.
  - intros s p k Hs Hp. destruct (is_mod s) eqn:M.
    + apply (modify_ok_nofinal _ _ _ _ _ _ E2 (s, p, k)). apply triples_in. split; [apply filter_In; auto | exact Hp].
    + apply (NF (s, p, k)). apply triples_in. split; [apply filter_In; split; [exact Hs | unfold nm; rewrite M; reflexivity] | exact Hp].
  - intros p Hp.
    assert (Hn : ~ In p (map tprop (triples (filter is_mod specs)))).
    { intros H. apply triples_tprop in H. destruct H as [s [k [Hs Hk]]]. apply filter_In in Hs.
      apply (Hp s k); tauto. }
    destruct (modify_frame _ _ _ _ _ _ _ _ Hn E2) as [A B]. split; [rewrite B; reflexivity|].
    rewrite AL, A. specialize (W p). destruct (lookup m1 p) as [[x k]|].
    + left. exact W.
    + destruct (lookup defaults p); cbn; auto.
Qed.

(* ... and a property the (single) modifying specifier M mentions: M specifies it when it has strictly
   higher priority than every other specifier (or nobody else specifies it); otherwise the best normal
   specifier keeps it and M modifies it exactly when the property is modifiable. *)
Theorem resolve_matches_doc_modifier : forall specs defaults finals r M p k,
  resolve specs defaults finals = OK r ->
  filter is_mod specs = [M] -> NoDup (map fst (prios M)) -> In (p, k) (prios M) ->
  let Tn := triples (filter nm specs) in
  (forall s0 k0, best Tn p s0 k0 ->
     if k <? k0 then lookup (r_props r) p = Some (M, k) /\ lookup (r_mods r) p = None
     else lookup (r_props r) p = Some (s0, k0) /\
          lookup (r_mods r) p = (if memN p (modifiable M) then Some M else None)) /\
  ((forall s0 k0, ~ In (s0, p, k0) Tn) -> lookup (r_props r) p = Some (M, k) /\ lookup (r_mods r) p = None).
Proof.
  intros specs defaults finals r M p k E EM NDM Hp Tn. unfold resolve, resolve_gen in E.
  destruct (nodupb (map sname specs)); cbn [negb] in E; [|discriminate].
  change (fun s : spec => negb (is_mod s)) with nm in E. unfold normal_phase in E. fold Tn in E.
  pose proof (normal_new_correct finals Tn) as K.
  destruct (normal_new finals Tn [] []) as [m1|]; [|discriminate].
  destruct K as [TF [NF W]]. rewrite EM in E.
  destruct (modify true finals (triples [M]) m1 []) as [[m2 g]|] eqn:E2; [|discriminate].
  pose proof (add_defaults_lookup defaults m2 []) as AL.
  destruct (add_defaults defaults m2 []) as [m3 added]. cbn [fst] in AL.
  destruct (visit_all (children m3 g) _ (specs ++ added) []); [|discriminate].
  inversion E; subst r. cbn [r_props r_mods].
  assert (NDT : NoDup (map tprop (triples [M]))).
  { unfold triples. cbn. rewrite app_nil_r. unfold triples_of. rewrite map_map. cbn. exact NDM. }
  assert (HinT : In (M, p, k) (triples [M])) by (apply triples_in; split; [left; reflexivity | exact Hp]).
  assert (G0 : lookup (@nil (prop * spec)) p = None) by reflexivity.
  pose proof (modify_at _ _ _ _ _ _ _ _ _ _ NDT HinT G0 E2) as MA.
  specialize (W p). rewrite AL. split.
  - intros s0 k0 B. destruct (lookup m1 p) as [[s1 k1]|].
    + assert (k1 = k0) by (destruct W as [Wi Wm], B as [Bi Bm]; apply Wm in Bi; apply Bm in Wi; lia). subst k1.
      assert (s1 = s0).
      { destruct W as [Wi _], B as [Bi _].
        pose proof (NoDup_map_inj _ _ pk _ _ _ TF Wi Bi eq_refl) as Q. inversion Q. reflexivity. }
      subst s1. destruct (k <? k0); destruct MA as [A1 A2]; rewrite A1; auto.
    + exfalso. destruct B as [Bi _]. eapply W; eauto.
  - intros Hnone. destruct (lookup m1 p) as [[s1 k1]|].
    + exfalso. destruct W as [Wi _]. eapply Hnone; eauto.
    + destruct MA as [A1 A2]. rewrite A1. auto.
Qed.
