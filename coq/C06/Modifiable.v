(* C06, round 3 -- what a modifying specifier may touch.
   [assign_phase] = steps 0-2 of the resolution on their own (who specifies / modifies what), used by the
   regenerated probe table (gen/C06_SpecTable.v: documented rows vs behaviour observed through public syntax).
   Theorems: a property ends up *modified* only by a modifying specifier of the written list that lists the
   property in its own modifiable set and itself gives the property a priority number that does not beat the
   holder's; a property outside every modifiable set is never modified, whatever the order and the number of
   modifying specifiers. *)
From Coq Require Import ZArith NArith List Bool Lia.
From Scenic Require Import C06.Specifier C06.SpecifierProofs.
Import ListNotations.
Open Scope Z_scope.

Definition assign_phase (fixed : bool) (specs : list spec) (finals : list prop)
  : result (pmap * amap spec) :=
  if negb (nodupb (map sname specs)) then Err ESelfModify else
  match normal_phase fixed finals (triples (filter (fun s => negb (is_mod s)) specs)) with
  | Err e => Err e
  | OK m1 => modify fixed finals (triples (filter is_mod specs)) m1 []
  end.

(* outcome of a two-specifier probe [w; i] for property p: 0 kept (held by somebody, not modified),
   1 modified, 2 refused, 3 not held at all *)
Definition probe_outcome (specs : list spec) (p : prop) : N :=
  match assign_phase true specs [] with
  | Err _ => 2%N
  | OK (m, g) =>
      match lookup g p with
      | Some _ => 1%N
      | None => match lookup m p with Some _ => 0%N | None => 3%N end
      end
  end.

Lemma resolve_gen_assign : forall fx specs d f r,
  resolve_gen fx specs d f = OK r ->
  exists m2, assign_phase fx specs f = OK (m2, r_mods r) /\ r_props r = fst (add_defaults d m2 []).
Proof.
  intros fx specs d f r E. unfold resolve_gen in E. unfold assign_phase.
  destruct (negb (nodupb (map sname specs))); [discriminate|].
  destruct (normal_phase fx f (triples (filter (fun s => negb (is_mod s)) specs))) as [m1|]; [|discriminate].
  destruct (modify fx f (triples (filter is_mod specs)) m1 []) as [[m2 g]|]; [|discriminate].
  destruct (add_defaults d m2 []) as [m3 added] eqn:Ea.
  destruct (visit_all (children m3 g) (S (length (specs ++ added))) (specs ++ added) []); [|discriminate].
  inversion E; subst. cbn. exists m2. split; [reflexivity|]. rewrite Ea. reflexivity.
Qed.

(* a held property stays held through the modifying loop, with a priority number that can only decrease *)
Lemma modify_mono : forall fx finals T m g m' g' p s0 k0,
  modify fx finals T m g = OK (m', g') -> lookup m p = Some (s0, k0) ->
  exists s1 k1, lookup m' p = Some (s1, k1) /\ k1 <= k0.
Proof.
  induction T as [|[[s q] k] T IH]; intros m g m' g' p s0 k0 E L; cbn in E.
  - inversion E; subst. exists s0, k0. split; [exact L | lia].
  - destruct (fx && memN q finals); [discriminate|].
    destruct (lookup m q) as [[sq kq]|] eqn:Eq.
    + destruct (k <? kq) eqn:Ek.
      * destruct (N.eq_dec p q) as [->|Hpq].
        -- rewrite Eq in L. inversion L; subst sq kq.
           destruct (IH _ _ _ _ q s k E (lookup_set_eq _ _ _ _)) as (s1 & k1 & A & B).
           exists s1, k1. split; [exact A|]. apply Z.ltb_lt in Ek. lia.
        -- eapply IH; [exact E|]. rewrite lookup_set_neq by exact Hpq. exact L.
      * destruct (memN q (modifiable s)).
        -- destruct (lookup g q); [discriminate|]. eapply IH; eauto.
        -- eapply IH; eauto.
    + destruct (N.eq_dec p q) as [->|Hpq]; [congruence|].
      eapply IH; [exact E|]. rewrite lookup_set_neq by exact Hpq. exact L.
Qed.

Lemma modify_mods : forall fx finals T m g m' g',
  modify fx finals T m g = OK (m', g') ->
  forall p s, lookup g' p = Some s ->
    lookup g p = Some s \/
    exists k, In (s, p, k) T /\ memN p (modifiable s) = true /\
      exists s0 k0, lookup m' p = Some (s0, k0) /\ k0 <= k.
Proof.
  induction T as [|[[s1 q] k1] T IH]; intros m g m' g' E p s L; cbn in E.
  - inversion E; subst. left. exact L.
  - destruct (fx && memN q finals); [discriminate|].
    assert (W : forall k, In (s, p, k) T -> In (s, p, k) ((s1, q, k1) :: T)) by (intros; right; assumption).
    destruct (lookup m q) as [[sq kq]|] eqn:Eq.
    + destruct (k1 <? kq) eqn:Ek.
      * destruct (IH _ _ _ _ E p s L) as [A|(k & A & B & C)]; [left; exact A|].
        right. exists k. auto.
      * destruct (memN q (modifiable s1)) eqn:Em.
        -- destruct (lookup g q) eqn:Eg; [discriminate|].
           destruct (IH _ _ _ _ E p s L) as [A|(k & A & B & C)].
           ++ destruct (N.eq_dec p q) as [->|Hpq].
              ** rewrite lookup_set_eq in A. inversion A; subst s1.
                 right. exists k1. split; [left; reflexivity|]. split; [exact Em|].
                 destruct (modify_mono _ _ _ _ _ _ _ q sq kq E Eq) as (s2 & k2 & X & Y).
                 exists s2, k2. split; [exact X|]. apply Z.ltb_ge in Ek. lia.
              ** rewrite lookup_set_neq in A by exact Hpq. left. exact A.
           ++ right. exists k. auto.
        -- destruct (IH _ _ _ _ E p s L) as [A|(k & A & B & C)]; [left; exact A|].
           right. exists k. auto.
    + destruct (IH _ _ _ _ E p s L) as [A|(k & A & B & C)]; [left; exact A|].
      right. exists k. auto.
Qed.

Theorem modifier_only_modifiable : forall fx specs d f r p s,
  resolve_gen fx specs d f = OK r -> lookup (r_mods r) p = Some s ->
  In s specs /\ is_mod s = true /\ In p (modifiable s) /\
  exists k, In (p, k) (prios s) /\
    exists s0 k0, lookup (r_props r) p = Some (s0, k0) /\ k0 <= k.
Proof.
  intros fx specs d f r p s E L.
  destruct (resolve_gen_assign _ _ _ _ _ E) as (m2 & A & P).
  unfold assign_phase in A.
  destruct (negb (nodupb (map sname specs))); [discriminate|].
  destruct (normal_phase fx f (triples (filter (fun s => negb (is_mod s)) specs))) as [m1|]; [|discriminate].
  destruct (modify_mods _ _ _ _ _ _ _ A p s L) as [X|(k & I & M & s0 & k0 & H & Hk)]; [discriminate|].
  apply triples_in in I. destruct I as [I1 I2]. apply filter_In in I1. destruct I1 as [I1 I3].
  split; [exact I1|]. split; [exact I3|]. split; [apply memN_In; exact M|].
  exists k. split; [exact I2|]. exists s0, k0. split; [|exact Hk].
  rewrite P, add_defaults_lookup, H. reflexivity.
Qed.

Corollary unmodifiable_never_modified : forall fx specs d f r p,
  resolve_gen fx specs d f = OK r ->
  (forall s, In s specs -> is_mod s = true -> ~ In p (modifiable s)) ->
  lookup (r_mods r) p = None.
Proof.
  intros fx specs d f r p E H. destruct (lookup (r_mods r) p) as [s|] eqn:L; [|reflexivity].
  destruct (modifier_only_modifiable _ _ _ _ _ _ _ E L) as (A & B & C & _). exfalso. exact (H s A B C).
Qed.

(* the probe of the regenerated table speaks about the same maps as [resolve] *)
Lemma probe_outcome_resolve : forall specs d r p,
  resolve specs d [] = OK r ->
  (probe_outcome specs p = 1%N <-> exists s, lookup (r_mods r) p = Some s).
Proof.
  intros specs d r p E. destruct (resolve_gen_assign _ _ _ _ _ E) as (m2 & A & _).
  unfold probe_outcome. change (assign_phase true specs []) with (assign_phase true specs (@nil prop)).
  rewrite A. destruct (lookup (r_mods r) p) as [s|].
  - split; [intros _; exists s; reflexivity | reflexivity].
  - split; [destruct (lookup m2 p); discriminate | intros [s H]; discriminate].
Qed.

(* non-vacuity: `with q 5, at, on` where on = position@1 (modifiable) + q@2 (not modifiable) *)
Definition ex_at := mkSpec 1%N [(1%N, 1)] [] false [].
Definition ex_withq := mkSpec 2%N [(2%N, 1)] [] false [].
Definition ex_on := mkSpec 3%N [(1%N, 1); (2%N, 2)] [] true [1%N].
Definition ex_on_bad := mkSpec 3%N [(1%N, 1); (2%N, 2)] [] true [1%N; 2%N].

Example modifiable_example :
  (exists r, resolve [ex_on; ex_at; ex_withq] [] [] = OK r /\
     lookup (r_mods r) 1%N = Some ex_on /\ lookup (r_mods r) 2%N = None) /\
  (exists r, resolve [ex_on_bad; ex_at; ex_withq] [] [] = OK r /\ lookup (r_mods r) 2%N = Some ex_on_bad) /\
  probe_outcome [ex_withq; ex_on] 2%N = 0%N /\ probe_outcome [ex_at; ex_on] 1%N = 1%N /\
  probe_outcome [ex_withq; ex_on_bad] 2%N = 1%N.
Proof.
  split; [eexists; split; [vm_compute; reflexivity|split; reflexivity]|].
  split; [eexists; split; [vm_compute; reflexivity|reflexivity]|].
  repeat split; vm_compute; reflexivity.
Qed.
