(* C06, round 2: class-level merging of defaults ([merge_defaults]), NoDup of the evaluation order, and the
   general case of several modifying specifiers (what is / is not order dependent). *)
From Coq Require Import ZArith NArith List Bool Lia Permutation.
From Scenic Require Import C06.Specifier C06.SpecifierProofs.
Import ListNotations.
Open Scope Z_scope.

(* ================================================================== the evaluation order has no duplicates *)
Section OrderNoDup.
  Variable ch : spec -> list (option spec).

  Definition disj (grey d : list spec) : Prop := forall x, In x grey -> ~ In x d.

  Definition vis_nd (grey : list spec) (vis : spec -> list spec -> result (list spec)) : Prop :=
    forall c d d', NoDup d -> disj grey d -> vis c d = OK d' -> NoDup d' /\ disj grey d'.

  Lemma go_nd : forall grey vis, vis_nd grey vis ->
    forall cs d d', NoDup d -> disj grey d -> go vis cs d = OK d' -> NoDup d' /\ disj grey d'.
  Proof.
    intros grey vis V. induction cs as [|[c|] cs IH]; intros d d' ND DJ E; cbn in E.
    - inversion E; subst. auto.
    - destruct (vis c d) as [d1|] eqn:E1; [|discriminate].
      destruct (V _ _ _ ND DJ E1) as [ND1 DJ1]. eapply IH; eauto.
    - discriminate.
  Qed.

  Lemma visit_nd : forall fuel grey, vis_nd grey (fun c d => visit ch fuel c grey d).
  Proof.
    induction fuel as [|f IH]; intros grey c d d' ND DJ E; cbn in E; [discriminate|].
    destruct (mem_spec c d) eqn:M.
    { inversion E; subst. auto. }
    destruct (mem_spec c grey) eqn:MG; [discriminate|].
    apply mem_spec_false in M. apply mem_spec_false in MG.
    destruct (go (fun c0 d0 => visit ch f c0 (c :: grey) d0) (ch c) d) as [d1|] eqn:G; [|discriminate].
    inversion E; subst d'.
    assert (DJ' : disj (c :: grey) d).
    { intros x [Hx|Hx]; [subst; exact M | apply DJ; exact Hx]. }
    destruct (go_nd _ _ (IH (c :: grey)) _ _ _ ND DJ' G) as [ND1 DJ1].
    split.
    - apply NoDup_snoc. split; [exact ND1|]. apply DJ1. left. reflexivity.
    - intros x Hx Hin. apply in_app_iff in Hin. destruct Hin as [Hin|[Hin|[]]].
      + apply (DJ1 x); [right; exact Hx | exact Hin].
      + subst x. apply MG. exact Hx.
  Qed.

  Lemma visit_all_nd : forall fuel roots d d', NoDup d -> visit_all ch fuel roots d = OK d' -> NoDup d'.
  Proof.
    induction roots as [|v r IH]; intros d d' ND E; cbn in E.
    - inversion E; subst. exact ND.
    - destruct (visit ch fuel v [] d) as [d1|] eqn:E1; [|discriminate].
      destruct (visit_nd fuel [] v d d1 ND (fun x (H : In x []) => match H with end) E1) as [ND1 _].
      eapply IH; eauto.
  Qed.

  (* nothing outside a closed vertex set is ever evaluated *)
  Section Within.
    Variable vs : list spec.
    Hypothesis closed : forall v, In v vs -> forall x, In (Some x) (ch v) -> In x vs.

    Lemma go_within : forall (vis : spec -> list spec -> result (list spec)),
      (forall c d d', In c vs -> incl d vs -> vis c d = OK d' -> incl d' vs) ->
      forall cs d d', (forall x, In (Some x) cs -> In x vs) -> incl d vs -> go vis cs d = OK d' -> incl d' vs.
    Proof.
      intros vis V. induction cs as [|[c|] cs IH]; intros d d' K I E; cbn in E.
      - inversion E; subst. exact I.
      - destruct (vis c d) as [d1|] eqn:E1; [|discriminate].
        eapply IH; [| |exact E].
        + intros x Hx. apply K. right. exact Hx.
        + eapply V; [|exact I|exact E1]. apply K. left. reflexivity.
      - discriminate.
    Qed.

    Lemma visit_within : forall fuel grey c d d', In c vs -> incl d vs ->
      visit ch fuel c grey d = OK d' -> incl d' vs.
    Proof.
      induction fuel as [|f IH]; intros grey c d d' Hc I E; cbn in E; [discriminate|].
      destruct (mem_spec c d); [inversion E; subst; exact I|].
      destruct (mem_spec c grey); [discriminate|].
      destruct (go (fun c0 d0 => visit ch f c0 (c :: grey) d0) (ch c) d) as [d1|] eqn:G; [|discriminate].
      inversion E; subst d'.
      assert (I1 : incl d1 vs).
      { eapply go_within; [| |exact I|exact G].
        - intros c0 d0 d0' H0 I0 E0. cbn beta in E0. eapply IH; [exact H0 | exact I0 | exact E0].
        - intros x Hx. eapply closed; eauto. }
      intros x Hx. apply in_app_iff in Hx. destruct Hx as [Hx|[Hx|[]]]; [apply I1; exact Hx | subst; exact Hc].
    Qed.

    Lemma visit_all_within : forall fuel roots d d', incl roots vs -> incl d vs ->
      visit_all ch fuel roots d = OK d' -> incl d' vs.
    Proof.
      induction roots as [|v r IH]; intros d d' R I E; cbn in E.
      - inversion E; subst. exact I.
      - destruct (visit ch fuel v [] d) as [d1|] eqn:E1; [|discriminate].
        eapply IH; [| |exact E].
        + intros x Hx. apply R. right. exact Hx.
        + eapply visit_within; [|exact I|exact E1]. apply R. left. reflexivity.
    Qed.
  End Within.
End OrderNoDup.

(* Every specifier (and every default that was added) is evaluated exactly once, and nothing else is. *)
Theorem order_nodup : forall fx specs defaults finals r,
  resolve_gen fx specs defaults finals = OK r ->
  NoDup (r_order r) /\ (forall x, In x (r_order r) <-> In x (r_all r)) /\
  (NoDup (r_all r) -> Permutation (r_order r) (r_all r)).
Proof.
  intros fx specs defaults finals r E.
  pose proof (order_topological fx specs defaults finals r E) as [_ [I1 _]].
  unfold resolve_gen in E.
  destruct (negb (nodupb (map sname specs))); [discriminate|].
  change (fun s : spec => negb (is_mod s)) with nm in E.
  destruct (normal_phase fx finals (triples (filter nm specs))) as [m1|] eqn:E1; [|discriminate].
  destruct (modify fx finals (triples (filter is_mod specs)) m1 []) as [[m2 g]|] eqn:E2; [|discriminate].
  pose proof (pre_dfs_closed fx specs defaults finals m1 m2 g E1 E2) as C. cbn zeta in C.
  destruct (add_defaults defaults m2 []) as [m3 added] eqn:EA. cbn [fst snd] in C.
  destruct (visit_all (children m3 g) _ (specs ++ added) []) as [o|] eqn:EO; [|discriminate].
  inversion E; subst r. cbn [r_order r_all] in *.
  assert (ND : NoDup o) by (eapply visit_all_nd; [constructor | exact EO]).
  assert (I2 : incl o (specs ++ added)).
  { eapply (visit_all_within (children m3 g) (specs ++ added)); [| | |exact EO].
    - intros v _ x Hx. eapply C; exact Hx.
    - apply incl_refl.
    - intros x []. }
  split; [exact ND|]. split.
  - intros x. split; [apply I2 | apply I1].
  - intros NDA. apply NoDup_Permutation; [exact ND | exact NDA|]. intros x. split; [apply I2 | apply I1].
Qed.

(* ================================================================== merging of class defaults *)
(* the specification side: all definitions of [p] along the MRO, most derived first *)
Definition defs_c (c : class_props) (p : prop) : list pdef :=
  map snd (filter (fun pd => N.eqb (fst pd) p) c).
Definition defs_of (mro : list class_props) (p : prop) : list pdef :=
  flat_map (fun c => defs_c c p) mro.

Definition stepf (st : amap (list pdef) * list prop) (pd : prop * pdef) : amap (list pdef) * list prop :=
  let '(a, o) := st in
  match lookup a (fst pd) with
  | Some l => (set (fst pd) (l ++ [snd pd]) a, o)
  | None => (set (fst pd) [snd pd] a, o ++ [fst pd])
  end.

Lemma all_defs_cons : forall c rest acc order,
  all_defs (c :: rest) acc order =
  let '(a', o') := fold_left stepf c (acc, order) in all_defs rest a' o'.
Proof. reflexivity. Qed.

Definition comb (o : option (list pdef)) (d : list pdef) : option (list pdef) :=
  match o, d with
  | Some l, _ => Some (l ++ d)
  | None, [] => None
  | None, _ => Some d
  end.

Lemma comb_assoc : forall x d1 d2, comb (comb x d1) d2 = comb x (d1 ++ d2).
Proof.
  intros [l|] d1 d2; cbn.
  - rewrite app_assoc. reflexivity.
  - destruct d1; cbn; reflexivity.
Qed.

Lemma comb_nil : forall x, comb x [] = x.
Proof. intros [l|]; cbn; [rewrite app_nil_r|]; reflexivity. Qed.

Definition minv (a : amap (list pdef)) (o : list prop) : Prop :=
  NoDup o /\ (forall p, In p o <-> lookup a p <> None) /\ (forall p l, lookup a p = Some l -> l <> []).

Lemma defs_c_cons : forall pd c p,
  defs_c (pd :: c) p = (if N.eqb (fst pd) p then [snd pd] else []) ++ defs_c c p.
Proof. intros pd c p. unfold defs_c, prop in *. cbn [filter]. destruct (N.eqb (fst pd) p); reflexivity. Qed.

Lemma step_inv : forall a o pd a1 o1, minv a o -> stepf (a, o) pd = (a1, o1) ->
  minv a1 o1 /\ forall p, lookup a1 p = comb (lookup a p) (if N.eqb (fst pd) p then [snd pd] else []).
Proof.
  intros a o [q d] a1 o1 [ND [IO NE]] E. cbn [stepf fst snd] in E. cbn [fst snd].
  destruct (lookup a q) as [l|] eqn:Eq; inversion E; subst a1 o1; clear E.
  - split.
    + split; [exact ND|]. split.
      * intros p. rewrite IO. destruct (N.eq_dec p q) as [->|Hpq].
        -- rewrite lookup_set_eq, Eq. split; discriminate.
        -- rewrite lookup_set_neq by exact Hpq. tauto.
      * intros p l0. destruct (N.eq_dec p q) as [->|Hpq].
        -- rewrite lookup_set_eq. intros H; inversion H; subst. destruct l; discriminate.
        -- rewrite lookup_set_neq by exact Hpq. apply NE.
    + intros p. destruct (N.eqb q p) eqn:Eqp.
      * apply N.eqb_eq in Eqp. subst p. rewrite lookup_set_eq, Eq. reflexivity.
      * apply N.eqb_neq in Eqp. rewrite lookup_set_neq by congruence. rewrite comb_nil. reflexivity.
  - assert (Hq : ~ In q o) by (rewrite IO, Eq; tauto).
    split.
    + split; [apply NoDup_snoc; auto|]. split.
      * intros p. rewrite in_app_iff. destruct (N.eq_dec p q) as [->|Hpq].
        -- rewrite lookup_set_eq. split; [discriminate | intros _; right; left; reflexivity].
        -- rewrite lookup_set_neq by exact Hpq. rewrite <- IO. cbn. split; [intros [H|[H|[]]]; [exact H | congruence] | auto].
      * intros p l0. destruct (N.eq_dec p q) as [->|Hpq].
        -- rewrite lookup_set_eq. intros H; inversion H; subst. discriminate.
        -- rewrite lookup_set_neq by exact Hpq. apply NE.
    + intros p. destruct (N.eqb q p) eqn:Eqp.
      * apply N.eqb_eq in Eqp. subst p. rewrite lookup_set_eq, Eq. reflexivity.
      * apply N.eqb_neq in Eqp. rewrite lookup_set_neq by congruence. rewrite comb_nil. reflexivity.
Qed.

Lemma fold_inv : forall c a o a' o', minv a o -> fold_left stepf c (a, o) = (a', o') ->
  minv a' o' /\ forall p, lookup a' p = comb (lookup a p) (defs_c c p).
Proof.
  induction c as [|pd c IH]; intros a o a' o' I E; cbn [fold_left] in E.
  - inversion E; subst. split; [exact I|]. intros p. unfold defs_c. cbn. rewrite comb_nil. reflexivity.
  - destruct (stepf (a, o) pd) as [a1 o1] eqn:E1.
    destruct (step_inv _ _ _ _ _ I E1) as [I1 L1].
    destruct (IH _ _ _ _ I1 E) as [I2 L2]. split; [exact I2|].
    intros p. rewrite L2, L1, comb_assoc, defs_c_cons. reflexivity.
Qed.

Lemma all_defs_inv : forall mro a o a' o', minv a o -> all_defs mro a o = (a', o') ->
  minv a' o' /\ forall p, lookup a' p = comb (lookup a p) (defs_of mro p).
Proof.
  induction mro as [|c rest IH]; intros a o a' o' I E.
  - cbn in E. inversion E; subst. split; [exact I|]. intros p. cbn. rewrite comb_nil. reflexivity.
  - rewrite all_defs_cons in E. destruct (fold_left stepf c (a, o)) as [a1 o1] eqn:E1.
    destruct (fold_inv _ _ _ _ _ I E1) as [I1 L1].
    destruct (IH _ _ _ _ I1 E) as [I2 L2]. split; [exact I2|].
    intros p. rewrite L2, L1, comb_assoc. reflexivity.
Qed.

Lemma union_deps_In : forall b a x, In x (union_deps a b) <-> In x a \/ In x b.
Proof.
  induction b as [|y b IH]; intros a x; cbn.
  - tauto.
  - destruct (memN y a) eqn:M.
    + rewrite IH. apply memN_In in M. split; [tauto|]. intros [H|[H|H]]; subst; auto.
    + rewrite IH, in_app_iff. cbn. tauto.
Qed.

Lemma fold_union_In : forall rest a x,
  In x (fold_left (fun a d => union_deps a (d_deps d)) rest a) <-> In x a \/ exists d, In d rest /\ In x (d_deps d).
Proof.
  induction rest as [|d rest IH]; intros a x; cbn.
  - split; [auto | intros [H|[d [[] _]]]; exact H].
  - rewrite IH, union_deps_In. split.
    + intros [[H|H]|[d0 [H1 H2]]]; [auto | right; exists d; auto | right; exists d0; auto].
    + intros [H|[d0 [[H1|H1] H2]]]; [auto | subst; auto | right; exists d0; auto].
Qed.

Lemma merge_props_spec : forall order a ds fin dyn ds' fin' dyn',
  (forall p, In p order -> lookup a p <> None) ->
  merge_props order a ds fin dyn = Merged ds' fin' dyn' ->
  map fst ds' = map fst ds ++ order /\
  (forall p s, In (p, s) ds' -> In (p, s) ds \/
     (In p order /\ exists defs, lookup a p = Some defs /\ default_spec p defs = Some s)) /\
  (forall p, In p order -> exists defs s, lookup a p = Some defs /\ default_spec p defs = Some s) /\
  (forall p, In p fin' <-> In p fin \/ (In p order /\ exists d defs, lookup a p = Some (d :: defs) /\ d_final d = true)) /\
  (forall p, In p dyn' <-> In p dyn \/ (In p order /\ exists defs, lookup a p = Some defs /\ existsb d_dynamic defs = true)).
Proof.
  induction order as [|q order IH]; intros a ds fin dyn ds' fin' dyn' K E; cbn [merge_props] in E.
  - inversion E; subst. rewrite app_nil_r. split; [reflexivity|]. split; [auto|]. split; [intros p []|].
    split; intros p; split; auto; intros [H|[[] _]]; exact H.
  - destruct (lookup a q) as [defs|] eqn:Eq.
    2:{ exfalso. apply (K q); [left; reflexivity | exact Eq]. }
    destruct (default_spec q defs) as [s|] eqn:Ed; [|discriminate].
    assert (K' : forall p, In p order -> lookup a p <> None) by (intros p Hp; apply K; right; exact Hp).
    destruct (IH _ _ _ _ _ _ _ K' E) as [A [B [C [D F]]]].
    split; [rewrite A, map_app, <- app_assoc; reflexivity|].
    split.
    { intros p s0 H. destruct (B p s0 H) as [H1|[H1 H2]].
      - apply in_app_iff in H1. destruct H1 as [H1|[H1|[]]]; [left; exact H1|].
        inversion H1; subst p s0. right. split; [left; reflexivity|]. exists defs. auto.
      - right. split; [right; exact H1 | exact H2]. }
    split.
    { intros p [Hp|Hp]; [subst p; exists defs, s; auto | apply C; exact Hp]. }
    split.
    { intros p. rewrite D. split.
      - intros [H|[H1 H2]]; [|right; split; [right; exact H1 | exact H2]].
        destruct defs as [|d defs']; [left; exact H|].
        destruct (d_final d) eqn:Fd; [|left; exact H].
        apply in_app_iff in H. destruct H as [H|[H|[]]]; [left; exact H|].
        subst p. right. split; [left; reflexivity|]. exists d, defs'. auto.
      - intros [H|[[H1|H1] [d [defs' [H2 H3]]]]].
        + left. destruct defs as [|d0 defs0]; [exact H|]. destruct (d_final d0); [apply in_app_iff; left|]; exact H.
        + subst p. left. rewrite Eq in H2. inversion H2; subst defs. rewrite H3. apply in_app_iff. right. left. reflexivity.
        + right. split; [exact H1|]. exists d, defs'. auto. }
    { intros p. rewrite F. split.
      - intros [H|[H1 H2]]; [|right; split; [right; exact H1 | exact H2]].
        destruct (existsb d_dynamic defs) eqn:Y; [|left; exact H].
        apply in_app_iff in H. destruct H as [H|[H|[]]]; [left; exact H|].
        subst p. right. split; [left; reflexivity|]. exists defs. auto.
      - intros [H|[[H1|H1] [defs' [H2 H3]]]].
        + left. destruct (existsb d_dynamic defs); [apply in_app_iff; left|]; exact H.
        + subst p. left. rewrite Eq in H2. inversion H2; subst defs'. rewrite H3. apply in_app_iff. right. left. reflexivity.
        + right. split; [exact H1|]. exists defs'. auto. }
Qed.

Lemma merge_props_final : forall order a ds fin dyn q,
  merge_props order a ds fin dyn = OverridesFinal q ->
  In q order /\ exists defs, lookup a q = Some defs /\ default_spec q defs = None.
Proof.
  induction order as [|p order IH]; intros a ds fin dyn q E; cbn [merge_props] in E; [discriminate|].
  destruct (lookup a p) as [defs|] eqn:Ep.
  - destruct (default_spec p defs) as [s|] eqn:Ed.
    + destruct (IH _ _ _ _ _ E) as [H1 H2]. split; [right; exact H1 | exact H2].
    + inversion E; subst q. split; [left; reflexivity|]. exists defs. auto.
  - destruct (IH _ _ _ _ _ E) as [H1 H2]. split; [right; exact H1 | exact H2].
Qed.

Lemma default_spec_some : forall p defs s, default_spec p defs = Some s ->
  exists primary rest, defs = primary :: rest /\ existsb d_final rest = false /\
    sname s = 0%N /\ prios s = [(p, -1)] /\ is_mod s = false /\ modifiable s = [] /\
    (if d_additive primary
     then forall x, In x (deps s) <-> exists d, In d (primary :: rest) /\ In x (d_deps d)
     else deps s = d_deps primary).
Proof.
  intros p [|primary rest] s E; cbn in E; [discriminate|].
  destruct (existsb d_final rest) eqn:F; [discriminate|]. inversion E; subst s; clear E.
  exists primary, rest. cbn [sname prios is_mod modifiable deps]. split; [reflexivity|]. split; [exact F|]. do 4 (split; [reflexivity|]).
  destruct (d_additive primary); [|reflexivity].
  intros x. rewrite fold_union_In. split.
  - intros [H|[d [H1 H2]]]; [exists primary; split; [left; reflexivity | exact H] | exists d; split; [right; exact H1 | exact H2]].
  - intros [d [[H1|H1] H2]]; [subst; auto | right; exists d; auto].
Qed.

Lemma default_spec_none : forall p defs, defs <> [] -> default_spec p defs = None ->
  exists primary rest, defs = primary :: rest /\ existsb d_final rest = true.
Proof.
  intros p [|primary rest] NE E; [congruence|]. cbn in E.
  destruct (existsb d_final rest) eqn:F; [|discriminate]. exists primary, rest. auto.
Qed.

Lemma minv_nil : minv [] [].
Proof. split; [constructor|]. split; [intros p; cbn; tauto | intros p l H; discriminate]. Qed.

Lemma comb_none : forall d, comb None d = match d with [] => None | _ => Some d end.
Proof. intros [|x d]; reflexivity. Qed.

(* defaults_most_derived: the class's default for [p] comes from the MOST DERIVED class of the MRO defining [p]
   (its own dependencies; an additive default depends on everything any definition depends on); a property is
   final iff its most derived definition is; dynamic iff any definition is; a final definition can never be
   overridden; every property defined anywhere gets exactly one default. *)
Theorem defaults_most_derived : forall mro ds fin dyn,
  merge_defaults mro = Merged ds fin dyn ->
  NoDup (map fst ds) /\
  (forall p, In p (map fst ds) <-> defs_of mro p <> []) /\
  (forall p s, In (p, s) ds -> exists primary rest,
      defs_of mro p = primary :: rest /\ existsb d_final rest = false /\
      sname s = 0%N /\ prios s = [(p, -1)] /\ is_mod s = false /\ modifiable s = [] /\
      (if d_additive primary
       then forall x, In x (deps s) <-> exists d, In d (primary :: rest) /\ In x (d_deps d)
       else deps s = d_deps primary)) /\
  (forall p, In p fin <-> exists primary rest, defs_of mro p = primary :: rest /\ d_final primary = true) /\
  (forall p, In p dyn <-> exists d, In d (defs_of mro p) /\ d_dynamic d = true).
Proof.
  intros mro ds fin dyn E. unfold merge_defaults in E.
  destruct (all_defs mro [] []) as [a order] eqn:EA.
  destruct (all_defs_inv _ _ _ _ _ minv_nil EA) as [[ND [IO NE]] L].
  assert (L' : forall p, lookup a p = match defs_of mro p with [] => None | _ => Some (defs_of mro p) end).
  { intros p. rewrite L. cbn [lookup]. apply comb_none. }
  assert (K : forall p, In p order -> lookup a p <> None) by (intros p; apply IO).
  destruct (merge_props_spec _ _ _ _ _ _ _ _ K E) as [A [B [_ [D F]]]]. cbn [map app] in A.
  split; [rewrite A; exact ND|]. split.
  { intros p. rewrite A, IO, L'. destruct (defs_of mro p); split; congruence. }
  split.
  { intros p s H. destruct (B p s H) as [[]|[_ [defs [H1 H2]]]].
    rewrite L' in H1. destruct (default_spec_some _ _ _ H2) as [pr [rest [E1 R]]].
    exists pr, rest. split; [|exact R]. destruct (defs_of mro p); [discriminate|]. congruence. }
  split.
  { intros p. rewrite D. split.
    - intros [[]|[_ [d [defs [H1 H2]]]]]. rewrite L' in H1. exists d, defs.
      destruct (defs_of mro p); [discriminate|]. inversion H1; subst. auto.
    - intros [pr [rest [H1 H2]]]. right. split.
      + apply IO. rewrite L', H1. discriminate.
      + exists pr, rest. rewrite L', H1. auto. }
  { intros p. rewrite F. split.
    - intros [[]|[_ [defs [H1 H2]]]]. rewrite L' in H1.
      assert (defs = defs_of mro p) by (destruct (defs_of mro p); [discriminate | inversion H1; reflexivity]).
      subst defs. apply existsb_exists in H2. exact H2.
    - intros [d [H1 H2]]. right.
      assert (NEp : defs_of mro p <> []) by (intros Z; rewrite Z in H1; contradiction).
      split.
      + apply IO. rewrite L'. destruct (defs_of mro p); [congruence | discriminate].
      + exists (defs_of mro p). split; [rewrite L'; destruct (defs_of mro p); [congruence | reflexivity]|].
        apply existsb_exists. exists d. auto. }
Qed.

(* merging fails exactly when some class overrides a default that a less derived class declared final *)
Theorem defaults_override_final : forall mro,
  (exists p, merge_defaults mro = OverridesFinal p) <->
  (exists p primary rest, defs_of mro p = primary :: rest /\ existsb d_final rest = true).
Proof.
  intros mro. unfold merge_defaults.
  destruct (all_defs mro [] []) as [a order] eqn:EA.
  destruct (all_defs_inv _ _ _ _ _ minv_nil EA) as [[ND [IO NE]] L].
  assert (L' : forall p, lookup a p = match defs_of mro p with [] => None | _ => Some (defs_of mro p) end).
  { intros p. rewrite L. cbn [lookup]. apply comb_none. }
  split.
  - intros [p E]. destruct (merge_props_final _ _ _ _ _ _ E) as [_ [defs [H1 H2]]].
    assert (NEd : defs <> []) by (eapply NE; exact H1).
    destruct (default_spec_none _ _ NEd H2) as [pr [rest [E1 E2]]]. exists p, pr, rest. split; [|exact E2].
    rewrite L' in H1. destruct (defs_of mro p); [discriminate|]. congruence.
  - intros [p [pr [rest [H1 H2]]]].
    destruct (merge_props order a [] [] []) as [ds fin dyn|q] eqn:E; [|exists q; reflexivity].
    exfalso.
    assert (K : forall p, In p order -> lookup a p <> None) by (intros p0; apply IO).
    destruct (merge_props_spec _ _ _ _ _ _ _ _ K E) as [_ [_ [C _]]].
    assert (Hp : In p order) by (apply IO; rewrite L', H1; discriminate).
    destruct (C p Hp) as [defs [s [E1 E2]]]. rewrite L', H1 in E1. inversion E1; subst defs.
    cbn in E2. rewrite H2 in E2. discriminate.
Qed.

Lemma lookup_In : forall V (m : amap V) p v, lookup m p = Some v -> In (p, v) m.
Proof.
  induction m as [|[q w] m IH]; intros p v H; cbn in H; [discriminate|].
  destruct (N.eqb p q) eqn:E.
  - apply N.eqb_eq in E. inversion H; subst. left. reflexivity.
  - right. apply IH. exact H.
Qed.

(* the default that resolution falls back to ([lookup defaults p], cf. resolve_matches_doc) is the most derived one *)
Corollary default_used_most_derived : forall mro ds fin dyn p s,
  merge_defaults mro = Merged ds fin dyn -> lookup ds p = Some s ->
  exists primary rest, defs_of mro p = primary :: rest /\
    (d_additive primary = false -> deps s = d_deps primary) /\ prios s = [(p, -1)].
Proof.
  intros mro ds fin dyn p s E H. apply lookup_In in H.
  destruct (defaults_most_derived _ _ _ _ E) as [_ [_ [B _]]].
  destruct (B p s H) as [pr [rest [E1 [_ [_ [E2 [_ [_ E3]]]]]]]]. exists pr, rest.
  split; [exact E1|]. split; [|exact E2]. intros Ad. rewrite Ad in E3. exact E3.
Qed.

(* self-test M4 of round 1 as a statement: taking the LEAST derived definition as primary is a different function *)
Definition cls_derived : class_props := [(1%N, mkPdef [2%N] false false false)].
Definition cls_base : class_props := [(1%N, mkPdef [] false false false); (2%N, mkPdef [] false false false)].
Example merge_example :
  merge_defaults [cls_derived; cls_base] =
    Merged [(1%N, mkSpec 0%N [(1%N, -1)] [2%N] false []); (2%N, mkSpec 0%N [(2%N, -1)] [] false [])] [] [] /\
  merge_defaults [[(1%N, mkPdef [] false false false)]; [(1%N, mkPdef [] false false true)]] = OverridesFinal 1%N /\
  merge_defaults [[(1%N, mkPdef [3%N] true true false)]; [(1%N, mkPdef [2%N] true false false)]] =
    Merged [(1%N, mkSpec 0%N [(1%N, -1)] [3%N; 2%N] false [])] [] [1%N].
Proof. vm_compute. repeat split; reflexivity. Qed.

(* ================================================================== several modifying specifiers *)
(* What does NOT depend on the order, however many modifying specifiers there are: the property ends up held
   with the best priority anybody (normal or modifying) gives it, by a specifier that gives it that priority. *)
Lemma modify_min : forall fx finals T m g m' g' p,
  modify fx finals T m g = OK (m', g') ->
  match lookup m' p with
  | Some (x, kx) =>
      (lookup m p = Some (x, kx) \/ In (x, p, kx) T) /\
      (forall s k, In (s, p, k) T -> kx <= k) /\
      (forall s0 k0, lookup m p = Some (s0, k0) -> kx <= k0)
  | None => lookup m p = None /\ forall s k, ~ In (s, p, k) T
  end.
Proof.
  induction T as [|[[s q] k] T IH]; intros m g m' g' p E; cbn in E.
  - inversion E; subst. destruct (lookup m' p) as [[x kx]|] eqn:L.
    + split; [left; reflexivity|]. split; [intros s k []|]. intros s0 k0 H. inversion H; subst. lia.
    + split; [reflexivity | intros s k []].
  - destruct (fx && memN q finals); [discriminate|].
    destruct (lookup m q) as [[s0 k0]|] eqn:Lq.
    + destruct (k <? k0) eqn:Lt.
      * specialize (IH _ _ _ _ p E). apply Z.ltb_lt in Lt.
        destruct (N.eq_dec p q) as [->|Hpq].
        -- rewrite lookup_set_eq in IH. destruct (lookup m' q) as [[x kx]|].
           ++ destruct IH as [A [B C]]. split; [|split].
              ** right. destruct A as [A|A]; [inversion A; subst; left; reflexivity | right; exact A].
              ** intros s1 k1 [H|H]; [inversion H; subst s1 k1; apply (C s k eq_refl) | eapply B; exact H].
              ** intros s1 k1 H. rewrite Lq in H. inversion H; subst. specialize (C s k eq_refl). lia.
           ++ destruct IH as [A _]. discriminate.
        -- rewrite lookup_set_neq in IH by exact Hpq. destruct (lookup m' p) as [[x kx]|].
           ++ destruct IH as [A [B C]]. split; [|split].
              ** destruct A as [A|A]; [left; exact A | right; right; exact A].
              ** intros s1 k1 [H|H]; [inversion H; congruence | eapply B; exact H].
              ** exact C.
           ++ destruct IH as [A B]. split; [exact A|]. intros s1 k1 [H|H]; [inversion H; congruence | eapply B; exact H].
      * apply Z.ltb_ge in Lt.
        assert (E' : exists g1, modify fx finals T m g1 = OK (m', g')).
        { destruct (memN q (modifiable s)); [destruct (lookup g q); [discriminate|]|]; eexists; exact E. }
        destruct E' as [g1 E1]. specialize (IH _ _ _ _ p E1).
        destruct (lookup m' p) as [[x kx]|].
        -- destruct IH as [A [B C]]. split; [|split].
           ++ destruct A as [A|A]; [left; exact A | right; right; exact A].
           ++ intros s1 k1 [H|H]; [|eapply B; exact H]. inversion H; subst s1 p k1.
              specialize (C _ _ Lq). lia.
           ++ exact C.
        -- destruct IH as [A B]. split; [exact A|]. intros s1 k1 [H|H]; [|eapply B; exact H].
           inversion H; subst. congruence.
    + specialize (IH _ _ _ _ p E).
      destruct (N.eq_dec p q) as [->|Hpq].
      * rewrite lookup_set_eq in IH. destruct (lookup m' q) as [[x kx]|].
        -- destruct IH as [A [B C]]. split; [|split].
           ++ right. destruct A as [A|A]; [inversion A; subst; left; reflexivity | right; exact A].
           ++ intros s1 k1 [H|H]; [inversion H; subst s1 k1; apply (C s k eq_refl) | eapply B; exact H].
           ++ intros s1 k1 H. rewrite Lq in H. discriminate.
        -- destruct IH as [A _]. discriminate.
      * rewrite lookup_set_neq in IH by exact Hpq. destruct (lookup m' p) as [[x kx]|].
        -- destruct IH as [A [B C]]. split; [|split].
           ++ destruct A as [A|A]; [left; exact A | right; right; exact A].
           ++ intros s1 k1 [H|H]; [inversion H; congruence | eapply B; exact H].
           ++ exact C.
        -- destruct IH as [A B]. split; [exact A|]. intros s1 k1 [H|H]; [inversion H; congruence | eapply B; exact H].
Qed.

Theorem resolve_holder_best : forall specs defaults finals r p,
  resolve specs defaults finals = OK r ->
  (exists s k, In s specs /\ In (p, k) (prios s)) ->
  exists x kx, lookup (r_props r) p = Some (x, kx) /\ In x specs /\ In (p, kx) (prios x) /\
    (forall s k, In s specs -> In (p, k) (prios s) -> kx <= k) /\
    (* hence: a specifier that alone gives [p] the best priority holds it, in every order *)
    (forall s, In s specs -> In (p, kx) (prios s) ->
       (forall s' , In s' specs -> In (p, kx) (prios s') -> s' = s) -> x = s).
Proof.
  intros specs defaults finals r p E [s0 [k0 [Hs0 Hk0]]]. unfold resolve, resolve_gen in E.
  destruct (nodupb (map sname specs)); cbn [negb] in E; [|discriminate].
  change (fun s : spec => negb (is_mod s)) with nm in E. unfold normal_phase in E.
  set (Tn := triples (filter nm specs)) in *. set (Tm := triples (filter is_mod specs)) in *.
  pose proof (normal_new_correct finals Tn) as K.
  destruct (normal_new finals Tn [] []) as [m1|]; [|discriminate].
  destruct K as [TF [NF W]].
  destruct (modify true finals Tm m1 []) as [[m2 g]|] eqn:E2; [|discriminate].
  pose proof (add_defaults_lookup defaults m2 []) as AL.
  destruct (add_defaults defaults m2 []) as [m3 added]. cbn [fst] in AL.
  destruct (visit_all (children m3 g) _ (specs ++ added) []); [|discriminate].
  inversion E; subst r. cbn [r_props]. rewrite AL.
  pose proof (modify_min _ _ _ _ _ _ _ p E2) as MM. specialize (W p).
  assert (InT : forall s k, In s specs -> In (p, k) (prios s) -> In (s, p, k) Tn \/ In (s, p, k) Tm).
  { intros s k Hs Hk. destruct (is_mod s) eqn:M.
    - right. apply triples_in. split; [apply filter_In; auto | exact Hk].
    - left. apply triples_in. split; [apply filter_In; split; [exact Hs | unfold nm; rewrite M; reflexivity] | exact Hk]. }
  assert (TnIn : forall s k, In (s, p, k) Tn -> In s specs /\ In (p, k) (prios s)).
  { intros s k H. apply triples_in in H. destruct H as [H1 H2]. apply filter_In in H1. tauto. }
  assert (TmIn : forall s k, In (s, p, k) Tm -> In s specs /\ In (p, k) (prios s)).
  { intros s k H. apply triples_in in H. destruct H as [H1 H2]. apply filter_In in H1. tauto. }
  destruct (lookup m2 p) as [[x kx]|].
  - destruct MM as [A [B C]]. exists x, kx. split; [reflexivity|].
    assert (HX : In x specs /\ In (p, kx) (prios x)).
    { destruct A as [A|A]; [|apply TmIn; exact A]. rewrite A in W. destruct W as [W _]. apply TnIn. exact W. }
    destruct HX as [HX1 HX2]. split; [exact HX1|]. split; [exact HX2|]. split.
    + intros s k Hs Hk. destruct (InT s k Hs Hk) as [H|H]; [|eapply B; exact H].
      destruct (lookup m1 p) as [[s1 k1]|] eqn:L1.
      * specialize (C _ _ eq_refl). destruct W as [_ Wm]. specialize (Wm _ _ H). lia.
      * exfalso. eapply W; exact H.
    + intros s Hs Hk U. apply U; assumption.
  - exfalso. destruct MM as [A B]. destruct (InT s0 k0 Hs0 Hk0) as [H|H]; [|eapply B; exact H].
    rewrite A in W. eapply W; exact H.
Qed.

(* What DOES depend on the order as soon as two different modifying specifiers exist (Scenic has one, `on`;
   users cannot define any): which of the losing modifying specifiers still *modifies* the property --
   a modifier written before a better one is dropped, written after it it modifies -- and with three of them
   even whether resolution succeeds. *)
Definition mN := mkSpec 1%N [(1%N, 3)] [] false [].
Definition mA := mkSpec 2%N [(1%N, 1)] [] true [1%N].
Definition mB := mkSpec 3%N [(1%N, 2)] [] true [1%N].
Definition mC := mkSpec 4%N [(1%N, 2)] [] true [1%N].

Theorem two_modifiers_order_dependent :
  Permutation [mN; mA; mB] [mN; mB; mA] /\
  (exists r r', resolve [mN; mA; mB] [] [] = OK r /\ resolve [mN; mB; mA] [] [] = OK r' /\
     lookup (r_props r) 1%N = Some (mA, 1) /\ lookup (r_props r') 1%N = Some (mA, 1) /\
     lookup (r_mods r) 1%N = Some mB /\ lookup (r_mods r') 1%N = None) /\
  ~ same_outcome (resolve [mN; mA; mB] [] []) (resolve [mN; mB; mA] [] []).
Proof.
  split; [apply perm_skip; apply perm_swap|]. split.
  - eexists. eexists. vm_compute. repeat split; reflexivity.
  - vm_compute. intros [_ [H _]]. discriminate.
Qed.

Theorem three_modifiers_error_order_dependent :
  Permutation [mN; mA; mB; mC] [mN; mB; mA; mC] /\
  resolve [mN; mA; mB; mC] [] [] = Err EModifiedTwice /\
  ~ is_err (resolve [mN; mB; mA; mC] [] []).
Proof.
  split; [apply perm_skip; apply perm_swap|]. split; vm_compute; [reflexivity | tauto].
Qed.
